/-
  C10 helper lemmas: the invariant of the image state machine and its preservation by a small set of
  abstract ownership transitions (new / free / setless / exch / move / upd / dead).  The property
  theorems in Props/C10.lean show that every member function of the model is a composition of these.
-/
import GilVerif.Model.C10

namespace GilVerif.Lemmas.C10
open GilVerif.Gen.C10 GilVerif.Model.C10

/-- an image that owns nothing -/
def Memless (c : Cfg) (j : Img) : Prop :=
  j.mem = none ∧ j.allocated = 0 ∧ j.w * j.h = 0 ∧ j.pix.length = 0 ∧ (c.empty = true → j.tag = 0)

/-- The invariant.  Every live image owns exactly one live allocation whose recorded size and allocator are the
    image's `_allocated_bytes` and `_alloc` (or none, and then it records 0 bytes and has no pixels); no allocation is owned
    twice; every live allocation is owned (no leak); no allocation was released twice, with a wrong size or through
    another allocator; the elements constructed in an allocation are exactly the pixels of its owner; released
    allocations hold no constructed element; nothing was constructed or destroyed through a null pointer. -/
structure Inv (c : Cfg) (w : World) : Prop where
  blocks : ∀ (b : Nat) (blk : Block), w.heap[b]? = some blk →
      blk.bad = false ∧ blk.over = false ∧ blk.leaked = false ∧ blk.freed ≤ 1 ∧ (blk.freed = 1 → blk.cons = 0)
  owned : ∀ (s : Nat) (i : Img) (b : Nat), w.imgs s = some i → i.mem = some b →
      ∃ blk, w.heap[b]? = some blk ∧ blk.freed = 0 ∧ blk.size = i.allocated ∧ blk.tag = i.tag ∧ blk.cons = i.w * i.h ∧ 0 < i.allocated
  unique : ∀ (s s' : Nat) (i i' : Img) (b : Nat), w.imgs s = some i → w.imgs s' = some i' → i.mem = some b → i'.mem = some b → s = s'
  noleak : ∀ (b : Nat) (blk : Block), w.heap[b]? = some blk → blk.freed = 0 → ∃ s i, w.imgs s = some i ∧ i.mem = some b
  nomem : ∀ (s : Nat) (i : Img), w.imgs s = some i → i.mem = none → i.allocated = 0 ∧ i.w * i.h = 0
  noub : w.ub = false
  tags : c.empty = true → ∀ (s : Nat) (i : Img), w.imgs s = some i → i.tag = 0
  pixlen : ∀ (s : Nat) (i : Img), w.imgs s = some i → i.pix.length = i.w * i.h

theorem Inv.congr {c : Cfg} {w w' : World} (h : Inv c w) (hh : w'.heap = w.heap) (hi : w'.imgs = w.imgs) (hu : w'.ub = w.ub) : Inv c w' := by
  obtain ⟨h1, h2, h3, h4, h5, h6, h7, h8⟩ := h
  constructor <;> (first | (rw [hh]; assumption) | (rw [hi]; assumption) | (rw [hu]; assumption) | (rw [hh, hi]; assumption))

/-- a fresh allocation handed to a slot that owned nothing -/
theorem Inv.new {c : Cfg} {w w' : World} (h : Inv c w) (s : Nat) (i : Img) (n k : Nat)
    (hs : ∀ j, w.imgs s = some j → j.mem = none)
    (hm : i.mem = some w.heap.length) (ha : i.allocated = n) (hn : 0 < n) (hk : i.w * i.h = k) (hp : i.pix.length = k)
    (ht : c.empty = true → i.tag = 0)
    (hh : w'.heap = w.heap ++ [{ size := n, tag := i.tag, cons := k }])
    (hi : ∀ x, w'.imgs x = if x = s then some i else w.imgs x) (hu : w'.ub = w.ub) : Inv c w' := by
  obtain ⟨h1, h2, h3, h4, h5, h6, h7, h8⟩ := h
  constructor
  · intro b blk; rw [hh]; grind
  · intro s' i' b; rw [hh, hi]
    by_cases hss : s' = s
    · simp only [hss, if_true]; intro e1 e2
      have : i = i' := by simpa using e1
      subst this
      have : b = w.heap.length := by rw [hm] at e2; simpa using e2.symm
      subst this
      exact ⟨{ size := n, tag := i.tag, cons := k }, by simp, rfl, ha.symm, rfl, hk.symm, by omega⟩
    · simp only [hss, if_false]; intro e1 e2
      obtain ⟨blk, hb, r⟩ := h2 s' i' b e1 e2
      exact ⟨blk, by grind, r⟩
  · intro s1 s2 i1 i2 b; rw [hi, hi]; grind
  · intro b blk; rw [hh]; intro hb hf
    by_cases hb' : b = w.heap.length
    · exact ⟨s, i, by rw [hi]; simp, by rw [hm, hb']⟩
    · have : w.heap[b]? = some blk := by grind
      obtain ⟨s', i', hs', hm'⟩ := h4 b blk this hf
      refine ⟨s', i', ?_, hm'⟩
      rw [hi]; grind
  · intro s' i'; rw [hi]; grind
  · rw [hu]; exact h6
  · intro he s' i'; rw [hi]; grind
  · intro s' i'; rw [hi]; grind

/-- an allocation that is released again before anybody owns it (constructor roll-back) -/
theorem Inv.dead {c : Cfg} {w w' : World} (h : Inv c w) (n t : Nat)
    (hh : w'.heap = w.heap ++ [{ size := n, tag := t, freed := 1 }]) (hi : w'.imgs = w.imgs) (hu : w'.ub = w.ub) : Inv c w' := by
  obtain ⟨h1, h2, h3, h4, h5, h6, h7, h8⟩ := h
  constructor
  · intro b blk; rw [hh]; grind
  · intro s' i' b; rw [hh, hi]; intro e1 e2
    obtain ⟨blk, hb, r⟩ := h2 s' i' b e1 e2
    exact ⟨blk, by grind, r⟩
  · rw [hi]; exact h3
  · intro b blk; rw [hh, hi]; intro hb hf
    have : w.heap[b]? = some blk := by grind
    exact h4 b blk this hf
  · rw [hi]; exact h5
  · rw [hu]; exact h6
  · rw [hi]; exact h7
  · rw [hi]; exact h8

/-- the owner of block `b` releases it (all its elements destroyed, deallocated once with the right size and allocator);
    the slot becomes empty or holds an image that owns nothing -/
theorem Inv.free {c : Cfg} {w w' : World} (h : Inv c w) (s b : Nat) (i : Img) (blk : Block)
    (hs : w.imgs s = some i) (hm : i.mem = some b) (hb : w.heap[b]? = some blk)
    (r : Option Img) (hr : ∀ j, r = some j → Memless c j)
    (hh : w'.heap = w.heap.set b { blk with cons := 0, freed := 1 })
    (hi : ∀ x, w'.imgs x = if x = s then r else w.imgs x) (hu : w'.ub = w.ub) : Inv c w' := by
  obtain ⟨h1, h2, h3, h4, h5, h6, h7, h8⟩ := h
  unfold Memless at hr
  have hblk := h1 b blk hb
  obtain ⟨blk0, hb0, hf0, -⟩ := h2 s i b hs hm
  have e0 : blk0 = blk := by grind
  subst e0
  constructor
  · intro b' blk'; rw [hh]; grind
  · intro s' i' b'; rw [hh, hi]
    by_cases hss : s' = s
    · simp only [hss, if_true]; grind
    · simp only [hss, if_false]; intro e1 e2
      have hne : b' ≠ b := by
        intro e; subst e; exact hss (h3 s' s i' i b' e1 hs e2 hm)
      obtain ⟨blk', hb', r'⟩ := h2 s' i' b' e1 e2
      exact ⟨blk', by grind, r'⟩
  · intro s1 s2 i1 i2 b'; rw [hi, hi]; grind
  · intro b' blk'; rw [hh]; intro hb' hf'
    have hne : b' ≠ b := by grind
    have : w.heap[b']? = some blk' := by grind
    obtain ⟨s', i', hs', hm'⟩ := h4 b' blk' this hf'
    have : s' ≠ s := by grind
    exact ⟨s', i', by rw [hi]; simp [this, hs'], hm'⟩
  · intro s' i'; rw [hi]; grind
  · rw [hu]; exact h6
  · intro he s' i'; rw [hi]; grind
  · intro s' i'; rw [hi]; grind

/-- a slot that owns nothing is emptied or given another image that owns nothing -/
theorem Inv.setless {c : Cfg} {w w' : World} (h : Inv c w) (s : Nat)
    (hs : ∀ j, w.imgs s = some j → j.mem = none)
    (r : Option Img) (hr : ∀ j, r = some j → Memless c j)
    (hh : w'.heap = w.heap) (hi : ∀ x, w'.imgs x = if x = s then r else w.imgs x) (hu : w'.ub = w.ub) : Inv c w' := by
  obtain ⟨h1, h2, h3, h4, h5, h6, h7, h8⟩ := h
  unfold Memless at hr
  constructor
  · rw [hh]; exact h1
  · intro s' i' b'; rw [hh, hi]; grind
  · intro s1 s2 i1 i2 b'; rw [hi, hi]; grind
  · intro b' blk'; rw [hh]; intro hb' hf'
    obtain ⟨s', i', hs', hm'⟩ := h4 b' blk' hb' hf'
    have : s' ≠ s := by grind
    exact ⟨s', i', by rw [hi]; simp [this, hs'], hm'⟩
  · intro s' i'; rw [hi]; grind
  · rw [hu]; exact h6
  · intro he s' i'; rw [hi]; grind
  · intro s' i'; rw [hi]; grind

/-- `a'` takes over what `b` had (same block, size, allocator, dimensions, pixels) -/
def Same (a' b : Img) : Prop :=
  a'.mem = b.mem ∧ a'.allocated = b.allocated ∧ a'.tag = b.tag ∧ a'.w = b.w ∧ a'.h = b.h ∧ a'.pix.length = b.pix.length

/-- two slots exchange what they own (swap with equal or propagating allocators) -/
theorem Inv.exch {c : Cfg} {w w' : World} (h : Inv c w) (s s2 : Nat) (a b a' b' : Img)
    (hs : w.imgs s = some a) (hs2 : w.imgs s2 = some b) (ha' : Same a' b) (hb' : Same b' a)
    (hh : w'.heap = w.heap) (hi : ∀ x, w'.imgs x = if x = s2 then some b' else if x = s then some a' else w.imgs x)
    (hu : w'.ub = w.ub) : Inv c w' := by
  obtain ⟨h1, h2, h3, h4, h5, h6, h7, h8⟩ := h
  unfold Same at ha' hb'
  constructor
  · rw [hh]; exact h1
  · intro s' i' b0; rw [hh, hi]; grind
  · intro s1 s2' i1 i2 b0; rw [hi, hi]; grind
  · intro b0 blk0; rw [hh]; intro hb0 hf0
    obtain ⟨s', i', hs', hm'⟩ := h4 b0 blk0 hb0 hf0
    by_cases e1 : s' = s
    · subst e1
      have : i' = a := by grind
      subst this
      exact ⟨s2, b', by rw [hi]; simp, by grind⟩
    · by_cases e2 : s' = s2
      · subst e2
        have : i' = b := by grind
        subst this
        by_cases e3 : s = s'
        · subst e3; exact ⟨s, b', by rw [hi]; simp, by grind⟩
        · exact ⟨s, a', by rw [hi]; simp [e3], by grind⟩
      · exact ⟨s', i', by rw [hi]; simp [e1, e2, hs'], hm'⟩
  · intro s' i'; rw [hi]; grind
  · rw [hu]; exact h6
  · intro he s' i'; rw [hi]; grind
  · intro s' i'; rw [hi]; grind

/-- slot `s` (owning nothing) takes what slot `s2` owns; `s2` is left owning nothing -/
theorem Inv.move {c : Cfg} {w w' : World} (h : Inv c w) (s s2 : Nat) (hne : s ≠ s2) (b a' r : Img)
    (hs : ∀ j, w.imgs s = some j → j.mem = none) (hs2 : w.imgs s2 = some b) (ha' : Same a' b) (hr : Memless c r)
    (hh : w'.heap = w.heap) (hi : ∀ x, w'.imgs x = if x = s2 then some r else if x = s then some a' else w.imgs x)
    (hu : w'.ub = w.ub) : Inv c w' := by
  obtain ⟨h1, h2, h3, h4, h5, h6, h7, h8⟩ := h
  unfold Same at ha'; unfold Memless at hr
  constructor
  · rw [hh]; exact h1
  · intro s' i' b0; rw [hh, hi]; grind
  · intro s1 s2' i1 i2 b0; rw [hi, hi]; grind
  · intro b0 blk0; rw [hh]; intro hb0 hf0
    obtain ⟨s', i', hs', hm'⟩ := h4 b0 blk0 hb0 hf0
    by_cases e2 : s' = s2
    · subst e2
      have : i' = b := by grind
      subst this
      exact ⟨s, a', by rw [hi]; simp [hne], by grind⟩
    · have e1 : s' ≠ s := by grind
      exact ⟨s', i', by rw [hi]; simp [e1, e2, hs'], hm'⟩
  · intro s' i'; rw [hi]; grind
  · rw [hu]; exact h6
  · intro he s' i'; rw [hi]; grind
  · intro s' i'; rw [hi]; grind

/-- the image in slot `s` keeps its block, size and allocator; its view / pixels change, and the block's element
    count follows (recreate into existing storage; fill; write; copy_pixels; `_align_in_bytes = ...`) -/
theorem Inv.upd {c : Cfg} {w w' : World} (h : Inv c w) (s : Nat) (i i' : Img)
    (hs : w.imgs s = some i) (hm : i'.mem = i.mem) (ha : i'.allocated = i.allocated) (ht : i'.tag = i.tag)
    (hp : i'.pix.length = i'.w * i'.h) (hz : i.mem = none → i'.w * i'.h = 0)
    (hh : ∀ b, i.mem = some b → ∃ blk, w.heap[b]? = some blk ∧ w'.heap = w.heap.set b { blk with cons := i'.w * i'.h })
    (hh0 : i.mem = none → w'.heap = w.heap)
    (hi : ∀ x, w'.imgs x = if x = s then some i' else w.imgs x) (hu : w'.ub = w.ub) : Inv c w' := by
  obtain ⟨h1, h2, h3, h4, h5, h6, h7, h8⟩ := h
  cases hmem : i.mem with
  | none =>
    have hh' := hh0 hmem
    constructor
    · rw [hh']; exact h1
    · intro s' i0 b0; rw [hh', hi]; grind
    · intro s1 s2' i1 i2 b0; rw [hi, hi]; grind
    · intro b0 blk0; rw [hh']; intro hb0 hf0
      obtain ⟨s', i0, hs', hm'⟩ := h4 b0 blk0 hb0 hf0
      have : s' ≠ s := by grind
      exact ⟨s', i0, by rw [hi]; simp [this, hs'], hm'⟩
    · intro s' i0; rw [hi]; grind
    · rw [hu]; exact h6
    · intro he s' i0; rw [hi]; grind
    · intro s' i0; rw [hi]; grind
  | some b =>
    obtain ⟨blk, hb, hh'⟩ := hh b hmem
    obtain ⟨blk0, hb0, hf0, hsz, htg, hc, hpos⟩ := h2 s i b hs hmem
    have e0 : blk0 = blk := by grind
    subst e0
    have hblk := h1 b blk0 hb
    constructor
    · intro b' blk'; rw [hh']; grind
    · intro s' i0 b'; rw [hh', hi]
      by_cases hss : s' = s
      · simp only [hss, if_true]; intro e1 e2
        have : i' = i0 := by simpa using e1
        subst this
        have : b' = b := by grind
        subst this
        exact ⟨{ blk0 with cons := i'.w * i'.h }, by grind, hf0, by grind, by grind, rfl, by grind⟩
      · simp only [hss, if_false]; intro e1 e2
        have hne : b' ≠ b := by
          intro e; subst e; exact hss (h3 s' s i0 i b' e1 hs e2 hmem)
        obtain ⟨blk', hb', r'⟩ := h2 s' i0 b' e1 e2
        exact ⟨blk', by grind, r'⟩
    · intro s1 s2' i1 i2 b'; rw [hi, hi]; grind
    · intro b' blk'; rw [hh']; intro hb' hf'
      by_cases hne : b' = b
      · subst hne; exact ⟨s, i', by rw [hi]; simp, by grind⟩
      · have : w.heap[b']? = some blk' := by grind
        obtain ⟨s', i0, hs', hm'⟩ := h4 b' blk' this hf'
        have : s' ≠ s := by grind
        exact ⟨s', i0, by rw [hi]; simp [this, hs'], hm'⟩
    · intro s' i0; rw [hi]; grind
    · rw [hu]; exact h6
    · intro he s' i0; rw [hi]; grind
    · intro s' i0; rw [hi]; grind


/-! ### effect of the primitives on (heap, imgs, ub) -/

@[simp] theorem setImg_imgs (w : World) (s : Nat) (v : Option Img) (x : Nat) : (w.setImg s v).imgs x = if x = s then v else w.imgs x := rfl
@[simp] theorem setImg_heap (w : World) (s : Nat) (v : Option Img) : (w.setImg s v).heap = w.heap := rfl
@[simp] theorem setImg_ub (w : World) (s : Nat) (v : Option Img) : (w.setImg s v).ub = w.ub := rfl
@[simp] theorem setImg_failC (w : World) (s : Nat) (v : Option Img) : (w.setImg s v).failC = w.failC := rfl

@[simp] theorem dealloc_imgs (w : World) (b n t : Nat) : (w.dealloc b n t).imgs = w.imgs := rfl
@[simp] theorem dealloc_ub (w : World) (b n t : Nat) : (w.dealloc b n t).ub = w.ub := rfl
@[simp] theorem dealloc_failC (w : World) (b n t : Nat) : (w.dealloc b n t).failC = w.failC := rfl
theorem dealloc_heap (w : World) (b n t : Nat) (blk : Block) (hb : w.heap[b]? = some blk) :
    (w.dealloc b n t).heap = w.heap.set b { blk with freed := blk.freed + 1, bad := (blk.bad || (blk.size != n) || (blk.tag != t) || (blk.freed != 0)), leaked := (blk.leaked || (blk.cons != 0)) } := by
  simp [World.dealloc, hb]

@[simp] theorem destruct_imgs (w : World) (o : Org) (b : Option Nat) (n : Nat) : (w.destruct o b n).imgs = w.imgs := by
  unfold World.destruct; cases b <;> (split <;> simp) <;> (try split) <;> rfl
@[simp] theorem destruct_failC (w : World) (o : Org) (b : Option Nat) (n : Nat) : (w.destruct o b n).failC = w.failC := by
  unfold World.destruct; cases b <;> (split <;> simp) <;> (try split) <;> rfl
theorem destruct_some (w : World) (o : Org) (b n : Nat) (blk : Block) (hb : w.heap[b]? = some blk) :
    (w.destruct o (some b) n).heap = w.heap.set b { blk with cons := blk.cons - n, over := blk.over || decide (blk.cons < n) }
    ∧ (w.destruct o (some b) n).ub = w.ub := by
  unfold World.destruct; split <;> simp [hb]
theorem destruct_none (w : World) (o : Org) : (w.destruct o none 0).heap = w.heap ∧ (w.destruct o none 0).ub = w.ub := by
  unfold World.destruct; split <;> simp


theorem Block.ext' {a b : Block} (h1 : a.size = b.size) (h2 : a.tag = b.tag) (h3 : a.freed = b.freed) (h4 : a.bad = b.bad)
    (h5 : a.cons = b.cons) (h6 : a.over = b.over) (h7 : a.leaked = b.leaked) : a = b := by
  cases a; cases b; simp_all

/-- `destruct_pixels(_view); deallocate();` of an image that owns block `b` -/
theorem release_owned {c : Cfg} {w : World} (h : Inv c w) (o : Org) (s b : Nat) (i : Img) (hs : w.imgs s = some i) (hm : i.mem = some b) :
    ∃ blk, w.heap[b]? = some blk ∧ (release o w i).heap = w.heap.set b { blk with cons := 0, freed := 1 }
      ∧ (release o w i).imgs = w.imgs ∧ (release o w i).ub = w.ub ∧ (release o w i).failC = w.failC := by
  obtain ⟨blk, hb, hf, hsz, htg, hc, hpos⟩ := h.owned s i b hs hm
  obtain ⟨hbad, hover, hleak, -, -⟩ := h.blocks b blk hb
  refine ⟨blk, hb, ?_⟩
  have hd := destruct_some w o b (i.w * i.h) blk hb
  have hlook : (w.destruct o (some b) (i.w * i.h)).heap[b]? = some { blk with cons := blk.cons - i.w * i.h, over := blk.over || decide (blk.cons < i.w * i.h) } := by
    rw [hd.1]; have : b < w.heap.length := by grind
    simp [this]
  unfold release
  simp only [hm, hpos, if_true]
  refine ⟨?_, by simp, by simp [hd.2], by simp⟩
  rw [dealloc_heap _ _ _ _ _ hlook, hd.1, List.set_set]
  congr 1
  apply Block.ext' <;> simp [hf, hsz, htg, hc, hbad, hover, hleak]

/-- ... of an image that owns nothing -/
theorem release_memless {c : Cfg} {w : World} (h : Inv c w) (o : Org) (s : Nat) (i : Img) (hs : w.imgs s = some i) (hm : i.mem = none) :
    (release o w i).heap = w.heap ∧ (release o w i).imgs = w.imgs ∧ (release o w i).ub = w.ub ∧ (release o w i).failC = w.failC := by
  have hz := (h.nomem s i hs hm).2
  have hd := destruct_none w o
  unfold release
  simp only [hm, hz]
  exact ⟨hd.1, by simp, hd.2, by simp⟩

theorem memless_cleared {c : Cfg} {w : World} (h : Inv c w) (s : Nat) (i : Img) (hs : w.imgs s = some i) (al : Nat) :
    Memless c { i.cleared with align := al } := by
  unfold Memless Img.cleared
  refine ⟨rfl, rfl, by simp, by simp, fun he => h.tags he s i hs⟩

/-- ~image -/
theorem inv_pDtor {c : Cfg} {w : World} (h : Inv c w) (o : Org) (s : Nat) : Inv c (pDtor o w s) := by
  unfold pDtor
  split
  next i hs =>
    cases hm : i.mem with
    | none =>
      obtain ⟨e1, e2, e3, -⟩ := release_memless h o s i hs hm
      exact h.setless s (by grind) none (by simp) (by simp [e1]) (by intro x; simp [e2]) (by simp [e3])
    | some b =>
      obtain ⟨blk, hb, e1, e2, e3, -⟩ := release_owned h o s b i hs hm
      exact h.free s b i blk hs hm hb none (by simp) (by simp [e1]) (by intro x; simp [e2]) (by simp [e3])
  next => exact h

/-- `destruct_pixels(_view); deallocate(); _memory = nullptr; _allocated_bytes = 0; _view = view_t{}` -/
theorem inv_pRelease {c : Cfg} {w : World} (h : Inv c w) (o : Org) (s : Nat) : Inv c (pRelease o w s) := by
  unfold pRelease
  split
  next i hs =>
    have hml : Memless c i.cleared := by simpa [Img.cleared] using memless_cleared h s i hs i.align
    cases hm : i.mem with
    | none =>
      obtain ⟨e1, e2, e3, -⟩ := release_memless h o s i hs hm
      exact h.setless s (by grind) (some i.cleared) (by intro j hj; cases hj; exact hml) (by simp [e1]) (by intro x; simp [e2]) (by simp [e3])
    | some b =>
      obtain ⟨blk, hb, e1, e2, e3, -⟩ := release_owned h o s b i hs hm
      exact h.free s b i blk hs hm hb (some i.cleared) (by intro j hj; cases hj; exact hml) (by simp [e1]) (by intro x; simp [e2]) (by simp [e3])
  next => exact h


theorem pRelease_imgs {w : World} (o : Org) (s : Nat) (a : Img) (hs : w.imgs s = some a) (x : Nat) :
    (pRelease o w s).imgs x = if x = s then some a.cleared else w.imgs x := by
  unfold pRelease; simp only [hs]
  have : (release o w a).imgs = w.imgs := by
    unfold release
    cases a.mem with
    | none => simp
    | some b => simp only []; split <;> simp
  simp [this]

/-- move assignment, propagating or equal allocators: release own storage, adopt the source's -/
theorem inv_pAdopt {c : Cfg} {w : World} (h : Inv c w) (o : Org) (s s2 : Nat) (hne : s ≠ s2) (takeAlloc : Bool)
    (htag : ∀ a b, w.imgs s = some a → w.imgs s2 = some b → takeAlloc = true ∨ a.tag = b.tag) : Inv c (pAdopt o w s s2 takeAlloc) := by
  cases hs : w.imgs s with
  | none => unfold pAdopt; simp [hs]; exact h
  | some a =>
  cases hs2 : w.imgs s2 with
  | none => unfold pAdopt; simp [hs, hs2]; exact h
  | some b =>
    have h1 := inv_pRelease h o s
    have hi1 := pRelease_imgs (w := w) o s a hs
    have hr : Memless c { b.cleared with align := 0 } := memless_cleared h s2 b hs2 0
    have hs2' : (pRelease o w s).imgs s2 = some b := by rw [hi1]; simp [Ne.symm hne, hs2]
    have hcl : ∀ j, (pRelease o w s).imgs s = some j → j.mem = none := by
      intro j; rw [hi1]; simp; intro e; subst e; rfl
    refine h1.move s s2 hne b { b with tag := if takeAlloc then b.tag else a.tag } _ hcl hs2' ?_ hr ?_ ?_ ?_
    · unfold Same
      refine ⟨rfl, rfl, ?_, rfl, rfl, rfl⟩
      cases htag a b hs hs2 with
      | inl e => simp [e]
      | inr e => simp [e]
    · unfold pAdopt pRelease; simp [hs, hs2]
    · intro x; rw [hi1]; unfold pAdopt; simp [hs, hs2]
      have : (release o w a).imgs = w.imgs := by
        unfold release
        cases a.mem with
        | none => simp
        | some b => simp only []; split <;> simp
      by_cases e2 : x = s2 <;> by_cases e1 : x = s <;> simp [e1, e2, this]
    · unfold pAdopt pRelease; simp [hs, hs2]


/-! ### swap, constructors, reuse -/

/-- swap is harmless when assertions are on (an unequal pair stops the program), when the allocators propagate on swap, or when
    all allocators are equal; the remaining case (NDEBUG, unequal, non-propagating) is the finding C10_swap_cross_witness -/
def SwapSafe (c : Cfg) : Prop := c.ndebug = false ∨ c.pocs = true ∨ c.empty = true

theorem inv_pSwap {c : Cfg} {w : World} (h : Inv c w) (hsafe : SwapSafe c) (s s2 : Nat) : Inv c (pSwap c w s s2).1 := by
  unfold pSwap
  split
  next a b hs hs2 =>
    have hx : Inv c ((w.setImg s (some b)).setImg s2 (some a)) :=
      h.exch s s2 a b b a hs hs2 ⟨rfl, rfl, rfl, rfl, rfl, rfl⟩ ⟨rfl, rfl, rfl, rfl, rfl, rfl⟩ (by simp) (by intro x; simp) (by simp)
    split
    · exact hx
    next hne =>
      split
      next hnd =>
        rcases hsafe with e | e | e
        · simp [e] at hnd
        · exact absurd (Or.inl e) hne
        · exact absurd (Or.inr ((h.tags e s a hs).trans (h.tags e s2 b hs2).symm)) hne
      · exact h
  next => exact h

theorem alloc_cases (w : World) (t n : Nat) :
    (w.alloc t n = ({ w with failA := none }, none)) ∨
    (∃ fa, w.alloc t n = ({ w with heap := w.heap ++ [{ size := n, tag := t }], log := Event.alloc w.heap.length n t :: w.log, failA := fa }, some w.heap.length)) := by
  unfold World.alloc
  split
  · exact Or.inl rfl
  · exact Or.inr ⟨_, rfl⟩

/-- no element construction can fail now: the elements are trivial or no fault is pending within the next `n` constructions -/
def CtorOK (o : Org) (w : World) (n : Nat) : Prop := o.nontrivial = false ∨ ∀ k, w.failC = some k → o.epp * n ≤ k

theorem grow_some (w : World) (b n : Nat) (blk : Block) (hb : w.heap[b]? = some blk) :
    (w.grow (some b) n).heap = w.heap.set b { blk with cons := blk.cons + n } ∧ (w.grow (some b) n).imgs = w.imgs ∧ (w.grow (some b) n).ub = w.ub := by
  simp [World.grow, hb]
theorem grow_none (w : World) : w.grow none 0 = w := by simp [World.grow]

theorem construct_some (w : World) (o : Org) (b n : Nat) (blk : Block) (hb : w.heap[b]? = some blk) :
    (w.construct o (some b) n).1.imgs = w.imgs ∧ (w.construct o (some b) n).1.ub = w.ub ∧
    ((w.construct o (some b) n).2 = true → (w.construct o (some b) n).1.heap = w.heap.set b { blk with cons := blk.cons + n }) ∧
    ((w.construct o (some b) n).2 = false → (w.construct o (some b) n).1.heap = w.heap ∧ ¬ CtorOK o w n) := by
  unfold World.construct CtorOK
  split
  next hnt =>
    split
    next k hk =>
      split
      next hlt => simp [hnt, hk]; omega
      · have g := grow_some { w with ctor := w.ctor + o.epp * n, failC := some (k - o.epp * n) } b n blk hb
        simp [g.1, g.2.1, g.2.2]
    · have g := grow_some { w with ctor := w.ctor + o.epp * n } b n blk hb
      simp [g.1, g.2.1, g.2.2]
  · have g := grow_some w b n blk hb
    simp [g.1, g.2.1, g.2.2]

theorem construct_none (w : World) (o : Org) :
    (w.construct o none 0).1.imgs = w.imgs ∧ (w.construct o none 0).1.ub = w.ub ∧ (w.construct o none 0).1.heap = w.heap
    ∧ (w.construct o none 0).2 = true := by
  unfold World.construct
  split
  · split
    · simp [grow_none]
    · simp [grow_none]
  · simp [grow_none]

/-- the constructor bodies allocate_and_default_construct / allocate_and_fill / allocate_and_copy into an empty slot -/
theorem inv_pCtor {c : Cfg} {w : World} (h : Inv c w) (o : Org) (s : Nat) (img0 : Img) (W H : Nat) (content : List Nat) (src : Option (Nat × Nat))
    (hs : w.imgs s = none) (h0 : img0.mem = none ∧ img0.w = 0 ∧ img0.h = 0 ∧ img0.pix = []) (ht : c.empty = true → img0.tag = 0)
    (hlen : content.length = W * H)
    (hz : c.keepDims = true → o.needed img0.align W H = 0 → W * H = 0) : Inv c (pCtor c o w s img0 W H content src).1 := by
  unfold pCtor
  simp only []
  split
  next hn0 =>
    split
    next hk =>
      have hwh := hz hk hn0
      rw [hwh]
      obtain ⟨c1, c2, c3, c4⟩ := construct_none w o
      cases hres : w.construct o none 0 with
      | mk w2 okc =>
        rw [hres] at c1 c2 c3 c4
        simp only [] at c1 c2 c3 c4; subst c4
        simp only []
        refine h.setless s (by simp [hs]) (some { Img.withView o { img0 with allocated := o.needed img0.align W H } W H with pix := content }) ?_ (by simp [c3]) (by intro x; simp [c1]) (by simp [c2])
        intro j hj; cases hj
        exact ⟨by simp [Img.withView, h0.1], by simp [Img.withView, hn0], by simp [Img.withView, hwh], by simp [hlen, hwh], by simpa [Img.withView] using ht⟩
    · split
      · exact h
      · refine h.setless s (by simp [hs]) (some { img0 with allocated := o.needed img0.align W H }) ?_ (by simp) (by intro x; simp) (by simp)
        intro j hj; cases hj
        exact ⟨h0.1, hn0, by simp [h0.2.1], by simp [h0.2.2.2], ht⟩
  next hn0 =>
    rcases alloc_cases w img0.tag (o.needed img0.align W H) with e | ⟨fa, e⟩
    · rw [e]; exact h.congr rfl rfl rfl
    · rw [e]; simp only []
      generalize hw1 : ({ w with heap := w.heap ++ [{ size := o.needed img0.align W H, tag := img0.tag }], log := Event.alloc w.heap.length (o.needed img0.align W H) img0.tag :: w.log, failA := fa } : World) = w1
      have hh1 : w1.heap = w.heap ++ [{ size := o.needed img0.align W H, tag := img0.tag }] := by rw [← hw1]
      have hi1 : w1.imgs = w.imgs := by rw [← hw1]
      have hu1 : w1.ub = w.ub := by rw [← hw1]
      have hb1 : w1.heap[w.heap.length]? = some { size := o.needed img0.align W H, tag := img0.tag } := by rw [hh1]; simp
      obtain ⟨ci, cu, cok, cfail⟩ := construct_some w1 o w.heap.length (W * H) _ hb1
      cases hres : w1.construct o (some w.heap.length) (W * H) with
      | mk w2 okc =>
        rw [hres] at ci cu cok cfail
        simp only [] at ci cu cok cfail
        cases okc with
        | true =>
          simp only []
          have hheap := cok rfl
          refine h.new s ({ Img.withView o { { img0 with allocated := o.needed img0.align W H } with mem := some w.heap.length } W H with pix := content })
            (o.needed img0.align W H) (W * H) (by simp [hs]) ?_ ?_ (by omega) ?_ ?_ ?_ ?_ ?_ ?_
          · simp [Img.withView]
          · simp [Img.withView]
          · simp [Img.withView]
          · simpa using hlen
          · simpa [Img.withView] using ht
          · simp only [setImg_heap]; rw [hheap, hh1]; simp [Img.withView]
          · intro x; simp [ci, hi1]
          · simp [cu, hu1]
        | false =>
          simp only []
          have hheap := (cfail rfl).1
          have hb2 : w2.heap[w.heap.length]? = some { size := o.needed img0.align W H, tag := img0.tag } := by rw [hheap]; exact hb1
          refine h.dead (o.needed img0.align W H) img0.tag ?_ (by simp [ci, hi1]) (by simp [cu, hu1])
          rw [dealloc_heap _ _ _ _ _ hb2, hheap, hh1]; simp

/-- recreate into existing storage (the reuse branch), provided the element construction cannot fail now -/
theorem inv_pReuse {c : Cfg} {w : World} (h : Inv c w) (o : Org) (s W H : Nat) (content : List Nat) (hlen : content.length = W * H)
    (hz : ∀ i, w.imgs s = some i → i.mem = none → W * H = 0) (hc : CtorOK o w (W * H)) : Inv c (pReuse o w s W H content).1 := by
  unfold pReuse
  split
  next i hs =>
    simp only []
    cases hm : i.mem with
    | none =>
      have hwh := (h.nomem s i hs hm).2
      have hz' := hz i hs hm
      rw [hwh, hz']
      obtain ⟨d1, d2⟩ := destruct_none w o
      have hmv : (Img.withView o i W H).mem = none := by simp [Img.withView, hm]
      rw [hmv]
      obtain ⟨c1, c2, c3, c4⟩ := construct_none (w.destruct o none 0) o
      cases hres : (w.destruct o none 0).construct o none 0 with
      | mk w2 okc =>
        rw [hres] at c1 c2 c3 c4
        simp only [] at c1 c2 c3 c4; subst c4
        simp only []
        refine h.upd s i ({ Img.withView o i W H with pix := content }) hs (by simp [Img.withView]) (by simp [Img.withView]) (by simp [Img.withView]) (by simp [Img.withView, hlen]) (by intro _; simp [Img.withView, hz'])
          (by intro b hb; simp [hm] at hb) (by intro _; simp [c3, d1]) (by intro x; simp [c1, hmv]) (by simp [c2, d2])
    | some b =>
      obtain ⟨blk, hb, hf, hsz, htg, hcons, hpos⟩ := h.owned s i b hs hm
      obtain ⟨hbad, hover, hleak, -, -⟩ := h.blocks b blk hb
      obtain ⟨d1, d2⟩ := destruct_some w o b (i.w * i.h) blk hb
      have hmv : (Img.withView o i W H).mem = some b := by simp [Img.withView, hm]
      rw [hmv]
      have hlt : b < w.heap.length := by grind
      have hb1 : (w.destruct o (some b) (i.w * i.h)).heap[b]? = some { blk with cons := blk.cons - i.w * i.h, over := blk.over || decide (blk.cons < i.w * i.h) } := by
        rw [d1]; simp [hlt]
      obtain ⟨ci, cu, cok, cfail⟩ := construct_some (w.destruct o (some b) (i.w * i.h)) o b (W * H) _ hb1
      cases hres : (w.destruct o (some b) (i.w * i.h)).construct o (some b) (W * H) with
      | mk w2 okc =>
        rw [hres] at ci cu cok cfail
        simp only [] at ci cu cok cfail
        cases okc with
        | false =>
          exfalso
          apply (cfail rfl).2
          unfold CtorOK at hc ⊢
          simpa using hc
        | true =>
          simp only []
          refine h.upd s i ({ Img.withView o i W H with pix := content }) hs (by simp [Img.withView]) (by simp [Img.withView]) (by simp [Img.withView]) (by simp [Img.withView, hlen]) (by intro e; simp [hm] at e)
            ?_ (by intro e; simp [hm] at e) (by intro x; simp [ci, hmv]) (by simp [cu, d2])
          intro b' hb'
          have : b' = b := by rw [hm] at hb'; simpa using hb'.symm
          subst this
          refine ⟨blk, hb, ?_⟩
          simp only [setImg_heap]
          rw [cok rfl, d1, List.set_set]
          congr 1
          apply Block.ext' <;> simp [Img.withView, hcons, hover]
  next => exact h


/-! ### updates that do not change ownership or dimensions; move construction; composition -/

theorem Inv.upd0 {c : Cfg} {w w' : World} (h : Inv c w) (s : Nat) (i i' : Img)
    (hs : w.imgs s = some i) (hm : i'.mem = i.mem) (ha : i'.allocated = i.allocated) (ht : i'.tag = i.tag)
    (hw : i'.w = i.w) (hhh : i'.h = i.h) (hp : i'.pix.length = i.w * i.h)
    (hh : w'.heap = w.heap) (hi : ∀ x, w'.imgs x = if x = s then some i' else w.imgs x) (hu : w'.ub = w.ub) : Inv c w' := by
  refine h.upd s i i' hs hm ha ht (by rw [hw, hhh]; exact hp) ?_ ?_ (by intro _; exact hh) hi hu
  · intro e; rw [hw, hhh]; exact (h.nomem s i hs e).2
  · intro b hb
    obtain ⟨blk, hb', -, -, -, hc, -⟩ := h.owned s i b hs hb
    refine ⟨blk, hb', ?_⟩
    rw [hh, hw, hhh, ← hc]
    apply List.ext_getElem?
    intro k
    by_cases e : k = b
    · subst e; have : k < w.heap.length := by grind
      simp [this]
      have := List.getElem?_eq_getElem this
      rw [this] at hb'
      cases blk; simpa using hb'
    · simp [List.getElem?_set, Ne.symm e]

theorem inv_userFill {c : Cfg} {w : World} (h : Inv c w) (s v : Nat) : Inv c (userFill w s v) := by
  unfold userFill
  split
  next i hs => exact h.upd0 s i { i with pix := List.replicate (i.w * i.h) v } hs rfl rfl rfl rfl rfl (by simp) (by simp) (by intro x; simp) (by simp)
  next => exact h

/-- image(image&&) into an empty slot -/
theorem inv_moveCtor {c : Cfg} {w : World} (h : Inv c w) (s s2 : Nat) (b : Img) (hne : s ≠ s2) (hs : w.imgs s = none) (hs2 : w.imgs s2 = some b) :
    Inv c ((w.setImg s (some b)).setImg s2 (some { b.cleared with align := 0 })) :=
  h.move s s2 hne b b _ (by simp [hs]) hs2 ⟨rfl, rfl, rfl, rfl, rfl, rfl⟩ (memless_cleared h s2 b hs2 0) (by simp) (by intro x; simp) (by simp)

theorem inv_andThen {c : Cfg} (r : World × Outcome) (k : World → World × Outcome) (h : Inv c r.1) (hk : ∀ w, Inv c w → w = r.1 → Inv c (k w).1) :
    Inv c (andThen r k).1 := by
  unfold andThen
  split
  · exact hk r.1 h rfl
  · exact h


theorem construct_imgs0 (w : World) (o : Org) (b : Option Nat) (n : Nat) : (w.construct o b n).1.imgs = w.imgs := by
  unfold World.construct World.grow
  cases b <;> simp <;> (repeat' split) <;> simp

/-- slots other than the constructed one are untouched by a constructor; the constructed image has the allocator it was given -/
theorem pCtor_imgs (c : Cfg) (o : Org) (w : World) (s : Nat) (img0 : Img) (W H : Nat) (content : List Nat) (src : Option (Nat × Nat)) :
    (∀ x, x ≠ s → (pCtor c o w s img0 W H content src).1.imgs x = w.imgs x) ∧
    (∀ j, (pCtor c o w s img0 W H content src).1.imgs s = some j → w.imgs s = none → j.tag = img0.tag) := by
  unfold pCtor
  simp only []
  split
  · split
    · have ci := construct_imgs0 w o none (W * H)
      cases hres : w.construct o none (W * H) with
      | mk w2 okc =>
        rw [hres] at ci; simp only [] at ci
        cases okc with
        | true =>
          refine ⟨fun x hx => by simp [hx, ci], fun j hj _ => ?_⟩
          simp at hj; subst hj; simp [Img.withView]
        | false => exact ⟨fun x _ => by simp [ci], fun j hj hn => by simp [ci, hn] at hj⟩
    · split
      · exact ⟨fun _ _ => rfl, fun j hj hn => by rw [hn] at hj; cases hj⟩
      · refine ⟨fun x hx => by simp [hx], fun j hj _ => ?_⟩
        simp at hj; subst hj; rfl
  · rcases alloc_cases w img0.tag (o.needed img0.align W H) with e | ⟨fa, e⟩
    · rw [e]; exact ⟨fun _ _ => rfl, fun j hj hn => by rw [hn] at hj; cases hj⟩
    · rw [e]; simp only []
      generalize hw1 : ({ w with heap := w.heap ++ [{ size := o.needed img0.align W H, tag := img0.tag }], log := Event.alloc w.heap.length (o.needed img0.align W H) img0.tag :: w.log, failA := fa } : World) = w1
      have hi1 : w1.imgs = w.imgs := by rw [← hw1]
      have hb1 : w1.heap[w.heap.length]? = some { size := o.needed img0.align W H, tag := img0.tag } := by rw [← hw1]; simp
      obtain ⟨ci, -, -, -⟩ := construct_some w1 o w.heap.length (W * H) _ hb1
      cases hres : w1.construct o (some w.heap.length) (W * H) with
      | mk w2 okc =>
        rw [hres] at ci
        simp only [] at ci
        cases okc with
        | true =>
          refine ⟨fun x hx => by simp [hx, ci, hi1], fun j hj _ => ?_⟩
          simp at hj; subst hj; simp [Img.withView]
        | false =>
          refine ⟨fun x _ => by simp [ci, hi1], fun j hj hn => ?_⟩
          simp [ci, hi1, hn] at hj

/-- no size_t wrap for a constructor: a needed byte size of 0 means an empty pixel range.  Only relevant for the source variant in which
    allocate_ keeps the requested dimensions of an image that needs no storage (`keepDims`); vacuous for the other variant. -/
def NoWrap (c : Cfg) (o : Org) (al W H : Nat) : Prop := c.keepDims = true → o.needed al W H = 0 → W * H = 0

/-- the only operation shapes that are excluded: recreate takes the reuse branch while an element construction is about to fail (finding
    C10_reuse_throw_witness), or sizes so large that `total_allocated_size_in_bytes` wraps to 0 for a non-empty image -/
def RecreateOK (c : Cfg) (w : World) : Op → Prop
  | .recreate s W H al _ _ _ => ∀ o i, c.orgOf s = some o → w.imgs s = some i →
        (i.allocated ≥ o.needed al W H → (i.mem = none → W * H = 0) ∧ CtorOK o w (W * H)) ∧ NoWrap c o al W H
  | .dims s _ al W H _ => ∀ o, c.orgOf s = some o → NoWrap c o al W H
  | .fill s _ al W H _ => ∀ o, c.orgOf s = some o → NoWrap c o al W H
  | .fillprobe s _ al W H _ => ∀ o, c.orgOf s = some o → NoWrap c o al W H
  | .fromview s _ al s2 => ∀ o b, c.orgOf s = some o → w.imgs s2 = some b → NoWrap c o al b.w b.h
  | .copy s s2 => ∀ o b, c.orgOf s = some o → w.imgs s2 = some b → NoWrap c o b.align b.w b.h
  | .assign s s2 => ∀ o b, c.orgOf s = some o → w.imgs s2 = some b → NoWrap c o b.align b.w b.h
  | .massign s s2 => ∀ o a b, c.orgOf s = some o → w.imgs s = some a → w.imgs s2 = some b → NoWrap c o a.align b.w b.h
  | _ => True

theorem recreateOK_of_not_keepDims {c : Cfg} (hk : c.keepDims = false) (w : World) (op : Op)
    (hrec : ∀ s W H al f a v, op = .recreate s W H al f a v → ∀ o i, c.orgOf s = some o → w.imgs s = some i →
        i.allocated ≥ o.needed al W H → (i.mem = none → W * H = 0) ∧ CtorOK o w (W * H)) : RecreateOK c w op := by
  have nw : ∀ o al W H, NoWrap c o al W H := by intro o al W H hh; rw [hk] at hh; cases hh
  cases op with
  | recreate s W H al f a v => exact fun o i ho hi => ⟨hrec s W H al f a v rfl o i ho hi, nw _ _ _ _⟩
  | dims s t al W H v => exact fun o _ => nw _ _ _ _
  | fill s t al W H v => exact fun o _ => nw _ _ _ _
  | fillprobe s t al W H v => exact fun o _ => nw _ _ _ _
  | fromview s t al s2 => exact fun o b _ _ => nw _ _ _ _
  | copy s s2 => exact fun o b _ _ => nw _ _ _ _
  | assign s s2 => exact fun o b _ _ => nw _ _ _ _
  | massign s s2 => exact fun o a b _ _ _ => nw _ _ _ _
  | _ => trivial

theorem orgOf_lt {c : Cfg} {s : Nat} {o : Org} (h : c.orgOf s = some o) : s < 6 := by
  unfold Cfg.orgOf at h; split at h
  · omega
  · split at h
    · omega
    · cases h

theorem tagOf_empty {c : Cfg} (t : Nat) (h : c.empty = true) : c.tagOf t = 0 := by simp [Cfg.tagOf, h]

theorem inv_swapWithTmp {c : Cfg} (o : Org) (r : World × Outcome) (s : Nat) (h : Inv c r.1) (hsafe : SwapSafe c) :
    Inv c (swapWithTmp c o r s).1 := by
  unfold swapWithTmp
  refine inv_andThen _ _ h ?_
  intro w hw _
  have hsw := inv_pSwap hw hsafe s tmpSlot
  cases hp : pSwap c w s tmpSlot with
  | mk w' out =>
    rw [hp] at hsw
    cases out <;> first | exact hsw | exact inv_pDtor hsw o tmpSlot

theorem fresh_ok (al t : Nat) : (Img.fresh al t).mem = none ∧ (Img.fresh al t).w = 0 ∧ (Img.fresh al t).h = 0 ∧ (Img.fresh al t).pix = [] :=
  ⟨rfl, rfl, rfl, rfl⟩

theorem inv_stepRec {c : Cfg} {w : World} (h : Inv c w) (htmp : w.imgs tmpSlot = none) (hsafe : SwapSafe c)
    (o : Org) (s W H al : Nat) (fill alloc : Option Nat) (v : Nat) (ho : c.orgOf s = some o)
    (hok : RecreateOK c w (.recreate s W H al fill alloc v)) : Inv c (stepRec c o w s W H al fill alloc v).1 := by
  unfold stepRec
  split
  · exact h
  next i hs =>
    simp only []
    split
    · split
      · exact inv_userFill h s v
      · exact h
    · have hne : tmpSlot ≠ s := by have := orgOf_lt ho; unfold tmpSlot; omega
      have h1 : Inv c (w.setImg s (some { i with align := al })) :=
        h.upd0 s i { i with align := al } hs rfl rfl rfl rfl rfl (h.pixlen s i hs) (by simp) (by intro x; simp) (by simp)
      refine inv_andThen _ _ ?_ ?_
      · split
        next hge =>
          obtain ⟨hz, hc⟩ := (hok o i ho hs).1 hge
          refine inv_pReuse h1 o s W H _ (by simp) ?_ ?_
          · intro j hj hm; simp at hj; subst hj; exact hz hm
          · unfold CtorOK at hc ⊢; simpa using hc
        · refine inv_swapWithTmp o _ s ?_ hsafe
          refine inv_pCtor h1 o tmpSlot _ W H _ none (by simp [hne, htmp]) (fresh_ok _ _) ?_ (by simp) ((hok o i ho hs).2)
          intro he
          show tmpTag c alloc = 0
          unfold tmpTag
          cases alloc with
          | none => rfl
          | some t => exact tagOf_empty t he
      · intro w' hw' _
        split
        · exact inv_userFill hw' s v
        · exact hw'

theorem inv_stepAssign {c : Cfg} {w : World} (h : Inv c w) (htmp : w.imgs tmpSlot = none) (hsafe : SwapSafe c)
    (o : Org) (s s2 : Nat) (hnw : ∀ b, w.imgs s2 = some b → NoWrap c o b.align b.w b.h) : Inv c (stepAssign c o w s s2).1 := by
  unfold stepAssign
  split
  next a b hs hs2 =>
    split
    next hd =>
      exact h.upd0 s a { a with pix := b.pix } hs rfl rfl rfl rfl rfl (by rw [h.pixlen s2 b hs2, hd.1, hd.2]) (by simp) (by intro x; simp) (by simp)
    · refine inv_swapWithTmp o _ s ?_ hsafe
      exact inv_pCtor h o tmpSlot _ b.w b.h b.pix _ htmp ⟨rfl, rfl, rfl, rfl⟩ (fun he => h.tags he s2 b hs2) (h.pixlen s2 b hs2) (hnw b hs2)
  next => exact h

theorem pTakeDims_imgs (o : Org) (w : World) (s s2 : Nat) (a b : Img) (hs : w.imgs s = some a) (hs2 : w.imgs s2 = some b) (x : Nat) :
    (pTakeDims o w s s2).imgs x = if x = s2 then some { b with w := 0, h := 0, off := 0, row := 0, pix := [] }
                                  else if x = s then some (Img.withView o a.cleared b.w b.h) else w.imgs x := by
  have hr : (release o w a).imgs = w.imgs := by
    unfold release
    cases a.mem with
    | none => simp
    | some b => simp only []; split <;> simp
  unfold pTakeDims; simp only [hs, hs2, setImg_imgs, hr]

/-- move_assign from a source without storage (patched variant): the target ends up owning nothing, with the source's (empty) dimensions -/
theorem inv_pTakeDims {c : Cfg} {w : World} (h : Inv c w) (o : Org) (s s2 : Nat) (hne : s ≠ s2)
    (hb : ∀ b, w.imgs s2 = some b → b.mem = none) : Inv c (pTakeDims o w s s2) := by
  cases hs : w.imgs s with
  | none => unfold pTakeDims; simp [hs]; exact h
  | some a =>
  cases hs2 : w.imgs s2 with
  | none => unfold pTakeDims; simp [hs, hs2]; exact h
  | some b =>
    have hbm := hb b hs2
    have hbz := (h.nomem s2 b hs2 hbm)
    have h1 := inv_pRelease h o s
    have hi1 := pRelease_imgs (w := w) o s a hs
    -- first the target: an image without storage whose dimensions are the source's (no pixel)
    have h2 : Inv c ((pRelease o w s).setImg s (some (Img.withView o a.cleared b.w b.h))) := by
      refine h1.setless s (by intro j; rw [hi1]; simp; intro e; subst e; rfl) (some (Img.withView o a.cleared b.w b.h)) ?_ (by simp) (by intro x; simp) (by simp)
      intro j hj; cases hj
      exact ⟨by simp [Img.withView, Img.cleared], by simp [Img.withView, Img.cleared], by simpa [Img.withView] using hbz.2, by simp [Img.withView, Img.cleared],
             fun he => by simpa [Img.withView, Img.cleared] using h.tags he s a hs⟩
    -- then the source's view is reset
    refine h2.setless s2 ?_ (some { b with w := 0, h := 0, off := 0, row := 0, pix := [] }) ?_ ?_ ?_ ?_
    · intro j; simp [Ne.symm hne, hi1, hs2]; intro e; subst e; exact hbm
    · intro j hj; cases hj
      exact ⟨hbm, hbz.1, by simp, by simp, fun he => h.tags he s2 b hs2⟩
    · unfold pTakeDims pRelease; simp [hs, hs2]
    · intro x; rw [pTakeDims_imgs o w s s2 a b hs hs2]; simp only [setImg_imgs, hi1]
      by_cases e2 : x = s2 <;> by_cases e1 : x = s <;> simp [e1, e2]
    · unfold pTakeDims pRelease; simp [hs, hs2]

theorem inv_stepMoveAssign {c : Cfg} {w : World} (h : Inv c w) (htmp : w.imgs tmpSlot = none)
    (o : Org) (s s2 : Nat) (hs6 : s < 6) (hnw : ∀ a b, w.imgs s = some a → w.imgs s2 = some b → NoWrap c o a.align b.w b.h) :
    Inv c (stepMoveAssign c o w s s2).1 := by
  unfold stepMoveAssign
  split
  next a b hs hs2 =>
    split
    · exact h
    next hne =>
      split
      · exact inv_pAdopt h o s s2 hne true (fun _ _ _ _ => Or.inl rfl)
      · split
        · exact h
        · split
          next heq =>
            refine inv_pAdopt h o s s2 hne false ?_
            intro a' b' ha' hb'; rw [hs] at ha'; rw [hs2] at hb'; cases ha'; cases hb'; exact Or.inr heq
          · split
            · have hnt : s ≠ tmpSlot := by unfold tmpSlot; omega
              refine inv_andThen _ _ (inv_pCtor h o tmpSlot _ b.w b.h b.pix _ htmp (fresh_ok _ _) (fun he => h.tags he s a hs) (h.pixlen s2 b hs2) (hnw a b hs hs2)) ?_
              intro w' hw' hw'eq
              obtain ⟨hoth, htag⟩ := pCtor_imgs c o w tmpSlot (Img.fresh a.align a.tag) b.w b.h b.pix (some (b.w, b.h))
              simp only []
              refine inv_pDtor (inv_pRelease (inv_pAdopt hw' o s tmpSlot hnt false ?_) o s2) o tmpSlot
              intro a' b' ha' hb'
              subst hw'eq
              rw [hoth s hnt, hs] at ha'; cases ha'
              exact Or.inr (htag b' hb' htmp).symm
            next hbm =>
              split
              · refine inv_pTakeDims h o s s2 hne ?_
                intro b' hb'; rw [hs2] at hb'; cases hb'
                cases hm : b.mem with
                | none => rfl
                | some x => simp [hm] at hbm
              · exact inv_pRelease h o s
  next => exact h


/-- every public operation preserves the invariant -/
theorem inv_step {c : Cfg} {w : World} (h : Inv c w) (htmp : w.imgs tmpSlot = none) (hsafe : SwapSafe c) (op : Op)
    (hok : RecreateOK c w op) : Inv c (step c w op).1 := by
  cases op with
  | dflt s t al =>
    simp only [step]; split
    next o ho hs =>
      refine h.setless s (by simp [hs]) (some (Img.fresh al (c.tagOf t))) ?_ (by simp) (by intro x; simp) (by simp)
      intro j hj; cases hj
      exact ⟨rfl, rfl, rfl, rfl, fun he => tagOf_empty t he⟩
    · exact h
  | dims s t al W H v =>
    simp only [step]; split
    next o ho hs =>
      refine inv_andThen _ _ (inv_pCtor h o s _ W H _ none hs (fresh_ok _ _) (fun he => tagOf_empty t he) (by simp) (hok o ho)) ?_
      intro w' hw' _; exact inv_userFill hw' s v
    · exact h
  | fill s t al W H v =>
    simp only [step]; split
    next o ho hs => exact inv_pCtor h o s _ W H _ none hs (fresh_ok _ _) (fun he => tagOf_empty t he) (by simp) (hok o ho)
    · exact h
  | fillprobe s t al W H v =>
    simp only [step]; split
    next o ho hs =>
      have hp := inv_pCtor h o s (Img.fresh al (c.tagOf t)) W H (List.replicate (W * H) v) none hs (fresh_ok _ _) (fun he => tagOf_empty t he) (by simp) (hok o ho)
      split
      next w' heq => rw [heq] at hp; exact inv_userFill hp s v
      next r hr => exact hp
    · exact h
  | fromview s t al s2 =>
    simp only [step]; split
    next o b ho hs hs2 =>
      split
      · exact inv_pCtor h o s _ b.w b.h b.pix _ hs (fresh_ok _ _) (fun he => tagOf_empty t he) (h.pixlen s2 b hs2) (hok o b ho hs2)
      · exact h
    · exact h
  | copy s s2 =>
    simp only [step]; split
    next o _ b ho _ hs hs2 => exact inv_pCtor h o s _ b.w b.h b.pix _ hs ⟨rfl, rfl, rfl, rfl⟩ (fun he => h.tags he s2 b hs2) (h.pixlen s2 b hs2) (hok o b ho hs2)
    · exact h
  | move s s2 =>
    simp only [step]; split
    next o b ho hs hs2 =>
      split
      · have hne : s ≠ s2 := by intro e; subst e; rw [hs] at hs2; cases hs2
        exact inv_moveCtor h s s2 b hne hs hs2
      · exact h
    · exact h
  | assign s s2 =>
    simp only [step]; split
    next o _ ho _ => exact inv_stepAssign h htmp hsafe o s s2 (fun b hb => hok o b ho hb)
    · exact h
  | massign s s2 =>
    simp only [step]; split
    next o ho =>
      split
      · exact inv_stepMoveAssign h htmp o s s2 (orgOf_lt ho) (fun a b ha hb => hok o a b ho ha hb)
      · exact h
    · exact h
  | swap s s2 =>
    simp only [step]; split
    · split
      · exact inv_pSwap h hsafe s s2
      · exact h
    · exact h
  | recreate s W H al fill alloc v =>
    simp only [step]; split
    next o ho => exact inv_stepRec h htmp hsafe o s W H al fill alloc v ho hok
    · exact h
  | write s x y v =>
    simp only [step]; split
    next o i ho hs =>
      split
      · exact h.upd0 s i { i with pix := i.pix.set ((y % i.h) * i.w + x % i.w) v } hs rfl rfl rfl rfl rfl (by simp [h.pixlen s i hs]) (by simp) (by intro x; simp) (by simp)
      · exact h
    · exact h
  | destroy s =>
    simp only [step]; split
    next o i ho hs => exact inv_pDtor h o s
    · exact h
  | stop =>
    simp only [step]
    have : ∀ (l : List Nat) (w : World), Inv c w → Inv c (l.foldl (fun w s => match c.orgOf s with | some o => pDtor o w s | none => w) w) := by
      intro l
      induction l with
      | nil => intro w hw; exact hw
      | cons a l ih =>
        intro w hw; simp only [List.foldl_cons]; apply ih
        split
        · exact inv_pDtor hw _ a
        · exact hw
    exact this slots w h
  | bad => exact h


theorem release_imgs (o : Org) (w : World) (i : Img) : (release o w i).imgs = w.imgs := by
  unfold release
  cases i.mem with
  | none => simp
  | some b => simp only []; split <;> simp

theorem pDtor_imgs (o : Org) (w : World) (s x : Nat) : (pDtor o w s).imgs x = if x = s then none else w.imgs x := by
  unfold pDtor
  cases hi : w.imgs s with
  | none => by_cases e : x = s <;> simp [e, hi]
  | some i => simp [release_imgs]

theorem pCtor_fail_imgs (c : Cfg) (o : Org) (w : World) (s : Nat) (img0 : Img) (W H : Nat) (content : List Nat) (src : Option (Nat × Nat))
    (hf : (pCtor c o w s img0 W H content src).2 ≠ .ok) : (pCtor c o w s img0 W H content src).1.imgs = w.imgs := by
  unfold pCtor at hf ⊢
  simp only [] at hf ⊢
  split
  · rename_i h1
    simp only [h1, if_true] at hf
    split
    · rename_i hk
      simp only [hk, if_true] at hf
      have ci := construct_imgs0 w o none (W * H)
      cases hres : w.construct o none (W * H) with
      | mk w2 okc =>
        rw [hres] at ci hf; simp only [] at ci hf
        cases okc with
        | true => simp at hf
        | false => simp [ci]
    · rename_i hk
      have hkf : c.keepDims = false := by simpa using hk
      simp only [hkf, Bool.false_eq_true, if_false] at hf
      split
      · rfl
      · rename_i h2
        exfalso; apply hf
        rw [if_neg h2]
  · rename_i hn0
    simp only [hn0, if_false] at hf
    rcases alloc_cases w img0.tag (o.needed img0.align W H) with e | ⟨fa, e⟩
    · rw [e]
    · rw [e] at hf ⊢; simp only [] at hf ⊢
      generalize hw1 : ({ w with heap := w.heap ++ [{ size := o.needed img0.align W H, tag := img0.tag }], log := Event.alloc w.heap.length (o.needed img0.align W H) img0.tag :: w.log, failA := fa } : World) = w1 at hf ⊢
      have hi1 : w1.imgs = w.imgs := by rw [← hw1]
      have hb1 : w1.heap[w.heap.length]? = some { size := o.needed img0.align W H, tag := img0.tag } := by rw [← hw1]; simp
      obtain ⟨ci, -, -, -⟩ := construct_some w1 o w.heap.length (W * H) _ hb1
      cases hres : w1.construct o (some w.heap.length) (W * H) with
      | mk w2 okc =>
        rw [hres] at ci hf
        simp only [] at ci hf
        cases okc with
        | true => simp at hf
        | false => simp [ci, hi1]

theorem pSwap_imgs_other (c : Cfg) (w : World) (s s2 x : Nat) (h1 : x ≠ s) (h2 : x ≠ s2) : (pSwap c w s s2).1.imgs x = w.imgs x := by
  unfold pSwap
  split
  · split
    · simp [h1, h2]
    · split
      · simp [h1, h2]
      · rfl
  · rfl

theorem construct_imgs (w : World) (o : Org) (b : Option Nat) (n : Nat) : (w.construct o b n).1.imgs = w.imgs := by
  unfold World.construct World.grow
  cases b <;> simp <;> (repeat' split) <;> simp

theorem pReuse_imgs_other (o : Org) (w : World) (s W H x : Nat) (content : List Nat) (h1 : x ≠ s) : (pReuse o w s W H content).1.imgs x = w.imgs x := by
  unfold pReuse
  split
  next i hs =>
    simp only []
    cases hres : (w.destruct o i.mem (i.w * i.h)).construct o (Img.withView o i W H).mem (W * H) with
    | mk w2 okc =>
      have := construct_imgs (w.destruct o i.mem (i.w * i.h)) o (Img.withView o i W H).mem (W * H)
      rw [hres] at this
      simp only [] at this
      cases okc <;> simp [h1, this]
  · rfl

theorem pAdopt_imgs_other (o : Org) (w : World) (s s2 x : Nat) (t : Bool) (h1 : x ≠ s) (h2 : x ≠ s2) : (pAdopt o w s s2 t).imgs x = w.imgs x := by
  unfold pAdopt
  split
  · simp [h1, h2, release_imgs]
  · rfl

theorem userFill_imgs_other (w : World) (s v x : Nat) (h1 : x ≠ s) : (userFill w s v).imgs x = w.imgs x := by
  unfold userFill
  split <;> simp [h1]


/-! ### the scratch slot of the model (`image tmp`) is free again after every operation that does not stop in an assertion -/

def TmpOK (r : World × Outcome) : Prop := (∃ x, r.2 = .assertFail x) ∨ r.1.imgs tmpSlot = none

theorem tmp_andThen (r : World × Outcome) (k : World → World × Outcome) (hr : r.2 ≠ .ok → TmpOK r) (hk : r.2 = .ok → TmpOK (k r.1)) :
    TmpOK (andThen r k) := by
  unfold andThen
  split
  next h => exact hk h
  next h => exact hr (by intro e; exact h e)

theorem tmp_swapWithTmp (c : Cfg) (o : Org) (r : World × Outcome) (s : Nat) (hr : r.2 ≠ .ok → r.1.imgs tmpSlot = none) :
    TmpOK (swapWithTmp c o r s) := by
  unfold swapWithTmp
  refine tmp_andThen _ _ (fun h => Or.inr (hr h)) ?_
  intro _
  cases hp : pSwap c r.1 s tmpSlot with
  | mk w' out =>
    cases out <;> first | exact Or.inl ⟨_, rfl⟩ | (right; simp [pDtor_imgs])

theorem orgOf_ne_tmp {c : Cfg} {s : Nat} {o : Org} (h : c.orgOf s = some o) : s ≠ tmpSlot := by
  have := orgOf_lt h; unfold tmpSlot; omega

theorem step_tmpfree (c : Cfg) (w : World) (op : Op) (h : w.imgs tmpSlot = none) : TmpOK (step c w op) := by
  have keep : ∀ (w' : World) (out : Outcome), w'.imgs tmpSlot = none → TmpOK (w', out) := fun _ _ e => Or.inr e
  cases op with
  | dflt s t al =>
    simp only [step]; split
    next o ho hs => exact keep _ _ (by simp [Ne.symm (orgOf_ne_tmp ho), h])
    · exact keep _ _ h
  | dims s t al W H v =>
    simp only [step]; split
    next o ho hs =>
      have hne := orgOf_ne_tmp ho
      have hc := (pCtor_imgs c o w s (Img.fresh al (c.tagOf t)) W H (List.replicate (W * H) 0) none).1 tmpSlot (Ne.symm hne)
      refine tmp_andThen _ _ (fun _ => Or.inr (by rw [hc]; exact h)) ?_
      intro _; right; simp only []; rw [userFill_imgs_other _ _ _ _ (Ne.symm hne), hc]; exact h
    · exact keep _ _ h
  | fill s t al W H v =>
    simp only [step]; split
    next o ho hs =>
      right; rw [(pCtor_imgs c o w s _ W H _ none).1 tmpSlot (Ne.symm (orgOf_ne_tmp ho))]; exact h
    · exact keep _ _ h
  | fillprobe s t al W H v =>
    simp only [step]; split
    next o ho hs =>
      have hne := orgOf_ne_tmp ho
      have hc := (pCtor_imgs c o w s (Img.fresh al (c.tagOf t)) W H (List.replicate (W * H) v) none).1 tmpSlot (Ne.symm hne)
      split
      next w' heq =>
        rw [heq] at hc; simp only [] at hc
        right; simp only []; rw [userFill_imgs_other _ _ _ _ (Ne.symm hne), hc]; exact h
      next r hr => right; rw [hc]; exact h
    · exact keep _ _ h
  | fromview s t al s2 =>
    simp only [step]; split
    next o b ho hs hs2 =>
      split
      · right; rw [(pCtor_imgs c o w s _ b.w b.h b.pix _).1 tmpSlot (Ne.symm (orgOf_ne_tmp ho))]; exact h
      · exact keep _ _ h
    · exact keep _ _ h
  | copy s s2 =>
    simp only [step]; split
    next o _ b ho _ hs hs2 =>
      right; rw [(pCtor_imgs c o w s _ b.w b.h b.pix _).1 tmpSlot (Ne.symm (orgOf_ne_tmp ho))]; exact h
    · exact keep _ _ h
  | move s s2 =>
    simp only [step]; split
    next o b ho hs hs2 =>
      split
      · have hne2 : tmpSlot ≠ s2 := by intro e; rw [← e, h] at hs2; cases hs2
        exact keep _ _ (by simp [Ne.symm (orgOf_ne_tmp ho), hne2, h])
      · exact keep _ _ h
    · exact keep _ _ h
  | assign s s2 =>
    simp only [step]; split
    next o _ ho _ =>
      unfold stepAssign
      split
      next a b hs hs2 =>
        split
        · exact keep _ _ (by simp [Ne.symm (orgOf_ne_tmp ho), h])
        · refine tmp_swapWithTmp c o _ s ?_
          intro hf; rw [pCtor_fail_imgs _ _ _ _ _ _ _ _ _ hf]; exact h
      · exact keep _ _ h
    · exact keep _ _ h
  | massign s s2 =>
    simp only [step]; split
    next o ho =>
      have hne := orgOf_ne_tmp ho
      split
      · unfold stepMoveAssign
        split
        next a b hs hs2 =>
          have hne2 : tmpSlot ≠ s2 := by intro e; rw [← e, h] at hs2; cases hs2
          split
          · exact keep _ _ h
          · split
            · exact keep _ _ (by rw [pAdopt_imgs_other _ _ _ _ _ _ (Ne.symm hne) hne2]; exact h)
            · split
              · exact keep _ _ h
              · split
                · exact keep _ _ (by rw [pAdopt_imgs_other _ _ _ _ _ _ (Ne.symm hne) hne2]; exact h)
                · split
                  · refine tmp_andThen _ _ ?_ ?_
                    · intro hf; right; rw [pCtor_fail_imgs _ _ _ _ _ _ _ _ _ hf]; exact h
                    · intro _; right; simp [pDtor_imgs]
                  · split
                    · exact keep _ _ (by rw [pTakeDims_imgs o w s s2 a b hs hs2]; simp [Ne.symm hne, hne2, h])
                    · exact keep _ _ (by rw [pRelease_imgs o s a hs]; simp [Ne.symm hne, h])
        · exact keep _ _ h
      · exact keep _ _ h
    · exact keep _ _ h
  | swap s s2 =>
    simp only [step]; split
    next o ho =>
      split
      next hc =>
        have hne2 : tmpSlot ≠ s2 := by unfold tmpSlot; omega
        cases hp : pSwap c w s s2 with
        | mk w' out =>
          have := pSwap_imgs_other c w s s2 tmpSlot (Ne.symm (orgOf_ne_tmp ho)) hne2
          rw [hp] at this; simp only [] at this
          exact keep _ _ (by rw [this]; exact h)
      · exact keep _ _ h
    · exact keep _ _ h
  | recreate s W H al fill alloc v =>
    simp only [step]; split
    next o ho =>
      have hne := orgOf_ne_tmp ho
      unfold stepRec
      split
      · exact keep _ _ h
      next i hs =>
        simp only []
        split
        · split
          · exact keep _ _ (by rw [userFill_imgs_other _ _ _ _ (Ne.symm hne)]; exact h)
          · exact keep _ _ h
        · have h1 : (w.setImg s (some { i with align := al })).imgs tmpSlot = none := by simp [Ne.symm hne, h]
          have inner : TmpOK (if i.allocated ≥ o.needed al W H then pReuse o (w.setImg s (some { i with align := al })) s W H (List.replicate (W * H) (fill.getD 0))
              else swapWithTmp c o (pCtor c o (w.setImg s (some { i with align := al })) tmpSlot (Img.fresh al (tmpTag c alloc)) W H (List.replicate (W * H) (fill.getD 0)) none) s) := by
            split
            · right; rw [pReuse_imgs_other _ _ _ _ _ _ _ (Ne.symm hne)]; exact h1
            · refine tmp_swapWithTmp c o _ s ?_
              intro hf; rw [pCtor_fail_imgs _ _ _ _ _ _ _ _ _ hf]; exact h1
          refine tmp_andThen _ _ (fun _ => inner) ?_
          intro hok
          rcases inner with ⟨x, hx⟩ | hn
          · rw [hok] at hx; cases hx
          · split
            · exact keep _ _ (by rw [userFill_imgs_other _ _ _ _ (Ne.symm hne)]; exact hn)
            · exact keep _ _ hn
    · exact keep _ _ h
  | write s x y v =>
    simp only [step]; split
    next o i ho hs =>
      split
      · exact keep _ _ (by simp [Ne.symm (orgOf_ne_tmp ho), h])
      · exact keep _ _ h
    · exact keep _ _ h
  | destroy s =>
    simp only [step]; split
    next o i ho hs => exact keep _ _ (by rw [pDtor_imgs]; simp [Ne.symm (orgOf_ne_tmp ho), h])
    · exact keep _ _ h
  | stop =>
    simp only [step]
    have : ∀ (l : List Nat) (w : World), w.imgs tmpSlot = none →
        (l.foldl (fun w s => match c.orgOf s with | some o => pDtor o w s | none => w) w).imgs tmpSlot = none := by
      intro l
      induction l with
      | nil => intro w hw; exact hw
      | cons a l ih =>
        intro w hw; simp only [List.foldl_cons]; apply ih
        split
        · rw [pDtor_imgs]; split <;> simp [hw]
        · exact hw
    exact keep _ _ (this slots w h)
  | bad => exact keep _ _ h

theorem inv_stop {c : Cfg} {w : World} (h : Inv c w) : Inv c (step c w .stop).1 := by
  simp only [step]
  have : ∀ (l : List Nat) (w : World), Inv c w → Inv c (l.foldl (fun w s => match c.orgOf s with | some o => pDtor o w s | none => w) w) := by
    intro l
    induction l with
    | nil => intro w hw; exact hw
    | cons a l ih =>
      intro w hw; simp only [List.foldl_cons]; apply ih
      split
      · exact inv_pDtor hw _ a
      · exact hw
  exact this slots w h

/-! ### the ghost heap is the replay of the printed allocator log -/

theorem map_strip_set (l : List Block) (b : Nat) (blk x : Block) (hb : l[b]? = some blk) (hx : x.strip = blk.strip) :
    (l.set b x).map Block.strip = l.map Block.strip := by
  apply List.ext_getElem?
  intro k
  by_cases e : k = b
  · subst e
    have hlt : k < l.length := by
      cases h : l[k]? with
      | none => rw [h] at hb; cases hb
      | some v => exact (List.getElem?_eq_some_iff.mp h).1
    have hget : l[k] = blk := by
      have := List.getElem?_eq_getElem hlt
      rw [this] at hb; exact Option.some.inj hb
    simp [hlt, hx, hget]
  · simp [List.getElem?_set, Ne.symm e]

theorem ghostReplay_snoc (l : List Event) (e : Event) : ghostReplay (l ++ [e]) = ghostStep (ghostReplay l) e := by
  unfold ghostReplay; simp [List.foldl_append]

theorem hl_of_eq {w w' : World} (h : HeapLog w) (hh : w'.heap = w.heap) (hl : w'.log = w.log) : HeapLog w' := by
  unfold HeapLog at *; rw [hh, hl]; exact h

theorem hl_cons_only {w w' : World} (h : HeapLog w) (hl : w'.log = w.log) (b : Nat) (f : Block → Block) (hf : ∀ blk, (f blk).strip = blk.strip)
    (hh : w'.heap = match w.heap[b]? with | some blk => w.heap.set b (f blk) | none => w.heap) : HeapLog w' := by
  unfold HeapLog at *
  rw [hl, hh]
  cases hb : w.heap[b]? with
  | none => exact h
  | some blk => simp only []; rw [map_strip_set _ _ blk _ hb (hf blk)]; exact h

theorem hl_setImg {w : World} (h : HeapLog w) (s : Nat) (v : Option Img) : HeapLog (w.setImg s v) := hl_of_eq h rfl rfl

theorem hl_alloc {w : World} (h : HeapLog w) (t n : Nat) : HeapLog (w.alloc t n).1 := by
  rcases alloc_cases w t n with e | ⟨fa, e⟩
  · rw [e]; exact hl_of_eq h rfl rfl
  · rw [e]; unfold HeapLog at *
    simp only [List.reverse_cons, List.map_append, List.map_cons, List.map_nil]
    rw [ghostReplay_snoc, ← h]
    simp [ghostStep, Block.strip]

theorem hl_dealloc {w : World} (h : HeapLog w) (b n t : Nat) : HeapLog (w.dealloc b n t) := by
  unfold HeapLog at *
  unfold World.dealloc
  simp only [List.reverse_cons]
  rw [ghostReplay_snoc, ← h]
  unfold ghostStep
  simp only [List.getElem?_map]
  cases hb : w.heap[b]? with
  | none => simp [Block.strip]
  | some blk => simp [List.map_set, Block.strip]

theorem hl_heapset {w : World} (h : HeapLog w) (b : Nat) (f : Block → Block) (hf : ∀ blk, (f blk).strip = blk.strip) (log : List Event) (hl : log = w.log)
    (imgs : Nat → Option Img) (ct dt : Nat) (fa fc : Option Nat) (ub : Bool) :
    HeapLog { heap := (match w.heap[b]? with | some blk => w.heap.set b (f blk) | none => w.heap), log := log, imgs := imgs, ctor := ct, dtor := dt,
              failA := fa, failC := fc, ub := ub } := by
  unfold HeapLog at *
  subst hl
  simp only []
  cases hb : w.heap[b]? with
  | none => exact h
  | some blk => simp only []; rw [map_strip_set _ _ blk _ hb (hf blk)]; exact h

theorem hl_destruct {w : World} (h : HeapLog w) (o : Org) (b : Option Nat) (n : Nat) : HeapLog (w.destruct o b n) := by
  have h0 : HeapLog (if o.nontrivial then { w with dtor := w.dtor + o.epp * n } else w) := by
    split
    · exact hl_of_eq h rfl rfl
    · exact h
  unfold World.destruct
  simp only []
  generalize (if o.nontrivial then { w with dtor := w.dtor + o.epp * n } else w) = w0 at h0 ⊢
  cases b with
  | none => simp only []; split <;> first | exact h0 | exact hl_of_eq h0 rfl rfl
  | some b => simp only []; exact hl_heapset h0 b (fun blk => { blk with cons := blk.cons - n, over := blk.over || decide (blk.cons < n) }) (fun _ => rfl) _ rfl _ _ _ _ _ _

theorem hl_grow {w : World} (h : HeapLog w) (b : Option Nat) (n : Nat) : HeapLog (w.grow b n) := by
  unfold World.grow
  cases b with
  | none => simp only []; split <;> first | exact h | exact hl_of_eq h rfl rfl
  | some b => simp only []; exact hl_heapset h b (fun blk => { blk with cons := blk.cons + n }) (fun _ => rfl) _ rfl _ _ _ _ _ _

theorem hl_construct {w : World} (h : HeapLog w) (o : Org) (b : Option Nat) (n : Nat) : HeapLog (w.construct o b n).1 := by
  unfold World.construct
  split
  · split
    next k hk =>
      split
      · exact hl_of_eq h rfl rfl
      · exact hl_grow (w := { w with ctor := w.ctor + o.epp * n, failC := some (k - o.epp * n) }) (hl_of_eq h rfl rfl) b n
    · exact hl_grow (w := { w with ctor := w.ctor + o.epp * n }) (hl_of_eq h rfl rfl) b n
  · exact hl_grow h b n

theorem hl_release {w : World} (h : HeapLog w) (o : Org) (i : Img) : HeapLog (release o w i) := by
  unfold release
  cases hm : i.mem with
  | none => simp only []; exact hl_destruct h o none (i.w * i.h)
  | some b =>
    simp only []
    have hd := hl_destruct h o (some b) (i.w * i.h)
    split
    · exact hl_dealloc hd b _ _
    · exact hd

theorem hl_pCtor {w : World} (h : HeapLog w) (c : Cfg) (o : Org) (s : Nat) (img0 : Img) (W H : Nat) (content : List Nat) (src : Option (Nat × Nat)) :
    HeapLog (pCtor c o w s img0 W H content src).1 := by
  unfold pCtor
  simp only []
  split
  · split
    · have hc := hl_construct h o none (W * H)
      cases hres : w.construct o none (W * H) with
      | mk w2 okc => rw [hres] at hc; cases okc <;> first | exact hl_setImg hc _ _ | exact hc
    · split
      · exact h
      · exact hl_setImg h _ _
  · have ha := hl_alloc h img0.tag (o.needed img0.align W H)
    cases hal : w.alloc img0.tag (o.needed img0.align W H) with
    | mk w1 ob =>
      rw [hal] at ha
      cases ob with
      | none => exact ha
      | some b =>
        simp only []
        have hc := hl_construct ha o (some b) (W * H)
        cases hres : w1.construct o (some b) (W * H) with
        | mk w2 okc =>
          rw [hres] at hc
          cases okc with
          | true => exact hl_setImg hc _ _
          | false => exact hl_dealloc hc _ _ _

theorem hl_pDtor {w : World} (h : HeapLog w) (o : Org) (s : Nat) : HeapLog (pDtor o w s) := by
  unfold pDtor; split
  · exact hl_setImg (hl_release h o _) _ _
  · exact h

theorem hl_pSwap {w : World} (h : HeapLog w) (c : Cfg) (s s2 : Nat) : HeapLog (pSwap c w s s2).1 := by
  unfold pSwap; split
  · split
    · exact hl_setImg (hl_setImg h _ _) _ _
    · split
      · exact hl_setImg (hl_setImg h _ _) _ _
      · exact h
  · exact h

theorem hl_pReuse {w : World} (h : HeapLog w) (o : Org) (s W H : Nat) (content : List Nat) : HeapLog (pReuse o w s W H content).1 := by
  unfold pReuse; split
  next i hs =>
    simp only []
    have hc := hl_construct (hl_destruct h o i.mem (i.w * i.h)) o (Img.withView o i W H).mem (W * H)
    cases hres : (w.destruct o i.mem (i.w * i.h)).construct o (Img.withView o i W H).mem (W * H) with
    | mk w2 okc => rw [hres] at hc; cases okc <;> exact hl_setImg hc _ _
  · exact h

theorem hl_pAdopt {w : World} (h : HeapLog w) (o : Org) (s s2 : Nat) (t : Bool) : HeapLog (pAdopt o w s s2 t) := by
  unfold pAdopt; split
  · exact hl_setImg (hl_setImg (hl_release h o _) _ _) _ _
  · exact h

theorem hl_pRelease {w : World} (h : HeapLog w) (o : Org) (s : Nat) : HeapLog (pRelease o w s) := by
  unfold pRelease; split
  · exact hl_setImg (hl_release h o _) _ _
  · exact h

theorem hl_pTakeDims {w : World} (h : HeapLog w) (o : Org) (s s2 : Nat) : HeapLog (pTakeDims o w s s2) := by
  unfold pTakeDims; split
  · exact hl_setImg (hl_setImg (hl_release h o _) _ _) _ _
  · exact h

theorem hl_userFill {w : World} (h : HeapLog w) (s v : Nat) : HeapLog (userFill w s v) := by
  unfold userFill; split
  · exact hl_setImg h _ _
  · exact h

theorem hl_andThen (r : World × Outcome) (k : World → World × Outcome) (h : HeapLog r.1) (hk : ∀ w, HeapLog w → HeapLog (k w).1) :
    HeapLog (andThen r k).1 := by
  unfold andThen; split
  · exact hk _ h
  · exact h

theorem hl_swapWithTmp (c : Cfg) (o : Org) (r : World × Outcome) (s : Nat) (h : HeapLog r.1) : HeapLog (swapWithTmp c o r s).1 := by
  unfold swapWithTmp
  refine hl_andThen _ _ h ?_
  intro w hw
  have hs := hl_pSwap hw c s tmpSlot
  cases hp : pSwap c w s tmpSlot with
  | mk w' out => rw [hp] at hs; cases out <;> first | exact hs | exact hl_pDtor hs o tmpSlot

theorem hl_step (c : Cfg) (w : World) (op : Op) (h : HeapLog w) : HeapLog (step c w op).1 := by
  cases op with
  | dflt s t al => simp only [step]; split <;> first | exact hl_setImg h _ _ | exact h
  | dims s t al W H v =>
    simp only [step]; split
    · exact hl_andThen _ _ (hl_pCtor h ..) (fun w hw => hl_userFill hw _ _)
    · exact h
  | fill s t al W H v => simp only [step]; split <;> first | exact hl_pCtor h .. | exact h
  | fillprobe s t al W H v =>
    simp only [step]; split
    next o ho hs =>
      have hp := hl_pCtor h c o s (Img.fresh al (c.tagOf t)) W H (List.replicate (W * H) v) none
      split
      next w' heq => rw [heq] at hp; exact hl_userFill hp _ _
      next r hr => exact hp
    · exact h
  | fromview s t al s2 =>
    simp only [step]; split
    · split <;> first | exact hl_pCtor h .. | exact h
    · exact h
  | copy s s2 => simp only [step]; split <;> first | exact hl_pCtor h .. | exact h
  | move s s2 =>
    simp only [step]; split
    · split <;> first | exact hl_setImg (hl_setImg h _ _) _ _ | exact h
    · exact h
  | assign s s2 =>
    simp only [step]; split
    · unfold stepAssign; split
      · split
        · exact hl_setImg h _ _
        · exact hl_swapWithTmp c _ _ s (hl_pCtor h ..)
      · exact h
    · exact h
  | massign s s2 =>
    simp only [step]; split
    next o ho =>
      split
      · unfold stepMoveAssign; split
        · split
          · exact h
          · split
            · exact hl_pAdopt h ..
            · split
              · exact h
              · split
                · exact hl_pAdopt h ..
                · split
                  · exact hl_andThen _ _ (hl_pCtor h ..) (fun w hw => hl_pDtor (hl_pRelease (hl_pAdopt hw ..) ..) ..)
                  · split
                    · exact hl_pTakeDims h ..
                    · exact hl_pRelease h ..
        · exact h
      · exact h
    · exact h
  | swap s s2 =>
    simp only [step]; split
    · split <;> first | exact hl_pSwap h .. | exact h
    · exact h
  | recreate s W H al fill alloc v =>
    simp only [step]; split
    next o ho =>
      unfold stepRec; split
      · exact h
      next i hs =>
        simp only []
        split
        · split <;> first | exact hl_userFill h _ _ | exact h
        · refine hl_andThen _ _ ?_ ?_
          · split
            · exact hl_pReuse (hl_setImg h _ _) ..
            · exact hl_swapWithTmp c o _ s (hl_pCtor (hl_setImg h _ _) ..)
          · intro w' hw'; split <;> first | exact hl_userFill hw' _ _ | exact hw'
    · exact h
  | write s x y v =>
    simp only [step]; split
    · split <;> first | exact hl_setImg h _ _ | exact h
    · exact h
  | destroy s => simp only [step]; split <;> first | exact hl_pDtor h .. | exact h
  | stop =>
    simp only [step]
    have : ∀ (l : List Nat) (w : World), HeapLog w → HeapLog (l.foldl (fun w s => match c.orgOf s with | some o => pDtor o w s | none => w) w) := by
      intro l; induction l with
      | nil => intro w hw; exact hw
      | cons a l ih => intro w hw; simp only [List.foldl_cons]; apply ih; split <;> first | exact hl_pDtor hw .. | exact hw
    exact this slots w h
  | bad => exact h

theorem hl_run (c : Cfg) (ops : List Op) : ∀ (w : World), HeapLog w → HeapLog (run c w ops) := by
  induction ops with
  | nil => intro w h; exact h
  | cons op rest ih =>
    intro w h
    have h1 := hl_step c w op h
    unfold run
    cases hs : step c w op with
    | mk w' out => rw [hs] at h1; cases out <;> first | exact h1 | exact ih w' h1


/-! ### ghost replay without a bad block = the Spec's log replay succeeds -/

def GBlock.abs (g : GBlock) : Nat × Nat × Bool := (g.size, g.tag, g.freed == 0)

/-- a bad block stays bad, at the same index -/
theorem ghostStep_bad_persists (h : List GBlock) (e : Event) (i : Nat) (g : GBlock) (hi : h[i]? = some g) (hb : g.bad = true) :
    ∃ g', (ghostStep h e)[i]? = some g' ∧ g'.bad = true := by
  have hlt : i < h.length := by
    cases hh : h[i]? with
    | none => rw [hh] at hi; cases hi
    | some v => exact (List.getElem?_eq_some_iff.mp hh).1
  cases e with
  | alloc id n t => exact ⟨g, by simp [ghostStep, List.getElem?_append_left hlt, hi], hb⟩
  | dealloc b n t =>
    cases hbb : h[b]? with
    | none => exact ⟨g, by simp only [ghostStep, hbb]; rw [List.getElem?_append_left hlt]; exact hi, hb⟩
    | some g0 =>
      by_cases e : i = b
      · subst e
        rw [hi] at hbb; cases hbb
        refine ⟨{ g with freed := g.freed + 1, bad := g.bad || (g.size != n) || (g.tag != t) || (g.freed != 0) }, ?_, by simp [hb]⟩
        simp only [ghostStep, hi]; simp [hlt]
      · exact ⟨g, by simp only [ghostStep, hbb]; rw [List.getElem?_set_ne (Ne.symm e)]; exact hi, hb⟩

theorem foldl_bad_persists (l : List Event) : ∀ (h : List GBlock) (i : Nat) (g : GBlock), h[i]? = some g → g.bad = true →
    ∃ g', (l.foldl ghostStep h)[i]? = some g' ∧ g'.bad = true := by
  induction l with
  | nil => intro h i g hi hb; exact ⟨g, hi, hb⟩
  | cons e l ih =>
    intro h i g hi hb
    obtain ⟨g1, h1, b1⟩ := ghostStep_bad_persists h e i g hi hb
    exact ih _ i g1 h1 b1

/-- if the ghost replay of a log ends without a bad block, the Spec's replay (`replayLog`: every dealloc must match a live
    allocation in id, size and allocator; alloc ids are consecutive) accepts the log and reaches the same heap -/
theorem replayLog_of_no_bad (l : List Event) : ∀ (h : List GBlock), (∀ g ∈ h, g.bad = false ∧ g.freed ≤ 1) →
    (∀ g ∈ l.foldl ghostStep h, g.bad = false) →
    replayLog l (h.map GBlock.abs) = some ((l.foldl ghostStep h).map GBlock.abs) := by
  induction l with
  | nil => intro h _ _; rfl
  | cons e l ih =>
    intro h hh hfin
    simp only [List.foldl_cons] at hfin ⊢
    -- the state after this event has no bad block either (bad persists)
    have hstep : ∀ g ∈ ghostStep h e, g.bad = false := by
      intro g hg
      cases hbg : g.bad with
      | false => rfl
      | true =>
        obtain ⟨i, hi⟩ := List.getElem?_of_mem hg
        obtain ⟨g', hg', hb'⟩ := foldl_bad_persists l (ghostStep h e) i g hi hbg
        have := hfin g' (List.mem_of_getElem? hg')
        rw [this] at hb'; cases hb'
    cases e with
    | alloc id n t =>
      have hid : id = h.length := by
        have := hstep ⟨n, t, 0, id != h.length⟩ (by simp [ghostStep])
        simpa using this
      subst hid
      have hh' : ∀ g ∈ ghostStep h (.alloc h.length n t), g.bad = false ∧ g.freed ≤ 1 := by
        intro g hg
        refine ⟨hstep g hg, ?_⟩
        simp only [ghostStep, List.mem_append, List.mem_singleton] at hg
        rcases hg with hg | hg
        · exact (hh g hg).2
        · subst hg; simp
      have := ih _ hh' hfin
      unfold replayLog
      simp only [List.length_map, if_true]
      rw [← this]
      simp [ghostStep, GBlock.abs]
    | dealloc b n t =>
      cases hb : h[b]? with
      | none =>
        exfalso
        have := hstep ⟨n, t, 1, true⟩ (by simp [ghostStep, hb])
        cases this
      | some g0 =>
        have hg0 := hh g0 (List.mem_of_getElem? hb)
        have hnew := hstep { g0 with freed := g0.freed + 1, bad := g0.bad || (g0.size != n) || (g0.tag != t) || (g0.freed != 0) }
          (by simp only [ghostStep, hb]; exact List.mem_of_getElem? (by
                have hlt : b < h.length := (List.getElem?_eq_some_iff.mp hb).1
                simp [hlt] : (h.set b _)[b]? = some _))
        simp only [Bool.or_eq_false_iff, bne_eq_false_iff_eq] at hnew
        obtain ⟨⟨⟨_, hsz⟩, htg⟩, hfr⟩ := hnew
        have hh' : ∀ g ∈ ghostStep h (.dealloc b n t), g.bad = false ∧ g.freed ≤ 1 := by
          intro g hg
          refine ⟨hstep g hg, ?_⟩
          simp only [ghostStep, hb] at hg
          rcases List.mem_or_eq_of_mem_set hg with hg | hg
          · exact (hh g hg).2
          · subst hg; simp [hfr]
        have := ih _ hh' hfin
        unfold replayLog
        simp only [List.getElem?_map, hb, Option.map_some, GBlock.abs, hfr, beq_self_eq_true, hsz, htg, and_self, if_true]
        rw [← this]
        simp [ghostStep, hb, List.map_set, GBlock.abs, hfr, hsz, htg]

/-! ### a bound on dimensions and alignments is preserved by every operation -/

/-- every image in every slot satisfies a predicate on (width, height, alignment) -/
def AllImgs (D : Nat → Nat → Nat → Prop) (w : World) : Prop := ∀ s i, w.imgs s = some i → D i.w i.h i.align

theorem all_setImg {D} {w : World} (h : AllImgs D w) (s : Nat) (v : Option Img) (hv : ∀ i, v = some i → D i.w i.h i.align) : AllImgs D (w.setImg s v) := by
  intro s' i hi
  simp only [setImg_imgs] at hi
  split at hi
  · exact hv i hi
  · exact h s' i hi

theorem all_of_imgs {D} {w w' : World} (h : AllImgs D w) (hi : w'.imgs = w.imgs) : AllImgs D w' := by
  intro s i; rw [hi]; exact h s i

theorem all_release {D} {w : World} (h : AllImgs D w) (o : Org) (i : Img) : AllImgs D (release o w i) :=
  all_of_imgs h (release_imgs o w i)

theorem all_pCtor {D} {w : World} (h : AllImgs D w) (c : Cfg) (o : Org) (s : Nat) (img0 : Img) (W H : Nat) (content : List Nat) (src : Option (Nat × Nat))
    (h0 : D 0 0 img0.align) (h00 : img0.w = 0 ∧ img0.h = 0) (hd : D W H img0.align) : AllImgs D (pCtor c o w s img0 W H content src).1 := by
  intro s' j hj
  by_cases e : s' = s
  · subst e
    unfold pCtor at hj
    simp only [] at hj
    split at hj
    · split at hj
      · cases hres : w.construct o none (W * H) with
        | mk w2 okc =>
          rw [hres] at hj
          cases okc with
          | true => simp at hj; subst hj; simpa [Img.withView] using hd
          | false =>
            have := construct_imgs0 w o none (W * H); rw [hres] at this; simp only [] at this hj
            rw [this] at hj; exact h s' j hj
      · split at hj
        · exact h s' j hj
        · simp at hj; subst hj; simpa [h00.1, h00.2] using h0
    · rcases alloc_cases w img0.tag (o.needed img0.align W H) with e | ⟨fa, e⟩
      · rw [e] at hj; exact h s' j hj
      · rw [e] at hj; simp only [] at hj
        generalize hw1 : ({ w with heap := w.heap ++ [{ size := o.needed img0.align W H, tag := img0.tag }], log := Event.alloc w.heap.length (o.needed img0.align W H) img0.tag :: w.log, failA := fa } : World) = w1 at hj
        have hi1 : w1.imgs = w.imgs := by rw [← hw1]
        have ci := construct_imgs0 w1 o (some w.heap.length) (W * H)
        cases hres : w1.construct o (some w.heap.length) (W * H) with
        | mk w2 okc =>
          rw [hres] at hj ci; simp only [] at hj ci
          cases okc with
          | true => simp at hj; subst hj; simpa [Img.withView] using hd
          | false => simp [ci, hi1] at hj; exact h s' j hj
  · rw [(pCtor_imgs c o w s img0 W H content src).1 s' e] at hj; exact h s' j hj

theorem all_pDtor {D} {w : World} (h : AllImgs D w) (o : Org) (s : Nat) : AllImgs D (pDtor o w s) := by
  intro s' j hj; rw [pDtor_imgs] at hj; split at hj
  · cases hj
  · exact h s' j hj

theorem all_pSwap {D} {w : World} (h : AllImgs D w) (c : Cfg) (s s2 : Nat) : AllImgs D (pSwap c w s s2).1 := by
  unfold pSwap; split
  next a b hs hs2 =>
    split
    · exact all_setImg (all_setImg h _ _ (fun i e => by cases e; exact h s2 b hs2)) _ _ (fun i e => by cases e; exact h s a hs)
    · split
      · exact all_setImg (all_setImg h _ _ (fun i e => by cases e; exact h s2 b hs2)) _ _ (fun i e => by cases e; exact h s a hs)
      · exact h
  · exact h

theorem all_pReuse {D} {w : World} (h : AllImgs D w) (o : Org) (s W H : Nat) (content : List Nat)
    (hd : ∀ i, w.imgs s = some i → D W H i.align) : AllImgs D (pReuse o w s W H content).1 := by
  unfold pReuse; split
  next i hs =>
    simp only []
    have ci := construct_imgs0 (w.destruct o i.mem (i.w * i.h)) o (Img.withView o i W H).mem (W * H)
    cases hres : (w.destruct o i.mem (i.w * i.h)).construct o (Img.withView o i W H).mem (W * H) with
    | mk w2 okc =>
      rw [hres] at ci; simp only [] at ci
      have hw2 : AllImgs D w2 := all_of_imgs h (by rw [ci]; simp)
      cases okc <;> exact all_setImg hw2 _ _ (fun j e => by cases e; simpa [Img.withView] using hd i hs)
  · exact h

theorem all_pAdopt {D} {w : World} (h : AllImgs D w) (hD0 : D 0 0 0) (o : Org) (s s2 : Nat) (t : Bool) : AllImgs D (pAdopt o w s s2 t) := by
  unfold pAdopt; split
  next a b hs hs2 =>
    refine all_setImg (all_setImg (all_release h o a) _ _ (fun i e => by cases e; exact h s2 b hs2)) _ _ (fun i e => ?_)
    cases e; simpa [Img.cleared] using hD0
  · exact h

theorem all_pRelease {D} {w : World} (h : AllImgs D w) (hD0 : ∀ W H a, D W H a → D 0 0 a) (o : Org) (s : Nat) : AllImgs D (pRelease o w s) := by
  unfold pRelease; split
  next a hs => exact all_setImg (all_release h o a) _ _ (fun i e => by cases e; simpa [Img.cleared] using hD0 _ _ _ (h s a hs))
  · exact h

theorem all_pTakeDims {D} {w : World} (h : AllImgs D w) (hD0 : ∀ W H a, D W H a → D 0 0 a)
    (hDx : ∀ W H a W' H' a', D W H a → D W' H' a' → D W H a') (o : Org) (s s2 : Nat) :
    AllImgs D (pTakeDims o w s s2) := by
  unfold pTakeDims; split
  next a b hs hs2 =>
    refine all_setImg (all_setImg (all_release h o a) _ _ (fun i e => ?_)) _ _ (fun i e => ?_)
    · cases e; simpa [Img.withView, Img.cleared] using hDx _ _ _ _ _ _ (h s2 b hs2) (h s a hs)
    · cases e; simpa using hD0 _ _ _ (h s2 b hs2)
  · exact h

theorem all_userFill {D} {w : World} (h : AllImgs D w) (s v : Nat) : AllImgs D (userFill w s v) := by
  unfold userFill; split
  next i hs => exact all_setImg h _ _ (fun j e => by cases e; exact h s i hs)
  · exact h

theorem all_andThen {D} (r : World × Outcome) (k : World → World × Outcome) (h : AllImgs D r.1) (hk : ∀ w, AllImgs D w → AllImgs D (k w).1) :
    AllImgs D (andThen r k).1 := by
  unfold andThen; split
  · exact hk _ h
  · exact h

theorem all_swapWithTmp {D} (c : Cfg) (o : Org) (r : World × Outcome) (s : Nat) (h : AllImgs D r.1) : AllImgs D (swapWithTmp c o r s).1 := by
  unfold swapWithTmp
  refine all_andThen _ _ h ?_
  intro w hw
  have hs := all_pSwap hw c s tmpSlot
  cases hp : pSwap c w s tmpSlot with
  | mk w' out => rw [hp] at hs; cases out <;> first | exact hs | exact all_pDtor hs o tmpSlot

/-- the explicit dimensions and alignment an operation carries satisfy `D` -/
def OpDims (D : Nat → Nat → Nat → Prop) : Op → Prop
  | .dflt _ _ al => D 0 0 al
  | .dims _ _ al W H _ => D W H al ∧ D 0 0 al
  | .fill _ _ al W H _ => D W H al ∧ D 0 0 al
  | .fillprobe _ _ al W H _ => D W H al ∧ D 0 0 al
  | .fromview _ _ al _ => ∀ W H a, D W H a → D W H al     -- re-aligning an existing image's dimensions
  | .recreate _ W H al _ _ _ => D W H al ∧ D 0 0 al ∧ ∀ W' H' a, D W' H' a → D W' H' al
  | _ => True

/-- `D` is a bound: it does not depend on which alignment of two admissible images is combined with which dimensions -/
def DClosed (D : Nat → Nat → Nat → Prop) : Prop :=
  D 0 0 0 ∧ (∀ W H a, D W H a → D 0 0 a) ∧ ∀ W H a W' H' a', D W H a → D W' H' a' → D W H a'

theorem all_step {D} (hD : DClosed D) (c : Cfg) (w : World) (op : Op) (h : AllImgs D w) (hop : OpDims D op) : AllImgs D (step c w op).1 := by
  obtain ⟨hD00, hD0, hDx⟩ := hD
  cases op with
  | dflt s t al => simp only [step]; split <;> first | exact all_setImg h _ _ (fun i e => by cases e; exact hop) | exact h
  | dims s t al W H v =>
    simp only [step]; split
    · exact all_andThen _ _ (all_pCtor h c _ s _ W H _ none hop.2 ⟨rfl, rfl⟩ hop.1) (fun w hw => all_userFill hw _ _)
    · exact h
  | fill s t al W H v => simp only [step]; split <;> first | exact all_pCtor h c _ s _ W H _ none hop.2 ⟨rfl, rfl⟩ hop.1 | exact h
  | fillprobe s t al W H v =>
    simp only [step]; split
    next o ho hs =>
      have hp := all_pCtor (D := D) h c o s (Img.fresh al (c.tagOf t)) W H (List.replicate (W * H) v) none hop.2 ⟨rfl, rfl⟩ hop.1
      split
      next w' heq => rw [heq] at hp; exact all_userFill hp _ _
      next r hr => exact hp
    · exact h
  | fromview s t al s2 =>
    simp only [step]; split
    next o b ho hs hs2 =>
      split
      · exact all_pCtor h c o s _ b.w b.h b.pix _ (hD0 _ _ _ (hop _ _ _ (h s2 b hs2))) ⟨rfl, rfl⟩ (hop _ _ _ (h s2 b hs2))
      · exact h
    · exact h
  | copy s s2 =>
    simp only [step]; split
    next o _ b ho _ hs hs2 => exact all_pCtor h c o s _ b.w b.h b.pix _ (hD0 _ _ _ (h s2 b hs2)) ⟨rfl, rfl⟩ (h s2 b hs2)
    · exact h
  | move s s2 =>
    simp only [step]; split
    next o b ho hs hs2 =>
      split
      · exact all_setImg (all_setImg h _ _ (fun i e => by cases e; exact h s2 b hs2)) _ _ (fun i e => by cases e; simpa [Img.cleared] using hD00)
      · exact h
    · exact h
  | assign s s2 =>
    simp only [step]; split
    · unfold stepAssign; split
      next a b hs hs2 =>
        split
        · exact all_setImg h _ _ (fun i e => by cases e; exact h s a hs)
        · exact all_swapWithTmp c _ _ s (all_pCtor h c _ tmpSlot _ b.w b.h b.pix _ (hD0 _ _ _ (h s2 b hs2)) ⟨rfl, rfl⟩ (h s2 b hs2))
      · exact h
    · exact h
  | massign s s2 =>
    simp only [step]; split
    next o ho =>
      split
      · unfold stepMoveAssign; split
        next a b hs hs2 =>
          split
          · exact h
          · split
            · exact all_pAdopt h hD00 o s s2 true
            · split
              · exact h
              · split
                · exact all_pAdopt h hD00 o s s2 false
                · split
                  · refine all_andThen _ _ (all_pCtor h c o tmpSlot _ b.w b.h b.pix _ (hD0 _ _ _ (h s a hs)) ⟨rfl, rfl⟩ (hDx _ _ _ _ _ _ (h s2 b hs2) (h s a hs))) ?_
                    intro w' hw'
                    exact all_pDtor (all_pRelease (all_pAdopt hw' hD00 o s tmpSlot false) hD0 o s2) o tmpSlot
                  · split
                    · exact all_pTakeDims h hD0 hDx o s s2
                    · exact all_pRelease h hD0 o s
        · exact h
      · exact h
    · exact h
  | swap s s2 =>
    simp only [step]; split
    · split <;> first | exact all_pSwap h c s s2 | exact h
    · exact h
  | recreate s W H al fill alloc v =>
    simp only [step]; split
    next o ho =>
      unfold stepRec; split
      · exact h
      next i hs =>
        simp only []
        split
        · split <;> first | exact all_userFill h _ _ | exact h
        · have h1 : AllImgs D (w.setImg s (some { i with align := al })) :=
            all_setImg h _ _ (fun j e => by cases e; exact hop.2.2 _ _ _ (h s i hs))
          refine all_andThen _ _ ?_ ?_
          · split
            · exact all_pReuse h1 o s W H _ (fun j hj => by simp at hj; subst hj; exact hop.1)
            · exact all_swapWithTmp c o _ s (all_pCtor h1 c o tmpSlot _ W H _ none hop.2.1 ⟨rfl, rfl⟩ hop.1)
          · intro w' hw'; split <;> first | exact all_userFill hw' _ _ | exact hw'
    · exact h
  | write s x y v =>
    simp only [step]; split
    next o i ho hs => split <;> first | exact all_setImg h _ _ (fun j e => by cases e; exact h s i hs) | exact h
    · exact h
  | destroy s => simp only [step]; split <;> first | exact all_pDtor h _ s | exact h
  | stop =>
    simp only [step]
    have : ∀ (l : List Nat) (w : World), AllImgs D w → AllImgs D (l.foldl (fun w s => match c.orgOf s with | some o => pDtor o w s | none => w) w) := by
      intro l; induction l with
      | nil => intro w hw; exact hw
      | cons a l ih => intro w hw; simp only [List.foldl_cons]; apply ih; split <;> first | exact all_pDtor hw _ a | exact hw
    exact this slots w h
  | bad => exact h

/-! ### slots without an organisation are never occupied (apart from the scratch slot inside an operation) -/

theorem ne_of_orgOf {c : Cfg} {s x : Nat} {o : Org} (h : c.orgOf s = some o) (hx : c.orgOf x = none) : x ≠ s := by
  intro e; subst e; rw [h] at hx; cases hx

theorem andThen_none (r : World × Outcome) (k : World → World × Outcome) (x : Nat) (hr : r.1.imgs x = none)
    (hk : r.2 = .ok → (k r.1).1.imgs x = none) : (andThen r k).1.imgs x = none := by
  unfold andThen
  split
  next h => exact hk h
  next h => exact hr

theorem swapWithTmp_imgs_other (c : Cfg) (o : Org) (r : World × Outcome) (s x : Nat) (h1 : x ≠ s) (h2 : x ≠ tmpSlot) :
    (swapWithTmp c o r s).1.imgs x = r.1.imgs x := by
  unfold swapWithTmp andThen
  split
  · cases hp : pSwap c r.1 s tmpSlot with
    | mk w' out =>
      have := pSwap_imgs_other c r.1 s tmpSlot x h1 h2
      rw [hp] at this; simp only [] at this
      cases out <;> simp [hp, pDtor_imgs, h2, this]
  · rfl

theorem pRelease_imgs_other (o : Org) (w : World) (s x : Nat) (h1 : x ≠ s) : (pRelease o w s).imgs x = w.imgs x := by
  unfold pRelease
  split
  · simp [release_imgs, h1]
  · rfl

/-- a free slot that has no organisation (so no constructor can target it) and is not the scratch slot stays free -/
theorem step_keeps_none (c : Cfg) (w : World) (op : Op) (x : Nat) (hx : c.orgOf x = none) (hxt : x ≠ tmpSlot) (h : w.imgs x = none) :
    (step c w op).1.imgs x = none := by
  cases op with
  | dflt s t al =>
    simp only [step]; split
    next o ho hs => simp [ne_of_orgOf ho hx, h]
    · exact h
  | dims s t al W H v =>
    simp only [step]; split
    next o ho hs =>
      have hne := ne_of_orgOf ho hx
      have hc := (pCtor_imgs c o w s (Img.fresh al (c.tagOf t)) W H (List.replicate (W * H) 0) none).1 x hne
      refine andThen_none _ _ x (by rw [hc]; exact h) ?_
      intro _; simp only []; rw [userFill_imgs_other _ _ _ _ hne, hc]; exact h
    · exact h
  | fill s t al W H v =>
    simp only [step]; split
    next o ho hs => rw [(pCtor_imgs c o w s _ W H _ none).1 x (ne_of_orgOf ho hx)]; exact h
    · exact h
  | fillprobe s t al W H v =>
    simp only [step]; split
    next o ho hs =>
      have hne := ne_of_orgOf ho hx
      have hc := (pCtor_imgs c o w s (Img.fresh al (c.tagOf t)) W H (List.replicate (W * H) v) none).1 x hne
      split
      next w' heq =>
        rw [heq] at hc; simp only [] at hc
        simp only []; rw [userFill_imgs_other _ _ _ _ hne, hc]; exact h
      next r hr => rw [hc]; exact h
    · exact h
  | fromview s t al s2 =>
    simp only [step]; split
    next o b ho hs hs2 =>
      split
      · rw [(pCtor_imgs c o w s _ b.w b.h b.pix _).1 x (ne_of_orgOf ho hx)]; exact h
      · exact h
    · exact h
  | copy s s2 =>
    simp only [step]; split
    next o _ b ho _ hs hs2 =>
      rw [(pCtor_imgs c o w s _ b.w b.h b.pix _).1 x (ne_of_orgOf ho hx)]; exact h
    · exact h
  | move s s2 =>
    simp only [step]; split
    next o b ho hs hs2 =>
      split
      · have hne2 : x ≠ s2 := by intro e; rw [e] at h; rw [h] at hs2; cases hs2
        simp [ne_of_orgOf ho hx, hne2, h]
      · exact h
    · exact h
  | assign s s2 =>
    simp only [step]; split
    next o _ ho _ =>
      unfold stepAssign
      split
      next a b hs hs2 =>
        split
        · simp [ne_of_orgOf ho hx, h]
        · rw [swapWithTmp_imgs_other _ _ _ _ _ (ne_of_orgOf ho hx) hxt, (pCtor_imgs c o w tmpSlot _ b.w b.h b.pix _).1 x hxt]; exact h
      · exact h
    · exact h
  | massign s s2 =>
    simp only [step]; split
    next o ho =>
      have hne := ne_of_orgOf ho hx
      split
      · unfold stepMoveAssign
        split
        next a b hs hs2 =>
          have hne2 : x ≠ s2 := by intro e; rw [e] at h; rw [h] at hs2; cases hs2
          split
          · exact h
          · split
            · simp only []; rw [pAdopt_imgs_other _ _ _ _ _ _ hne hne2]; exact h
            · split
              · exact h
              · split
                · simp only []; rw [pAdopt_imgs_other _ _ _ _ _ _ hne hne2]; exact h
                · split
                  · have hc := (pCtor_imgs c o w tmpSlot (Img.fresh a.align a.tag) b.w b.h b.pix (some (b.w, b.h))).1 x hxt
                    refine andThen_none _ _ x (by rw [hc]; exact h) ?_
                    intro _
                    simp only [pDtor_imgs, if_neg hxt]
                    rw [pRelease_imgs_other _ _ _ _ hne2, pAdopt_imgs_other _ _ _ _ _ _ hne hxt, hc]; exact h
                  · split
                    · simp only []; rw [pTakeDims_imgs o w s s2 a b hs hs2]; simp [hne, hne2, h]
                    · simp only []; rw [pRelease_imgs o s a hs]; simp [hne, h]
        · exact h
      · exact h
    · exact h
  | swap s s2 =>
    simp only [step]; split
    next o ho =>
      split
      next hc =>
        by_cases e : x = s2
        · subst e
          cases hs : w.imgs s <;> simp [pSwap, hs, h]
        · rw [pSwap_imgs_other c w s s2 x (ne_of_orgOf ho hx) e]; exact h
      · exact h
    · exact h
  | recreate s W H al fill alloc v =>
    simp only [step]; split
    next o ho =>
      have hne := ne_of_orgOf ho hx
      unfold stepRec
      split
      · exact h
      next i hs =>
        simp only []
        split
        · split
          · simp only []; rw [userFill_imgs_other _ _ _ _ hne]; exact h
          · exact h
        · have h1 : (w.setImg s (some { i with align := al })).imgs x = none := by simp [hne, h]
          have inner : (if i.allocated ≥ o.needed al W H then pReuse o (w.setImg s (some { i with align := al })) s W H (List.replicate (W * H) (fill.getD 0))
              else swapWithTmp c o (pCtor c o (w.setImg s (some { i with align := al })) tmpSlot (Img.fresh al (tmpTag c alloc)) W H (List.replicate (W * H) (fill.getD 0)) none) s).1.imgs x = none := by
            split
            · rw [pReuse_imgs_other _ _ _ _ _ _ _ hne]; exact h1
            · rw [swapWithTmp_imgs_other _ _ _ _ _ hne hxt, (pCtor_imgs c o _ tmpSlot _ W H _ none).1 x hxt]; exact h1
          refine andThen_none _ _ x inner ?_
          intro _
          split
          · simp only []; rw [userFill_imgs_other _ _ _ _ hne]; exact inner
          · exact inner
    · exact h
  | write s x' y v =>
    simp only [step]; split
    next o i ho hs =>
      split
      · simp [ne_of_orgOf ho hx, h]
      · exact h
    · exact h
  | destroy s =>
    simp only [step]; split
    next o i ho hs => simp only []; rw [pDtor_imgs]; simp [ne_of_orgOf ho hx, h]
    · exact h
  | stop =>
    simp only [step]
    have : ∀ (l : List Nat) (w : World), w.imgs x = none →
        (l.foldl (fun w s => match c.orgOf s with | some o => pDtor o w s | none => w) w).imgs x = none := by
      intro l
      induction l with
      | nil => intro w hw; exact hw
      | cons a l ih =>
        intro w hw; simp only [List.foldl_cons]; apply ih
        split
        · rw [pDtor_imgs]; split <;> simp [hw]
        · exact hw
    exact this slots w h
  | bad => exact h

/-- every slot the configuration gives no organisation (the scratch slot of `image tmp` included) is free -/
def OrgFree (c : Cfg) (w : World) : Prop := ∀ x, c.orgOf x = none → w.imgs x = none

/-- did the run stop in an assertion failure?  (then the process is gone: no later operation, no destructor ran) -/
def asserted (c : Cfg) (w : World) : List Op → Bool
  | [] => false
  | op :: rest =>
    match step c w op with
    | (_, .assertFail _) => true
    | (w', _) => asserted c w' rest

theorem step_orgfree (c : Cfg) (w : World) (op : Op) (h : OrgFree c w) :
    (∃ x, (step c w op).2 = .assertFail x) ∨ OrgFree c (step c w op).1 := by
  rcases step_tmpfree c w op (h tmpSlot (by simp [Cfg.orgOf, tmpSlot])) with ha | ht
  · exact Or.inl ha
  · right
    intro x hx
    by_cases e : x = tmpSlot
    · subst e; exact ht
    · exact step_keeps_none c w op x hx e (h x hx)

/-- slots without an organisation are never occupied: from a world where they are free, after ANY history that did not stop in an assertion -/
theorem run_orgfree (c : Cfg) (ops : List Op) : ∀ (w : World), OrgFree c w → asserted c w ops = false → OrgFree c (run c w ops) := by
  induction ops with
  | nil => intro w h _; exact h
  | cons op rest ih =>
    intro w h hna
    have h1 := step_orgfree c w op h
    unfold run
    unfold asserted at hna
    cases hs : step c w op with
    | mk w' out =>
      rw [hs] at h1 hna
      cases out with
      | assertFail x => simp at hna
      | ok => exact ih w' (h1.resolve_left (by rintro ⟨x, e⟩; cases e)) hna
      | badAlloc => exact ih w' (h1.resolve_left (by rintro ⟨x, e⟩; cases e)) hna
      | ctorThrow => exact ih w' (h1.resolve_left (by rintro ⟨x, e⟩; cases e)) hna
      | nocompile => exact ih w' (h1.resolve_left (by rintro ⟨x, e⟩; cases e)) hna
      | skip => exact ih w' (h1.resolve_left (by rintro ⟨x, e⟩; cases e)) hna
      | okFilled => exact ih w' (h1.resolve_left (by rintro ⟨x, e⟩; cases e)) hna
      | okUnfilled => exact ih w' (h1.resolve_left (by rintro ⟨x, e⟩; cases e)) hna

/-- a history followed by the end of all images: `run` of the extended history is the `stop` step after the run -/
theorem run_snoc_stop (c : Cfg) (ops : List Op) : ∀ (w : World), asserted c w ops = false →
    run c w (ops ++ [.stop]) = (step c (run c w ops) .stop).1 := by
  induction ops with
  | nil =>
    intro w _
    show run c w [.stop] = _
    unfold run
    cases hs : step c w .stop with
    | mk w' out => cases out <;> simp [run]
  | cons op rest ih =>
    intro w hna
    unfold asserted at hna
    simp only [List.cons_append]
    unfold run
    cases hs : step c w op with
    | mk w' out =>
      rw [hs] at hna
      cases out <;> first | (simp at hna; done) | exact ih w' hna

/-! ### strong guarantee of the operations that build a temporary first -/

theorem construct_log (w : World) (o : Org) (b : Option Nat) (n : Nat) : (w.construct o b n).1.log = w.log := by
  unfold World.construct World.grow
  cases b <;> simp <;> (repeat' split) <;> simp

/-- a constructor that ends with bad_alloc has changed neither an image, nor the heap, nor the allocator log -/
theorem pCtor_badAlloc (c : Cfg) (o : Org) (w : World) (s : Nat) (img0 : Img) (W H : Nat) (content : List Nat) (src : Option (Nat × Nat))
    (hf : (pCtor c o w s img0 W H content src).2 = .badAlloc) :
    (pCtor c o w s img0 W H content src).1.imgs = w.imgs ∧ (pCtor c o w s img0 W H content src).1.heap = w.heap
      ∧ (pCtor c o w s img0 W H content src).1.log = w.log := by
  refine ⟨pCtor_fail_imgs c o w s img0 W H content src (by rw [hf]; intro e; cases e), ?_⟩
  unfold pCtor at hf ⊢
  simp only [] at hf ⊢
  split
  · rename_i h1
    simp only [h1, if_true] at hf
    split
    · rename_i hk
      simp only [hk, if_true] at hf
      cases hres : w.construct o none (W * H) with
      | mk w2 okc => rw [hres] at hf; cases okc <;> simp at hf
    · rename_i hk
      have hkf : c.keepDims = false := by simpa using hk
      simp only [hkf, Bool.false_eq_true, if_false] at hf
      split
      · rename_i h2; rw [if_pos h2] at hf; simp at hf
      · rename_i h2; rw [if_neg h2] at hf; simp at hf
  · rename_i hn0
    simp only [hn0, if_false] at hf
    rcases alloc_cases w img0.tag (o.needed img0.align W H) with e | ⟨fa, e⟩
    · rw [e]; exact ⟨rfl, rfl⟩
    · rw [e] at hf; simp only [] at hf
      cases hres : World.construct _ o (some w.heap.length) (W * H) with
      | mk w2 okc => rw [hres] at hf; cases okc <;> simp at hf

/-- a constructor whose element construction throws has released the allocation it made, with the same size through the same allocator:
    the printed log gains exactly `alloc b n t` then `dealloc b n t` (or nothing, when no byte was needed) -/
theorem pCtor_ctorThrow_log (c : Cfg) (o : Org) (w : World) (s : Nat) (img0 : Img) (W H : Nat) (content : List Nat) (src : Option (Nat × Nat))
    (hf : (pCtor c o w s img0 W H content src).2 = .ctorThrow) :
    (pCtor c o w s img0 W H content src).1.log = w.log ∨
    (pCtor c o w s img0 W H content src).1.log =
      Event.dealloc w.heap.length (o.needed img0.align W H) img0.tag :: Event.alloc w.heap.length (o.needed img0.align W H) img0.tag :: w.log := by
  unfold pCtor at hf ⊢
  simp only [] at hf ⊢
  split
  · rename_i h1
    simp only [h1, if_true] at hf
    split
    · rename_i hk
      simp only [hk, if_true] at hf
      have cl := construct_log w o none (W * H)
      cases hres : w.construct o none (W * H) with
      | mk w2 okc =>
        rw [hres] at hf cl; simp only [] at cl
        cases okc with
        | true => simp at hf
        | false => left; exact cl
    · rename_i hk
      have hkf : c.keepDims = false := by simpa using hk
      simp only [hkf, Bool.false_eq_true, if_false] at hf
      split
      · rename_i h2; rw [if_pos h2] at hf; simp at hf
      · rename_i h2; rw [if_neg h2] at hf; simp at hf
  · rename_i hn0
    simp only [hn0, if_false] at hf
    rcases alloc_cases w img0.tag (o.needed img0.align W H) with e | ⟨fa, e⟩
    · rw [e] at hf; simp at hf
    · rw [e] at hf ⊢; simp only [] at hf ⊢
      have cl := construct_log ({ w with heap := w.heap ++ [{ size := o.needed img0.align W H, tag := img0.tag }], log := Event.alloc w.heap.length (o.needed img0.align W H) img0.tag :: w.log, failA := fa } : World) o (some w.heap.length) (W * H)
      cases hres : World.construct _ o (some w.heap.length) (W * H) with
      | mk w2 okc =>
        rw [hres] at hf cl; simp only [] at cl
        cases okc with
        | true => simp at hf
        | false => right; simp [World.dealloc, cl]

/-- `image tmp(...); swap(tmp);` ends with an exception only if the constructor of the temporary threw: then nothing else happened -/
theorem swapWithTmp_throw (c : Cfg) (o : Org) (r : World × Outcome) (s : Nat)
    (hf : (swapWithTmp c o r s).2 = .badAlloc ∨ (swapWithTmp c o r s).2 = .ctorThrow) : swapWithTmp c o r s = r := by
  unfold swapWithTmp andThen at hf ⊢
  split
  · rename_i hok
    simp only [hok] at hf
    cases hp : pSwap c r.1 s tmpSlot with
    | mk w' out => rw [hp] at hf; cases out <;> simp at hf
  · rfl


/-- `andThen r k` with a continuation that cannot throw ends with an exception only if `r` did: then the continuation never ran -/
theorem andThen_throw (r : World × Outcome) (k : World → World × Outcome) (hk : ∀ w, (k w).2 = .ok)
    (hf : (andThen r k).2 = .badAlloc ∨ (andThen r k).2 = .ctorThrow) : andThen r k = r := by
  cases hr : r.2 <;> simp only [andThen, hr] at hf ⊢
  rw [hk] at hf; simp at hf

/-- a successful constructor that needs storage: the new image has the requested dimensions and content, the member initialisers' alignment and
    allocator, and owns the block just allocated -/
theorem pCtor_ok_img (c : Cfg) (o : Org) (w : World) (s : Nat) (img0 : Img) (W H : Nat) (content : List Nat) (src : Option (Nat × Nat))
    (hnz : o.needed img0.align W H ≠ 0) (hok : (pCtor c o w s img0 W H content src).2 = .ok) :
    ∃ j, (pCtor c o w s img0 W H content src).1.imgs s = some j ∧ j.w = W ∧ j.h = H ∧ j.pix = content ∧ j.mem = some w.heap.length
      ∧ j.tag = img0.tag ∧ j.align = img0.align ∧ j.allocated = o.needed img0.align W H := by
  unfold pCtor at hok ⊢
  simp only [hnz, if_false] at hok ⊢
  rcases alloc_cases w img0.tag (o.needed img0.align W H) with e | ⟨fa, e⟩
  · rw [e] at hok; simp at hok
  · rw [e] at hok ⊢; simp only [] at hok ⊢
    cases hres : World.construct _ o (some w.heap.length) (W * H) with
    | mk w2 okc =>
      rw [hres] at hok
      cases okc with
      | false => simp at hok
      | true =>
        exact ⟨{ Img.withView o { img0 with allocated := o.needed img0.align W H, mem := some w.heap.length } W H with pix := content },
          (by simp only [setImg_imgs, if_true]), rfl, rfl, rfl, rfl, rfl, rfl, rfl⟩


theorem destruct_log (w : World) (o : Org) (b : Option Nat) (n : Nat) : (w.destruct o b n).log = w.log := by
  unfold World.destruct; cases b <;> (split <;> simp) <;> (try split) <;> rfl

/-- `destruct_pixels(_view); deallocate();` logs at most one event: the deallocate of the image's own block with its recorded size through its
    own allocator -/
theorem release_log (o : Org) (w : World) (i : Img) :
    (release o w i).log = w.log ∨ ∃ bk, i.mem = some bk ∧ (release o w i).log = Event.dealloc bk i.allocated i.tag :: w.log := by
  unfold release
  cases hm : i.mem with
  | none => left; simp only []; exact destruct_log _ _ _ _
  | some bk =>
    simp only []
    split
    · right; exact ⟨bk, rfl, by simp [World.dealloc, destruct_log]⟩
    · left; exact destruct_log _ _ _ _


theorem pAdopt_imgs (o : Org) (w : World) (s s2 : Nat) (t : Bool) (a b : Img) (hs : w.imgs s = some a) (hs2 : w.imgs s2 = some b) (x : Nat) :
    (pAdopt o w s s2 t).imgs x = if x = s2 then some { b.cleared with align := 0 }
                                 else if x = s then some { b with tag := if t then b.tag else a.tag } else w.imgs x := by
  unfold pAdopt; simp only [hs, hs2, setImg_imgs, release_imgs]

end GilVerif.Lemmas.C10
