/-
  Lemmas about the shared codec model (Model/Codec.lean), used by Props/C12 and Props/C13.
  Core Lean only.
-/
import GilVerif.Model.Codec

namespace GilVerif.Codec

/-! ### little endian integers -/

theorem rdU8_cons (b : UInt8) (r : Bytes) : rdU8 (b :: r) = some (b.toNat, r) := rfl

theorem rdU16_le16 (x : Nat) (r : Bytes) : rdU16 (le16 x ++ r) = some (x % 65536, r) := by
  simp only [le16, rdU16, List.cons_append, List.nil_append, UInt8.toNat_ofNat']
  congr 2
  omega

theorem rdU32_le32 (x : Nat) (r : Bytes) : rdU32 (le32 x ++ r) = some (x % 4294967296, r) := by
  simp only [le32, rdU32, List.cons_append, List.nil_append, UInt8.toNat_ofNat']
  congr 2
  omega

theorem length_le16 (x : Nat) : (le16 x).length = 2 := rfl
theorem length_le32 (x : Nat) : (le32 x).length = 4 := rfl

/-- `x & ~3` on a 64-bit unsigned value clears the two low bits -/
theorem land_mask4 (x : Nat) (hx : x < 2 ^ 64) : Nat.land x 18446744073709551612 = x / 4 * 4 := by
  show x &&& 18446744073709551612 = x / 4 * 4
  have hm : (18446744073709551612 : Nat) = (2 ^ 62 - 1) <<< 2 := by decide
  have hr : x / 4 * 4 = (x >>> 2) <<< 2 := by
    rw [Nat.shiftLeft_eq, Nat.shiftRight_eq_div_pow]
  rw [hm, hr]
  apply Nat.eq_of_testBit_eq
  intro i
  simp only [Nat.testBit_and, Nat.testBit_shiftLeft, Nat.testBit_shiftRight, Nat.testBit_two_pow_sub_one]
  by_cases h2 : i ≥ 2
  · have e : 2 + (i - 2) = i := by omega
    simp only [h2, decide_true, Bool.true_and, e]
    by_cases h64 : i < 64
    · have : i - 2 < 62 := by omega
      simp [this]
    · have hlt : x < 2 ^ i := Nat.lt_of_lt_of_le hx (Nat.pow_le_pow_right (by decide) (by omega))
      simp [Nat.testBit_lt_two_pow hlt]
  · simp [h2]

/-! ### pixel rows -/

/-- `enc` writes exactly `size` bytes and `dec` reads them back -/
structure PixFmt.Lawful {α} (f : PixFmt α) : Prop where
  enc_length : ∀ a, (f.enc a).length = f.size
  dec_enc : ∀ a rest, f.dec (f.enc a ++ rest) = a

theorem rgb8_lawful : rgb8.Lawful := ⟨fun _ => rfl, fun ⟨_, _, _⟩ _ => rfl⟩
theorem bgr8_lawful : bgr8.Lawful := ⟨fun _ => rfl, fun ⟨_, _, _⟩ _ => rfl⟩
theorem rgba8_lawful : rgba8.Lawful := ⟨fun _ => rfl, fun ⟨_, _, _, _⟩ _ => rfl⟩
theorem bgra8_lawful : bgra8.Lawful := ⟨fun _ => rfl, fun ⟨_, _, _, _⟩ _ => rfl⟩
theorem gray8_lawful : gray8.Lawful := ⟨fun _ => rfl, fun _ _ => rfl⟩

theorem length_encRow {α} {f : PixFmt α} (hf : f.Lawful) (r : List α) : (encRow f r).length = r.length * f.size := by
  induction r with
  | nil => simp [encRow]
  | cons a r ih =>
    simp only [encRow, List.flatMap_cons, List.length_append, List.length_cons] at *
    rw [ih, hf.enc_length, Nat.add_mul]; omega

theorem decRow_encRow {α} {f : PixFmt α} (hf : f.Lawful) (r : List α) (rest : Bytes) :
    decRow f r.length (encRow f r ++ rest) = r := by
  induction r with
  | nil => rfl
  | cons a r ih =>
    simp only [encRow, List.flatMap_cons, List.length_cons, decRow, List.append_assoc]
    rw [hf.dec_enc, List.drop_left' (hf.enc_length a)]
    exact congrArg _ ih

theorem length_decRow {α} (f : PixFmt α) (n : Nat) (bs : Bytes) : (decRow f n bs).length = n := by
  induction n generalizing bs with
  | zero => rfl
  | succ n ih => simp [decRow, ih]

theorem sliceRow_full {α} (r : List α) : sliceRow 0 r.length r = r := by simp [sliceRow]

/-! ### equal-length blocks -/

theorem drop_flatten_blocks {α} (p : Nat) : ∀ (blocks : List (List α)) (k : Nat), (∀ b ∈ blocks, b.length = p) →
    blocks.flatten.drop (k * p) = (blocks.drop k).flatten
  | [], k, _ => by simp
  | b :: bs, 0, _ => by simp
  | b :: bs, k + 1, h => by
    have hb : b.length = p := h b (by simp)
    have ih := drop_flatten_blocks p bs k (fun x hx => h x (by simp [hx]))
    rw [List.flatten_cons, List.drop_succ_cons, ← ih, Nat.add_mul, Nat.one_mul, Nat.add_comm, ← List.drop_drop,
      List.drop_left' hb]

/-- reading block `k` out of `hdr ++ blocks.flatten` -/
theorem readAt_block {α} (p : Nat) (hdr : List α) (blocks : List (List α)) (k : Nat) (hk : k < blocks.length)
    (h : ∀ b ∈ blocks, b.length = p) :
    ((hdr ++ blocks.flatten).drop (hdr.length + k * p)).take p = blocks[k] := by
  rw [← List.drop_drop, List.drop_left' rfl, drop_flatten_blocks p blocks k h]
  have : blocks.drop k = blocks[k] :: blocks.drop (k + 1) := by simp
  rw [this, List.flatten_cons, List.take_left' (h _ (List.getElem_mem hk))]

theorem map_range_eq {β} (l : List β) (g : Nat → β) (h : ∀ i (hi : i < l.length), g i = l[i]) :
    (List.range l.length).map g = l := by
  apply List.ext_getElem
  · simp
  · intro i h1 h2
    simp only [List.getElem_map, List.getElem_range]
    exact h i h2

theorem map_range_eq' {β} (l : List β) (n : Nat) (hn : n = l.length) (g : Nat → β)
    (h : ∀ i (hi : i < l.length), g i = l[i]) : (List.range n).map g = l := by
  subst hn; exact map_range_eq l g h

/-! ### sub-rectangles -/

theorem sliceRow_take {α} (row : List α) (w tlx dx : Nat) (h : tlx + dx ≤ w) :
    sliceRow tlx dx (sliceRow 0 w row) = sliceRow tlx dx row := by
  simp only [sliceRow, List.drop_zero, List.drop_take, List.take_take]
  rw [Nat.min_eq_left (by omega)]

/-- the row-wise readers read a sub-rectangle as the crop of what they read with default settings: for EVERY byte string,
    offset function, row decoder, and every rectangle inside the `w × h` image -/
theorem readRows_crop {α} (file : Bytes) (off : Nat → Nat) (len : Nat) (rowDec : Bytes → List α) (s : Settings) (w h : Nat)
    (hin : s.Inside w h) :
    readRows file off len rowDec s w h = crop s (readRows file off len rowDec Settings.full w h) := by
  obtain ⟨hx, hy⟩ := hin
  simp only [readRows, crop, Settings.full, Settings.dimX, Settings.dimY, if_true, Nat.add_zero] at *
  congr 1
  apply List.ext_getElem
  · simp; omega
  · intro i h1 h2
    simp only [List.getElem_map, List.getElem_range, List.getElem_take, List.getElem_drop]
    rw [sliceRow_take _ w s.tlx _ hx, Nat.add_comm]

/-! ### BMP -/

theorem toI32_small {x : Nat} (h : x < 2147483648) : toI32 x = (x : Int) := by simp [toI32, h]

theorem length_bmpHeader (w h nch : Nat) : (bmpHeader w h nch).length = 54 := rfl

theorem length_padTo {n : Nat} {bs : Bytes} (h : bs.length ≤ n) : (padTo n bs).length = n := by
  simp [padTo]; omega

/-- what the reader makes of the header the writer produces -/
theorem bmpReadHeader_bmpHeader (w h nch : Nat) (rest : Bytes) (hw : w < 2147483648) (hh : h < 2147483648)
    (hn : nch * 8 < 65536) :
    bmpReadHeader (bmpHeader w h nch ++ rest) =
      some ({ offset := 54, headerSize := 40, width := w, height := h, topDown := false, bpp := nch * 8,
              compression := 0, numColors := 0 }, rest) := by
  have e1 : (w : Nat) % 4294967296 = w := Nat.mod_eq_of_lt (by omega)
  have e2 : (h : Nat) % 4294967296 = h := Nat.mod_eq_of_lt (by omega)
  have e3 : nch * 8 % 65536 = nch * 8 := Nat.mod_eq_of_lt hn
  have hneg : ¬ ((h : Int) < 0) := by omega
  simp only [bmpHeader, bmpReadHeader, List.append_assoc, rdU16_le16, rdU32_le32]
  simp [e1, e2, e3, toI32_small hw, toI32_small hh, hneg]

/-! ### TARGA -/

theorem reverse_map_range {β} (n : Nat) (g : Nat → β) :
    ((List.range n).map g).reverse = (List.range n).map (fun r => g (n - 1 - r)) := by
  apply List.ext_getElem
  · simp
  · intro i h1 h2
    simp only [List.length_reverse, List.length_map, List.length_range] at h1
    simp [List.getElem_reverse]

/-- the stored-scanline offset of destination row `j` of the whole image -/
def tgaRowOff (info : TgaInfo) (j : Nat) : Nat :=
  let rs := info.width * (info.bpp / 8)
  if info.originBit then info.offset + j * rs else info.offset + (info.height - 1 - j) * rs

/-- reader::read_data (seek once, read `dim.y` scanlines, fill the view bottom-up) reads row `y` of the region from
    the stored scanline of image row `y + top_left.y` -/
theorem tgaReadRaw_eq {α} (f : PixFmt α) (file : Bytes) (info : TgaInfo) (s : Settings)
    (hin : s.Inside info.width info.height) :
    tgaReadRaw f file info s =
      readRows file (tgaRowOff info) (info.width * (info.bpp / 8)) (decRow f info.width) s info.width info.height := by
  obtain ⟨_, hy⟩ := hin
  unfold tgaReadRaw readRows tgaRowOff
  cases hb : info.originBit
  · -- bottom-up file
    simp only [Bool.false_eq_true, if_false]
    congr 1
    rw [reverse_map_range]
    apply List.map_congr_left
    intro r hr
    have hr' : r < s.dimY info.height := List.mem_range.1 hr
    have e : (info.height - s.tly - s.dimY info.height) + (s.dimY info.height - 1 - r) = info.height - 1 - (r + s.tly) := by omega
    simp only [readAt]
    rw [Nat.add_assoc, ← Nat.add_mul, e]
  · simp only [if_true]
    congr 1
    apply List.map_congr_left
    intro r _
    simp only [readAt]
    rw [Nat.add_assoc, ← Nat.add_mul, Nat.add_comm s.tly r]

def tgaRleRowOff (info : TgaInfo) (j : Nat) : Nat :=
  let rs := info.width * (info.bpp / 8)
  if info.originBit then j * rs else (info.height - 1 - j) * rs

/-- reader::read_rle_data: same statement over the decoded `image_data` -/
theorem tgaReadRle_eq {α} (f : PixFmt α) (file : Bytes) (info : TgaInfo) (s : Settings)
    (hin : s.Inside info.width info.height) :
    tgaReadRle f file info s =
      (tgaRlePackets (info.bpp / 8) (info.width * info.height * (info.bpp / 8) + 1) (file.drop info.offset)
          (info.width * info.height * (info.bpp / 8))).map fun data =>
        readRows data (tgaRleRowOff info) (info.width * (info.bpp / 8)) (decRow f info.width) s info.width info.height := by
  obtain ⟨_, hy⟩ := hin
  simp only [tgaReadRle]
  split
  · rename_i hp; rw [hp]; rfl
  · rename_i data hp
    rw [hp]
    simp only [Option.map_some]
    congr 1
    unfold readRows tgaRleRowOff
    cases hb : info.originBit
    · simp only [Bool.false_eq_true, if_false]
      congr 1
      apply List.map_congr_left
      intro r _
      simp only [readAt]
      rw [Nat.add_comm s.tly r]
    · simp only [if_true]
      congr 1
      rw [reverse_map_range]
      apply List.map_congr_left
      intro r hr
      have hr' : r < s.dimY info.height := List.mem_range.1 hr
      have e : info.height - 1 - (info.height - s.tly - s.dimY info.height + (s.dimY info.height - 1 - r)) = r + s.tly := by omega
      simp only [readAt]
      rw [e]

/-! ### TARGA header -/

theorem length_tgaHeader (w h nch : Nat) : (tgaHeader w h nch).length = 18 := rfl

theorem tgaReadHeader_tgaHeader (w h nch : Nat) (rest : Bytes) (hw1 : 1 ≤ w) (hw : w < 65536) (hh1 : 1 ≤ h) (hh : h < 65536)
    (hn : nch = 3 ∨ nch = 4) :
    tgaReadHeader (tgaHeader w h nch ++ rest) =
      some { offset := 18, colorMapType := 0, imageType := 2, colorMapLength := 0, width := w, height := h,
             bpp := nch * 8, descriptor := if nch = 4 then 8 else 0, originBit := false } := by
  have e1 : w % 65536 = w := Nat.mod_eq_of_lt hw
  have e2 : h % 65536 = h := Nat.mod_eq_of_lt hh
  have n1 : ¬ (w < 1) := by omega
  have n2 : ¬ (h < 1) := by omega
  rcases hn with rfl | rfl <;>
    simp [tgaHeader, tgaReadHeader, rdU8_cons, rdU16_le16, e1, e2, n1, n2]

/-! ### PNM: decimal header fields -/

def digVal (c : UInt8) : Nat := c.toNat - 48
def foldDigits (val : Nat) (ds : Bytes) : Nat := ds.foldl (fun a d => a * 10 + digVal d) val

/-- read_int's overflow guard `val > INT_MAX / 10 - dig` never fires along the digit string -/
def okRun : Nat → Bytes → Prop
  | _, [] => True
  | val, d :: ds => val + digVal d ≤ 214748364 ∧ okRun (val * 10 + digVal d) ds

theorem isDigit_ne_hash {c : UInt8} (h : isDigit c = true) : c ≠ 35 := by
  intro hc; subst hc; revert h; decide

theorem isDigit_not_ws {c : UInt8} (h : isDigit c = true) : isWs c = false := by
  have h1 : 48 ≤ c.toNat ∧ c.toNat ≤ 57 := by
    simpa [isDigit, UInt8.le_iff_toNat_le] using h
  have e : ∀ k : Nat, k < 256 → (c = UInt8.ofNat k ↔ c.toNat = k) := by
    intro k hk
    constructor
    · intro h; rw [h, UInt8.toNat_ofNat']; omega
    · intro h; rw [← h, UInt8.ofNat_toNat]
  have n32 : c ≠ 32 := fun h => by have := (e 32 (by omega)).1 h; omega
  have n9 : c ≠ 9 := fun h => by have := (e 9 (by omega)).1 h; omega
  have n10 : c ≠ 10 := fun h => by have := (e 10 (by omega)).1 h; omega
  have n13 : c ≠ 13 := fun h => by have := (e 13 (by omega)).1 h; omega
  simp [isWs, n32, n9, n10, n13]

theorem pnmDigits_run (t : UInt8) (rest : Bytes) (ht : isDigit t = false) (ht' : t ≠ 35) :
    ∀ (ds : Bytes) (val : Nat) (c : UInt8), (∀ d ∈ ds, isDigit d = true) → okRun val (c :: ds) →
      pnmDigits val c (ds ++ t :: rest) = some (foldDigits val (c :: ds), rest)
  | [], val, c, _, ok => by
    have g : ¬ (val + (c.toNat - 48) > 214748364) := by have := ok.1; unfold digVal at this; omega
    simp [pnmDigits, g, ht, ht', foldDigits, digVal]
  | d :: ds, val, c, hd, ok => by
    have g : ¬ (val + (c.toNat - 48) > 214748364) := by have := ok.1; unfold digVal at this; omega
    have dd : isDigit d = true := hd d (by simp)
    have ih := pnmDigits_run t rest ht ht' ds (val * 10 + digVal c) d (fun x hx => hd x (by simp [hx])) ok.2
    simp only [List.cons_append, pnmDigits, g, if_false, isDigit_ne_hash dd, dd, if_true]
    rw [show val * 10 + (c.toNat - 48) = val * 10 + digVal c from rfl, ih]
    rfl

theorem decDigitsAux_fuel : ∀ (f1 f2 n : Nat), n < f1 → n < f2 → decDigitsAux f1 n = decDigitsAux f2 n
  | 0, _, _, h, _ => by omega
  | _, 0, _, _, h => by omega
  | f1 + 1, f2 + 1, n, h1, h2 => by
    simp only [decDigitsAux]
    split
    · rfl
    · rw [decDigitsAux_fuel f1 f2 (n / 10) (by omega) (by omega)]

/-- the defining equation of std::to_string -/
theorem decDigits_eq (n : Nat) :
    decDigits n = if n < 10 then [UInt8.ofNat (48 + n)] else decDigits (n / 10) ++ [UInt8.ofNat (48 + n % 10)] := by
  show decDigitsAux (n + 1) n = if n < 10 then [UInt8.ofNat (48 + n)] else decDigitsAux (n / 10 + 1) (n / 10) ++ [UInt8.ofNat (48 + n % 10)]
  rw [decDigitsAux]
  split
  · rfl
  · rw [decDigitsAux_fuel n (n / 10 + 1) (n / 10) (by omega) (by omega)]

theorem digVal_digit {k : Nat} (h : k < 10) : digVal (UInt8.ofNat (48 + k)) = k := by
  simp [digVal, UInt8.toNat_ofNat']; omega

theorem isDigit_digit {k : Nat} (h : k < 10) : isDigit (UInt8.ofNat (48 + k)) = true := by
  simp [isDigit, UInt8.le_iff_toNat_le]; omega

theorem foldDigits_append (val : Nat) (a b : Bytes) : foldDigits val (a ++ b) = foldDigits (foldDigits val a) b := by
  simp [foldDigits, List.foldl_append]

theorem okRun_append (b : Bytes) : ∀ (a : Bytes) (val : Nat), okRun val (a ++ b) ↔ okRun val a ∧ okRun (foldDigits val a) b
  | [], val => by simp [okRun, foldDigits]
  | d :: a, val => by
    simp only [List.cons_append, okRun, okRun_append b a, foldDigits, List.foldl_cons, and_assoc]

theorem decDigits_spec (n : Nat) :
    (∀ d ∈ decDigits n, isDigit d = true) ∧ decDigits n ≠ [] ∧ foldDigits 0 (decDigits n) = n ∧
    (n / 10 + n % 10 ≤ 214748364 → okRun 0 (decDigits n)) := by
  induction n using Nat.strongRecOn with
  | _ n ih =>
    rw [decDigits_eq]
    split
    · rename_i h
      refine ⟨?_, by simp, ?_, ?_⟩
      · intro d hd; simp only [List.mem_singleton] at hd; subst hd; exact isDigit_digit h
      · simp only [foldDigits, List.foldl_cons, List.foldl_nil, digVal_digit h]; omega
      · intro _; simp only [okRun, digVal_digit h, and_true]; omega
    · rename_i h
      obtain ⟨h1, h2, h3, h4⟩ := ih (n / 10) (by omega)
      have hl : n % 10 < 10 := Nat.mod_lt _ (by omega)
      refine ⟨?_, by simp, ?_, ?_⟩
      · intro d hd
        rcases List.mem_append.1 hd with hd | hd
        · exact h1 d hd
        · simp only [List.mem_singleton] at hd; subst hd; exact isDigit_digit hl
      · rw [foldDigits_append, h3]; simp only [foldDigits, List.foldl_cons, List.foldl_nil, digVal_digit hl]; omega
      · intro hb
        rw [okRun_append, h3]
        refine ⟨h4 (by omega), ?_⟩
        simp only [okRun, digVal_digit hl, and_true]; omega

/-- read_int on what the writer printed: the number comes back and the terminating blank is consumed -/
theorem pnmReadInt_decDigits (n : Nat) (rest : Bytes) (hn : n / 10 + n % 10 ≤ 214748364) :
    pnmReadInt (decDigits n ++ 32 :: rest) = some (n, rest) := by
  obtain ⟨h1, h2, h3, h4⟩ := decDigits_spec n
  obtain ⟨d0, ds, hd⟩ := List.exists_cons_of_ne_nil h2
  rw [hd] at h1 h3
  have ok := h4 hn
  rw [hd] at ok
  have d0d : isDigit d0 = true := h1 d0 (by simp)
  rw [hd]
  simp only [pnmReadInt, List.cons_append, pnmSkipWs, Bool.false_eq_true, if_false, isDigit_ne_hash d0d, isDigit_not_ws d0d, d0d,
    if_true]
  rw [pnmDigits_run 32 rest (by decide) (by decide) ds 0 d0 (fun x hx => h1 x (by simp [hx])) ok, h3]

theorem pnmReadInt_blank (bs : Bytes) : pnmReadInt (32 :: bs) = pnmReadInt bs := by
  simp [pnmReadInt, pnmSkipWs, isWs]

/-- read_int's guard in closed form: every value up to 214748364 passes (larger ones pass iff `n / 10 + n % 10 ≤ 214748364`) -/
def PnmIntOk (n : Nat) : Prop := n / 10 + n % 10 ≤ 214748364

theorem pnmIntOk_of_le {n : Nat} (h : n ≤ 214748364) : PnmIntOk n := by unfold PnmIntOk; omega

theorem pnmReadHeader_pnmHeader (t w h : Nat) (data : Bytes) (ht : t = 4 ∨ t = 5 ∨ t = 6) (hw : PnmIntOk w) (hh : PnmIntOk h) :
    pnmReadHeader (pnmHeader t w h ++ data) =
      some ({ type := t, width := w, height := h, maxValue := if t = 4 then 1 else 255 }, data) := by
  have h255 : pnmReadInt (50 :: 53 :: 53 :: 32 :: data) = some (255, data) :=
    pnmReadInt_decDigits 255 data (by decide)
  rcases ht with rfl | rfl | rfl <;>
    simp [pnmHeader, pnmReadHeader, pnmReadChar, pnmReadInt_blank, pnmReadInt_decDigits _ _ hw, pnmReadInt_decDigits _ _ hh, h255]

/-! ### PNM mono rows -/

theorem chunks8_spec {α} : ∀ (n : Nat) (l : List α), 8 * n ≤ l.length →
    (∀ c ∈ chunks8 n l, c.length = 8) ∧ (chunks8 n l).flatten = l.take (8 * n) ∧ (chunks8 n l).length = n
  | 0, l, _ => by simp [chunks8]
  | n + 1, l, h => by
    obtain ⟨h1, h2, h3⟩ := chunks8_spec n (l.drop 8) (by simp; omega)
    refine ⟨?_, ?_, by simp [chunks8, h3]⟩
    · intro c hc
      simp only [chunks8, List.mem_cons] at hc
      rcases hc with rfl | hc
      · simp; omega
      · exact h1 c hc
    · simp only [chunks8, List.flatten_cons, h2]
      rw [show 8 * (n + 1) = 8 + 8 * n by omega, List.take_add]

theorem len8 {α} {c : List α} (h : c.length = 8) : ∃ x0 x1 x2 x3 x4 x5 x6 x7, c = [x0, x1, x2, x3, x4, x5, x6, x7] := by
  match c, h with
  | [x0, x1, x2, x3, x4, x5, x6, x7], _ => exact ⟨x0, x1, x2, x3, x4, x5, x6, x7, rfl⟩

/-- current tree: writer (mirror, negate) then reader (negate, swap half bytes) reverses each half of the group -/
theorem mono_chunk_current : ∀ a b c d e f g h : Bool,
    bitsLsb (swapHalfByte (negateByte (negateByte (mirrorByte (byteLsb [a, b, c, d, e, f, g, h]))))) = [d, c, b, a, h, g, f, e] := by
  decide

/-- proposed fix: writer (mirror, negate) then reader (negate, mirror) is the identity on a group -/
theorem mono_chunk_fixed : ∀ a b c d e f g h : Bool,
    bitsLsb (mirrorByte (negateByte (negateByte (mirrorByte (byteLsb [a, b, c, d, e, f, g, h]))))) = [a, b, c, d, e, f, g, h] := by
  decide

theorem flatMap_chunks_congr {α β} (f g : List α → List β) (cs : List (List α)) (h : ∀ c ∈ cs, f c = g c) :
    cs.flatMap f = cs.flatMap g := by
  induction cs with
  | nil => rfl
  | cons c cs ih =>
    simp only [List.flatMap_cons]
    rw [h c (by simp), ih (fun x hx => h x (by simp [hx]))]

end GilVerif.Codec
