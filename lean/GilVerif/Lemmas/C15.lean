/-
  Helper lemmas for Props/C15.lean (sums over ranges, list indexing of the row buffers).
-/
import GilVerif.Model.C15
import Mathlib.Tactic.SplitIfs

namespace GilVerif.Lemmas.C15
open GilVerif.Model.C15

/-! ### sumRange -/

theorem sumRange_congr {n : Nat} {f g : Nat → Int} (h : ∀ k, k < n → f k = g k) : sumRange n f = sumRange n g := by
  induction n with
  | zero => rfl
  | succ n ih =>
    simp only [sumRange]
    rw [ih (fun k hk => h k (by omega)), h n (by omega)]

theorem sumRange_succ_front (n : Nat) (f : Nat → Int) :
    sumRange (n + 1) f = f 0 + sumRange n (fun k => f (k + 1)) := by
  induction n with
  | zero => simp [sumRange]
  | succ n ih =>
    rw [sumRange, ih]
    simp only [sumRange]
    omega

theorem sumRange_zero_fn (n : Nat) : sumRange n (fun _ => 0) = 0 := by
  induction n with
  | zero => rfl
  | succ n ih => simp [sumRange, ih]

/-- reversal of the summation index -/
theorem sumRange_reverse (n : Nat) (f : Nat → Int) :
    sumRange n f = sumRange n (fun k => f (n - 1 - k)) := by
  induction n generalizing f with
  | zero => rfl
  | succ n ih =>
    rw [sumRange_succ_front]
    conv => rhs; rw [sumRange]
    have e : (fun k => f (k + 1)) = (fun k => f (k + 1)) := rfl
    rw [ih (fun k => f (k + 1))]
    have h1 : sumRange n (fun k => f (n - 1 - k + 1)) = sumRange n (fun k => f (n + 1 - 1 - k)) := by
      apply sumRange_congr
      intro k hk
      congr 1
      omega
    rw [h1]
    have h2 : f (n + 1 - 1 - n) = f 0 := by congr 1; omega
    rw [h2]
    omega

theorem sumRange_add (n : Nat) (f g : Nat → Int) :
    sumRange n (fun k => f k + g k) = sumRange n f + sumRange n g := by
  induction n with
  | zero => rfl
  | succ n ih => simp only [sumRange, ih]; omega

/-! ### inner products -/

theorem innerProduct_eq (ts xs : List Int) (acc : Int) (h : ts.length ≤ xs.length) :
    innerProduct xs ts acc = acc + sumRange ts.length (fun k => xs.getD k 0 * ts.getD k 0) := by
  induction ts generalizing xs acc with
  | nil => cases xs <;> simp [innerProduct, sumRange]
  | cons t ts ih =>
    cases xs with
    | nil => simp at h
    | cons x xs =>
      simp only [innerProduct, List.length_cons]
      rw [ih xs _ (by simpa using h), sumRange_succ_front]
      simp only [List.getD_cons_zero, List.getD_cons_succ]
      omega

theorem innerProductK_eq (n : Nat) (ts xs : List Int) (acc : Int) :
    innerProductK n xs ts acc = acc + sumRange n (fun k => xs.getD k 0 * ts.getD k 0) := by
  induction n generalizing xs ts acc with
  | zero => simp [innerProductK, sumRange]
  | succ n ih =>
    rw [innerProductK, ih, sumRange_succ_front]
    have hx : ∀ k, xs.tail.getD k 0 = xs.getD (k + 1) 0 := by
      intro k; cases xs <;> simp
    have ht : ∀ k, ts.tail.getD k 0 = ts.getD (k + 1) 0 := by
      intro k; cases ts <;> simp
    have hx0 : xs.headD 0 = xs.getD 0 0 := by cases xs <;> simp
    have ht0 : ts.headD 0 = ts.getD 0 0 := by cases ts <;> simp
    simp only [hx, ht, hx0, ht0]
    omega

/-- window sum at offset `i` of a buffer -/
def winSum (buf taps : List Int) (i : Nat) : Int :=
  sumRange taps.length (fun k => buf.getD (i + k) 0 * taps.getD k 0)

theorem correlatePixelsN_eq (n : Nat) (buf taps : List Int) (h : n + taps.length ≤ buf.length + 1) :
    correlatePixelsN buf n taps = (List.range n).map (winSum buf taps) := by
  induction n generalizing buf with
  | zero => simp [correlatePixelsN]
  | succ n ih =>
    rw [correlatePixelsN, List.range_succ_eq_map, List.map_cons, List.map_map]
    have hlen : taps.length ≤ buf.length := by omega
    rw [innerProduct_eq taps buf 0 hlen, ih buf.tail (by simp; omega)]
    congr 1
    · simp [winSum]
    · apply List.map_congr_left
      intro i _
      simp only [Function.comp, winSum]
      apply sumRange_congr
      intro k _
      have : buf.tail.getD (i + k) 0 = buf.getD (i + 1 + k) 0 := by
        cases buf with
        | nil => simp
        | cons b bs => simp only [List.tail_cons]; rw [show i + 1 + k = (i + k) + 1 by omega, List.getD_cons_succ]
      rw [this]

theorem correlatePixelsK_eq (n : Nat) (buf taps : List Int) :
    correlatePixelsK buf n taps = (List.range n).map (winSum buf taps) := by
  induction n generalizing buf with
  | zero => simp [correlatePixelsK]
  | succ n ih =>
    rw [correlatePixelsK, List.range_succ_eq_map, List.map_cons, List.map_map]
    rw [innerProductK_eq, ih buf.tail]
    congr 1
    · simp [winSum]
    · apply List.map_congr_left
      intro i _
      simp only [Function.comp, winSum]
      apply sumRange_congr
      intro k _
      have : buf.tail.getD (i + k) 0 = buf.getD (i + 1 + k) 0 := by
        cases buf with
        | nil => simp
        | cons b bs => simp only [List.tail_cons]; rw [show i + 1 + k = (i + k) + 1 by omega, List.getD_cons_succ]
      rw [this]

/-! ### list indexing -/

theorem getD_writeAt (dst vals : List Int) (pos i : Nat) (h : pos + vals.length ≤ dst.length) :
    (writeAt dst pos vals).getD i 0 = if pos ≤ i ∧ i < pos + vals.length then vals.getD (i - pos) 0 else dst.getD i 0 := by
  unfold writeAt
  simp only [List.getD_eq_getElem?_getD, List.getElem?_append, List.length_take, List.length_append,
    List.getElem?_take, List.getElem?_drop]
  have hm : min pos dst.length = pos := by omega
  rw [hm]
  split_ifs <;> first | rfl | omega | (congr 2; omega)

theorem length_writeAt {α : Type} (dst vals : List α) (pos : Nat) (h : pos + vals.length ≤ dst.length) :
    (writeAt dst pos vals).length = dst.length := by
  unfold writeAt
  simp only [List.length_append, List.length_take, List.length_drop]
  omega

theorem eq_map_range_of_getD (l : List Int) (w : Nat) (f : Nat → Int) (hl : l.length = w)
    (h : ∀ i, i < w → l.getD i 0 = f i) : l = (List.range w).map f := by
  apply List.ext_getElem
  · simp [hl]
  · intro i h1 h2
    have := h i (by omega)
    simp only [List.getD_eq_getElem?_getD, List.getElem?_eq_getElem h1, Option.getD_some] at this
    simp [this]

theorem getD_map_range (n : Nat) (f : Nat → Int) (i : Nat) :
    ((List.range n).map f).getD i 0 = if i < n then f i else 0 := by
  rw [List.getD_eq_getElem?_getD]
  by_cases h : i < n
  · rw [List.getElem?_eq_getElem (by simpa using h)]; simp [h]
  · rw [List.getElem?_eq_none (by simpa using h)]; simp [h]

theorem getD_append' (l1 l2 : List Int) (i : Nat) :
    (l1 ++ l2).getD i 0 = if i < l1.length then l1.getD i 0 else l2.getD (i - l1.length) 0 := by
  simp only [List.getD_eq_getElem?_getD, List.getElem?_append]
  split_ifs <;> rfl

theorem getD_replicate' (n : Nat) (a : Int) (i : Nat) :
    (List.replicate n a).getD i 0 = if i < n then a else 0 := by
  simp only [List.getD_eq_getElem?_getD, List.getElem?_replicate]
  split_ifs <;> rfl

theorem getD_rowBuf (mem : Int → Int) (w j : Nat) :
    (rowBuf mem w).getD j 0 = if j < w then mem (j : Int) else 0 := by
  unfold rowBuf; rw [getD_map_range]

theorem length_rowBuf (mem : Int → Int) (w : Nat) : (rowBuf mem w).length = w := by
  simp [rowBuf]

theorem getD_bufZero (mem : Int → Int) (w left right j : Nat) :
    (List.replicate left (0:Int) ++ rowBuf mem w ++ List.replicate right 0).getD j 0
      = extSample .extendZero mem w ((j : Int) - (left : Int)) := by
  simp only [extSample, getD_append', getD_replicate', getD_rowBuf, List.length_append, List.length_replicate, length_rowBuf]
  split_ifs <;> first | rfl | omega | (congr 1; omega)

theorem getD_bufConst (mem : Int → Int) (w left right j : Nat) (hw : 0 < w) (hj : j < left + w + right) :
    (List.replicate left (mem 0) ++ rowBuf mem w ++ List.replicate right (mem ((w : Int) - 1))).getD j 0
      = extSample .extendConstant mem w ((j : Int) - (left : Int)) := by
  simp only [extSample, getD_append', getD_replicate', getD_rowBuf, List.length_append, List.length_replicate, length_rowBuf]
  split_ifs <;> first | rfl | omega | (congr 1; omega)

theorem getD_bufPadded (mem : Int → Int) (w left right j : Nat) (hj : j < left + w + right) :
    ((List.range (left + w + right)).map (fun (t : Nat) => mem ((t : Int) - (left : Int)))).getD j 0
      = extSample .extendPadded mem w ((j : Int) - (left : Int)) := by
  simp only [extSample, getD_map_range, hj, if_true]

/-- either correlator yields the sliding window sums -/
theorem correlator_eq (fixed : Bool) (n : Nat) (buf taps : List Int) (h : n + taps.length ≤ buf.length + 1) :
    (if fixed then correlatePixelsK buf n taps else correlatePixelsN buf n taps) = (List.range n).map (winSum buf taps) := by
  cases fixed
  · simp only [Bool.false_eq_true, if_false]; exact correlatePixelsN_eq n buf taps h
  · simp only [if_true]; exact correlatePixelsK_eq n buf taps

/-! ### one row of correlate_rows_impl -/

theorem winSum_ext (opt : Opt) (buf taps : List Int) (c : Nat) (mem : Int → Int) (w i : Nat)
    (h : ∀ k, k < taps.length → buf.getD (i + k) 0 = extSample opt mem w (((i + k : Nat) : Int) - (c : Int))) :
    winSum buf taps i = corrAt opt taps c mem w i := by
  unfold winSum corrAt
  apply sumRange_congr
  intro k hk
  rw [h k hk]
  congr 2 <;> omega

theorem row_extend (fixed : Bool) (opt : Opt) (taps : List Int) (c : Nat) (mem : Int → Int) (w : Nat) (dst buffer : List Int)
    (hc : c < taps.length) (hd : dst.length = w) (hb : buffer.length = c + w + (taps.length - c - 1))
    (h : ∀ j, j < c + w + (taps.length - c - 1) → buffer.getD j 0 = extSample opt mem w ((j : Int) - (c : Int))) :
    writeAt dst 0 (if fixed then correlatePixelsK buffer w taps else correlatePixelsN buffer w taps)
      = (List.range w).map (corrAt opt taps c mem w) := by
  rw [correlator_eq fixed w buffer taps (by omega)]
  have hl : ((List.range w).map (winSum buffer taps)).length = w := by simp
  apply eq_map_range_of_getD _ _ _ (by rw [length_writeAt _ _ _ (by omega)]; exact hd)
  intro i hi
  rw [getD_writeAt _ _ _ _ (by omega), hl]
  simp only [Nat.zero_le, true_and, Nat.zero_add, hi, if_true, Nat.sub_zero]
  rw [getD_map_range]
  simp only [hi, if_true]
  apply winSum_ext
  intro k hk
  exact h (i + k) (by omega)

theorem windowInside_iff (ks c w i : Nat) (hc : c < ks) (hw : ks ≤ w) :
    windowInside ks c w i = true ↔ (c ≤ i ∧ i < c + (w + 1 - ks)) := by
  unfold windowInside
  simp only [Bool.and_eq_true, decide_eq_true_eq]
  omega

theorem windowInside_narrow (ks c w i : Nat) (hc : c < ks) (hw : w < ks) (hi : i < w) :
    windowInside ks c w i = false := by
  unfold windowInside
  simp only [Bool.and_eq_false_iff, decide_eq_false_iff_not]
  omega

theorem winSum_inner (opt : Opt) (hopt : opt = .outputIgnore ∨ opt = .outputZero) (taps : List Int) (c : Nat) (mem : Int → Int) (w i' : Nat)
    (hc : c < taps.length) (hi : i' + taps.length ≤ w) :
    winSum (rowBuf mem w) taps i' = corrAt opt taps c mem w (i' + c) := by
  unfold winSum corrAt
  apply sumRange_congr
  intro k hk
  rw [getD_rowBuf]
  have h1 : i' + k < w := by omega
  have e : ((i' + c : Nat) : Int) + (k : Int) - (c : Int) = ((i' + k : Nat) : Int) := by omega
  rw [e]
  rcases hopt with h | h <;> subst h <;> simp only [extSample, h1, if_true] <;> rw [if_pos (by omega)]

theorem row_output (fixed : Bool) (opt : Opt) (hopt : opt = .outputIgnore ∨ opt = .outputZero) (taps : List Int) (c : Nat) (mem : Int → Int) (w : Nat)
    (hc : c < taps.length) (hw : taps.length ≤ w) (i : Nat) (h1 : c ≤ i) (h2 : i < c + (w + 1 - taps.length)) :
    (if fixed then correlatePixelsK (rowBuf mem w) (w + 1 - taps.length) taps else correlatePixelsN (rowBuf mem w) (w + 1 - taps.length) taps).getD (i - c) 0
      = corrAt opt taps c mem w i := by
  rw [correlator_eq fixed _ _ taps (by rw [length_rowBuf]; omega), getD_map_range, if_pos (by omega),
    winSum_inner opt hopt taps c mem w (i - c) hc (by omega)]
  congr 1; omega


/-! ### image level, reversal, transposition, padding -/

theorem extSample_inside (opt : Opt) (mem : Int → Int) (w : Nat) (j : Int) (h0 : 0 ≤ j) (h1 : j < (w : Int)) :
    extSample opt mem w j = mem j := by
  cases opt <;> simp only [extSample] <;> split_ifs <;> first | rfl | omega

theorem sumRange_one (f : Nat → Int) : sumRange 1 f = f 0 := by simp [sumRange]

theorem length_specRowWith (f : Nat → Int) (opt : Opt) (ks c w : Nat) (dst : List Int) :
    (specRowWith f opt ks c w dst).length = w := by simp [specRowWith]

theorem getD_reverse' (l : List Int) (k : Nat) (hk : k < l.length) : l.reverse.getD k 0 = l.getD (l.length - 1 - k) 0 := by
  simp only [List.getD_eq_getElem?_getD]
  rw [List.getElem?_reverse hk]

/-- correlation with the reversed kernel (centre ↦ right_size) is the textbook convolution -/
theorem corrAt_reverse (opt : Opt) (taps : List Int) (c : Nat) (mem : Int → Int) (w i : Nat) (hc : c < taps.length) :
    corrAt opt taps.reverse (taps.length - c - 1) mem w i = convAt opt taps c mem w i := by
  unfold corrAt convAt
  rw [List.length_reverse, sumRange_reverse]
  apply sumRange_congr
  intro k hk
  rw [getD_reverse' taps _ (by omega)]
  have e1 : taps.length - 1 - (taps.length - 1 - k) = k := by omega
  rw [e1]
  congr 2
  omega

theorem getD_map_range_gen {β : Type} (n : Nat) (f : Nat → β) (d : β) (i : Nat) (hi : i < n) :
    ((List.range n).map f).getD i d = f i := by
  rw [List.getD_eq_getElem?_getD, List.getElem?_eq_getElem (by simpa using hi)]; simp

theorem length_transposeL (w h : Nat) (img : List (List Int)) : (transposeL w h img).length = w := by simp [transposeL]

theorem getD_transposeL (w h : Nat) (img : List (List Int)) (x : Nat) (hx : x < w) :
    (transposeL w h img).getD x [] = (List.range h).map (fun (y : Nat) => (img.getD y []).getD x 0) := by
  unfold transposeL
  rw [List.getD_eq_getElem?_getD, List.getElem?_eq_getElem (by simpa using hx)]
  simp

theorem getD2_map_range (H W : Nat) (g : Nat → Nat → Int) (x y : Nat) (hy : y < H) (hx : x < W) :
    (((List.range H).map (fun (i : Nat) => (List.range W).map (fun (j : Nat) => g j i))).getD y []).getD x 0 = g x y := by
  rw [getD_map_range_gen _ _ _ _ hy, getD_map_range_gen _ _ _ _ hx]

theorem replicate_eq_map_range (w : Nat) : List.replicate w (0:Int) = (List.range w).map (fun _ => (0:Int)) := by
  apply eq_map_range_of_getD _ _ _ (by simp)
  intro i hi; rw [getD_replicate', if_pos hi]

theorem clampI_inside (hi v : Int) (h0 : 0 ≤ v) (h1 : v ≤ hi) : clampI 0 hi v = v := by
  unfold clampI; split_ifs <;> omega

theorem zext2_inside (f : Int → Int → Int) (w h : Nat) (x y : Int) (hx0 : 0 ≤ x) (hx : x < w) (hy0 : 0 ≤ y) (hy : y < h) :
    zext2 f w h x y = f x y := by
  unfold zext2; rw [if_pos ⟨hx0, hx, hy0, hy⟩]

theorem zext2_outside_y (f : Int → Int → Int) (w h : Nat) (x y : Int) (hy : ¬ (0 ≤ y ∧ y < h)) :
    zext2 f w h x y = 0 := by
  unfold zext2; rw [if_neg (by omega)]

theorem getD_imgFn (H W : Nat) (g : Nat → Nat → Int) (x y : Int) (hx0 : 0 ≤ x) (hx : x < W) (hy0 : 0 ≤ y) (hy : y < H) :
    imgFn ((List.range H).map (fun (i : Nat) => (List.range W).map (fun (j : Nat) => g j i))) x y = g x.toNat y.toNat := by
  unfold imgFn
  rw [if_pos ⟨hx0, hy0⟩, getD2_map_range _ _ _ _ _ (by omega) (by omega)]

end GilVerif.Lemmas.C15
