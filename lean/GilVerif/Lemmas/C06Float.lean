/-
  C06 (float paths) -- abstract models of the floating-point converters of channel_algorithm.hpp relative
  to a rounding structure `R : FloatSpec`, and the helper lemmas of Props/C06Float.lean.

  Operation sequences of the C++ (one `R.rnd` per floating-point operation / int→float conversion):

  channel_converter_unsigned<float32_t, DstChannelV>             (binary32)
        dst_integer_t(x * channel_traits<Dst>::max_value() + 0.5f)
        ==> fromF R m x = ctrunc (rnd (rnd (x * rnd m) + 1/2))          -- `rnd m`: (float)max
  channel_converter_unsigned<SrcChannelV, float32_t>             (binary32)
        float32_t(x / float(channel_traits<Src>::max_value()))
        ==> toF R m s = rnd (rnd s / rnd m)                              -- `rnd s`: int → float promotion
  channel_converter_unsigned_integral_nondivisible<S, D, false, *>   (binary64, srcMax > dstMax)
        static const double div = srcMax / double(dstMax);
        static const src_integer_t div2 = src_integer_t(div / 2.0);
        return Dst(dst_integer_t(double(src + div2) / div));
        ==> divD R sm dm = rnd (rnd sm / rnd dm);  div2 R sm dm = ctrunc (rnd (divD / 2));
            downNondivF R sm dm s = ctrunc (rnd (rnd (s + div2) / divD))
  (`src + div2` is an integer addition; its no-wrap condition `s + div2 < 2^width` is implied by
  `s ≤ sm`, `div2 ≤ sm` and the carrier widths of the in-scope pairs, see Model/C06 `addCarrier`.)
  The special uint32_t <-> float32_t converters (max = 2^32-1 is not a binary32 value) are NOT modelled here.

  The executable model (Model/C06.lean: `fromFloat`, `toFloat`, `downNondiv`) performs the same sequences
  with Lean's hardware `Float32` / `Float`, compared bit for bit with the real code by the correspondence run.
-/
import GilVerif.Basic.FloatSpec

set_option linter.unusedSectionVars false

namespace GilVerif.Lemmas.C06Float
open GilVerif GilVerif.FloatSpec

/-- float32 → unsigned integral channel with maximum `m` -/
def fromF (R : FloatSpec) (m : ℤ) (x : ℚ) : ℤ := ctrunc (R.rnd (R.rnd (x * R.rnd m) + 1 / 2))

/-- unsigned integral channel with maximum `m` → float32 -/
def toF (R : FloatSpec) (m s : ℤ) : ℚ := R.rnd (R.rnd s / R.rnd m)

/-- `div` of the non-divisible down-conversion -/
def divD (R : FloatSpec) (sm dm : ℤ) : ℚ := R.rnd (R.rnd sm / R.rnd dm)

/-- `div2` of the non-divisible down-conversion -/
def div2 (R : FloatSpec) (sm dm : ℤ) : ℤ := ctrunc (R.rnd (divD R sm dm / 2))

/-- the non-divisible down-conversion through `double` -/
def downNondivF (R : FloatSpec) (sm dm s : ℤ) : ℤ :=
  ctrunc (R.rnd (R.rnd ((s + div2 R sm dm : ℤ) : ℚ) / divD R sm dm))

/-- the non-divisible up-conversion (integral, exact): ⌊s*dm/sm⌋ (Props/C06: `C06_up_nondiv_laws`) -/
def upNondivI (sm dm s : ℤ) : ℤ := s * dm / sm

/-! ### float32 → integer -/

section FromF
variable (R : FloatSpec) {m : ℤ} (hm1 : 1 ≤ m) (hmb : (m : ℚ) ≤ R.big)
include hm1 hmb

theorem rnd_max : R.rnd m = m := R.rnd_int_nonneg m (by omega) hmb

theorem fromF_closed {x : ℚ} (hx : 0 ≤ x) : fromF R m x = ⌊R.rnd (R.rnd (x * m) + 1 / 2)⌋ := by
  have hm0 : (0 : ℚ) ≤ m := by exact_mod_cast (show (0 : ℤ) ≤ m by omega)
  unfold fromF; rw [rnd_max R hm1 hmb]
  exact ctrunc_of_nonneg (R.rnd_nonneg (add_nonneg (R.rnd_nonneg (mul_nonneg hx hm0)) (by norm_num)))

/-- the two intermediate values: p = rnd (x*m) ∈ [0,m] within eps*m of x*m; q = rnd (p + 1/2) ≥ 0 within eps*(m+1) of p + 1/2 -/
theorem fromF_steps {x : ℚ} (hx : 0 ≤ x) (hx1 : x ≤ 1) :
    0 ≤ R.rnd (x * m) ∧ R.rnd (x * m) ≤ m ∧ |R.rnd (x * m) - x * m| ≤ R.eps * m
    ∧ 0 ≤ R.rnd (R.rnd (x * m) + 1 / 2)
    ∧ |R.rnd (R.rnd (x * m) + 1 / 2) - (R.rnd (x * m) + 1 / 2)| ≤ R.eps * (m + 1) := by
  have hm0 : (1 : ℚ) ≤ m := by exact_mod_cast hm1
  have h0 : 0 ≤ x * m := mul_nonneg hx (by linarith)
  have h1 : x * m ≤ m := by nlinarith
  have hp0 : 0 ≤ R.rnd (x * m) := R.rnd_nonneg h0
  have hp1 : R.rnd (x * m) ≤ m := by
    have := R.monotone _ _ h1; rwa [rnd_max R hm1 hmb] at this
  refine ⟨hp0, hp1, R.abs_err_le' h0 h1 hm0, R.rnd_nonneg (by linarith), ?_⟩
  exact R.abs_err_le' (by linarith) (by linarith) (by linarith)

end FromF

/-! ### non-divisible down-conversion through `double` -/

section Down
variable (R : FloatSpec) {sm dm : ℤ} (hd1 : 1 ≤ dm) (hgap : 2 * dm ≤ sm) (hbig : 2 * (sm : ℚ) ≤ R.big)
  (heps : R.eps * sm ≤ 1 / 64)
include hd1 hgap hbig heps

/-- eps itself is small (sm ≥ 2) -/
theorem eps_small : R.eps ≤ 1 / 128 := by
  have h2 : (2 : ℚ) ≤ sm := by exact_mod_cast (show (2 : ℤ) ≤ sm by omega)
  nlinarith [R.eps_nonneg]

/-- facts about `div = rnd (sm/dm)`: it is `rnd` of the exact quotient d, at least 2, within relative eps of d -/
theorem divD_facts :
    divD R sm dm = R.rnd ((sm : ℚ) / dm) ∧ 2 ≤ divD R sm dm
    ∧ (sm : ℚ) * (1 - R.eps) ≤ dm * divD R sm dm ∧ dm * divD R sm dm ≤ (sm : ℚ) * (1 + R.eps) := by
  have hT1 : (1 : ℚ) ≤ dm := by exact_mod_cast hd1
  have hT0 : (0 : ℚ) < dm := by linarith
  have hST : 2 * (dm : ℚ) ≤ sm := by exact_mod_cast hgap
  have hS0 : (0 : ℚ) ≤ sm := by linarith
  have e : divD R sm dm = R.rnd ((sm : ℚ) / dm) := by
    unfold divD
    rw [R.rnd_int_nonneg sm (by omega) (by linarith), R.rnd_int_nonneg dm (by omega) (by linarith)]
  have hd2 : (2 : ℚ) ≤ (sm : ℚ) / dm := by rw [le_div_iff₀ hT0]; linarith
  have h2 : (2 : ℚ) ≤ R.rnd ((sm : ℚ) / dm) := by
    have := R.int_le_rnd (x := (sm : ℚ) / dm) 2 (by norm_num; linarith [R.one_le_big]) (by exact_mod_cast hd2)
    exact_mod_cast this
  have hlo := R.mul_le_rnd (x := (sm : ℚ) / dm) (by linarith)
  have hhi := R.rnd_le_mul (x := (sm : ℚ) / dm) (by linarith)
  have hcancel : (dm : ℚ) * ((sm : ℚ) / dm) = sm := by field_simp
  rw [e]
  refine ⟨rfl, h2, ?_, ?_⟩
  · calc (sm : ℚ) * (1 - R.eps) = dm * ((sm : ℚ) / dm * (1 - R.eps)) := by rw [← mul_assoc, hcancel]
      _ ≤ dm * R.rnd ((sm : ℚ) / dm) := mul_le_mul_of_nonneg_left hlo hT0.le
  · calc (dm : ℚ) * R.rnd ((sm : ℚ) / dm) ≤ dm * ((sm : ℚ) / dm * (1 + R.eps)) := mul_le_mul_of_nonneg_left hhi hT0.le
      _ = (sm : ℚ) * (1 + R.eps) := by rw [← mul_assoc, hcancel]

/-- facts about `div2 = trunc (rnd (div/2))`: at least 1, at most div*(1+eps)/2, at most sm -/
theorem div2_facts :
    1 ≤ div2 R sm dm ∧ (div2 R sm dm : ℚ) ≤ divD R sm dm * (1 + R.eps) / 2 ∧ (div2 R sm dm : ℚ) ≤ sm := by
  obtain ⟨-, hD2, hDlo, hDhi⟩ := divD_facts R hd1 hgap hbig heps
  have he := eps_small R hd1 hgap hbig heps
  have he0 := R.eps_nonneg
  have hT1 : (1 : ℚ) ≤ dm := by exact_mod_cast hd1
  have hST : 2 * (dm : ℚ) ≤ sm := by exact_mod_cast hgap
  set D := divD R sm dm with hDdef
  have hH1 : (1 : ℚ) ≤ R.rnd (D / 2) := R.one_le_rnd (by linarith)
  have hHle : R.rnd (D / 2) ≤ D / 2 * (1 + R.eps) := R.rnd_le_mul (by linarith)
  have hfl : div2 R sm dm = ⌊R.rnd (D / 2)⌋ := by
    unfold div2; rw [← hDdef]; exact ctrunc_of_nonneg (by linarith)
  have h1 : 1 ≤ div2 R sm dm := by
    rw [hfl, Int.le_floor]; exact_mod_cast hH1
  have h2 : (div2 R sm dm : ℚ) ≤ D * (1 + R.eps) / 2 := by
    rw [hfl]; have := Int.floor_le (R.rnd (D / 2)); linarith
  refine ⟨h1, h2, ?_⟩
  -- D ≤ D*dm ≤ sm*(1+eps), so D*(1+eps)/2 ≤ sm*(1+eps)^2/2 ≤ sm
  have hDS : D ≤ (sm : ℚ) * (1 + R.eps) := by nlinarith
  have hS0 : (0 : ℚ) ≤ sm := by linarith
  nlinarith

/-- `double(src + div2)` is exact, and the closed form of the conversion -/
theorem downNondivF_closed {s : ℤ} (hs0 : 0 ≤ s) (hs1 : s ≤ sm) :
    downNondivF R sm dm s = ⌊R.rnd (((s : ℚ) + div2 R sm dm) / divD R sm dm)⌋ := by
  obtain ⟨-, hD2, -, -⟩ := divD_facts R hd1 hgap hbig heps
  obtain ⟨hh1, -, hhS⟩ := div2_facts R hd1 hgap hbig heps
  have hsq : (s : ℚ) ≤ sm := by exact_mod_cast hs1
  have hs0q : (0 : ℚ) ≤ s := by exact_mod_cast hs0
  have hh0 : (0 : ℚ) ≤ div2 R sm dm := by exact_mod_cast (show (0 : ℤ) ≤ div2 R sm dm by omega)
  unfold downNondivF
  rw [R.rnd_int_nonneg (s + div2 R sm dm) (by omega) (by push_cast; linarith)]
  push_cast
  exact ctrunc_of_nonneg (R.rnd_nonneg (div_nonneg (by linarith) (by linarith)))

/-- the quotient y = (s + div2)/div: non-negative, at most dm + 1/2 + 1/64 (so ≤ dm + 1), and within
    eps*(dm+1) of the exact-arithmetic value z = (s + div2)*dm/sm -/
theorem quotient_facts {s : ℤ} (hs0 : 0 ≤ s) (hs1 : s ≤ sm) :
    0 ≤ ((s : ℚ) + div2 R sm dm) / divD R sm dm
    ∧ ((s : ℚ) + div2 R sm dm) / divD R sm dm ≤ dm + 1 / 2 + 1 / 64
    ∧ |((s : ℚ) + div2 R sm dm) / divD R sm dm - ((s : ℚ) + div2 R sm dm) * dm / sm| ≤ R.eps * (dm + 1) := by
  obtain ⟨-, hD2, hDlo, hDhi⟩ := divD_facts R hd1 hgap hbig heps
  obtain ⟨hh1, hhD, hhS⟩ := div2_facts R hd1 hgap hbig heps
  have he := eps_small R hd1 hgap hbig heps
  have he0 := R.eps_nonneg
  have hT1 : (1 : ℚ) ≤ dm := by exact_mod_cast hd1
  have hST : 2 * (dm : ℚ) ≤ sm := by exact_mod_cast hgap
  have hS0 : (0 : ℚ) < sm := by linarith
  have hsq : (s : ℚ) ≤ sm := by exact_mod_cast hs1
  have hs0q : (0 : ℚ) ≤ s := by exact_mod_cast hs0
  have hh0 : (0 : ℚ) ≤ div2 R sm dm := by exact_mod_cast (show (0 : ℤ) ≤ div2 R sm dm by omega)
  set D := divD R sm dm
  set h : ℚ := (div2 R sm dm : ℚ)
  have hD0 : (0 : ℚ) < D := by linarith
  have hy0 : 0 ≤ ((s : ℚ) + h) / D := div_nonneg (by linarith) hD0.le
  -- upper bound: s + h ≤ (dm + 1/2 + 1/64) * D
  have hyU : ((s : ℚ) + h) / D ≤ dm + 1 / 2 + 1 / 64 := by
    rw [div_le_iff₀ hD0]
    -- s ≤ sm ≤ dm*D + eps*sm,  eps*sm ≤ 1/64 ≤ D/128,  h ≤ D*(1+eps)/2 ≤ D*(1/2 + 1/256)
    nlinarith
  refine ⟨hy0, hyU, ?_⟩
  -- y - z = y * (1 - D*dm/sm);  |1 - D*dm/sm| ≤ eps
  have hz : ((s : ℚ) + h) * dm / sm = ((s : ℚ) + h) / D * (dm * D / sm) := by
    field_simp
  have hr1 : (1 - R.eps) ≤ dm * D / sm := by rw [le_div_iff₀ hS0]; linarith
  have hr2 : dm * D / sm ≤ (1 + R.eps) := by rw [div_le_iff₀ hS0]; linarith
  rw [hz, abs_le]
  set y := ((s : ℚ) + h) / D
  set ρ := dm * D / sm
  have hyB : y ≤ dm + 1 := by linarith
  constructor <;> nlinarith

/-- div2 * dm ≤ sm * (1/2 + 1/64): the rounding offset is at most (a little more than) half a destination unit -/
theorem div2_ratio : (div2 R sm dm : ℚ) * dm ≤ sm * (1 / 2 + 1 / 64) := by
  obtain ⟨-, hD2, hDlo, hDhi⟩ := divD_facts R hd1 hgap hbig heps
  obtain ⟨hh1, hhD, hhS⟩ := div2_facts R hd1 hgap hbig heps
  have he := eps_small R hd1 hgap hbig heps
  have he0 := R.eps_nonneg
  have hT0 : (0 : ℚ) ≤ dm := by exact_mod_cast (show (0 : ℤ) ≤ dm by omega)
  have hST : 2 * (dm : ℚ) ≤ sm := by exact_mod_cast hgap
  have hS0 : (0 : ℚ) ≤ sm := by linarith
  -- h*dm ≤ dm*D*(1+eps)/2 ≤ sm*(1+eps)^2/2
  have h1 : (div2 R sm dm : ℚ) * dm ≤ dm * divD R sm dm * (1 + R.eps) / 2 := by nlinarith
  have h2 : dm * divD R sm dm * (1 + R.eps) ≤ sm * (1 + R.eps) * (1 + R.eps) :=
    mul_le_mul_of_nonneg_right hDhi (by linarith)
  have h3 : (1 + R.eps) * (1 + R.eps) ≤ 1 + 1 / 32 := by nlinarith
  have h4 : (sm : ℚ) * ((1 + R.eps) * (1 + R.eps)) ≤ sm * (1 + 1 / 32) := mul_le_mul_of_nonneg_left h3 hS0
  nlinarith

end Down

end GilVerif.Lemmas.C06Float
