/-
  C07 (float32 channels) -- the abstract model of `channel_multiply` / `channel_invert` on
  `float32_t` (= scoped_channel_value<float, 0, 1>) relative to a rounding structure `R : FloatSpec`.

  Operation sequence of the C++ (channel_algorithm.hpp), one `R.rnd` per floating-point operation:
    channel_multiplier_unsigned<float32_t>::operator()      return a*b;
        ==>  mulF R a b = rnd (a * b)
    channel_invert<float32_t>   (base_t = float, promote_integral<float>::type = float)
        promoted_max - promoted_x + promoted_min  =  (1.0f - x) + 0.0f
        ==>  invF R x = rnd (rnd (1 - x) + 0)
  The executable model (Driver/C07.lean, `mulf` / `invf` ops) performs the same two sequences with
  Lean's hardware `Float32` and is compared bit for bit with the real code by the correspondence run.
  Definitions only (and no Mathlib-free requirement: this file is imported by Props/C07Float only).
-/
import GilVerif.Basic.FloatSpec

namespace GilVerif.Lemmas.C07Float
open GilVerif

/-- `channel_multiply` on float32 channels: `a*b`, one rounding -/
def mulF (R : FloatSpec) (a b : ℚ) : ℚ := R.rnd (a * b)

/-- `channel_invert` on float32 channels: `(1.0f - x) + 0.0f`, two operations -/
def invF (R : FloatSpec) (x : ℚ) : ℚ := R.rnd (R.rnd (1 - x) + 0)

end GilVerif.Lemmas.C07Float
