/-
  Helper lemmas for Props/C11, part 4: non-vacuity of the safety theorems for files of every size.

  `Runs m s Q` : the action `m` started in state `s` RETURNS (no exception, no ub, no hang, no fuel) and `Q` holds of
                 the result and the final state.
  `Live D dev r s` : the device state while a well-formed file `D` is being read: stream not failed, no taint, `r` unread.

  With these the output of GIL's writers (Model/Codec.lean: `encodeTga`, `encodeBmp`, `encodePnm`, written by builder E
  from the three `write.hpp`) is shown to be read back by the C11 reader models with outcome `ok`, for every image size
  the harness rule "one allocation <= 64 KiB" admits.
-/
import GilVerif.Lemmas.C11Bmp
import GilVerif.Model.Codec

namespace GilVerif.Lemmas.C11
open GilVerif.Model.C11

structure Live (D : List UInt8) (dev : Dev) (r : List UInt8) (s : St) : Prop where
  data : s.data = D
  dev : s.dev = dev
  ok : s.failed = false
  rest : s.rest = r
  taint : s.taint = none

def Runs {α} (m : M α) (s : St) (Q : α → St → Prop) : Prop := ∃ a s', m s = .ok (a, s') ∧ Q a s'

theorem runs_bind {α β} {m : M α} {f : α → M β} {s : St} {Q : α → St → Prop} {R : β → St → Prop}
    (hm : Runs m s Q) (hf : ∀ a s', Q a s' → Runs (f a) s' R) : Runs (m >>= f) s R := by
  obtain ⟨a, s', h, hq⟩ := hm
  obtain ⟨b, s'', h2, hr⟩ := hf a s' hq
  exact ⟨b, s'', by rw [bind_eq, h]; exact h2, hr⟩

theorem runs_pure {α} (a : α) (s : St) {Q : α → St → Prop} (h : Q a s) : Runs (pure a : M α) s Q := ⟨a, s, rfl, h⟩

theorem runs_mono {α} {m : M α} {s : St} {Q R : α → St → Prop} (h : Runs m s Q) (hqr : ∀ a s', Q a s' → R a s') :
    Runs m s R := by
  obtain ⟨a, s', h1, h2⟩ := h
  exact ⟨a, s', h1, hqr a s' h2⟩

/-! ## device primitives on a live state -/

theorem runs_readSome {D : List UInt8} {dev : Dev} {r : List UInt8} {s : St} (n : Nat) (h : Live D dev r s)
    (hn : 0 < n) (hl : n ≤ r.length) :
    Runs (readSome n) s (fun got s' => got = (r.take n).map UInt8.toNat ∧ Live D dev (r.drop n) s') := by
  refine ⟨(r.take n).map UInt8.toNat, { s with pos := s.pos + n, rest := r.drop n, failed := false }, ?_, rfl,
    ⟨h.data, h.dev, rfl, rfl, h.taint⟩⟩
  unfold readSome
  have hne : r.isEmpty = false := by
    cases r with
    | nil => simp at hl; omega
    | cons a t => rfl
  simp [h.ok, h.rest, hne, Nat.min_eq_left hl]

theorem runs_readFixed {D : List UInt8} {dev : Dev} {r : List UInt8} {s : St} (n : Nat) (h : Live D dev r s)
    (hn : 0 < n) (hl : n ≤ r.length) :
    Runs (readFixed n) s (fun got s' => got = (r.take n).map UInt8.toNat ∧ Live D dev (r.drop n) s') := by
  unfold readFixed
  refine runs_bind (runs_readSome n h hn hl) ?_
  rintro got s1 ⟨rfl, h1⟩
  have : ¬ ((List.map UInt8.toNat (List.take n r)).length < n) := by simp [Nat.min_eq_left hl]
  rw [if_neg this]
  exact runs_pure _ _ ⟨rfl, h1⟩

theorem runs_readU8 {D : List UInt8} {dev : Dev} {a : UInt8} {r : List UInt8} {s : St} (h : Live D dev (a :: r) s) :
    Runs readU8 s (fun v s' => v = (a.toNat : Int) ∧ Live D dev r s') := by
  unfold readU8
  refine runs_bind (runs_readFixed 1 h (by decide) (by simp)) ?_
  rintro got s1 ⟨rfl, h1⟩
  exact runs_pure _ _ ⟨by simp, h1⟩

theorem runs_readU16 {D : List UInt8} {dev : Dev} {a b : UInt8} {r : List UInt8} {s : St} (h : Live D dev (a :: b :: r) s) :
    Runs readU16 s (fun v s' => v = ((a.toNat + 256 * b.toNat : Nat) : Int) ∧ Live D dev r s') := by
  unfold readU16
  refine runs_bind (runs_readFixed 2 h (by decide) (by simp)) ?_
  rintro got s1 ⟨rfl, h1⟩
  exact runs_pure _ _ ⟨by simp, h1⟩

theorem runs_readU32 {D : List UInt8} {dev : Dev} {a b c d : UInt8} {r : List UInt8} {s : St}
    (h : Live D dev (a :: b :: c :: d :: r) s) :
    Runs readU32 s (fun v s' => v = ((a.toNat + 256 * b.toNat + 65536 * c.toNat + 16777216 * d.toNat : Nat) : Int)
      ∧ Live D dev r s') := by
  unfold readU32
  refine runs_bind (runs_readFixed 4 h (by decide) (by simp)) ?_
  rintro got s1 ⟨rfl, h1⟩
  exact runs_pure _ _ ⟨by simp, h1⟩

theorem runs_seekSet {D : List UInt8} {dev : Dev} {r : List UInt8} {s : St} (off : Int) (h : Live D dev r s)
    (h0 : 0 ≤ off) (h1 : off.toNat ≤ D.length) :
    Runs (seekSet off) s (fun _ s' => Live D dev (D.drop off.toNat) s') := by
  have hn : ¬ off < 0 := by omega
  have hle : off ≤ (s.data.length : Int) := by rw [h.data]; omega
  refine ⟨(), { s with pos := off.toNat, rest := s.data.drop off.toNat }, ?_, ⟨h.data, h.dev, h.ok, by simp [h.data], h.taint⟩⟩
  unfold seekSet
  have hd := h.dev
  cases dev <;> simp [hd, hn, hle, h.ok]

theorem runs_readInto {D : List UInt8} {dev : Dev} {r : List UInt8} {s : St} (site : String) (buf : List Nat) (n : Nat)
    (h : Live D dev r s) (hn : 0 < n) (hb : n = buf.length) (hl : n ≤ r.length) :
    Runs (readInto site buf n) s (fun b s' => b = (r.take n).map UInt8.toNat ∧ Live D dev (r.drop n) s') := by
  unfold readInto
  rw [if_neg (by omega)]
  refine runs_bind (runs_readSome n h hn hl) ?_
  rintro got s1 ⟨rfl, h1⟩
  have hlen : (List.map UInt8.toNat (List.take n r)).length = n := by simp [Nat.min_eq_left hl]
  rw [if_neg (by omega)]
  refine runs_pure _ _ ⟨?_, h1⟩
  rw [hlen, hb]; simp

/-! ## pure steps -/

theorem alloc_ok {n : Int} (h : n ≤ 65536) : alloc n = pure () := by
  unfold alloc allocLimit
  rw [if_neg (by omega)]

theorem checkSettings_full (st : Settings) (w h : Int) (hx : st.x0 = 0) (hy : st.y0 = 0) (hw : 0 ≤ w) (hh : 0 ≤ h) :
    checkSettings st w h w h = pure () := by
  unfold checkSettings
  rw [if_neg (by rw [hx, hy]; omega)]

/-- one monadic step: run `l` on the live state `h`, name the new live state `h'` -/
macro "rstep " l:term " with " h:ident : tactic =>
  `(tactic| (refine runs_bind $l ?_; rintro _ _ ⟨hv, $h⟩; subst hv))

theorem u16_le16 (x : Nat) (h : x < 65536) : (UInt8.ofNat x).toNat + 256 * (UInt8.ofNat (x / 256)).toNat = x := by
  simp [UInt8.toNat_ofNat']
  omega

/-! ## TARGA: `encodeTga` output is read back -/

theorem tgaHeader_eq (w h nch : Nat) : Codec.tgaHeader w h nch =
    [0, 0, 2, 0, 0, 0, 0, 0, 0, 0, 0, 0, UInt8.ofNat w, UInt8.ofNat (w / 256), UInt8.ofNat h, UInt8.ofNat (h / 256),
     UInt8.ofNat (nch * 8), if nch * 8 = 32 then 8 else 0] := rfl

theorem runs_tga_readHeader {D : List UInt8} {dev : Dev} {body : List UInt8} {s : St} (W H nch : Nat)
    (hW : 1 ≤ W) (hW' : W < 65536) (hH : 1 ≤ H) (hH' : H < 65536) (hn : nch = 3 ∨ nch = 4)
    (h : Live D dev (Codec.tgaHeader W H nch ++ body) s) :
    Runs Tga.readHeader s (fun i s' => i.offset = 18 ∧ i.cmType = 0 ∧ i.imageType = 2 ∧ i.cmLength = 0 ∧ i.width = W ∧
      i.height = H ∧ i.bpp = (nch * 8 : Nat) ∧ i.origin = false ∧ Live D dev body s') := by
  rw [tgaHeader_eq] at h
  simp only [List.cons_append, List.nil_append] at h
  unfold Tga.readHeader
  rstep runs_readU8 h with h
  rstep runs_readU8 h with h
  rstep runs_readU8 h with h
  rstep runs_readU16 h with h
  rstep runs_readU16 h with h
  rstep runs_readU8 h with h
  rstep runs_readU16 h with h
  rstep runs_readU16 h with h
  rstep runs_readU16 h with h
  rstep runs_readU16 h with h
  rw [u16_le16 W hW', u16_le16 H hH']
  rw [if_neg (by omega)]
  rcases hn with rfl | rfl
  · rstep runs_readU8 h with h
    rw [if_neg (by decide)]
    rstep runs_readU8 h with h
    rw [if_neg (by decide), if_neg (by decide), if_neg (by decide)]
    exact runs_pure _ _ ⟨by show wrapU 8 _ = 18; decide, by show ((_ : Nat) : Int) = 0; decide, by show ((_ : Nat) : Int) = 2; decide,
      by show ((_ : Nat) : Int) = 0; decide, rfl, rfl, by show ((_ : Nat) : Int) = _; decide, by show (_ == _) = false; decide, h⟩
  · rstep runs_readU8 h with h
    rw [if_neg (by decide)]
    rstep runs_readU8 h with h
    rw [if_neg (by decide), if_neg (by decide), if_neg (by decide)]
    exact runs_pure _ _ ⟨by show wrapU 8 _ = 18; decide, by show ((_ : Nat) : Int) = 0; decide, by show ((_ : Nat) : Int) = 2; decide,
      by show ((_ : Nat) : Int) = 0; decide, rfl, rfl, by show ((_ : Nat) : Int) = _; decide, by show (_ == _) = false; decide, h⟩

theorem sliceRow_full (site : String) (row : List Nat) (bpp W : Nat) (hW : 1 ≤ W) (hl : row.length = W * bpp) :
    sliceRow site row bpp 0 W = pure row := by
  unfold sliceRow
  rw [if_neg (by omega), if_neg (by rw [hl]; push_cast; simp)]
  simp [← hl]

theorem setRow_ok (site : String) (d : Dest) (y : Int) (px : List Nat) {vw vh : Int} {nch : Nat}
    (hd : Shape d vw vh nch) (hy0 : 0 ≤ y) (hy1 : y < vh) (hp : (px.length : Int) ≤ vw * nch) :
    ∃ d', d.setRow site y px = pure d' ∧ Shape d' vw vh nch := by
  obtain ⟨h1, h2, h3⟩ := hd
  unfold Dest.setRow
  rw [if_neg (by rw [h2]; omega), if_neg (by rw [h1, h3]; simp only [Int.ofNat_eq_natCast]; omega)]
  exact ⟨_, rfl, h1, h2, h3⟩

theorem wrapS64_small {x : Int} (h0 : 0 ≤ x) (h1 : x < 9223372036854775808) : wrapS 64 x = x := by
  unfold wrapS
  have e1 : ((2 : Int) ^ 64) = 18446744073709551616 := by norm_num
  have e2 : ((2 : Int) ^ (64 - 1)) = 9223372036854775808 := by norm_num
  simp only [e1, e2]
  rw [if_neg (by omega)]
  omega

theorem runs_tga_rawRows {D : List UInt8} {dev : Dev} (i : Tga.Info) (st : Settings) (W bpp : Nat) (site : String)
    (vh : Int) (hb : bpp = 3 ∨ bpp = 4) (hd : RgbDst st.dst) (hx : st.x0 = 0) (hW : 1 ≤ W) (ho : i.origin = false) :
    ∀ (n : Nat) (row : List Nat) (d : Dest) (r : List UInt8) (s : St), row.length = W * bpp →
      Shape d W vh st.dst.nch → (n : Int) ≤ vh → n * (W * bpp) ≤ r.length → Live D dev r s →
      Runs (Tga.rawRows i st W bpp site n ((n : Int) - 1) row d) s (fun _ s' => ∃ r', Live D dev r' s')
  | 0, row, d, r, s, _, _, _, _, hl => by
    unfold Tga.rawRows
    exact runs_pure _ _ ⟨r, hl⟩
  | n + 1, row, d, r, s, hrow, hsh, hn, hr, hl => by
    unfold Tga.rawRows
    have hpos : 0 < W * bpp := by rcases hb with rfl | rfl <;> omega
    have hr' : W * bpp ≤ r.length := by
      have : (n + 1) * (W * bpp) = n * (W * bpp) + W * bpp := by ring
      omega
    refine runs_bind (runs_readInto site row row.length hl (by omega) rfl (by omega)) ?_
    rintro row' s1 ⟨rfl, h1⟩
    have hlen : (List.map UInt8.toNat (List.take row.length r)).length = W * bpp := by
      simp [hrow, Nat.min_eq_left hr']
    rw [hx, sliceRow_full site _ bpp W hW hlen]
    simp only [pure_bind]
    have hy : Tga.dstRow i d (((n + 1 : Nat) : Int) - 1) = (n : Int) := by
      unfold Tga.dstRow; rw [ho]; simp
    rw [hy]
    have hfit : ((Tga.cvtBgrx bpp st.dst (List.map UInt8.toNat (List.take row.length r))).length : Int)
        ≤ (W : Int) * st.dst.nch :=
      cvt_fits hb hd (dimx := (W : Int)) (Or.inl (by rw [hlen]; push_cast; exact le_refl _)) (le_refl _) (by omega)
    obtain ⟨d', hset, hsh'⟩ := setRow_ok site d (n : Int) _ hsh (by omega) (by omega) hfit
    rw [hset]
    simp only [pure_bind]
    have hy2 : ((n + 1 : Nat) : Int) - 1 - 1 = (n : Int) - 1 := by omega
    rw [hy2]
    refine runs_tga_rawRows i st W bpp site vh hb hd hx hW ho n _ d' _ s1 hlen hsh' (by omega) ?_ h1
    rw [List.length_drop, hrow]
    have : (n + 1) * (W * bpp) = n * (W * bpp) + W * bpp := by ring
    omega

theorem recreate_ok (st : Settings) (W H : Nat) (hg : (st.dst == Dst.gray1) = false) (hn : 1 ≤ st.dst.nch)
    (hW : 1 ≤ W) (hH : 1 ≤ H) (hsz : W * H * st.dst.nch ≤ 65536) :
    recreateImage st W H = pure (Dest.mk' W H st.dst.nch 0) := by
  unfold recreateImage
  have hwn : W * st.dst.nch ≤ 65536 := le_trans (by
    have : W * st.dst.nch ≤ W * H * st.dst.nch := Nat.mul_le_mul_right _ (Nat.le_mul_of_pos_right W (by omega))
    exact this) hsz
  have hW2 : W ≤ 65536 := le_trans (Nat.le_mul_of_pos_right W (by omega)) hwn
  have hH2 : H ≤ 65536 :=
    le_trans (le_trans (Nat.le_mul_of_pos_left H (by omega)) (Nat.le_mul_of_pos_right (W * H) (by omega))) hsz
  simp only [hg]
  rw [if_neg (by simp; omega)]
  simp only [Bool.false_eq_true, if_false]
  have e1 : wrapU 64 (W : Int) = W := wrapU64_small (by omega) (by omega)
  have e2 : wrapU 64 (H : Int) = H := wrapU64_small (by omega) (by omega)
  have e3 : wrapU 64 ((W : Int) * (st.dst.nch : Nat)) = ((W * st.dst.nch : Nat) : Int) := by
    have : (W : Int) * (st.dst.nch : Nat) = ((W * st.dst.nch : Nat) : Int) := by push_cast; rfl
    rw [this, wrapU64_small] <;> omega
  have e4 : wrapU 64 (((W * st.dst.nch : Nat) : Int) * (H : Int)) = ((W * H * st.dst.nch : Nat) : Int) := by
    have : ((W * st.dst.nch : Nat) : Int) * (H : Int) = ((W * H * st.dst.nch : Nat) : Int) := by push_cast; ring
    rw [this, wrapU64_small] <;> omega
  rw [e1, e2, e3, e4, alloc_ok (by omega)]
  rfl

theorem rgbDst_gray1 {dst : Dst} (hd : RgbDst dst) : (dst == Dst.gray1) = false ∧ 1 ≤ dst.nch := by
  rcases hd with h | h <;> rw [h] <;> exact ⟨rfl, by decide⟩

theorem runs_tga_readData {D : List UInt8} {dev : Dev} {body r : List UInt8} {s : St} (i : Tga.Info) (st : Settings)
    (W H nch : Nat) (d : Dest) (hoff : i.offset = 18) (hw : i.width = W) (hh : i.height = H) (hbpp : i.bpp = (nch * 8 : Nat))
    (ho : i.origin = false) (hn : nch = 3 ∨ nch = 4) (hd : RgbDst st.dst) (hx : st.x0 = 0) (hy : st.y0 = 0)
    (hW : 1 ≤ W) (hH : 1 ≤ H) (hsz : W * H * nch ≤ 65536) (hD : D = Codec.tgaHeader W H nch ++ body)
    (hbody : W * H * nch ≤ body.length) (hsh : Shape d W H st.dst.nch) (hl : Live D dev r s) :
    Runs (Tga.readData i st W H d) s (fun _ s' => ∃ r', Live D dev r' s') := by
  unfold Tga.readData
  have hb : ((i.bpp / 8).toNat) = nch := by rw [hbpp]; omega
  have hwn : W * nch ≤ 65536 := by nlinarith
  simp only [hb, hw, hh, ho, hy, hoff, Bool.false_eq_true, if_false]
  rw [alloc_ok (by omega)]
  simp only [pure_bind]
  have hsk : ((H : Int) - 0 - (H : Int)) = 0 := by omega
  have hz : wrapU 64 (0 : Int) = 0 := by decide
  have hseek : wrapS 64 (18 + wrapU 64 (wrapU 64 ((H : Int) - 0 - (H : Int)) * ((W : Int) * (nch : Int)))) = 18 := by
    rw [hsk, hz, Int.zero_mul, hz]; decide
  rw [hseek]
  have hlenD : D.length = 18 + body.length := by rw [hD, tgaHeader_eq]; simp; omega
  refine runs_bind (runs_seekSet 18 hl (by decide) (by rw [hlenD]; simp)) ?_
  rintro _ s1 h1
  have hdrop : List.drop (18 : Int).toNat D = body := by rw [hD, tgaHeader_eq]; rfl
  rw [hdrop] at h1
  have hH0 : (H : Int) > 0 := by omega
  rw [if_pos hH0]
  have hrep : ((W : Int) * (nch : Int)).toNat = W * nch := by
    have : (W : Int) * (nch : Int) = ((W * nch : Nat) : Int) := by push_cast; rfl
    rw [this]; rfl
  rw [hrep]
  have := runs_tga_rawRows (D := D) (dev := dev) i st W nch (Tga.fRead ++ ":read_data") H hn hd hx hW ho
    H (List.replicate (W * nch) 0) d body s1 (by simp) hsh (le_refl _) (by
      have : H * (W * nch) = W * H * nch := by ring
      omega) h1
  simpa using this

theorem runs_tga_run_image {D : List UInt8} {dev : Dev} {body : List UInt8} {s : St} (st : Settings) (W H nch : Nat)
    (he : st.entry = .image) (hdst : (nch = 3 ∧ st.dst = .rgb8) ∨ (nch = 4 ∧ st.dst = .rgba8))
    (hx : st.x0 = 0) (hy : st.y0 = 0) (hdw : st.dw = 0) (hdh : st.dh = 0)
    (hW : 1 ≤ W) (hH : 1 ≤ H) (hsz : W * H * nch ≤ 65536) (hD : D = Codec.tgaHeader W H nch ++ body)
    (hbody : W * H * nch ≤ body.length) (hl : Live D dev D s) :
    Runs (Tga.run st) s (fun _ s' => s'.taint = none) := by
  have hn : nch = 3 ∨ nch = 4 := by rcases hdst with h | h <;> simp [h.1]
  have hd : RgbDst st.dst := by rcases hdst with h | h <;> simp [RgbDst, h.2]
  have hnch : st.dst.nch = nch := by rcases hdst with h | h <;> rw [h.1, h.2] <;> rfl
  have hbits : st.dst.bits = ((nch * 8 : Nat) : Int) := by rcases hdst with h | h <;> rw [h.1, h.2] <;> rfl
  have hW' : W < 65536 := by rcases hn with rfl | rfl <;> nlinarith
  have hH' : H < 65536 := by rcases hn with rfl | rfl <;> nlinarith
  unfold Tga.run
  rw [hD] at hl
  refine runs_bind (runs_tga_readHeader W H nch hW hW' hH hH' hn hl) ?_
  rintro i s1 ⟨hoff, hcm, hit, hcml, hw, hh, hbpp, ho, h1⟩
  rw [← hD] at h1
  simp only [hdw, hdh, hw, hh, beq_self_eq_true, if_true]
  rw [checkSettings_full st W H hx hy (by omega) (by omega)]
  simp only [pure_bind, he]
  rw [recreate_ok st W H (rgbDst_gray1 hd).1 (rgbDst_gray1 hd).2 hW hH (by rw [hnch]; exact hsz)]
  simp only [pure_bind]
  refine runs_bind (Q := fun _ s' => ∃ r', Live D dev r' s') ?_ ?_
  · unfold Tga.apply
    rw [if_neg (by rw [hbits, hbpp]; simp), hit, hcm, hcml]
    simp only [beq_self_eq_true, true_or, if_true, ne_eq, not_true_eq_false, if_false]
    exact runs_tga_readData i st W H nch _ hoff hw hh hbpp ho hn hd hx hy hW hH hsz hD hbody (mk'_shape _ _ _ _) h1
  · rintro d s2 ⟨r', h2⟩
    exact runs_pure _ _ h2.taint

/-! ## sizes of what the writers produce -/

theorem encRow_length {α} (f : Codec.PixFmt α) (henc : ∀ p, (f.enc p).length = f.size) (r : List α) :
    (Codec.encRow f r).length = r.length * f.size := by
  unfold Codec.encRow
  induction r with
  | nil => simp
  | cons a t ih => simp only [List.flatMap_cons, List.length_append, henc, ih, List.length_cons]; ring

theorem flatten_map_length {α} (g : List α → List UInt8) (k : Nat) (rows : List (List α))
    (h : ∀ r ∈ rows, (g r).length = k) : (rows.map g).flatten.length = rows.length * k := by
  induction rows with
  | nil => simp
  | cons a t ih =>
    simp only [List.map_cons, List.flatten_cons, List.length_append, List.length_cons]
    rw [h a (by simp), ih (fun r hr => h r (by simp [hr]))]
    ring

theorem tga_body_length {α} (f : Codec.PixFmt α) (henc : ∀ p, (f.enc p).length = f.size) (img : Codec.Img α)
    (hwf : img.WF) : ((img.rows.reverse.map (Codec.encRow f)).flatten).length = img.w * img.h * f.size := by
  rw [flatten_map_length (Codec.encRow f) (img.w * f.size)]
  · rw [List.length_reverse, hwf.1]; ring
  · intro r hr
    rw [encRow_length f henc, hwf.2 r (by simpa using hr)]

/-- the initial state of `runRaw` is live -/
theorem live_init (dev : Dev) (bytes : List UInt8) :
    Live bytes dev bytes { data := bytes, pos := 0, rest := bytes, failed := false, dev := dev, taint := none } :=
  ⟨rfl, rfl, rfl, rfl, rfl⟩

/-! ## BMP: `encodeBmp` output is read back -/

theorem u32_le32 (x : Nat) (h : x < 4294967296) :
    (UInt8.ofNat x).toNat + 256 * (UInt8.ofNat (x / 256)).toNat + 65536 * (UInt8.ofNat (x / 65536)).toNat
      + 16777216 * (UInt8.ofNat (x / 16777216)).toNat = x := by
  simp [UInt8.toNat_ofNat']
  omega

theorem wrapS32_small {x : Int} (h0 : 0 ≤ x) (h1 : x < 2147483648) : wrapS 32 x = x := by
  unfold wrapS
  have e1 : ((2 : Int) ^ 32) = 4294967296 := by norm_num
  have e2 : ((2 : Int) ^ (32 - 1)) = 2147483648 := by norm_num
  simp only [e1, e2]
  rw [if_neg (by omega)]
  omega

theorem runs_bmp_readHeader0 {D : List UInt8} {dev : Dev} {body : List UInt8} {s : St} (W H nch : Nat)
    (hW' : W < 2147483648) (hH' : H < 2147483648) (hn : nch = 3 ∨ nch = 4)
    (h : Live D dev (Codec.bmpHeader W H nch ++ body) s) :
    Runs Bmp.readHeader0 s (fun i s' => i.offset = 54 ∧ i.hdrSize = 40 ∧ i.width = W ∧ i.height = H ∧
      i.bpp = (nch * 8 : Nat) ∧ i.comp = 0 ∧ i.numColors = 0 ∧ i.topDown = false ∧ Live D dev body s') := by
  simp only [Codec.bmpHeader, Codec.le16, Codec.le32, List.cons_append, List.nil_append] at h
  unfold Bmp.readHeader0
  rstep runs_readU16 h with h
  rw [if_neg (by decide)]
  rstep runs_readU32 h with h
  rstep runs_readU16 h with h
  rstep runs_readU16 h with h
  rstep runs_readU32 h with h
  rstep runs_readU32 h with h
  rw [if_pos (by decide)]
  rstep runs_readU32 h with h
  rstep runs_readU32 h with h
  rw [u32_le32 W (by omega), u32_le32 H (by omega), wrapS32_small (x := (W : Int)) (by omega) (by omega),
    wrapS32_small (x := (H : Int)) (by omega) (by omega)]
  rw [if_neg (by simp)]
  rw [if_neg (by omega)]
  dsimp only
  rstep runs_readU16 h with h
  rstep runs_readU16 h with h
  rstep runs_readU32 h with h
  rstep runs_readU32 h with h
  rstep runs_readU32 h with h
  rstep runs_readU32 h with h
  rstep runs_readU32 h with h
  rstep runs_readU32 h with h
  refine runs_pure _ _ ⟨by show ((_ : Nat) : Int) = 54; decide, by show ((_ : Nat) : Int) = 40; decide, rfl, rfl, ?_,
    by show ((_ : Nat) : Int) = 0; decide, by show ((_ : Nat) : Int) = 0; decide, rfl, h⟩
  show ((_ : Nat) : Int) = _
  rcases hn with rfl | rfl <;> decide

theorem sliceRow_prefix (site : String) (row : List Nat) (bpp W : Nat) (hW : 1 ≤ W) (hl : W * bpp ≤ row.length) :
    sliceRow site row bpp 0 W = pure (row.take (W * bpp)) := by
  unfold sliceRow
  rw [if_neg (by omega), if_neg (by push_cast; simp; exact_mod_cast hl)]
  simp

/-- the rows loop of `read_data` on a bottom-up 24/32-bit file whose rows all lie inside the file -/
theorem runs_bmp_rowsLoop_data {D : List UInt8} {dev : Dev} (i : Bmp.Info) (st : Settings) (W H nch P : Nat) (site : String)
    (hoff : i.offset = 54) (hh : i.height = H) (hn : nch = 3 ∨ nch = 4) (hd : RgbDst st.dst) (hx : st.x0 = 0)
    (hW : 1 ≤ W) (hP : W * nch ≤ P) (hP2 : P ≤ 65536) (hH2 : H ≤ 65536) (hD : 54 + P * H ≤ D.length) :
    ∀ (n : Nat) (y : Nat) (row : List Nat) (d : Dest) (r : List UInt8) (s : St), y + n = H → row.length = P →
      Shape d W H st.dst.nch → Live D dev r s →
      Runs (Bmp.rowsLoop i P st 0 site (fun row => do
          let px ← sliceRow site row nch st.x0 W
          pure (if nch == 3 then Bmp.cvtBgr st.dst px else Bmp.cvtBgra st.dst px, row)) n y row d) s
        (fun _ s' => ∃ r', Live D dev r' s')
  | 0, y, row, d, r, s, _, _, _, hl => by
    unfold Bmp.rowsLoop
    exact runs_pure _ _ ⟨r, hl⟩
  | n + 1, y, row, d, r, s, hy, hrow, hsh, hl => by
    unfold Bmp.rowsLoop
    have hPpos : 0 < P := by rcases hn with rfl | rfl <;> omega
    -- the seek target
    have hk : (H : Int) - 1 - ((y : Int) + 0) = ((H - 1 - y : Nat) : Int) := by omega
    have hmul : (H - 1 - y) * P + P ≤ P * H := by
      have : (H - 1 - y) * P + P = (H - y) * P := by
        have : H - y = (H - 1 - y) + 1 := by omega
        rw [this]; ring
      rw [this, Nat.mul_comm P H]
      exact Nat.mul_le_mul_right P (by omega)
    have hbig : P * H ≤ 65536 * 65536 := Nat.mul_le_mul hP2 hH2
    have hoffv : Bmp.getOffset i P ((y : Int) + 0) = ((54 + (H - 1 - y) * P : Nat) : Int) := by
      unfold Bmp.getOffset
      rw [hh, if_pos (by omega), hoff, hk]
      have e : (((H - 1 - y : Nat) : Int) * (P : Int)) = (((H - 1 - y) * P : Nat) : Int) := by push_cast; rfl
      rw [e, wrapU64_small (by omega) (by omega), wrapS64_small (by omega) (by omega)]
      push_cast; rfl
    rw [hoffv]
    refine runs_bind (runs_seekSet _ hl (by omega) (by simp only [Int.toNat_natCast]; omega)) ?_
    rintro _ s1 h1
    simp only [Int.toNat_natCast] at h1 ⊢
    have hrest : P ≤ (List.drop (54 + (H - 1 - y) * P) D).length := by rw [List.length_drop]; omega
    refine runs_bind (runs_readInto site row P h1 hPpos hrow.symm hrest) ?_
    rintro row' s2 ⟨rfl, h2⟩
    have hlen : (List.map UInt8.toNat (List.take P (List.drop (54 + (H - 1 - y) * P) D))).length = P := by
      simp only [List.length_map, List.length_take]; omega
    rw [hx, sliceRow_prefix site _ nch W hW (by rw [hlen]; exact hP)]
    simp only [pure_bind]
    have hfit : ((if nch == 3 then Bmp.cvtBgr st.dst ((List.map UInt8.toNat (List.take P (List.drop (54 + (H - 1 - y) * P) D))).take (W * nch))
        else Bmp.cvtBgra st.dst ((List.map UInt8.toNat (List.take P (List.drop (54 + (H - 1 - y) * P) D))).take (W * nch))).length : Int)
        ≤ (W : Int) * st.dst.nch := by
      have := cvt_fits hn hd (px := (List.map UInt8.toNat (List.take P (List.drop (54 + (H - 1 - y) * P) D))).take (W * nch))
        (dimx := (W : Int)) (vw := (W : Int)) (Or.inl (by rw [List.length_take, hlen]; push_cast; omega)) (le_refl _) (by omega)
      unfold Tga.cvtBgrx at this
      exact this
    obtain ⟨d', hset, hsh'⟩ := setRow_ok site d (y : Int) _ hsh (by omega) (by omega) hfit
    rw [hset]
    simp only [pure_bind]
    have hy2 : (y : Int) + 1 = ((y + 1 : Nat) : Int) := by push_cast; rfl
    rw [hy2]
    have hrec := runs_bmp_rowsLoop_data i st W H nch P site hoff hh hn hd hx hW hP hP2 hH2 hD n (y + 1) _ d' _ s2 (by omega) hlen hsh' h2
    rw [hx] at hrec
    exact hrec

theorem bmpSpn_bounds (W nch : Nat) (h : W * nch ≤ 65536) :
    W * nch ≤ Codec.bmpSpn W nch ∧ Codec.bmpSpn W nch ≤ 65536 := by
  unfold Codec.bmpSpn
  omega

theorem runs_bmp_apply_data {D : List UInt8} {dev : Dev} {r : List UInt8} {s : St} (i : Bmp.Info) (st : Settings)
    (W H nch : Nat) (d : Dest) (he : st.entry = .image) (hoff : i.offset = 54) (hw : i.width = W) (hh : i.height = H)
    (hbpp : i.bpp = (nch * 8 : Nat)) (hdst : (nch = 3 ∧ st.dst = .rgb8) ∨ (nch = 4 ∧ st.dst = .rgba8))
    (hx : st.x0 = 0) (hy : st.y0 = 0) (hW : 1 ≤ W) (hH : 1 ≤ H) (hsz : W * H * nch ≤ 65536)
    (hD : 54 + Codec.bmpSpn W nch * H ≤ D.length) (hsh : Shape d W H st.dst.nch) (hl : Live D dev r s) :
    Runs (Bmp.apply i st W H d) s (fun _ s' => ∃ r', Live D dev r' s') := by
  have hn : nch = 3 ∨ nch = 4 := by rcases hdst with h | h <;> simp [h.1]
  have hd : RgbDst st.dst := by rcases hdst with h | h <;> simp [RgbDst, h.2]
  have hbits : st.dst.bits = ((nch * 8 : Nat) : Int) := by rcases hdst with h | h <;> rw [h.1, h.2] <;> rfl
  have hwn : W * nch ≤ 65536 := le_trans (by
    have : W * nch ≤ W * H * nch := Nat.mul_le_mul_right nch (Nat.le_mul_of_pos_right W (by omega))
    exact this) hsz
  have hH2 : H ≤ 65536 :=
    le_trans (le_trans (Nat.le_mul_of_pos_left H (by omega)) (Nat.le_mul_of_pos_right (W * H) (by omega))) hsz
  obtain ⟨hsp1, hsp2⟩ := bmpSpn_bounds W nch hwn
  unfold Bmp.apply
  have hal : Bmp.isAllowed i st = pure true := by
    unfold Bmp.isAllowed
    rw [he, hbits, hbpp]
    rcases hn with rfl | rfl <;> simp
  rw [hal]
  simp only [pure_bind, Bool.not_true, Bool.false_eq_true, if_false]
  have hb8 : ¬ (i.bpp < 8) := by rw [hbpp]; rcases hn with rfl | rfl <;> omega
  have hby : (i.bpp + 7) / 8 = (nch : Int) := by rw [hbpp]; push_cast; omega
  simp only [hb8, if_false, hby, hw, false_and, or_false]
  have hraw : (W : Int) * (nch : Int) = ((W * nch : Nat) : Int) := by push_cast; rfl
  rw [hraw]
  have hin : inS32 ((W * nch : Nat) : Int) = true := by
    unfold inS32; simp only [Bool.and_eq_true, decide_eq_true_eq]; omega
  rw [hin]
  simp only [Bool.not_true, Bool.false_eq_true, if_false]
  have hpitch : wrapU 64 (wrapU 64 ((W * nch : Nat) : Int) + 3) / 4 * 4 = ((Codec.bmpSpn W nch : Nat) : Int) := by
    rw [wrapU64_small (x := ((W * nch : Nat) : Int)) (by omega) (by omega), wrapU64_small (by omega) (by omega)]
    unfold Codec.bmpSpn; push_cast; rfl
  rw [hpitch]
  unfold Bmp.dispatch
  have hcase : (i.bpp = 24 ∧ nch = 3) ∨ (i.bpp = 32 ∧ nch = 4) := by
    rcases hn with rfl | rfl
    · left; exact ⟨by rw [hbpp]; rfl, rfl⟩
    · right; exact ⟨by rw [hbpp]; rfl, rfl⟩
  have hgo : Runs (Bmp.readData i (Codec.bmpSpn W nch : Nat) st W H nch d) s (fun _ s' => ∃ r', Live D dev r' s') := by
    unfold Bmp.readData
    rw [alloc_ok (by omega)]
    simp only [pure_bind]
    have hwn1 : 1 ≤ W * nch := by rcases hn with rfl | rfl <;> omega
    rw [if_neg (by simp; omega)]
    simp only [Int.toNat_natCast, hy]
    exact runs_bmp_rowsLoop_data i st W H nch (Codec.bmpSpn W nch) _ hoff hh hn hd hx hW hsp1 hsp2 hH2 hD H 0 _ d r s
      (by omega) (by simp) hsh hl
  rcases hcase with ⟨hb, rfl⟩ | ⟨hb, rfl⟩
  · rw [hb]; simpa using hgo
  · rw [hb]; simpa using hgo

theorem runs_bmp_run_image {D : List UInt8} {dev : Dev} {body : List UInt8} {s : St} (st : Settings) (W H nch : Nat)
    (he : st.entry = .image) (hdst : (nch = 3 ∧ st.dst = .rgb8) ∨ (nch = 4 ∧ st.dst = .rgba8))
    (hx : st.x0 = 0) (hy : st.y0 = 0) (hdw : st.dw = 0) (hdh : st.dh = 0)
    (hW : 1 ≤ W) (hH : 1 ≤ H) (hsz : W * H * nch ≤ 65536) (hD : D = Codec.bmpHeader W H nch ++ body)
    (hbody : Codec.bmpSpn W nch * H ≤ body.length) (hl : Live D dev D s) :
    Runs (Bmp.run st) s (fun _ s' => s'.taint = none) := by
  have hn : nch = 3 ∨ nch = 4 := by rcases hdst with h | h <;> simp [h.1]
  have hd : RgbDst st.dst := by rcases hdst with h | h <;> simp [RgbDst, h.2]
  have hnch : st.dst.nch = nch := by rcases hdst with h | h <;> rw [h.1, h.2] <;> rfl
  have hwn : W * nch ≤ 65536 := le_trans (by
    have : W * nch ≤ W * H * nch := Nat.mul_le_mul_right nch (Nat.le_mul_of_pos_right W (by omega))
    exact this) hsz
  have hW2 : W ≤ 65536 := le_trans (Nat.le_mul_of_pos_right W (by omega)) hwn
  have hH2 : H ≤ 65536 :=
    le_trans (le_trans (Nat.le_mul_of_pos_left H (by omega)) (Nat.le_mul_of_pos_right (W * H) (by omega))) hsz
  have hlenD : D.length = 54 + body.length := by
    rw [hD]; simp [Codec.bmpHeader, Codec.le16, Codec.le32]; omega
  unfold Bmp.run Bmp.readHeader
  rw [hD] at hl
  refine runs_bind (Q := fun i s1 => i.offset = 54 ∧ i.width = (W : Int) ∧ i.height = (H : Int) ∧ i.bpp = ((nch * 8 : Nat) : Int) ∧ Live (Codec.bmpHeader W H nch ++ body) dev body s1)
    (runs_bind (runs_bmp_readHeader0 W H nch (by omega) (by omega) hn hl) ?_) ?_
  · rintro i s1 ⟨hoff, hhs, hw, hh, hbpp, hcomp, hnc, htd, h1⟩
    rw [if_neg (by rw [hw, hh]; omega), if_neg (by
      rw [hw, hbpp]
      have : (W : Int) * ((nch * 8 : Nat) : Int) = ((W * nch * 8 : Nat) : Int) := by push_cast; ring
      rw [this]; omega)]
    exact runs_pure _ _ ⟨hoff, hw, hh, hbpp, h1⟩
  · rintro i s1 ⟨hoff, hw, hh, hbpp, h1⟩
    rw [← hD] at h1
    simp only [hdw, hdh, hw, hh, beq_self_eq_true, if_true]
    rw [checkSettings_full st W H hx hy (by omega) (by omega)]
    simp only [pure_bind, he]
    rw [recreate_ok st W H (rgbDst_gray1 hd).1 (rgbDst_gray1 hd).2 hW hH (by rw [hnch]; exact hsz)]
    simp only [pure_bind]
    refine runs_bind (Q := fun _ s' => ∃ r', Live D dev r' s') ?_ ?_
    · exact runs_bmp_apply_data i st W H nch _ he hoff hw hh hbpp hdst hx hy hW hH hsz (by omega) (mk'_shape _ _ _ _) h1
    · rintro d s2 ⟨r', h2⟩
      exact runs_pure _ _ h2.taint

theorem bmp_body_length {α} (f : Codec.PixFmt α) (henc : ∀ p, (f.enc p).length = f.size) (img : Codec.Img α)
    (hwf : img.WF) : (Codec.bmpBody f img.w img.rows).length = Codec.bmpSpn img.w f.size * img.h := by
  unfold Codec.bmpBody
  rw [flatten_map_length _ (Codec.bmpSpn img.w f.size)]
  · rw [List.length_reverse, hwf.1]; ring
  · intro r hr
    have hr' : r.length = img.w := hwf.2 r (by simpa using hr)
    unfold Codec.padTo
    rw [List.length_append, List.length_replicate, encRow_length f henc, hr']
    unfold Codec.bmpSpn
    omega

/-! ## PNM: `encodePnm` output (P5 / P6) is read back -/

/-- one step of `read_int`: `val = val * 10 + (ch - '0')` -/
def dstep (v d : Nat) : Nat := v * 10 + (d - 48)

theorem foldl_dstep_ge (l : List Nat) : ∀ v : Nat, v ≤ l.foldl dstep v := by
  induction l with
  | nil => intro v; exact le_refl _
  | cons a t ih =>
    intro v
    have := ih (dstep v a)
    simp only [List.foldl_cons]
    unfold dstep at this ⊢
    omega

def IsDig (b : UInt8) : Prop := 48 ≤ b.toNat ∧ b.toNat ≤ 57

theorem isDig_isDigit {b : UInt8} (h : IsDig b) : Pnm.isDigit b.toNat = true := by
  unfold Pnm.isDigit; simp [h.1, h.2]

theorem runs_fuelHere (s : St) : Runs fuelHere s (fun k s' => k = s.rest.length + 1 ∧ s' = s) :=
  ⟨_, _, rfl, rfl, rfl⟩

theorem runs_getcChecked {D : List UInt8} {dev : Dev} {a : UInt8} {r : List UInt8} {s : St} (h : Live D dev (a :: r) s) :
    Runs getcChecked s (fun v s' => v = a.toNat ∧ Live D dev r s') := by
  unfold getcChecked
  refine runs_bind (runs_readSome 1 h (by decide) (by simp)) ?_
  rintro got s1 ⟨rfl, h1⟩
  exact runs_pure _ _ ⟨rfl, h1⟩

theorem runs_pnm_readChar {D : List UInt8} {dev : Dev} {a : UInt8} {r : List UInt8} {s : St} (h : Live D dev (a :: r) s)
    (ha : a.toNat ≠ 35) : Runs Pnm.readChar s (fun v s' => v = a.toNat ∧ Live D dev r s') := by
  unfold Pnm.readChar
  rstep runs_getcChecked h with h1
  rw [if_neg (by simpa using ha)]
  exact runs_pure _ _ ⟨rfl, h1⟩

theorem runs_pnm_digitsLoop {D : List UInt8} {dev : Dev} (t : UInt8) (ht : Pnm.isDigit t.toNat = false) (ht2 : t.toNat ≠ 35)
    (r : List UInt8) :
    ∀ (cs : List UInt8) (c : UInt8) (val k : Nat) (s : St), (∀ b ∈ c :: cs, IsDig b) → cs.length < k →
      ((c :: cs).map UInt8.toNat).foldl dstep val ≤ 214748364 → Live D dev (cs ++ t :: r) s →
      Runs (Pnm.digitsLoop k c.toNat val) s
        (fun v s' => v = Int.ofNat (((c :: cs).map UInt8.toNat).foldl dstep val) ∧ Live D dev r s')
  | cs, c, val, 0, s, _, hk, _, _ => by omega
  | [], c, val, k + 1, s, hdig, hk, hval, hl => by
    unfold Pnm.digitsLoop
    simp only [List.map_cons, List.map_nil, List.foldl_cons, List.foldl_nil] at hval ⊢
    unfold dstep at hval
    rw [if_neg (by omega)]
    rstep runs_pnm_readChar hl ht2 with h1
    rw [ht]
    exact runs_pure _ _ ⟨rfl, h1⟩
  | c' :: cs, c, val, k + 1, s, hdig, hk, hval, hl => by
    unfold Pnm.digitsLoop
    have hge := foldl_dstep_ge ((c' :: cs).map UInt8.toNat) (dstep val c.toNat)
    simp only [List.map_cons, List.foldl_cons] at hval hge ⊢
    have hd1 : dstep val c.toNat = val * 10 + (c.toNat - 48) := rfl
    rw [if_neg (by omega)]
    have hc' : IsDig c' := hdig c' (by simp)
    rstep runs_pnm_readChar hl (by have := hc'.1; omega) with h1
    rw [isDig_isDigit hc']
    simp only [if_true]
    have := runs_pnm_digitsLoop t ht ht2 r cs c' (val * 10 + (c.toNat - 48)) k _
      (fun b hb => hdig b (by simp at hb ⊢; right; exact hb)) (by simpa using hk)
      (by simpa [List.map_cons, List.foldl_cons, hd1] using hval) h1
    simpa [List.map_cons, List.foldl_cons, hd1] using this

theorem runs_pnm_skipWs {D : List UInt8} {dev : Dev} (c : UInt8) (hc : IsDig c) (r : List UInt8) :
    ∀ (ws : List UInt8) (k : Nat) (s : St), (∀ b ∈ ws, b = 32) → ws.length < k → Live D dev (ws ++ c :: r) s →
      Runs (Pnm.skipWs k) s (fun v s' => v = c.toNat ∧ Live D dev r s')
  | ws, 0, s, _, hk, _ => by omega
  | [], k + 1, s, _, _, hl => by
    unfold Pnm.skipWs
    rstep runs_pnm_readChar hl (by have := hc.1; omega) with h1
    rw [if_neg (by have := hc.1; have := hc.2; simp; omega)]
    exact runs_pure _ _ ⟨rfl, h1⟩
  | w :: ws, k + 1, s, hws, hk, hl => by
    unfold Pnm.skipWs
    have hw : w = 32 := hws w (by simp)
    subst hw
    rstep runs_pnm_readChar hl (by decide) with h1
    rw [if_pos (by left; decide)]
    exact runs_pnm_skipWs c hc r ws k _ (fun b hb => hws b (by simp [hb])) (by simpa using hk) h1

/-- `read_int` over optional blanks, a digit string and the blank that ends it -/
theorem runs_pnm_readInt {D : List UInt8} {dev : Dev} {s : St} (ws ds r : List UInt8) (hws : ∀ b ∈ ws, b = 32)
    (hne : ds ≠ []) (hdig : ∀ b ∈ ds, IsDig b) (hval : (ds.map UInt8.toNat).foldl dstep 0 ≤ 214748364)
    (hl : Live D dev (ws ++ (ds ++ 32 :: r)) s) :
    Runs Pnm.readInt s (fun v s' => v = Int.ofNat ((ds.map UInt8.toNat).foldl dstep 0) ∧ Live D dev r s') := by
  obtain ⟨c, cs, rfl⟩ := List.exists_cons_of_ne_nil hne
  unfold Pnm.readInt
  refine runs_bind (runs_fuelHere s) ?_
  rintro k s0 ⟨hk, hs⟩
  rw [hk, hs]
  have hc : IsDig c := hdig c (by simp)
  refine runs_bind (runs_pnm_skipWs c hc (cs ++ 32 :: r) ws _ s hws (by rw [hl.rest]; simp; omega) (by simpa using hl)) ?_
  rintro _ s1 ⟨rfl, h1⟩
  rw [isDig_isDigit hc]
  simp only [Bool.not_true, Bool.false_eq_true, if_false]
  refine runs_bind (runs_fuelHere s1) ?_
  rintro k s2 ⟨hk, hs⟩
  rw [hk, hs]
  exact runs_pnm_digitsLoop 32 (by decide) (by decide) r cs c 0 _ s1 hdig (by rw [h1.rest]; simp; omega) hval h1

theorem toNat_ofNat_small (x : Nat) (h : x < 256) : (UInt8.ofNat x).toNat = x := by
  simp [UInt8.toNat_ofNat']; omega

theorem decDigitsAux_spec : ∀ (fuel n : Nat), n < fuel →
    Codec.decDigitsAux fuel n ≠ [] ∧ (∀ b ∈ Codec.decDigitsAux fuel n, IsDig b) ∧
      ((Codec.decDigitsAux fuel n).map UInt8.toNat).foldl dstep 0 = n
  | 0, n, h => by omega
  | fuel + 1, n, h => by
    unfold Codec.decDigitsAux
    by_cases h10 : n < 10
    · rw [if_pos h10]
      have e := toNat_ofNat_small (48 + n) (by omega)
      refine ⟨by simp, ?_, ?_⟩
      · intro b hb
        simp only [List.mem_singleton] at hb
        subst hb
        unfold IsDig; rw [e]; omega
      · simp only [List.map_cons, List.map_nil, List.foldl_cons, List.foldl_nil, e]
        unfold dstep; omega
    · rw [if_neg h10]
      obtain ⟨_, ih2, ih3⟩ := decDigitsAux_spec fuel (n / 10) (by omega)
      have e := toNat_ofNat_small (48 + n % 10) (by omega)
      refine ⟨by simp, ?_, ?_⟩
      · intro b hb
        rcases List.mem_append.mp hb with hb | hb
        · exact ih2 b hb
        · simp only [List.mem_singleton] at hb
          subst hb
          unfold IsDig; rw [e]; omega
      · rw [List.map_append, List.foldl_append, ih3]
        simp only [List.map_cons, List.map_nil, List.foldl_cons, List.foldl_nil, e]
        unfold dstep; omega

theorem decDigits_spec (n : Nat) : Codec.decDigits n ≠ [] ∧ (∀ b ∈ Codec.decDigits n, IsDig b) ∧
    ((Codec.decDigits n).map UInt8.toNat).foldl dstep 0 = n :=
  decDigitsAux_spec (n + 1) n (by omega)

theorem runs_pnm_readHeader {D : List UInt8} {dev : Dev} {body : List UInt8} {s : St} (t W H : Nat) (ht : t = 5 ∨ t = 6)
    (hW : 1 ≤ W) (hW' : W ≤ 214748364) (hH : 1 ≤ H) (hH' : H ≤ 214748364)
    (h : Live D dev (Codec.pnmHeader t W H ++ body) s) :
    Runs Pnm.readHeader s (fun i s' => i.type = (t : Int) ∧ i.width = (W : Int) ∧ i.height = (H : Int) ∧ i.maxValue = 255 ∧
      Live D dev body s') := by
  obtain ⟨w1, w2, w3⟩ := decDigits_spec W
  obtain ⟨h1, h2, h3⟩ := decDigits_spec H
  unfold Codec.pnmHeader at h
  rw [if_neg (by rcases ht with rfl | rfl <;> decide)] at h
  simp only [List.append_assoc, List.cons_append, List.nil_append] at h
  unfold Pnm.readHeader
  rstep runs_pnm_readChar h (by decide) with h
  rw [if_neg (by decide)]
  rstep runs_pnm_readChar h (by rcases ht with rfl | rfl <;> decide) with h
  rw [if_neg (by rcases ht with rfl | rfl <;> decide)]
  rstep runs_pnm_readInt [32] (Codec.decDigits W) _ (by simp) w1 w2 (by rw [w3]; exact hW') h with h
  rstep runs_pnm_readInt [] (Codec.decDigits H) _ (by simp) h1 h2 (by rw [h3]; exact hH') h with h
  rw [w3, h3]
  rw [if_neg (by simp only [Int.ofNat_eq_natCast]; omega)]
  rw [if_neg (by rcases ht with rfl | rfl <;> decide)]
  rstep runs_pnm_readInt [] [50, 53, 53] body (by simp) (by simp)
    (by intro b hb; simp at hb; rcases hb with rfl | rfl | rfl <;> exact ⟨by decide, by decide⟩) (by decide) h with h
  rw [if_neg (by decide)]
  refine runs_pure _ _ ⟨?_, rfl, rfl, by show Int.ofNat _ = 255; decide, h⟩
  show Int.ofNat _ = _
  rcases ht with rfl | rfl <;> decide

theorem runs_pnm_binRows {D : List UInt8} {dev : Dev} (i : Pnm.Info) (st : Settings) (W H ch : Nat) (site : String)
    (hty : (i.type = 5 ∧ ch = 1 ∧ st.dst = .gray8) ∨ (i.type = 6 ∧ ch = 3 ∧ st.dst = .rgb8)) (hx : st.x0 = 0) (hW : 1 ≤ W) :
    ∀ (n y : Nat) (buf : List Nat) (d : Dest) (r : List UInt8) (s : St), y + n = H → buf.length = W * ch →
      Shape d W H st.dst.nch → n * (W * ch) ≤ r.length → Live D dev r s →
      Runs (Pnm.binRows i st W (W * ch) site n y buf d) s (fun _ s' => ∃ r', Live D dev r' s')
  | 0, y, buf, d, r, s, _, _, _, _, hl => by
    unfold Pnm.binRows
    exact runs_pure _ _ ⟨r, hl⟩
  | n + 1, y, buf, d, r, s, hy, hbuf, hsh, hr, hl => by
    unfold Pnm.binRows
    have hpos : 0 < W * ch := by rcases hty with ⟨_, rfl, _⟩ | ⟨_, rfl, _⟩ <;> omega
    have hr' : W * ch ≤ r.length := by
      have : (n + 1) * (W * ch) = n * (W * ch) + W * ch := by ring
      omega
    refine runs_bind (runs_readInto site buf (W * ch) hl hpos hbuf.symm hr') ?_
    rintro buf' s1 ⟨rfl, h1⟩
    have hlen : (List.map UInt8.toNat (List.take (W * ch) r)).length = W * ch := by
      simp only [List.length_map, List.length_take]; omega
    have hrest : n * (W * ch) ≤ (List.drop (W * ch) r).length := by
      rw [List.length_drop]
      have : (n + 1) * (W * ch) = n * (W * ch) + W * ch := by ring
      omega
    have hy2 : (y : Int) + 1 = ((y + 1 : Nat) : Int) := by push_cast; rfl
    have hWpos : ¬ ((W : Int) ≤ 0) := by omega
    rcases hty with ⟨h5, rfl, hdst⟩ | ⟨h6, rfl, hdst⟩
    · have hnch : st.dst.nch = 1 := by rw [hdst]; rfl
      rw [h5, hx]
      simp only [show ((5 : Int) == 4) = false from rfl, show ((5 : Int) == 6) = false from rfl, Bool.false_eq_true, if_false]
      rw [if_neg hWpos, if_neg (by simp only [Int.ofNat_eq_natCast]; omega)]
      simp only [beq_self_eq_true, if_true]
      have hfit : ((Pnm.gray8To st.dst (List.take ((W : Int).toNat * 1) (List.drop ((0 : Int).toNat * 1)
          (List.map UInt8.toNat (List.take (W * 1) r) ++ List.replicate (W * 1 * 1 - W * 1) 0)))).length : Int)
          ≤ (W : Int) * st.dst.nch := by
        rw [hdst]
        show ((List.take _ _).length : Int) ≤ _
        rw [List.length_take]
        simp only [Int.toNat_natCast]
        show _ ≤ (W : Int) * ((1 : Nat) : Int)
        omega
      obtain ⟨d', hset, hsh'⟩ := setRow_ok site d (y : Int) _ hsh (by omega) (by omega) hfit
      rw [hset]
      simp only [pure_bind]
      rw [hy2]
      have hrec := runs_pnm_binRows i st W H 1 site (Or.inl ⟨h5, rfl, hdst⟩) hx hW n (y + 1) _ d' _ s1 (by omega) hlen hsh' hrest h1
      exact hrec
    · have hnch : st.dst.nch = 3 := by rw [hdst]; rfl
      rw [h6, hx]
      simp only [show ((6 : Int) == 4) = false from rfl, beq_self_eq_true, Bool.false_eq_true, if_false, if_true]
      rw [if_neg hWpos, if_neg (by simp only [Int.ofNat_eq_natCast]; push_cast; rintro (hf | hf) <;> omega)]
      simp only [show ((3 : Nat) == 1) = false from rfl, Bool.false_eq_true, if_false]
      have hfit : (((List.take ((W : Int).toNat * 3) (List.drop ((0 : Int).toNat * 3)
          (List.map UInt8.toNat (List.take (W * 3) r) ++ List.replicate (W * 3 * 3 - W * 3) 0)))).length : Int)
          ≤ (W : Int) * st.dst.nch := by
        rw [hnch, List.length_take]
        simp only [Int.toNat_natCast]
        push_cast
        omega
      obtain ⟨d', hset, hsh'⟩ := setRow_ok site d (y : Int) _ hsh (by omega) (by omega) hfit
      rw [hset]
      simp only [pure_bind]
      rw [hy2]
      have hrec := runs_pnm_binRows i st W H 3 site (Or.inr ⟨h6, rfl, hdst⟩) hx hW n (y + 1) _ d' _ s1 (by omega) hlen hsh' hrest h1
      exact hrec

theorem runs_pnm_apply_bin {D : List UInt8} {dev : Dev} {r : List UInt8} {s : St} (i : Pnm.Info) (st : Settings)
    (W H ch : Nat) (d : Dest) (he : st.entry = .image)
    (hty : (i.type = 5 ∧ ch = 1 ∧ st.dst = .gray8) ∨ (i.type = 6 ∧ ch = 3 ∧ st.dst = .rgb8)) (hw : i.width = W)
    (hx : st.x0 = 0) (hy : st.y0 = 0) (hW : 1 ≤ W) (hH : 1 ≤ H) (halloc : W * ch * ch ≤ 65536)
    (hr : H * (W * ch) ≤ r.length) (hsh : Shape d W H st.dst.nch) (hl : Live D dev r s) :
    Runs (Pnm.apply i st W d) s (fun _ s' => ∃ r', Live D dev r' s') := by
  have hvh : d.vh = H := hsh.2.1
  have key : ∀ (sl : Int), sl = ((W * ch : Nat) : Int) →
      Runs (Pnm.readBinData i st W sl d) s (fun _ s' => ∃ r', Live D dev r' s') := by
    intro sl hsl
    unfold Pnm.readBinData
    have hch : (if (i.type == 6) = true then (3 : Int) else 1) = (ch : Int) := by
      rcases hty with ⟨h5, rfl, _⟩ | ⟨h6, rfl, _⟩
      · rw [h5]; rfl
      · rw [h6]; rfl
    have hpos : 0 < W * ch := by rcases hty with ⟨_, rfl, _⟩ | ⟨_, rfl, _⟩ <;> omega
    rw [hch, hsl]
    dsimp only
    rw [alloc_ok (n := ((W * ch : Nat) : Int) * (ch : Int)) (by
      have : ((W * ch : Nat) : Int) * (ch : Int) = ((W * ch * ch : Nat) : Int) := by push_cast; rfl
      rw [this]; omega)]
    simp only [pure_bind, hy, hvh]
    rw [if_neg (by simp; omega), if_neg (by simp; omega)]
    simp only [lt_self_iff_false, if_false, Int.toNat_natCast]
    rw [if_pos (by omega)]
    unfold Pnm.skipBinRows
    simp only [pure_bind]
    exact runs_pnm_binRows i st W H ch _ hty hx hW H 0 _ d r s (by omega) (by simp) hsh hr hl
  unfold Pnm.apply
  have hal : Pnm.isAllowed i st = true := by
    unfold Pnm.isAllowed
    rw [he]
    rcases hty with ⟨h5, _, hdst⟩ | ⟨h6, _, hdst⟩
    · rw [h5, hdst]; rfl
    · rw [h6, hdst]; rfl
  rw [hal]
  simp only [Bool.not_true, Bool.false_eq_true, if_false]
  rcases hty with ⟨h5, hc, hdst⟩ | ⟨h6, hc, hdst⟩
  · rw [if_neg (by rw [h5]; decide), if_neg (by rw [h5]; decide), if_neg (by rw [h5]; decide), if_pos (by rw [h5]; decide)]
    exact key _ (by rw [hw, hc]; push_cast; omega)
  · rw [if_neg (by rw [h6]; decide), if_neg (by rw [h6]; decide), if_neg (by rw [h6]; decide), if_neg (by rw [h6]; decide)]
    exact key _ (by rw [hw, hc]; push_cast; rfl)

theorem runs_pnm_run_image {D : List UInt8} {dev : Dev} {body : List UInt8} {s : St} (st : Settings) (t W H ch : Nat)
    (he : st.entry = .image) (hty : (t = 5 ∧ ch = 1 ∧ st.dst = .gray8) ∨ (t = 6 ∧ ch = 3 ∧ st.dst = .rgb8))
    (hx : st.x0 = 0) (hy : st.y0 = 0) (hdw : st.dw = 0) (hdh : st.dh = 0)
    (hW : 1 ≤ W) (hH : 1 ≤ H) (hsz : W * H * ch ≤ 65536) (halloc : W * ch * ch ≤ 65536)
    (hD : D = Codec.pnmHeader t W H ++ body) (hbody : W * H * ch ≤ body.length) (hl : Live D dev D s) :
    Runs (Pnm.run st) s (fun _ s' => s'.taint = none) := by
  have ht : t = 5 ∨ t = 6 := by rcases hty with h | h <;> simp [h.1]
  have hch : 1 ≤ ch := by rcases hty with h | h <;> simp [h.2.1]
  have hnch : st.dst.nch = ch := by rcases hty with ⟨_, h1, h2⟩ | ⟨_, h1, h2⟩ <;> rw [h1, h2] <;> rfl
  have hg : (st.dst == Dst.gray1) = false := by rcases hty with ⟨_, _, h2⟩ | ⟨_, _, h2⟩ <;> rw [h2] <;> rfl
  have hwn : W * ch ≤ 65536 := le_trans (by
    have : W * ch ≤ W * H * ch := Nat.mul_le_mul_right ch (Nat.le_mul_of_pos_right W (by omega))
    exact this) hsz
  have hW2 : W ≤ 65536 := le_trans (Nat.le_mul_of_pos_right W (by omega)) hwn
  have hH2 : H ≤ 65536 :=
    le_trans (le_trans (Nat.le_mul_of_pos_left H (by omega)) (Nat.le_mul_of_pos_right (W * H) (by omega))) hsz
  unfold Pnm.run
  rw [hD] at hl
  refine runs_bind (runs_pnm_readHeader t W H ht hW (by omega) hH (by omega) hl) ?_
  rintro i s1 ⟨hit, hw, hh, hmax, h1⟩
  rw [← hD] at h1
  simp only [hdw, hdh, hw, hh, beq_self_eq_true, if_true]
  rw [checkSettings_full st W H hx hy (by omega) (by omega)]
  simp only [pure_bind, he]
  rw [recreate_ok st W H hg (by omega) hW hH (by rw [hnch]; exact hsz)]
  simp only [pure_bind]
  refine runs_bind (Q := fun _ s' => ∃ r', Live D dev r' s') ?_ ?_
  · refine runs_pnm_apply_bin i st W H ch _ he ?_ hw hx hy hW hH halloc ?_ (mk'_shape _ _ _ _) h1
    · rcases hty with ⟨rfl, h1, h2⟩ | ⟨rfl, h1, h2⟩
      · left; exact ⟨hit, h1, h2⟩
      · right; exact ⟨hit, h1, h2⟩
    · have : H * (W * ch) = W * H * ch := by ring
      omega
  · rintro d s2 ⟨r', h2⟩
    exact runs_pure _ _ h2.taint

theorem pnm_body_length {α} (f : Codec.PixFmt α) (henc : ∀ p, (f.enc p).length = f.size) (img : Codec.Img α)
    (hwf : img.WF) : ((img.rows.map (Codec.encRow f)).flatten).length = img.w * img.h * f.size := by
  rw [flatten_map_length (Codec.encRow f) (img.w * f.size)]
  · rw [hwf.1]; ring
  · intro r hr
    rw [encRow_length f henc, hwf.2 r hr]

end GilVerif.Lemmas.C11
