/-
  C15 (float accumulators) -- the code-structured GENERIC model of Model/C15.lean (`innerProduct`,
  `innerProductK`, `correlatePixelsN`, `correlatePixelsK`: generic in the accumulator type `α` with `+`, `*`, `0`)
  instantiated with the rounded arithmetic of an arbitrary `R : FloatSpec`:

      RVal R  =  a value of the format, with   a + b := rnd (a + b),   a * b := rnd (a * b),   0 := 0

  so `innerProduct (α := RVal R)` is `init = init + a*b` with one rounding per floating-point operation -- the very
  same generic function the driver instantiates with the hardware `Float32` (and the integer theorems of
  Props/C15.lean with `Int`); instantiated with `ℚ` it is the exact textbook sum.
  This file: the instance, and the accumulated-error lemma.
-/
import GilVerif.Basic.FloatSpec
import GilVerif.Model.C15

namespace GilVerif.Lemmas.C15Float
open GilVerif GilVerif.Model.C15

/-- a floating-point value of the format `R` (its arithmetic rounds) -/
structure RVal (R : FloatSpec) where
  v : ℚ

instance (R : FloatSpec) : Add (RVal R) := ⟨fun a b => ⟨R.rnd (a.v + b.v)⟩⟩
instance (R : FloatSpec) : Mul (RVal R) := ⟨fun a b => ⟨R.rnd (a.v * b.v)⟩⟩
instance (R : FloatSpec) : OfNat (RVal R) 0 := ⟨⟨0⟩⟩

theorem add_v (R : FloatSpec) (a b : RVal R) : (a + b).v = R.rnd (a.v + b.v) := rfl
theorem mul_v (R : FloatSpec) (a b : RVal R) : (a * b).v = R.rnd (a.v * b.v) := rfl
theorem zero_v (R : FloatSpec) : (0 : RVal R).v = 0 := rfl

/-- embed rationals (the stored pixel / tap values) -/
def lift (R : FloatSpec) (xs : List ℚ) : List (RVal R) := xs.map (fun x => ⟨x⟩)

/-- integer-valued samples / taps as rationals -/
def ofInts (xs : List ℤ) : List ℚ := xs.map (fun (z : ℤ) => (z : ℚ))

/-- Σ |x_k * t_k| over the common prefix -/
def absSum : List ℚ → List ℚ → ℚ
  | x :: xs, t :: ts => |x * t| + absSum xs ts
  | _, _ => 0

/-- number of terms of the inner product (common prefix length) -/
def terms : List ℚ → List ℚ → ℕ
  | _ :: xs, _ :: ts => terms xs ts + 1
  | _, _ => 0

theorem absSum_nonneg : ∀ xs ts : List ℚ, 0 ≤ absSum xs ts
  | [], _ => by simp [absSum]
  | _ :: _, [] => by simp [absSum]
  | x :: xs, t :: ts => by
    have := absSum_nonneg xs ts
    simp only [absSum]; positivity

theorem terms_le_length : ∀ xs ts : List ℚ, terms xs ts ≤ ts.length
  | [], _ => by simp [terms]
  | _ :: _, [] => by simp [terms]
  | _ :: xs, _ :: ts => by
    have := terms_le_length xs ts
    simp only [terms, List.length_cons]; omega

/-- exact sum with an accumulator: |acc + Σ| ≤ |acc| + Σ|.| -/
theorem abs_ip_le : ∀ (xs ts : List ℚ) (a : ℚ), |innerProduct xs ts a| ≤ |a| + absSum xs ts
  | [], _, a => by simp [innerProduct, absSum]
  | _ :: _, [], a => by simp [innerProduct, absSum]
  | x :: xs, t :: ts, a => by
    have := abs_ip_le xs ts (a + x * t)
    have h2 := abs_add_le a (x * t)
    simp only [innerProduct, absSum]; linarith

/-- ONE STEP of `init = init + a*b` in rounded arithmetic: if the accumulator carries a relative error factor
    g - 1 on the mass U, afterwards it carries (1+eps)^2 * g - 1 on the mass U + |a*b| + tiny -/
theorem step_err (R : FloatSpec) (x t aF a g U : ℚ) (hg : 1 ≤ g) (hU : |a| ≤ U) (hE : |aF - a| ≤ (g - 1) * U) :
    |R.rnd (aF + R.rnd (x * t)) - (a + x * t)| ≤ ((1 + R.eps) ^ 2 * g - 1) * (U + |x * t| + R.tiny) := by
  have he := R.eps_nonneg
  have hτ := R.tiny_nonneg
  have hU0 : 0 ≤ U := le_trans (abs_nonneg a) hU
  have ha := abs_nonneg (x * t)
  have d1 := R.faithful_add (x * t)
  have d2 := R.faithful_add (aF + R.rnd (x * t))
  -- |s| ≤ g*U + |xt| + eps*(|xt| + tiny)
  have hs : |aF + R.rnd (x * t)| ≤ g * U + |x * t| + R.eps * (|x * t| + R.tiny) := by
    rw [abs_le] at hU hE d1 ⊢
    rcases abs_cases (x * t) with ⟨h1, _⟩ | ⟨h1, _⟩ <;> constructor <;> nlinarith
  have d2' : |R.rnd (aF + R.rnd (x * t)) - (aF + R.rnd (x * t))|
      ≤ R.eps * (g * U + |x * t| + R.eps * (|x * t| + R.tiny) + R.tiny) :=
    le_trans d2 (mul_le_mul_of_nonneg_left (by linarith) he)
  -- total error
  have hsum : |R.rnd (aF + R.rnd (x * t)) - (a + x * t)|
      ≤ (g - 1) * U + R.eps * (|x * t| + R.tiny) + R.eps * (g * U + |x * t| + R.eps * (|x * t| + R.tiny) + R.tiny) := by
    have e : R.rnd (aF + R.rnd (x * t)) - (a + x * t)
        = (R.rnd (aF + R.rnd (x * t)) - (aF + R.rnd (x * t))) + (aF - a) + (R.rnd (x * t) - x * t) := by ring
    rw [e]
    have t1 := abs_add_le ((R.rnd (aF + R.rnd (x * t)) - (aF + R.rnd (x * t))) + (aF - a)) (R.rnd (x * t) - x * t)
    have t2 := abs_add_le (R.rnd (aF + R.rnd (x * t)) - (aF + R.rnd (x * t))) (aF - a)
    linarith
  -- the target exceeds this bound by  g*eps*(1+eps)*U + (1+eps)^2*(g-1)*(|xt| + tiny) ≥ 0
  have key : ((1 + R.eps) ^ 2 * g - 1) * (U + |x * t| + R.tiny)
      - ((g - 1) * U + R.eps * (|x * t| + R.tiny) + R.eps * (g * U + |x * t| + R.eps * (|x * t| + R.tiny) + R.tiny))
      = g * R.eps * (1 + R.eps) * U + (1 + R.eps) ^ 2 * (g - 1) * (|x * t| + R.tiny) := by ring
  have hpos : 0 ≤ g * R.eps * (1 + R.eps) * U + (1 + R.eps) ^ 2 * (g - 1) * (|x * t| + R.tiny) := by
    have : 0 ≤ g - 1 := by linarith
    have : 0 ≤ g := by linarith
    positivity
  linarith

/-- accumulated error of the whole left-to-right inner product, started with an accumulator that already carries
    the factor g on the mass U -/
theorem ip_err (R : FloatSpec) : ∀ (xs ts : List ℚ) (aF a g U : ℚ), 1 ≤ g → |a| ≤ U → |aF - a| ≤ (g - 1) * U →
    |(innerProduct (lift R xs) (lift R ts) (⟨aF⟩ : RVal R)).v - innerProduct xs ts a|
      ≤ ((1 + R.eps) ^ (2 * terms xs ts) * g - 1) * (U + absSum xs ts + terms xs ts * R.tiny)
  | [], _, aF, a, g, U, _, _, hE => by simpa [innerProduct, lift, absSum, terms] using hE
  | _ :: _, [], aF, a, g, U, _, _, hE => by simpa [innerProduct, lift, absSum, terms] using hE
  | x :: xs, t :: ts, aF, a, g, U, hg, hU, hE => by
    have he := R.eps_nonneg
    have hstep := step_err R x t aF a g U hg hU hE
    have hg' : 1 ≤ (1 + R.eps) ^ 2 * g := by nlinarith
    have hU' : |a + x * t| ≤ U + |x * t| + R.tiny := by
      have := abs_add_le a (x * t); linarith [R.tiny_nonneg]
    have ih := ip_err R xs ts (R.rnd (aF + R.rnd (x * t))) (a + x * t) ((1 + R.eps) ^ 2 * g) (U + |x * t| + R.tiny) hg' hU' hstep
    have e1 : innerProduct (lift R (x :: xs)) (lift R (t :: ts)) (⟨aF⟩ : RVal R)
        = innerProduct (lift R xs) (lift R ts) (⟨R.rnd (aF + R.rnd (x * t))⟩ : RVal R) := rfl
    rw [e1]
    simp only [innerProduct, absSum, terms]
    have e2 : (1 + R.eps) ^ (2 * (terms xs ts + 1)) * g = (1 + R.eps) ^ (2 * terms xs ts) * ((1 + R.eps) ^ 2 * g) := by
      rw [show 2 * (terms xs ts + 1) = 2 * terms xs ts + 2 by ring, pow_add]; ring
    have e3 : U + (|x * t| + absSum xs ts) + ((terms xs ts + 1 : ℕ) : ℚ) * R.tiny
        = U + |x * t| + R.tiny + absSum xs ts + (terms xs ts : ℚ) * R.tiny := by push_cast; ring
    rw [e2, e3]; exact ih

/-- `inner_product_k_t<Size>` (recursion on the static size) computes the same value as `std::inner_product`, in every
    accumulator type, when Size = |taps| ≤ |buffer| -/
theorem innerProductK_eq_generic {α : Type} [Add α] [Mul α] [OfNat α 0] :
    ∀ (ts xs : List α) (acc : α), ts.length ≤ xs.length → innerProductK ts.length xs ts acc = innerProduct xs ts acc
  | [], xs, acc, _ => by cases xs <;> simp [innerProductK, innerProduct]
  | t :: ts, [], acc, h => by simp at h
  | t :: ts, x :: xs, acc, h => by
    have := innerProductK_eq_generic ts xs (acc + x * t) (by simpa using h)
    simpa [innerProductK, innerProduct] using this

end GilVerif.Lemmas.C15Float
