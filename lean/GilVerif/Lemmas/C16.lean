/-
  Helper lemmas for Props/C16.lean.
-/
import GilVerif.Model.C16
import GilVerif.Lemmas.C15
import Mathlib.Tactic.SplitIfs

namespace GilVerif.Lemmas.C16
open GilVerif.Model.C16 GilVerif.Gen.C16

theorem tdiv_index_range (a b : Int) (ha : 0 ≤ a) (hab : a ≤ b) (hb : 0 < b) :
    0 ≤ Int.tdiv (a * 255) b ∧ Int.tdiv (a * 255) b ≤ 255 := by
  have h0 : 0 ≤ a * 255 := by omega
  rw [Int.tdiv_eq_ediv_of_nonneg h0]
  constructor
  · exact Int.ediv_nonneg h0 (by omega)
  · apply Int.ediv_le_of_le_mul hb
    have : a * 255 ≤ b * 255 := by omega
    rw [Int.mul_comm 255 b]; exact this

/-- invariant of the (fixed) min/max scan -/
theorem scan_invariant (pixels : List Int) (mn0 mx0 : Int) :
    (scanMinMax true (mn0, mx0) pixels).1 ≤ mn0 ∧ mx0 ≤ (scanMinMax true (mn0, mx0) pixels).2
    ∧ (∀ p ∈ pixels, (scanMinMax true (mn0, mx0) pixels).1 ≤ p ∧ p ≤ (scanMinMax true (mn0, mx0) pixels).2) := by
  induction pixels generalizing mn0 mx0 with
  | nil => simp [scanMinMax]
  | cons p ps ih =>
    have e : scanMinMax true (mn0, mx0) (p :: ps)
        = scanMinMax true (if p < mn0 then p else mn0, if p > mx0 then p else mx0) ps := by
      simp [scanMinMax]
    rw [e]
    have h1 : (if p < mn0 then p else mn0) ≤ mn0 ∧ (if p < mn0 then p else mn0) ≤ p := by split_ifs <;> omega
    have h2 : mx0 ≤ (if p > mx0 then p else mx0) ∧ p ≤ (if p > mx0 then p else mx0) := by split_ifs <;> omega
    generalize (if p < mn0 then p else mn0) = mn1 at *
    generalize (if p > mx0 then p else mx0) = mx1 at *
    obtain ⟨a, b, c⟩ := ih mn1 mx1
    refine ⟨by omega, by omega, ?_⟩
    intro q hq
    rcases List.mem_cons.mp hq with rfl | hq
    · omega
    · exact c q hq

theorem foldlM_ok {α β ε : Type} (step : β → α → Except ε β) (l : List α) (init : β)
    (h : ∀ b, ∀ a ∈ l, ∃ b', step b a = .ok b') : ∃ r, l.foldlM step init = .ok r := by
  induction l generalizing init with
  | nil => exact ⟨init, rfl⟩
  | cons a l ih =>
    obtain ⟨b', hb⟩ := h init a (List.mem_cons_self)
    rw [List.foldlM_cons, hb]
    exact ih b' (fun b x hx => h b x (List.mem_cons_of_mem _ hx))

theorem histInc_ok (hist : List Nat) (i : Int) (h0 : 0 ≤ i) (h1 : i ≤ 255) : ∃ r, histInc hist i = .ok r := by
  unfold histInc; rw [if_pos ⟨h0, by omega⟩]; exact ⟨_, rfl⟩

theorem le_minOver_iff (x init : Int) (l : List Int) : x ≤ minOver init l ↔ x ≤ init ∧ ∀ y ∈ l, x ≤ y := by
  unfold minOver
  induction l generalizing init with
  | nil => simp
  | cons a l ih =>
    rw [List.foldl_cons, ih]
    simp only [List.mem_cons, forall_eq_or_imp]
    constructor
    · rintro ⟨h1, h2⟩; exact ⟨by omega, by omega, h2⟩
    · rintro ⟨h1, h2, h3⟩; exact ⟨by omega, h3⟩

theorem maxOver_le_iff (x init : Int) (l : List Int) : maxOver init l ≤ x ↔ init ≤ x ∧ ∀ y ∈ l, y ≤ x := by
  unfold maxOver
  induction l generalizing init with
  | nil => simp
  | cons a l ih =>
    rw [List.foldl_cons, ih]
    simp only [List.mem_cons, forall_eq_or_imp]
    constructor
    · rintro ⟨h1, h2⟩; exact ⟨by omega, by omega, h2⟩
    · rintro ⟨h1, h2, h3⟩; exact ⟨by omega, h3⟩

/-- characterisation of erosion: greatest lower bound of the value at p and at its neighbours -/
theorem le_erodeP_iff {P : Type} (pts : List P) (nb : P → P → Bool) (f : P → Int) (p : P) (x : Int) :
    x ≤ erodeP pts nb f p ↔ x ≤ f p ∧ ∀ q, q ∈ pts → nb p q = true → x ≤ f q := by
  unfold erodeP
  rw [le_minOver_iff]
  simp only [List.mem_map, List.mem_filter, forall_exists_index, and_imp]
  constructor
  · rintro ⟨h1, h2⟩; exact ⟨h1, fun q hq hn => h2 (f q) q hq hn rfl⟩
  · rintro ⟨h1, h2⟩; exact ⟨h1, fun y q hq hn e => e ▸ h2 q hq hn⟩

theorem dilateP_le_iff {P : Type} (pts : List P) (nb : P → P → Bool) (f : P → Int) (p : P) (x : Int) :
    dilateP pts nb f p ≤ x ↔ f p ≤ x ∧ ∀ q, q ∈ pts → nb p q = true → f q ≤ x := by
  unfold dilateP
  rw [maxOver_le_iff]
  simp only [List.mem_map, List.mem_filter, forall_exists_index, and_imp]
  constructor
  · rintro ⟨h1, h2⟩; exact ⟨h1, fun q hq hn => h2 (f q) q hq hn rfl⟩
  · rintro ⟨h1, h2⟩; exact ⟨h1, fun y q hq hn e => e ▸ h2 q hq hn⟩

theorem erodeP_le {P : Type} (pts : List P) (nb : P → P → Bool) (f : P → Int) (p : P) : erodeP pts nb f p ≤ f p := ((le_erodeP_iff pts nb f p _).mp (Int.le_refl _)).1
theorem erodeP_le_nb {P : Type} (pts : List P) (nb : P → P → Bool) (f : P → Int) (p q : P) (hq : q ∈ pts) (h : nb p q = true) : erodeP pts nb f p ≤ f q :=
  ((le_erodeP_iff pts nb f p _).mp (Int.le_refl _)).2 q hq h
theorem le_dilateP {P : Type} (pts : List P) (nb : P → P → Bool) (f : P → Int) (p : P) : f p ≤ dilateP pts nb f p := ((dilateP_le_iff pts nb f p _).mp (Int.le_refl _)).1
theorem le_dilateP_nb {P : Type} (pts : List P) (nb : P → P → Bool) (f : P → Int) (p q : P) (hq : q ∈ pts) (h : nb p q = true) : f q ≤ dilateP pts nb f p :=
  ((dilateP_le_iff pts nb f p _).mp (Int.le_refl _)).2 q hq h

/-- erosion/dilation at p only depend on the values at p and at points < n -/
theorem erodeP_congr {P : Type} (pts : List P) (nb : P → P → Bool) (f g : P → Int) (p : P) (hp : f p = g p) (h : ∀ q, q ∈ pts → f q = g q) :
    erodeP pts nb f p = erodeP pts nb g p := by
  apply Int.le_antisymm
  · rw [le_erodeP_iff]; exact ⟨hp ▸ erodeP_le pts nb f p, fun q hq hn => h q hq ▸ erodeP_le_nb pts nb f p q hq hn⟩
  · rw [le_erodeP_iff]; exact ⟨hp ▸ erodeP_le pts nb g p, fun q hq hn => h q hq ▸ erodeP_le_nb pts nb g p q hq hn⟩

theorem dilateP_congr {P : Type} (pts : List P) (nb : P → P → Bool) (f g : P → Int) (p : P) (hp : f p = g p) (h : ∀ q, q ∈ pts → f q = g q) :
    dilateP pts nb f p = dilateP pts nb g p := by
  apply Int.le_antisymm
  · rw [dilateP_le_iff]; exact ⟨hp ▸ le_dilateP pts nb g p, fun q hq hn => h q hq ▸ le_dilateP_nb pts nb g p q hq hn⟩
  · rw [dilateP_le_iff]; exact ⟨hp.symm ▸ le_dilateP pts nb f p, fun q hq hn => (h q hq).symm ▸ le_dilateP_nb pts nb f p q hq hn⟩

theorem le_foldl_iff {α : Type} (l : List α) (step : Int → α → Int) (P : α → Int → Prop)
    (h : ∀ acc a x, x ≤ step acc a ↔ x ≤ acc ∧ P a x) (init x : Int) :
    x ≤ l.foldl step init ↔ x ≤ init ∧ ∀ a ∈ l, P a x := by
  induction l generalizing init with
  | nil => simp
  | cons a l ih =>
    rw [List.foldl_cons, ih, h]
    simp only [List.mem_cons, forall_eq_or_imp]
    constructor
    · rintro ⟨⟨h1, h2⟩, h3⟩; exact ⟨h1, h2, h3⟩
    · rintro ⟨h1, h2, h3⟩; exact ⟨⟨h1, h2⟩, h3⟩

theorem foldl_le_iff {α : Type} (l : List α) (step : Int → α → Int) (P : α → Int → Prop)
    (h : ∀ acc a x, step acc a ≤ x ↔ acc ≤ x ∧ P a x) (init x : Int) :
    l.foldl step init ≤ x ↔ init ≤ x ∧ ∀ a ∈ l, P a x := by
  induction l generalizing init with
  | nil => simp
  | cons a l ih =>
    rw [List.foldl_cons, ih, h]
    simp only [List.mem_cons, forall_eq_or_imp]
    constructor
    · rintro ⟨⟨h1, h2⟩, h3⟩; exact ⟨h1, h2, h3⟩
    · rintro ⟨h1, h2, h3⟩; exact ⟨⟨h1, h2⟩, h3⟩


theorem mem_imagePts (w h : Nat) (q : Int × Int) : q ∈ imagePts w h ↔ inImg w h q.1 q.2 := by
  unfold imagePts inImg
  simp only [List.mem_flatMap, List.mem_map, List.mem_range]
  constructor
  · rintro ⟨y, hy, x, hx, rfl⟩; simp only; omega
  · rintro ⟨h1, h2, h3, h4⟩
    refine ⟨q.2.toNat, by omega, q.1.toNat, by omega, ?_⟩
    apply Prod.ext <;> simp only <;> omega

theorem nbK_iff (ker : List Int) (ks cy cx : Nat) (p q : Int × Int) :
    nbK ker ks cy cx p q = true ↔ ∃ r c, r < ks ∧ c < ks ∧ ker.getD (r * ks + c) 0 ≠ 0
      ∧ q.1 = p.1 + ((cx : Int) - (c : Int)) ∧ q.2 = p.2 + ((cy : Int) - (r : Int)) := by
  unfold nbK isNeighbour
  simp only [List.any_eq_true, List.mem_range, Bool.and_eq_true, bne_iff_ne, ne_eq, beq_iff_eq, decide_eq_true_eq]
  constructor
  · rintro ⟨r, hr, c, hc, ⟨h1, h2⟩, h3⟩; exact ⟨r, c, hr, hc, h1, h2, h3⟩
  · rintro ⟨r, c, hr, hc, h1, h2, h3⟩; exact ⟨r, hr, c, hc, ⟨h1, h2⟩, h3⟩

theorem sorted_rank (s : List Int) (hs : s.Pairwise (fun a b => a ≤ b)) (k : Nat) (hk : k < s.length) :
    (s.filter (fun a => decide (a < s[k]))).length ≤ k ∧ k < (s.filter (fun a => decide (a ≤ s[k]))).length := by
  have hp := List.pairwise_iff_getElem.mp hs
  have h1 : ∀ a ∈ s.drop k, s[k] ≤ a := by
    intro a ha
    obtain ⟨j, hj, rfl⟩ := List.mem_iff_getElem.mp ha
    rw [List.getElem_drop]
    by_cases h0 : j = 0
    · subst h0; simp
    · exact hp k (k + j) hk (by simp at hj; omega) (by omega)
  have h2 : ∀ a ∈ s.take (k + 1), a ≤ s[k] := by
    intro a ha
    obtain ⟨j, hj, rfl⟩ := List.mem_iff_getElem.mp ha
    rw [List.getElem_take]
    have hj' : j < k + 1 := by simp at hj; omega
    by_cases h0 : j = k
    · subst h0; exact Int.le_refl _
    · exact hp j k (by omega) hk (by omega)
  generalize s[k] = v at *
  constructor
  · have e : (s.drop k).filter (fun a => decide (a < v)) = [] := by
      rw [List.filter_eq_nil_iff]
      intro a ha
      have := h1 a ha
      simp only [decide_eq_true_eq]; omega
    have hs' : s = s.take k ++ s.drop k := (List.take_append_drop k s).symm
    rw [hs', List.filter_append, e, List.append_nil]
    calc ((s.take k).filter _).length ≤ (s.take k).length := List.length_filter_le _ _
      _ ≤ k := by simp; omega
  · have e : (s.take (k + 1)).filter (fun a => decide (a ≤ v)) = s.take (k + 1) := by
      rw [List.filter_eq_self]
      intro a ha
      simp only [decide_eq_true_eq]; exact h2 a ha
    have hs' : s = s.take (k + 1) ++ s.drop (k + 1) := (List.take_append_drop (k + 1) s).symm
    rw [hs', List.filter_append, e, List.length_append, List.length_take]
    omega

end GilVerif.Lemmas.C16
