/-
  C17 (bilinear sampler in floating point) -- the GENERIC nine-case tap function `bilinearTaps` of Model/C17.lean
  (generic in the weight type K with `1`, `-`, `*`) instantiated with the rounded arithmetic `RVal R` of an arbitrary
  `R : FloatSpec` (Lemmas/C15Float.lean: a + b := rnd (a + b), a * b := rnd (a * b); here also a - b := rnd (a - b), 1 := 1):
  the weights are then  rnd (rnd (1 - fx) * rnd (1 - fy)),  rnd (fx * rnd (1 - fy)), ...  exactly as sampler.hpp computes
  them in `F`, and the accumulator `mp` is
        accR R src taps = fold  (acc := acc + F(src) * w)  from 0      (`dst += DstChannel(src * _w)`)
  (the driver runs the same two generic functions with the hardware `Float`: `accF`).
  `cast_pixel` truncated (`dst_value_t(src)`): `ctrunc`; since fix 056e54b it rounds to nearest: `cround`.
-/
import GilVerif.Props.C15Float
import GilVerif.Model.C17

namespace GilVerif.Lemmas.C17Float
open GilVerif GilVerif.FloatSpec GilVerif.Model.C15 GilVerif.Model.C17 GilVerif.Lemmas.C15Float

instance (R : FloatSpec) : Sub (RVal R) := ⟨fun a b => ⟨R.rnd (a.v - b.v)⟩⟩
instance (R : FloatSpec) : OfNat (RVal R) 1 := ⟨⟨1⟩⟩

theorem sub_v (R : FloatSpec) (a b : RVal R) : (a - b).v = R.rnd (a.v - b.v) := rfl
theorem one_v (R : FloatSpec) : (1 : RVal R).v = 1 := rfl

/-- `mp` for one channel: `dst += F(src * w)` from 0, in order, in the rounded arithmetic of `R` -/
def accR (R : FloatSpec) (src : Int → Int → Int) (taps : List (Tap (RVal R))) : RVal R :=
  taps.foldl (fun acc t => acc + (⟨(src t.x t.y : ℚ)⟩ : RVal R) * t.w) 0

/-- the fold is the left-to-right inner product of C15 -/
theorem accR_eq_ip (R : FloatSpec) (src : Int → Int → Int) (taps : List (Tap (RVal R))) :
    accR R src taps = innerProduct (lift R (taps.map (fun t => (src t.x t.y : ℚ)))) (lift R (taps.map (fun t => t.w.v))) (0 : RVal R) := by
  unfold accR
  generalize (0 : RVal R) = a
  induction taps generalizing a with
  | nil => simp [lift, innerProduct]
  | cons t ts ih => simp only [List.foldl_cons, List.map_cons, lift, innerProduct]; exact ih _

/-- exact weighted sum between lo*W and hi*W -/
theorem ip_between (lo hi : ℚ) : ∀ (ps ws : List ℚ) (a : ℚ), ps.length = ws.length → (∀ p ∈ ps, lo ≤ p ∧ p ≤ hi) → (∀ w ∈ ws, 0 ≤ w) →
    a + lo * ws.sum ≤ innerProduct ps ws a ∧ innerProduct ps ws a ≤ a + hi * ws.sum
  | [], [], a, _, _, _ => by simp [innerProduct]
  | [], _ :: _, a, h, _, _ => by simp at h
  | _ :: _, [], a, h, _, _ => by simp at h
  | p :: ps, w :: ws, a, h, hp, hw => by
    have ih := ip_between lo hi ps ws (a + p * w) (by simpa using h) (fun q hq => hp q (List.mem_cons_of_mem _ hq))
      (fun q hq => hw q (List.mem_cons_of_mem _ hq))
    have hp0 := hp p List.mem_cons_self
    have hw0 := hw w List.mem_cons_self
    have h1 : lo * w ≤ p * w := mul_le_mul_of_nonneg_right hp0.1 hw0
    have h2 : p * w ≤ hi * w := mul_le_mul_of_nonneg_right hp0.2 hw0
    simp only [innerProduct, List.sum_cons]
    constructor <;> nlinarith [ih.1, ih.2]

/-- for non-negative data the absolute sum is the sum, and the number of terms is the length -/
theorem absSum_eq_ip : ∀ (ps ws : List ℚ), ps.length = ws.length → (∀ p ∈ ps, 0 ≤ p) → (∀ w ∈ ws, 0 ≤ w) →
    ∀ a : ℚ, a + absSum ps ws = innerProduct ps ws a
  | [], [], _, _, _ => by simp [innerProduct, absSum]
  | [], _ :: _, h, _, _ => by simp at h
  | _ :: _, [], h, _, _ => by simp at h
  | p :: ps, w :: ws, h, hp, hw => by
    intro a
    have ih := absSum_eq_ip ps ws (by simpa using h) (fun q hq => hp q (List.mem_cons_of_mem _ hq))
      (fun q hq => hw q (List.mem_cons_of_mem _ hq)) (a + p * w)
    have : |p * w| = p * w := abs_of_nonneg (mul_nonneg (hp p List.mem_cons_self) (hw w List.mem_cons_self))
    simp only [innerProduct, absSum, this]; rw [← ih]; ring

theorem terms_eq_length : ∀ (ps ws : List ℚ), ps.length = ws.length → terms ps ws = ws.length
  | [], [], _ => rfl
  | [], _ :: _, h => by simp at h
  | _ :: _, [], h => by simp at h
  | _ :: ps, _ :: ws, h => by simp only [terms, List.length_cons]; rw [terms_eq_length ps ws (by simpa using h)]

/-- THE BUDGET LEMMA: at most four non-negative weights whose sum is within [1 - 6 eps, 1 + 7 eps] of one, pixel values in
    [lo, hi] ⊆ [0, 65535], eps ≤ 2^-24: the rounded accumulator lies strictly between lo - 1 and hi + 1.
    (weights: ±7 eps * hi ≤ 0.028; eight roundings of the accumulation: 16 eps * (hi*(1+7eps) + 4) ≤ 0.063) -/
theorem acc_between (R : FloatSpec) (he : R.eps ≤ 1 / 2 ^ 24) (ps ws : List ℚ) (lo hi : ℚ) (hlen : ps.length = ws.length) (hn : ws.length ≤ 4)
    (hp : ∀ p ∈ ps, lo ≤ p ∧ p ≤ hi) (hlo : 0 ≤ lo) (hlh : lo ≤ hi) (hhi : hi ≤ 65535) (hw : ∀ w ∈ ws, 0 ≤ w)
    (hW1 : 1 - 6 * R.eps ≤ ws.sum) (hW2 : ws.sum ≤ 1 + 7 * R.eps) :
    lo - 1 < (innerProduct (lift R ps) (lift R ws) (0 : RVal R)).v ∧ (innerProduct (lift R ps) (lift R ws) (0 : RVal R)).v < hi + 1 := by
  have he0 := R.eps_nonneg
  have he' : R.eps ≤ 1 / 16777216 := by norm_num at he; exact he
  have hτ0 := R.tiny_nonneg
  have hτ1 := R.tiny_le_one
  have hp0 : ∀ p ∈ ps, 0 ≤ p := fun p h => le_trans hlo (hp p h).1
  have hterms := terms_eq_length ps ws hlen
  have hn' : (terms ps ws : ℚ) ≤ 4 := by rw [hterms]; exact_mod_cast hn
  have hn0 : (0 : ℚ) ≤ terms ps ws := Nat.cast_nonneg _
  have hb := ip_between lo hi ps ws 0 hlen hp hw
  have habs := absSum_eq_ip ps ws hlen hp0 hw 0
  rw [zero_add] at habs hb
  have herr := GilVerif.Props.C15Float.C15_float_inner_product_linear R ps ws (by nlinarith)
  rw [habs] at herr
  set S := innerProduct ps ws 0
  set mp := (innerProduct (lift R ps) (lift R ws) (0 : RVal R)).v
  set W := ws.sum
  set n : ℚ := (terms ps ws : ℚ)
  -- S ≤ hi*W ≤ 65535*(1+7eps) ≤ 65536
  have hS1 : S ≤ 65536 := by nlinarith [hb.2]
  have hS0 : 0 ≤ S := by nlinarith [hb.1]
  -- error ≤ 4*4*eps*(65536 + 4) ≤ 1/15
  have hE : 4 * n * R.eps * (S + n * R.tiny) ≤ 1 / 15 := by
    have h1 : S + n * R.tiny ≤ 65540 := by nlinarith
    have h2 : 4 * n * R.eps ≤ 16 * R.eps := by nlinarith
    have h3 : 0 ≤ S + n * R.tiny := by nlinarith
    calc 4 * n * R.eps * (S + n * R.tiny) ≤ 16 * R.eps * 65540 := mul_le_mul h2 h1 h3 (by linarith)
      _ ≤ 1 / 15 := by linarith
  rw [abs_le] at herr
  -- lo*W ≥ lo - 6*eps*lo ≥ lo - 1/40 ;  hi*W ≤ hi + 7*eps*hi ≤ hi + 1/36
  have hloW : lo - 1 / 40 ≤ lo * W := by nlinarith
  have hhiW : hi * W ≤ hi + 1 / 36 := by nlinarith
  constructor <;> linarith [hb.1, hb.2, herr.1, herr.2]

/-- THE BUDGET LEMMA, with the margin the proof really has (1/40 + 1/15 < 1/10; used for the rounding cast of fix 056e54b): at most four non-negative weights whose sum is within [1 - 6 eps, 1 + 7 eps] of one, pixel values in
    [lo, hi] ⊆ [0, 65535], eps ≤ 2^-24: the rounded accumulator lies strictly between lo - 1 and hi + 1.
    (weights: ±7 eps * hi ≤ 0.028; eight roundings of the accumulation: 16 eps * (hi*(1+7eps) + 4) ≤ 0.063) -/
theorem acc_between_tight (R : FloatSpec) (he : R.eps ≤ 1 / 2 ^ 24) (ps ws : List ℚ) (lo hi : ℚ) (hlen : ps.length = ws.length) (hn : ws.length ≤ 4)
    (hp : ∀ p ∈ ps, lo ≤ p ∧ p ≤ hi) (hlo : 0 ≤ lo) (hlh : lo ≤ hi) (hhi : hi ≤ 65535) (hw : ∀ w ∈ ws, 0 ≤ w)
    (hW1 : 1 - 6 * R.eps ≤ ws.sum) (hW2 : ws.sum ≤ 1 + 7 * R.eps) :
    lo - 1 / 10 ≤ (innerProduct (lift R ps) (lift R ws) (0 : RVal R)).v ∧ (innerProduct (lift R ps) (lift R ws) (0 : RVal R)).v ≤ hi + 1 / 10 := by
  have he0 := R.eps_nonneg
  have he' : R.eps ≤ 1 / 16777216 := by norm_num at he; exact he
  have hτ0 := R.tiny_nonneg
  have hτ1 := R.tiny_le_one
  have hp0 : ∀ p ∈ ps, 0 ≤ p := fun p h => le_trans hlo (hp p h).1
  have hterms := terms_eq_length ps ws hlen
  have hn' : (terms ps ws : ℚ) ≤ 4 := by rw [hterms]; exact_mod_cast hn
  have hn0 : (0 : ℚ) ≤ terms ps ws := Nat.cast_nonneg _
  have hb := ip_between lo hi ps ws 0 hlen hp hw
  have habs := absSum_eq_ip ps ws hlen hp0 hw 0
  rw [zero_add] at habs hb
  have herr := GilVerif.Props.C15Float.C15_float_inner_product_linear R ps ws (by nlinarith)
  rw [habs] at herr
  set S := innerProduct ps ws 0
  set mp := (innerProduct (lift R ps) (lift R ws) (0 : RVal R)).v
  set W := ws.sum
  set n : ℚ := (terms ps ws : ℚ)
  -- S ≤ hi*W ≤ 65535*(1+7eps) ≤ 65536
  have hS1 : S ≤ 65536 := by nlinarith [hb.2]
  have hS0 : 0 ≤ S := by nlinarith [hb.1]
  -- error ≤ 4*4*eps*(65536 + 4) ≤ 1/15
  have hE : 4 * n * R.eps * (S + n * R.tiny) ≤ 1 / 15 := by
    have h1 : S + n * R.tiny ≤ 65540 := by nlinarith
    have h2 : 4 * n * R.eps ≤ 16 * R.eps := by nlinarith
    have h3 : 0 ≤ S + n * R.tiny := by nlinarith
    calc 4 * n * R.eps * (S + n * R.tiny) ≤ 16 * R.eps * 65540 := mul_le_mul h2 h1 h3 (by linarith)
      _ ≤ 1 / 15 := by linarith
  rw [abs_le] at herr
  -- lo*W ≥ lo - 6*eps*lo ≥ lo - 1/40 ;  hi*W ≤ hi + 7*eps*hi ≤ hi + 1/36
  have hloW : lo - 1 / 40 ≤ lo * W := by nlinarith
  have hhiW : hi * W ≤ hi + 1 / 36 := by nlinarith
  constructor <;> linarith [hb.1, hb.2, herr.1, herr.2]

/-- `cast_channel_fn` for an integral destination since fix 056e54b, in the rounded arithmetic of `R`:
    `DstValue(src < 0 ? src - 0.5 : src + 0.5)` -- the addition of 0.5 is one more rounded operation, then truncation -/
def cround (R : FloatSpec) (mp : ℚ) : ℤ := if mp < 0 then ctrunc (R.rnd (mp - 1 / 2)) else ctrunc (R.rnd (mp + 1 / 2))

/-- the rounding cast maps an accumulator within 1/10 of [lo, hi] ⊆ [0, 65535] into [lo, hi] -/
theorem cround_between (R : FloatSpec) (he : R.eps ≤ 1 / 2 ^ 24) (mp : ℚ) (lo hi : ℤ) (hlo : 0 ≤ lo) (hhi : hi ≤ 65535)
    (h1 : (lo : ℚ) - 1 / 10 ≤ mp) (h2 : mp ≤ (hi : ℚ) + 1 / 10) : lo ≤ cround R mp ∧ cround R mp ≤ hi := by
  have he0 := R.eps_nonneg
  have he' : R.eps ≤ 1 / 16777216 := by norm_num at he; exact he
  have hτ1 := R.tiny_le_one
  have hlo' : (0 : ℚ) ≤ lo := by exact_mod_cast hlo
  have hhi' : (hi : ℚ) ≤ 65535 := by exact_mod_cast hhi
  unfold cround
  by_cases hneg : mp < 0
  · -- then lo = 0 and mp ∈ [-1/10, 0): mp - 1/2 ∈ [-0.6, -0.5), its rounding stays in (-1, 0) and truncates to 0
    rw [if_pos hneg]
    have hl0 : lo = 0 := by
      have : (lo : ℚ) < 1 := by linarith
      have : lo < 1 := by exact_mod_cast this
      omega
    have hx : |mp - 1 / 2| ≤ 1 := by rw [abs_le]; constructor <;> linarith
    have hf := R.faithful (mp - 1 / 2)
    have hm : max |mp - 1 / 2| R.tiny ≤ 1 := max_le hx hτ1
    have herr : |R.rnd (mp - 1 / 2) - (mp - 1 / 2)| ≤ 1 / 16777216 := by
      calc _ ≤ R.eps * max |mp - 1 / 2| R.tiny := hf
        _ ≤ (1 / 16777216) * 1 := mul_le_mul he' hm (le_max_of_le_right R.tiny_nonneg) (by norm_num)
        _ = 1 / 16777216 := by ring
    rw [abs_le] at herr
    have hy1 : R.rnd (mp - 1 / 2) < 0 := by linarith [herr.2]
    have hy2 : -1 < R.rnd (mp - 1 / 2) := by linarith [herr.1]
    unfold ctrunc; rw [if_neg (not_le.mpr hy1)]
    have : ⌊-R.rnd (mp - 1 / 2)⌋ = 0 := by rw [Int.floor_eq_iff]; constructor <;> push_cast <;> linarith
    rw [this, hl0]
    have : (-1 : ℚ) < hi := by linarith
    have : -1 < hi := by exact_mod_cast this
    omega
  · rw [if_neg hneg]
    have h0 : 0 ≤ mp := not_lt.mp hneg
    have hx : |mp + 1 / 2| ≤ 65536 := by rw [abs_le]; constructor <;> linarith
    have hf := R.faithful (mp + 1 / 2)
    have hm : max |mp + 1 / 2| R.tiny ≤ 65536 := max_le hx (by linarith)
    have herr : |R.rnd (mp + 1 / 2) - (mp + 1 / 2)| ≤ 1 / 256 := by
      calc _ ≤ R.eps * max |mp + 1 / 2| R.tiny := hf
        _ ≤ (1 / 16777216) * 65536 := mul_le_mul he' hm (le_max_of_le_right R.tiny_nonneg) (by norm_num)
        _ = 1 / 256 := by norm_num
    rw [abs_le] at herr
    have hy0 : 0 ≤ R.rnd (mp + 1 / 2) := by linarith [herr.1]
    rw [ctrunc_of_nonneg hy0]
    constructor
    · rw [Int.le_floor]; linarith [herr.1]
    · have : ⌊R.rnd (mp + 1 / 2)⌋ < hi + 1 := by rw [Int.floor_lt]; push_cast; linarith [herr.2]
      omega

/-- the weights of the nine cases are one of four shapes (generic in the weight type) -/
theorem taps_shape {K : Type} [OfNat K 1] [Sub K] [Mul K] (w h p0x p0y : Int) (fx fy : K) :
    (bilinearTaps w h p0x p0y fx fy).map (fun t => t.w) = [1]
    ∨ (bilinearTaps w h p0x p0y fx fy).map (fun t => t.w) = [1 - fy, fy]
    ∨ (bilinearTaps w h p0x p0y fx fy).map (fun t => t.w) = [1 - fx, fx]
    ∨ (bilinearTaps w h p0x p0y fx fy).map (fun t => t.w) = [(1 - fx) * (1 - fy), fx * (1 - fy), (1 - fx) * fy, fx * fy] := by
  unfold bilinearTaps
  repeat' split
  all_goals simp

/-- two weights rnd (1 - f), f -/
theorem weights2_ok (R : FloatSpec) (_he : R.eps ≤ 1 / 2 ^ 24) (f : ℚ) (h0 : 0 ≤ f) (h1 : f ≤ 1) :
    0 ≤ R.rnd (1 - f) ∧ 1 - 6 * R.eps ≤ R.rnd (1 - f) + (f + 0) ∧ R.rnd (1 - f) + (f + 0) ≤ 1 + 7 * R.eps := by
  have he0 := R.eps_nonneg
  have o0 : 0 ≤ R.rnd (1 - f) := R.rnd_nonneg (by linarith)
  have oe := abs_le.mp (R.abs_err_le' (x := 1 - f) (B := 1) (by linarith) (by linarith) (le_refl 1))
  exact ⟨o0, by linarith [oe.1], by linarith [oe.2]⟩

/-- the four weights of the interior case -/
theorem weights4_ok (R : FloatSpec) (he : R.eps ≤ 1 / 2 ^ 24) (fx fy : ℚ) (hx0 : 0 ≤ fx) (hx1 : fx ≤ 1) (hy0 : 0 ≤ fy) (hy1 : fy ≤ 1) :
    0 ≤ R.rnd (R.rnd (1 - fx) * R.rnd (1 - fy)) ∧ 0 ≤ R.rnd (fx * R.rnd (1 - fy)) ∧ 0 ≤ R.rnd (R.rnd (1 - fx) * fy) ∧ 0 ≤ R.rnd (fx * fy)
    ∧ 1 - 6 * R.eps ≤ R.rnd (R.rnd (1 - fx) * R.rnd (1 - fy)) + (R.rnd (fx * R.rnd (1 - fy)) + (R.rnd (R.rnd (1 - fx) * fy) + (R.rnd (fx * fy) + 0)))
    ∧ R.rnd (R.rnd (1 - fx) * R.rnd (1 - fy)) + (R.rnd (fx * R.rnd (1 - fy)) + (R.rnd (R.rnd (1 - fx) * fy) + (R.rnd (fx * fy) + 0))) ≤ 1 + 7 * R.eps := by
  have he0 := R.eps_nonneg
  have he' : R.eps ≤ 1 / 16777216 := by norm_num at he; exact he
  have ox0 : 0 ≤ R.rnd (1 - fx) := R.rnd_nonneg (by linarith)
  have ox1 : R.rnd (1 - fx) ≤ 1 := R.rnd_le_one (by linarith)
  have oy0 : 0 ≤ R.rnd (1 - fy) := R.rnd_nonneg (by linarith)
  have oy1 : R.rnd (1 - fy) ≤ 1 := R.rnd_le_one (by linarith)
  have oxe := abs_le.mp (R.abs_err_le' (x := 1 - fx) (B := 1) (by linarith) (by linarith) (le_refl 1))
  have oye := abs_le.mp (R.abs_err_le' (x := 1 - fy) (B := 1) (by linarith) (by linarith) (le_refl 1))
  have prod : ∀ a b : ℚ, 0 ≤ a → a ≤ 1 → 0 ≤ b → b ≤ 1 → 0 ≤ R.rnd (a * b) ∧ a * b - R.eps ≤ R.rnd (a * b) ∧ R.rnd (a * b) ≤ a * b + R.eps := by
    intro a b a0 a1 b0 b1
    have h0 : 0 ≤ a * b := mul_nonneg a0 b0
    have h1 : a * b ≤ 1 := by nlinarith
    have := abs_le.mp (R.abs_err_le' h0 h1 (le_refl 1))
    exact ⟨R.rnd_nonneg h0, by linarith [this.1], by linarith [this.2]⟩
  have p00 := prod _ _ ox0 ox1 oy0 oy1
  have p10 := prod _ _ hx0 hx1 oy0 oy1
  have p01 := prod _ _ ox0 ox1 hy0 hy1
  have p11 := prod _ _ hx0 hx1 hy0 hy1
  -- A = ox + fx, B = oy + fy are within eps of 1; the exact sum of the four products is A*B
  set A := R.rnd (1 - fx) + fx with hA
  set B := R.rnd (1 - fy) + fy with hB
  have hA1 : 1 - R.eps ≤ A := by linarith [oxe.1]
  have hA2 : A ≤ 1 + R.eps := by linarith [oxe.2]
  have hB1 : 1 - R.eps ≤ B := by linarith [oye.1]
  have hB2 : B ≤ 1 + R.eps := by linarith [oye.2]
  have hAB : R.rnd (1 - fx) * R.rnd (1 - fy) + fx * R.rnd (1 - fy) + R.rnd (1 - fx) * fy + fx * fy = A * B := by rw [hA, hB]; ring
  have hlo : 1 - 2 * R.eps ≤ A * B := by nlinarith [mul_nonneg (show 0 ≤ A - (1 - R.eps) by linarith) (show 0 ≤ B - (1 - R.eps) by linarith)]
  have hhi : A * B ≤ 1 + 3 * R.eps := by
    nlinarith [mul_nonneg (show 0 ≤ (1 + R.eps) - A by linarith) (show 0 ≤ B by linarith), mul_nonneg he0 he0]
  refine ⟨p00.1, p10.1, p01.1, p11.1, ?_, ?_⟩
  · linarith [p00.2.1, p10.2.1, p01.2.1, p11.2.1]
  · linarith [p00.2.2, p10.2.2, p01.2.2, p11.2.2]

/-- the rounded weights of every one of the nine cases: at most four, non-negative, summing to 1 within [-6 eps, 7 eps] -/
theorem weights_ok (R : FloatSpec) (he : R.eps ≤ 1 / 2 ^ 24) (w h p0x p0y : Int) (fx fy : ℚ)
    (hx0 : 0 ≤ fx) (hx1 : fx ≤ 1) (hy0 : 0 ≤ fy) (hy1 : fy ≤ 1) :
    ((bilinearTaps (K := RVal R) w h p0x p0y ⟨fx⟩ ⟨fy⟩).map (fun t => t.w.v)).length ≤ 4
    ∧ (∀ x ∈ (bilinearTaps (K := RVal R) w h p0x p0y ⟨fx⟩ ⟨fy⟩).map (fun t => t.w.v), 0 ≤ x)
    ∧ 1 - 6 * R.eps ≤ ((bilinearTaps (K := RVal R) w h p0x p0y ⟨fx⟩ ⟨fy⟩).map (fun t => t.w.v)).sum
    ∧ ((bilinearTaps (K := RVal R) w h p0x p0y ⟨fx⟩ ⟨fy⟩).map (fun t => t.w.v)).sum ≤ 1 + 7 * R.eps := by
  have he0 := R.eps_nonneg
  have e : (bilinearTaps (K := RVal R) w h p0x p0y ⟨fx⟩ ⟨fy⟩).map (fun t => t.w.v)
      = ((bilinearTaps (K := RVal R) w h p0x p0y ⟨fx⟩ ⟨fy⟩).map (fun t => t.w)).map (fun a => a.v) := by
    rw [List.map_map]; rfl
  rw [e]
  rcases taps_shape (K := RVal R) w h p0x p0y ⟨fx⟩ ⟨fy⟩ with hs | hs | hs | hs <;> rw [hs]
  · simp only [List.map_cons, List.map_nil, List.length_cons, List.length_nil, List.mem_cons, List.not_mem_nil, or_false, forall_eq,
      List.sum_cons, List.sum_nil, one_v]
    exact ⟨by omega, zero_le_one, by linarith, by linarith⟩
  · obtain ⟨a, b, c⟩ := weights2_ok R he fy hy0 hy1
    simp only [List.map_cons, List.map_nil, List.length_cons, List.length_nil, List.mem_cons, List.not_mem_nil, or_false, forall_eq_or_imp, forall_eq,
      List.sum_cons, List.sum_nil, one_v, sub_v]
    exact ⟨by omega, ⟨a, hy0⟩, b, c⟩
  · obtain ⟨a, b, c⟩ := weights2_ok R he fx hx0 hx1
    simp only [List.map_cons, List.map_nil, List.length_cons, List.length_nil, List.mem_cons, List.not_mem_nil, or_false, forall_eq_or_imp, forall_eq,
      List.sum_cons, List.sum_nil, one_v, sub_v]
    exact ⟨by omega, ⟨a, hx0⟩, b, c⟩
  · obtain ⟨a, b, c, d, lo, hi⟩ := weights4_ok R he fx fy hx0 hx1 hy0 hy1
    simp only [List.map_cons, List.map_nil, List.length_cons, List.length_nil, List.mem_cons, List.not_mem_nil, or_false, forall_eq_or_imp, forall_eq,
      List.sum_cons, List.sum_nil, one_v, sub_v, mul_v]
    exact ⟨by omega, ⟨a, b, c, d⟩, lo, hi⟩

end GilVerif.Lemmas.C17Float
