/-
  Helper lemmas for Props/C16.lean, second part: Otsu's optimality (invariant of the variance loop),
  histogram totals, duality of erosion / dilation, iteration.
-/
import GilVerif.Lemmas.C16

namespace GilVerif.Lemmas.C16
open GilVerif.Model.C16 GilVerif.Gen.C16

/-! ### prefix sums of the histogram -/

theorem cumW_nonneg (hist : List Nat) (n : Nat) : 0 ≤ cumW hist n := by
  induction n with
  | zero => simp [cumW]
  | succ n ih => simp only [cumW]; omega

theorem cumW_mono (hist : List Nat) (n m : Nat) (h : n ≤ m) : cumW hist n ≤ cumW hist m := by
  induction m with
  | zero => have : n = 0 := by omega
            subst this; exact Int.le_refl _
  | succ m ih =>
    by_cases hn : n = m + 1
    · subst hn; exact Int.le_refl _
    · have := ih (by omega)
      simp only [cumW]; omega

theorem sumTotal_fold (hist : List Nat) (n : Nat) :
    (List.range n).foldl (fun acc (t : Nat) => acc + (t : Int) * ((hist.getD t 0 : Nat) : Int)) 0 = cumS hist n := by
  induction n with
  | zero => simp [cumS]
  | succ n ih => rw [List.range_succ, List.foldl_append, ih]; simp [cumS]

theorem sumTotal_eq (hist : List Nat) : sumTotal hist = cumS hist 256 := sumTotal_fold hist 256

theorem otsuRun_succ (hist : List Nat) (total : Int) (n : Nat) :
    otsuRun hist total (n + 1) = otsuStep total (sumTotal hist) (otsuRun hist total n) n (hist.getD n 0) := by
  unfold otsuRun
  rw [List.range_succ, List.foldl_append]; rfl

theorem otsuThreshold_eq (hist : List Nat) (total : Int) : otsuThreshold hist total = (otsuRun hist total 256).threshold := rfl

/-! ### invariant of the variance loop -/

structure OtsuInv (hist : List Nat) (total : Int) (n : Nat) (st : OtsuState) : Prop where
  live : st.stopped = false → st.weightBack = cumW hist n ∧ st.sumBack = cumS hist n
  dead : st.stopped = true → ∃ s, s < n ∧ cumW hist (s + 1) = total
  ub : ∀ s, s < n → otsuVar hist total s ≤ st.varMax
  nonneg : 0 ≤ st.varMax
  arg : (st.varMax = 0 ∧ st.threshold = 0) ∨
        (∃ T : Nat, st.threshold = (T : Int) ∧ T < n ∧ otsuVar hist total T = st.varMax ∧ 0 < st.varMax
          ∧ ∀ s, s < T → otsuVar hist total s < st.varMax)

theorem otsuInv_zero (hist : List Nat) (total : Int) : OtsuInv hist total 0 {} where
  live := fun _ => ⟨rfl, rfl⟩
  dead := fun h => by cases h
  ub := fun s hs => by omega
  nonneg := Int.le_refl _
  arg := Or.inl ⟨rfl, rfl⟩

theorem otsuVar_of_full (hist : List Nat) (total : Int) (t : Nat) (h : cumW hist (t + 1) = total) : otsuVar hist total t = 0 := by
  unfold otsuVar; simp only; rw [if_pos (Or.inr (by omega))]

theorem otsuInv_step (hist : List Nat) (total : Int) (n : Nat) (st : OtsuState) (hn : n < 256)
    (htot : total = cumW hist 256) (inv : OtsuInv hist total n st) :
    OtsuInv hist total (n + 1) (otsuStep total (cumS hist 256) st n (hist.getD n 0)) := by
  obtain ⟨live, dead, ub, nonneg, arg⟩ := inv
  have arg' : (st.varMax = 0 ∧ st.threshold = 0) ∨
        (∃ T : Nat, st.threshold = (T : Int) ∧ T < n + 1 ∧ otsuVar hist total T = st.varMax ∧ 0 < st.varMax
          ∧ ∀ s, s < T → otsuVar hist total s < st.varMax) := by
    rcases arg with h | ⟨T, h1, h2, h3⟩
    · exact Or.inl h
    · exact Or.inr ⟨T, h1, by omega, h3⟩
  cases hst : st.stopped with
  | true =>
    have e : otsuStep total (cumS hist 256) st n (hist.getD n 0) = st := by simp [otsuStep, hst]
    rw [e]
    obtain ⟨s0, hs0, hfull⟩ := dead hst
    refine ⟨fun h => (by rw [hst] at h; cases h), fun _ => ⟨s0, by omega, hfull⟩, ?_, nonneg, arg'⟩
    intro s hs
    by_cases hsn : s = n
    · subst hsn
      have h1 := cumW_mono hist (s0 + 1) (s + 1) (by omega)
      have h2 := cumW_mono hist (s + 1) 256 (by omega)
      rw [otsuVar_of_full hist total s (by omega)]; exact nonneg
    · exact ub s (by omega)
  | false =>
    obtain ⟨hw, hsb⟩ := live hst
    have hW : cumW hist (n + 1) = st.weightBack + ((hist.getD n 0 : Nat) : Int) := by simp only [cumW]; omega
    have hS : cumS hist (n + 1) = st.sumBack + (n : Int) * ((hist.getD n 0 : Nat) : Int) := by simp only [cumS]; omega
    generalize hist.getD n 0 = ht at *
    by_cases hwb : st.weightBack + (ht : Int) = 0
    · -- `continue`
      have e : otsuStep total (cumS hist 256) st n ht
          = { st with weightBack := st.weightBack + (ht : Int) } := by simp [otsuStep, hst, hwb]
      rw [e]
      have hz : (ht : Int) = 0 := by have := cumW_nonneg hist n; omega
      refine ⟨fun _ => ⟨by simp only; omega, by simp only; rw [hS, hz]; omega⟩, fun h => (by simp only [hst] at h; cases h), ?_, nonneg, arg'⟩
      intro s hs
      by_cases hsn : s = n
      · subst hsn
        have : otsuVar hist total s = 0 := by unfold otsuVar; simp only; rw [if_pos (Or.inl (by omega))]
        rw [this]; exact nonneg
      · exact ub s (by omega)
    · by_cases hwf : total - (st.weightBack + (ht : Int)) = 0
      · -- `break`
        have e : otsuStep total (cumS hist 256) st n ht
            = { st with weightBack := st.weightBack + (ht : Int), stopped := true } := by
          simp [otsuStep, hst, hwb, hwf]
        rw [e]
        refine ⟨fun h => (by simp only at h; cases h), fun _ => ⟨n, by omega, by omega⟩, ?_, nonneg, arg'⟩
        intro s hs
        by_cases hsn : s = n
        · subst hsn
          rw [otsuVar_of_full hist total s (by omega)]; exact nonneg
        · exact ub s (by omega)
      · -- a candidate with two non-empty classes
        have hv : otsuVar hist total n =
            (st.weightBack + (ht : Int)) * (total - (st.weightBack + (ht : Int)))
              * ((st.sumBack + (n : Int) * (ht : Int)) / (st.weightBack + (ht : Int))
                  - (cumS hist 256 - (st.sumBack + (n : Int) * (ht : Int))) / (total - (st.weightBack + (ht : Int))))
              * ((st.sumBack + (n : Int) * (ht : Int)) / (st.weightBack + (ht : Int))
                  - (cumS hist 256 - (st.sumBack + (n : Int) * (ht : Int))) / (total - (st.weightBack + (ht : Int)))) := by
          unfold otsuVar; simp only
          rw [hW, hS, if_neg (by omega)]
        generalize hV : otsuVar hist total n = v at hv
        by_cases hgt : v > st.varMax
        · have e : otsuStep total (cumS hist 256) st n ht
              = { weightBack := st.weightBack + (ht : Int), sumBack := st.sumBack + (n : Int) * (ht : Int),
                  varMax := v, threshold := (n : Int), stopped := false } := by
            simp only [otsuStep, hst, hwb, hwf, Bool.false_eq_true, if_false, ← hv, hgt, if_true]
          rw [e]
          refine ⟨fun _ => ⟨by simp only; omega, by simp only; omega⟩, fun h => (by simp only at h; cases h), ?_, by simp only; omega, ?_⟩
          · intro s hs
            by_cases hsn : s = n
            · subst hsn; simp only; omega
            · have := ub s (by omega); simp only; omega
          · refine Or.inr ⟨n, rfl, by omega, by simp only; omega, by simp only; omega, fun s hs => ?_⟩
            have := ub s hs; simp only; omega
        · have e : otsuStep total (cumS hist 256) st n ht
              = { st with weightBack := st.weightBack + (ht : Int), sumBack := st.sumBack + (n : Int) * (ht : Int) } := by
            simp only [otsuStep, hst, hwb, hwf, Bool.false_eq_true, if_false, ← hv, hgt]
          rw [e]
          refine ⟨fun _ => ⟨by simp only; omega, by simp only; omega⟩, fun h => (by simp only [hst] at h; cases h), ?_, nonneg, arg'⟩
          intro s hs
          by_cases hsn : s = n
          · subst hsn; simp only; omega
          · exact ub s (by omega)

theorem otsuInv_run (hist : List Nat) (total : Int) (htot : total = cumW hist 256) (n : Nat) (hn : n ≤ 256) :
    OtsuInv hist total n (otsuRun hist total n) := by
  induction n with
  | zero => exact otsuInv_zero hist total
  | succ n ih =>
    rw [otsuRun_succ, sumTotal_eq]
    exact otsuInv_step hist total n _ (by omega) htot (ih (by omega))

theorem mul_self_nonneg' (a : Int) : 0 ≤ a * a := by
  rcases Int.le_total 0 a with h | h
  · exact Int.mul_nonneg h h
  · have := Int.mul_nonneg (Int.neg_nonneg_of_nonpos h) (Int.neg_nonneg_of_nonpos h)
    rwa [Int.neg_mul_neg] at this

theorem otsuVar_nonneg (hist : List Nat) (total : Int) (htot : total = cumW hist 256) (t : Nat) (ht : t < 256) :
    0 ≤ otsuVar hist total t := by
  unfold otsuVar; simp only
  split
  · exact Int.le_refl _
  · have h1 := cumW_nonneg hist (t + 1)
    have h2 := cumW_mono hist (t + 1) 256 (by omega)
    rw [Int.mul_assoc]
    exact Int.mul_nonneg (Int.mul_nonneg h1 (by omega)) (mul_self_nonneg' _)

/-! ### size of the between-class variance (exactness of the `double` computation) -/

theorem cumS_seg (hist : List Nat) (n m : Nat) (hnm : n ≤ m) (hm : m ≤ 256) :
    0 ≤ cumS hist m - cumS hist n ∧ cumS hist m - cumS hist n ≤ 255 * (cumW hist m - cumW hist n) := by
  induction m with
  | zero => have : n = 0 := by omega
            subst this; simp
  | succ m ih =>
    by_cases hn : n = m + 1
    · subst hn; simp
    · obtain ⟨i1, i2⟩ := ih (by omega) (by omega)
      simp only [cumS, cumW]
      have hh : (0 : Int) ≤ ((hist.getD m 0 : Nat) : Int) := by omega
      have a : (0 : Int) ≤ (m : Int) * ((hist.getD m 0 : Nat) : Int) := Int.mul_nonneg (by omega) hh
      have b : (m : Int) * ((hist.getD m 0 : Nat) : Int) ≤ 255 * ((hist.getD m 0 : Nat) : Int) :=
        Int.mul_le_mul_of_nonneg_right (by omega) hh
      omega

theorem ediv_bounds (a b : Int) (hb : 0 < b) (h0 : 0 ≤ a) (h1 : a ≤ 255 * b) : 0 ≤ a / b ∧ a / b ≤ 255 := by
  refine ⟨Int.ediv_nonneg h0 (by omega), ?_⟩
  apply Int.ediv_le_of_le_mul hb
  omega

theorem sq_le_of_abs_le (d : Int) (h1 : -255 ≤ d) (h2 : d ≤ 255) : d * d ≤ 255 * 255 := by
  rcases Int.le_total 0 d with h | h
  · exact Int.mul_le_mul h2 h2 h (by omega)
  · have := Int.mul_le_mul (show -d ≤ 255 by omega) (show -d ≤ 255 by omega) (show 0 ≤ -d by omega) (by omega)
    rwa [Int.neg_mul_neg] at this

theorem otsuVar_le (hist : List Nat) (total : Int) (htot : total = cumW hist 256) (t : Nat) (ht : t < 256) :
    otsuVar hist total t ≤ total * total * (255 * 255) := by
  have hT0 : 0 ≤ total := by rw [htot]; exact cumW_nonneg hist 256
  unfold otsuVar; simp only
  split
  · exact Int.mul_nonneg (Int.mul_nonneg hT0 hT0) (by omega)
  · rename_i hne
    have w0 := cumW_nonneg hist (t + 1)
    have w1 := cumW_mono hist (t + 1) 256 (by omega)
    have s1 := cumS_seg hist 0 (t + 1) (by omega) (by omega)
    have s2 := cumS_seg hist (t + 1) 256 (by omega) (by omega)
    simp only [cumS, cumW, Int.sub_zero] at s1
    have hwb : 0 < cumW hist (t + 1) := by omega
    have hwf : 0 < total - cumW hist (t + 1) := by omega
    have mb := ediv_bounds (cumS hist (t + 1)) (cumW hist (t + 1)) hwb s1.1 s1.2
    have mf := ediv_bounds (cumS hist 256 - cumS hist (t + 1)) (total - cumW hist (t + 1)) hwf s2.1 (by rw [htot]; exact s2.2)
    generalize cumS hist (t + 1) / cumW hist (t + 1) = a at *
    generalize (cumS hist 256 - cumS hist (t + 1)) / (total - cumW hist (t + 1)) = b at *
    have hd := sq_le_of_abs_le (a - b) (by omega) (by omega)
    have hww : cumW hist (t + 1) * (total - cumW hist (t + 1)) ≤ total * total :=
      Int.mul_le_mul (by omega) (by omega) (by omega) hT0
    rw [Int.mul_assoc]
    exact Int.mul_le_mul hww hd (mul_self_nonneg' _) (Int.mul_nonneg hT0 hT0)

/-! ### histogram totals -/

theorem cumW_set (hist : List Nat) (i : Nat) (hi : i < hist.length) (n : Nat) :
    cumW (hist.set i (hist.getD i 0 + 1)) n = cumW hist n + (if i < n then 1 else 0) := by
  induction n with
  | zero => simp [cumW]
  | succ n ih =>
    simp only [cumW, ih]
    by_cases h : i = n
    · subst h
      have : (hist.set i (hist.getD i 0 + 1)).getD i 0 = hist.getD i 0 + 1 := by
        simp [List.getD_eq_getElem?_getD, hi]
      rw [this]; simp only [Nat.lt_irrefl, if_false, Nat.lt_succ_self, if_true]; omega
    · have : (hist.set i (hist.getD i 0 + 1)).getD n 0 = hist.getD n 0 := by
        simp [List.getD_eq_getElem?_getD, h]
      rw [this]
      by_cases h2 : i < n
      · rw [if_pos h2, if_pos (by omega)]; omega
      · rw [if_neg h2, if_neg (by omega)]; omega

theorem cumW_replicate (m n : Nat) : cumW (List.replicate m 0) n = 0 := by
  induction n with
  | zero => rfl
  | succ n ih =>
    simp only [cumW, ih]
    have : (List.replicate m (0 : Nat)).getD n 0 = 0 := by
      rw [List.getD_eq_getElem?_getD, List.getElem?_replicate]
      split <;> rfl
    rw [this]; rfl

theorem histInc_total (hist h' : List Nat) (i : Int) (hl : hist.length = 256) (h : histInc hist i = .ok h') :
    h'.length = 256 ∧ cumW h' 256 = cumW hist 256 + 1 := by
  unfold histInc at h
  split at h
  · rename_i hr
    injection h with h; subst h
    refine ⟨by simp [hl], ?_⟩
    rw [cumW_set hist i.toNat (by omega) 256, if_pos (by omega)]
  · cases h

theorem foldlM_inv {α β ε : Type} (step : β → α → Except ε β) (I : β → Nat → Prop)
    (hstep : ∀ b a b' k, I b k → step b a = .ok b' → I b' (k + 1)) (l : List α) (init r : β) (k : Nat)
    (h0 : I init k) (h : l.foldlM step init = .ok r) : I r (k + l.length) := by
  induction l generalizing init k with
  | nil => simp only [List.foldlM_nil] at h; injection h with h; subst h; simpa using h0
  | cons a l ih =>
    rw [List.foldlM_cons] at h
    cases hs : step init a with
    | error e => rw [hs] at h; cases h
    | ok b' =>
      rw [hs] at h
      have := ih b' (k + 1) (hstep init a b' k h0 hs) h
      rw [List.length_cons]; rw [show k + (l.length + 1) = k + 1 + l.length by omega]; exact this

theorem buildHist_total (c : Ch) (tm : Bool) (mn mx : Int) (pixels : List Int) (hist : List Nat)
    (h : buildHist c tm mn mx pixels = .ok hist) : hist.length = 256 ∧ cumW hist 256 = (pixels.length : Int) := by
  unfold buildHist at h
  have := foldlM_inv _ (fun (b : List Nat) (k : Nat) => b.length = 256 ∧ cumW b 256 = (k : Int)) ?_ pixels _ hist 0
    ⟨List.length_replicate, by rw [cumW_replicate]; rfl⟩ h
  · simpa using this
  · intro b a b' k ⟨hl, hc⟩ hs
    split at hs
    · cases hi : otsuIndex c tm a mn mx with
      | error e => rw [hi] at hs; cases hs
      | ok i =>
        rw [hi] at hs
        have := histInc_total b b' i hl hs
        exact ⟨this.1, by rw [this.2, hc]; omega⟩
    · have := histInc_total b b' a hl hs
      exact ⟨this.1, by rw [this.2, hc]; omega⟩

/-! ### histogram contents -/

theorem histInc_getD (hist h' : List Nat) (i : Int) (hl : hist.length = 256) (h : histInc hist i = .ok h') (j : Nat) :
    0 ≤ i ∧ i < 256 ∧ h'.length = 256 ∧ h'.getD j 0 = hist.getD j 0 + (if (j : Int) = i then 1 else 0) := by
  unfold histInc at h
  split at h
  · rename_i hr
    injection h with h; subst h
    refine ⟨hr.1, hr.2, by simp [hl], ?_⟩
    by_cases hj : (j : Int) = i
    · have e : i.toNat = j := by omega
      rw [if_pos hj, e]
      simp [List.getD_eq_getElem?_getD, show j < hist.length by omega]
    · have e : i.toNat ≠ j := by omega
      rw [if_neg hj]
      simp [List.getD_eq_getElem?_getD, e]
  · cases h

theorem foldlM_inv_prefix {α β ε : Type} (step : β → α → Except ε β) (I : β → List α → Prop)
    (hstep : ∀ b a b' pre, I b pre → step b a = .ok b' → I b' (pre ++ [a])) (l : List α) (init r : β) (pre : List α)
    (h0 : I init pre) (h : l.foldlM step init = .ok r) : I r (pre ++ l) := by
  induction l generalizing init pre with
  | nil => simp only [List.foldlM_nil] at h; injection h with h; subst h; simpa using h0
  | cons a l ih =>
    rw [List.foldlM_cons] at h
    cases hs : step init a with
    | error e => rw [hs] at h; cases h
    | ok b' =>
      rw [hs] at h
      have := ih b' (pre ++ [a]) (hstep init a b' pre h0 hs) h
      simpa using this

/-- the bin `otsu_impl` counts a pixel in -/
def binOf (c : Ch) (tm : Bool) (mn mx px : Int) : Except UB Int := if c.scans then otsuIndex c tm px mn mx else .ok px

/-- pixel `px` is counted in bin `j` -/
def inBin (c : Ch) (tm : Bool) (mn mx : Int) (j : Nat) (px : Int) : Bool :=
  match binOf c tm mn mx px with
  | .ok i => decide (i = (j : Int))
  | .error _ => false

theorem buildHist_counts (c : Ch) (tm : Bool) (mn mx : Int) (pixels : List Int) (hist : List Nat)
    (h : buildHist c tm mn mx pixels = .ok hist) (j : Nat) :
    hist.getD j 0 = (pixels.filter (inBin c tm mn mx j)).length
    ∧ ∀ px ∈ pixels, ∃ i : Int, binOf c tm mn mx px = .ok i ∧ 0 ≤ i ∧ i < 256 := by
  unfold buildHist at h
  have := foldlM_inv_prefix _ (fun (b : List Nat) (pre : List Int) => b.length = 256
      ∧ b.getD j 0 = (pre.filter (inBin c tm mn mx j)).length
      ∧ ∀ px ∈ pre, ∃ i : Int, binOf c tm mn mx px = .ok i ∧ 0 ≤ i ∧ i < 256) ?_ pixels _ hist []
    ⟨List.length_replicate, by
      rw [List.getD_eq_getElem?_getD, List.getElem?_replicate]; split <;> rfl, by simp⟩ h
  · simp only [List.nil_append] at this; exact ⟨this.2.1, this.2.2⟩
  · intro b a b' pre ⟨hl, hc, hall⟩ hs
    have key : ∀ i : Int, binOf c tm mn mx a = .ok i → histInc b i = .ok b' →
        b'.length = 256 ∧ b'.getD j 0 = ((pre ++ [a]).filter (inBin c tm mn mx j)).length
        ∧ ∀ px ∈ pre ++ [a], ∃ i : Int, binOf c tm mn mx px = .ok i ∧ 0 ≤ i ∧ i < 256 := by
      intro i hbin hinc
      obtain ⟨h0, h1, hl', hg⟩ := histInc_getD b b' i hl hinc j
      refine ⟨hl', ?_, ?_⟩
      · rw [hg, hc, List.filter_append, List.length_append]
        congr 1
        have hin : inBin c tm mn mx j a = decide (i = (j : Int)) := by simp only [inBin, hbin]
        simp only [List.filter_cons, List.filter_nil, hin]
        by_cases hji : (j : Int) = i
        · simp [hji]
        · have : ¬ i = (j : Int) := fun e => hji e.symm
          simp [hji, this]
      · intro px hpx
        rcases List.mem_append.mp hpx with hp | hp
        · exact hall px hp
        · simp only [List.mem_singleton] at hp; subst hp; exact ⟨i, hbin, h0, h1⟩
    split at hs
    · rename_i hsc
      cases hi : otsuIndex c tm a mn mx with
      | error e => rw [hi] at hs; cases hs
      | ok i =>
        rw [hi] at hs
        exact key i (by unfold binOf; rw [if_pos hsc]; exact hi) hs
    · rename_i hsc
      exact key a (by unfold binOf; rw [if_neg hsc]) hs

/-! ### threshold_adaptive, mean method: two truncating passes stay within [M − 2, M] of the box mean -/

theorem rows_trunc_bound (k : Int) (rows : List (Int × Int)) (hrow : ∀ p ∈ rows, k * p.2 ≤ p.1 ∧ p.1 ≤ k * p.2 + k) :
    k * (rows.map (·.2)).sum ≤ (rows.map (·.1)).sum ∧ (rows.map (·.1)).sum ≤ k * (rows.map (·.2)).sum + k * (rows.length : Int) := by
  induction rows with
  | nil => simp
  | cons p ps ih =>
    have h1 := hrow p (List.mem_cons_self)
    have h2 := ih (fun q hq => hrow q (List.mem_cons_of_mem _ hq))
    simp only [List.map_cons, List.sum_cons, List.length_cons]
    rw [Int.mul_add, show ((ps.length + 1 : Nat) : Int) = (ps.length : Int) + 1 by omega, Int.mul_add, Int.mul_one]
    omega

/-! ### row-major grids -/

theorem flatten_grid (w : Nat) (g : Nat → Nat → Int) (h : Nat) :
    (((List.range h).map fun (y : Nat) => (List.range w).map fun (x : Nat) => g x y).flatten).length = h * w
    ∧ ∀ x y, x < w → y < h →
        (((List.range h).map fun (y : Nat) => (List.range w).map fun (x : Nat) => g x y).flatten).getD (y * w + x) 0 = g x y := by
  induction h with
  | zero => exact ⟨by simp, fun x y _ hy => by omega⟩
  | succ h ih =>
    rw [List.range_succ, List.map_append, List.flatten_append]
    simp only [List.map_cons, List.map_nil, List.flatten_cons, List.flatten_nil, List.append_nil]
    refine ⟨by rw [List.length_append, ih.1, List.length_map, List.length_range, Nat.succ_mul], fun x y hx hy => ?_⟩
    by_cases hyh : y < h
    · have hb : (y + 1) * w ≤ h * w := Nat.mul_le_mul_right w (by omega)
      rw [Nat.succ_mul] at hb
      rw [List.getD_eq_getElem?_getD, List.getElem?_append_left (by rw [ih.1]; omega), ← List.getD_eq_getElem?_getD]
      exact ih.2 x y hx hyh
    · have hy' : y = h := by omega
      subst hy'
      rw [List.getD_eq_getElem?_getD, List.getElem?_append_right (by rw [ih.1]; omega), ih.1]
      rw [show y * w + x - y * w = x by omega, List.getElem?_map, List.getElem?_range hx]
      rfl

/-! ### writes through a view of arbitrary geometry -/

theorem mem_gridPts (w h : Nat) (p : Nat × Nat) : p ∈ gridPts w h ↔ p.1 < w ∧ p.2 < h := by
  unfold gridPts
  simp only [List.mem_flatMap, List.mem_map, List.mem_range]
  constructor
  · rintro ⟨y, hy, x, hx, rfl⟩; exact ⟨hx, hy⟩
  · rintro ⟨h1, h2⟩; exact ⟨p.2, h2, p.1, h1, rfl⟩

theorem writeCells_frame (addr : Nat × Nat → Nat) (vals : Nat × Nat → Int) (pts : List (Nat × Nat)) (mem : Nat → Int) (a : Nat)
    (h : ∀ p ∈ pts, addr p ≠ a) : writeCells addr vals pts mem a = mem a := by
  unfold writeCells
  induction pts generalizing mem with
  | nil => rfl
  | cons q l ih =>
    rw [List.foldl_cons, ih _ (fun p hp => h p (List.mem_cons_of_mem _ hp))]
    have := h q List.mem_cons_self
    show (if a = addr q then vals q else mem a) = mem a
    rw [if_neg (fun e => this e.symm)]

theorem writeCells_value (addr : Nat × Nat → Nat) (vals : Nat × Nat → Int) (pts : List (Nat × Nat)) (mem : Nat → Int)
    (inj : ∀ p q, p ∈ pts → q ∈ pts → addr p = addr q → p = q) (p : Nat × Nat) (hp : p ∈ pts) :
    writeCells addr vals pts mem (addr p) = vals p := by
  induction pts generalizing mem with
  | nil => cases hp
  | cons q l ih =>
    have inj' : ∀ p q, p ∈ l → q ∈ l → addr p = addr q → p = q :=
      fun a b ha hb => inj a b (List.mem_cons_of_mem _ ha) (List.mem_cons_of_mem _ hb)
    have unfold1 : writeCells addr vals (q :: l) mem = writeCells addr vals l (fun a => if a = addr q then vals q else mem a) := rfl
    rw [unfold1]
    by_cases hin : p ∈ l
    · exact ih _ inj' hin
    · have hpq : p = q := by
        rcases List.mem_cons.mp hp with e | e
        · exact e
        · exact absurd e hin
      subst hpq
      rw [writeCells_frame addr vals l _ (addr p) (fun r hr e => hin (by
        have := inj r p (List.mem_cons_of_mem _ hr) List.mem_cons_self e
        rw [← this]; exact hr))]
      simp

/-! ### duality of erosion and dilation under negation (complement) -/

theorem maxOver_compl (K init : Int) (l : List Int) : maxOver (K - init) (l.map (fun v => K - v)) = K - minOver init l := by
  unfold maxOver minOver
  induction l generalizing init with
  | nil => rfl
  | cons a l ih =>
    simp only [List.map_cons, List.foldl_cons]
    have : max (K - init) (K - a) = K - (min init a) := by omega
    rw [this]; exact ih _

theorem minOver_compl (K init : Int) (l : List Int) : minOver (K - init) (l.map (fun v => K - v)) = K - maxOver init l := by
  unfold maxOver minOver
  induction l generalizing init with
  | nil => rfl
  | cons a l ih =>
    simp only [List.map_cons, List.foldl_cons]
    have : min (K - init) (K - a) = K - (max init a) := by omega
    rw [this]; exact ih _

theorem iterate_add {α : Type} (f : α → α) (m n : Nat) (a : α) : iterate f (m + n) a = iterate f n (iterate f m a) := by
  induction m generalizing a with
  | zero => simp [iterate]
  | succ m ih => rw [show m + 1 + n = (m + n) + 1 by omega]; simp only [iterate]; exact ih _

end GilVerif.Lemmas.C16
