/-
  Helper lemmas for Props/C11, part 3: the BMP reader in the `Tr` / `NF` logics of Lemmas/C11Safe.
-/
import GilVerif.Lemmas.C11Safe

namespace GilVerif.Lemmas.C11
open GilVerif.Model.C11

theorem wrapS32_bounds (x : Int) : -2147483648 ≤ wrapS 32 x ∧ wrapS 32 x ≤ 2147483647 := by
  unfold wrapS
  have h1 : ((2 : Int) ^ 32) = 4294967296 := by norm_num
  have h2 : ((2 : Int) ^ (32 - 1)) = 2147483648 := by norm_num
  rw [h1, h2]
  dsimp only
  split <;> omega

/-- what `read_header` guarantees -/
structure BmpHdr (i : Bmp.Info) : Prop where
  w1 : 1 ≤ i.width
  w2 : i.width ≤ 2147483647
  h1 : 1 ≤ i.height
  b0 : 0 ≤ i.bpp
  b1 : i.bpp ≤ 65535
  wb : i.width * i.bpp ≤ 2147483616

theorem tr_bmp_readHeader0 {t : Bool} : Tr t Bmp.readHeader0 (fun i => i.width ≤ 2147483647 ∧ 0 ≤ i.bpp ∧ i.bpp ≤ 65535) := by
  unfold Bmp.readHeader0
  apply tr_bind tr_readU16; intro magic _
  split
  · exact tr_ioErr
  · apply tr_bind tr_readU32; intro _ _
    apply tr_bind tr_readU16; intro _ _
    apply tr_bind tr_readU16; intro _ _
    apply tr_bind tr_readU32; intro offset _
    apply tr_bind tr_readU32; intro hs _
    split
    · apply tr_bind tr_readU32; intro w0 _
      apply tr_bind tr_readU32; intro h0 _
      dsimp only
      split
      · exact tr_ioErr
      · apply tr_bind tr_readU16; intro _ _
        apply tr_bind tr_readU16; intro bpp hb
        apply tr_bind tr_readU32; intro comp _
        apply tr_bind tr_readU32; intro _ _
        apply tr_bind tr_readU32; intro _ _
        apply tr_bind tr_readU32; intro _ _
        apply tr_bind tr_readU32; intro nc _
        apply tr_bind tr_readU32; intro _ _
        exact tr_pure ⟨(wrapS32_bounds w0).2, hb.1, hb.2⟩
    · split
      · apply tr_bind tr_readU16; intro w hw
        apply tr_bind tr_readU16; intro h _
        apply tr_bind tr_readU16; intro _ _
        apply tr_bind tr_readU16; intro bpp hb
        exact tr_pure ⟨by show w ≤ 2147483647; omega, hb.1, hb.2⟩
      · split
        · apply tr_bind tr_readU32; intro w0 _
          apply tr_bind tr_readU32; intro h0 _
          dsimp only
          apply tr_bind tr_readU16; intro _ _
          apply tr_bind tr_readU16; intro bpp hb
          apply tr_bind tr_readU32; intro comp _
          apply tr_bind tr_readU32; intro _ _
          apply tr_bind tr_readU32; intro _ _
          apply tr_bind tr_readU32; intro _ _
          apply tr_bind tr_readU32; intro nc _
          apply tr_bind tr_readU32; intro _ _
          exact tr_pure ⟨(wrapS32_bounds w0).2, hb.1, hb.2⟩
        · exact tr_ioErr

theorem tr_bmp_readHeader {t : Bool} : Tr t Bmp.readHeader BmpHdr := by
  unfold Bmp.readHeader
  apply tr_bind tr_bmp_readHeader0; intro i hi
  split
  · exact tr_ioErr
  · split
    · exact tr_ioErr
    · exact tr_pure ⟨by omega, hi.1, by omega, hi.2.1, hi.2.2, by omega⟩


/-! ### palette -/

theorem tr_bmp_readPaletteLoop {t : Bool} (four : Bool) : ∀ (n : Nat) (acc : Bmp.Palette), Tr t (Bmp.readPaletteLoop four n acc) (fun _ => True)
  | 0, _ => by unfold Bmp.readPaletteLoop; exact tr_pure trivial
  | n + 1, acc => by
    unfold Bmp.readPaletteLoop
    apply tr_bind tr_readU8; intro b _
    apply tr_bind tr_readU8; intro g _
    apply tr_bind tr_readU8; intro r _
    apply @tr_bind _ _ t _ _ (fun _ => True)
    · unfold Bmp.skipByteIf
      split
      · apply tr_bind tr_readU8; intro _ _; exact tr_pure trivial
      · exact tr_pure trivial
    · intro _ _
      exact tr_bmp_readPaletteLoop four n _

theorem tr_bmp_readPalette {t : Bool} (i : Bmp.Info) : Tr t (Bmp.readPalette i) (fun pal => 256 ≤ pal.length) := by
  unfold Bmp.readPalette
  dsimp only
  apply tr_ite
  · intro _; exact tr_allocErr
  · intro _
    apply tr_bind (tr_alloc _); intro _ _
    apply tr_bind (tr_bmp_readPaletteLoop _ _ _); intro pal _
    apply tr_pure
    split
    · rw [List.length_append, List.length_replicate]; omega
    · omega

theorem palPixel_length (dst : Dst) (p : Nat × Nat × Nat × Nat) : (Bmp.palPixel dst p).length = outCh dst := by
  unfold Bmp.palPixel outCh
  cases dst <;> rfl

theorem tr_bmp_lookupAll (site why : String) (pal : Bmp.Palette) (dst : Dst) (declared : Int) :
    ∀ (cs acc : List Nat), (∀ c ∈ cs, c < pal.length) →
      Tr false (Bmp.lookupAll site why pal dst declared cs acc) (fun r => r.length = acc.length + cs.length * outCh dst)
  | [], acc, _ => by unfold Bmp.lookupAll; exact tr_pure (by simp)
  | c :: cs, acc, h => by
    unfold Bmp.lookupAll
    have hc : c < pal.length := h c (List.mem_cons_self ..)
    split
    · rename_i p hp
      apply tr_bind (tr_taintIf _ _); intro _ _
      · refine tr_mono (tr_bmp_lookupAll site why pal dst declared cs _ (fun c' hc' => h c' (List.mem_cons_of_mem _ hc'))) (fun r hr => ?_)
        rw [hr, List.length_append, List.length_reverse, palPixel_length, List.length_cons]
        ring
    · rename_i hnone
      exfalso
      rw [List.getElem?_eq_none_iff] at hnone
      omega

theorem mirror8_lt (b : Nat) : Bmp.mirror8 b < 256 := by unfold Bmp.mirror8; omega

theorem manip_length (bpp : Int) (row : List Nat) : (Bmp.manip bpp row).length = row.length := by
  unfold Bmp.manip; split <;> [rfl; (split <;> simp)]

theorem manip_bytes (bpp : Int) {row : List Nat} (h : Bytes row) : Bytes (Bmp.manip bpp row) := by
  unfold Bmp.manip
  split
  · exact h
  · split
    · intro x hx
      rw [List.mem_map] at hx
      obtain ⟨b, hb, rfl⟩ := hx
      have := h b hb
      omega
    · intro x hx
      rw [List.mem_map] at hx
      obtain ⟨b, _, rfl⟩ := hx
      exact mirror8_lt b

theorem rowIndices_lt (bpp : Int) {row : List Nat} (h : Bytes row) : ∀ c ∈ Bmp.rowIndices bpp row, c < 256 := by
  unfold Bmp.rowIndices
  split
  · exact h
  · split
    · intro c hc
      rw [List.mem_flatMap] at hc
      obtain ⟨b, hb, hc⟩ := hc
      have := h b hb
      simp at hc
      omega
    · intro c hc
      rw [List.mem_flatMap] at hc
      obtain ⟨b, hb, hc⟩ := hc
      simp at hc
      omega

/-! ### the row loop shared by the uncompressed readers -/

/-- invariant of the persistent row buffer -/
def RowInv (pitch : Int) (row : List Nat) : Prop := row.length = pitch.toNat ∧ Bytes row

theorem tr_bmp_rowsLoop {t : Bool} (i : Bmp.Info) (pitch : Int) (st : Settings) (y0 : Int) (site : String)
    (rowFn : List Nat → M (List Nat × List Nat)) {vw vh : Int} {nch : Nat}
    (hfn : ∀ row, RowInv pitch row → Tr t (rowFn row) (fun r => (r.1.length : Int) ≤ vw * nch ∧ RowInv pitch r.2)) :
    ∀ (n : Nat) (y : Int) (row : List Nat) (d : Dest), RowInv pitch row → Shape d vw vh nch → 0 ≤ y → y + n ≤ vh →
      Tr t (Bmp.rowsLoop i pitch st y0 site rowFn n y row d) (fun d' => Shape d' vw vh nch)
  | 0, _, _, d, _, hd, _, _ => by unfold Bmp.rowsLoop; exact tr_pure hd
  | n + 1, y, row, d, hrow, hd, hy0, hy1 => by
    unfold Bmp.rowsLoop
    apply tr_bind (tr_seekSet _); intro _ _
    apply tr_bind (tr_readInto site row pitch.toNat (by rw [hrow.1])); intro row' hrow'
    apply tr_bind (hfn row' ⟨by rw [hrow'.1]; exact hrow.1, hrow'.2 hrow.2⟩); intro r hr
    obtain ⟨px, row''⟩ := r
    dsimp only at hr ⊢
    apply tr_bind (tr_setRow site d y px hd hy0 (by push_cast at hy1; omega) hr.1); intro d' hd'
    exact tr_bmp_rowsLoop i pitch st y0 site rowFn hfn n (y + 1) row'' d' hr.2 hd' (by omega) (by push_cast at hy1 ⊢; omega)


/-- pixels per byte of a palette row -/
def ppbOf (bpp : Int) : Int := if bpp == 8 then 1 else if bpp == 4 then 2 else 8

theorem le_mul_outCh {len : Nat} {dimx vw : Int} {dst : Dst} (hd : RgbDst dst) (hl : (len : Int) ≤ dimx) (hvw : dimx ≤ vw) :
    ((len * outCh dst : Nat) : Int) ≤ vw * dst.nch := by
  rw [outCh_eq_nch hd]
  push_cast
  have : (0 : Int) ≤ dst.nch := Int.natCast_nonneg _
  nlinarith

theorem tr_bmp_paletteRowPixels (site : String) (i : Bmp.Info) (st : Settings) (dimx : Int) (pal : Bmp.Palette) (row : List Nat)
    {vw : Int} (hrow : Bytes row) (hpal : 256 ≤ pal.length) (hdst : RgbDst st.dst)
    (hx0 : 0 ≤ st.x0) (hdx : 0 ≤ dimx) (hvw : dimx ≤ vw) (hfit : st.x0 + dimx ≤ (row.length : Int) * ppbOf i.bpp) :
    Tr false (Bmp.paletteRowPixels site i st dimx pal row) (fun px => (px.length : Int) ≤ vw * st.dst.nch) := by
  unfold Bmp.paletteRowPixels
  dsimp only
  have hn : (0 : Int) ≤ st.dst.nch := Int.natCast_nonneg _
  apply tr_ite
  · intro h; omega
  · intro _
    apply tr_ite
    · intro _; apply tr_pure; simp; nlinarith
    · intro _
      apply tr_ite
      · intro hc
        unfold ppbOf at hfit
        simp only [Int.ofNat_eq_natCast] at hc
        omega
      · intro _
        refine tr_mono (tr_bmp_lookupAll _ _ pal st.dst _ _ [] (fun c hc => ?_)) (fun r hr => ?_)
        · have := rowIndices_lt i.bpp hrow c (List.mem_of_mem_drop (List.mem_of_mem_take hc))
          omega
        · rw [hr]
          simp only [List.length_nil, Nat.zero_add]
          apply le_mul_outCh hdst _ hvw
          have : (List.take dimx.toNat (List.drop st.x0.toNat (Bmp.rowIndices i.bpp row))).length ≤ dimx.toNat := List.length_take_le _ _
          have h2 : ((dimx.toNat : Nat) : Int) = dimx := Int.toNat_of_nonneg hdx
          omega

theorem toNat_rows {dimy vh : Int} (hdy : 0 ≤ dimy) (hvh : dimy ≤ vh) : (0 : Int) + (dimy.toNat : Nat) ≤ vh := by
  rw [Int.toNat_of_nonneg hdy]; omega

theorem tr_bmp_readPaletteImage (i : Bmp.Info) (pitch : Int) (st : Settings) (dimx dimy : Int) (d : Dest) {vw vh : Int}
    (hp : 1 ≤ pitch) (hwp : i.width ≤ pitch * ppbOf i.bpp) (hdst : RgbDst st.dst)
    (hr : Region st.x0 st.y0 dimx dimy i.width i.height vw vh) (hd : Shape d vw vh st.dst.nch) :
    Tr false (Bmp.readPaletteImage i pitch st dimx dimy d) (fun d' => Shape d' vw vh st.dst.nch) := by
  unfold Bmp.readPaletteImage
  apply tr_bind (tr_bmp_readPalette i); intro pal hpal
  apply tr_bind (tr_alloc _); intro _ _
  dsimp only
  rw [if_neg (by intro hc; have : pitch = 0 := by simpa using hc.1
                 omega)]
  refine tr_bmp_rowsLoop i pitch st st.y0 _ _ (fun row hrow => ?_) _ 0 _ d ⟨List.length_replicate, bytes_replicate _⟩ hd (le_refl _)
    (toNat_rows hr.hdy hr.hvh)
  have hrow' : Bytes (Bmp.manip i.bpp row) := manip_bytes _ hrow.2
  have hlen : ((Bmp.manip i.bpp row).length : Int) = pitch := by
    rw [manip_length, hrow.1]; exact Int.toNat_of_nonneg (by omega)
  apply tr_bind (tr_bmp_paletteRowPixels _ i st dimx pal _ hrow' hpal hdst hr.hx0 hr.hdx hr.hvw (by
    rw [hlen]; have := hr.hxw; omega)); intro px hpx
  exact tr_pure ⟨hpx, by rw [manip_length]; exact hrow.1, hrow'⟩


/-! ### 15/16-bit rows -/

theorem bit_step {x m : Nat} (hm : 0 < m) (h1 : x % m = 0) (h2 : x / m % 2 = 0) : x % (2 * m) = 0 := by
  obtain ⟨q, hq⟩ := Nat.dvd_of_mod_eq_zero h1
  subst hq
  rw [Nat.mul_div_cancel_left _ hm] at h2
  obtain ⟨r, hr⟩ := Nat.dvd_of_mod_eq_zero h2
  subst hr
  have : m * (2 * r) = 2 * m * r := by ring
  rw [this]
  exact Nat.mul_mod_right _ _

theorem trailingZeros32_lt {x : Nat} (h0 : x ≠ 0) (h1 : x < 4294967296) : Bmp.trailingZeros32 x < 32 := by
  unfold Bmp.trailingZeros32
  rw [if_neg (by simpa using h0)]
  cases hf : List.find? (fun k => x / 2 ^ k % 2 == 1) (List.range 32) with
  | some k =>
    have := List.mem_of_find?_eq_some hf
    rw [List.mem_range] at this
    simpa using this
  | none =>
    exfalso
    rw [List.find?_eq_none] at hf
    have hn : ∀ k, k < 32 → ¬ (x / 2 ^ k % 2 = 1) := fun k hk => by
      have := hf k (List.mem_range.mpr hk)
      simpa using this
    have b0 : x / 1 % 2 = 0 := by have := hn 0 (by simp); simpa using this
    have b1 : x / 2 % 2 = 0 := by have := hn 1 (by simp); simpa using this
    have b2 : x / 4 % 2 = 0 := by have := hn 2 (by simp); simpa using this
    have b3 : x / 8 % 2 = 0 := by have := hn 3 (by simp); simpa using this
    have b4 : x / 16 % 2 = 0 := by have := hn 4 (by simp); simpa using this
    have b5 : x / 32 % 2 = 0 := by have := hn 5 (by simp); simpa using this
    have b6 : x / 64 % 2 = 0 := by have := hn 6 (by simp); simpa using this
    have b7 : x / 128 % 2 = 0 := by have := hn 7 (by simp); simpa using this
    have b8 : x / 256 % 2 = 0 := by have := hn 8 (by simp); simpa using this
    have b9 : x / 512 % 2 = 0 := by have := hn 9 (by simp); simpa using this
    have b10 : x / 1024 % 2 = 0 := by have := hn 10 (by simp); simpa using this
    have b11 : x / 2048 % 2 = 0 := by have := hn 11 (by simp); simpa using this
    have b12 : x / 4096 % 2 = 0 := by have := hn 12 (by simp); simpa using this
    have b13 : x / 8192 % 2 = 0 := by have := hn 13 (by simp); simpa using this
    have b14 : x / 16384 % 2 = 0 := by have := hn 14 (by simp); simpa using this
    have b15 : x / 32768 % 2 = 0 := by have := hn 15 (by simp); simpa using this
    have b16 : x / 65536 % 2 = 0 := by have := hn 16 (by simp); simpa using this
    have b17 : x / 131072 % 2 = 0 := by have := hn 17 (by simp); simpa using this
    have b18 : x / 262144 % 2 = 0 := by have := hn 18 (by simp); simpa using this
    have b19 : x / 524288 % 2 = 0 := by have := hn 19 (by simp); simpa using this
    have b20 : x / 1048576 % 2 = 0 := by have := hn 20 (by simp); simpa using this
    have b21 : x / 2097152 % 2 = 0 := by have := hn 21 (by simp); simpa using this
    have b22 : x / 4194304 % 2 = 0 := by have := hn 22 (by simp); simpa using this
    have b23 : x / 8388608 % 2 = 0 := by have := hn 23 (by simp); simpa using this
    have b24 : x / 16777216 % 2 = 0 := by have := hn 24 (by simp); simpa using this
    have b25 : x / 33554432 % 2 = 0 := by have := hn 25 (by simp); simpa using this
    have b26 : x / 67108864 % 2 = 0 := by have := hn 26 (by simp); simpa using this
    have b27 : x / 134217728 % 2 = 0 := by have := hn 27 (by simp); simpa using this
    have b28 : x / 268435456 % 2 = 0 := by have := hn 28 (by simp); simpa using this
    have b29 : x / 536870912 % 2 = 0 := by have := hn 29 (by simp); simpa using this
    have b30 : x / 1073741824 % 2 = 0 := by have := hn 30 (by simp); simpa using this
    have b31 : x / 2147483648 % 2 = 0 := by have := hn 31 (by simp); simpa using this
    have c0 : x % 1 = 0 := Nat.mod_one x
    have c1 : x % 2 = 0 := bit_step (by decide) c0 b0
    have c2 : x % 4 = 0 := bit_step (by decide) c1 b1
    have c3 : x % 8 = 0 := bit_step (by decide) c2 b2
    have c4 : x % 16 = 0 := bit_step (by decide) c3 b3
    have c5 : x % 32 = 0 := bit_step (by decide) c4 b4
    have c6 : x % 64 = 0 := bit_step (by decide) c5 b5
    have c7 : x % 128 = 0 := bit_step (by decide) c6 b6
    have c8 : x % 256 = 0 := bit_step (by decide) c7 b7
    have c9 : x % 512 = 0 := bit_step (by decide) c8 b8
    have c10 : x % 1024 = 0 := bit_step (by decide) c9 b9
    have c11 : x % 2048 = 0 := bit_step (by decide) c10 b10
    have c12 : x % 4096 = 0 := bit_step (by decide) c11 b11
    have c13 : x % 8192 = 0 := bit_step (by decide) c12 b12
    have c14 : x % 16384 = 0 := bit_step (by decide) c13 b13
    have c15 : x % 32768 = 0 := bit_step (by decide) c14 b14
    have c16 : x % 65536 = 0 := bit_step (by decide) c15 b15
    have c17 : x % 131072 = 0 := bit_step (by decide) c16 b16
    have c18 : x % 262144 = 0 := bit_step (by decide) c17 b17
    have c19 : x % 524288 = 0 := bit_step (by decide) c18 b18
    have c20 : x % 1048576 = 0 := bit_step (by decide) c19 b19
    have c21 : x % 2097152 = 0 := bit_step (by decide) c20 b20
    have c22 : x % 4194304 = 0 := bit_step (by decide) c21 b21
    have c23 : x % 8388608 = 0 := bit_step (by decide) c22 b22
    have c24 : x % 16777216 = 0 := bit_step (by decide) c23 b23
    have c25 : x % 33554432 = 0 := bit_step (by decide) c24 b24
    have c26 : x % 67108864 = 0 := bit_step (by decide) c25 b25
    have c27 : x % 134217728 = 0 := bit_step (by decide) c26 b26
    have c28 : x % 268435456 = 0 := bit_step (by decide) c27 b27
    have c29 : x % 536870912 = 0 := bit_step (by decide) c28 b28
    have c30 : x % 1073741824 = 0 := bit_step (by decide) c29 b29
    have c31 : x % 2147483648 = 0 := bit_step (by decide) c30 b30
    have c32 : x % 4294967296 = 0 := bit_step (by decide) c31 b31
    have hx := Nat.mod_eq_of_lt h1
    exact h0 (by rw [← hx]; exact c32)

def MaskOk (m : Bmp.Mask) : Prop := m.shift < 32 ∧ m.width ≤ 8

theorem tr_bmp_readMasks {t : Bool} (i : Bmp.Info) : Tr t (Bmp.readMasks i) (fun ms => MaskOk ms.1 ∧ MaskOk ms.2.1 ∧ MaskOk ms.2.2) := by
  unfold Bmp.readMasks
  apply tr_ite
  · intro _
    apply tr_bind tr_readU32; intro r hr
    apply tr_bind tr_readU32; intro g hg
    apply tr_bind tr_readU32; intro b hb
    dsimp only
    apply tr_ite
    · intro _; exact tr_ioErr
    · intro hc
      have tz : ∀ x : Int, 0 ≤ x ∧ x ≤ 4294967295 → x ≠ 0 → Bmp.trailingZeros32 x.toNat < 32 := fun x hx hne =>
        trailingZeros32_lt (by omega) (by omega)
      have hc' : ¬ (r = 0 ∨ g = 0 ∨ b = 0 ∨ Bmp.countOnes r.toNat > 8 ∨ Bmp.countOnes g.toNat > 8 ∨ Bmp.countOnes b.toNat > 8) := by
        simpa using hc
      exact tr_pure ⟨⟨tz r hr (by tauto), by show Bmp.countOnes r.toNat ≤ 8; omega⟩,
                     ⟨tz g hg (by tauto), by show Bmp.countOnes g.toNat ≤ 8; omega⟩,
                     ⟨tz b hb (by tauto), by show Bmp.countOnes b.toNat ≤ 8; omega⟩⟩
  · intro _
    apply tr_ite
    · intro _
      exact tr_pure ⟨⟨by decide, by decide⟩, ⟨by decide, by decide⟩, ⟨by decide, by decide⟩⟩
    · intro _; exact tr_ioErr

theorem tr_bmp_chan15 {t : Bool} (site : String) (p : Nat) (m : Bmp.Mask) (hm : MaskOk m) : Tr t (Bmp.chan15 site p m) (fun _ => True) := by
  unfold Bmp.chan15
  apply tr_ite
  · intro h; have := hm.1; omega
  · intro _
    dsimp only
    apply tr_ite
    · intro h; have := hm.2; simp only [Int.ofNat_eq_natCast] at h; omega
    · intro _; exact tr_pure trivial

theorem tr_bmp_row15 {t : Bool} (site : String) (ms : Bmp.Mask × Bmp.Mask × Bmp.Mask) (hms : MaskOk ms.1 ∧ MaskOk ms.2.1 ∧ MaskOk ms.2.2) :
    ∀ (n : Nat) (src acc : List Nat), Tr t (Bmp.row15 site ms n src acc) (fun r => r.length = acc.length + 3 * n)
  | 0, _, acc => by unfold Bmp.row15; exact tr_pure (by simp)
  | n + 1, src, acc => by
    unfold Bmp.row15
    dsimp only
    apply tr_bind (tr_bmp_chan15 site _ _ hms.1); intro r _
    apply tr_bind (tr_bmp_chan15 site _ _ hms.2.1); intro g _
    apply tr_bind (tr_bmp_chan15 site _ _ hms.2.2); intro b _
    exact tr_mono (tr_bmp_row15 site ms hms n _ _) (fun r hr => by simp at hr; omega)

/-- converted pixels of `px` (3 bytes per source pixel, at most `dimx` pixels) fit `vw` destination pixels -/
theorem cvt3_fits {f : Dst → List Nat → List Nat} (hf : ∀ dst l, (f dst l).length * 3 ≤ l.length * outCh dst)
    {dst : Dst} (hd : RgbDst dst) {px : List Nat} {dimx vw : Int}
    (hpx : (px.length : Int) ≤ dimx * 3) (hvw : dimx ≤ vw) (h0 : 0 ≤ dimx) :
    ((f dst px).length : Int) ≤ vw * dst.nch := by
  have hl := hf dst px
  rw [outCh_eq_nch hd] at hl
  have hn : (0 : Int) ≤ dst.nch := Int.natCast_nonneg _
  have h1 : ((f dst px).length : Int) * 3 ≤ px.length * dst.nch := by exact_mod_cast hl
  have h2 : (px.length : Int) * dst.nch ≤ dimx * 3 * dst.nch := by nlinarith
  have h3 : ((f dst px).length : Int) ≤ dimx * dst.nch := by nlinarith
  have h4 : dimx * dst.nch ≤ vw * dst.nch := by nlinarith
  omega

theorem tr_bmp_readData15 {t : Bool} (i : Bmp.Info) (pitch : Int) (st : Settings) (dimx dimy : Int) (d : Dest) {vw vh : Int}
    (hp : 1 ≤ pitch) (hw : 0 ≤ i.width) (hdst : RgbDst st.dst)
    (hr : Region st.x0 st.y0 dimx dimy i.width i.height vw vh) (hd : Shape d vw vh st.dst.nch) :
    Tr t (Bmp.readData15 i pitch st dimx dimy d) (fun d' => Shape d' vw vh st.dst.nch) := by
  unfold Bmp.readData15
  apply tr_bind (tr_alloc _); intro _ _
  apply tr_bind (tr_bmp_readMasks i); intro ms hms
  dsimp only
  rw [if_neg (by intro hc; have : pitch = 0 := by simpa using hc.1
                 omega)]
  refine tr_bmp_rowsLoop i pitch st st.y0 _ _ (fun row hrow => ?_) _ 0 _ d ⟨List.length_replicate, bytes_replicate _⟩ hd (le_refl _)
    (toNat_rows hr.hdy hr.hvh)
  apply tr_bind (tr_alloc _); intro _ _
  apply tr_bind (tr_bmp_row15 _ ms hms _ _ _); intro px hpx
  have hn : (0 : Int) ≤ st.dst.nch := Int.natCast_nonneg _
  apply tr_ite
  · intro _
    apply tr_pure
    refine ⟨?_, hrow⟩
    have := hr.hdx; have := hr.hvw
    show ((([] : List Nat)).length : Int) ≤ vw * st.dst.nch
    simp; nlinarith
  · intro _
    apply tr_ite
    · intro hc; have := hr.hx0; have := hr.hxw; omega
    · intro _
      apply tr_pure
      refine ⟨?_, hrow⟩
      apply cvt3_fits cvtRgb_length hdst _ hr.hvw hr.hdx
      have : (List.take (dimx.toNat * 3) (List.drop (st.x0.toNat * 3) px)).length ≤ dimx.toNat * 3 := List.length_take_le _ _
      have h2 : ((dimx.toNat : Nat) : Int) = dimx := Int.toNat_of_nonneg hr.hdx
      omega


/-! ### 24/32-bit rows -/

theorem tr_bmp_readData {t : Bool} (i : Bmp.Info) (pitch : Int) (st : Settings) (dimx dimy : Int) (bpp : Nat) (d : Dest) {vw vh : Int}
    (hb : bpp = 3 ∨ bpp = 4) (hp : 1 ≤ pitch) (hwp : i.width * bpp ≤ pitch) (hdst : RgbDst st.dst)
    (hr : Region st.x0 st.y0 dimx dimy i.width i.height vw vh) (hd : Shape d vw vh st.dst.nch) :
    Tr t (Bmp.readData i pitch st dimx dimy bpp d) (fun d' => Shape d' vw vh st.dst.nch) := by
  unfold Bmp.readData
  apply tr_bind (tr_alloc _); intro _ _
  dsimp only
  rw [if_neg (by intro hc; have : pitch = 0 := by simpa using hc
                 omega)]
  refine tr_bmp_rowsLoop i pitch st st.y0 _ _ (fun row hrow => ?_) _ 0 _ d ⟨List.length_replicate, bytes_replicate _⟩ hd (le_refl _)
    (toNat_rows hr.hdy hr.hvh)
  have hlen : (row.length : Int) = pitch := by rw [hrow.1]; exact Int.toNat_of_nonneg (by omega)
  apply tr_bind (tr_sliceRow _ row bpp st.x0 dimx hr.hx0 (by
    rw [hlen]
    have : (0 : Int) ≤ bpp := Int.natCast_nonneg _
    have := hr.hxw
    nlinarith)); intro px hpx
  apply tr_pure
  refine ⟨?_, hrow⟩
  have := cvt_fits hb hdst hpx hr.hvw hr.hdx
  unfold Tga.cvtBgrx at this
  exact this

/-! ### RLE -/

/-- invariant of the RLE decoding state: the row buffer is `w` wide, the write position lies inside it -/
structure RleInv (w : Int) (r : Bmp.Rle) : Prop where
  len : (r.buf.length : Int) = w
  x0 : 0 ≤ r.x
  x1 : r.x ≤ w
  xe : r.xend = w

theorem tr_bmp_copyRowIfNeeded {t : Bool} (st : Settings) (dimx dimy : Int) (r : Bmp.Rle) (d : Dest) {w vw vh : Int}
    (hr : RleInv w r) (hdst : RgbDst st.dst) (hx0 : 0 ≤ st.x0) (hdx : 0 ≤ dimx) (hxw : st.x0 + dimx ≤ w) (hvw : dimx ≤ vw)
    (hvh : dimy ≤ vh) (hd : Shape d vw vh st.dst.nch) :
    Tr t (Bmp.copyRowIfNeeded st dimx dimy r d) (fun d' => Shape d' vw vh st.dst.nch) := by
  unfold Bmp.copyRowIfNeeded
  dsimp only
  apply tr_ite
  · intro hrow
    apply tr_ite
    · intro _; exact tr_pure hd
    · intro _
      apply tr_ite
      · intro hc
        have := hr.len
        simp only [Int.ofNat_eq_natCast] at hc
        omega
      · intro _
        apply tr_setRow _ d _ _ hd hrow.1 (by omega)
        rw [List.length_flatMap]
        have hsum : ∀ l : List (Nat × Nat × Nat × Nat), (List.map (fun a => (Bmp.palPixel st.dst a).length) l).sum = l.length * outCh st.dst := by
          intro l
          induction l with
          | nil => simp
          | cons a l ih =>
            rw [List.map_cons, List.sum_cons, ih, palPixel_length, List.length_cons]
            ring
        rw [hsum]
        apply le_mul_outCh hdst _ hvw
        have : (List.take dimx.toNat (List.drop st.x0.toNat r.buf)).length ≤ dimx.toNat := List.length_take_le _ _
        have h2 : ((dimx.toNat : Nat) : Int) = dimx := Int.toNat_of_nonneg hdx
        omega
  · intro _; exact tr_pure hd

theorem tr_bmp_putRun {t : Bool} (r : Bmp.Rle) (vals : List (Nat × Nat × Nat × Nat)) {w : Int}
    (hr : RleInv w r) (hfit : r.x + vals.length ≤ w) :
    Tr t (Bmp.putRun r vals) (fun r' => RleInv w r' ∧ r'.x = r.x + vals.length ∧ r'.y = r.y ∧ r'.streamPos = r.streamPos) := by
  unfold Bmp.putRun
  apply tr_ite
  · intro he
    have : vals = [] := by simpa using he
    subst this
    exact tr_pure ⟨hr, by simp, rfl, rfl⟩
  · intro _
    apply tr_ite
    · intro hc
      have := hr.len; have := hr.x0
      simp only [Int.ofNat_eq_natCast] at hc
      omega
    · intro _
      apply tr_pure
      refine ⟨⟨?_, ?_, ?_, hr.xe⟩, rfl, rfl, rfl⟩
      · have h1 := hr.len; have h2 := hr.x0
        have hx : ((r.x.toNat : Nat) : Int) = r.x := Int.toNat_of_nonneg h2
        show ((r.buf.take r.x.toNat ++ vals ++ r.buf.drop (r.x.toNat + vals.length)).length : Int) = w
        simp only [List.length_append, List.length_take, List.length_drop]
        push_cast
        omega
      · show 0 ≤ r.x + vals.length
        have := hr.x0; omega
      · show r.x + vals.length ≤ w
        exact hfit

theorem tr_bmp_palAt (pal : Bmp.Palette) (declared c : Int) (hpal : 256 ≤ pal.length) (hc0 : 0 ≤ c) (hc1 : c ≤ 255) :
    Tr false (Bmp.palAt pal declared c) (fun _ => True) := by
  unfold Bmp.palAt
  split
  · apply tr_bind (tr_taintIf _ _); intro _ _
    exact tr_pure trivial
  · rename_i hnone
    exfalso
    rw [List.getElem?_eq_none_iff] at hnone
    have : c.toNat ≤ 255 := by omega
    omega


theorem tr_bmp_palAtIf (pal : Bmp.Palette) (declared c need : Int) (hpal : 256 ≤ pal.length) (hc0 : 0 ≤ c) (hc1 : c ≤ 255) :
    Tr false (Bmp.palAtIf pal declared c need) (fun _ => True) := by
  unfold Bmp.palAtIf
  apply tr_ite
  · intro _; exact tr_pure trivial
  · intro _; exact tr_bmp_palAt pal declared c hpal hc0 hc1

/-- what `putRun` and the absolute runs leave behind -/
def RlePost (w : Int) (r r' : Bmp.Rle) : Prop := RleInv w r' ∧ r'.y = r.y

theorem rleInv_streamPos {w : Int} {r : Bmp.Rle} (h : RleInv w r) (p : Int) : RleInv w { r with streamPos := p } :=
  ⟨h.len, h.x0, h.x1, h.xe⟩

theorem tr_bmp_absRun8 (pal : Bmp.Palette) (declared : Int) (hpal : 256 ≤ pal.length) {w : Int} :
    ∀ (n : Nat) (r : Bmp.Rle), RleInv w r → r.x + n ≤ w → Tr false (Bmp.absRun8 pal declared n r) (fun r' => RlePost w r r')
  | 0, r, hr, _ => by unfold Bmp.absRun8; exact tr_pure ⟨hr, rfl⟩
  | n + 1, r, hr, hfit => by
    unfold Bmp.absRun8
    apply tr_bind tr_readU8; intro c hc
    apply tr_bind (tr_bmp_palAt pal declared c hpal hc.1 hc.2); intro p _
    apply tr_bind (tr_bmp_putRun _ [p] (rleInv_streamPos hr _) (by push_cast at hfit ⊢; simp; omega)); intro r' hr'
    obtain ⟨hinv, hx, hy, _⟩ := hr'
    refine tr_mono (tr_bmp_absRun8 pal declared hpal n r' hinv (by simp at hx; push_cast at hfit; omega)) (fun r'' h => ?_)
    exact ⟨h.1, by rw [h.2, hy]⟩

theorem tr_bmp_absRun4 (pal : Bmp.Palette) (declared count second : Int) (hpal : 256 ≤ pal.length) {w : Int} :
    ∀ (fuel : Nat) (i : Int) (r : Bmp.Rle), RleInv w r → (i < count → r.x + (count - i) ≤ w) →
      Tr false (Bmp.absRun4 pal declared count second fuel i r) (fun r' => RlePost w r r')
  | 0, _, r, hr, _ => by unfold Bmp.absRun4; exact tr_pure ⟨hr, rfl⟩
  | fuel + 1, i, r, hr, hfit => by
    unfold Bmp.absRun4
    apply tr_ite
    · intro hic
      have hf := hfit hic
      apply tr_bind tr_readU8; intro b hb
      dsimp only
      apply tr_bind (tr_bmp_palAt pal declared (b / 16) hpal (by omega) (by omega)); intro p _
      apply tr_bind (tr_bmp_putRun _ [p] (rleInv_streamPos hr _) (by simp; omega)); intro r1 hr1
      obtain ⟨hinv1, hx1, hy1, _⟩ := hr1
      simp at hx1
      apply tr_ite
      · intro _; exact tr_pure ⟨hinv1, hy1⟩
      · intro _
        apply tr_ite
        · intro _; exact tr_pure ⟨hinv1, hy1⟩
        · intro hne
          have hxe := hinv1.xe
          have hx1le := hinv1.x1
          have hne' : r1.x ≠ r1.xend := by simpa using hne
          apply tr_bind (tr_bmp_palAt pal declared (b % 16) hpal (by omega) (by omega)); intro p2 _
          apply tr_bind (tr_bmp_putRun r1 [p2] hinv1 (by simp; omega)); intro r2 hr2
          obtain ⟨hinv2, hx2, hy2, _⟩ := hr2
          simp at hx2
          refine tr_mono (tr_bmp_absRun4 pal declared count second hpal fuel (i + 2) r2 hinv2 (by intro h; omega)) (fun r'' h => ?_)
          exact ⟨h.1, by rw [h.2, hy2, hy1]⟩
    · intro _; exact tr_pure ⟨hr, rfl⟩

theorem tr_bmp_absRun (i : Bmp.Info) (pal : Bmp.Palette) (count second : Int) (r : Bmp.Rle) (hpal : 256 ≤ pal.length) {w : Int}
    (hr : RleInv w r) (hfit : 0 < count → r.x + count ≤ w) : Tr false (Bmp.absRun i pal count second r) (fun r' => RlePost w r r') := by
  unfold Bmp.absRun
  apply tr_ite
  · intro _
    exact tr_bmp_absRun4 pal _ count second hpal _ 0 r hr (by intro h; have := hfit h; omega)
  · intro _
    apply tr_bmp_absRun8 pal _ hpal _ r hr
    by_cases hc : 0 < count
    · rw [Int.toNat_of_nonneg (by omega)]; exact hfit hc
    · have : count.toNat = 0 := by omega
      rw [this]; have := hr.x1; push_cast; omega

theorem tr_bmp_padWord {t : Bool} (i : Bmp.Info) (pitch : Int) (r : Bmp.Rle) {w : Int} (hr : RleInv w r) :
    Tr t (Bmp.padWord i pitch r) (fun r' => RlePost w r r') := by
  unfold Bmp.padWord
  apply tr_ite
  · intro _
    apply tr_bind (tr_seekCur 1); intro _ _
    exact tr_pure ⟨rleInv_streamPos hr _, rfl⟩
  · intro _; exact tr_pure ⟨hr, rfl⟩


theorem tr_bmp_copyRowIf {t : Bool} (c : Bool) (st : Settings) (dimx dimy : Int) (r : Bmp.Rle) (d : Dest) {w vw vh : Int}
    (hr : RleInv w r) (hdst : RgbDst st.dst) (hx0 : 0 ≤ st.x0) (hdx : 0 ≤ dimx) (hxw : st.x0 + dimx ≤ w) (hvw : dimx ≤ vw)
    (hvh : dimy ≤ vh) (hd : Shape d vw vh st.dst.nch) :
    Tr t (Bmp.copyRowIf c st dimx dimy r d) (fun d' => Shape d' vw vh st.dst.nch) := by
  unfold Bmp.copyRowIf
  apply tr_ite
  · intro _; exact tr_bmp_copyRowIfNeeded st dimx dimy r d hr hdst hx0 hdx hxw hvw hvh hd
  · intro _; exact tr_pure hd

theorem tr_bmp_rleLoop (i : Bmp.Info) (pitch : Int) (st : Settings) (dimx dimy : Int) (pal : Bmp.Palette) (yend yinc : Int)
    {vw vh : Int} (hpal : 256 ≤ pal.length) (hw : 1 ≤ i.width) (hdst : RgbDst st.dst)
    (hx0 : 0 ≤ st.x0) (hdx : 0 ≤ dimx) (hxw : st.x0 + dimx ≤ i.width) (hvw : dimx ≤ vw) (hvh : dimy ≤ vh) :
    ∀ (fuel : Nat) (r : Bmp.Rle) (d : Dest), RleInv i.width r → Shape d vw vh st.dst.nch →
      Tr false (Bmp.rleLoop i pitch st dimx dimy pal yend yinc fuel r d) (fun d' => Shape d' vw vh st.dst.nch)
  | 0, _, _, _, _ => by unfold Bmp.rleLoop; exact tr_fuel _
  | fuel + 1, r, d, hr, hd => by
    have ih := tr_bmp_rleLoop i pitch st dimx dimy pal yend yinc hpal hw hdst hx0 hdx hxw hvw hvh fuel
    have hcopy := fun (r' : Bmp.Rle) (hr' : RleInv i.width r') (d' : Dest) (hd' : Shape d' vw vh st.dst.nch) =>
      tr_bmp_copyRowIfNeeded (t := false) st dimx dimy r' d' hr' hdst hx0 hdx hxw hvw hvh hd'
    unfold Bmp.rleLoop
    apply tr_bind tr_readU8; intro count hcount
    apply tr_bind tr_readU8; intro second hsec
    dsimp only
    have hr2 : RleInv i.width { r with streamPos := r.streamPos + 2 } := rleInv_streamPos hr _
    have hxe := hr.xe; have hx0' := hr.x0; have hx1 := hr.x1
    apply tr_ite
    · intro _
      -- encoded run, clamped to the row
      have hfitN : ∀ (c : Int), c = (if count > r.xend - r.x then r.xend - r.x else count) → r.x + (c.toNat : Nat) ≤ i.width := by
        intro c hc
        by_cases hpos : 0 ≤ c
        · rw [Int.toNat_of_nonneg hpos]; rw [hc]; split <;> omega
        · have : c.toNat = 0 := by omega
          rw [this]; push_cast; omega
      apply tr_ite
      · intro _
        apply tr_bind (tr_bmp_palAtIf pal _ (second / 16) _ hpal (by omega) (by omega)); intro p0 _
        apply tr_bind (tr_bmp_palAtIf pal _ (second % 16) _ hpal (by omega) (by omega)); intro p1 _
        try dsimp only
        apply tr_bind (tr_bmp_putRun _ _ hr2 (by rw [List.length_map, List.length_range]; exact hfitN _ rfl)); intro r' hr'
        exact ih r' d hr'.1 hd
      · intro _
        apply tr_bind (tr_bmp_palAtIf pal _ second _ hpal hsec.1 hsec.2); intro p _
        apply tr_bind (tr_bmp_putRun _ _ hr2 (by rw [List.length_replicate]; exact hfitN _ rfl)); intro r' hr'
        exact ih r' d hr'.1 hd
    · intro _
      apply tr_ite
      · intro _
        apply tr_bind (hcopy _ hr2 d hd); intro d' hd'
        try dsimp only
        apply tr_ite
        · intro _; exact tr_pure hd'
        · intro _
          exact ih _ d' ⟨hr.len, le_refl _, by show (0 : Int) ≤ i.width; omega, by show ((r.buf.length : Nat) : Int) = i.width; exact hr.len⟩ hd'
      · intro _
        apply tr_ite
        · intro _; exact hcopy _ hr2 d hd
        · intro _
          apply tr_ite
          · intro _
            apply tr_bind tr_readU8; intro dx hdxv
            apply tr_bind tr_readU8; intro dy0 _
            try dsimp only
            have hr4 : RleInv i.width { r with streamPos := r.streamPos + 2 + 2 } := rleInv_streamPos hr _
            apply tr_bind (tr_bmp_copyRowIf _ st dimx dimy _ d hr4 hdst hx0 hdx hxw hvw hvh hd); intro d' hd'
            apply tr_ite
            · intro _; exact tr_ioErr
            · intro hxle
              try dsimp only
              apply tr_ite
              · intro _; exact tr_ioErr
              · intro _
                exact ih _ d' ⟨hr.len, by show 0 ≤ r.x + dx; omega, by show r.x + dx ≤ i.width; omega,
                  by show ((r.buf.length : Nat) : Int) = i.width; exact hr.len⟩ hd'
          · intro _
            try dsimp only
            apply tr_bind (tr_bmp_absRun i pal _ second _ hpal hr2 (by
              intro hpos
              show r.x + (if second > r.xend - r.x then r.xend - r.x else second) ≤ i.width
              split <;> omega)); intro r' hr'
            apply tr_bind (tr_bmp_padWord i pitch r' hr'.1); intro r'' hr''
            exact ih r'' d hr''.1 hd

theorem tr_bmp_readPaletteImageRle (i : Bmp.Info) (pitch : Int) (st : Settings) (dimx dimy : Int) (d : Dest) {vw vh : Int}
    (hw : 1 ≤ i.width) (hdst : RgbDst st.dst)
    (hr : Region st.x0 st.y0 dimx dimy i.width i.height vw vh) (hd : Shape d vw vh st.dst.nch) :
    Tr false (Bmp.readPaletteImageRle i pitch st dimx dimy d) (fun d' => Shape d' vw vh st.dst.nch) := by
  unfold Bmp.readPaletteImageRle
  apply tr_bind (tr_bmp_readPalette i); intro pal hpal
  apply tr_bind (tr_seekSet _); intro _ _
  apply tr_ite
  · intro _; exact tr_allocErr
  · intro _
    apply tr_bind (tr_alloc _); intro _ _
    dsimp only
    apply tr_bind tr_fuelHere; intro fuel _
    apply tr_bmp_rleLoop i pitch st dimx dimy pal _ _ hpal hw hdst hr.hx0 hr.hdx hr.hxw hr.hvw hr.hvh fuel _ d _ hd
    refine ⟨?_, le_refl _, by show (0 : Int) ≤ i.width; omega, rfl⟩
    show ((List.replicate i.width.toNat ((0 : Nat), (0 : Nat), (0 : Nat), (0 : Nat))).length : Int) = i.width
    rw [List.length_replicate]; exact Int.toNat_of_nonneg (by omega)


/-! ### reader::apply -/

theorem rgbDst_of_bits {dst : Dst} {b : Int} (hb : b = 24 ∨ b = 32) (h : (dst.bits == b) = true) : RgbDst dst := by
  have h' : dst.bits = b := by simpa using h
  cases dst <;> simp [Dst.bits] at h' <;> first | exact Or.inl rfl | exact Or.inr rfl | omega

theorem tr_bmp_isAllowed {t : Bool} (i : Bmp.Info) (st : Settings) (hconv : ConvOk .bmp st) :
    Tr t (Bmp.isAllowed i st) (fun ok => ok = true → RgbDst st.dst) := by
  unfold Bmp.isAllowed
  apply tr_ite
  · intro hc
    exact tr_pure (fun _ => hconv (by simpa using hc))
  · intro _
    apply tr_ite
    · intro _
      apply tr_pure
      intro h
      refine rgbDst_of_bits ?_ h
      split <;> simp
    · intro _
      apply tr_ite
      · intro _; exact tr_pure (fun h => rgbDst_of_bits (Or.inl rfl) h)
      · intro _
        apply tr_ite
        · intro hb
          exact tr_pure (fun h => rgbDst_of_bits (by rcases hb with hb | hb <;> simp at hb <;> omega) h)
        · intro _; exact tr_ioErr

theorem tr_bmp_dispatch (i : Bmp.Info) (pitch : Int) (st : Settings) (dimx dimy : Int) (d : Dest) {vw vh : Int}
    (hi : BmpHdr i) (hp : 1 ≤ i.bpp → 1 ≤ pitch) (hbits : i.width * i.bpp ≤ pitch * 8) (hdst : RgbDst st.dst)
    (hr : Region st.x0 st.y0 dimx dimy i.width i.height vw vh) (hd : Shape d vw vh st.dst.nch) :
    Tr false (Bmp.dispatch i pitch st dimx dimy d) (fun d' => Shape d' vw vh st.dst.nch) := by
  unfold Bmp.dispatch
  have hw := hi.w1
  have pal : ∀ b : Int, i.bpp = b → (b = 1 ∨ b = 4 ∨ b = 8) →
      Tr false (Bmp.readPaletteImage i pitch st dimx dimy d) (fun d' => Shape d' vw vh st.dst.nch) := by
    intro b hb hb3
    refine tr_bmp_readPaletteImage i pitch st dimx dimy d (hp (by omega)) ?_ hdst hr hd
    unfold ppbOf
    rw [hb] at hbits ⊢
    rcases hb3 with h | h | h <;> subst h <;> simp <;> omega
  apply tr_ite
  · intro h; exact pal 1 (by simpa using h) (Or.inl rfl)
  · intro _
    apply tr_ite
    · intro h4
      have h4' : i.bpp = 4 := by simpa using h4
      apply tr_ite
      · intro _; exact tr_bmp_readPaletteImageRle i pitch st dimx dimy d hw hdst hr hd
      · intro _
        apply tr_ite
        · intro _; exact pal 4 h4' (Or.inr (Or.inl rfl))
        · intro _; exact tr_ioErr
    · intro _
      apply tr_ite
      · intro h8
        have h8' : i.bpp = 8 := by simpa using h8
        apply tr_ite
        · intro _; exact tr_bmp_readPaletteImageRle i pitch st dimx dimy d hw hdst hr hd
        · intro _
          apply tr_ite
          · intro _; exact pal 8 h8' (Or.inr (Or.inr rfl))
          · intro _; exact tr_ioErr
      · intro _
        apply tr_ite
        · intro h15
          exact tr_bmp_readData15 i pitch st dimx dimy d (hp (by rcases h15 with h | h <;> simp at h <;> omega)) (by omega) hdst hr hd
        · intro _
          apply tr_ite
          · intro h24
            have h24' : i.bpp = 24 := by simpa using h24
            rw [h24'] at hbits
            exact tr_bmp_readData i pitch st dimx dimy 3 d (Or.inl rfl) (hp (by omega)) (by push_cast; omega) hdst hr hd
          · intro _
            apply tr_ite
            · intro h32
              have h32' : i.bpp = 32 := by simpa using h32
              rw [h32'] at hbits
              exact tr_bmp_readData i pitch st dimx dimy 4 d (Or.inr rfl) (hp (by omega)) (by push_cast; omega) hdst hr hd
            · intro _
              apply tr_bind (tr_setTaint _); intro _ _
              exact tr_pure hd

theorem inS32_iff (x : Int) : inS32 x = true ↔ (-2147483648 ≤ x ∧ x ≤ 2147483647) := by
  unfold inS32; simp

theorem wrapU64_small {x : Int} (h0 : 0 ≤ x) (h1 : x < 18446744073709551616) : wrapU 64 x = x := by
  unfold wrapU
  have : ((2 : Int) ^ 64) = 18446744073709551616 := by norm_num
  rw [this]
  omega

/-- the int arithmetic of the pitch does not overflow for a validated header -/
theorem bmp_raw_bounds {i : Bmp.Info} (hi : BmpHdr i) :
    let raw : Int := if i.bpp < 8 then i.width * i.bpp else i.width * ((i.bpp + 7) / 8)
    0 ≤ raw ∧ raw ≤ 2147483616 ∧ i.width * i.bpp ≤ (if i.bpp < 8 then (raw + 7) / 8 else raw) * 8 ∧
    (1 ≤ i.bpp → 1 ≤ (if i.bpp < 8 then (raw + 7) / 8 else raw)) := by
  intro raw
  have hw := hi.w1; have hb0 := hi.b0; have hwb := hi.wb
  have hprod : 0 ≤ i.width * i.bpp := by positivity
  by_cases h8 : i.bpp < 8
  · have hraw : raw = i.width * i.bpp := by simp [raw, h8]
    rw [hraw]
    simp only [h8, if_true]
    refine ⟨hprod, hwb, by omega, fun h1 => ?_⟩
    have : i.width * 1 ≤ i.width * i.bpp := by nlinarith
    omega
  · have hraw : raw = i.width * ((i.bpp + 7) / 8) := by simp [raw, h8]
    rw [hraw]
    simp only [h8, if_false]
    have hq0 : 0 ≤ (i.bpp + 7) / 8 := by omega
    have hq1 : (i.bpp + 7) / 8 ≤ i.bpp := by omega
    have hq2 : i.bpp ≤ (i.bpp + 7) / 8 * 8 := by omega
    have hq3 : 1 ≤ (i.bpp + 7) / 8 := by omega
    refine ⟨by positivity, by nlinarith, by nlinarith, fun _ => by nlinarith⟩

theorem tr_bmp_apply (i : Bmp.Info) (st : Settings) (dimx dimy : Int) (d : Dest) {vw vh : Int}
    (hi : BmpHdr i) (hconv : ConvOk .bmp st)
    (hr : Region st.x0 st.y0 dimx dimy i.width i.height vw vh) (hd : Shape d vw vh st.dst.nch) :
    Tr false (Bmp.apply i st dimx dimy d) (fun d' => Shape d' vw vh st.dst.nch) := by
  unfold Bmp.apply
  apply tr_bind (tr_bmp_isAllowed i st hconv); intro ok hok
  apply tr_ite
  · intro _; exact tr_ioErr
  · intro hok'
    have hdst : RgbDst st.dst := hok (by simpa using hok')
    dsimp only
    obtain ⟨hr0, hr1, hbits, hp1⟩ := bmp_raw_bounds hi
    apply tr_ite
    · intro hc
      exfalso
      rcases hc with hc | ⟨_, hc⟩
      · have : inS32 (if i.bpp < 8 then i.width * i.bpp else i.width * ((i.bpp + 7) / 8)) = true := by
          rw [inS32_iff]; constructor <;> omega
        simp [this] at hc
      · have : inS32 ((if i.bpp < 8 then i.width * i.bpp else i.width * ((i.bpp + 7) / 8)) + 7) = true := by
          rw [inS32_iff]; constructor <;> omega
        simp [this] at hc
    · intro _
      have hp0 : 0 ≤ (if i.bpp < 8 then ((if i.bpp < 8 then i.width * i.bpp else i.width * ((i.bpp + 7) / 8)) + 7) / 8
                      else (if i.bpp < 8 then i.width * i.bpp else i.width * ((i.bpp + 7) / 8))) := by
        split <;> omega
      have hp0u : (if i.bpp < 8 then ((if i.bpp < 8 then i.width * i.bpp else i.width * ((i.bpp + 7) / 8)) + 7) / 8
                      else (if i.bpp < 8 then i.width * i.bpp else i.width * ((i.bpp + 7) / 8))) ≤ 2147483616 := by
        split <;> omega
      rw [wrapU64_small hp0 (by omega), wrapU64_small (by omega) (by omega)]
      exact tr_bmp_dispatch i _ st dimx dimy d hi (fun h => by have := hp1 h; omega) (by omega) hdst hr hd


/-! ### scanline reader -/

theorem tr_bmp_scanRowsBuf {t : Bool} (i : Bmp.Info) (pitch : Int) (rowFn : Bmp.ScanBufs → M Bmp.ScanBufs) (Inv : Bmp.ScanBufs → Prop)
    (hfn : ∀ b, Inv b → Tr t (rowFn b) Inv) :
    ∀ (n : Nat) (pos : Int) (b : Bmp.ScanBufs) (acc : List (List Nat)), Inv b → Tr t (Bmp.scanRowsBuf i pitch rowFn n pos b acc) (fun _ => True)
  | 0, _, _, _, _ => by unfold Bmp.scanRowsBuf; exact tr_pure trivial
  | n + 1, pos, b, acc, hb => by
    unfold Bmp.scanRowsBuf
    dsimp only
    apply tr_bind (tr_seekSet _); intro _ _
    apply tr_bind (hfn b hb); intro b' hb'
    exact tr_bmp_scanRowsBuf i pitch rowFn Inv hfn n _ b' _ hb'

theorem tr_bmp_scanFinish {t : Bool} (i : Bmp.Info) (pitch sl : Int) (buf0 : List Nat) (rowFn : Bmp.ScanBufs → M Bmp.ScanBufs)
    (Inv : Bmp.ScanBufs → Prop) (hsl : 1 ≤ sl) (hh : 1 ≤ i.height)
    (h0 : Inv { dst := List.replicate sl.toNat 0, buf := buf0 }) (hfn : ∀ b, Inv b → Tr t (rowFn b) Inv) :
    Tr t (Bmp.scanFinish i pitch sl buf0 rowFn) (fun _ => True) := by
  unfold Bmp.scanFinish
  apply tr_ite
  · intro _; exact tr_stop_err _
  · intro _
    apply tr_bind (tr_alloc _); intro _ _
    apply tr_ite
    · intro hc; have : sl = 0 := by simpa using hc
      omega
    · intro _
      apply tr_ite
      · intro _; omega
      · intro _
        dsimp only
        apply tr_bind (tr_bmp_scanRowsBuf i pitch rowFn Inv hfn _ _ _ _ h0); intro _ _
        exact tr_pure trivial

theorem tr_bmp_scanPaletteRow (i : Bmp.Info) (pitch : Int) (pal : Bmp.Palette) (b : Bmp.ScanBufs)
    (hp : 1 ≤ pitch) (hpal : 256 ≤ pal.length) (hb : RowInv pitch b.buf) :
    Tr false (Bmp.scanPaletteRow i pitch pal b) (fun b' => RowInv pitch b'.buf) := by
  unfold Bmp.scanPaletteRow
  dsimp only
  apply tr_ite
  · intro hc; have : pitch = 0 := by simpa using hc
    omega
  · intro _
    apply tr_bind (tr_readInto _ b.buf pitch.toNat (by rw [hb.1])); intro row hrow
    have hbytes : Bytes (Bmp.manip i.bpp row) := manip_bytes _ (hrow.2 hb.2)
    apply tr_bind (tr_bmp_lookupAll _ _ pal .rgba8 _ _ [] (fun c hc => by
      have := rowIndices_lt i.bpp hbytes c (List.mem_of_mem_take hc)
      omega)); intro px _
    exact tr_pure ⟨by rw [manip_length, hrow.1]; exact hb.1, hbytes⟩

theorem tr_bmp_scan15Row {t : Bool} (i : Bmp.Info) (pitch : Int) (ms : Bmp.Mask × Bmp.Mask × Bmp.Mask) (b : Bmp.ScanBufs)
    (hp : 1 ≤ pitch) (hms : MaskOk ms.1 ∧ MaskOk ms.2.1 ∧ MaskOk ms.2.2) (hb : RowInv pitch b.buf) :
    Tr t (Bmp.scan15Row i pitch ms b) (fun b' => RowInv pitch b'.buf) := by
  unfold Bmp.scan15Row
  dsimp only
  apply tr_ite
  · intro hc; have : pitch = 0 := by simpa using hc
    omega
  · intro _
    apply tr_bind (tr_readInto _ b.buf pitch.toNat (by rw [hb.1])); intro row hrow
    apply tr_bind (tr_bmp_row15 _ ms hms _ _ _); intro px _
    exact tr_pure ⟨by rw [hrow.1]; exact hb.1, hrow.2 hb.2⟩

theorem tr_bmp_scanRawRow {t : Bool} (pitch : Int) (n : Nat) (b : Bmp.ScanBufs) (hn : pitch.toNat ≤ n) (hb : b.dst.length = n) :
    Tr t (Bmp.scanRawRow pitch b) (fun b' => b'.dst.length = n) := by
  unfold Bmp.scanRawRow
  apply tr_ite
  · intro _; exact tr_pure hb
  · intro _
    apply tr_bind (tr_readInto _ b.dst pitch.toNat (by omega)); intro row hrow
    exact tr_pure (by show row.length = n; omega)

theorem tr_bmp_scanWith (i : Bmp.Info) (pitch : Int) (hi : BmpHdr i) (hp : 1 ≤ i.bpp → 1 ≤ pitch) (hp0 : 0 ≤ pitch)
    (h24 : i.bpp = 24 → pitch = (i.width * 3 + 3) / 4 * 4) (h32 : i.bpp = 32 → pitch = i.width * 4) :
    Tr false (Bmp.scanWith i pitch) (fun _ => True) := by
  unfold Bmp.scanWith
  have hw1 := hi.w1; have hw2 := hi.w2; have hh := hi.h1
  have ew : wrapU 64 i.width = i.width := wrapU64_small (by omega) (by omega)
  have e4 : wrapU 64 (wrapU 64 (wrapU 64 i.width * 4) + 3) / 4 * 4 = (i.width * 4 + 3) / 4 * 4 := by
    rw [ew, wrapU64_small (x := i.width * 4) (by omega) (by omega), wrapU64_small (x := i.width * 4 + 3) (by omega) (by omega)]
  have e3 : wrapU 64 (wrapU 64 (wrapU 64 i.width * 3) + 3) / 4 * 4 = (i.width * 3 + 3) / 4 * 4 := by
    rw [ew, wrapU64_small (x := i.width * 3) (by omega) (by omega), wrapU64_small (x := i.width * 3 + 3) (by omega) (by omega)]
  dsimp only
  rw [e4, e3]
  apply tr_ite
  · intro hpalc
    have hb1 : 1 ≤ i.bpp := by
      rcases hpalc with h | ⟨h | h, _⟩ <;> simp at h <;> omega
    apply tr_bind (tr_bmp_readPalette i); intro pal hpal
    apply tr_ite
    · intro _; exact tr_allocErr
    · intro _
      apply tr_bind (tr_alloc _); intro _ _
      exact tr_bmp_scanFinish i pitch _ _ _ (fun b => RowInv pitch b.buf) (by omega) hh
        ⟨List.length_replicate, bytes_replicate _⟩ (fun b hb => tr_bmp_scanPaletteRow i pitch pal b (hp hb1) hpal hb)
  · intro _
    apply tr_ite
    · intro _; split <;> exact tr_ioErr
    · intro _
      apply tr_ite
      · intro _; split <;> exact tr_ioErr
      · intro _
        apply tr_ite
        · intro h15
          have hb1 : 1 ≤ i.bpp := by rcases h15 with h | h <;> simp at h <;> omega
          apply tr_ite
          · intro _; exact tr_allocErr
          · intro _
            apply tr_bind (tr_alloc _); intro _ _
            apply tr_bind (tr_bmp_readMasks i); intro ms hms
            exact tr_bmp_scanFinish i pitch _ _ _ (fun b => RowInv pitch b.buf) (by omega) hh
              ⟨List.length_replicate, bytes_replicate _⟩ (fun b hb => tr_bmp_scan15Row i pitch ms b (hp hb1) hms hb)
        · intro _
          apply tr_ite
          · intro h2432
            by_cases hb : i.bpp = 24
            · have hpe := h24 hb
              simp only [hb, beq_self_eq_true, if_true]
              exact tr_bmp_scanFinish i pitch _ _ _ (fun b => b.dst.length = ((i.width * 3 + 3) / 4 * 4).toNat) (by omega) hh
                List.length_replicate (fun b hb' => tr_bmp_scanRawRow pitch _ b (by rw [hpe]) hb')
            · have hb32 : i.bpp = 32 := by rcases h2432 with h | h <;> simp at h <;> omega
              have hpe := h32 hb32
              simp only [hb32, show ((32 : Int) == 24) = false from rfl, Bool.false_eq_true, if_false]
              exact tr_bmp_scanFinish i pitch _ _ _ (fun b => b.dst.length = ((i.width * 4 + 3) / 4 * 4).toNat) (by omega) hh
                List.length_replicate (fun b hb' => tr_bmp_scanRawRow pitch _ b (by rw [hpe]; omega) hb')
          · intro _; exact tr_ioErr

theorem tr_bmp_scan (i : Bmp.Info) (hi : BmpHdr i) : Tr false (Bmp.scan i) (fun _ => True) := by
  unfold Bmp.scan
  dsimp only
  obtain ⟨hr0, hr1, hbits, hp1⟩ := bmp_raw_bounds hi
  apply tr_ite
  · intro hc
    exfalso
    rcases hc with hc | ⟨_, hc⟩
    · have : inS32 (if i.bpp < 8 then i.width * i.bpp else i.width * ((i.bpp + 7) / 8)) = true := by
        rw [inS32_iff]; constructor <;> omega
      simp [this] at hc
    · have : inS32 ((if i.bpp < 8 then i.width * i.bpp else i.width * ((i.bpp + 7) / 8)) + 7) = true := by
        rw [inS32_iff]; constructor <;> omega
      simp [this] at hc
  · intro _
    have hp0 : 0 ≤ (if i.bpp < 8 then ((if i.bpp < 8 then i.width * i.bpp else i.width * ((i.bpp + 7) / 8)) + 7) / 8
                    else (if i.bpp < 8 then i.width * i.bpp else i.width * ((i.bpp + 7) / 8))) := by
      split <;> omega
    have hp0u : (if i.bpp < 8 then ((if i.bpp < 8 then i.width * i.bpp else i.width * ((i.bpp + 7) / 8)) + 7) / 8
                    else (if i.bpp < 8 then i.width * i.bpp else i.width * ((i.bpp + 7) / 8))) ≤ 2147483616 := by
      split <;> omega
    apply tr_ite
    · intro hc
      exfalso
      have : inS32 ((if i.bpp < 8 then ((if i.bpp < 8 then i.width * i.bpp else i.width * ((i.bpp + 7) / 8)) + 7) / 8
                    else (if i.bpp < 8 then i.width * i.bpp else i.width * ((i.bpp + 7) / 8))) + 3) = true := by
        rw [inS32_iff]; constructor <;> omega
      simp [this] at hc
    · intro _
      apply tr_bmp_scanWith i _ hi (fun h => by have := hp1 h; omega) (by omega)
      · intro h24
        simp [h24]
      · intro h32
        simp [h32]
        omega


theorem tr_bmp_run (st : Settings) (hconv : ConvOk .bmp st) : Tr false (Bmp.run st) (fun _ => True) := by
  unfold Bmp.run
  apply tr_bind tr_bmp_readHeader; intro i hi
  dsimp only
  apply tr_bind (tr_checkSettings _ _ _ _ _); intro _ hs
  obtain ⟨hx0, hy0, hdx, hdy, hxw, hyh⟩ := hs
  have hdx1 := dim_pos hi.w1 (by simpa using hdx)
  have hdy1 := dim_pos hi.h1 (by simpa using hdy)
  simp only [beq_iff_eq] at hdx1 hdy1 hdx hdy hxw hyh ⊢
  cases he : st.entry with
  | info => exact tr_pure trivial
  | scan => exact tr_bmp_scan i hi
  | view =>
    dsimp only
    apply tr_bind (tr_checkImageSize _ _ _ _ _); intro _ hv
    have hr : Region st.x0 st.y0 (if st.dw = 0 then i.width else st.dw) (if st.dh = 0 then i.height else st.dh) i.width i.height st.vw st.vh :=
      ⟨hx0, hy0, hdx, hdy, hxw, hyh, hv.1 (by omega), hv.2 (by omega)⟩
    apply tr_bind (tr_bmp_apply i st _ _ _ hi hconv hr (mk'_shape _ _ _ _)); intro _ _
    exact tr_pure trivial
  | image =>
    dsimp only
    apply tr_bind (tr_recreateImage st _ _ (by omega) (by omega)); intro d hd
    have hr : Region st.x0 st.y0 (if st.dw = 0 then i.width else st.dw) (if st.dh = 0 then i.height else st.dh) i.width i.height _ _ :=
      ⟨hx0, hy0, hdx, hdy, hxw, hyh, le_refl _, le_refl _⟩
    apply tr_bind (tr_bmp_apply i st _ _ _ hi hconv hr hd); intro _ _
    exact tr_pure trivial
  | conv =>
    dsimp only
    apply tr_bind (tr_recreateImage st _ _ (by omega) (by omega)); intro d hd
    have hr : Region st.x0 st.y0 (if st.dw = 0 then i.width else st.dw) (if st.dh = 0 then i.height else st.dh) i.width i.height _ _ :=
      ⟨hx0, hy0, hdx, hdy, hxw, hyh, le_refl _, le_refl _⟩
    apply tr_bind (tr_bmp_apply i st _ _ _ hi hconv hr hd); intro _ _
    exact tr_pure trivial

/-! ### BMP never runs out of fuel -/

theorem nf_taintIf (c : Bool) (w : String) : NF (taintIf c w) := nf_of_nh (nh_taintIf c w)

theorem nf_bmp_readPaletteLoop (four : Bool) : ∀ (n : Nat) (acc : Bmp.Palette), NF (Bmp.readPaletteLoop four n acc)
  | 0, _ => by unfold Bmp.readPaletteLoop; exact nf_pure _
  | n + 1, acc => by
    unfold Bmp.readPaletteLoop
    apply nf_bind nf_readU8; intro _
    apply nf_bind nf_readU8; intro _
    apply nf_bind nf_readU8; intro _
    apply nf_bind
    · unfold Bmp.skipByteIf
      apply nf_ite
      · apply nf_bind nf_readU8; intro _; exact nf_pure _
      · exact nf_pure _
    · intro _; exact nf_bmp_readPaletteLoop four n _

theorem nf_bmp_readPalette (i : Bmp.Info) : NF (Bmp.readPalette i) := by
  unfold Bmp.readPalette
  dsimp only
  apply nf_ite
  · exact nf_allocErr
  · apply nf_bind (nf_alloc _); intro _
    apply nf_bind (nf_bmp_readPaletteLoop _ _ _); intro _
    exact nf_pure _

theorem nf_bmp_lookupAll (site why : String) (pal : Bmp.Palette) (dst : Dst) (declared : Int) :
    ∀ (cs acc : List Nat), NF (Bmp.lookupAll site why pal dst declared cs acc)
  | [], _ => by unfold Bmp.lookupAll; exact nf_pure _
  | c :: cs, acc => by
    unfold Bmp.lookupAll
    split
    · apply nf_bind (nf_taintIf _ _); intro _
      exact nf_bmp_lookupAll site why pal dst declared cs _
    · exact nf_ubAt _ _

theorem nf_bmp_rowsLoop (i : Bmp.Info) (pitch : Int) (st : Settings) (y0 : Int) (site : String)
    (rowFn : List Nat → M (List Nat × List Nat)) (h : ∀ row, NF (rowFn row)) :
    ∀ (n : Nat) (y : Int) (row : List Nat) (d : Dest), NF (Bmp.rowsLoop i pitch st y0 site rowFn n y row d)
  | 0, _, _, _ => by unfold Bmp.rowsLoop; exact nf_pure _
  | n + 1, y, row, d => by
    unfold Bmp.rowsLoop
    apply nf_bind (nf_seekSet _); intro _
    apply nf_bind (nf_readInto _ _ _); intro _
    apply nf_bind (h _); intro r
    apply nf_bind (nf_setRow _ _ _ _); intro _
    exact nf_bmp_rowsLoop i pitch st y0 site rowFn h n _ _ _

theorem nf_bmp_paletteRowPixels (site : String) (i : Bmp.Info) (st : Settings) (dimx : Int) (pal : Bmp.Palette) (row : List Nat) :
    NF (Bmp.paletteRowPixels site i st dimx pal row) := by
  unfold Bmp.paletteRowPixels
  dsimp only
  apply nf_ite (nf_ubAt _ _)
  apply nf_ite (nf_pure _)
  apply nf_ite (nf_ubAt _ _)
  exact nf_bmp_lookupAll _ _ _ _ _ _ _

theorem nf_bmp_readPaletteImage (i : Bmp.Info) (pitch : Int) (st : Settings) (dimx dimy : Int) (d : Dest) :
    NF (Bmp.readPaletteImage i pitch st dimx dimy d) := by
  unfold Bmp.readPaletteImage
  apply nf_bind (nf_bmp_readPalette i); intro pal
  apply nf_bind (nf_alloc _); intro _
  dsimp only
  apply nf_ite (nf_ubAt _ _)
  apply nf_bmp_rowsLoop
  intro row
  apply nf_bind (nf_bmp_paletteRowPixels _ _ _ _ _ _); intro _
  exact nf_pure _

theorem nf_bmp_readMasks (i : Bmp.Info) : NF (Bmp.readMasks i) := by
  unfold Bmp.readMasks
  apply nf_ite
  · apply nf_bind nf_readU32; intro _
    apply nf_bind nf_readU32; intro _
    apply nf_bind nf_readU32; intro _
    dsimp only
    exact nf_ite nf_ioErr (nf_pure _)
  · exact nf_ite (nf_pure _) nf_ioErr

theorem nf_bmp_chan15 (site : String) (p : Nat) (m : Bmp.Mask) : NF (Bmp.chan15 site p m) := by
  unfold Bmp.chan15
  apply nf_ite (nf_ubAt _ _)
  dsimp only
  exact nf_ite (nf_ubAt _ _) (nf_pure _)

theorem nf_bmp_row15 (site : String) (ms : Bmp.Mask × Bmp.Mask × Bmp.Mask) : ∀ (n : Nat) (src acc : List Nat), NF (Bmp.row15 site ms n src acc)
  | 0, _, _ => by unfold Bmp.row15; exact nf_pure _
  | n + 1, src, acc => by
    unfold Bmp.row15
    dsimp only
    apply nf_bind (nf_bmp_chan15 _ _ _); intro _
    apply nf_bind (nf_bmp_chan15 _ _ _); intro _
    apply nf_bind (nf_bmp_chan15 _ _ _); intro _
    exact nf_bmp_row15 site ms n _ _

theorem nf_bmp_readData15 (i : Bmp.Info) (pitch : Int) (st : Settings) (dimx dimy : Int) (d : Dest) :
    NF (Bmp.readData15 i pitch st dimx dimy d) := by
  unfold Bmp.readData15
  apply nf_bind (nf_alloc _); intro _
  apply nf_bind (nf_bmp_readMasks i); intro ms
  dsimp only
  apply nf_ite (nf_ubAt _ _)
  apply nf_bmp_rowsLoop
  intro row
  apply nf_bind (nf_alloc _); intro _
  apply nf_bind (nf_bmp_row15 _ _ _ _ _); intro _
  apply nf_ite (nf_pure _)
  exact nf_ite (nf_ubAt _ _) (nf_pure _)

theorem nf_bmp_readData (i : Bmp.Info) (pitch : Int) (st : Settings) (dimx dimy : Int) (bpp : Nat) (d : Dest) :
    NF (Bmp.readData i pitch st dimx dimy bpp d) := by
  unfold Bmp.readData
  apply nf_bind (nf_alloc _); intro _
  dsimp only
  apply nf_ite (nf_ubAt _ _)
  apply nf_bmp_rowsLoop
  intro row
  apply nf_bind (nf_sliceRow _ _ _ _ _); intro _
  exact nf_pure _

theorem nf_bmp_readPaletteImageRle (i : Bmp.Info) (pitch : Int) (st : Settings) (dimx dimy : Int) (d : Dest) :
    NF (Bmp.readPaletteImageRle i pitch st dimx dimy d) := by
  unfold Bmp.readPaletteImageRle
  apply nf_bind (nf_bmp_readPalette i); intro pal
  apply nf_bind (nf_seekSet _); intro _
  apply nf_ite nf_allocErr
  apply nf_bind (nf_alloc _); intro _
  dsimp only
  intro s
  apply nfs_fuelHere_bind
  intro fuel hf
  exact nfs_of_nhs (bmp_rleLoop_nhs i pitch st dimx dimy pal _ _ fuel _ d s hf)

theorem nf_bmp_dispatch (i : Bmp.Info) (pitch : Int) (st : Settings) (dimx dimy : Int) (d : Dest) :
    NF (Bmp.dispatch i pitch st dimx dimy d) := by
  unfold Bmp.dispatch
  repeat' (first
    | exact nf_bmp_readPaletteImage _ _ _ _ _ _ | exact nf_bmp_readPaletteImageRle _ _ _ _ _ _
    | exact nf_bmp_readData15 _ _ _ _ _ _ | exact nf_bmp_readData _ _ _ _ _ _ _ | exact nf_ioErr
    | (apply nf_bind (nf_setTaint _); intro _; exact nf_pure _)
    | apply nf_ite)

theorem nf_bmp_isAllowed (i : Bmp.Info) (st : Settings) : NF (Bmp.isAllowed i st) := by
  unfold Bmp.isAllowed
  repeat' (first | exact nf_pure _ | exact nf_ioErr | apply nf_ite)

theorem nf_bmp_apply (i : Bmp.Info) (st : Settings) (dimx dimy : Int) (d : Dest) : NF (Bmp.apply i st dimx dimy d) := by
  unfold Bmp.apply
  apply nf_bind (nf_bmp_isAllowed i st); intro _
  apply nf_ite nf_ioErr
  dsimp only
  apply nf_ite (nf_ubAt _ _)
  exact nf_bmp_dispatch _ _ _ _ _ _

theorem nf_bmp_scanRowsBuf (i : Bmp.Info) (pitch : Int) (rowFn : Bmp.ScanBufs → M Bmp.ScanBufs) (h : ∀ b, NF (rowFn b)) :
    ∀ (n : Nat) (pos : Int) (b : Bmp.ScanBufs) (acc : List (List Nat)), NF (Bmp.scanRowsBuf i pitch rowFn n pos b acc)
  | 0, _, _, _ => by unfold Bmp.scanRowsBuf; exact nf_pure _
  | n + 1, pos, b, acc => by
    unfold Bmp.scanRowsBuf
    dsimp only
    apply nf_bind (nf_seekSet _); intro _
    apply nf_bind (h b); intro _
    exact nf_bmp_scanRowsBuf i pitch rowFn h n _ _ _

theorem nf_bmp_scanFinish (i : Bmp.Info) (pitch sl : Int) (buf0 : List Nat) (rowFn : Bmp.ScanBufs → M Bmp.ScanBufs) (h : ∀ b, NF (rowFn b)) :
    NF (Bmp.scanFinish i pitch sl buf0 rowFn) := by
  unfold Bmp.scanFinish
  apply nf_ite (nf_stop _ (by intro w; simp))
  apply nf_bind (nf_alloc _); intro _
  apply nf_ite (nf_ubAt _ _)
  apply nf_ite (nf_stop _ (by intro w; simp))
  dsimp only
  apply nf_bind (nf_bmp_scanRowsBuf i pitch rowFn h _ _ _ _); intro _
  exact nf_pure _

theorem nf_bmp_scanWith (i : Bmp.Info) (pitch : Int) : NF (Bmp.scanWith i pitch) := by
  unfold Bmp.scanWith
  dsimp only
  apply nf_ite
  · apply nf_bind (nf_bmp_readPalette i); intro pal
    apply nf_ite nf_allocErr
    apply nf_bind (nf_alloc _); intro _
    apply nf_bmp_scanFinish
    intro b
    unfold Bmp.scanPaletteRow
    dsimp only
    apply nf_ite (nf_ubAt _ _)
    apply nf_bind (nf_readInto _ _ _); intro _
    apply nf_bind (nf_bmp_lookupAll _ _ _ _ _ _ _); intro _
    exact nf_pure _
  · apply nf_ite
    · exact nf_ite nf_ioErr nf_ioErr
    · apply nf_ite
      · exact nf_ite nf_ioErr nf_ioErr
      · apply nf_ite
        · apply nf_ite nf_allocErr
          apply nf_bind (nf_alloc _); intro _
          apply nf_bind (nf_bmp_readMasks i); intro ms
          apply nf_bmp_scanFinish
          intro b
          unfold Bmp.scan15Row
          dsimp only
          apply nf_ite (nf_ubAt _ _)
          apply nf_bind (nf_readInto _ _ _); intro _
          apply nf_bind (nf_bmp_row15 _ _ _ _ _); intro _
          exact nf_pure _
        · apply nf_ite
          · apply nf_bmp_scanFinish
            intro b
            unfold Bmp.scanRawRow
            apply nf_ite (nf_pure _)
            apply nf_bind (nf_readInto _ _ _); intro _
            exact nf_pure _
          · exact nf_ioErr

theorem nf_bmp_scan (i : Bmp.Info) : NF (Bmp.scan i) := by
  unfold Bmp.scan
  dsimp only
  apply nf_ite (nf_ubAt _ _)
  apply nf_ite (nf_ubAt _ _)
  exact nf_bmp_scanWith _ _

theorem nf_bmp_run (st : Settings) : NF (Bmp.run st) := by
  unfold Bmp.run
  apply nf_bind (nf_of_se (se_bmp_readHeader adm_isErr)); intro i
  dsimp only
  apply nf_bind (nf_checkSettings _ _ _ _ _); intro _
  cases st.entry with
  | info => exact nf_pure _
  | scan => exact nf_bmp_scan i
  | view =>
    dsimp only
    apply nf_bind (nf_checkImageSize _ _ _ _ _); intro _
    apply nf_bind (nf_bmp_apply _ _ _ _ _); intro _
    exact nf_pure _
  | image =>
    dsimp only
    apply nf_bind (nf_recreateImage _ _ _); intro _
    apply nf_bind (nf_bmp_apply _ _ _ _ _); intro _
    exact nf_pure _
  | conv =>
    dsimp only
    apply nf_bind (nf_recreateImage _ _ _); intro _
    apply nf_bind (nf_bmp_apply _ _ _ _ _); intro _
    exact nf_pure _

end GilVerif.Lemmas.C11
