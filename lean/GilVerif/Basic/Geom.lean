/-
  Geometry core shared by C01 / C02 / C03 (and C04): a view as an affine map from pixel
  coordinates to *memory units* (bytes; bits for bit-aligned pixels; coordinate codes for virtual
  views), the library's view transformations as maps on such records, and their documented
  coordinate maps.  Core Lean only (linked into the native model drivers).

  `View` is what `image_view<memory_based_2d_locator<...>>` holds: the locator of pixel (0,0)
  (`base`, relative to the start of the buffer), `pixel_size()` = `xs`, `row_size()` = `ys`, and the
  dimensions.  The closed forms of the factories given here (`Xform.apply`) are *specification
  level*; Props/C02 proves that the translated factory code (origin `xy_at(..)` + the stepping /
  transposing locator constructor) computes exactly these records.
-/
namespace GilVerif.Geom

@[ext] structure View where
  base : Int
  xs : Int
  ys : Int
  w : Int
  h : Int
  deriving Repr, DecidableEq, Inhabited

/-- memory-unit address of pixel (x,y): `memory_based_2d_locator::offset` from the origin -/
def View.addr (v : View) (x y : Int) : Int := v.base + y * v.ys + x * v.xs

def View.InRange (v : View) (x y : Int) : Prop := 0 ≤ x ∧ x < v.w ∧ 0 ≤ y ∧ y < v.h

instance (v : View) (x y : Int) : Decidable (v.InRange x y) := by unfold View.InRange; exact inferInstance

/-- the view transformations of image_view_factory.hpp that remap coordinates -/
inductive Xform where
  | flipUD | flipLR | transpose | rot90cw | rot90ccw | rot180
  | sub (x0 y0 w h : Int)
  | subsample (sx sy : Int)
  deriving Repr, DecidableEq, Inhabited

/-- the derived view (closed form of what the factory builds) -/
def Xform.apply : Xform → View → View
  | .flipUD, v => { base := v.addr 0 (v.h - 1), xs := v.xs, ys := -v.ys, w := v.w, h := v.h }
  | .flipLR, v => { base := v.addr (v.w - 1) 0, xs := -v.xs, ys := v.ys, w := v.w, h := v.h }
  | .transpose, v => { base := v.addr 0 0, xs := v.ys, ys := v.xs, w := v.h, h := v.w }
  | .rot90cw, v => { base := v.addr 0 (v.h - 1), xs := -v.ys, ys := v.xs, w := v.h, h := v.w }
  | .rot90ccw, v => { base := v.addr (v.w - 1) 0, xs := v.ys, ys := -v.xs, w := v.h, h := v.w }
  | .rot180, v => { base := v.addr (v.w - 1) (v.h - 1), xs := -v.xs, ys := -v.ys, w := v.w, h := v.h }
  | .sub x0 y0 w h, v => { base := v.addr x0 y0, xs := v.xs, ys := v.ys, w := w, h := h }
  | .subsample sx sy, v =>
      { base := v.addr 0 0, xs := v.xs * sx, ys := v.ys * sy,
        w := Int.tdiv (v.w + (sx - 1)) sx, h := Int.tdiv (v.h + (sy - 1)) sy }

/-- documented dimensions of the derived view -/
def Xform.dims : Xform → Int × Int → Int × Int
  | .flipUD, d | .flipLR, d | .rot180, d => d
  | .transpose, (w, h) | .rot90cw, (w, h) | .rot90ccw, (w, h) => (h, w)
  | .sub _ _ w h, _ => (w, h)
  | .subsample sx sy, (w, h) => ((w + sx - 1) / sx, (h + sy - 1) / sy)     -- ceil(w/sx) x ceil(h/sy)

/-- documented coordinate map: pixel (x,y) of the derived view is pixel `phi t (w,h) (x,y)` of the
    source, whose dimensions are (w,h) -/
def Xform.phi : Xform → Int × Int → Int × Int → Int × Int
  | .flipUD, (_, h), (x, y) => (x, h - 1 - y)
  | .flipLR, (w, _), (x, y) => (w - 1 - x, y)
  | .transpose, _, (x, y) => (y, x)
  | .rot90cw, (_, h), (x, y) => (y, h - 1 - x)
  | .rot90ccw, (w, _), (x, y) => (w - 1 - y, x)
  | .rot180, (w, h), (x, y) => (w - 1 - x, h - 1 - y)
  | .sub x0 y0 _ _, _, (x, y) => (x0 + x, y0 + y)
  | .subsample sx sy, _, (x, y) => (x * sx, y * sy)

/-- when a transformation may be applied (the factories' preconditions) -/
def Xform.Valid : Xform → View → Prop
  | .sub x0 y0 w h, v => 0 ≤ x0 ∧ 0 ≤ y0 ∧ 0 ≤ w ∧ 0 ≤ h ∧ x0 + w ≤ v.w ∧ y0 + h ≤ v.h
  | .subsample sx sy, _ => 0 < sx ∧ 0 < sy
  | _, _ => True

instance (t : Xform) (v : View) : Decidable (t.Valid v) := by
  cases t <;> unfold Xform.Valid <;> exact inferInstance

def applyAll (ts : List Xform) (v : View) : View := ts.foldl (fun v t => t.apply v) v

/-- composed coordinate map of a list of transformations applied left to right:
    derived (x,y) ↦ source coordinates -/
def phiAll : List Xform → View → Int × Int → Int × Int
  | [], _, p => p
  | t :: ts, v, p => t.phi (v.w, v.h) (phiAll ts (t.apply v) p)

def validAll : List Xform → View → Prop
  | [], _ => True
  | t :: ts, v => t.Valid v ∧ validAll ts (t.apply v)

def decValidAll : (ts : List Xform) → (v : View) → Decidable (validAll ts v)
  | [], _ => isTrue trivial
  | t :: ts, v =>
    match (inferInstance : Decidable (t.Valid v)), decValidAll ts (t.apply v) with
    | isTrue h1, isTrue h2 => isTrue ⟨h1, h2⟩
    | isFalse h1, _ => isFalse (fun h => h1 h.1)
    | _, isFalse h2 => isFalse (fun h => h2 h.2)

instance (ts : List Xform) (v : View) : Decidable (validAll ts v) := decValidAll ts v

end GilVerif.Geom
