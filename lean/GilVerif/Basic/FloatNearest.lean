/-
  FloatNearest -- a GENUINE rounding function satisfying `FloatSpec` (non-vacuity of the float theorems
  by more than exact arithmetic): round to nearest onto the binary floating-point grid with `p` significant
  bits and smallest quantum 2^emin (gradual underflow below 2^(emin+p-1), unbounded above),

      rnd x = sign x * rne (|x| / 2^q) * 2^q,     q = max (⌊log2 |x|⌋ - (p-1)) emin,

  where `rne` rounds a rational to the nearest integer, ties to even: IEEE-754 roundTiesToEven.
  `binary32 = nearest 24 (-149)`, `binary64 = nearest 53 (-1074)`: for every rational whose rounded value does
  not overflow this IS the IEEE-754 rounding of that rational (the kernel evaluates it on concrete inputs,
  see the examples at the end and in Props/C06Float, Props/C07Float).

  Proved here (no axioms): monotone, idempotent, exact on integers up to 2^p, and
  |rnd x - x| ≤ 2^-p * max |x| 2^(emin+p-1).

  Imports Mathlib: only for Props/ and Lemmas/ (never Model/ or Driver/).
-/
import GilVerif.Basic.FloatSpec
import Mathlib.Data.Int.Log

namespace GilVerif
namespace FloatNearest

/-! ### powers of two and `Int.log 2` on ℚ -/

theorem two_zpow_pos (e : ℤ) : (0 : ℚ) < 2 ^ e := zpow_pos (by norm_num) e

theorem zpow_log_le {x : ℚ} (hx : 0 < x) : (2 : ℚ) ^ Int.log 2 x ≤ x := by
  have := Int.zpow_log_le_self (R := ℚ) (b := 2) (by norm_num) hx
  simpa using this

theorem lt_zpow_log_succ (x : ℚ) : x < (2 : ℚ) ^ (Int.log 2 x + 1) := by
  have := Int.lt_zpow_succ_log_self (R := ℚ) (b := 2) (by norm_num) x
  simpa using this

theorem log_lt_of_lt_zpow {x : ℚ} (hx : 0 < x) {k : ℤ} (h : x < (2 : ℚ) ^ k) : Int.log 2 x < k := by
  have := (Int.lt_zpow_iff_log_lt (R := ℚ) (b := 2) (by norm_num) (x := k) hx).mp (by simpa using h)
  exact this

theorem log_two_zpow (k : ℤ) : Int.log 2 ((2 : ℚ) ^ k) = k := by
  have := Int.log_zpow (R := ℚ) (b := 2) (by norm_num) k
  simpa using this

/-- a non-negative integer power of two is an integer -/
theorem zpow_eq_intCast {k : ℤ} (hk : 0 ≤ k) : (2 : ℚ) ^ k = (((2 : ℤ) ^ k.toNat : ℤ) : ℚ) := by
  conv_lhs => rw [← Int.toNat_of_nonneg hk]
  rw [zpow_natCast]; push_cast; rfl

/-! ### round to nearest integer, ties to even -/

/-- nearest integer, ties to even -/
def rne (t : ℚ) : ℤ :=
  if t - ⌊t⌋ < 1 / 2 then ⌊t⌋
  else if 1 / 2 < t - ⌊t⌋ then ⌊t⌋ + 1
  else if ⌊t⌋ % 2 = 0 then ⌊t⌋ else ⌊t⌋ + 1

theorem rne_err (t : ℚ) : |(rne t : ℚ) - t| ≤ 1 / 2 := by
  have f1 := Int.floor_le t
  have f2 := Int.lt_floor_add_one t
  unfold rne
  split_ifs with h1 h2 h3 <;> rw [abs_le] <;> push_cast <;> constructor <;> linarith

theorem rne_int (M : ℤ) : rne (M : ℚ) = M := by
  unfold rne; rw [Int.floor_intCast, if_pos (by norm_num)]

theorem rne_mono {s t : ℚ} (h : s ≤ t) : rne s ≤ rne t := by
  have fs1 := Int.floor_le s
  have fs2 := Int.lt_floor_add_one s
  have ft1 := Int.floor_le t
  have ft2 := Int.lt_floor_add_one t
  have hfl := Int.floor_le_floor h
  have hs_hi : rne s ≤ ⌊s⌋ + 1 := by unfold rne; split_ifs <;> omega
  have ht_lo : ⌊t⌋ ≤ rne t := by unfold rne; split_ifs <;> omega
  rcases eq_or_lt_of_le hfl with heq | hlt
  · -- same integer part: compare the fractional parts
    unfold rne
    rw [← heq]
    have hfr : s - ⌊s⌋ ≤ t - ⌊s⌋ := by linarith
    split_ifs <;> first | omega | (exfalso; linarith)
  · omega

/-- rounding is non-negative on non-negative values -/
theorem rne_nonneg {t : ℚ} (h : 0 ≤ t) : 0 ≤ rne t := by
  have := rne_mono h; rwa [show ((0 : ℚ)) = ((0 : ℤ) : ℚ) by norm_num, rne_int] at this

/-! ### the rounding function -/

variable (p : ℕ) (emin : ℤ)

/-- quantum exponent of the binade of x > 0 (clamped at emin: subnormal range) -/
def qexp (x : ℚ) : ℤ := max (Int.log 2 x - ((p : ℤ) - 1)) emin

/-- rounding of a non-negative rational -/
def rndPos (x : ℚ) : ℚ := (rne (x / 2 ^ qexp p emin x) : ℤ) * 2 ^ qexp p emin x

/-- rounding of a rational (odd extension) -/
def rnd (x : ℚ) : ℚ := if 0 ≤ x then rndPos p emin x else -rndPos p emin (-x)

theorem emin_le_qexp (x : ℚ) : emin ≤ qexp p emin x := le_max_right _ _

theorem rndPos_zero : rndPos p emin 0 = 0 := by
  unfold rndPos; rw [zero_div]
  have : rne 0 = 0 := by have := rne_int 0; simpa using this
  rw [this]; simp

theorem rndPos_nonneg {x : ℚ} (hx : 0 ≤ x) : 0 ≤ rndPos p emin x := by
  unfold rndPos
  apply mul_nonneg _ (two_zpow_pos _).le
  have : (0 : ℤ) ≤ rne (x / 2 ^ qexp p emin x) := rne_nonneg (div_nonneg hx (two_zpow_pos (qexp p emin x)).le)
  exact_mod_cast this

/-- error of rounding to the grid of spacing 2^e: at most half the spacing -/
theorem grid_err (e : ℤ) (x : ℚ) : |(rne (x / 2 ^ e) : ℤ) * (2 : ℚ) ^ e - x| ≤ 2 ^ e / 2 := by
  have hu := two_zpow_pos e
  set u : ℚ := 2 ^ e
  have f := rne_err (x / u)
  set n : ℚ := ((rne (x / u) : ℤ) : ℚ)
  have e1 : n * u - x = (n - x / u) * u := by field_simp
  rw [e1, abs_mul, abs_of_pos hu]
  calc |n - x / u| * u ≤ 1 / 2 * u := mul_le_mul_of_nonneg_right f hu.le
    _ = u / 2 := by ring

/-- the quantum is at most 2^(1-p) times max x (smallest normal) -/
theorem quantum_le {x : ℚ} (hx : 0 < x) :
    (2 : ℚ) ^ qexp p emin x ≤ 2 * (1 / 2 ^ p) * max x (2 ^ (emin + (p : ℤ) - 1)) := by
  have h2 : (2 : ℚ) ≠ 0 := by norm_num
  have hpp : (0 : ℚ) < 2 ^ p := by positivity
  have key : ∀ k : ℤ, (2 : ℚ) ^ (k - ((p : ℤ) - 1)) = 2 * (1 / 2 ^ p) * 2 ^ k := by
    intro k
    rw [show k - ((p : ℤ) - 1) = k + 1 - (p : ℤ) by ring, zpow_sub₀ h2, zpow_add₀ h2, zpow_one, zpow_natCast]
    field_simp
  unfold qexp
  rcases le_total (Int.log 2 x - ((p : ℤ) - 1)) emin with h | h
  · rw [max_eq_right h]
    have : (2 : ℚ) ^ emin = 2 * (1 / 2 ^ p) * 2 ^ (emin + (p : ℤ) - 1) := by
      rw [← key]; congr 1; ring
    rw [this]
    exact mul_le_mul_of_nonneg_left (le_max_right _ _) (by positivity)
  · rw [max_eq_left h, key]
    exact mul_le_mul_of_nonneg_left (le_trans (zpow_log_le hx) (le_max_left _ _)) (by positivity)

theorem rndPos_err {x : ℚ} (hx : 0 < x) :
    |rndPos p emin x - x| ≤ 1 / 2 ^ p * max x (2 ^ (emin + (p : ℤ) - 1)) := by
  have := grid_err (qexp p emin x) x
  have q := quantum_le p emin hx
  unfold rndPos; linarith

/-- the scaled value x / 2^q is below 2^p: the rounded significand is at most 2^p -/
theorem significand_le (x : ℚ) : rne (x / 2 ^ qexp p emin x) ≤ (2 : ℤ) ^ p := by
  have hq : Int.log 2 x + 1 - (p : ℤ) ≤ qexp p emin x := by
    unfold qexp; have := le_max_left (Int.log 2 x - ((p : ℤ) - 1)) emin; linarith
  have hu := two_zpow_pos (qexp p emin x)
  have h1 : x < 2 ^ (p : ℤ) * 2 ^ qexp p emin x := by
    rw [← zpow_add₀ (by norm_num : (2 : ℚ) ≠ 0)]
    exact lt_of_lt_of_le (lt_zpow_log_succ x) (zpow_le_zpow_right₀ (by norm_num) (by linarith))
  have h2 : x / 2 ^ qexp p emin x ≤ (((2 : ℤ) ^ p : ℤ) : ℚ) := by
    rw [div_le_iff₀ hu]; push_cast; rw [zpow_natCast] at h1; exact h1.le
  have := rne_mono h2
  rwa [rne_int] at this

/-- every point N * 2^e of the format (0 < N ≤ 2^p, e ≥ emin) is a fixed point -/
theorem rndPos_grid (hp : 1 ≤ p) {N e : ℤ} (hN0 : 0 < N) (hN : N ≤ 2 ^ p) (he : emin ≤ e) :
    rndPos p emin ((N : ℚ) * 2 ^ e) = (N : ℚ) * 2 ^ e := by
  have h2 : (2 : ℚ) ≠ 0 := by norm_num
  have hNq : (0 : ℚ) < N := by exact_mod_cast hN0
  have hf : (0 : ℚ) < (N : ℚ) * 2 ^ e := mul_pos hNq (two_zpow_pos e)
  -- the value is an integer multiple M of its own quantum
  have hM : ∃ M : ℤ, (N : ℚ) * 2 ^ e = (M : ℚ) * 2 ^ qexp p emin ((N : ℚ) * 2 ^ e) := by
    rcases lt_or_eq_of_le hN with hlt | heq
    · -- N < 2^p: the quantum exponent is at most e
      have hlt' : (N : ℚ) < 2 ^ (p : ℤ) := by rw [zpow_natCast]; exact_mod_cast hlt
      have : (N : ℚ) * 2 ^ e < 2 ^ ((p : ℤ) + e) := by
        rw [zpow_add₀ h2]; exact mul_lt_mul_of_pos_right hlt' (two_zpow_pos e)
      have hlog := log_lt_of_lt_zpow hf this
      have hq : qexp p emin ((N : ℚ) * 2 ^ e) ≤ e := by unfold qexp; exact max_le (by linarith) he
      refine ⟨N * 2 ^ (e - qexp p emin ((N : ℚ) * 2 ^ e)).toNat, ?_⟩
      push_cast
      have := zpow_eq_intCast (k := e - qexp p emin ((N : ℚ) * 2 ^ e)) (by linarith)
      push_cast at this
      rw [← this, mul_assoc, ← zpow_add₀ h2]; congr 2; ring
    · -- N = 2^p: the value is the power 2^(p+e), quantum exponent e+1, significand 2^(p-1)
      have hval : (N : ℚ) * 2 ^ e = 2 ^ ((p : ℤ) + e) := by
        rw [heq, zpow_add₀ h2, zpow_natCast]; push_cast; rfl
      have hq : qexp p emin ((N : ℚ) * 2 ^ e) = e + 1 := by
        unfold qexp; rw [hval, log_two_zpow]
        rw [show (p : ℤ) + e - ((p : ℤ) - 1) = e + 1 by ring]; exact max_eq_left (by linarith)
      refine ⟨2 ^ (p - 1), ?_⟩
      rw [hq, hval]; push_cast
      rw [← zpow_natCast, ← zpow_add₀ h2]; congr 1
      have : ((p - 1 : ℕ) : ℤ) = (p : ℤ) - 1 := by omega
      rw [this]; ring
  obtain ⟨M, hM⟩ := hM
  have hu := two_zpow_pos (qexp p emin ((N : ℚ) * 2 ^ e))
  unfold rndPos
  have : (N : ℚ) * 2 ^ e / 2 ^ qexp p emin ((N : ℚ) * 2 ^ e) = M := by
    rw [div_eq_iff hu.ne']; exact hM
  rw [this, rne_int, ← hM]

/-- rounded values are points of the format: rounding is idempotent -/
theorem rndPos_idem (hp : 1 ≤ p) {x : ℚ} (hx : 0 ≤ x) : rndPos p emin (rndPos p emin x) = rndPos p emin x := by
  rcases eq_or_lt_of_le hx with h0 | hpos
  · rw [← h0, rndPos_zero, rndPos_zero]
  · have hN := significand_le p emin x
    have hN0 : (0 : ℤ) ≤ rne (x / 2 ^ qexp p emin x) := rne_nonneg (div_nonneg hx (two_zpow_pos (qexp p emin x)).le)
    rcases eq_or_lt_of_le hN0 with hz | hNpos
    · have : rndPos p emin x = 0 := by unfold rndPos; rw [← hz]; simp
      rw [this, rndPos_zero]
    · exact rndPos_grid p emin hp hNpos hN (emin_le_qexp p emin x)

theorem rndPos_mono (hp : 1 ≤ p) {x y : ℚ} (hx : 0 ≤ x) (hxy : x ≤ y) : rndPos p emin x ≤ rndPos p emin y := by
  have h2 : (2 : ℚ) ≠ 0 := by norm_num
  rcases eq_or_lt_of_le hx with h0 | hpos
  · rw [← h0, rndPos_zero]; exact rndPos_nonneg p emin (le_trans hx hxy)
  have hypos : 0 < y := lt_of_lt_of_le hpos hxy
  have hlog := Int.log_mono_right (b := 2) hpos hxy
  have hq : qexp p emin x ≤ qexp p emin y := by unfold qexp; exact max_le_max (by linarith) (le_refl _)
  rcases eq_or_lt_of_le hq with heq | hlt
  · -- same quantum: the floor is monotone
    unfold rndPos; rw [heq]
    have hu := two_zpow_pos (qexp p emin y)
    apply mul_le_mul_of_nonneg_right _ hu.le
    have : rne (x / 2 ^ qexp p emin y) ≤ rne (y / 2 ^ qexp p emin y) :=
      rne_mono (div_le_div_of_nonneg_right hxy hu.le)
    exact_mod_cast this
  · -- different binades: the power of two B = 2^(log y) separates the two rounded values
    have hqy : qexp p emin y = Int.log 2 y - ((p : ℤ) - 1) := by
      have hlt' : emin < qexp p emin y := lt_of_le_of_lt (emin_le_qexp p emin x) hlt
      unfold qexp at hlt' ⊢
      rcases le_total (Int.log 2 y - ((p : ℤ) - 1)) emin with h | h
      · rw [max_eq_right h] at hlt'; exact absurd hlt' (lt_irrefl _)
      · exact max_eq_left h
    have hqx : Int.log 2 x - ((p : ℤ) - 1) ≤ qexp p emin x := le_max_left _ _
    have hlog' : Int.log 2 x + 1 ≤ Int.log 2 y := by linarith
    have hxB : x ≤ (2 : ℚ) ^ Int.log 2 y :=
      le_trans (lt_zpow_log_succ x).le (zpow_le_zpow_right₀ (by norm_num) hlog')
    have hBy : (2 : ℚ) ^ Int.log 2 y ≤ y := zpow_log_le hypos
    have hpz : (1 : ℤ) ≤ (p : ℤ) := by exact_mod_cast hp
    -- rndPos x ≤ B
    have hx' : rndPos p emin x ≤ (2 : ℚ) ^ Int.log 2 y := by
      have hk : 0 ≤ Int.log 2 y - qexp p emin x := by linarith
      have hu := two_zpow_pos (qexp p emin x)
      have hB : (2 : ℚ) ^ Int.log 2 y = (((2 : ℤ) ^ (Int.log 2 y - qexp p emin x).toNat : ℤ) : ℚ) * 2 ^ qexp p emin x := by
        rw [← zpow_eq_intCast hk, ← zpow_add₀ h2]; congr 1; ring
      set K : ℤ := (2 : ℤ) ^ (Int.log 2 y - qexp p emin x).toNat
      have h1 : x / 2 ^ qexp p emin x ≤ K := by rw [div_le_iff₀ hu, ← hB]; exact hxB
      have h3 : rne (x / 2 ^ qexp p emin x) ≤ K := by
        have := rne_mono h1; rwa [rne_int] at this
      unfold rndPos; rw [hB]
      exact mul_le_mul_of_nonneg_right (by exact_mod_cast h3) hu.le
    -- B ≤ rndPos y
    have hy' : (2 : ℚ) ^ Int.log 2 y ≤ rndPos p emin y := by
      have hu := two_zpow_pos (qexp p emin y)
      have hk : 0 ≤ (p : ℤ) - 1 := by linarith
      have hB : (2 : ℚ) ^ Int.log 2 y = (((2 : ℤ) ^ ((p : ℤ) - 1).toNat : ℤ) : ℚ) * 2 ^ qexp p emin y := by
        rw [← zpow_eq_intCast hk, ← zpow_add₀ h2, hqy]; congr 1; ring
      set K : ℤ := (2 : ℤ) ^ ((p : ℤ) - 1).toNat
      have h1 : (K : ℚ) ≤ y / 2 ^ qexp p emin y := by rw [le_div_iff₀ hu, ← hB]; exact hBy
      have h3 : K ≤ rne (y / 2 ^ qexp p emin y) := by
        have := rne_mono h1; rwa [rne_int] at this
      unfold rndPos; rw [hB]
      exact mul_le_mul_of_nonneg_right (by exact_mod_cast h3) hu.le
    exact le_trans hx' hy'

/-! ### the full (signed) rounding function satisfies `FloatSpec` -/

theorem rnd_of_nonneg {x : ℚ} (h : 0 ≤ x) : rnd p emin x = rndPos p emin x := by unfold rnd; rw [if_pos h]
theorem rnd_of_neg {x : ℚ} (h : x < 0) : rnd p emin x = -rndPos p emin (-x) := by
  unfold rnd; rw [if_neg (not_le.mpr h)]

theorem rnd_mono (hp : 1 ≤ p) {x y : ℚ} (hxy : x ≤ y) : rnd p emin x ≤ rnd p emin y := by
  rcases le_or_gt 0 x with hx | hx
  · rw [rnd_of_nonneg p emin hx, rnd_of_nonneg p emin (le_trans hx hxy)]; exact rndPos_mono p emin hp hx hxy
  · rcases le_or_gt 0 y with hy | hy
    · rw [rnd_of_neg p emin hx, rnd_of_nonneg p emin hy]
      have := rndPos_nonneg p emin (x := -x) (by linarith)
      have := rndPos_nonneg p emin hy
      linarith
    · rw [rnd_of_neg p emin hx, rnd_of_neg p emin hy]
      have := rndPos_mono p emin hp (x := -y) (y := -x) (by linarith) (by linarith)
      linarith

theorem rnd_idem (hp : 1 ≤ p) (x : ℚ) : rnd p emin (rnd p emin x) = rnd p emin x := by
  rcases le_or_gt 0 x with hx | hx
  · rw [rnd_of_nonneg p emin hx, rnd_of_nonneg p emin (rndPos_nonneg p emin hx)]; exact rndPos_idem p emin hp hx
  · rw [rnd_of_neg p emin hx]
    have h0 := rndPos_nonneg p emin (x := -x) (by linarith)
    rcases eq_or_lt_of_le h0 with hz | hpos
    · rw [← hz, neg_zero, rnd_of_nonneg p emin (le_refl 0), rndPos_zero]
    · rw [rnd_of_neg p emin (by linarith), neg_neg, rndPos_idem p emin hp (by linarith)]

theorem rnd_int (hp : 1 ≤ p) (he : emin ≤ 0) (n : ℤ) (hn : |(n : ℚ)| ≤ 2 ^ p) : rnd p emin n = n := by
  have grid : ∀ k : ℤ, 0 < k → (k : ℚ) ≤ 2 ^ p → rndPos p emin k = k := by
    intro k hk0 hk
    have := rndPos_grid p emin hp (N := k) (e := 0) hk0 (by exact_mod_cast hk) he
    simpa using this
  rcases lt_trichotomy n 0 with h | h | h
  · have hq : (n : ℚ) < 0 := by exact_mod_cast h
    rw [rnd_of_neg p emin hq]
    rw [abs_of_neg hq] at hn
    have := grid (-n) (by omega) (by push_cast; exact hn)
    push_cast at this; rw [this]; ring
  · subst h; rw [Int.cast_zero, rnd_of_nonneg p emin (le_refl 0), rndPos_zero]
  · have hq : (0 : ℚ) < n := by exact_mod_cast h
    rw [rnd_of_nonneg p emin hq.le]
    rw [abs_of_pos hq] at hn
    exact grid n h hn

theorem rnd_faithful (x : ℚ) : |rnd p emin x - x| ≤ 1 / 2 ^ p * max |x| (2 ^ (emin + (p : ℤ) - 1)) := by
  rcases lt_trichotomy x 0 with h | h | h
  · rw [rnd_of_neg p emin h, abs_of_neg h]
    have := rndPos_err p emin (x := -x) (by linarith)
    rwa [show -rndPos p emin (-x) - x = -(rndPos p emin (-x) - -x) by ring, abs_neg]
  · subst h; rw [rnd_of_nonneg p emin (le_refl 0), rndPos_zero]; simp
  · rw [rnd_of_nonneg p emin h.le, abs_of_pos h]; exact rndPos_err p emin h

end FloatNearest

open FloatNearest in
/-- round-to-nearest binary floating point with `p` significant bits and quantum 2^emin in the subnormal range -/
def FloatSpec.nearest (p : ℕ) (emin : ℤ) (hp : 1 ≤ p) (he : emin + (p : ℤ) - 1 ≤ 0) : FloatSpec where
  rnd := FloatNearest.rnd p emin
  eps := 1 / 2 ^ p
  tiny := 2 ^ (emin + (p : ℤ) - 1)
  big := 2 ^ p
  eps_nonneg := by positivity
  tiny_nonneg := (two_zpow_pos _).le
  tiny_le_one := zpow_le_one_of_nonpos₀ (by norm_num) he
  one_le_big := one_le_pow₀ (by norm_num)
  monotone := fun _ _ h => FloatNearest.rnd_mono p emin hp h
  idem := FloatNearest.rnd_idem p emin hp
  exact_int := FloatNearest.rnd_int p emin hp (by omega)
  faithful := FloatNearest.rnd_faithful p emin

/-- IEEE-754 binary32 parameters: 24 significant bits, smallest subnormal 2^-149, smallest normal 2^-126 -/
def FloatSpec.binary32 : FloatSpec := FloatSpec.nearest 24 (-149) (by norm_num) (by norm_num)
/-- IEEE-754 binary64 parameters: 53 significant bits, smallest subnormal 2^-1074, smallest normal 2^-1022 -/
def FloatSpec.binary64 : FloatSpec := FloatSpec.nearest 53 (-1074) (by norm_num) (by norm_num)

theorem FloatSpec.binary32_isBinary32 : FloatSpec.binary32.IsBinary32 :=
  ⟨le_refl _, le_refl _⟩
theorem FloatSpec.binary64_isBinary64 : FloatSpec.binary64.IsBinary64 :=
  ⟨le_refl _, le_refl _⟩

/-- kernel evaluation: 1/3 rounds to 11184811 * 2^-25 = 0x3EAAAAAB, the binary32 value of 1.0f/3.0f -/
example : FloatSpec.binary32.rnd (1 / 3) = 11184811 / 33554432 := by
  unfold FloatSpec.binary32 FloatSpec.nearest; simp only []; decide +kernel

end GilVerif
