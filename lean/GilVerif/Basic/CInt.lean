/-
  C integer semantics on `Int` (core Lean only).

  Generated kernels (Gen/*.lean) use literal moduli (`x % 4294967296`) so that `omega` can
  work on them directly; the named versions below are for hand-written models and lemmas.
-/
namespace GilVerif

/-- value of `x` converted to an unsigned `n`-bit integer (two's complement wrap) -/
def wrapU (n : Nat) (x : Int) : Int := x % (2 ^ n : Int)

/-- value of `x` converted to a signed `n`-bit integer (what g++ does on narrowing) -/
def wrapS (n : Nat) (x : Int) : Int := (x + 2 ^ (n - 1)) % (2 ^ n : Int) - 2 ^ (n - 1)

/-- `x` fits a signed `n`-bit integer -/
def InS (n : Nat) (x : Int) : Prop := -(2 ^ (n - 1) : Int) ≤ x ∧ x < 2 ^ (n - 1)

/-- `x` fits an unsigned `n`-bit integer -/
def InU (n : Nat) (x : Int) : Prop := 0 ≤ x ∧ x < 2 ^ n

/-- C `/` (truncating) -/
abbrev cdiv (a b : Int) : Int := Int.tdiv a b
/-- C `%` (sign of the dividend) -/
abbrev cmod (a b : Int) : Int := Int.tmod a b

theorem wrapU_of_inU {n : Nat} {x : Int} (h : InU n x) : wrapU n x = x := by
  unfold wrapU; exact Int.emod_eq_of_lt h.1 h.2

theorem wrapU_range (n : Nat) (x : Int) : InU n (wrapU n x) := by
  unfold wrapU InU
  have hp : (0 : Int) < 2 ^ n := Int.pow_pos (by decide)
  exact ⟨Int.emod_nonneg _ (Int.ne_of_gt hp), Int.emod_lt_of_pos _ hp⟩

/-- truncating division/modulus agree with floor division on non-negative dividends -/
theorem tdiv_eq_ediv_nonneg {a b : Int} (ha : 0 ≤ a) : Int.tdiv a b = a / b :=
  Int.tdiv_eq_ediv_of_nonneg ha

theorem tmod_eq_emod_nonneg {a b : Int} (ha : 0 ≤ a) (hb : 0 ≤ b) : Int.tmod a b = a % b :=
  Int.tmod_eq_emod_of_nonneg ha

end GilVerif
