/-
  FloatSpec -- the abstract rounding structure relative to which the floating-point clauses of the
  properties are PROVED (DESIGN.md section 4, "FloatSpec").

  Lean's `Float` / `Float32` are opaque to the kernel, so nothing can be proved about the executable
  float models (Model/C06.lean, Model/C07.lean, ...).  Instead every floating-point operation
  `a (op) b` of the C++ code is modelled as `R.rnd (a op b)`: the exact rational result, rounded once
  by the rounding function `R.rnd : ℚ → ℚ` of an ARBITRARY structure `R : FloatSpec`.  The theorems
  in `Props/CxxFloat.lean` hold for EVERY `R`; the only facts about the rounding they may use are the
  fields below.

  TRUSTED-BASE ITEM (not proved, stated here once):
    "the IEEE-754 arithmetic of the target (binary32 for `float`, binary64 for `double`; round to
     nearest even; no fused multiply-add contraction; no x87 double rounding) satisfies `FloatSpec`
     with eps = 2^-24, tiny = 2^-126, big = 2^24 (binary32), resp. eps = 2^-53, tiny = 2^-1022,
     big = 2^53 (binary64), as long as no operation overflows"
  (every intermediate value in the theorems is bounded by 2^34, far from overflow).  This is the
  standard model of floating-point arithmetic: `faithful` is the relative-error bound
  |fl(x) - x| ≤ u·|x| for normal results, with the absolute bound u·(smallest normal) in the
  subnormal range (`tiny`), so underflow IS covered.

  NON-VACUITY: two instances are constructed,
    * `FloatSpec.exact` (below): rnd = id, eps = 0 (exact arithmetic);
    * `FloatSpec.nearest p emin` (Basic/FloatNearest.lean): genuine round-to-nearest (ties away from zero)
      onto the grid of p-digit binary floating-point numbers with smallest quantum 2^emin (gradual
      underflow, unbounded above); `FloatSpec.binary32 = nearest 24 (-149)` and
      `FloatSpec.binary64 = nearest 53 (-1074)` satisfy `IsBinary32` / `IsBinary64` and are evaluated
      by the kernel on concrete inputs in the Props files.

  This file imports Mathlib modules: it must NOT be imported by any Model/ or Driver/ file
  (only by Props/ and Lemmas/).
-/
import Mathlib.Tactic.Linarith
import Mathlib.Tactic.Positivity
import Mathlib.Tactic.Ring
import Mathlib.Tactic.NormNum
import Mathlib.Tactic.FieldSimp
import Mathlib.Algebra.Order.Floor.Ring
import Mathlib.Algebra.Order.Field.Basic
import Mathlib.Data.Rat.Floor

namespace GilVerif

/-- An abstract rounding-to-a-floating-point-format function with the hypotheses the float theorems use. -/
structure FloatSpec where
  /-- the rounding function: exact rational result of one operation ↦ the stored floating-point value -/
  rnd : ℚ → ℚ
  /-- unit round-off (2^-24 for binary32, 2^-53 for binary64) -/
  eps : ℚ
  /-- smallest normal number (2^-126 / 2^-1022); below it the error bound is absolute, `eps * tiny` -/
  tiny : ℚ
  /-- every integer of magnitude ≤ big is representable (2^24 / 2^53) -/
  big : ℚ
  eps_nonneg : 0 ≤ eps
  tiny_nonneg : 0 ≤ tiny
  tiny_le_one : tiny ≤ 1
  one_le_big : 1 ≤ big
  /-- rounding is monotone (non-decreasing) -/
  monotone : ∀ x y : ℚ, x ≤ y → rnd x ≤ rnd y
  /-- rounded values are representable: rounding them again changes nothing -/
  idem : ∀ x : ℚ, rnd (rnd x) = rnd x
  /-- integers of magnitude ≤ big are representable -/
  exact_int : ∀ n : ℤ, |(n : ℚ)| ≤ big → rnd n = n
  /-- faithful rounding with relative error eps (absolute error eps * tiny in the subnormal range) -/
  faithful : ∀ x : ℚ, |rnd x - x| ≤ eps * max |x| tiny

namespace FloatSpec

/-- `x` is a value of the format (inputs of type `float` / `double` are representable) -/
def Rep (R : FloatSpec) (x : ℚ) : Prop := R.rnd x = x

/-- the parameters of IEEE-754 binary32 (`float`, `float32_t`) -/
def IsBinary32 (R : FloatSpec) : Prop := R.eps ≤ 1 / 2 ^ 24 ∧ 2 ^ 24 ≤ R.big
/-- the parameters of IEEE-754 binary64 (`double`) -/
def IsBinary64 (R : FloatSpec) : Prop := R.eps ≤ 1 / 2 ^ 53 ∧ 2 ^ 53 ≤ R.big

/-- C's conversion of a floating-point value to an integer type: truncation toward zero -/
def ctrunc (q : ℚ) : ℤ := if 0 ≤ q then ⌊q⌋ else -⌊-q⌋

theorem ctrunc_of_nonneg {q : ℚ} (h : 0 ≤ q) : ctrunc q = ⌊q⌋ := by
  unfold ctrunc; rw [if_pos h]

variable (R : FloatSpec)

theorem rep_rnd (x : ℚ) : R.Rep (R.rnd x) := R.idem x

theorem rnd_int (n : ℤ) (h : |(n : ℚ)| ≤ R.big) : R.rnd n = n := R.exact_int n h

theorem rnd_zero : R.rnd 0 = 0 := by
  have := R.exact_int 0 (by simpa using le_trans zero_le_one R.one_le_big)
  simpa using this

theorem rnd_one : R.rnd 1 = 1 := by
  have := R.exact_int 1 (by simpa using R.one_le_big)
  simpa using this

theorem rep_zero : R.Rep 0 := R.rnd_zero
theorem rep_one : R.Rep 1 := R.rnd_one

/-- natural numbers up to `big` are exact -/
theorem rnd_nat (n : ℕ) (h : (n : ℚ) ≤ R.big) : R.rnd n = n := by
  have := R.exact_int (n : ℤ) (by
    rw [Int.cast_natCast, abs_of_nonneg (Nat.cast_nonneg n)]; exact h)
  simpa using this

/-- non-negative integers (as `ℤ`) up to `big` are exact -/
theorem rnd_int_nonneg (n : ℤ) (h0 : 0 ≤ n) (h : (n : ℚ) ≤ R.big) : R.rnd n = n :=
  R.exact_int n (by rw [abs_of_nonneg (by exact_mod_cast h0)]; exact h)

theorem rnd_nonneg {x : ℚ} (h : 0 ≤ x) : 0 ≤ R.rnd x := by
  have := R.monotone 0 x h; rwa [R.rnd_zero] at this

theorem rnd_le_one {x : ℚ} (h : x ≤ 1) : R.rnd x ≤ 1 := by
  have := R.monotone x 1 h; rwa [R.rnd_one] at this

theorem one_le_rnd {x : ℚ} (h : 1 ≤ x) : 1 ≤ R.rnd x := by
  have := R.monotone 1 x h; rwa [R.rnd_one] at this

/-- rounding never crosses a representable integer: below -/
theorem int_le_rnd {x : ℚ} (n : ℤ) (hn : |(n : ℚ)| ≤ R.big) (h : (n : ℚ) ≤ x) : (n : ℚ) ≤ R.rnd x := by
  have := R.monotone n x h; rwa [R.rnd_int n hn] at this

/-- rounding never crosses a representable integer: above -/
theorem rnd_le_int {x : ℚ} (n : ℤ) (hn : |(n : ℚ)| ≤ R.big) (h : x ≤ (n : ℚ)) : R.rnd x ≤ (n : ℚ) := by
  have := R.monotone x n h; rwa [R.rnd_int n hn] at this

/-- absolute error on a bounded range -/
theorem abs_err_le {x B : ℚ} (hx : |x| ≤ B) (hB : R.tiny ≤ B) : |R.rnd x - x| ≤ R.eps * B :=
  le_trans (R.faithful x) (mul_le_mul_of_nonneg_left (max_le hx hB) R.eps_nonneg)

/-- absolute error on `[0, B]`, `B ≥ 1` -/
theorem abs_err_le' {x B : ℚ} (h0 : 0 ≤ x) (hx : x ≤ B) (hB : 1 ≤ B) : |R.rnd x - x| ≤ R.eps * B :=
  R.abs_err_le (by rwa [abs_of_nonneg h0]) (le_trans R.tiny_le_one hB)

theorem err_le {x B : ℚ} (h0 : 0 ≤ x) (hx : x ≤ B) (hB : 1 ≤ B) : R.rnd x ≤ x + R.eps * B := by
  have := abs_le.mp (R.abs_err_le' h0 hx hB); linarith [this.2]

theorem le_err {x B : ℚ} (h0 : 0 ≤ x) (hx : x ≤ B) (hB : 1 ≤ B) : x - R.eps * B ≤ R.rnd x := by
  have := abs_le.mp (R.abs_err_le' h0 hx hB); linarith [this.1]

/-- the error bound in additive form: eps * (|x| + tiny) -/
theorem faithful_add (x : ℚ) : |R.rnd x - x| ≤ R.eps * (|x| + R.tiny) :=
  le_trans (R.faithful x) (mul_le_mul_of_nonneg_left
    (max_le (le_add_of_nonneg_right R.tiny_nonneg) (le_add_of_nonneg_left (abs_nonneg x))) R.eps_nonneg)

/-- (1+eps)^m ≤ 1 + 2*m*eps as long as m*eps ≤ 1/2: first-order form of accumulated relative errors -/
theorem one_add_eps_pow_le (m : ℕ) (h : (m : ℚ) * R.eps ≤ 1 / 2) : (1 + R.eps) ^ m ≤ 1 + 2 * m * R.eps := by
  have he := R.eps_nonneg
  induction m with
  | zero => simp
  | succ k ih =>
    have hk : (k : ℚ) * R.eps ≤ 1 / 2 := by push_cast at h; nlinarith
    have := ih hk
    rw [pow_succ]; push_cast at h ⊢
    have h1 : (1 + R.eps) ^ k * (1 + R.eps) ≤ (1 + 2 * k * R.eps) * (1 + R.eps) :=
      mul_le_mul_of_nonneg_right this (by linarith)
    nlinarith

/-- relative error for values of at least normal magnitude -/
theorem rel_err {x : ℚ} (hx : R.tiny ≤ |x|) : |R.rnd x - x| ≤ R.eps * |x| := by
  have := R.faithful x; rwa [max_eq_left hx] at this

theorem rnd_le_mul {x : ℚ} (hx : 1 ≤ x) : R.rnd x ≤ x * (1 + R.eps) := by
  have h0 : 0 ≤ x := le_trans zero_le_one hx
  have := abs_le.mp (R.rel_err (x := x) (by rw [abs_of_nonneg h0]; exact le_trans R.tiny_le_one hx))
  rw [abs_of_nonneg h0] at this; nlinarith [this.2]

theorem mul_le_rnd {x : ℚ} (hx : 1 ≤ x) : x * (1 - R.eps) ≤ R.rnd x := by
  have h0 : 0 ≤ x := le_trans zero_le_one hx
  have := abs_le.mp (R.rel_err (x := x) (by rw [abs_of_nonneg h0]; exact le_trans R.tiny_le_one hx))
  rw [abs_of_nonneg h0] at this; nlinarith [this.1]

/-- adding the floating-point constant 0 to a representable value is exact (`promoted_min` of float32_t) -/
theorem rnd_add_zero (x : ℚ) : R.rnd (R.rnd x + 0) = R.rnd x := by rw [add_zero, R.idem]

/-! ### non-vacuity 1: exact arithmetic -/

/-- exact rational arithmetic is a `FloatSpec` (eps = 0): the hypotheses are satisfiable, and every
    float theorem specialises to the exact-arithmetic reading of the code. -/
def exact (big : ℚ) (hbig : 1 ≤ big) : FloatSpec where
  rnd := id
  eps := 0
  tiny := 0
  big := big
  eps_nonneg := le_refl 0
  tiny_nonneg := le_refl 0
  tiny_le_one := zero_le_one
  one_le_big := hbig
  monotone := fun _ _ h => h
  idem := fun _ => rfl
  exact_int := fun _ _ => rfl
  faithful := fun x => by simp

theorem exact_isBinary32 : (exact (2 ^ 24) (by norm_num)).IsBinary32 := by
  unfold IsBinary32 exact; norm_num
theorem exact_isBinary64 : (exact (2 ^ 53) (by norm_num)).IsBinary64 := by
  unfold IsBinary64 exact; norm_num

end FloatSpec
end GilVerif
