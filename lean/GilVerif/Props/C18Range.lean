/-
  C18 -- range / periodicity / grey clauses of the hsv and hsl converters over exact rationals
  (the exact-arithmetic twins `rgbToHsvQ`, `hsvToRgbQ`, `rgbToHslQ`, `hslToRgbQ`, `hslChanQ` of Model/C18.lean: same case
  splits and thresholds as hsv.hpp / hsl.hpp), for ALL rational inputs in the documented ranges:

    * `C18_hsl_to_rgb_range`      every hsl with h >= 0, s, l in [0,1] maps to r, g, b in [0,1];
    * `C18_hsl_hue_periodic`      hue 1 and hue 0 give the same rgb for every s, l;
    * `C18_rgb_to_hsv_range`      r, g, b in [0,1]  ->  hue in [0,1), saturation in [0,1], value in [0,1];
    * `C18_rgb_to_hsl_range`      r, g, b in [0,1]  ->  hue in [0,1), saturation in [0,1], lightness in [0,1];
    * `C18_hsv_value_is_max`, `C18_hsl_lightness_is_mid`;
    * `C18_hsv_sat_zero_iff_grey` (+ `_rgb8_lattice`), `C18_hsl_sat_zero_iff_grey` (+ `_rgb8_lattice`);
    * `C18_hsv_to_rgb_max_is_v`   the largest channel of hsv -> rgb is exactly v;
    * `C18_hsv_hue_period`, `C18_hsv_hue_period_nat`   hsv -> rgb at hue h + n equals hue h for every h >= 0 and natural n.
-/
import GilVerif.Model.C18
import Mathlib.Tactic.Linarith
import Mathlib.Tactic.NormNum
import Mathlib.Algebra.Order.Floor.Ring
import Mathlib.Data.Rat.Floor
import Mathlib.Tactic.FieldSimp
import Mathlib.Algebra.Order.Field.Basic
import Mathlib.Tactic.Positivity
import Mathlib.Tactic.Ring

namespace GilVerif.Props.C18
open GilVerif.Model.C18

/-! ## helpers -/

private theorem ratio_bounds (a d : Rat) (hd : 0 ≤ d) (h1 : -d ≤ a) (h2 : a ≤ d) : -1 ≤ a / d ∧ a / d ≤ 1 := by
  rcases eq_or_lt_of_le hd with h | h
  · rw [← h]; simp
  · constructor
    · rw [le_div_iff₀ h]; linarith
    · rw [div_le_one h]; exact h2

/-- the code's `h /= 6; if (h < 0) h += 1` sends [-1, 5] into [0, 1) -/
private theorem wrap_bounds (x : Rat) (h0 : -1 ≤ x) (h1 : x ≤ 5) :
    0 ≤ (if x / 6 < 0 then x / 6 + 1 else x / 6) ∧ (if x / 6 < 0 then x / 6 + 1 else x / 6) < 1 := by
  split_ifs with h
  · constructor <;> linarith
  · constructor <;> linarith

/-- the four-piece channel function of hsl -> rgb stays between its two plateaus -/
private theorem chan_bounds (t1 t2 tc : Rat) (h12 : t1 ≤ t2) (h0 : 0 ≤ tc) :
    t1 ≤ hslChanQ t1 t2 tc ∧ hslChanQ t1 t2 tc ≤ t2 := by
  have d : 0 ≤ t2 - t1 := by linarith
  unfold hslChanQ
  split_ifs with a b c
  · constructor
    · nlinarith [mul_nonneg d h0]
    · nlinarith [mul_nonneg d (show (0:Rat) ≤ 1 - 6 * tc by linarith)]
  · exact ⟨h12, le_refl _⟩
  · have a' : 1/2 ≤ tc := not_lt.mp b
    constructor
    · nlinarith [mul_nonneg d (show (0:Rat) ≤ 2/3 - tc by linarith)]
    · nlinarith [mul_nonneg d (show (0:Rat) ≤ 1 - (2/3 - tc) * 6 by linarith)]
  · exact ⟨le_refl _, h12⟩

private theorem mm (r g b : Rat) :
    r ≤ max r (max g b) ∧ g ≤ max r (max g b) ∧ b ≤ max r (max g b)
    ∧ min r (min g b) ≤ r ∧ min r (min g b) ≤ g ∧ min r (min g b) ≤ b :=
  ⟨le_max_left _ _, le_trans (le_max_left _ _) (le_max_right _ _), le_trans (le_max_right _ _) (le_max_right _ _),
   min_le_left _ _, le_trans (min_le_right _ _) (min_le_left _ _), le_trans (min_le_right _ _) (min_le_right _ _)⟩

private theorem grey_iff (r g b : Rat) : max r (max g b) = min r (min g b) ↔ (r = g ∧ g = b) := by
  obtain ⟨h1, h2, h3, h4, h5, h6⟩ := mm r g b
  constructor
  · intro h; constructor <;> linarith
  · rintro ⟨rfl, rfl⟩; simp

/-! ## hsl -> rgb -/

/-- hue is periodic for hsl too: hue 1 denotes the same colour as hue 0, for every saturation and lightness -/
theorem C18_hsl_hue_periodic (s l : Rat) : hslToRgbQ 1 s l = hslToRgbQ 0 s l := by
  unfold hslToRgbQ
  by_cases hc : absQ s < 1 / 10000
  · simp only [hc, ↓reduceIte]
  · simp only [hc, ↓reduceIte]
    unfold hslChanQ
    norm_num

/-- every hsl triple with hue ≥ 0 (in particular in [0,1]), saturation and lightness in [0,1] maps to r, g, b in [0,1] -/
theorem C18_hsl_to_rgb_range (h s l : Rat) (hh : 0 ≤ h) (hs : 0 ≤ s ∧ s ≤ 1) (hl : 0 ≤ l ∧ l ≤ 1) :
    (0 ≤ (hslToRgbQ h s l).r ∧ (hslToRgbQ h s l).r ≤ 1) ∧ (0 ≤ (hslToRgbQ h s l).g ∧ (hslToRgbQ h s l).g ≤ 1)
    ∧ (0 ≤ (hslToRgbQ h s l).b ∧ (hslToRgbQ h s l).b ≤ 1) := by
  have T : ∀ t2, t2 = (if l < 1/2 then l * (1 + s) else (l + s) - (l * s)) → 0 ≤ 2 * l - t2 ∧ 2 * l - t2 ≤ t2 ∧ t2 ≤ 1 := by
    intro t2 e; subst e
    have p1 : 0 ≤ l * (1 - s) := mul_nonneg hl.1 (by linarith)
    have p2 : 0 ≤ l * s := mul_nonneg hl.1 hs.1
    have p3 : 0 ≤ (1 - s) * (1 - l) := mul_nonneg (by linarith) (by linarith)
    have p4 : 0 ≤ s * (1 - l) := mul_nonneg hs.1 (by linarith)
    split_ifs with c
    · refine ⟨by nlinarith, by nlinarith, by nlinarith⟩
    · have c' : 1/2 ≤ l := not_lt.mp c
      refine ⟨by nlinarith, by nlinarith, by nlinarith⟩
  unfold hslToRgbQ
  by_cases hc : absQ s < 1 / 10000
  · simp only [hc, ↓reduceIte]
    exact ⟨hl, hl, hl⟩
  · simp only [hc, ↓reduceIte]
    obtain ⟨a, b, c⟩ := T _ rfl
    generalize (if l < 1/2 then l * (1 + s) else (l + s) - (l * s)) = t2 at *
    have tr0 : 0 ≤ (if h + 1/3 > 1 then h + 1/3 - 1 else h + 1/3) := by split_ifs <;> linarith
    have tb0 : 0 ≤ (if h - 1/3 < 0 then h - 1/3 + 1 else h - 1/3) := by split_ifs <;> linarith
    have cr := chan_bounds (2 * l - t2) t2 _ b tr0
    have cg := chan_bounds (2 * l - t2) t2 _ b hh
    have cb := chan_bounds (2 * l - t2) t2 _ b tb0
    exact ⟨⟨le_trans a cr.1, le_trans cr.2 c⟩, ⟨le_trans a cg.1, le_trans cg.2 c⟩, ⟨le_trans a cb.1, le_trans cb.2 c⟩⟩

example : hslToRgbQ (1/3) 1 (1/2) = ⟨0, 1, 0⟩ ∧ hslToRgbQ 1 1 (1/2) = ⟨1, 0, 0⟩ ∧ hslToRgbQ (5/6) (1/2) (3/4) = ⟨7/8, 5/8, 7/8⟩ := by
  decide +kernel

/-! ## rgb -> hsv -/

/-- the value channel is the largest of r, g, b -/
theorem C18_hsv_value_is_max (r g b : Rat) : (rgbToHsvQ r g b).2.2 = max r (max g b) := rfl

/-- every intermediate hsv channel lies in its documented range: hue in [0,1), saturation and value in [0,1] -/
theorem C18_rgb_to_hsv_range (r g b : Rat) (hr : 0 ≤ r ∧ r ≤ 1) (hg : 0 ≤ g ∧ g ≤ 1) (hb : 0 ≤ b ∧ b ≤ 1) :
    (0 ≤ (rgbToHsvQ r g b).1 ∧ (rgbToHsvQ r g b).1 < 1) ∧ (0 ≤ (rgbToHsvQ r g b).2.1 ∧ (rgbToHsvQ r g b).2.1 ≤ 1)
    ∧ (0 ≤ (rgbToHsvQ r g b).2.2 ∧ (rgbToHsvQ r g b).2.2 ≤ 1) := by
  obtain ⟨h1, h2, h3, h4, h5, h6⟩ := mm r g b
  have h7 : max r (max g b) ≤ 1 := max_le hr.2 (max_le hg.2 hb.2)
  have h8 : 0 ≤ min r (min g b) := le_min hr.1 (le_min hg.1 hb.1)
  unfold rgbToHsvQ
  dsimp only
  generalize max r (max g b) = mx at *
  generalize min r (min g b) = mn at *
  have d0 : 0 ≤ mx - mn := by linarith
  refine ⟨?_, ?_, ⟨by linarith, h7⟩⟩
  · by_cases c0 : (if mx < 1/10000 then 0 else (mx - mn) / mx) < 1/10000
    · simp only [c0, ↓reduceIte]; norm_num
    · simp only [c0, ↓reduceIte]
      have X : -1 ≤ (if absQ (r - mx) < 1/10000 then (g - b)/(mx - mn) else if g ≥ mx then 2 + (b - r)/(mx - mn) else 4 + (r - g)/(mx - mn))
             ∧ (if absQ (r - mx) < 1/10000 then (g - b)/(mx - mn) else if g ≥ mx then 2 + (b - r)/(mx - mn) else 4 + (r - g)/(mx - mn)) ≤ 5 := by
        have q1 := ratio_bounds (g - b) (mx - mn) d0 (by linarith) (by linarith)
        have q2 := ratio_bounds (b - r) (mx - mn) d0 (by linarith) (by linarith)
        have q3 := ratio_bounds (r - g) (mx - mn) d0 (by linarith) (by linarith)
        split_ifs <;> constructor <;> linarith
      exact wrap_bounds _ X.1 X.2
  · split_ifs with c
    · norm_num
    · have mp : 0 < mx := by linarith
      exact ⟨div_nonneg d0 (le_of_lt mp), by rw [div_le_one mp]; linarith⟩

/-- saturation 0 means grey (for colours whose maximum is at least the code's 10^-4 threshold) -/
theorem C18_hsv_sat_zero_iff_grey (r g b : Rat) (hm : 1/10000 ≤ max r (max g b)) :
    (rgbToHsvQ r g b).2.1 = 0 ↔ (r = g ∧ g = b) := by
  rw [← grey_iff]
  unfold rgbToHsvQ
  dsimp only
  have c : ¬ (max r (max g b) < 1/10000) := not_lt.mpr hm
  simp only [c, ↓reduceIte]
  have ne : max r (max g b) ≠ 0 := by intro h; rw [h] at hm; norm_num at hm
  rw [div_eq_zero_iff]
  constructor
  · rintro (h | h)
    · linarith
    · exact absurd h ne
  · intro h; left; linarith

example : (1:Rat)/10000 ≤ max (10/255) (max (200/255) (30/255)) := by decide +kernel

/-- on EVERY rgb8 pixel: saturation 0 iff the pixel is grey -/
theorem C18_hsv_sat_zero_iff_grey_rgb8_lattice (i j k : Nat) (hi : i ≤ 255) (hj : j ≤ 255) (hk : k ≤ 255) :
    (rgbToHsvQ (i/255) (j/255) (k/255)).2.1 = 0 ↔ (i = j ∧ j = k) := by
  have inj : ∀ a b : Nat, ((a:ℚ)/255 = (b:ℚ)/255) ↔ a = b := by
    intro a b
    rw [div_left_inj' (by norm_num : (255:ℚ) ≠ 0)]
    exact Nat.cast_inj
  by_cases z : i = 0 ∧ j = 0 ∧ k = 0
  · obtain ⟨rfl, rfl, rfl⟩ := z
    simp only [Nat.cast_zero, zero_div, and_self, iff_true]
    decide +kernel
  · have hM : (1:ℚ)/10000 ≤ max ((i:ℚ)/255) (max ((j:ℚ)/255) ((k:ℚ)/255)) := by
      have big : ∀ n : Nat, 1 ≤ n → (1:ℚ)/10000 ≤ (n:ℚ)/255 := by
        intro n hn
        have : (1:ℚ) ≤ (n:ℚ) := by exact_mod_cast hn
        rw [le_div_iff₀ (by norm_num)]; linarith
      by_cases hi0 : i = 0
      · by_cases hj0 : j = 0
        · have : 1 ≤ k := by omega
          exact le_trans (big k this) (le_trans (le_max_right _ _) (le_max_right _ _))
        · exact le_trans (big j (by omega)) (le_trans (le_max_left _ _) (le_max_right _ _))
      · exact le_trans (big i (by omega)) (le_max_left _ _)
    rw [C18_hsv_sat_zero_iff_grey _ _ _ hM, inj, inj]

/-! ## hsv -> rgb: the largest channel is v -/

/-- for hue ≥ 0, saturation in [0,1], value ≥ 0 the largest channel of hsv -> rgb is exactly v -/
theorem C18_hsv_to_rgb_max_is_v (h s v : Rat) (hh : 0 ≤ h) (hs : 0 ≤ s ∧ s ≤ 1) (hv : 0 ≤ v) :
    max (hsvToRgbQ h s v).r (max (hsvToRgbQ h s v).g (hsvToRgbQ h s v).b) = v := by
  have f0 : 0 ≤ h * 6 - (((h * 6).floor.toNat : Nat) : Rat) ∧ h * 6 - (((h * 6).floor.toNat : Nat) : Rat) < 1 := by
    have hx : (0:Rat) ≤ h * 6 := by linarith
    have h1 : (⌊h * 6⌋ : Int) = (h * 6).floor := rfl
    have fl0 : 0 ≤ (h * 6).floor := by rw [← h1]; exact Int.floor_nonneg.mpr hx
    have e : ((((h * 6).floor.toNat : Nat)) : Rat) = (((h * 6).floor : Int) : Rat) := by
      have : ((((h * 6).floor.toNat : Nat)) : Int) = (h * 6).floor := Int.toNat_of_nonneg fl0
      exact_mod_cast this
    rw [e, ← h1]
    constructor
    · linarith [Int.floor_le (h * 6)]
    · linarith [Int.lt_floor_add_one (h * 6)]
  obtain ⟨f0, f1⟩ := f0
  unfold hsvToRgbQ
  simp only []
  generalize h * 6 - (((h * 6).floor.toNat : Nat) : Rat) = fr at *
  have p1 : v * (1 - s) ≤ v := by nlinarith [mul_nonneg hv hs.1]
  have q1 : v * (1 - s * fr) ≤ v := by nlinarith [mul_nonneg hv (mul_nonneg hs.1 f0)]
  have t1 : v * (1 - s * (1 - fr)) ≤ v := by nlinarith [mul_nonneg hv (mul_nonneg hs.1 (show 0 ≤ 1 - fr by linarith))]
  by_cases hc : ((if s < 0 then -s else s) < 1 / 10000)
  · simp only [hc, ↓reduceIte, max_self]
  · simp only [hc, ↓reduceIte]
    generalize (h * 6).floor.toNat % 6 = i
    obtain _ | _ | _ | _ | _ | i := i <;> simp only [] <;>
      first
      | (rw [max_eq_left (max_le t1 p1)])
      | (rw [max_eq_left (max_le p1 q1)])
      | (rw [max_eq_left p1 (a := v), max_eq_right q1])
      | (rw [max_eq_left t1 (a := v), max_eq_right p1])
      | (rw [max_eq_right q1, max_eq_right p1])
      | (rw [max_eq_right p1 (b := v), max_eq_right t1])

/-! ## hsv -> rgb: hue has period 1 -/

/-- hue has period 1 on the whole non-negative axis: hue h + 1 denotes the same colour as hue h (in particular 1 and 0) -/
theorem C18_hsv_hue_period (h s v : Rat) (hh : 0 ≤ h) : hsvToRgbQ (h + 1) s v = hsvToRgbQ h s v := by
  have hx : (0:Rat) ≤ h * 6 := by linarith
  have e : (h + 1) * 6 = h * 6 + 6 := by ring
  have h1 : (h * 6 + 6).floor = (h * 6).floor + 6 := by
    show ⌊h * 6 + 6⌋ = ⌊h * 6⌋ + 6
    have := Int.floor_add_intCast (h * 6) 6
    exact_mod_cast this
  have f0 : 0 ≤ (h * 6).floor := by
    show 0 ≤ ⌊h * 6⌋
    exact Int.floor_nonneg.mpr hx
  have fl : ((h * 6 + 6).floor).toNat = (h * 6).floor.toNat + 6 := by rw [h1]; omega
  have fr : h * 6 + 6 - (((h * 6).floor.toNat : Rat) + 6) = h * 6 - ((h * 6).floor.toNat : Rat) := by ring
  unfold hsvToRgbQ
  simp only [e, fl, Nat.add_mod_right, Nat.cast_add, Nat.cast_ofNat, fr]

theorem C18_hsv_hue_period_nat (n : Nat) (h s v : Rat) (hh : 0 ≤ h) : hsvToRgbQ (h + n) s v = hsvToRgbQ h s v := by
  induction n with
  | zero => simp
  | succ k ih =>
    have : h + ((k + 1 : Nat) : Rat) = (h + k) + 1 := by push_cast; ring
    rw [this, C18_hsv_hue_period _ s v (by positivity), ih]

example : hsvToRgbQ (7/3) 1 1 = hsvToRgbQ (1/3) 1 1 ∧ hsvToRgbQ (1/3) 1 1 = ⟨0, 1, 0⟩ := by decide +kernel

/-! ## rgb -> hsl -/

/-- lightness is the mid-point of the largest and smallest channel (greys: the common value) -/
theorem C18_hsl_lightness_is_mid (r g b : Rat) : (rgbToHslQ r g b).2.2 = (min r (min g b) + max r (max g b)) / 2 ∨
    (absQ (min r (min g b) - max r (max g b)) < 1/1000 ∧ (rgbToHslQ r g b).2.2 = r) := by
  unfold rgbToHslQ
  dsimp only
  by_cases c : absQ (min r (min g b) - max r (max g b)) < 1/1000
  · right; simp only [c, ↓reduceIte, and_self]
  · left; simp only [c, ↓reduceIte]

/-- every intermediate hsl channel lies in its documented range: hue in [0,1), saturation and lightness in [0,1] -/
theorem C18_rgb_to_hsl_range (r g b : Rat) (hr : 0 ≤ r ∧ r ≤ 1) (hg : 0 ≤ g ∧ g ≤ 1) (hb : 0 ≤ b ∧ b ≤ 1) :
    (0 ≤ (rgbToHslQ r g b).1 ∧ (rgbToHslQ r g b).1 < 1) ∧ (0 ≤ (rgbToHslQ r g b).2.1 ∧ (rgbToHslQ r g b).2.1 ≤ 1)
    ∧ (0 ≤ (rgbToHslQ r g b).2.2 ∧ (rgbToHslQ r g b).2.2 ≤ 1) := by
  obtain ⟨h1, h2, h3, h4, h5, h6⟩ := mm r g b
  have h7 : max r (max g b) ≤ 1 := max_le hr.2 (max_le hg.2 hb.2)
  have h8 : 0 ≤ min r (min g b) := le_min hr.1 (le_min hg.1 hb.1)
  unfold rgbToHslQ
  dsimp only
  generalize max r (max g b) = mx at *
  generalize min r (min g b) = mn at *
  have d0 : 0 ≤ mx - mn := by linarith
  by_cases c : absQ (mn - mx) < 1/1000
  · simp only [c, ↓reduceIte]
    exact ⟨by norm_num, by norm_num, hr⟩
  · simp only [c, ↓reduceIte]
    refine ⟨?_, ?_, ⟨by linarith, by linarith⟩⟩
    · have X : -1 ≤ (if absQ (mx - r) < 1/10000 then (g - b)/(mx - mn) else if absQ (mx - g) < 1/10000 then 2 + (b - r)/(mx - mn) else 4 + (r - g)/(mx - mn))
             ∧ (if absQ (mx - r) < 1/10000 then (g - b)/(mx - mn) else if absQ (mx - g) < 1/10000 then 2 + (b - r)/(mx - mn) else 4 + (r - g)/(mx - mn)) ≤ 5 := by
        have q1 := ratio_bounds (g - b) (mx - mn) d0 (by linarith) (by linarith)
        have q2 := ratio_bounds (b - r) (mx - mn) d0 (by linarith) (by linarith)
        have q3 := ratio_bounds (r - g) (mx - mn) d0 (by linarith) (by linarith)
        split_ifs <;> constructor <;> linarith
      exact wrap_bounds _ X.1 X.2
    · have s1 : 0 ≤ (mx - mn) / (mx + mn) := div_nonneg d0 (by linarith)
      have s2 : 0 ≤ (mx - mn) / (2 - (mx + mn)) := div_nonneg d0 (by linarith)
      split_ifs <;> constructor <;> linarith

/-- saturation 0 means grey: a pixel that is not grey by the code's test (max - min at least 10^-3) has positive saturation,
    a pixel that is grey by that test gets saturation 0 -/
theorem C18_hsl_sat_zero_iff_grey (r g b : Rat) (hr : 0 ≤ r ∧ r ≤ 1) (hg : 0 ≤ g ∧ g ≤ 1) (hb : 0 ≤ b ∧ b ≤ 1)
    (A : max r (max g b) = min r (min g b) ∨ 1/1000 ≤ max r (max g b) - min r (min g b)) :
    (rgbToHslQ r g b).2.1 = 0 ↔ (r = g ∧ g = b) := by
  rw [← grey_iff]
  obtain ⟨h1, h2, h3, h4, h5, h6⟩ := mm r g b
  have h7 : max r (max g b) ≤ 1 := max_le hr.2 (max_le hg.2 hb.2)
  have h8 : 0 ≤ min r (min g b) := le_min hr.1 (le_min hg.1 hb.1)
  unfold rgbToHslQ
  dsimp only
  generalize max r (max g b) = mx at *
  generalize min r (min g b) = mn at *
  rcases A with e | d
  · subst e
    have c : absQ (mx - mx) < 1/1000 := by unfold absQ; norm_num
    simp only [c, ↓reduceIte]
  · have c : ¬ (absQ (mn - mx) < 1/1000) := by
      unfold absQ; have : mn - mx < 0 := by linarith
      simp only [this, ↓reduceIte]; linarith
    simp only [c, ↓reduceIte]
    have dp : 0 < mx - mn := by linarith
    have s1 : 0 < (mx - mn) / (mx + mn) := div_pos dp (by linarith)
    have s2 : 0 < (mx - mn) / (2 - (mx + mn)) := div_pos dp (by linarith)
    constructor
    · intro h; exfalso; revert h
      split_ifs <;> intro h <;> linarith
    · intro h; exfalso; linarith

/-- on EVERY rgb8 pixel: hsl saturation 0 iff the pixel is grey -/
theorem C18_hsl_sat_zero_iff_grey_rgb8_lattice (i j k : Nat) (hi : i ≤ 255) (hj : j ≤ 255) (hk : k ≤ 255) :
    (rgbToHslQ (i/255) (j/255) (k/255)).2.1 = 0 ↔ (i = j ∧ j = k) := by
  have inj : ∀ a b : Nat, ((a:ℚ)/255 = (b:ℚ)/255) ↔ a = b := by
    intro a b
    rw [div_left_inj' (by norm_num : (255:ℚ) ≠ 0)]
    exact Nat.cast_inj
  have unit : ∀ n : Nat, n ≤ 255 → (0:ℚ) ≤ (n:ℚ)/255 ∧ (n:ℚ)/255 ≤ 1 := by
    intro n hn
    have : (n:ℚ) ≤ 255 := by exact_mod_cast hn
    exact ⟨by positivity, by rw [div_le_one (by norm_num)]; exact this⟩
  have hM : max ((i:ℚ)/255) (max ((j:ℚ)/255) ((k:ℚ)/255)) = ((max i (max j k) : ℕ) : ℚ) / 255 := by
    push_cast; rw [max_div_div_right (by norm_num), max_div_div_right (by norm_num)]
  have hm : min ((i:ℚ)/255) (min ((j:ℚ)/255) ((k:ℚ)/255)) = ((min i (min j k) : ℕ) : ℚ) / 255 := by
    push_cast; rw [min_div_div_right (by norm_num), min_div_div_right (by norm_num)]
  have hmM : min i (min j k) ≤ max i (max j k) := le_trans (min_le_left _ _) (le_max_left _ _)
  rw [C18_hsl_sat_zero_iff_grey _ _ _ (unit i hi) (unit j hj) (unit k hk), inj, inj]
  rw [hM, hm]
  generalize max i (max j k) = M at *
  generalize min i (min j k) = m at *
  by_cases h : M = m
  · left; rw [h]
  · right
    have h1 : m + 1 ≤ M := by omega
    have : (m:ℚ) + 1 ≤ (M:ℚ) := by exact_mod_cast h1
    rw [← sub_div, le_div_iff₀ (by norm_num)]; linarith

example : (rgbToHslQ (10/255) (200/255) (30/255)).2.1 = 19/21 ∧ (rgbToHsvQ (10/255) (200/255) (30/255)).2.1 = 19/20 := by decide +kernel

end GilVerif.Props.C18
