/-
  C06, floating-point paths of channel_convert -- PROVED relative to `FloatSpec` (Basic/FloatSpec.lean).

  ASSUMED (trusted base): the IEEE-754 arithmetic of the target satisfies `FloatSpec` -- binary32 (`float`) with
  eps = 2^-24, big = 2^24 for the float32_t converters; binary64 (`double`) with eps = 2^-53, big = 2^53 for the
  non-divisible down-conversion -- and the abstract operation sequences of Lemmas/C06Float.lean (`fromF`, `toF`,
  `downNondivF`: one rounding per floating-point operation or int→float conversion, no fused multiply-add) are
  the ones the compiled code performs (tied by the bit-exact correspondence run of the executable
  `Float32`/`Float` model of Model/C06.lean, which has the same sequences).
  PROVED, for EVERY `R : FloatSpec` and all inputs in range (budget hypotheses on `R.eps` explicit):
    float32 → integer (max m):  `⌊rnd (rnd (x*m) + 1/2)⌋`: 0 ↦ 0, 1 ↦ m, monotone, range [0,m] for x in [0,1],
        |result - x*m| ≤ 1/2 + eps*(2m+1)   (< 1 unit for binary32 and m ≤ 2^21, so for every ≤ 16-bit channel);
    integer → float32:  `rnd (s/m)`: 0 ↦ 0, m ↦ 1, monotone, range [0,1], representable, |result - s/m| ≤ eps;
    round trip int → float32 → int is the identity when eps*(3m+1) < 1/2 (binary32: every m ≤ 2^21;
        error budget: eps*m for the division, eps*m for the product, eps*(m+1) for the addition of 0.5f, and
        the integer s sits 1/2 away from both truncation boundaries);
    non-divisible down-conversion through `double` (sm > dm, 2*dm ≤ sm as for all maxima 2^a-1 > 2^b-1, cf.
        `C06_pow2_maxima_gap`):  `⌊rnd ((s + div2)/div)⌋`, div = rnd (sm/dm), div2 = ⌊rnd (div/2)⌋:
        0 ↦ 0, sm ↦ dm, monotone, range [0,dm], |result - s*dm/sm| < 1 destination unit, under
        eps*sm ≤ 1/64 and 2*sm ≤ big (binary64: every sm < 2^32);
    round trip  non-divisible up-conversion ⌊s*dm/sm⌋ (integral, exact) then the `double` down-conversion is
        the identity when additionally eps*sm*dm ≤ 1 (binary64: sm*dm ≤ 2^53, e.g. every pair with
        sm ≤ 2^16-1 and dm ≤ 2^32-1).
  This replaces the exact-arithmetic reading of `C06_down_nondiv_exact_laws_partial` / `C06_roundtrip_nondiv_partial`
  (Props/C06.lean) by statements about the ROUNDED computation.  (The rounded computation is not equal to the
  exact reading: on the real code `channel_convert` of the 5-bit value 30 to 4 bits is 14, the exact reading
  gives 15; both satisfy every clause of the property.)
  NOT covered: the uint32_t <-> float32_t special converters (max = 2^32-1 is not a binary32 value).
  Only property theorems live here (named C06_float_*); helper lemmas are in Lemmas/C06Float.lean.
-/
import GilVerif.Lemmas.C06Float
import GilVerif.Basic.FloatNearest
import GilVerif.Model.C06

namespace GilVerif.Props.C06Float
open GilVerif GilVerif.FloatSpec GilVerif.Lemmas.C06Float

/-! ## float32 → unsigned integral channel with maximum m -/

/-- min ↦ min, max ↦ max -/
theorem C06_float_to_int_endpoints (R : FloatSpec) (m : ℤ) (hm1 : 1 ≤ m) (hmb : (m : ℚ) ≤ R.big)
    (hb : R.eps * (m + 1) < 1 / 2) : fromF R m 0 = 0 ∧ fromF R m 1 = m := by
  have hm0 : (1 : ℚ) ≤ m := by exact_mod_cast hm1
  have he0 := R.eps_nonneg
  constructor
  · rw [fromF_closed R hm1 hmb (le_refl 0), zero_mul, R.rnd_zero, zero_add, Int.floor_eq_iff]
    have h1 := R.rnd_nonneg (x := 1 / 2) (by norm_num)
    have h2 := R.err_le (x := 1 / 2) (B := 1) (by norm_num) (by norm_num) (le_refl 1)
    constructor
    · exact_mod_cast h1
    · push_cast; nlinarith
  · rw [fromF_closed R hm1 hmb zero_le_one, one_mul, rnd_max R hm1 hmb, Int.floor_eq_iff]
    have h1 := R.int_le_rnd (x := (m : ℚ) + 1 / 2) m (by rw [abs_of_nonneg (by linarith)]; exact hmb) (by linarith)
    have h2 := R.err_le (x := (m : ℚ) + 1 / 2) (B := m + 1) (by linarith) (by linarith) (by linarith)
    exact ⟨h1, by linarith⟩

/-- order preserving (for all non-negative inputs) -/
theorem C06_float_to_int_monotone (R : FloatSpec) (m : ℤ) (hm1 : 1 ≤ m) (hmb : (m : ℚ) ≤ R.big)
    (x y : ℚ) (hx : 0 ≤ x) (hxy : x ≤ y) : fromF R m x ≤ fromF R m y := by
  have hm0 : (0 : ℚ) ≤ m := by exact_mod_cast (show (0 : ℤ) ≤ m by omega)
  rw [fromF_closed R hm1 hmb hx, fromF_closed R hm1 hmb (le_trans hx hxy)]
  apply Int.floor_le_floor
  apply R.monotone
  have := R.monotone _ _ (mul_le_mul_of_nonneg_right hxy hm0)
  linarith

/-- channel values of [0,1] land in [0, m] -/
theorem C06_float_to_int_range (R : FloatSpec) (m : ℤ) (hm1 : 1 ≤ m) (hmb : (m : ℚ) ≤ R.big)
    (hb : R.eps * (m + 1) < 1 / 2) (x : ℚ) (hx : 0 ≤ x) (hx1 : x ≤ 1) : 0 ≤ fromF R m x ∧ fromF R m x ≤ m := by
  have h0 := C06_float_to_int_monotone R m hm1 hmb 0 x (le_refl 0) hx
  have h1 := C06_float_to_int_monotone R m hm1 hmb x 1 hx hx1
  obtain ⟨e0, e1⟩ := C06_float_to_int_endpoints R m hm1 hmb hb
  rw [e0] at h0; rw [e1] at h1; exact ⟨h0, h1⟩

/-- within half a unit plus the rounding terms of the exact x*m: -1/2 - eps*(2m+1) < result - x*m ≤ 1/2 + eps*(2m+1) -/
theorem C06_float_to_int_error (R : FloatSpec) (m : ℤ) (hm1 : 1 ≤ m) (hmb : (m : ℚ) ≤ R.big)
    (x : ℚ) (hx : 0 ≤ x) (hx1 : x ≤ 1) : |(fromF R m x : ℚ) - x * m| ≤ 1 / 2 + R.eps * (2 * m + 1) := by
  obtain ⟨-, -, hp, -, hq⟩ := fromF_steps R hm1 hmb hx hx1
  rw [fromF_closed R hm1 hmb hx]
  have f1 := Int.floor_le (R.rnd (R.rnd (x * m) + 1 / 2))
  have f2 := Int.lt_floor_add_one (R.rnd (R.rnd (x * m) + 1 / 2))
  rw [abs_le] at hp hq ⊢
  constructor <;> linarith [hp.1, hp.2, hq.1, hq.2]

/-- binary32, every maximum up to 2^21 (all channels of at most 21 bits): all clauses, error < 1 unit -/
theorem C06_float_to_int_binary32 (R : FloatSpec) (h32 : R.IsBinary32) (m : ℤ) (hm1 : 1 ≤ m) (hm : m ≤ 2 ^ 21)
    (x y : ℚ) (hx : 0 ≤ x) (hxy : x ≤ y) (hy1 : y ≤ 1) :
    fromF R m 0 = 0 ∧ fromF R m 1 = m ∧ fromF R m x ≤ fromF R m y ∧ 0 ≤ fromF R m x ∧ fromF R m x ≤ m
    ∧ |(fromF R m x : ℚ) - x * m| < 1 := by
  obtain ⟨he, hbig⟩ := h32
  have he0 := R.eps_nonneg
  have hmq : (m : ℚ) ≤ 2 ^ 21 := by exact_mod_cast hm
  have hm0 : (1 : ℚ) ≤ m := by exact_mod_cast hm1
  have hmb : (m : ℚ) ≤ R.big := by norm_num at hmq hbig; linarith
  have hb' : R.eps * (2 * m + 1) < 1 / 2 := by
    have : R.eps * (2 * m + 1) ≤ 1 / 2 ^ 24 * (2 * 2 ^ 21 + 1) :=
      mul_le_mul he (by linarith) (by linarith) (by norm_num)
    norm_num at this ⊢; linarith
  have hb : R.eps * (m + 1) < 1 / 2 := by nlinarith
  obtain ⟨e0, e1⟩ := C06_float_to_int_endpoints R m hm1 hmb hb
  obtain ⟨r0, r1⟩ := C06_float_to_int_range R m hm1 hmb hb x hx (le_trans hxy hy1)
  refine ⟨e0, e1, C06_float_to_int_monotone R m hm1 hmb x y hx hxy, r0, r1, ?_⟩
  exact lt_of_le_of_lt (C06_float_to_int_error R m hm1 hmb x hx (le_trans hxy hy1)) (by linarith)

/-! ## unsigned integral channel with maximum m → float32 -/

/-- the two int→float promotions are exact: the conversion is one rounding of the exact quotient -/
theorem C06_float_of_int_closed (R : FloatSpec) (m s : ℤ) (hm1 : 1 ≤ m) (hmb : (m : ℚ) ≤ R.big) (hs0 : 0 ≤ s) (hs : s ≤ m) :
    toF R m s = R.rnd ((s : ℚ) / m) := by
  have hsq : (s : ℚ) ≤ m := by exact_mod_cast hs
  unfold toF; rw [rnd_max R hm1 hmb, R.rnd_int_nonneg s hs0 (le_trans hsq hmb)]

theorem C06_float_of_int_endpoints (R : FloatSpec) (m : ℤ) (hm1 : 1 ≤ m) (hmb : (m : ℚ) ≤ R.big) :
    toF R m 0 = 0 ∧ toF R m m = 1 := by
  have hm0 : (m : ℚ) ≠ 0 := by
    have : (1 : ℚ) ≤ m := by exact_mod_cast hm1
    linarith
  rw [C06_float_of_int_closed R m 0 hm1 hmb (le_refl 0) (by omega), C06_float_of_int_closed R m m hm1 hmb (by omega) (le_refl m)]
  rw [Int.cast_zero, zero_div, div_self hm0]
  exact ⟨R.rnd_zero, R.rnd_one⟩

theorem C06_float_of_int_monotone (R : FloatSpec) (m s t : ℤ) (hm1 : 1 ≤ m) (hmb : (m : ℚ) ≤ R.big)
    (hs0 : 0 ≤ s) (hst : s ≤ t) (ht : t ≤ m) : toF R m s ≤ toF R m t := by
  have hm0 : (0 : ℚ) ≤ m := by exact_mod_cast (show (0 : ℤ) ≤ m by omega)
  rw [C06_float_of_int_closed R m s hm1 hmb hs0 (by omega), C06_float_of_int_closed R m t hm1 hmb (by omega) ht]
  exact R.monotone _ _ (div_le_div_of_nonneg_right (by exact_mod_cast hst) hm0)

/-- the result is a float32 channel value: in [0,1], representable; within eps of s/m -/
theorem C06_float_of_int_range_error (R : FloatSpec) (m s : ℤ) (hm1 : 1 ≤ m) (hmb : (m : ℚ) ≤ R.big) (hs0 : 0 ≤ s) (hs : s ≤ m) :
    0 ≤ toF R m s ∧ toF R m s ≤ 1 ∧ R.Rep (toF R m s) ∧ |toF R m s - (s : ℚ) / m| ≤ R.eps := by
  have hm0 : (0 : ℚ) < m := by exact_mod_cast (show (0 : ℤ) < m by omega)
  have h0 : (0 : ℚ) ≤ (s : ℚ) / m := div_nonneg (by exact_mod_cast hs0) hm0.le
  have h1 : (s : ℚ) / m ≤ 1 := by rw [div_le_iff₀ hm0, one_mul]; exact_mod_cast hs
  rw [C06_float_of_int_closed R m s hm1 hmb hs0 hs]
  refine ⟨R.rnd_nonneg h0, R.rnd_le_one h1, R.rep_rnd _, ?_⟩
  have := R.abs_err_le' h0 h1 (le_refl 1); rwa [mul_one] at this

/-- round trip int → float32 → int is the identity; error budget eps*(3m+1) < 1/2 -/
theorem C06_float_roundtrip (R : FloatSpec) (m s : ℤ) (hm1 : 1 ≤ m) (hmb : (m : ℚ) ≤ R.big)
    (hb : R.eps * (3 * m + 1) < 1 / 2) (hs0 : 0 ≤ s) (hs : s ≤ m) : fromF R m (toF R m s) = s := by
  obtain ⟨f0, f1, -, fe⟩ := C06_float_of_int_range_error R m s hm1 hmb hs0 hs
  obtain ⟨-, -, hp, -, hq⟩ := fromF_steps R hm1 hmb f0 f1
  have hm0 : (0 : ℚ) < m := by exact_mod_cast (show (0 : ℤ) < m by omega)
  rw [fromF_closed R hm1 hmb f0, Int.floor_eq_iff]
  set f := toF R m s
  -- |f*m - s| ≤ eps*m
  have hfm : |f * m - s| ≤ R.eps * m := by
    have e : f * m - s = (f - (s : ℚ) / m) * m := by field_simp
    rw [e, abs_mul, abs_of_pos hm0]
    exact mul_le_mul_of_nonneg_right fe hm0.le
  rw [abs_le] at hp hq hfm
  constructor <;> linarith [hp.1, hp.2, hq.1, hq.2, hfm.1, hfm.2]

/-- binary32: end points, monotone, range, error ≤ 2^-24 and the round trip, for every maximum up to 2^21 -/
theorem C06_float_of_int_binary32 (R : FloatSpec) (h32 : R.IsBinary32) (m s t : ℤ) (hm1 : 1 ≤ m) (hm : m ≤ 2 ^ 21)
    (hs0 : 0 ≤ s) (hst : s ≤ t) (ht : t ≤ m) :
    toF R m 0 = 0 ∧ toF R m m = 1 ∧ toF R m s ≤ toF R m t ∧ 0 ≤ toF R m s ∧ toF R m s ≤ 1
    ∧ |toF R m s - (s : ℚ) / m| ≤ 1 / 2 ^ 24 ∧ fromF R m (toF R m s) = s := by
  obtain ⟨he, hbig⟩ := h32
  have he0 := R.eps_nonneg
  have hmq : (m : ℚ) ≤ 2 ^ 21 := by exact_mod_cast hm
  have hm0 : (1 : ℚ) ≤ m := by exact_mod_cast hm1
  have hmb : (m : ℚ) ≤ R.big := by norm_num at hmq hbig; linarith
  have hb : R.eps * (3 * m + 1) < 1 / 2 := by
    have : R.eps * (3 * m + 1) ≤ 1 / 2 ^ 24 * (3 * 2 ^ 21 + 1) :=
      mul_le_mul he (by linarith) (by linarith) (by norm_num)
    norm_num at this ⊢; linarith
  obtain ⟨e0, e1⟩ := C06_float_of_int_endpoints R m hm1 hmb
  obtain ⟨r0, r1, -, re⟩ := C06_float_of_int_range_error R m s hm1 hmb hs0 (by omega)
  exact ⟨e0, e1, C06_float_of_int_monotone R m s t hm1 hmb hs0 hst ht, r0, r1, le_trans re he,
    C06_float_roundtrip R m s hm1 hmb hb hs0 (by omega)⟩

/-! ## non-divisible down-conversion through `double` (srcMax sm > dstMax dm) -/

/-- min ↦ min, max ↦ max -/
theorem C06_float_down_nondiv_endpoints (R : FloatSpec) (sm dm : ℤ) (hd1 : 1 ≤ dm) (hgap : 2 * dm ≤ sm)
    (hbig : 2 * (sm : ℚ) ≤ R.big) (heps : R.eps * sm ≤ 1 / 64) :
    downNondivF R sm dm 0 = 0 ∧ downNondivF R sm dm sm = dm := by
  obtain ⟨-, hD2, hDlo, hDhi⟩ := divD_facts R hd1 hgap hbig heps
  obtain ⟨hh1, hhD, hhS⟩ := div2_facts R hd1 hgap hbig heps
  have he := eps_small R hd1 hgap hbig heps
  have he0 := R.eps_nonneg
  have hT1 : (1 : ℚ) ≤ dm := by exact_mod_cast hd1
  have hST : 2 * (dm : ℚ) ≤ sm := by exact_mod_cast hgap
  have hh1q : (1 : ℚ) ≤ div2 R sm dm := by exact_mod_cast hh1
  have hD0 : (0 : ℚ) < divD R sm dm := by linarith
  constructor
  · rw [downNondivF_closed R hd1 hgap hbig heps (le_refl 0) (by omega), Int.floor_eq_iff]
    obtain ⟨hy0, -, -⟩ := quotient_facts R hd1 hgap hbig heps (s := 0) (le_refl 0) (by omega)
    have hy1 : ((0 : ℤ) + (div2 R sm dm : ℚ)) / divD R sm dm ≤ (1 + R.eps) / 2 := by
      rw [div_le_iff₀ hD0]; push_cast; linarith
    have hq := R.err_le hy0 (by linarith) (le_refl 1)
    exact ⟨by exact_mod_cast R.rnd_nonneg hy0, by push_cast; linarith⟩
  · rw [downNondivF_closed R hd1 hgap hbig heps (by omega) (le_refl sm), Int.floor_eq_iff]
    obtain ⟨hy0, hyU, -⟩ := quotient_facts R hd1 hgap hbig heps (s := sm) (by omega) (le_refl sm)
    have hyL : (dm : ℚ) ≤ ((sm : ℚ) + div2 R sm dm) / divD R sm dm := by
      rw [le_div_iff₀ hD0]; linarith
    have hq1 := R.int_le_rnd dm (by rw [abs_of_nonneg (by linarith)]; linarith) hyL
    have hq2 := R.err_le (B := dm + 1) hy0 (by linarith) (by linarith)
    have : R.eps * ((dm : ℚ) + 1) ≤ 1 / 64 := by nlinarith
    exact ⟨hq1, by linarith⟩

/-- order preserving -/
theorem C06_float_down_nondiv_monotone (R : FloatSpec) (sm dm : ℤ) (hd1 : 1 ≤ dm) (hgap : 2 * dm ≤ sm)
    (hbig : 2 * (sm : ℚ) ≤ R.big) (heps : R.eps * sm ≤ 1 / 64) (s t : ℤ) (hs0 : 0 ≤ s) (hst : s ≤ t) (ht : t ≤ sm) :
    downNondivF R sm dm s ≤ downNondivF R sm dm t := by
  obtain ⟨-, hD2, -, -⟩ := divD_facts R hd1 hgap hbig heps
  rw [downNondivF_closed R hd1 hgap hbig heps hs0 (by omega), downNondivF_closed R hd1 hgap hbig heps (by omega) ht]
  apply Int.floor_le_floor
  apply R.monotone
  apply div_le_div_of_nonneg_right _ (by linarith)
  have : (s : ℚ) ≤ t := by exact_mod_cast hst
  linarith

/-- every source value lands in [0, dm] -/
theorem C06_float_down_nondiv_range (R : FloatSpec) (sm dm : ℤ) (hd1 : 1 ≤ dm) (hgap : 2 * dm ≤ sm)
    (hbig : 2 * (sm : ℚ) ≤ R.big) (heps : R.eps * sm ≤ 1 / 64) (s : ℤ) (hs0 : 0 ≤ s) (hs : s ≤ sm) :
    0 ≤ downNondivF R sm dm s ∧ downNondivF R sm dm s ≤ dm := by
  obtain ⟨e0, e1⟩ := C06_float_down_nondiv_endpoints R sm dm hd1 hgap hbig heps
  have h0 := C06_float_down_nondiv_monotone R sm dm hd1 hgap hbig heps 0 s (le_refl 0) hs0 hs
  have h1 := C06_float_down_nondiv_monotone R sm dm hd1 hgap hbig heps s sm hs0 hs (le_refl sm)
  rw [e0] at h0; rw [e1] at h1; exact ⟨h0, h1⟩

/-- less than one destination unit from the exact linear map s*dm/sm (rational and integer form) -/
theorem C06_float_down_nondiv_error (R : FloatSpec) (sm dm : ℤ) (hd1 : 1 ≤ dm) (hgap : 2 * dm ≤ sm)
    (hbig : 2 * (sm : ℚ) ≤ R.big) (heps : R.eps * sm ≤ 1 / 64) (s : ℤ) (hs0 : 0 ≤ s) (hs : s ≤ sm) :
    |(downNondivF R sm dm s : ℚ) - (s : ℚ) * dm / sm| < 1
    ∧ -sm < downNondivF R sm dm s * sm - s * dm ∧ downNondivF R sm dm s * sm - s * dm < sm := by
  obtain ⟨hh1, -, -⟩ := div2_facts R hd1 hgap hbig heps
  have hratio := div2_ratio R hd1 hgap hbig heps
  obtain ⟨hy0, hyU, hyz⟩ := quotient_facts R hd1 hgap hbig heps hs0 hs
  have he0 := R.eps_nonneg
  have hT1 : (1 : ℚ) ≤ dm := by exact_mod_cast hd1
  have hST : 2 * (dm : ℚ) ≤ sm := by exact_mod_cast hgap
  have hS0 : (0 : ℚ) < sm := by linarith
  have hh1q : (1 : ℚ) ≤ div2 R sm dm := by exact_mod_cast hh1
  have hq := R.abs_err_le' (B := dm + 1) hy0 (by linarith) (by linarith)
  have key : |(downNondivF R sm dm s : ℚ) - (s : ℚ) * dm / sm| < 1 := by
    rw [downNondivF_closed R hd1 hgap hbig heps hs0 hs]
    set y := ((s : ℚ) + div2 R sm dm) / divD R sm dm
    have f1 := Int.floor_le (R.rnd y)
    have f2 := Int.lt_floor_add_one (R.rnd y)
    -- the exact value splits into s*dm/sm plus the offset term
    have hsplit : ((s : ℚ) + div2 R sm dm) * dm / sm = (s : ℚ) * dm / sm + (div2 R sm dm : ℚ) * dm / sm := by
      rw [add_mul, add_div]
    have hoffU : (div2 R sm dm : ℚ) * dm / sm ≤ 1 / 2 + 1 / 64 := by
      rw [div_le_iff₀ hS0]; linarith
    have hoffL : (dm : ℚ) / sm ≤ (div2 R sm dm : ℚ) * dm / sm :=
      div_le_div_of_nonneg_right (by nlinarith) hS0.le
    -- the two roundings together are smaller than the offset
    have hk : 2 * (R.eps * ((dm : ℚ) + 1)) < (dm : ℚ) / sm := by
      rw [lt_div_iff₀ hS0]; nlinarith
    have hk2 : R.eps * ((dm : ℚ) + 1) ≤ 1 / 64 := by nlinarith
    rw [hsplit] at hyz
    rw [abs_le] at hyz hq
    rw [abs_lt]
    constructor <;> linarith [hyz.1, hyz.2, hq.1, hq.2]
  refine ⟨key, ?_⟩
  -- integer form: multiply by sm
  have e : ((downNondivF R sm dm s * sm - s * dm : ℤ) : ℚ) = ((downNondivF R sm dm s : ℚ) - (s : ℚ) * dm / sm) * sm := by
    push_cast; field_simp
  rw [abs_lt] at key
  constructor
  · have : (-(sm : ℤ) : ℚ) < ((downNondivF R sm dm s * sm - s * dm : ℤ) : ℚ) := by
      rw [e]; nlinarith [key.1]
    exact_mod_cast this
  · have : ((downNondivF R sm dm s * sm - s * dm : ℤ) : ℚ) < ((sm : ℤ) : ℚ) := by
      rw [e]; nlinarith [key.2]
    exact_mod_cast this

/-- binary64 (`double`), every source maximum below 2^32: all clauses of the property -/
theorem C06_float_down_nondiv_binary64 (R : FloatSpec) (h64 : R.IsBinary64) (sm dm : ℤ) (hd1 : 1 ≤ dm) (hgap : 2 * dm ≤ sm)
    (hsm : sm < 2 ^ 32) (s t : ℤ) (hs0 : 0 ≤ s) (hst : s ≤ t) (ht : t ≤ sm) :
    downNondivF R sm dm 0 = 0 ∧ downNondivF R sm dm sm = dm
    ∧ downNondivF R sm dm s ≤ downNondivF R sm dm t
    ∧ 0 ≤ downNondivF R sm dm s ∧ downNondivF R sm dm s ≤ dm
    ∧ -sm < downNondivF R sm dm s * sm - s * dm ∧ downNondivF R sm dm s * sm - s * dm < sm := by
  obtain ⟨he, hb⟩ := h64
  have he0 := R.eps_nonneg
  have hsq : (sm : ℚ) ≤ 2 ^ 32 := by exact_mod_cast hsm.le
  have hs0' : (0 : ℚ) ≤ sm := by exact_mod_cast (show (0 : ℤ) ≤ sm by omega)
  have hbig : 2 * (sm : ℚ) ≤ R.big := by norm_num at hsq hb; linarith
  have heps : R.eps * sm ≤ 1 / 64 := by
    have : R.eps * sm ≤ 1 / 2 ^ 53 * 2 ^ 32 := mul_le_mul he hsq hs0' (by norm_num)
    norm_num at this ⊢; linarith
  obtain ⟨e0, e1⟩ := C06_float_down_nondiv_endpoints R sm dm hd1 hgap hbig heps
  obtain ⟨r0, r1⟩ := C06_float_down_nondiv_range R sm dm hd1 hgap hbig heps s hs0 (by omega)
  obtain ⟨-, g0, g1⟩ := C06_float_down_nondiv_error R sm dm hd1 hgap hbig heps s hs0 (by omega)
  exact ⟨e0, e1, C06_float_down_nondiv_monotone R sm dm hd1 hgap hbig heps s t hs0 hst ht, r0, r1, g0, g1⟩

/-! ## round trip through a non-divisible pair: integral up-conversion, `double` down-conversion -/

/-- up `⌊s*dm/sm⌋` (sm < dm, exact integer arithmetic, `C06_up_nondiv_laws`), then down through `double`,
    returns the source value.  Budget: the lower truncation boundary is only 1/dm away, which the rounding of
    `div` (relative eps on a value ≤ sm) must not bridge: eps*sm*dm ≤ 1. -/
theorem C06_float_roundtrip_nondiv (R : FloatSpec) (sm dm s : ℤ) (h1 : 1 ≤ sm) (hgap : 2 * sm ≤ dm)
    (hbig : 2 * (dm : ℚ) ≤ R.big) (heps : R.eps * dm ≤ 1 / 64) (hprod : R.eps * (sm * dm) ≤ 1)
    (hs0 : 0 ≤ s) (hs : s ≤ sm) : downNondivF R dm sm (upNondivI sm dm s) = s := by
  unfold upNondivI
  have hsm0 : 0 < sm := by omega
  -- t = ⌊s*dm/sm⌋
  have hm := Int.mul_ediv_add_emod (s * dm) sm
  have hr0 := Int.emod_nonneg (s * dm) (show sm ≠ 0 by omega)
  have hr1 := Int.emod_lt_of_pos (s * dm) hsm0
  have ht0 : 0 ≤ s * dm / sm := Int.ediv_nonneg (Int.mul_nonneg hs0 (by omega)) (by omega)
  have ht1 : s * dm / sm ≤ dm := by
    apply Int.ediv_le_of_le_mul hsm0
    have : s * dm ≤ sm * dm := Int.mul_le_mul_of_nonneg_right hs (by omega)
    linarith [Int.mul_comm sm dm]
  generalize s * dm / sm = t at *
  generalize s * dm % sm = ρ at *
  obtain ⟨-, hD2, hDlo, hDhi⟩ := divD_facts R h1 hgap hbig heps
  obtain ⟨hh1, -, -⟩ := div2_facts R h1 hgap hbig heps
  have hratio := div2_ratio R h1 hgap hbig heps
  obtain ⟨hy0, hyU, hyz⟩ := quotient_facts R h1 hgap hbig heps ht0 ht1
  have he0 := R.eps_nonneg
  have hT1 : (1 : ℚ) ≤ sm := by exact_mod_cast h1
  have hST : 2 * (sm : ℚ) ≤ dm := by exact_mod_cast hgap
  have hS0 : (0 : ℚ) < dm := by linarith
  have hh1q : (1 : ℚ) ≤ div2 R dm sm := by exact_mod_cast hh1
  have hD0 : (0 : ℚ) < divD R dm sm := by linarith
  have hsq0 : (0 : ℚ) ≤ s := by exact_mod_cast hs0
  have hsq : (s : ℚ) ≤ sm := by exact_mod_cast hs
  -- (t+1)*sm ≥ s*dm + 1 and t*sm ≤ s*dm, as rationals
  have hmq : (sm : ℚ) * t + ρ = s * dm := by exact_mod_cast hm
  have hρ0 : (0 : ℚ) ≤ ρ := by exact_mod_cast hr0
  have hρ1 : (ρ : ℚ) + 1 ≤ sm := by exact_mod_cast hr1
  rw [downNondivF_closed R h1 hgap hbig heps ht0 ht1, Int.floor_eq_iff]
  set y := ((t : ℚ) + div2 R dm sm) / divD R dm sm
  constructor
  · -- rounding does not cross the representable integer s:  s ≤ y
    apply R.int_le_rnd s (by rw [abs_of_nonneg hsq0]; linarith)
    rw [le_div_iff₀ hD0]
    -- s * D * sm ≤ s * dm * (1+eps) ≤ s*dm + 1 ≤ (t+1)*sm
    have h2 : (s : ℚ) * (sm * divD R dm sm) ≤ s * (dm * (1 + R.eps)) := mul_le_mul_of_nonneg_left hDhi hsq0
    have h3 : R.eps * ((s : ℚ) * dm) ≤ 1 := by
      have : R.eps * ((s : ℚ) * dm) ≤ R.eps * (sm * dm) :=
        mul_le_mul_of_nonneg_left (mul_le_mul_of_nonneg_right hsq hS0.le) he0
      linarith
    have h4 : ((s : ℚ) * divD R dm sm) * sm ≤ ((t : ℚ) + div2 R dm sm) * sm := by nlinarith
    exact le_of_mul_le_mul_right h4 (by linarith)
  · have hq := R.err_le (B := sm + 1) hy0 (by linarith) (by linarith)
    have hsplit : ((t : ℚ) + div2 R dm sm) * sm / dm = (t : ℚ) * sm / dm + (div2 R dm sm : ℚ) * sm / dm := by
      rw [add_mul, add_div]
    have hoffU : (div2 R dm sm : ℚ) * sm / dm ≤ 1 / 2 + 1 / 64 := by
      rw [div_le_iff₀ hS0]; linarith
    have htU : (t : ℚ) * sm / dm ≤ s := by
      rw [div_le_iff₀ hS0]; nlinarith
    have hk2 : R.eps * ((sm : ℚ) + 1) ≤ 1 / 64 := by nlinarith
    rw [hsplit, abs_le] at hyz
    linarith [hyz.1, hyz.2]

/-- binary64: the round trip holds for every pair of maxima with 2*sm ≤ dm < 2^32 and sm*dm ≤ 2^53
    (every packed/8/16-bit source with a destination of up to 32 bits) -/
theorem C06_float_roundtrip_nondiv_binary64 (R : FloatSpec) (h64 : R.IsBinary64) (sm dm s : ℤ) (h1 : 1 ≤ sm)
    (hgap : 2 * sm ≤ dm) (hdm : dm < 2 ^ 32) (hprod : sm * dm ≤ 2 ^ 53) (hs0 : 0 ≤ s) (hs : s ≤ sm) :
    downNondivF R dm sm (upNondivI sm dm s) = s := by
  obtain ⟨he, hb⟩ := h64
  have he0 := R.eps_nonneg
  have hdq : (dm : ℚ) ≤ 2 ^ 32 := by exact_mod_cast hdm.le
  have hd0 : (0 : ℚ) ≤ dm := by exact_mod_cast (show (0 : ℤ) ≤ dm by omega)
  have hpq : (sm : ℚ) * dm ≤ 2 ^ 53 := by exact_mod_cast hprod
  have hp0 : (0 : ℚ) ≤ (sm : ℚ) * dm := mul_nonneg (by exact_mod_cast (show (0 : ℤ) ≤ sm by omega)) hd0
  have hbig : 2 * (dm : ℚ) ≤ R.big := by norm_num at hdq hb; linarith
  have heps : R.eps * dm ≤ 1 / 64 := by
    have : R.eps * dm ≤ 1 / 2 ^ 53 * 2 ^ 32 := mul_le_mul he hdq hd0 (by norm_num)
    norm_num at this ⊢; linarith
  have hpr : R.eps * ((sm : ℚ) * dm) ≤ 1 := by
    have : R.eps * ((sm : ℚ) * dm) ≤ 1 / 2 ^ 53 * 2 ^ 53 := mul_le_mul he hpq hp0 (by norm_num)
    norm_num at this ⊢; linarith
  exact C06_float_roundtrip_nondiv R sm dm s h1 hgap hbig heps hpr hs0 hs

/-! ## non-vacuity: the hypotheses are met (exact arithmetic is a FloatSpec), concrete non-trivial instances -/

/-- in exact arithmetic the three converters are the textbook formulas (p8 → float, float → p8, 8-bit → 5-bit) -/
theorem C06_float_exact_instance :
    toF (FloatSpec.exact (2 ^ 53) (by norm_num)) 255 51 = 1 / 5
    ∧ fromF (FloatSpec.exact (2 ^ 53) (by norm_num)) 255 (1 / 5) = 51
    ∧ divD (FloatSpec.exact (2 ^ 53) (by norm_num)) 255 31 = 255 / 31
    ∧ div2 (FloatSpec.exact (2 ^ 53) (by norm_num)) 255 31 = 4
    ∧ downNondivF (FloatSpec.exact (2 ^ 53) (by norm_num)) 255 31 200 = 24 := by
  have e1 : divD (FloatSpec.exact (2 ^ 53) (by norm_num)) 255 31 = 255 / 31 := by
    simp [divD, FloatSpec.exact]
  have e2 : div2 (FloatSpec.exact (2 ^ 53) (by norm_num)) 255 31 = 4 := by
    unfold div2; rw [e1]
    simp only [FloatSpec.exact, id]
    rw [ctrunc_of_nonneg (by norm_num), Int.floor_eq_iff]; norm_num
  refine ⟨?_, ?_, e1, e2, ?_⟩
  · simp [toF, FloatSpec.exact]; norm_num
  · simp only [fromF, FloatSpec.exact, id]
    rw [ctrunc_of_nonneg (by norm_num), Int.floor_eq_iff]; norm_num
  · unfold downNondivF; rw [e1, e2]
    simp only [FloatSpec.exact, id]
    rw [ctrunc_of_nonneg (by norm_num), Int.floor_eq_iff]; norm_num

/-- the exact-arithmetic instance of the abstract `double` path IS the exact reading `downNondivExact` of
    Model/C06.lean (about which `C06_down_nondiv_exact_laws_partial` / `C06_roundtrip_nondiv_partial` speak) -/
theorem C06_float_down_nondiv_exact_instance (B : ℚ) (hB : 1 ≤ B) (sm dm s : ℤ) (hd1 : 1 ≤ dm) (hle : dm ≤ sm) (hs0 : 0 ≤ s) :
    downNondivF (FloatSpec.exact B hB) sm dm s = GilVerif.Model.C06.downNondivExact s sm dm := by
  have floor_div : ∀ a b : ℤ, 0 < b → ⌊(a : ℚ) / b⌋ = a / b := by
    intro a b hb
    have hbq : (0 : ℚ) < b := by exact_mod_cast hb
    rw [Int.floor_eq_iff]
    constructor
    · rw [le_div_iff₀ hbq]; exact_mod_cast Int.ediv_mul_le a (by omega)
    · rw [div_lt_iff₀ hbq]; exact_mod_cast Int.lt_ediv_add_one_mul_self a hb
  have hdq : (0 : ℚ) < dm := by exact_mod_cast (show (0 : ℤ) < dm by omega)
  have hsq : (0 : ℚ) < sm := by exact_mod_cast (show (0 : ℤ) < sm by omega)
  have hk : div2 (FloatSpec.exact B hB) sm dm = sm / (2 * dm) := by
    simp only [div2, divD, FloatSpec.exact, id]
    rw [ctrunc_of_nonneg (by positivity)]
    have : (sm : ℚ) / dm / 2 = (sm : ℚ) / ((2 * dm : ℤ) : ℚ) := by push_cast; field_simp
    rw [this]; exact floor_div sm (2 * dm) (by omega)
  have hk0 : 0 ≤ sm / (2 * dm) := Int.ediv_nonneg (by omega) (by omega)
  unfold downNondivF GilVerif.Model.C06.downNondivExact
  rw [hk]
  simp only [divD, FloatSpec.exact, id]
  have hnum : (0 : ℚ) ≤ ((s + sm / (2 * dm) : ℤ) : ℚ) := by exact_mod_cast (show (0 : ℤ) ≤ s + sm / (2 * dm) by omega)
  rw [ctrunc_of_nonneg (div_nonneg hnum (by positivity))]
  have : ((s + sm / (2 * dm) : ℤ) : ℚ) / ((sm : ℚ) / dm) = (((s + sm / (2 * dm)) * dm : ℤ) : ℚ) / sm := by
    push_cast; field_simp
  rw [this]; exact floor_div _ sm (by omega)

/-- the ROUNDED computation is not the exact reading: with the genuine binary64 rounding (`FloatSpec.binary64`,
    kernel-evaluated) the 5-bit value 30 converts to the 4-bit value 14 -- as the compiled code does -- while the
    exact reading gives 15.  Both are within one unit of 30*15/31 = 14.52; the theorems above cover the rounded one. -/
theorem C06_float_down_nondiv_rounded_witness :
    downNondivF FloatSpec.binary64 31 15 30 = 14 ∧ GilVerif.Model.C06.downNondivExact 30 31 15 = 15 := by
  constructor
  · unfold downNondivF div2 divD FloatSpec.binary64 FloatSpec.nearest; simp only []; decide +kernel
  · decide

/-- the genuine binary32 / binary64 roundings are instances: concrete conversions evaluated by the kernel
    (0.5f → 128 of 255; 51 → 0.2f = 13421773 * 2^-26 → 51; 8-bit 200 → 5-bit 24) -/
theorem C06_float_genuine_instance :
    fromF FloatSpec.binary32 255 (1 / 2) = 128
    ∧ toF FloatSpec.binary32 255 51 = 13421773 / 67108864
    ∧ fromF FloatSpec.binary32 255 (toF FloatSpec.binary32 255 51) = 51
    ∧ downNondivF FloatSpec.binary64 255 31 200 = 24 := by
  refine ⟨?_, ?_, ?_, ?_⟩
  · unfold fromF FloatSpec.binary32 FloatSpec.nearest; simp only []; decide +kernel
  · unfold toF FloatSpec.binary32 FloatSpec.nearest; simp only []; decide +kernel
  · unfold fromF toF FloatSpec.binary32 FloatSpec.nearest; simp only []; decide +kernel
  · unfold downNondivF div2 divD FloatSpec.binary64 FloatSpec.nearest; simp only []; decide +kernel

example : (FloatSpec.exact (2 ^ 53) (by norm_num)).IsBinary64 := FloatSpec.exact_isBinary64
example : FloatSpec.binary64.IsBinary64 := FloatSpec.binary64_isBinary64
example : FloatSpec.binary32.IsBinary32 := FloatSpec.binary32_isBinary32
example : (1 : ℤ) ≤ 31 ∧ 2 * (31 : ℤ) ≤ 255 ∧ (255 : ℤ) < 2 ^ 32 ∧ (31 : ℤ) * 255 ≤ 2 ^ 53 := by decide

end GilVerif.Props.C06Float
