/-
  C19 -- histograms conserve mass and bin exactly the pixels that were counted.

  Theorems about the model GilVerif.Model.C19 (association-list histograms following histogram.hpp; the per-channel
  scaling `ch / bin_width` and the dense pre-fill expressions are re-translated from the header on every run).
  All statements are for every pixel list, mask, limit box, bin width and previous histogram contents.
  Only property theorems (C19_*) live here; helpers are in Lemmas/C19.lean.
-/
import GilVerif.Lemmas.C19
import Mathlib.Tactic.FieldSimp
import Mathlib.Tactic.Ring

namespace GilVerif.Props.C19
open GilVerif.Model.C19 GilVerif.Gen.C19 GilVerif.Lemmas.C19

/-! ### fill -/

/-- bin exactness: after `fill`, every bin holds its previous count plus the number of counted pixels with that key -/
theorem C19_fill_counts (a : FillArgs) (h : Hist) (pixels : List (List Int × Bool)) (k : Key) :
    (fill a h pixels).get k = h.get k + countKey a pixels k := by
  induction pixels generalizing h with
  | nil => simp [fill, countKey]
  | cons pm rest ih =>
    have e : fill a h (pm :: rest) = fill a (if counted a pm.2 pm.1 then h.add (keyOf a.c a.bw a.sel pm.1) 1 else h) rest := by
      simp [fill]
    rw [e, ih]
    simp only [countKey, List.filter_cons]
    by_cases hc : counted a pm.2 pm.1 = true
    · simp only [hc, if_true, Bool.true_and, get_add]
      by_cases hk : keyOf a.c a.bw a.sel pm.1 = k
      · subst hk; simp; omega
      · have : ¬ k = keyOf a.c a.bw a.sel pm.1 := fun h => hk h.symm
        simp [hk, this]
    · simp [hc]

/-- mass conservation: the bins sum to the previous mass plus the number of counted pixels -/
theorem C19_mass (a : FillArgs) (h : Hist) (pixels : List (List Int × Bool)) :
    (fill a h pixels).mass = h.mass + countAll a pixels := by
  induction pixels generalizing h with
  | nil => simp [fill, countAll]
  | cons pm rest ih =>
    have e : fill a h (pm :: rest) = fill a (if counted a pm.2 pm.1 then h.add (keyOf a.c a.bw a.sel pm.1) 1 else h) rest := by
      simp [fill]
    rw [e, ih]
    simp only [countAll, List.filter_cons]
    by_cases hc : counted a pm.2 pm.1 = true
    · simp only [hc, if_true, mass_add, List.length_cons]; omega
    · simp [hc]

/-- the key list never contains a duplicate (the association list is a finite map) -/
theorem C19_nodup (a : FillArgs) (h : Hist) (pixels : List (List Int × Bool)) (hn : h.keys.Nodup) :
    (fill a h pixels).keys.Nodup := by
  induction pixels generalizing h with
  | nil => simpa [fill] using hn
  | cons pm rest ih =>
    have e : fill a h (pm :: rest) = fill a (if counted a pm.2 pm.1 then h.add (keyOf a.c a.bw a.sel pm.1) 1 else h) rest := by
      simp [fill]
    rw [e]
    apply ih
    split_ifs
    · exact nodup_add h _ 1 hn
    · exact hn

/-! ### key computation (generated kernels), dense pre-fill -/

/-- the key component of every channel type is exactly the C++ quotient ch / bin_width (truncating), for every in-range
    channel value and every bin width ≥ 1 (generated kernels; signed division since fix 1570f66) -/
theorem C19_scale_exact (c : Ch) (ch bw : Int) (hlo : c.lo ≤ ch) (hhi : ch ≤ c.hi) (hbw : 1 ≤ bw) (hbw' : bw < 9223372036854775808) :
    scale c ch bw = Int.tdiv ch bw := by
  have hw : (bw + 9223372036854775808) % 18446744073709551616 - 9223372036854775808 = bw := by omega
  have hb : (0 ≤ ch → 0 ≤ Int.tdiv ch bw ∧ Int.tdiv ch bw ≤ ch) ∧ (ch < 0 → ch ≤ Int.tdiv ch bw ∧ Int.tdiv ch bw ≤ 0) := by
    constructor
    · intro h0
      rw [Int.tdiv_eq_ediv_of_nonneg h0]
      exact ⟨Int.ediv_nonneg h0 (by omega), Int.ediv_le_self _ h0⟩
    · intro hneg
      have hn : 0 ≤ -ch := by omega
      have e : Int.tdiv ch bw = -(Int.tdiv (-ch) bw) := by rw [Int.neg_tdiv, Int.neg_neg]
      rw [e, Int.tdiv_eq_ediv_of_nonneg hn]
      have h1 : 0 ≤ (-ch) / bw := Int.ediv_nonneg hn (by omega)
      have h2 : (-ch) / bw ≤ -ch := Int.ediv_le_self _ hn
      omega
  cases c <;> simp only [scale, scale_u8, scale_i8, scale_u16, scale_i16, Ch.lo, Ch.hi, hw] at * <;>
    (generalize Int.tdiv ch bw = q at *; omega)

/-- hence the key is what the property says: the channel divided by the bin width -/
theorem C19_key_spec_ok (c : Ch) (ch bw : Int) (hlo : c.lo ≤ ch) (hhi : ch ≤ c.hi) (hbw : 1 ≤ bw) (hbw' : bw < 9223372036854775808) :
    keySpecOk ch bw (scale c ch bw) = true := by
  rw [C19_scale_exact c ch bw hlo hhi hbw hbw']
  simp [keySpecOk]

/-- regression witness of the fixed finding C19-signed-binwidth-unsigned-division (1570f66): int8 −1 with bin width 3 is in bin 0
    (it used to land in bin 85 because the division was carried out in std::size_t) -/
theorem C19_signed_binwidth_regression :
    scale .i8 (-1) 3 = 0 ∧ scale .i8 (-3) 3 = -1 ∧ scale .i16 (-7) 5 = -1 := by decide

/-- the dense pre-fill loop terminates by its own condition whenever lower ≤ upper (and the span fits 64 bits) -/
theorem C19_prefill_terminates (bw lower upper : Int) (h : Hist) (hbw : 1 ≤ bw) (hlu : lower ≤ upper)
    (hr : upper - lower < 18446744073709551616) :
    (prefillLoop bw upper ((upper - lower).toNat + 1) lower h).2 = true :=
  prefillLoop_terminates bw upper _ lower h hbw hlu hr (by omega)

/-! ### accumulate -/

/-- accumulate = false replaces the previous contents; accumulate = true (sparse fill) adds to them -/
theorem C19_accumulate (a : FillArgs) (h : Hist) (pixels : List (List Int × Bool)) :
    fillHistogram a false true h pixels = fill a [] pixels ∧ fillHistogram a true true h pixels = fill a h pixels
    ∧ fillHistogram a false false h pixels = fillHistogram a false false [] pixels := by
  simp [fillHistogram]

/-- the dense pre-fill never changes a count (it only creates keys): `accumulate` keeps adding to the previous contents
    also for dense fills (fixed finding C19-accumulate-dense-resets, 1570f66) -/
theorem C19_prefill_preserves_counts (bw lower upper : Int) (h : Hist) (k : Key) :
    (prefill bw lower upper h).get k = h.get k := by
  have loop : ∀ (fuel : Nat) (i : Int) (h : Hist), (prefillLoop bw upper fuel i h).1.get k = h.get k := by
    intro fuel
    induction fuel with
    | zero => intro i h; rfl
    | succ fuel ih =>
      intro i h
      unfold prefillLoop
      split_ifs
      · rw [ih, get_add]
        split_ifs with e
        · subst e; simp
        · rfl
      · rfl
  unfold prefill
  simp only
  rw [get_add]
  split_ifs with e
  · subst e; rw [loop]; simp
  · exact loop _ _ _

/-- regression witness: accumulate = true with a dense fill keeps the previous count 5 of bin 1 -/
theorem C19_accumulate_dense_regression :
    let a : FillArgs := { c := .u8, bw := 1, sel := [], applymask := false, setlimits := false, lower := [0], upper := [3] }
    fillHistogram a true false [([1], 5)] [([2], true)] = [([1], 5), ([0], 0), ([2], 1), ([3], 0)] := by decide

/-! ### cumulative histograms -/

/-- the cumulative histogram of one axis is non-decreasing along the sorted keys … -/
theorem C19_cumulative_monotone_1d (acc : Nat) (l : List (Key × Nat)) :
    (prefixSums acc l).Pairwise (fun a b => a.2 ≤ b.2) := by
  induction l generalizing acc with
  | nil => simp [prefixSums]
  | cons kv rest ih =>
    obtain ⟨k, c⟩ := kv
    simp only [prefixSums, List.pairwise_cons]
    exact ⟨fun x hx => prefixSums_ge (acc + c) rest x hx, ih (acc + c)⟩

/-- … keeps the keys, and its last bin is the total mass -/
theorem C19_cumulative_last_total_1d (acc : Nat) (l : List (Key × Nat)) (hne : l ≠ []) :
    ((prefixSums acc l).getLast?.map (·.2)) = some (acc + Hist.mass l) ∧ (prefixSums acc l).map (·.1) = l.map (·.1) := by
  induction l generalizing acc with
  | nil => exact absurd rfl hne
  | cons kv rest ih =>
    obtain ⟨k, c⟩ := kv
    cases rest with
    | nil => simp [prefixSums, Hist.mass]
    | cons kv2 rest2 =>
      have := ih (acc + c) (by simp)
      simp only [prefixSums, Hist.mass, List.map_cons, List.sum_cons] at this ⊢
      constructor
      · rw [List.getLast?_cons_cons]
        rw [this.1]; congr 1; omega
      · rw [this.2]

/-- the value the n-D cumulative histogram stores at key `k` -/
theorem C19_cumulative_nd_value (dims : Nat) (h : Hist) (hd : dims ≠ 1) :
    cumulative dims h = h.map fun kv => (kv.1, ((h.filter fun kv2 => tupleCompare kv2.1 kv.1).map (·.2)).sum) := by
  unfold cumulative; simp [hd]

/-- n-D cumulative histogram: monotone along every axis (component-wise order) … -/
theorem C19_cumulative_monotone_nd (h : Hist) (k1 k2 : Key)
    (hlen : ∀ kv ∈ h, kv.1.length = k1.length) (hk : k1.length = k2.length) (hle : tupleCompare k1 k2 = true) :
    ((h.filter fun kv2 => tupleCompare kv2.1 k1).map (·.2)).sum ≤ ((h.filter fun kv2 => tupleCompare kv2.1 k2).map (·.2)).sum := by
  apply sum_filter_mono
  intro x hx hx1
  exact tupleCompare_trans x.1 k1 k2 (hlen x hx) hk hx1 hle

/-- … and a key that dominates every key holds the total mass -/
theorem C19_cumulative_last_total_nd (h : Hist) (kmax : Key) (hdom : ∀ kv ∈ h, tupleCompare kv.1 kmax = true) :
    ((h.filter fun kv2 => tupleCompare kv2.1 kmax).map (·.2)).sum = h.mass := by
  have : h.filter (fun kv2 => tupleCompare kv2.1 kmax) = h := List.filter_eq_self.mpr hdom
  rw [this]; rfl

/-- the weighted n-D cumulative histogram (bins of any additive type, e.g. the fractions left by `normalize`) stores at every
    key the sum of the weights of the bins it dominates; on counts it coincides with `cumulative` -/
theorem C19_cumulative_weighted_nd (dims : Nat) (h : Hist) (hd : dims ≠ 1) : cumulativeW dims h = cumulative dims h := by
  unfold cumulativeW cumulative
  simp only [hd, if_false]
  rfl

/-! ### sub-histograms, normalisation, std containers -/

/-- marginalisation keeps the total mass -/
theorem C19_sub_axes_mass (axes : List Nat) (h : Hist) : (subAxes axes h).mass = h.mass := by
  have gen : ∀ (s : Hist), (h.foldl (fun s kv => s.add (project axes kv.1) kv.2) s).mass = s.mass + h.mass := by
    induction h with
    | nil => intro s; simp [Hist.mass]
    | cons kv rest ih =>
      intro s
      rw [List.foldl_cons, ih, mass_add]
      simp only [Hist.mass, List.map_cons, List.sum_cons]; omega
  unfold subAxes
  rw [gen]; simp [Hist.mass]

/-- range sub-histogram: exactly the bins whose (projected) key lies in the range are kept, with their counts -/
theorem C19_sub_range_exact (axes : List Nat) (t1 t2 : Key) (h : Hist) (hn : h.keys.Nodup) (k : Key) :
    (subRange axes t1 t2 h).get k
      = if keyLe (project axes t1) (project axes k) && keyLe (project axes k) (project axes t2) then h.get k else 0 := by
  have gen : ∀ (h : Hist), h.keys.Nodup → ∀ (s : Hist),
      (h.foldl (fun s kv => if keyLe (project axes t1) (project axes kv.1) && keyLe (project axes kv.1) (project axes t2)
          then s.add kv.1 kv.2 else s) s).get k
        = s.get k + (if keyLe (project axes t1) (project axes k) && keyLe (project axes k) (project axes t2) then h.get k else 0) := by
    intro h
    induction h with
    | nil => intro _ s; simp [Hist.get]
    | cons kv rest ih =>
      obtain ⟨k0, c⟩ := kv
      intro hn s
      simp only [Hist.keys, List.map_cons, List.nodup_cons] at hn
      rw [List.foldl_cons, ih hn.2]
      by_cases e : k = k0
      · subst e
        have hz : Hist.get rest k = 0 := get_eq_zero_of_not_mem rest k hn.1
        simp only [hz, Hist.get, if_true]
        split_ifs with hr
        · rw [get_add]; simp
        · omega
      · have e' : ¬ k0 = k := fun h => e h.symm
        simp only [Hist.get, e', if_false]
        congr 1
        split_ifs
        · rw [get_add]; simp [e]
        · rfl
  unfold subRange
  rw [gen h hn []]
  simp [Hist.get]

/-- std::vector filler: EVERY entry (also beyond max+1 of the view's channel type, fix 09f7546) holds its previous value plus the
    number of pixels equal to its index -/
theorem C19_vector_counts (size : Nat) (old : List Nat) (pixels : List Int) (i : Nat)
    (hp : ∀ p ∈ pixels, 0 ≤ p ∧ p < size) :
    (vectorFill size old pixels).getD i 0 = old.getD i 0 + (pixels.filter (fun p => decide (p = (i : Int)))).length := by
  have gen : ∀ (pixels : List Int) (v : List Nat), size ≤ v.length → (∀ p ∈ pixels, 0 ≤ p ∧ p < size) →
      (pixels.foldl (fun v p => v.set p.toNat (v.getD p.toNat 0 + 1)) v).getD i 0
        = v.getD i 0 + (pixels.filter (fun p => decide (p = (i : Int)))).length := by
    intro pixels
    induction pixels with
    | nil => intro v _ _; simp
    | cons p rest ih =>
      intro v hv hp
      have hp0 := hp p List.mem_cons_self
      rw [List.foldl_cons, ih _ (by simp; omega) (fun q hq => hp q (List.mem_cons_of_mem _ hq))]
      simp only [List.filter_cons]
      by_cases e : p = (i : Int)
      · subst e
        simp only [decide_true, if_true, List.length_cons, Int.toNat_natCast]
        rw [List.getD_eq_getElem?_getD, List.getElem?_set_self (by omega)]
        simp; omega
      · simp only [e, decide_false, Bool.false_eq_true, if_false]
        congr 1
        rw [List.getD_eq_getElem?_getD, List.getElem?_set_ne (by omega)]
        simp
  unfold vectorFill
  rw [gen pixels _ (by simp; omega) hp]
  congr 1
  simp only [List.getD_eq_getElem?_getD, List.getElem?_append, List.getElem?_replicate]
  by_cases hl : i < old.length
  · simp [hl]
  · have : old[i]? = none := List.getElem?_eq_none (by omega)
    simp only [hl, if_false, this]
    split_ifs <;> rfl

/-- the accumulating vector filler never shrinks: the result has max(previous length, max+1) entries -/
theorem C19_vector_never_shrinks (size : Nat) (old : List Nat) (pixels : List Int) :
    (vectorFill size old pixels).length = max old.length size := by
  have gen : ∀ (pixels : List Int) (v : List Nat),
      (pixels.foldl (fun v p => v.set p.toNat (v.getD p.toNat 0 + 1)) v).length = v.length := by
    intro pixels
    induction pixels with
    | nil => intro v; rfl
    | cons p rest ih => intro v; rw [List.foldl_cons, ih]; simp
  unfold vectorFill
  rw [gen]; simp; omega

private theorem sumQ_div (l : HistQ) (S : Rat) : sumQ (l.map fun kv => (kv.1, kv.2 / S)) = sumQ l / S := by
  induction l with
  | nil => simp [sumQ]
  | cons kv rest ih =>
    simp only [sumQ, List.map_cons, List.foldr_cons] at ih ⊢
    rw [ih]; ring

/-- fractional bins (any rational weights, e.g. after an earlier normalize, an accumulate-fill on top of it, or a re-weighting):
    after `normalize()` the bins sum to 1 whenever `sum()` is not zero … -/
theorem C19_normalizeQ_sum_one (h : HistQ) (hs : sumQ h ≠ 0) : sumQ (normalizeQ h) = 1 := by
  unfold normalizeQ
  rw [sumQ_div]
  field_simp

/-- … and `normalize()` is idempotent: a second call changes nothing -/
theorem C19_normalizeQ_idempotent (h : HistQ) (hs : sumQ h ≠ 0) : normalizeQ (normalizeQ h) = normalizeQ h := by
  have h1 := C19_normalizeQ_sum_one h hs
  generalize hg : normalizeQ h = g at h1
  unfold normalizeQ
  rw [h1]
  simp

/-- normalisation in exact arithmetic: the bins sum to 1 whenever the histogram has positive mass -/
theorem C19_normalize_sum_one (h : Hist) (hm : h.mass ≠ 0) :
    ((h.map fun kv => ((kv.2 : Nat) : Rat) / ((h.mass : Nat) : Rat))).sum = 1 := by
  have gen : ∀ (l : Hist) (S : Rat), (l.map fun kv => ((kv.2 : Nat) : Rat) / S).sum = ((Hist.mass l : Nat) : Rat) / S := by
    intro l S
    induction l with
    | nil => simp [Hist.mass]
    | cons kv rest ih =>
      simp only [List.map_cons, List.sum_cons, ih, Hist.mass]
      push_cast
      ring
  rw [gen]
  have : ((h.mass : Nat) : Rat) ≠ 0 := by exact_mod_cast hm
  field_simp

/-! ### non-vacuity: concrete instances -/

example :
    let a : FillArgs := { c := .u8, bw := 2, sel := [], applymask := true, setlimits := true, lower := [1], upper := [3] }
    fill a [] [([5], true), ([4], false), ([7], true), ([9], true), ([2], true)] = [([2], 1), ([3], 1), ([1], 1)] := by decide
example : Ch.i8.lo ≤ -100 ∧ (-100 : Int) ≤ Ch.i8.hi ∧ scale .i8 (-100) 3 = -33 ∧ scale .u8 200 3 = 66 := by decide
example : (1 : Int) ≤ 2 ∧ (7 : Int) ≤ 10 ∧ (prefillLoop 2 10 ((10 - 7 : Int).toNat + 1) 7 []).1 = [([3], 0)] := by decide
example : cumulative 1 [([5], 2), ([1], 1), ([3], 4)] = [([1], 1), ([3], 5), ([5], 7)] := by decide
example : cumulative 2 [([3, 1], 1), ([3, 2], 1), ([4, 1], 1), ([4, 2], 1)] = [([3, 1], 1), ([3, 2], 2), ([4, 1], 2), ([4, 2], 4)] := by decide
example : subAxes [0] [([1, 3], 1), ([2, 3], 1), ([1, 4], 1)] = [([1], 2), ([2], 1)]
    ∧ subRange [0] [2, 2] [9, 9] [([1, 3], 1), ([2, 3], 1), ([1, 4], 1)] = [([2, 3], 1)]
    ∧ (Hist.keys [([1, 3], 1), ([2, 3], 1), ([1, 4], 1)]).Nodup := by decide
example : Hist.mass [([5], 2), ([6], 1)] ≠ 0 := by decide
example : vectorFill 4 [7, 7] [1, 3, 3] = [7, 8, 0, 2] ∧ vectorFill 2 [1, 1, 5] [0] = [2, 1, 5] := by decide

/-! ## deepening round 3: the query / key members of the histogram class -/

/-! ### histogram::equals -/

/-- `h.equals(o)` holds exactly when the dimensions agree and every bin of `o` is present in `h` with the same count
    (stated on the maps only: the iteration order of the unordered_map cannot matter) -/
theorem C19_equals_spec (d : Bool) (h o : Hist) :
    equalsH d h o = true ↔ d = true ∧ ∀ k ∈ o.keys, h.findKey? k = some (o.get k) := by
  unfold equalsH
  rw [equals_foldl]
  simp [Hist.keys]

/-- equality is order-independent: histograms that agree as maps give the same answer -/
theorem C19_equals_map_invariant (d : Bool) (h h' o o' : Hist) (hh : ∀ k, h.findKey? k = h'.findKey? k)
    (hk : ∀ k, k ∈ o.keys ↔ k ∈ o'.keys) (hg : ∀ k, o.get k = o'.get k) :
    equalsH d h o = equalsH d h' o' := by
  have : equalsH d h o = true ↔ equalsH d h' o' = true := by
    rw [C19_equals_spec, C19_equals_spec]
    constructor
    · rintro ⟨hd, ha⟩; exact ⟨hd, fun k hk' => by rw [← hh, ← hg]; exact ha k ((hk k).mpr hk')⟩
    · rintro ⟨hd, ha⟩; exact ⟨hd, fun k hk' => by rw [hh, hg]; exact ha k ((hk k).mp hk')⟩
  cases h1 : equalsH d h o <;> cases h2 : equalsH d h' o' <;> simp_all

example : equalsH true [([1], 2), ([3], 1)] [([3], 1), ([1], 2)] = true := by decide

/-- a histogram equals itself -/
theorem C19_equals_refl (h : Hist) : equalsH true h h = true := by
  rw [C19_equals_spec]
  exact ⟨rfl, fun k hk => findKey?_of_mem h k hk⟩

/-- equal answers imply equal counts on every bin of `o` -/
theorem C19_equals_sound (d : Bool) (h o : Hist) (he : equalsH d h o = true) (k : Key) (hk : k ∈ o.keys) :
    h.get k = o.get k :=
  findKey?_eq_some_get h k _ (((C19_equals_spec d h o).mp he).2 k hk)

/-- as coded the test is one-sided: bins of `*this` that `other` lacks are not looked at (observation, outside the property) -/
theorem C19_equals_one_sided_witness :
    equalsH true [([1], 1), ([2], 1)] [([1], 1)] = true ∧ equalsH true [([1], 1)] [([1], 1), ([2], 1)] = false := by decide

/-! ### min_key / max_key / nearest_key -/

/-- min_key is a key of the histogram and no key is (tuple-)smaller -/
theorem C19_min_key_attained_least (h : Hist) (hne : h ≠ []) :
    minKey h ∈ h.keys ∧ ∀ k ∈ h.keys, keyLt k (minKey h) = false := by
  cases h with
  | nil => exact absurd rfl hne
  | cons kv rest =>
    simp only [minKey]
    constructor
    · rcases foldl_least_mem keyLt (kv :: rest) kv.1 with e | e
      · rw [e]; simp [Hist.keys]
      · exact e
    · intro k hk
      exact foldl_least_inv keyLt keyLt_irrefl keyLt_trans (kv :: rest) kv.1 [] (by simp) k (by simpa [Hist.keys] using hk)

/-- max_key is a key of the histogram and no key is (tuple-)greater -/
theorem C19_max_key_attained_greatest (h : Hist) (hne : h ≠ []) :
    maxKey h ∈ h.keys ∧ ∀ k ∈ h.keys, keyLt (maxKey h) k = false := by
  cases h with
  | nil => exact absurd rfl hne
  | cons kv rest =>
    simp only [maxKey]
    constructor
    · rcases foldl_least_mem (fun a b => keyLt b a) (kv :: rest) kv.1 with e | e
      · rw [e]; simp [Hist.keys]
      · exact e
    · intro k hk
      exact foldl_least_inv (fun a b => keyLt b a) keyLt_irrefl (fun a b c h1 h2 => keyLt_trans c b a h2 h1)
        (kv :: rest) kv.1 [] (by simp) k (by simpa [Hist.keys] using hk)

example : minKey [([2, 3], 1), ([1, 5], 4), ([1, 7], 2)] = [1, 5] ∧ maxKey [([2, 3], 1), ([1, 5], 4), ([1, 7], 2)] = [2, 3] := by decide

/-- min_key does not depend on the iteration order: two histograms with the same key set (tuples of one size) have the same min_key -/
theorem C19_min_key_order_independent (h h' : Hist) (n : Nat) (hne : h ≠ []) (hk : ∀ k, k ∈ h.keys ↔ k ∈ h'.keys)
    (hlen : ∀ k ∈ h.keys, k.length = n) : minKey h = minKey h' := by
  have hne' : h' ≠ [] := by
    intro e; subst e
    cases h with
    | nil => exact hne rfl
    | cons kv rest => have := (hk kv.1).mp (by simp [Hist.keys]); simp [Hist.keys] at this
  obtain ⟨m1, l1⟩ := C19_min_key_attained_least h hne
  obtain ⟨m2, l2⟩ := C19_min_key_attained_least h' hne'
  apply keyLt_total
  · rw [hlen _ m1, hlen _ ((hk _).mpr m2)]
  · exact l2 _ ((hk _).mp m1)
  · exact l1 _ ((hk _).mpr m2)

theorem C19_max_key_order_independent (h h' : Hist) (n : Nat) (hne : h ≠ []) (hk : ∀ k, k ∈ h.keys ↔ k ∈ h'.keys)
    (hlen : ∀ k ∈ h.keys, k.length = n) : maxKey h = maxKey h' := by
  have hne' : h' ≠ [] := by
    intro e; subst e
    cases h with
    | nil => exact hne rfl
    | cons kv rest => have := (hk kv.1).mp (by simp [Hist.keys]); simp [Hist.keys] at this
  obtain ⟨m1, l1⟩ := C19_max_key_attained_greatest h hne
  obtain ⟨m2, l2⟩ := C19_max_key_attained_greatest h' hne'
  apply keyLt_total
  · rw [hlen _ m1, hlen _ ((hk _).mpr m2)]
  · exact l1 _ ((hk _).mpr m2)
  · exact l2 _ ((hk _).mp m1)

example : minKey [([2, 3], 1), ([1, 5], 4)] = minKey [([1, 5], 9), ([2, 3], 0)] := by decide

/-- the order is the tuple order (lexicographic), NOT a component-wise bound: on axis 1 the min_key (1,5) is above the key (2,3) -/
theorem C19_min_key_not_componentwise_witness :
    minKey [([2, 3], 1), ([1, 5], 4)] = [1, 5] ∧ tupleCompare [1, 5] [2, 3] = false := by decide

/-- for 1-D histograms min_key / max_key are the numeric bounds of the keys -/
theorem C19_min_max_key_1d (h : Hist) (hne : h ≠ []) (x : Int) (hx : [x] ∈ h.keys) :
    (∀ m, minKey h = [m] → m ≤ x) ∧ (∀ m, maxKey h = [m] → x ≤ m) := by
  constructor
  · intro m hm
    have := (C19_min_key_attained_least h hne).2 [x] hx
    rw [hm] at this
    simp only [keyLt] at this
    by_cases c : x < m
    · simp [c] at this
    · omega
  · intro m hm
    have := (C19_max_key_attained_greatest h hne).2 [x] hx
    rw [hm] at this
    simp only [keyLt] at this
    by_cases c : m < x
    · simp [c] at this
    · omega

/-- nearest_key: `k` itself when it is a key; otherwise, if no key is ≤ k (tuple order) again `k`, else the greatest key ≤ k -/
theorem C19_nearest_key_spec (h : Hist) (k : Key) :
    (k ∈ h.keys → nearestKey h k = k) ∧
    (k ∉ h.keys → (∀ u ∈ h.keys, keyLt k u = true) → nearestKey h k = k) ∧
    (k ∉ h.keys → (∃ u ∈ h.keys, keyLt k u = false) →
        nearestKey h k ∈ h.keys ∧ keyLt k (nearestKey h k) = false ∧
        ∀ u ∈ h.keys, keyLt k u = false → keyLt (nearestKey h k) u = false) := by
  have inv := nearest_inv k h (true, k) [] (by simp [NearInv])
  simp only [List.nil_append] at inv
  refine ⟨?_, ?_, ?_⟩
  · intro hk
    simp [nearestKey, (findKey?_isSome_iff h k).mpr hk]
  · intro hk hall
    have hs : (h.findKey? k).isSome = false := by
      cases e : (h.findKey? k).isSome with
      | false => rfl
      | true => exact absurd ((findKey?_isSome_iff h k).mp e) hk
    simp only [nearestKey, hs, Bool.false_eq_true, if_false]
    cases ho : (h.foldl (nearestStep k) (true, k)).1 with
    | true => exact (inv.1 ho).1
    | false =>
      obtain ⟨hm, hle, _⟩ := inv.2 ho
      rw [hall _ hm] at hle; exact absurd hle (by simp)
  · intro hk ⟨u, hu, hku⟩
    have hs : (h.findKey? k).isSome = false := by
      cases e : (h.findKey? k).isSome with
      | false => rfl
      | true => exact absurd ((findKey?_isSome_iff h k).mp e) hk
    simp only [nearestKey, hs, Bool.false_eq_true, if_false]
    cases ho : (h.foldl (nearestStep k) (true, k)).1 with
    | true =>
      have := (inv.1 ho).2 u hu
      rw [hku] at this; exact absurd this (by simp)
    | false => exact inv.2 ho

example : nearestKey [([1], 1), ([7], 1), ([4], 2)] [6] = [4] ∧ nearestKey [([1], 1), ([7], 1)] [0] = [0]
    ∧ nearestKey [([1, 9], 1), ([2, 0], 1)] [1, 20] = [1, 9] := by decide

/-! ### merging -/

/-- merging adds the counts per bin -/
theorem C19_merge_get (dst src : Hist) (hn : src.keys.Nodup) (k : Key) :
    (merge dst src).get k = dst.get k + src.get k := by
  rw [merge_get, sum_filter_key_eq_get src hn]

/-- merging adds the masses -/
theorem C19_merge_mass (dst src : Hist) : (merge dst src).mass = dst.mass + src.mass := merge_mass dst src

example : (merge [([1], 2), ([2], 1)] [([2], 4), ([5], 1)]).get [2] = 5 ∧ (merge [([1], 2), ([2], 1)] [([2], 4), ([5], 1)]).mass = 8 := by decide

/-- an accumulating fill is the merge of the previous histogram with the histogram of the new image alone -/
theorem C19_fill_accumulate_is_merge (a : FillArgs) (h : Hist) (pixels : List (List Int × Bool)) (k : Key) :
    (fill a h pixels).get k = (merge h (fill a [] pixels)).get k := by
  rw [C19_merge_get _ _ (C19_nodup a [] pixels (by simp [Hist.keys])), C19_fill_counts, C19_fill_counts]
  simp [Hist.get]

/-- filling from two images one after the other (accumulate) is filling from their concatenation -/
theorem C19_fill_append (a : FillArgs) (h : Hist) (p1 p2 : List (List Int × Bool)) :
    fill a (fill a h p1) p2 = fill a h (p1 ++ p2) := by
  simp [fill, List.foldl_append]

/-! ### key construction -/

/-- the cast to the key type is the identity on values of that type -/
theorem C19_key_cast_exact (t : KTy) (x : Int) (h1 : t.lo ≤ x) (h2 : x ≤ t.hi) : t.cast x = x := by
  cases t <;> simp only [KTy.lo, KTy.hi] at h1 h2 <;> simp only [KTy.cast] <;> omega

/-- in general it lands in the type's range and is congruent to the value modulo 2^bits -/
theorem C19_key_cast_congruent (t : KTy) (x : Int) :
    t.lo ≤ t.cast x ∧ t.cast x ≤ t.hi ∧ (t.cast x - x) % (2 ^ t.bits) = 0 := by
  cases t <;> simp only [KTy.lo, KTy.hi, KTy.cast, KTy.bits] <;> omega

/-- key_from_pixel on a histogram<int,…>: exactly the selected channels (what `fill` relies on, `keyOf` with bin width 1 scaling aside) -/
theorem C19_key_from_pixel_int (sel : List Nat) (px : List Int) (n : Nat) (hs : sel.length = n)
    (hr : ∀ i ∈ sel, -2147483648 ≤ px.getD i 0 ∧ px.getD i 0 ≤ 2147483647) :
    keyFromPixel (List.replicate n .i32) sel px = if sel.isEmpty then [] else sel.map (fun i => px.getD i 0) := by
  subst hs
  induction sel with
  | nil => simp [keyFromPixel]
  | cons i rest ih =>
    simp only [keyFromPixel, List.isEmpty_cons, Bool.false_eq_true, if_false, List.length_cons, List.replicate_succ, List.map_cons, List.zip_cons_cons]
    have hi := hr i (by simp)
    rw [C19_key_cast_exact .i32 _ hi.1 hi.2]
    congr 1
    cases rest with
    | nil => simp
    | cons j rest' =>
      have := ih (fun i hi => hr i (by simp [hi]))
      simpa [keyFromPixel] using this

/-- is_tuple_compatible: same size and every component convertible -/
theorem C19_is_tuple_compatible_iff (dim : Nat) (conv : List Bool) :
    isTupleCompatible dim conv = true ↔ conv.length = dim ∧ ∀ b ∈ conv, b = true := by
  unfold isTupleCompatible
  by_cases e : conv.length = dim
  · subst e; simp
  · simp [e]

end GilVerif.Props.C19
