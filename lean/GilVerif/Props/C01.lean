/-
  C01 -- pixel access through images and views never leaves the image's storage.

  `C01_kernel_*`: the size arithmetic translated from image.hpp / utilities.hpp / channel.hpp equals
  fixed reference forms (under the explicit no-overflow hypotheses `… < 2^64` that `std::size_t`
  arithmetic needs).  On top of them, for every width, height, alignment, allocator address and
  every pixel organisation (interleaved / packed of any pixel size, planar with any number of planes,
  bit-aligned with any channel layout and bit-field size): the footprint of every in-range pixel of a
  freshly allocated image lies inside `[0, allocated bytes)`; rows are aligned; the same holds for
  every view derived by any list of transformations (through C02's composition theorem), for views
  over caller buffers of exactly `h * rowBytes`, and for the `recreate` reuse branch.
-/
import GilVerif.Model.C01
import GilVerif.Props.C02
import GilVerif.Props.C03
import Mathlib.Tactic.Ring
import Mathlib.Tactic.Linarith
import Mathlib.Tactic.SplitIfs

namespace GilVerif.Props.C01
open GilVerif.Gen.C01 GilVerif.Geom GilVerif.Model.C01

/-- 2^64: `std::size_t` arithmetic does not wrap below this -/
local notation "SZ" => (18446744073709551616 : Int)

/-! ### kernels in reference form (valid while nothing overflows `std::size_t`) -/

/-- `align(val, a) = val + (a - val % a) % a` -/
theorem C01_kernel_align (val a : Int) (hv : 0 ≤ val) (ha : 0 < a) (hov : val + a < SZ) :
    align val a = val + (a - val % a) % a := by
  have h1 := Int.emod_nonneg val (show a ≠ 0 by omega)
  have h2 := Int.emod_lt_of_pos val ha
  have h3 := Int.emod_nonneg (a - val % a) (show a ≠ 0 by omega)
  have h4 := Int.emod_lt_of_pos (a - val % a) ha
  unfold align
  simp (disch := omega) only [Int.emod_eq_of_lt] <;> first | rfl | omega | (ring_nf; done)

/-- `align` rounds up to the next multiple -/
theorem C01_align_spec (val a : Int) (hv : 0 ≤ val) (ha : 0 < a) (hov : val + a < SZ) :
    val ≤ align val a ∧ align val a < val + a ∧ align val a % a = 0 := by
  rw [C01_kernel_align val a hv ha hov]
  have h1 := Int.emod_nonneg val (show a ≠ 0 by omega)
  have h2 := Int.emod_lt_of_pos val ha
  have h3 := Int.emod_nonneg (a - val % a) (show a ≠ 0 by omega)
  have h4 := Int.emod_lt_of_pos (a - val % a) ha
  refine ⟨by omega, ?_, ?_⟩
  · by_cases hz : val % a = 0
    · rw [hz]; simp; omega
    · rw [Int.emod_eq_of_lt (show 0 ≤ a - val % a by omega) (show a - val % a < a by omega)]; omega
  · by_cases hz : val % a = 0
    · rw [hz]; simp [hz]
    · rw [Int.emod_eq_of_lt (show 0 ≤ a - val % a by omega) (show a - val % a < a by omega)]
      have hh : val + (a - val % a) = a * (val / a + 1) := by
        have := Int.mul_ediv_add_emod val a
        rw [Int.mul_add, Int.mul_one]; omega
      rw [hh]; exact Int.mul_emod_right _ _

example : align 13 8 = 16 ∧ align 16 8 = 16 ∧ align 5 12 = 12 := by decide

/-- `get_row_size_in_memunits(w)`: the pixel row, rounded up to the alignment (in memory units) when one is requested -/
theorem C01_kernel_row_size (w ms b2m a : Int) (hw : 0 ≤ w * ms) (hb : 0 < b2m) (ha : 0 ≤ a)
    (hov : w * ms + a * b2m < SZ) (hb' : b2m < SZ) :
    row_size_in_memunits w ms b2m a = if a > 0 then align (w * ms) (a * b2m) else w * ms := by
  unfold row_size_in_memunits
  have hab : 0 ≤ a * b2m := Int.mul_nonneg ha (by omega)
  have hc1 : b2m * a = a * b2m := by ring
  have hc2 : ms * w = w * ms := by ring
  simp (disch := omega) only [Int.emod_eq_of_lt, hc1, hc2] <;> first | rfl | (split_ifs <;> first | rfl | omega | (ring_nf; done))

/-- the row holds the pixels and, with an alignment, is a multiple of it -/
theorem C01_row_spec (w ms b2m a : Int) (hw : 0 ≤ w * ms) (hb : 0 < b2m) (ha : 0 ≤ a)
    (hov : w * ms + a * b2m < SZ) (hb' : b2m < SZ) :
    w * ms ≤ row_size_in_memunits w ms b2m a
    ∧ (a > 0 → row_size_in_memunits w ms b2m a % (a * b2m) = 0 ∧ row_size_in_memunits w ms b2m a < w * ms + a * b2m)
    ∧ (a = 0 → row_size_in_memunits w ms b2m a = w * ms) := by
  rw [C01_kernel_row_size w ms b2m a hw hb ha hov hb']
  by_cases h : a > 0
  · have hab : 0 < a * b2m := Int.mul_pos h hb
    obtain ⟨s1, s2, s3⟩ := C01_align_spec (w * ms) (a * b2m) hw hab hov
    rw [if_pos h]; exact ⟨s1, fun _ => ⟨s3, s2⟩, fun h0 => by omega⟩
  · rw [if_neg h]; exact ⟨Int.le_refl _, fun h' => absurd h' h, fun _ => rfl⟩

/-- `total_allocated_size_in_bytes`, interleaved / packed / bit-aligned: rows × row size, rounded up to bytes, plus `a - 1` slack -/
theorem C01_kernel_total_interleaved (w h ms b2m a nch row : Int) (hrow : row_size_in_memunits w ms b2m a = row)
    (hr : 0 ≤ row) (hh : 0 ≤ h) (hb : 0 < b2m) (ha : 0 ≤ a) (hov : row * h + h + b2m + a < SZ) :
    total_bytes_interleaved w h ms b2m a nch = (row * h + b2m - 1) / b2m + (if a > 0 then a - 1 else 0) := by
  unfold total_bytes_interleaved
  rw [hrow]
  have hrh : 0 ≤ row * h := Int.mul_nonneg hr hh
  have hq0 : 0 ≤ (row * h + b2m - 1) / b2m := Int.ediv_nonneg (by omega) (by omega)
  have hq1 : (row * h + b2m - 1) / b2m ≤ row * h + b2m - 1 := Int.ediv_le_self _ (by omega)
  have hc : b2m + row * h - 1 = row * h + b2m - 1 := by ring
  have hc' : h * row = row * h := by ring
  simp (disch := omega) only [Int.emod_eq_of_lt, hc, hc'] <;>
    (split_ifs <;> simp (disch := omega) only [Int.emod_eq_of_lt, hc, hc'] <;> first | rfl | omega)

/-- planar: the same with `nch` planes -/
theorem C01_kernel_total_planar (w h ms b2m a nch row : Int) (hrow : row_size_in_memunits w ms b2m a = row)
    (hr : 0 ≤ row) (hh : 0 ≤ h) (hn : 0 ≤ nch) (hb : 0 < b2m) (ha : 0 ≤ a) (hov : row * h * nch + row * h + h + b2m + a < SZ) :
    total_bytes_planar w h ms b2m a nch = (row * h * nch + b2m - 1) / b2m + (if a > 0 then a - 1 else 0) := by
  unfold total_bytes_planar
  rw [hrow]
  have hrh : 0 ≤ row * h := Int.mul_nonneg hr hh
  have hrhn : 0 ≤ row * h * nch := Int.mul_nonneg hrh hn
  have hq0 : 0 ≤ (row * h * nch + b2m - 1) / b2m := Int.ediv_nonneg (by omega) (by omega)
  have hq1 : (row * h * nch + b2m - 1) / b2m ≤ row * h * nch + b2m - 1 := Int.ediv_le_self _ (by omega)
  have hc : b2m + row * h * nch - 1 = row * h * nch + b2m - 1 := by ring
  have hc' : h * row = row * h := by ring
  have hc'' : nch * (row * h) = row * h * nch := by ring
  simp (disch := omega) only [Int.emod_eq_of_lt, hc, hc', hc''] <;>
    (split_ifs <;> simp (disch := omega) only [Int.emod_eq_of_lt, hc, hc', hc''] <;> first | rfl | omega)

/-- `packed_dynamic_channel_reference::data_size()` (both constness variants): the bytes that hold
    bits `[first_bit, first_bit + NumBits)`, capped by the bit field size -/
theorem C01_kernel_chan_data_size (fb nb fbytes : Int) (h0 : 0 ≤ fb) (h1 : 0 ≤ nb) (hov : fb + nb + 7 < 4294967296) :
    chan_data_size fb nb fbytes = min ((fb + nb + 7) / 8) fbytes
    ∧ chan_data_size_const fb nb fbytes = min ((fb + nb + 7) / 8) fbytes := by
  unfold chan_data_size chan_data_size_const
  have e1 : nb % 4294967296 = nb := Int.emod_eq_of_lt h1 (by omega)
  have e2 : (fb + nb) % 4294967296 = fb + nb := Int.emod_eq_of_lt (by omega) (by omega)
  have e3 : (fb + nb + 7) % 4294967296 = fb + nb + 7 := Int.emod_eq_of_lt (by omega) (by omega)
  simp only [e1, e2, e3]
  constructor <;> (split_ifs <;> omega)

/-! ### freshly allocated images -/

private theorem mul_le_of_lt {y h row : Int} (hy : y < h) (hr : 0 ≤ row) : (y + 1) * row ≤ h * row :=
  Int.mul_le_mul_of_nonneg_right (by omega) hr

/-- origin offset: `0 ≤ off ≤ a - 1` and the first pixel's *address* `m + off` is a multiple of `a` -/
theorem C01_origin (m a : Int) (hm : 0 ≤ m) (ha : 0 ≤ a) (hov : m + a < SZ) :
    0 ≤ originOff m a ∧ (a > 0 → originOff m a ≤ a - 1 ∧ (m + originOff m a) % a = 0) ∧ (a = 0 → originOff m a = 0) := by
  unfold originOff
  by_cases h : a > 0
  · obtain ⟨s1, s2, s3⟩ := C01_align_spec m a hm h hov
    rw [if_pos h]
    refine ⟨by omega, fun _ => ⟨by omega, ?_⟩, fun h0 => by omega⟩
    have : m + (align m a - m) = align m a := by ring
    rw [this]; exact s3
  · rw [if_neg h]; exact ⟨Int.le_refl _, fun h' => absurd h' h, fun _ => rfl⟩

/-- **interleaved / packed images** (any pixel size `P = mstep` bytes): every in-range pixel's bytes
    lie inside the allocation, for every w, h, alignment a and allocator address m -/
theorem C01_image_in_bounds_interleaved (o : Org) (w h a m x y : Int) (hb : o.b2m = 1) (hp : o.planar = false)
    (hP : 0 < o.mstep) (hw : 0 ≤ w) (hh : 0 ≤ h) (ha : 0 ≤ a) (hm : 0 ≤ m)
    (hov1 : w * o.mstep + a + m < SZ) (hov : rowUnits o w a * h + h + 1 + a < SZ)
    (hr : (imageView o w h a m).InRange x y) :
    within (allocBytes o w h a) (footprint o (rowUnits o w a * h) ((imageView o w h a m).addr x y)) := by
  obtain ⟨hx0, hx1, hy0, hy1⟩ := hr
  simp only [imageView] at hx0 hx1 hy0 hy1
  have hwP : 0 ≤ w * o.mstep := Int.mul_nonneg hw (by omega)
  have hxP : (x + 1) * o.mstep ≤ w * o.mstep := Int.mul_le_mul_of_nonneg_right (by omega) (by omega)
  have hxP0 : 0 ≤ x * o.mstep := Int.mul_nonneg hx0 (by omega)
  obtain ⟨r1, r2, r3⟩ := C01_row_spec w o.mstep o.b2m a hwP (by omega) ha (by rw [hb]; omega) (by rw [hb]; decide)
  have hrow0 : 0 ≤ rowUnits o w a := by unfold rowUnits; omega
  have hyr := mul_le_of_lt hy1 hrow0
  have hyr0 : 0 ≤ y * rowUnits o w a := Int.mul_nonneg hy0 hrow0
  have hrh : 0 ≤ rowUnits o w a * h := Int.mul_nonneg hrow0 hh
  obtain ⟨o1, o2, o3⟩ := C01_origin m a hm ha (by omega)
  have htot := C01_kernel_total_interleaved w h o.mstep o.b2m a o.nch (rowUnits o w a) rfl hrow0 hh (by omega) ha (by rw [hb]; omega)
  unfold allocBytes
  simp only [hp, Bool.false_eq_true, if_false]
  rw [htot]
  unfold footprint footprintF within
  simp only [hp, hb, if_false, imageView, View.addr, show (1 : Int) ≠ 8 by decide, Bool.false_eq_true]
  intro q hq
  simp only [List.mem_singleton] at hq
  subst hq
  simp only [Int.mul_one, Int.add_sub_cancel, Int.ediv_one]
  have e1 : (y + 1) * rowUnits o w a = y * rowUnits o w a + rowUnits o w a := by ring
  have e2 : (x + 1) * o.mstep = x * o.mstep + o.mstep := by ring
  have e3 : h * rowUnits o w a = rowUnits o w a * h := by ring
  unfold rowUnits at *
  by_cases h0 : a > 0
  · have := (o2 h0).1
    simp only [h0, if_true]; constructor <;> omega
  · have := o3 (by omega)
    simp only [h0, if_false]; constructor <;> omega

/-- a 3x2 rgb8 image with alignment 16 at an odd allocator address: the last pixel's bytes end inside the allocation -/
example : (imageView ⟨1, 3, false, 3, [], 0⟩ 3 2 16 1001).InRange 2 1
    ∧ allocBytes ⟨1, 3, false, 3, [], 0⟩ 3 2 16 = 47
    ∧ footprint ⟨1, 3, false, 3, [], 0⟩ 32 ((imageView ⟨1, 3, false, 3, [], 0⟩ 3 2 16 1001).addr 2 1) = [(29, 3)] := by decide

/-- **planar images** (any number of planes, any channel size): the channel bytes in every plane lie inside the allocation -/
theorem C01_image_in_bounds_planar (o : Org) (w h a m x y : Int) (hb : o.b2m = 1) (hp : o.planar = true)
    (hP : 0 < o.mstep) (hn : 0 ≤ o.nch) (hw : 0 ≤ w) (hh : 0 ≤ h) (ha : 0 ≤ a) (hm : 0 ≤ m)
    (hov1 : w * o.mstep + a + m < SZ) (hov : rowUnits o w a * h * o.nch + rowUnits o w a * h + h + 1 + a < SZ)
    (hr : (imageView o w h a m).InRange x y) :
    within (allocBytes o w h a) (footprint o (rowUnits o w a * h) ((imageView o w h a m).addr x y)) := by
  obtain ⟨hx0, hx1, hy0, hy1⟩ := hr
  simp only [imageView] at hx0 hx1 hy0 hy1
  have hwP : 0 ≤ w * o.mstep := Int.mul_nonneg hw (by omega)
  have hxP : (x + 1) * o.mstep ≤ w * o.mstep := Int.mul_le_mul_of_nonneg_right (by omega) (by omega)
  have hxP0 : 0 ≤ x * o.mstep := Int.mul_nonneg hx0 (by omega)
  obtain ⟨r1, r2, r3⟩ := C01_row_spec w o.mstep o.b2m a hwP (by omega) ha (by rw [hb]; omega) (by rw [hb]; decide)
  have hrow0 : 0 ≤ rowUnits o w a := by unfold rowUnits; omega
  have hyr := mul_le_of_lt hy1 hrow0
  have hyr0 : 0 ≤ y * rowUnits o w a := Int.mul_nonneg hy0 hrow0
  have hrh : 0 ≤ rowUnits o w a * h := Int.mul_nonneg hrow0 hh
  have hrhn : 0 ≤ rowUnits o w a * h * o.nch := Int.mul_nonneg hrh hn
  obtain ⟨o1, o2, o3⟩ := C01_origin m a hm ha (by omega)
  have htot := C01_kernel_total_planar w h o.mstep o.b2m a o.nch (rowUnits o w a) rfl hrow0 hh hn (by omega) ha (by rw [hb]; omega)
  unfold allocBytes
  simp only [hp, if_true]
  rw [htot]
  unfold footprint footprintF within
  simp only [hp, hb, if_true, imageView, View.addr, show (1 : Int) ≠ 8 by decide, if_false]
  intro q hq
  simp only [List.mem_map, List.mem_range] at hq
  obtain ⟨k, hk, rfl⟩ := hq
  have hk' : (k : Int) + 1 ≤ o.nch := by omega
  have hkp : ((k : Int) + 1) * (rowUnits o w a * h) ≤ o.nch * (rowUnits o w a * h) := Int.mul_le_mul_of_nonneg_right hk' hrh
  have hk0 : 0 ≤ (k : Int) * (rowUnits o w a * h) := Int.mul_nonneg (by omega) hrh
  simp only [Int.mul_one, Int.add_sub_cancel, Int.ediv_one]
  have e1 : (y + 1) * rowUnits o w a = y * rowUnits o w a + rowUnits o w a := by ring
  have e2 : (x + 1) * o.mstep = x * o.mstep + o.mstep := by ring
  have e3 : h * rowUnits o w a = rowUnits o w a * h := by ring
  have e4 : ((k : Int) + 1) * (rowUnits o w a * h) = (k : Int) * (rowUnits o w a * h) + rowUnits o w a * h := by ring
  have e5 : o.nch * (rowUnits o w a * h) = rowUnits o w a * h * o.nch := by ring
  unfold rowUnits at *
  by_cases h0 : a > 0
  · have := (o2 h0).1
    simp only [h0, if_true]; constructor <;> omega
  · have := o3 (by omega)
    simp only [h0, if_false]; constructor <;> omega

/-- **bit-aligned images** (any pixel bit size `B = mstep`, any channel layout inside the pixel, any
    bit-field size): for every channel, the bytes its reference copies lie inside the allocation --
    also at the last pixel of the last row -/
theorem C01_image_in_bounds_bitaligned (o : Org) (w h a m x y : Int) (hb : o.b2m = 8) (hp : o.planar = false)
    (hP : 0 < o.mstep) (hw : 0 ≤ w) (hh : 0 ≤ h) (ha : 0 ≤ a) (hm : 0 ≤ m)
    (hch : ∀ c ∈ o.chans, 0 ≤ c.1 ∧ 0 < c.2 ∧ c.1 + c.2 ≤ o.mstep) (hB : o.mstep < 4294967000)
    (hov1 : w * o.mstep + a * 8 + m < SZ) (hov : rowUnits o w a * h + h + 8 + a < SZ)
    (hr : (imageView o w h a m).InRange x y) :
    within (allocBytes o w h a) (footprint o (rowUnits o w a * h) ((imageView o w h a m).addr x y)) := by
  obtain ⟨hx0, hx1, hy0, hy1⟩ := hr
  simp only [imageView] at hx0 hx1 hy0 hy1
  have hwP : 0 ≤ w * o.mstep := Int.mul_nonneg hw (by omega)
  have hxP : (x + 1) * o.mstep ≤ w * o.mstep := Int.mul_le_mul_of_nonneg_right (by omega) (by omega)
  have hxP0 : 0 ≤ x * o.mstep := Int.mul_nonneg hx0 (by omega)
  obtain ⟨r1, r2, r3⟩ := C01_row_spec w o.mstep o.b2m a hwP (by omega) ha (by rw [hb]; omega) (by rw [hb]; decide)
  have hrow0 : 0 ≤ rowUnits o w a := by unfold rowUnits; omega
  have hyr := mul_le_of_lt hy1 hrow0
  have hyr0 : 0 ≤ y * rowUnits o w a := Int.mul_nonneg hy0 hrow0
  have hrh : 0 ≤ rowUnits o w a * h := Int.mul_nonneg hrow0 hh
  obtain ⟨o1, o2, o3⟩ := C01_origin m a hm ha (by omega)
  have htot := C01_kernel_total_interleaved w h o.mstep o.b2m a o.nch (rowUnits o w a) rfl hrow0 hh (by omega) ha (by rw [hb]; omega)
  unfold allocBytes
  simp only [hp, Bool.false_eq_true, if_false]
  rw [htot]
  unfold footprint footprintF within
  simp only [hp, hb, if_false, if_true, imageView, View.addr, Bool.false_eq_true]
  intro q hq
  simp only [List.mem_map] at hq
  obtain ⟨c, hc, rfl⟩ := hq
  obtain ⟨c0, c1, c2⟩ := hch c hc
  have e1 : (y + 1) * rowUnits o w a = y * rowUnits o w a + rowUnits o w a := by ring
  have e2 : (x + 1) * o.mstep = x * o.mstep + o.mstep := by ring
  have e3 : h * rowUnits o w a = rowUnits o w a * h := by ring
  have hbit0 : 0 ≤ originOff m a * 8 + y * rowUnits o w a + x * o.mstep := by omega
  have hm0 := Int.emod_nonneg (originOff m a * 8 + y * rowUnits o w a + x * o.mstep) (show (8 : Int) ≠ 0 by decide)
  have hm1 := Int.emod_lt_of_pos (originOff m a * 8 + y * rowUnits o w a + x * o.mstep) (show (0 : Int) < 8 by decide)
  rw [(C01_kernel_chan_data_size _ _ o.fieldBytes (by omega) (by omega) (by omega)).1]
  simp only []
  have hmin : min (((originOff m a * 8 + y * rowUnits o w a + x * o.mstep) % 8 + c.1 + c.2 + 7) / 8) o.fieldBytes
      ≤ ((originOff m a * 8 + y * rowUnits o w a + x * o.mstep) % 8 + c.1 + c.2 + 7) / 8 := Int.min_le_left _ _
  unfold rowUnits at *
  by_cases h0 : a > 0
  · have := (o2 h0).1
    simp only [h0, if_true]; constructor <;> omega
  · have := o3 (by omega)
    simp only [h0, if_false]; constructor <;> omega

/-- 2-2-2 rgb bit-aligned, 1x1, no alignment: one byte allocated, every channel access stays in it -/
example : allocBytes ⟨8, 6, false, 3, [(0, 2), (2, 2), (4, 2)], 2⟩ 1 1 0 = 1
    ∧ within 1 (footprint ⟨8, 6, false, 3, [(0, 2), (2, 2), (4, 2)], 2⟩ 6 ((imageView ⟨8, 6, false, 3, [(0, 2), (2, 2), (4, 2)], 2⟩ 1 1 0 77).addr 0 0)) := by decide

/-- **the defect fixed by c04bc05, machine-checked**: copying `sizeof(BitField)` = 2 bytes at the
    channel's byte (what `get_data()` / `set_data()` did) reads and writes byte 1 of the 1-byte buffer -/
theorem C01_fieldbytes_copy_overrun_witness :
    ¬ within (allocBytes ⟨8, 6, false, 3, [(0, 2), (2, 2), (4, 2)], 2⟩ 1 1 0)
        (footprintOld ⟨8, 6, false, 3, [(0, 2), (2, 2), (4, 2)], 2⟩ ((imageView ⟨8, 6, false, 3, [(0, 2), (2, 2), (4, 2)], 2⟩ 1 1 0 77).addr 0 0)) := by decide

/-- every row of a byte-addressed image starts at an address that is a multiple of the alignment -/
theorem C01_row_alignment (o : Org) (w a m y : Int) (hb : o.b2m = 1) (hP : 0 ≤ o.mstep) (hw : 0 ≤ w) (ha : 0 < a) (hm : 0 ≤ m)
    (hov : w * o.mstep + a + m < SZ) :
    (m + originOff m a + y * rowUnits o w a) % a = 0 := by
  have hwP : 0 ≤ w * o.mstep := Int.mul_nonneg hw hP
  obtain ⟨_, r2, _⟩ := C01_row_spec w o.mstep o.b2m a hwP (by omega) (by omega) (by rw [hb]; omega) (by rw [hb]; decide)
  obtain ⟨_, o2, _⟩ := C01_origin m a hm (by omega) (by omega)
  have h1 := (o2 ha).2
  have h2 := (r2 ha).1
  have hb1 : a * o.b2m = a := by rw [hb, Int.mul_one]
  rw [hb1] at h2
  unfold rowUnits
  have d1 : a ∣ m + originOff m a := Int.dvd_of_emod_eq_zero h1
  have d2 : a ∣ row_size_in_memunits w o.mstep o.b2m a := Int.dvd_of_emod_eq_zero h2
  exact Int.emod_eq_zero_of_dvd (Int.dvd_add d1 (Dvd.dvd.mul_left d2 y))

/-! ### derived views, caller buffers, recreate -/

/-- **any view derived from an interleaved / packed image by any list of transformations**: every
    in-range pixel of the derived view is an in-range pixel of the image (C02_compose), hence its bytes
    lie inside the allocation -/
theorem C01_derived_in_bounds (o : Org) (w h a m : Int) (ts : List Xform) (x y : Int) (hb : o.b2m = 1) (hp : o.planar = false)
    (hP : 0 < o.mstep) (hw : 0 ≤ w) (hh : 0 ≤ h) (ha : 0 ≤ a) (hm : 0 ≤ m)
    (hov1 : w * o.mstep + a + m < SZ) (hov : rowUnits o w a * h + h + 1 + a < SZ)
    (hv : validAll ts (imageView o w h a m))
    (hr : (GilVerif.Model.C02.applyMemAll ts (imageView o w h a m)).InRange x y) :
    within (allocBytes o w h a) (footprint o (rowUnits o w a * h) ((GilVerif.Model.C02.applyMemAll ts (imageView o w h a m)).addr x y)) := by
  obtain ⟨e, hin⟩ := GilVerif.Props.C02.C02_compose ts (imageView o w h a m) hv hw hh x y hr
  rw [e]
  exact C01_image_in_bounds_interleaved o w h a m _ _ hb hp hP hw hh ha hm hov1 hov hin

/-- the same for planar and for bit-aligned images: a derived pixel *is* an in-range image pixel -/
theorem C01_derived_is_image_pixel (v : View) (ts : List Xform) (x y : Int) (hw : 0 ≤ v.w) (hh : 0 ≤ v.h)
    (hv : validAll ts v) (hr : (GilVerif.Model.C02.applyMemAll ts v).InRange x y) :
    ∃ x' y', v.InRange x' y' ∧ (GilVerif.Model.C02.applyMemAll ts v).addr x y = v.addr x' y' := by
  obtain ⟨e, hin⟩ := GilVerif.Props.C02.C02_compose ts v hv hw hh x y hr
  exact ⟨_, _, hin, e⟩

/-- **views over caller buffers** (`interleaved_view(w, h, pixels, rowBytes)` over exactly
    `h * rowBytes` bytes, `w * P ≤ rowBytes`): no byte before or after the buffer -/
theorem C01_caller_buffer (P R w h x y : Int) (hP : 0 < P) (hR : w * P ≤ R) (hw : 0 ≤ w)
    (hr : (View.mk 0 P R w h).InRange x y) :
    0 ≤ (View.mk 0 P R w h).addr x y ∧ (View.mk 0 P R w h).addr x y + P ≤ h * R := by
  obtain ⟨hx0, hx1, hy0, hy1⟩ := hr
  simp only [] at hx0 hx1 hy0 hy1
  have hR0 : 0 ≤ R := le_trans (Int.mul_nonneg hw (by omega)) hR
  have h1 : (x + 1) * P ≤ w * P := Int.mul_le_mul_of_nonneg_right (by omega) (by omega)
  have h2 : (y + 1) * R ≤ h * R := Int.mul_le_mul_of_nonneg_right (by omega) hR0
  have h3 : 0 ≤ x * P := Int.mul_nonneg hx0 (by omega)
  have h4 : 0 ≤ y * R := Int.mul_nonneg hy0 hR0
  have e1 : (x + 1) * P = x * P + P := by ring
  have e2 : (y + 1) * R = y * R + R := by ring
  simp only [View.addr]
  constructor <;> omega

/-- **recreate, reuse branch** (`_allocated_bytes >= total_allocated_size_in_bytes(dims)`): the new
    view is laid out over the old storage by `create_view`; its pixels stay inside the old allocation -/
theorem C01_recreate_reuse (o : Org) (allocated w h a m x y : Int) (hb : o.b2m = 1) (hp : o.planar = false)
    (hP : 0 < o.mstep) (hw : 0 ≤ w) (hh : 0 ≤ h) (ha : 0 ≤ a) (hm : 0 ≤ m)
    (hov1 : w * o.mstep + a + m < SZ) (hov : rowUnits o w a * h + h + 1 + a < SZ)
    (hreuse : allocated ≥ allocBytes o w h a)
    (hr : (imageView o w h a m).InRange x y) :
    within allocated (footprint o (rowUnits o w a * h) ((imageView o w h a m).addr x y)) := by
  have := C01_image_in_bounds_interleaved o w h a m x y hb hp hP hw hh ha hm hov1 hov hr
  intro q hq
  obtain ⟨q1, q2⟩ := this q hq
  exact ⟨q1, by omega⟩

/-- **derived views of PLANAR images**: for every list of transformations valid for the image's view and every
    in-range (x,y) of the derived view, the channel bytes touched in every plane lie inside the allocation -/
theorem C01_derived_in_bounds_planar (o : Org) (w h a m : Int) (ts : List Xform) (x y : Int) (hb : o.b2m = 1) (hp : o.planar = true)
    (hP : 0 < o.mstep) (hn : 0 ≤ o.nch) (hw : 0 ≤ w) (hh : 0 ≤ h) (ha : 0 ≤ a) (hm : 0 ≤ m)
    (hov1 : w * o.mstep + a + m < SZ) (hov : rowUnits o w a * h * o.nch + rowUnits o w a * h + h + 1 + a < SZ)
    (hv : validAll ts (imageView o w h a m))
    (hr : (GilVerif.Model.C02.applyMemAll ts (imageView o w h a m)).InRange x y) :
    within (allocBytes o w h a) (footprint o (rowUnits o w a * h) ((GilVerif.Model.C02.applyMemAll ts (imageView o w h a m)).addr x y)) := by
  obtain ⟨e, hin⟩ := GilVerif.Props.C02.C02_compose ts (imageView o w h a m) hv hw hh x y hr
  rw [e]
  exact C01_image_in_bounds_planar o w h a m _ _ hb hp hP hn hw hh ha hm hov1 hov hin

/-- a planar rgb8 5x4 image, alignment 8, rotated and subsampled: pixel (1,2) of the derived view touches one byte in each of the three planes -/
example : validAll [.rot90cw, .subsample 2 1] (imageView ⟨1, 1, true, 3, [], 0⟩ 5 4 8 3)
    ∧ (GilVerif.Model.C02.applyMemAll [.rot90cw, .subsample 2 1] (imageView ⟨1, 1, true, 3, [], 0⟩ 5 4 8 3)).InRange 1 2
    ∧ allocBytes ⟨1, 1, true, 3, [], 0⟩ 5 4 8 = 103
    ∧ footprint ⟨1, 1, true, 3, [], 0⟩ (rowUnits ⟨1, 1, true, 3, [], 0⟩ 5 8 * 4)
        ((GilVerif.Model.C02.applyMemAll [.rot90cw, .subsample 2 1] (imageView ⟨1, 1, true, 3, [], 0⟩ 5 4 8 3)).addr 1 2) = [(15, 1), (47, 1), (79, 1)] := by decide

/-- **derived views of BIT-ALIGNED images**: for every valid list of transformations and every in-range (x,y) of
    the derived view, the `data_size()` bytes every channel reference copies lie inside the allocation -/
theorem C01_derived_in_bounds_bitaligned (o : Org) (w h a m : Int) (ts : List Xform) (x y : Int) (hb : o.b2m = 8) (hp : o.planar = false)
    (hP : 0 < o.mstep) (hw : 0 ≤ w) (hh : 0 ≤ h) (ha : 0 ≤ a) (hm : 0 ≤ m)
    (hch : ∀ c ∈ o.chans, 0 ≤ c.1 ∧ 0 < c.2 ∧ c.1 + c.2 ≤ o.mstep) (hB : o.mstep < 4294967000)
    (hov1 : w * o.mstep + a * 8 + m < SZ) (hov : rowUnits o w a * h + h + 8 + a < SZ)
    (hv : validAll ts (imageView o w h a m))
    (hr : (GilVerif.Model.C02.applyMemAll ts (imageView o w h a m)).InRange x y) :
    within (allocBytes o w h a) (footprint o (rowUnits o w a * h) ((GilVerif.Model.C02.applyMemAll ts (imageView o w h a m)).addr x y)) := by
  obtain ⟨e, hin⟩ := GilVerif.Props.C02.C02_compose ts (imageView o w h a m) hv hw hh x y hr
  rw [e]
  exact C01_image_in_bounds_bitaligned o w h a m _ _ hb hp hP hw hh ha hm hch hB hov1 hov hin

/-- a 2-2-2 rgb bit-aligned 3x3 image (7 bytes) flipped and transposed: the last pixel's channels stay inside the 7 bytes -/
example : allocBytes ⟨8, 6, false, 3, [(0, 2), (2, 2), (4, 2)], 2⟩ 3 3 0 = 7
    ∧ (GilVerif.Model.C02.applyMemAll [.flipLR, .transpose] (imageView ⟨8, 6, false, 3, [(0, 2), (2, 2), (4, 2)], 2⟩ 3 3 0 5)).InRange 2 0
    ∧ footprint ⟨8, 6, false, 3, [(0, 2), (2, 2), (4, 2)], 2⟩ 54
        ((GilVerif.Model.C02.applyMemAll [.flipLR, .transpose] (imageView ⟨8, 6, false, 3, [(0, 2), (2, 2), (4, 2)], 2⟩ 3 3 0 5)).addr 2 0) = [(6, 1), (6, 1), (6, 1)] := by decide

/-! ### every organisation at once -/

theorem C01_image_in_bounds (o : Org) (w h a m x y : Int) (hwf : o.WF) (hno : NoOvf o w h a m)
    (hr : (imageView o w h a m).InRange x y) :
    within (allocBytes o w h a) (footprint o (rowUnits o w a * h) ((imageView o w h a m).addr x y)) := by
  obtain ⟨hP, hn, hk⟩ := hwf
  obtain ⟨hw, hh, ha, hm, h1, h2, h3⟩ := hno
  unfold PZ at *
  rcases hk with hb | ⟨hb, hp, hch, hB⟩
  · cases hp : o.planar
    · exact C01_image_in_bounds_interleaved o w h a m x y hb hp hP hw hh ha hm (by rw [hb] at h1; omega) (by rw [hb] at h2; omega) hr
    · exact C01_image_in_bounds_planar o w h a m x y hb hp hP hn hw hh ha hm (by rw [hb] at h1; omega) (by have := h3 hp; omega) hr
  · exact C01_image_in_bounds_bitaligned o w h a m x y hb hp hP hw hh ha hm hch hB (by rw [hb] at h1; omega) (by rw [hb] at h2; omega) hr

theorem C01_derived_in_bounds_all (o : Org) (w h a m : Int) (ts : List Xform) (x y : Int) (hwf : o.WF) (hno : NoOvf o w h a m)
    (hv : validAll ts (imageView o w h a m))
    (hr : (GilVerif.Model.C02.applyMemAll ts (imageView o w h a m)).InRange x y) :
    within (allocBytes o w h a) (footprint o (rowUnits o w a * h) ((GilVerif.Model.C02.applyMemAll ts (imageView o w h a m)).addr x y)) := by
  obtain ⟨e, hin⟩ := GilVerif.Props.C02.C02_compose ts (imageView o w h a m) hv hno.1 hno.2.1 x y hr
  rw [e]
  exact C01_image_in_bounds o w h a m _ _ hwf hno hin

theorem C01_kernel_create_view_interleaved (w h ms b2m a nch mem row t0 r0 w0 h0 : Int) (hrow : row_size_in_memunits w ms b2m a = row)
    (hr : 0 ≤ row) (hr' : row < PZ) :
    create_view_interleaved w h ms b2m a nch mem t0 r0 w0 h0 = (if a > 0 then align mem a else mem, row, w, h) := by
  unfold create_view_interleaved PZ at *
  simp (disch := omega) only [Int.emod_eq_of_lt, hrow]
  first | rfl | (ext <;> simp only [] <;> omega)

theorem C01_kernel_create_view_planar (w h ms b2m a nch mem row i p0 t0 r0 w0 h0 : Int) (hrow : row_size_in_memunits w ms b2m a = row)
    (hr : 0 ≤ row) (hr' : row < PZ) (hh : 0 ≤ h) (hi : 0 ≤ i) (hov : row * h * i < PZ) (hov' : row * h < PZ) (hh' : h < PZ) :
    create_view_planar w h ms b2m a nch mem i p0 t0 r0 w0 h0 = (if a > 0 then align mem a else mem, row * h * i, row, w, h) := by
  unfold create_view_planar PZ at *
  have hrh : 0 ≤ row * h := Int.mul_nonneg hr hh
  have hrhi : 0 ≤ row * h * i := Int.mul_nonneg hrh hi
  have hc1 : h * row = row * h := by ring
  have hc2 : i * (row * h) = row * h * i := by ring
  simp (disch := omega) only [Int.emod_eq_of_lt, hrow, hc1, hc2]
  first | rfl | (ext <;> simp only [] <;> omega)

theorem C01_kernel_allocate_interleaved (w h ms b2m a nch m0 ar n0 t0 r0 w0 h0 row : Int) (hrow : row_size_in_memunits w ms b2m a = row)
    (hr : 0 ≤ row) (hr' : row < PZ) :
    allocate_interleaved w h ms b2m a nch m0 ar n0 t0 r0 w0 h0 =
      if total_bytes_interleaved w h ms b2m a nch = 0 then (0, m0, if a > 0 then align m0 a else m0, row, w, h)
      else (total_bytes_interleaved w h ms b2m a nch, ar, if a > 0 then align ar a else ar, row, w, h) := by
  unfold allocate_interleaved PZ at *
  simp (disch := omega) only [Int.emod_eq_of_lt, hrow]
  split_ifs <;> first | rfl | (ext <;> simp only [] <;> omega)

theorem C01_kernel_allocate_planar (w h ms b2m a nch m0 ar n0 i p0 t0 r0 w0 h0 row : Int) (hrow : row_size_in_memunits w ms b2m a = row)
    (hr : 0 ≤ row) (hr' : row < PZ) (hh : 0 ≤ h) (hh' : h < PZ) (hi : 0 ≤ i) (hov : row * h * i < PZ) (hov' : row * h < PZ) :
    allocate_planar w h ms b2m a nch m0 ar n0 i p0 t0 r0 w0 h0 =
      if total_bytes_planar w h ms b2m a nch = 0 then (0, m0, if a > 0 then align m0 a else m0, row * h * i, row, w, h)
      else (total_bytes_planar w h ms b2m a nch, ar, if a > 0 then align ar a else ar, row * h * i, row, w, h) := by
  unfold allocate_planar PZ at *
  have hrh : 0 ≤ row * h := Int.mul_nonneg hr hh
  have hrhi : 0 ≤ row * h * i := Int.mul_nonneg hrh hi
  have hc1 : h * row = row * h := by ring
  have hc2 : i * (row * h) = row * h * i := by ring
  simp (disch := omega) only [Int.emod_eq_of_lt, hrow, hc1, hc2]
  split_ifs <;> first | rfl | (ext <;> simp only [] <;> omega)

macro "recreate_eq" : tactic =>
  `(tactic| ((try simp only []) <;> split_ifs <;> first | rfl | (exfalso; omega) | (ext <;> simp only [] <;> omega)))

/-- the four `recreate` overloads of both image kinds: nothing to do when dimensions and alignment
    (and, where one is passed, the allocator) are the current ones; otherwise the alignment is replaced
    FIRST and the storage is reused iff `_allocated_bytes >= total_allocated_size_in_bytes(dims)` under
    the NEW alignment -/
theorem C01_kernel_recreate (w h a vw vh ms b2m a0 nch al e br : Int) :
    (recreate_dims_interleaved w h a vw vh ms b2m a0 nch al e br
        = if (w = vw ∧ h = vh) ∧ a0 = a then (a0, 0) else if al ≥ total_bytes_interleaved w h ms b2m a nch then (a, 1) else (a, 2))
    ∧ (recreate_dims_fill_interleaved w h a vw vh ms b2m a0 nch al e br
        = if (w = vw ∧ h = vh) ∧ a0 = a then (a0, 0) else if al ≥ total_bytes_interleaved w h ms b2m a nch then (a, 1) else (a, 2))
    ∧ (recreate_dims_alloc_interleaved w h a vw vh ms b2m a0 nch al e br
        = if ((w = vw ∧ h = vh) ∧ a0 = a) ∧ e ≠ 0 then (a0, 0) else if al ≥ total_bytes_interleaved w h ms b2m a nch then (a, 1) else (a, 2))
    ∧ (recreate_dims_fill_alloc_interleaved w h a vw vh ms b2m a0 nch al e br
        = if ((w = vw ∧ h = vh) ∧ a0 = a) ∧ e ≠ 0 then (a0, 0) else if al ≥ total_bytes_interleaved w h ms b2m a nch then (a, 1) else (a, 2))
    ∧ (recreate_dims_planar w h a vw vh ms b2m a0 nch al e br
        = if (w = vw ∧ h = vh) ∧ a0 = a then (a0, 0) else if al ≥ total_bytes_planar w h ms b2m a nch then (a, 1) else (a, 2))
    ∧ (recreate_dims_fill_planar w h a vw vh ms b2m a0 nch al e br
        = if (w = vw ∧ h = vh) ∧ a0 = a then (a0, 0) else if al ≥ total_bytes_planar w h ms b2m a nch then (a, 1) else (a, 2))
    ∧ (recreate_dims_alloc_planar w h a vw vh ms b2m a0 nch al e br
        = if ((w = vw ∧ h = vh) ∧ a0 = a) ∧ e ≠ 0 then (a0, 0) else if al ≥ total_bytes_planar w h ms b2m a nch then (a, 1) else (a, 2))
    ∧ (recreate_dims_fill_alloc_planar w h a vw vh ms b2m a0 nch al e br
        = if ((w = vw ∧ h = vh) ∧ a0 = a) ∧ e ≠ 0 then (a0, 0) else if al ≥ total_bytes_planar w h ms b2m a nch then (a, 1) else (a, 2)) := by
  unfold recreate_dims_interleaved recreate_dims_fill_interleaved recreate_dims_alloc_interleaved recreate_dims_fill_alloc_interleaved
    recreate_dims_planar recreate_dims_fill_planar recreate_dims_alloc_planar recreate_dims_fill_alloc_planar
  refine ⟨?_, ?_, ?_, ?_, ?_, ?_, ?_, ?_⟩ <;> recreate_eq


/-! ### placement and recreate -/

private theorem row_bounds (o : Org) (w h a m : Int) (hwf : o.WF) (hno : NoOvf o w h a m) :
    0 ≤ rowUnits o w a ∧ rowUnits o w a < PZ ∧ 0 ≤ rowUnits o w a * h ∧ rowUnits o w a * h < PZ ∧ h < PZ := by
  obtain ⟨hP, hn, hk⟩ := hwf
  obtain ⟨hw, hh, ha, hm, h1, h2, h3⟩ := hno
  have hb : 0 < o.b2m ∧ o.b2m < 9 := by rcases hk with hb | ⟨hb, _⟩ <;> omega
  have hwP : 0 ≤ w * o.mstep := Int.mul_nonneg hw (by omega)
  have hab : 0 ≤ a * o.b2m := Int.mul_nonneg ha (by omega)
  unfold PZ at *
  obtain ⟨r1, r2, r3⟩ := C01_row_spec w o.mstep o.b2m a hwP hb.1 ha (by omega) (by omega)
  have hrow0 : 0 ≤ rowUnits o w a := by unfold rowUnits; omega
  have hrh : 0 ≤ rowUnits o w a * h := Int.mul_nonneg hrow0 hh
  refine ⟨hrow0, ?_, hrh, by omega, by omega⟩
  unfold rowUnits at *
  by_cases h0 : a > 0
  · have := (r2 h0).2; omega
  · have := r3 (by omega); omega

/-- **`create_view`**: the view it lays over the storage at `mem` is `imageView` (first pixel at
    `align(mem, a)`, rows `get_row_size_in_memunits(w)` apart), and plane `k` of a planar image starts
    `k * row * h` memory units after plane 0 -/
theorem C01_create_view (o : Org) (mem w h a k : Int) (hwf : o.WF) (hno : NoOvf o w h a mem) (hk0 : 0 ≤ k) (hk : k ≤ o.nch) :
    (createViewK o mem w h a k).1.view o = imageView o w h a mem
    ∧ (createViewK o mem w h a k).2 = if o.planar then k * (rowUnits o w a * h) else 0 := by
  obtain ⟨b0, b1, b2, b3, b4⟩ := row_bounds o w h a mem hwf hno
  have hno' := hno
  obtain ⟨hw, hh, ha, hm, h1, h2, h3⟩ := hno
  unfold createViewK
  cases hp : o.planar
  · simp only [Bool.false_eq_true, if_false]
    rw [C01_kernel_create_view_interleaved w h o.mstep o.b2m a o.nch mem (rowUnits o w a) 0 0 0 0 rfl b0 b1]
    simp only [Placed.view, imageView, originOff, and_true]
    split_ifs <;> simp
  · simp only [if_true]
    have hrhk : rowUnits o w a * h * k ≤ rowUnits o w a * h * o.nch := Int.mul_le_mul_of_nonneg_left hk b2
    have hnn : 0 ≤ rowUnits o w a * h * o.nch := Int.mul_nonneg b2 hwf.2.1
    have h3' := h3 hp
    rw [C01_kernel_create_view_planar w h o.mstep o.b2m a o.nch mem (rowUnits o w a) k 0 0 0 0 0 rfl b0 b1 hh hk0
      (by unfold PZ at *; omega) b3 b4]
    simp only [Placed.view, imageView, originOff]
    refine ⟨?_, by ring⟩
    split_ifs <;> simp

private theorem footprintF_congr (o : Org) (f g : Int → Int) (p : Int) (h : ∀ k : Nat, (k : Int) < o.nch → f k = g k) :
    footprintF o f p = footprintF o g p := by
  unfold footprintF
  split_ifs
  · rfl
  · apply List.map_congr_left
    intro k hk
    have := List.mem_range.1 hk
    rw [h k (by omega)]
  · rfl

private theorem within_mono {n n' : Int} {iv : List (Int × Int)} (h : within n iv) (hle : n ≤ n') : within n' iv := by
  intro q hq
  obtain ⟨q1, q2⟩ := h q hq
  exact ⟨q1, by omega⟩

/-- an image whose view is `imageView … mem` with planes `k * row * h` apart, over storage that is at
    least as large as that view needs, keeps every derived pixel inside the storage -/
private theorem inBounds_of_imageView (o : Org) (s : Img) (w h : Int) (hwf : o.WF) (hno : NoOvf o w h s.a s.mem)
    (hv : s.view = imageView o w h s.a s.mem)
    (hpl : o.planar = true → ∀ k : Int, 0 ≤ k → k ≤ o.nch → s.plane k = k * (rowUnits o w s.a * h))
    (hle : allocBytes o w h s.a ≤ s.allocated) : s.InBounds o := by
  intro ts x y hval hr
  rw [hv] at hval hr ⊢
  have := C01_derived_in_bounds_all o w h s.a s.mem ts x y hwf hno hval hr
  refine within_mono ?_ hle
  unfold footprint at this
  cases hp : o.planar
  · unfold footprintF at this ⊢; simpa [hp] using this
  · rw [footprintF_congr o s.plane (fun k => k * (rowUnits o w s.a * h)) _ (fun k hk => hpl hp k (by omega) (by omega))]
    exact this

private theorem inBounds_of_empty (o : Org) (s : Img) (he : s.view.w = 0 ∧ s.view.h = 0) : s.InBounds o := by
  intro ts x y hval hr
  obtain ⟨_, hin⟩ := GilVerif.Props.C02.C02_compose ts s.view hval (by omega) (by omega) x y hr
  obtain ⟨a, b, _, _⟩ := hin
  omega


private theorem allocateK_eq (o : Org) (addr : Int → Int) (w h a k : Int) (hwf : o.WF)
    (hno : NoOvf o w h a (addr (allocBytes o w h a))) (hk0 : 0 ≤ k) (hk : k ≤ o.nch) :
    allocateK o addr w h a k =
      (⟨allocBytes o w h a, (if allocBytes o w h a = 0 then 0 else addr (allocBytes o w h a)),
        (if allocBytes o w h a = 0 then 0 else addr (allocBytes o w h a)) + originOff (if allocBytes o w h a = 0 then 0 else addr (allocBytes o w h a)) a,
        rowUnits o w a, w, h⟩,
       if o.planar then k * (rowUnits o w a * h) else 0) := by
  obtain ⟨b0, b1, b2, b3, b4⟩ := row_bounds o w h a _ hwf hno
  obtain ⟨hw, hh, ha, hm, h1, h2, h3⟩ := hno
  unfold allocateK allocBytes at *
  cases hp : o.planar
  · simp only [hp, Bool.false_eq_true, if_false] at *
    simp only [C01_kernel_allocate_interleaved w h o.mstep o.b2m a o.nch 0 _ 0 0 0 0 0 (rowUnits o w a) rfl b0 b1]
    by_cases hz : total_bytes_interleaved w h o.mstep o.b2m a o.nch = 0
    · simp only [hz, if_true, originOff]
      split_ifs <;> simp
    · simp only [hz, if_false, originOff]
      split_ifs <;> simp
  · simp only [hp, if_true] at *
    have hrhk : rowUnits o w a * h * k ≤ rowUnits o w a * h * o.nch := Int.mul_le_mul_of_nonneg_left hk b2
    simp only [C01_kernel_allocate_planar w h o.mstep o.b2m a o.nch 0 _ 0 k 0 0 0 0 0 (rowUnits o w a) rfl b0 b1 hh b4 hk0
      (by have := h3 trivial; unfold PZ at *; omega) b3]
    by_cases hz : total_bytes_planar w h o.mstep o.b2m a o.nch = 0
    · simp only [hz, if_true, originOff]
      split_ifs <;> simp <;> ring
    · simp only [hz, if_false, originOff]
      split_ifs <;> simp <;> ring

/-- **`allocate_`** (constructors): requests `total_allocated_size_in_bytes` bytes; the view is `imageView` -- the REQUESTED
    dimensions, first pixel at `align(_memory, a)`, planes `row * h` apart -- over the allocator's block, or, when 0 bytes are
    needed (a degenerate `w x 0` / `0 x h` image; since 42a1d3b), over the null `_memory` without allocating.
    Either way every pixel of every derived view lies inside the block (a degenerate image has no in-range pixel). -/
theorem C01_allocate (o : Org) (addr : Int → Int) (w h a : Int) (hwf : o.WF)
    (hno : NoOvf o w h a (addr (allocBytes o w h a))) :
    (allocate o addr w h a).allocated = allocBytes o w h a ∧ (allocate o addr w h a).a = a
    ∧ (allocBytes o w h a ≠ 0 → (allocate o addr w h a).mem = addr (allocBytes o w h a)
          ∧ (allocate o addr w h a).view = imageView o w h a (addr (allocBytes o w h a)))
    ∧ (allocBytes o w h a = 0 → (allocate o addr w h a).mem = 0 ∧ (allocate o addr w h a).view = imageView o w h a 0)
    ∧ 0 ≤ (allocate o addr w h a).mem
    ∧ (allocate o addr w h a).InBounds o := by
  have e0 := allocateK_eq o addr w h a 0 hwf hno (by omega) hwf.2.1
  have hmem : (allocate o addr w h a).mem = if allocBytes o w h a = 0 then 0 else addr (allocBytes o w h a) := by simp [allocate, e0]
  have hview : (allocate o addr w h a).view = imageView o w h a (allocate o addr w h a).mem := by
    rw [hmem]; simp [allocate, e0, Placed.view, imageView]
  have hm0 : 0 ≤ (allocate o addr w h a).mem := by
    rw [hmem]; split_ifs
    · omega
    · exact hno.2.2.2.1
  have hno' : NoOvf o w h a (allocate o addr w h a).mem := by
    rw [hmem]; split_ifs
    · obtain ⟨n1, n2, n3, n4, n5, n6, n7⟩ := hno
      exact ⟨n1, n2, n3, by omega, by omega, n6, n7⟩
    · exact hno
  refine ⟨by simp [allocate, e0], rfl, fun hz => ?_, fun hz => ?_, hm0, ?_⟩
  · rw [hmem, if_neg hz] at hview; exact ⟨by rw [hmem, if_neg hz], hview⟩
  · rw [hmem, if_pos hz] at hview; exact ⟨by rw [hmem, if_pos hz], hview⟩
  · apply inBounds_of_imageView o _ w h hwf hno' hview
    · intro hp k hk0 hk
      have ek := allocateK_eq o addr w h a k hwf hno hk0 hk
      simp [allocate, ek, hp]
    · simp [allocate, e0]

/-- a degenerate rgb8 5x0 image: nothing is allocated, the view still is 5 x 0 (rows 15 bytes) over the null storage -/
example : (allocate ⟨1, 3, false, 3, [], 0⟩ (fun _ => 1001) 5 0 0).allocated = 0 ∧ (allocate ⟨1, 3, false, 3, [], 0⟩ (fun _ => 1001) 5 0 0).mem = 0
    ∧ (allocate ⟨1, 3, false, 3, [], 0⟩ (fun _ => 1001) 5 0 0).view = ⟨0, 3, 15, 5, 0⟩ := by decide

/-- which branch `recreate` takes (every overload, both image kinds): nothing to do when the
    dimensions, the alignment and (if one is passed) the allocator are the current ones; otherwise the
    storage is kept iff `_allocated_bytes ≥ total_allocated_size_in_bytes(dims)` under the NEW alignment -/
theorem C01_recreate_branch (o : Org) (ov : Overload) (s : Img) (w h a : Int) (e : Bool) :
    recreateK o ov s w h a e =
      if (w = s.view.w ∧ h = s.view.h) ∧ s.a = a ∧ (e = true ∨ ov = .dims ∨ ov = .dimsFill) then (s.a, 0)
      else if s.allocated ≥ allocBytes o w h a then (a, 1) else (a, 2) := by
  have K := fun e' => C01_kernel_recreate w h a s.view.w s.view.h o.mstep o.b2m s.a o.nch s.allocated e' 0
  unfold recreateK allocBytes
  cases hp : o.planar <;> cases ov <;> cases e <;>
    simp only [Bool.false_eq_true, if_false, if_true, (K 0).1, (K 0).2.1, (K 0).2.2.1, (K 0).2.2.2.1, (K 0).2.2.2.2.1, (K 0).2.2.2.2.2.1,
      (K 0).2.2.2.2.2.2.1, (K 0).2.2.2.2.2.2.2, (K 1).1, (K 1).2.1, (K 1).2.2.1, (K 1).2.2.2.1, (K 1).2.2.2.2.1, (K 1).2.2.2.2.2.1,
      (K 1).2.2.2.2.2.2.1, (K 1).2.2.2.2.2.2.2, reduceCtorEq, or_false, or_true, false_or, and_true, and_false,
      ne_eq, not_true_eq_false, one_ne_zero, not_false_eq_true, and_assoc]

/-- one `recreate` call that keeps the storage: `_memory` and `_allocated_bytes` are unchanged and
    every pixel of (every view derived from) the re-laid-out view stays inside the storage -/
theorem C01_recreate_step (o : Org) (hwf : o.WF) (fresh : Call → Img) (s : Img) (c : Call)
    (hin : s.InBounds o) (hno : NoOvf o c.w c.h c.a s.mem) (hb : (recreateK o c.ov s c.w c.h c.a c.allocEq).2 ≠ 2) :
    (recreate o fresh s c).mem = s.mem ∧ (recreate o fresh s c).allocated = s.allocated ∧ (recreate o fresh s c).InBounds o := by
  have hbr := C01_recreate_branch o c.ov s c.w c.h c.a c.allocEq
  unfold recreate
  rw [hbr] at hb ⊢
  split_ifs at hb ⊢ with h1 h2
  · simp only [if_true]; exact ⟨trivial, trivial, hin⟩
  · simp only [show ¬ ((1 : Int) = 0) by decide, if_false, if_true]
    refine ⟨trivial, trivial, ?_⟩
    apply inBounds_of_imageView o _ c.w c.h hwf hno
    · exact (C01_create_view o s.mem c.w c.h c.a 0 hwf hno (by omega) hwf.2.1).1
    · intro hp k hk0 hk
      have := (C01_create_view o s.mem c.w c.h c.a k hwf hno hk0 hk).2
      simpa [hp] using this
    · exact h2
  · exact absurd rfl hb

/-- **recreate**: after ANY sequence of `recreate` calls (any overloads, dimensions, alignments) that keep the
    storage, the image still owns the ORIGINAL block (`_memory`, `_allocated_bytes` unchanged) and every
    in-range pixel of every view derived from its current view touches only bytes of that block -/
theorem C01_recreate_in_bounds (o : Org) (hwf : o.WF) (fresh : Call → Img) (s0 : Img) (calls : List Call)
    (hin : s0.InBounds o) (hok : ReuseOK o fresh s0 calls) :
    (recreateAll o fresh s0 calls).mem = s0.mem ∧ (recreateAll o fresh s0 calls).allocated = s0.allocated
    ∧ (recreateAll o fresh s0 calls).InBounds o := by
  induction calls generalizing s0 with
  | nil => exact ⟨rfl, rfl, hin⟩
  | cons c cs ih =>
    obtain ⟨hno, hb, hrest⟩ := hok
    obtain ⟨s1, s2, s3⟩ := C01_recreate_step o hwf fresh s0 c hin hno hb
    obtain ⟨r1, r2, r3⟩ := ih (recreate o fresh s0 c) s3 hrest
    exact ⟨r1.trans s1, r2.trans s2, r3⟩

/-- constructor followed by any storage-keeping `recreate` sequence, spelled out for pixels: every byte
    touched lies in `[0, n)` of the block of `n = total_allocated_size_in_bytes(w0, h0)` bytes the constructor obtained -/
theorem C01_allocate_recreate_in_bounds (o : Org) (hwf : o.WF) (addr : Int → Int) (fresh : Call → Img) (w0 h0 a0 : Int) (calls : List Call)
    (hno : NoOvf o w0 h0 a0 (addr (allocBytes o w0 h0 a0))) (hok : ReuseOK o fresh (allocate o addr w0 h0 a0) calls)
    (ts : List Xform) (x y : Int) (hv : validAll ts (recreateAll o fresh (allocate o addr w0 h0 a0) calls).view)
    (hr : (GilVerif.Model.C02.applyMemAll ts (recreateAll o fresh (allocate o addr w0 h0 a0) calls).view).InRange x y) :
    within (allocBytes o w0 h0 a0)
      (footprintF o (recreateAll o fresh (allocate o addr w0 h0 a0) calls).plane
        ((GilVerif.Model.C02.applyMemAll ts (recreateAll o fresh (allocate o addr w0 h0 a0) calls).view).addr x y)) := by
  obtain ⟨a1, _, _, _, _, a6⟩ := C01_allocate o addr w0 h0 a0 hwf hno
  obtain ⟨_, r2, r3⟩ := C01_recreate_in_bounds o hwf fresh _ calls a6 hok
  have := r3 ts x y hv hr
  rw [r2, a1] at this
  exact this


/-- rgb8 3x2, alignment 16, allocator address 1001 (47 bytes): recreate 2x2, then 5x3 unaligned (45 bytes) reuse the block -/
example : (⟨1, 3, false, 3, [], 0⟩ : Org).WF ∧ NoOvf ⟨1, 3, false, 3, [], 0⟩ 3 2 16 1001
    ∧ ReuseOK ⟨1, 3, false, 3, [], 0⟩ (fun _ => Img.empty ⟨1, 3, false, 3, [], 0⟩ 0) (allocate ⟨1, 3, false, 3, [], 0⟩ (fun _ => 1001) 3 2 16)
        [⟨.dims, 2, 2, 0, true⟩, ⟨.dimsFillAlloc, 5, 3, 0, true⟩, ⟨.dimsAlloc, 5, 3, 0, true⟩]
    ∧ (recreateAll ⟨1, 3, false, 3, [], 0⟩ (fun _ => Img.empty ⟨1, 3, false, 3, [], 0⟩ 0) (allocate ⟨1, 3, false, 3, [], 0⟩ (fun _ => 1001) 3 2 16)
        [⟨.dims, 2, 2, 0, true⟩, ⟨.dimsFillAlloc, 5, 3, 0, true⟩, ⟨.dimsAlloc, 5, 3, 0, true⟩]).view = ⟨0, 3, 15, 5, 3⟩
    ∧ (allocate ⟨1, 3, false, 3, [], 0⟩ (fun _ => 1001) 3 2 16).allocated = 47
    ∧ (allocate ⟨1, 3, false, 3, [], 0⟩ (fun _ => 1001) 3 2 16).view = ⟨7, 3, 16, 3, 2⟩ := by decide
/-- planar rgb8 2x2, alignment 4, at address 6 (27 bytes): planes 8 apart; recreate 5x1 unaligned keeps the block, planes then 5 apart -/
example : (⟨1, 1, true, 3, [], 0⟩ : Org).WF ∧ (allocate ⟨1, 1, true, 3, [], 0⟩ (fun _ => 6) 2 2 4).allocated = 27
    ∧ (allocate ⟨1, 1, true, 3, [], 0⟩ (fun _ => 6) 2 2 4).view = ⟨2, 1, 4, 2, 2⟩ ∧ (allocate ⟨1, 1, true, 3, [], 0⟩ (fun _ => 6) 2 2 4).plane 2 = 16
    ∧ ReuseOK ⟨1, 1, true, 3, [], 0⟩ (fun _ => Img.empty ⟨1, 1, true, 3, [], 0⟩ 0) (allocate ⟨1, 1, true, 3, [], 0⟩ (fun _ => 6) 2 2 4) [⟨.dimsFill, 5, 1, 0, true⟩]
    ∧ (recreateAll ⟨1, 1, true, 3, [], 0⟩ (fun _ => Img.empty ⟨1, 1, true, 3, [], 0⟩ 0) (allocate ⟨1, 1, true, 3, [], 0⟩ (fun _ => 6) 2 2 4) [⟨.dimsFill, 5, 1, 0, true⟩]).plane 2 = 10 := by decide

/-! ### copy construction, copy assignment, recreate with reallocation -/

theorem C01_kernel_copy (w h iw ih br a d1 d2 : Int) :
    assign_branch w h iw ih br = (if w = iw ∧ h = ih then 0 else 1) ∧ copy_ctor_align a = a ∧ copy_ctor_dims iw ih d1 d2 = (iw, ih) := by
  unfold assign_branch copy_ctor_align copy_ctor_dims
  refine ⟨by recreate_eq, by first | rfl | omega, by first | rfl | (ext <;> simp only [] <;> omega)⟩

/-- **copy construction and copy assignment**: the copy is a fresh image of the source's dimensions and alignment (in bounds of ITS
    block by `C01_allocate`); assignment between images of equal dimensions keeps the destination's storage and view
    (`copy_pixels` touches in-range pixels of both), otherwise the destination becomes such a fresh copy -/
theorem C01_copy_assign_in_bounds (o : Org) (addr : Int → Int) (dst src : Img) (hwf : o.WF) (hd : dst.InBounds o)
    (hno : NoOvf o src.view.w src.view.h src.a (addr (allocBytes o src.view.w src.view.h src.a))) :
    (copyConstruct o addr src).InBounds o
    ∧ (copyConstruct o addr src).allocated = allocBytes o src.view.w src.view.h src.a
    ∧ (assign o addr dst src).InBounds o
    ∧ ((dst.view.w = src.view.w ∧ dst.view.h = src.view.h) → assign o addr dst src = dst) := by
  obtain ⟨k1, k2, k3⟩ := C01_kernel_copy dst.view.w dst.view.h src.view.w src.view.h 0 src.a 0 0
  have hc : copyConstruct o addr src = allocate o addr src.view.w src.view.h src.a := by
    unfold copyConstruct; rw [k2, k3]
  obtain ⟨a1, _, _, _, _, a6⟩ := C01_allocate o addr src.view.w src.view.h src.a hwf hno
  refine ⟨by rw [hc]; exact a6, by rw [hc]; exact a1, ?_, ?_⟩
  · unfold assign; rw [k1]
    by_cases he : dst.view.w = src.view.w ∧ dst.view.h = src.view.h
    · simp only [he, and_self, if_true]; exact hd
    · simp only [he, if_false, show ¬ ((1 : Int) = 0) by decide]; rw [hc]; exact a6
  · intro h; unfold assign; rw [k1]; simp [h]

/-- **recreate, every branch**: after ANY sequence of `recreate` calls -- whether they do nothing, re-lay the view over the old
    storage or build a new image and swap -- every in-range pixel of every view derived from the image's current view lies inside
    the block the image owns at that moment -/
theorem C01_recreate_any_in_bounds (o : Org) (hwf : o.WF) (addr : Int → Int) (s0 : Img) (calls : List Call)
    (hin : s0.InBounds o) (hok : CallsOK o addr s0 calls) :
    (recreateAll o (fun c => allocate o addr c.w c.h c.a) s0 calls).InBounds o := by
  induction calls generalizing s0 with
  | nil => exact hin
  | cons c cs ih =>
    obtain ⟨hno, hno', hrest⟩ := hok
    refine ih _ ?_ hrest
    by_cases hb : (recreateK o c.ov s0 c.w c.h c.a c.allocEq).2 = 2
    · have : recreate o (fun c => allocate o addr c.w c.h c.a) s0 c = allocate o addr c.w c.h c.a := by
        unfold recreate; simp [hb]
      rw [this]; exact (C01_allocate o addr c.w c.h c.a hwf hno').2.2.2.2.2
    · exact (C01_recreate_step o hwf _ s0 c hin hno hb).2.2

/-! ### channel views of derived views (through C02's generated `make` bodies) -/

section
open GilVerif.Model.C02

/-- **channel views of derived views** (`nth_channel_view` / `kth_channel_view<n>` between any transformation lists `ts0`, `ts1`, on a
    byte-addressed image): the single-channel pixel (x,y) -- `sizeof(channel)` bytes -- lies inside the allocation: inside the source pixel
    for interleaved images (pixel = `nch` channels), in plane `n` for planar ones.  Goes through the generated `make` bodies and `adjacent`
    predicate (`C02_channel_view_compose`): a channel view that drops the x step of a step view breaks this theorem. -/
theorem C01_channel_view_in_bounds (o : Org) (w h a m : Int) (kth : Bool) (t : ChanSrc) (n : Int) (ts0 ts1 : List Xform) (x y : Int)
    (hwf : o.WF) (hb : o.b2m = 1) (hno : NoOvf o w h a m) (hc : 0 < t.chanSize) (hn0 : 0 ≤ n) (hn : n < t.nch)
    (hpix : if o.planar then o.mstep = t.chanSize ∧ o.nch = t.nch else o.mstep = t.nch * t.chanSize)
    (hadj : t.isStep = false → (t.planar = true ∨ t.nch = 1) → (applyMemAll ts0 (imageView o w h a m)).xs = t.chanSize)
    (hv : validAll (ts0 ++ ts1) (imageView o w h a m))
    (hr : (applyMemAll ts1 (chanViewMem kth t (if o.planar then fun k => k * (rowUnits o w a * h) else fun k => k * t.chanSize) n
            (applyMemAll ts0 (imageView o w h a m)))).InRange x y) :
    0 ≤ (applyMemAll ts1 (chanViewMem kth t (if o.planar then fun k => k * (rowUnits o w a * h) else fun k => k * t.chanSize) n
            (applyMemAll ts0 (imageView o w h a m)))).addr x y
    ∧ (applyMemAll ts1 (chanViewMem kth t (if o.planar then fun k => k * (rowUnits o w a * h) else fun k => k * t.chanSize) n
            (applyMemAll ts0 (imageView o w h a m)))).addr x y + t.chanSize ≤ allocBytes o w h a := by
  obtain ⟨e, hin⟩ := GilVerif.Props.C02.C02_channel_view_compose kth t _ n ts0 ts1 (imageView o w h a m) hadj hv hno.1 hno.2.1 x y hr
  rw [e]
  have hw := C01_image_in_bounds o w h a m _ _ hwf hno hin
  unfold footprint footprintF at hw
  cases hp : o.planar
  · simp only [hp, Bool.false_eq_true, if_false, hb, show (1 : Int) ≠ 8 by decide] at hw hpix ⊢
    obtain ⟨q1, q2⟩ := hw _ (List.mem_singleton.2 rfl)
    simp only [] at q1 q2
    have h1 : 0 ≤ n * t.chanSize := Int.mul_nonneg hn0 (by omega)
    have h2 : (n + 1) * t.chanSize ≤ t.nch * t.chanSize := Int.mul_le_mul_of_nonneg_right (by omega) (by omega)
    have e2 : (n + 1) * t.chanSize = n * t.chanSize + t.chanSize := by ring
    constructor <;> omega
  · simp only [hp, if_true, hb, show (1 : Int) ≠ 8 by decide, if_false] at hw hpix ⊢
    have hmem : ((imageView o w h a m).addr (phiAll (ts0 ++ ts1) (imageView o w h a m) (x, y)).1 (phiAll (ts0 ++ ts1) (imageView o w h a m) (x, y)).2
        + ((n.toNat : Nat) : Int) * (rowUnits o w a * h), o.mstep) ∈
        (List.range o.nch.toNat).map (fun (k : Nat) => ((imageView o w h a m).addr (phiAll (ts0 ++ ts1) (imageView o w h a m) (x, y)).1
          (phiAll (ts0 ++ ts1) (imageView o w h a m) (x, y)).2 + (k : Int) * (rowUnits o w a * h), o.mstep)) :=
      List.mem_map.2 ⟨n.toNat, List.mem_range.2 (by omega), rfl⟩
    obtain ⟨q1, q2⟩ := hw _ hmem
    simp only [] at q1 q2
    have en : ((n.toNat : Nat) : Int) = n := by omega
    rw [en] at q1 q2
    constructor <;> omega

/-- planar rgb8 5x4: channel 2 of the left-right flipped view (a step view); its last pixel is the last byte of plane 2 -/
example : (applyMemAll [] (chanViewMem false ⟨true, true, 3, 1⟩ (fun k => k * (rowUnits ⟨1, 1, true, 3, [], 0⟩ 5 0 * 4)) 2
      (applyMemAll [.flipLR] (imageView ⟨1, 1, true, 3, [], 0⟩ 5 4 0 0)))).InRange 0 3
    ∧ (applyMemAll [] (chanViewMem false ⟨true, true, 3, 1⟩ (fun k => k * (rowUnits ⟨1, 1, true, 3, [], 0⟩ 5 0 * 4)) 2
      (applyMemAll [.flipLR] (imageView ⟨1, 1, true, 3, [], 0⟩ 5 4 0 0)))).addr 0 3 = 59
    ∧ allocBytes ⟨1, 1, true, 3, [], 0⟩ 5 4 0 = 60 := by decide
end

/-! ### access by iterator and by locator (through C03) -/

section
open GilVerif.Model.C03

/-- **access by iterator and locator**: each of image_view's navigation paths (`view(x,y)`, `row_begin(y)[x]`, `col_begin(x)[y]`,
    `begin()[y*w+x]`, `at(x,y)`, `rbegin()[…]`, cached location) over any view derived from an image -- every organisation,
    every iterator kind -- lands on an in-range image pixel, so the access stays inside the allocation (C03_paths_agree + C02_compose) -/
theorem C01_paths_in_bounds (o : Org) (w h a m : Int) (ts : List Xform) (k : GilVerif.Model.C03.Kind) (x y cx cy : Int) (hwf : o.WF) (hno : NoOvf o w h a m)
    (hv : validAll ts (imageView o w h a m))
    (hr : (GilVerif.Model.C02.applyMemAll ts (imageView o w h a m)).InRange x y)
    (hk : k.Natural (GilVerif.Model.C02.applyMemAll ts (imageView o w h a m)).xs)
    (hov : k.planar = true → k.xstep = false → k.chan < 18446744073709551616 ∧ x * k.chan < 9223372036854775808) :
    ∀ p ∈ [pathCall k (GilVerif.Model.C02.applyMemAll ts (imageView o w h a m)) x y,
           pathRow k (GilVerif.Model.C02.applyMemAll ts (imageView o w h a m)) x y,
           pathCol k (GilVerif.Model.C02.applyMemAll ts (imageView o w h a m)) x y,
           pathBegin k (GilVerif.Model.C02.applyMemAll ts (imageView o w h a m)) x y,
           pathAt k (GilVerif.Model.C02.applyMemAll ts (imageView o w h a m)) x y,
           pathRbegin k (GilVerif.Model.C02.applyMemAll ts (imageView o w h a m)) x y,
           pathCached k (GilVerif.Model.C02.applyMemAll ts (imageView o w h a m)) cx cy x y],
      within (allocBytes o w h a) (footprint o (rowUnits o w a * h) p) := by
  obtain ⟨p1, p2, p3, p4, p5, p6, p7⟩ := GilVerif.Props.C03.C03_paths_agree k _ x y cx cy hr hk hov
  have hin := C01_derived_in_bounds_all o w h a m ts x y hwf hno hv hr
  intro p hp
  simp only [List.mem_cons, List.mem_nil_iff, or_false] at hp
  rcases hp with e | e | e | e | e | e | e <;> rw [e] <;> first | (rw [p1]; exact hin) | (rw [p2]; exact hin) | (rw [p3]; exact hin) | (rw [p4]; exact hin) | (rw [p5]; exact hin) | (rw [p6]; exact hin) | (rw [p7]; exact hin)

/-- **a locator moved by any sequence of 2-D offsets and axis-iterator steps** from an in-range pixel (x0,y0) of a derived view:
    if the summed offset is again an in-range pixel, the locator's position is that pixel's address, inside the allocation
    (intermediate positions are never dereferenced) -/
theorem C01_moves_in_bounds (o : Org) (w h a m : Int) (ts : List Xform) (k : GilVerif.Model.C03.Kind) (x0 y0 : Int) (ms : List Move) (hwf : o.WF) (hno : NoOvf o w h a m)
    (hv : validAll ts (imageView o w h a m))
    (hr : (GilVerif.Model.C02.applyMemAll ts (imageView o w h a m)).InRange (x0 + (sumMoves ms).1) (y0 + (sumMoves ms).2))
    (hk : k.Natural (GilVerif.Model.C02.applyMemAll ts (imageView o w h a m)).xs) :
    within (allocBytes o w h a) (footprint o (rowUnits o w a * h)
      (runMoves k ((View.loc (GilVerif.Model.C02.applyMemAll ts (imageView o w h a m))).move k x0 y0) ms).pos) := by
  have hm := (GilVerif.Props.C03.C03_moves k ((View.loc (GilVerif.Model.C02.applyMemAll ts (imageView o w h a m))).move k x0 y0) ms
    (by simpa [Loc.move, View.loc] using hk)).1
  have hin := C01_derived_in_bounds_all o w h a m ts _ _ hwf hno hv hr
  have e : (runMoves k ((View.loc (GilVerif.Model.C02.applyMemAll ts (imageView o w h a m))).move k x0 y0) ms).pos
      = (GilVerif.Model.C02.applyMemAll ts (imageView o w h a m)).addr (x0 + (sumMoves ms).1) (y0 + (sumMoves ms).2) := by
    rw [hm]
    simp only [Loc.move, View.loc, GilVerif.Props.C03.C03_memAdvance, GilVerif.Props.C03.C03_kernel_loc_offset, View.addr]
    ring
  rw [e]; exact hin
end

end GilVerif.Props.C01
