/-
  C01 -- pixel access through images and views never leaves the image's storage.

  `C01_kernel_*`: the size arithmetic translated from image.hpp / utilities.hpp / channel.hpp equals
  fixed reference forms (under the explicit no-overflow hypotheses `… < 2^64` that `std::size_t`
  arithmetic needs).  On top of them, for every width, height, alignment, allocator address and
  every pixel organisation (interleaved / packed of any pixel size, planar with any number of planes,
  bit-aligned with any channel layout and bit-field size): the footprint of every in-range pixel of a
  freshly allocated image lies inside `[0, allocated bytes)`; rows are aligned; the same holds for
  every view derived by any list of transformations (through C02's composition theorem), for views
  over caller buffers of exactly `h * rowBytes`, and for the `recreate` reuse branch.
-/
import GilVerif.Model.C01
import GilVerif.Props.C02
import Mathlib.Tactic.Ring
import Mathlib.Tactic.Linarith
import Mathlib.Tactic.SplitIfs

namespace GilVerif.Props.C01
open GilVerif.Gen.C01 GilVerif.Geom GilVerif.Model.C01

/-- 2^64: `std::size_t` arithmetic does not wrap below this -/
local notation "SZ" => (18446744073709551616 : Int)

/-! ### kernels in reference form (valid while nothing overflows `std::size_t`) -/

/-- `align(val, a) = val + (a - val % a) % a` -/
theorem C01_kernel_align (val a : Int) (hv : 0 ≤ val) (ha : 0 < a) (hov : val + a < SZ) :
    align val a = val + (a - val % a) % a := by
  have h1 := Int.emod_nonneg val (show a ≠ 0 by omega)
  have h2 := Int.emod_lt_of_pos val ha
  have h3 := Int.emod_nonneg (a - val % a) (show a ≠ 0 by omega)
  have h4 := Int.emod_lt_of_pos (a - val % a) ha
  unfold align
  simp (disch := omega) only [Int.emod_eq_of_lt] <;> first | rfl | omega | (ring_nf; done)

/-- `align` rounds up to the next multiple -/
theorem C01_align_spec (val a : Int) (hv : 0 ≤ val) (ha : 0 < a) (hov : val + a < SZ) :
    val ≤ align val a ∧ align val a < val + a ∧ align val a % a = 0 := by
  rw [C01_kernel_align val a hv ha hov]
  have h1 := Int.emod_nonneg val (show a ≠ 0 by omega)
  have h2 := Int.emod_lt_of_pos val ha
  have h3 := Int.emod_nonneg (a - val % a) (show a ≠ 0 by omega)
  have h4 := Int.emod_lt_of_pos (a - val % a) ha
  refine ⟨by omega, ?_, ?_⟩
  · by_cases hz : val % a = 0
    · rw [hz]; simp; omega
    · rw [Int.emod_eq_of_lt (show 0 ≤ a - val % a by omega) (show a - val % a < a by omega)]; omega
  · by_cases hz : val % a = 0
    · rw [hz]; simp [hz]
    · rw [Int.emod_eq_of_lt (show 0 ≤ a - val % a by omega) (show a - val % a < a by omega)]
      have hh : val + (a - val % a) = a * (val / a + 1) := by
        have := Int.mul_ediv_add_emod val a
        rw [Int.mul_add, Int.mul_one]; omega
      rw [hh]; exact Int.mul_emod_right _ _

example : align 13 8 = 16 ∧ align 16 8 = 16 ∧ align 5 12 = 12 := by decide

/-- `get_row_size_in_memunits(w)`: the pixel row, rounded up to the alignment (in memory units) when one is requested -/
theorem C01_kernel_row_size (w ms b2m a : Int) (hw : 0 ≤ w * ms) (hb : 0 < b2m) (ha : 0 ≤ a)
    (hov : w * ms + a * b2m < SZ) (hb' : b2m < SZ) :
    row_size_in_memunits w ms b2m a = if a > 0 then align (w * ms) (a * b2m) else w * ms := by
  unfold row_size_in_memunits
  have hab : 0 ≤ a * b2m := Int.mul_nonneg ha (by omega)
  have hc1 : b2m * a = a * b2m := by ring
  have hc2 : ms * w = w * ms := by ring
  simp (disch := omega) only [Int.emod_eq_of_lt, hc1, hc2] <;> first | rfl | (split_ifs <;> first | rfl | omega | (ring_nf; done))

/-- the row holds the pixels and, with an alignment, is a multiple of it -/
theorem C01_row_spec (w ms b2m a : Int) (hw : 0 ≤ w * ms) (hb : 0 < b2m) (ha : 0 ≤ a)
    (hov : w * ms + a * b2m < SZ) (hb' : b2m < SZ) :
    w * ms ≤ row_size_in_memunits w ms b2m a
    ∧ (a > 0 → row_size_in_memunits w ms b2m a % (a * b2m) = 0 ∧ row_size_in_memunits w ms b2m a < w * ms + a * b2m)
    ∧ (a = 0 → row_size_in_memunits w ms b2m a = w * ms) := by
  rw [C01_kernel_row_size w ms b2m a hw hb ha hov hb']
  by_cases h : a > 0
  · have hab : 0 < a * b2m := Int.mul_pos h hb
    obtain ⟨s1, s2, s3⟩ := C01_align_spec (w * ms) (a * b2m) hw hab hov
    rw [if_pos h]; exact ⟨s1, fun _ => ⟨s3, s2⟩, fun h0 => by omega⟩
  · rw [if_neg h]; exact ⟨Int.le_refl _, fun h' => absurd h' h, fun _ => rfl⟩

/-- `total_allocated_size_in_bytes`, interleaved / packed / bit-aligned: rows × row size, rounded up to bytes, plus `a - 1` slack -/
theorem C01_kernel_total_interleaved (w h ms b2m a nch row : Int) (hrow : row_size_in_memunits w ms b2m a = row)
    (hr : 0 ≤ row) (hh : 0 ≤ h) (hb : 0 < b2m) (ha : 0 ≤ a) (hov : row * h + h + b2m + a < SZ) :
    total_bytes_interleaved w h ms b2m a nch = (row * h + b2m - 1) / b2m + (if a > 0 then a - 1 else 0) := by
  unfold total_bytes_interleaved
  rw [hrow]
  have hrh : 0 ≤ row * h := Int.mul_nonneg hr hh
  have hq0 : 0 ≤ (row * h + b2m - 1) / b2m := Int.ediv_nonneg (by omega) (by omega)
  have hq1 : (row * h + b2m - 1) / b2m ≤ row * h + b2m - 1 := Int.ediv_le_self _ (by omega)
  have hc : b2m + row * h - 1 = row * h + b2m - 1 := by ring
  have hc' : h * row = row * h := by ring
  simp (disch := omega) only [Int.emod_eq_of_lt, hc, hc'] <;>
    (split_ifs <;> simp (disch := omega) only [Int.emod_eq_of_lt, hc, hc'] <;> first | rfl | omega)

/-- planar: the same with `nch` planes -/
theorem C01_kernel_total_planar (w h ms b2m a nch row : Int) (hrow : row_size_in_memunits w ms b2m a = row)
    (hr : 0 ≤ row) (hh : 0 ≤ h) (hn : 0 ≤ nch) (hb : 0 < b2m) (ha : 0 ≤ a) (hov : row * h * nch + row * h + h + b2m + a < SZ) :
    total_bytes_planar w h ms b2m a nch = (row * h * nch + b2m - 1) / b2m + (if a > 0 then a - 1 else 0) := by
  unfold total_bytes_planar
  rw [hrow]
  have hrh : 0 ≤ row * h := Int.mul_nonneg hr hh
  have hrhn : 0 ≤ row * h * nch := Int.mul_nonneg hrh hn
  have hq0 : 0 ≤ (row * h * nch + b2m - 1) / b2m := Int.ediv_nonneg (by omega) (by omega)
  have hq1 : (row * h * nch + b2m - 1) / b2m ≤ row * h * nch + b2m - 1 := Int.ediv_le_self _ (by omega)
  have hc : b2m + row * h * nch - 1 = row * h * nch + b2m - 1 := by ring
  have hc' : h * row = row * h := by ring
  have hc'' : nch * (row * h) = row * h * nch := by ring
  simp (disch := omega) only [Int.emod_eq_of_lt, hc, hc', hc''] <;>
    (split_ifs <;> simp (disch := omega) only [Int.emod_eq_of_lt, hc, hc', hc''] <;> first | rfl | omega)

/-- `packed_dynamic_channel_reference::data_size()` (both constness variants): the bytes that hold
    bits `[first_bit, first_bit + NumBits)`, capped by the bit field size -/
theorem C01_kernel_chan_data_size (fb nb fbytes : Int) (h0 : 0 ≤ fb) (h1 : 0 ≤ nb) (hov : fb + nb + 7 < 4294967296) :
    chan_data_size fb nb fbytes = min ((fb + nb + 7) / 8) fbytes
    ∧ chan_data_size_const fb nb fbytes = min ((fb + nb + 7) / 8) fbytes := by
  unfold chan_data_size chan_data_size_const
  have e1 : nb % 4294967296 = nb := Int.emod_eq_of_lt h1 (by omega)
  have e2 : (fb + nb) % 4294967296 = fb + nb := Int.emod_eq_of_lt (by omega) (by omega)
  have e3 : (fb + nb + 7) % 4294967296 = fb + nb + 7 := Int.emod_eq_of_lt (by omega) (by omega)
  simp only [e1, e2, e3]
  constructor <;> (split_ifs <;> omega)

/-! ### freshly allocated images -/

private theorem mul_le_of_lt {y h row : Int} (hy : y < h) (hr : 0 ≤ row) : (y + 1) * row ≤ h * row :=
  Int.mul_le_mul_of_nonneg_right (by omega) hr

/-- origin offset: `0 ≤ off ≤ a - 1` and the first pixel's *address* `m + off` is a multiple of `a` -/
theorem C01_origin (m a : Int) (hm : 0 ≤ m) (ha : 0 ≤ a) (hov : m + a < SZ) :
    0 ≤ originOff m a ∧ (a > 0 → originOff m a ≤ a - 1 ∧ (m + originOff m a) % a = 0) ∧ (a = 0 → originOff m a = 0) := by
  unfold originOff
  by_cases h : a > 0
  · obtain ⟨s1, s2, s3⟩ := C01_align_spec m a hm h hov
    rw [if_pos h]
    refine ⟨by omega, fun _ => ⟨by omega, ?_⟩, fun h0 => by omega⟩
    have : m + (align m a - m) = align m a := by ring
    rw [this]; exact s3
  · rw [if_neg h]; exact ⟨Int.le_refl _, fun h' => absurd h' h, fun _ => rfl⟩

/-- **interleaved / packed images** (any pixel size `P = mstep` bytes): every in-range pixel's bytes
    lie inside the allocation, for every w, h, alignment a and allocator address m -/
theorem C01_image_in_bounds_interleaved (o : Org) (w h a m x y : Int) (hb : o.b2m = 1) (hp : o.planar = false)
    (hP : 0 < o.mstep) (hw : 0 ≤ w) (hh : 0 ≤ h) (ha : 0 ≤ a) (hm : 0 ≤ m)
    (hov1 : w * o.mstep + a + m < SZ) (hov : rowUnits o w a * h + h + 1 + a < SZ)
    (hr : (imageView o w h a m).InRange x y) :
    within (allocBytes o w h a) (footprint o (rowUnits o w a * h) ((imageView o w h a m).addr x y)) := by
  obtain ⟨hx0, hx1, hy0, hy1⟩ := hr
  simp only [imageView] at hx0 hx1 hy0 hy1
  have hwP : 0 ≤ w * o.mstep := Int.mul_nonneg hw (by omega)
  have hxP : (x + 1) * o.mstep ≤ w * o.mstep := Int.mul_le_mul_of_nonneg_right (by omega) (by omega)
  have hxP0 : 0 ≤ x * o.mstep := Int.mul_nonneg hx0 (by omega)
  obtain ⟨r1, r2, r3⟩ := C01_row_spec w o.mstep o.b2m a hwP (by omega) ha (by rw [hb]; omega) (by rw [hb]; decide)
  have hrow0 : 0 ≤ rowUnits o w a := by unfold rowUnits; omega
  have hyr := mul_le_of_lt hy1 hrow0
  have hyr0 : 0 ≤ y * rowUnits o w a := Int.mul_nonneg hy0 hrow0
  have hrh : 0 ≤ rowUnits o w a * h := Int.mul_nonneg hrow0 hh
  obtain ⟨o1, o2, o3⟩ := C01_origin m a hm ha (by omega)
  have htot := C01_kernel_total_interleaved w h o.mstep o.b2m a o.nch (rowUnits o w a) rfl hrow0 hh (by omega) ha (by rw [hb]; omega)
  unfold allocBytes
  simp only [hp, Bool.false_eq_true, if_false]
  rw [htot]
  unfold footprint within
  simp only [hp, hb, if_false, imageView, View.addr, show (1 : Int) ≠ 8 by decide, Bool.false_eq_true]
  intro q hq
  simp only [List.mem_singleton] at hq
  subst hq
  simp only [Int.mul_one, Int.add_sub_cancel, Int.ediv_one]
  have e1 : (y + 1) * rowUnits o w a = y * rowUnits o w a + rowUnits o w a := by ring
  have e2 : (x + 1) * o.mstep = x * o.mstep + o.mstep := by ring
  have e3 : h * rowUnits o w a = rowUnits o w a * h := by ring
  unfold rowUnits at *
  by_cases h0 : a > 0
  · have := (o2 h0).1
    simp only [h0, if_true]; constructor <;> omega
  · have := o3 (by omega)
    simp only [h0, if_false]; constructor <;> omega

/-- a 3x2 rgb8 image with alignment 16 at an odd allocator address: the last pixel's bytes end inside the allocation -/
example : (imageView ⟨1, 3, false, 3, [], 0⟩ 3 2 16 1001).InRange 2 1
    ∧ allocBytes ⟨1, 3, false, 3, [], 0⟩ 3 2 16 = 47
    ∧ footprint ⟨1, 3, false, 3, [], 0⟩ 32 ((imageView ⟨1, 3, false, 3, [], 0⟩ 3 2 16 1001).addr 2 1) = [(29, 3)] := by decide

/-- **planar images** (any number of planes, any channel size): the channel bytes in every plane lie inside the allocation -/
theorem C01_image_in_bounds_planar (o : Org) (w h a m x y : Int) (hb : o.b2m = 1) (hp : o.planar = true)
    (hP : 0 < o.mstep) (hn : 0 ≤ o.nch) (hw : 0 ≤ w) (hh : 0 ≤ h) (ha : 0 ≤ a) (hm : 0 ≤ m)
    (hov1 : w * o.mstep + a + m < SZ) (hov : rowUnits o w a * h * o.nch + rowUnits o w a * h + h + 1 + a < SZ)
    (hr : (imageView o w h a m).InRange x y) :
    within (allocBytes o w h a) (footprint o (rowUnits o w a * h) ((imageView o w h a m).addr x y)) := by
  obtain ⟨hx0, hx1, hy0, hy1⟩ := hr
  simp only [imageView] at hx0 hx1 hy0 hy1
  have hwP : 0 ≤ w * o.mstep := Int.mul_nonneg hw (by omega)
  have hxP : (x + 1) * o.mstep ≤ w * o.mstep := Int.mul_le_mul_of_nonneg_right (by omega) (by omega)
  have hxP0 : 0 ≤ x * o.mstep := Int.mul_nonneg hx0 (by omega)
  obtain ⟨r1, r2, r3⟩ := C01_row_spec w o.mstep o.b2m a hwP (by omega) ha (by rw [hb]; omega) (by rw [hb]; decide)
  have hrow0 : 0 ≤ rowUnits o w a := by unfold rowUnits; omega
  have hyr := mul_le_of_lt hy1 hrow0
  have hyr0 : 0 ≤ y * rowUnits o w a := Int.mul_nonneg hy0 hrow0
  have hrh : 0 ≤ rowUnits o w a * h := Int.mul_nonneg hrow0 hh
  have hrhn : 0 ≤ rowUnits o w a * h * o.nch := Int.mul_nonneg hrh hn
  obtain ⟨o1, o2, o3⟩ := C01_origin m a hm ha (by omega)
  have htot := C01_kernel_total_planar w h o.mstep o.b2m a o.nch (rowUnits o w a) rfl hrow0 hh hn (by omega) ha (by rw [hb]; omega)
  unfold allocBytes
  simp only [hp, if_true]
  rw [htot]
  unfold footprint within
  simp only [hp, hb, if_true, imageView, View.addr, show (1 : Int) ≠ 8 by decide, if_false]
  intro q hq
  simp only [List.mem_map, List.mem_range] at hq
  obtain ⟨k, hk, rfl⟩ := hq
  have hk' : (k : Int) + 1 ≤ o.nch := by omega
  have hkp : ((k : Int) + 1) * (rowUnits o w a * h) ≤ o.nch * (rowUnits o w a * h) := Int.mul_le_mul_of_nonneg_right hk' hrh
  have hk0 : 0 ≤ (k : Int) * (rowUnits o w a * h) := Int.mul_nonneg (by omega) hrh
  simp only [Int.mul_one, Int.add_sub_cancel, Int.ediv_one]
  have e1 : (y + 1) * rowUnits o w a = y * rowUnits o w a + rowUnits o w a := by ring
  have e2 : (x + 1) * o.mstep = x * o.mstep + o.mstep := by ring
  have e3 : h * rowUnits o w a = rowUnits o w a * h := by ring
  have e4 : ((k : Int) + 1) * (rowUnits o w a * h) = (k : Int) * (rowUnits o w a * h) + rowUnits o w a * h := by ring
  have e5 : o.nch * (rowUnits o w a * h) = rowUnits o w a * h * o.nch := by ring
  unfold rowUnits at *
  by_cases h0 : a > 0
  · have := (o2 h0).1
    simp only [h0, if_true]; constructor <;> omega
  · have := o3 (by omega)
    simp only [h0, if_false]; constructor <;> omega

/-- **bit-aligned images** (any pixel bit size `B = mstep`, any channel layout inside the pixel, any
    bit-field size): for every channel, the bytes its reference copies lie inside the allocation --
    also at the last pixel of the last row -/
theorem C01_image_in_bounds_bitaligned (o : Org) (w h a m x y : Int) (hb : o.b2m = 8) (hp : o.planar = false)
    (hP : 0 < o.mstep) (hw : 0 ≤ w) (hh : 0 ≤ h) (ha : 0 ≤ a) (hm : 0 ≤ m)
    (hch : ∀ c ∈ o.chans, 0 ≤ c.1 ∧ 0 < c.2 ∧ c.1 + c.2 ≤ o.mstep) (hB : o.mstep < 4294967000)
    (hov1 : w * o.mstep + a * 8 + m < SZ) (hov : rowUnits o w a * h + h + 8 + a < SZ)
    (hr : (imageView o w h a m).InRange x y) :
    within (allocBytes o w h a) (footprint o (rowUnits o w a * h) ((imageView o w h a m).addr x y)) := by
  obtain ⟨hx0, hx1, hy0, hy1⟩ := hr
  simp only [imageView] at hx0 hx1 hy0 hy1
  have hwP : 0 ≤ w * o.mstep := Int.mul_nonneg hw (by omega)
  have hxP : (x + 1) * o.mstep ≤ w * o.mstep := Int.mul_le_mul_of_nonneg_right (by omega) (by omega)
  have hxP0 : 0 ≤ x * o.mstep := Int.mul_nonneg hx0 (by omega)
  obtain ⟨r1, r2, r3⟩ := C01_row_spec w o.mstep o.b2m a hwP (by omega) ha (by rw [hb]; omega) (by rw [hb]; decide)
  have hrow0 : 0 ≤ rowUnits o w a := by unfold rowUnits; omega
  have hyr := mul_le_of_lt hy1 hrow0
  have hyr0 : 0 ≤ y * rowUnits o w a := Int.mul_nonneg hy0 hrow0
  have hrh : 0 ≤ rowUnits o w a * h := Int.mul_nonneg hrow0 hh
  obtain ⟨o1, o2, o3⟩ := C01_origin m a hm ha (by omega)
  have htot := C01_kernel_total_interleaved w h o.mstep o.b2m a o.nch (rowUnits o w a) rfl hrow0 hh (by omega) ha (by rw [hb]; omega)
  unfold allocBytes
  simp only [hp, Bool.false_eq_true, if_false]
  rw [htot]
  unfold footprint within
  simp only [hp, hb, if_false, if_true, imageView, View.addr, Bool.false_eq_true]
  intro q hq
  simp only [List.mem_map] at hq
  obtain ⟨c, hc, rfl⟩ := hq
  obtain ⟨c0, c1, c2⟩ := hch c hc
  have e1 : (y + 1) * rowUnits o w a = y * rowUnits o w a + rowUnits o w a := by ring
  have e2 : (x + 1) * o.mstep = x * o.mstep + o.mstep := by ring
  have e3 : h * rowUnits o w a = rowUnits o w a * h := by ring
  have hbit0 : 0 ≤ originOff m a * 8 + y * rowUnits o w a + x * o.mstep := by omega
  have hm0 := Int.emod_nonneg (originOff m a * 8 + y * rowUnits o w a + x * o.mstep) (show (8 : Int) ≠ 0 by decide)
  have hm1 := Int.emod_lt_of_pos (originOff m a * 8 + y * rowUnits o w a + x * o.mstep) (show (0 : Int) < 8 by decide)
  rw [(C01_kernel_chan_data_size _ _ o.fieldBytes (by omega) (by omega) (by omega)).1]
  simp only []
  have hmin : min (((originOff m a * 8 + y * rowUnits o w a + x * o.mstep) % 8 + c.1 + c.2 + 7) / 8) o.fieldBytes
      ≤ ((originOff m a * 8 + y * rowUnits o w a + x * o.mstep) % 8 + c.1 + c.2 + 7) / 8 := Int.min_le_left _ _
  unfold rowUnits at *
  by_cases h0 : a > 0
  · have := (o2 h0).1
    simp only [h0, if_true]; constructor <;> omega
  · have := o3 (by omega)
    simp only [h0, if_false]; constructor <;> omega

/-- 2-2-2 rgb bit-aligned, 1x1, no alignment: one byte allocated, every channel access stays in it -/
example : allocBytes ⟨8, 6, false, 3, [(0, 2), (2, 2), (4, 2)], 2⟩ 1 1 0 = 1
    ∧ within 1 (footprint ⟨8, 6, false, 3, [(0, 2), (2, 2), (4, 2)], 2⟩ 6 ((imageView ⟨8, 6, false, 3, [(0, 2), (2, 2), (4, 2)], 2⟩ 1 1 0 77).addr 0 0)) := by decide

/-- **the defect fixed by c04bc05, machine-checked**: copying `sizeof(BitField)` = 2 bytes at the
    channel's byte (what `get_data()` / `set_data()` did) reads and writes byte 1 of the 1-byte buffer -/
theorem C01_fieldbytes_copy_overrun_witness :
    ¬ within (allocBytes ⟨8, 6, false, 3, [(0, 2), (2, 2), (4, 2)], 2⟩ 1 1 0)
        (footprintOld ⟨8, 6, false, 3, [(0, 2), (2, 2), (4, 2)], 2⟩ ((imageView ⟨8, 6, false, 3, [(0, 2), (2, 2), (4, 2)], 2⟩ 1 1 0 77).addr 0 0)) := by decide

/-- every row of a byte-addressed image starts at an address that is a multiple of the alignment -/
theorem C01_row_alignment (o : Org) (w a m y : Int) (hb : o.b2m = 1) (hP : 0 ≤ o.mstep) (hw : 0 ≤ w) (ha : 0 < a) (hm : 0 ≤ m)
    (hov : w * o.mstep + a + m < SZ) :
    (m + originOff m a + y * rowUnits o w a) % a = 0 := by
  have hwP : 0 ≤ w * o.mstep := Int.mul_nonneg hw hP
  obtain ⟨_, r2, _⟩ := C01_row_spec w o.mstep o.b2m a hwP (by omega) (by omega) (by rw [hb]; omega) (by rw [hb]; decide)
  obtain ⟨_, o2, _⟩ := C01_origin m a hm (by omega) (by omega)
  have h1 := (o2 ha).2
  have h2 := (r2 ha).1
  have hb1 : a * o.b2m = a := by rw [hb, Int.mul_one]
  rw [hb1] at h2
  unfold rowUnits
  have d1 : a ∣ m + originOff m a := Int.dvd_of_emod_eq_zero h1
  have d2 : a ∣ row_size_in_memunits w o.mstep o.b2m a := Int.dvd_of_emod_eq_zero h2
  exact Int.emod_eq_zero_of_dvd (Int.dvd_add d1 (Dvd.dvd.mul_left d2 y))

/-! ### derived views, caller buffers, recreate -/

/-- **any view derived from an interleaved / packed image by any list of transformations**: every
    in-range pixel of the derived view is an in-range pixel of the image (C02_compose), hence its bytes
    lie inside the allocation -/
theorem C01_derived_in_bounds (o : Org) (w h a m : Int) (ts : List Xform) (x y : Int) (hb : o.b2m = 1) (hp : o.planar = false)
    (hP : 0 < o.mstep) (hw : 0 ≤ w) (hh : 0 ≤ h) (ha : 0 ≤ a) (hm : 0 ≤ m)
    (hov1 : w * o.mstep + a + m < SZ) (hov : rowUnits o w a * h + h + 1 + a < SZ)
    (hv : validAll ts (imageView o w h a m))
    (hr : (GilVerif.Model.C02.applyMemAll ts (imageView o w h a m)).InRange x y) :
    within (allocBytes o w h a) (footprint o (rowUnits o w a * h) ((GilVerif.Model.C02.applyMemAll ts (imageView o w h a m)).addr x y)) := by
  obtain ⟨e, hin⟩ := GilVerif.Props.C02.C02_compose ts (imageView o w h a m) hv hw hh x y hr
  rw [e]
  exact C01_image_in_bounds_interleaved o w h a m _ _ hb hp hP hw hh ha hm hov1 hov hin

/-- the same for planar and for bit-aligned images: a derived pixel *is* an in-range image pixel -/
theorem C01_derived_is_image_pixel (v : View) (ts : List Xform) (x y : Int) (hw : 0 ≤ v.w) (hh : 0 ≤ v.h)
    (hv : validAll ts v) (hr : (GilVerif.Model.C02.applyMemAll ts v).InRange x y) :
    ∃ x' y', v.InRange x' y' ∧ (GilVerif.Model.C02.applyMemAll ts v).addr x y = v.addr x' y' := by
  obtain ⟨e, hin⟩ := GilVerif.Props.C02.C02_compose ts v hv hw hh x y hr
  exact ⟨_, _, hin, e⟩

/-- **views over caller buffers** (`interleaved_view(w, h, pixels, rowBytes)` over exactly
    `h * rowBytes` bytes, `w * P ≤ rowBytes`): no byte before or after the buffer -/
theorem C01_caller_buffer (P R w h x y : Int) (hP : 0 < P) (hR : w * P ≤ R) (hw : 0 ≤ w)
    (hr : (View.mk 0 P R w h).InRange x y) :
    0 ≤ (View.mk 0 P R w h).addr x y ∧ (View.mk 0 P R w h).addr x y + P ≤ h * R := by
  obtain ⟨hx0, hx1, hy0, hy1⟩ := hr
  simp only [] at hx0 hx1 hy0 hy1
  have hR0 : 0 ≤ R := le_trans (Int.mul_nonneg hw (by omega)) hR
  have h1 : (x + 1) * P ≤ w * P := Int.mul_le_mul_of_nonneg_right (by omega) (by omega)
  have h2 : (y + 1) * R ≤ h * R := Int.mul_le_mul_of_nonneg_right (by omega) hR0
  have h3 : 0 ≤ x * P := Int.mul_nonneg hx0 (by omega)
  have h4 : 0 ≤ y * R := Int.mul_nonneg hy0 hR0
  have e1 : (x + 1) * P = x * P + P := by ring
  have e2 : (y + 1) * R = y * R + R := by ring
  simp only [View.addr]
  constructor <;> omega

/-- **recreate, reuse branch** (`_allocated_bytes >= total_allocated_size_in_bytes(dims)`): the new
    view is laid out over the old storage by `create_view`; its pixels stay inside the old allocation -/
theorem C01_recreate_reuse (o : Org) (allocated w h a m x y : Int) (hb : o.b2m = 1) (hp : o.planar = false)
    (hP : 0 < o.mstep) (hw : 0 ≤ w) (hh : 0 ≤ h) (ha : 0 ≤ a) (hm : 0 ≤ m)
    (hov1 : w * o.mstep + a + m < SZ) (hov : rowUnits o w a * h + h + 1 + a < SZ)
    (hreuse : allocated ≥ allocBytes o w h a)
    (hr : (imageView o w h a m).InRange x y) :
    within allocated (footprint o (rowUnits o w a * h) ((imageView o w h a m).addr x y)) := by
  have := C01_image_in_bounds_interleaved o w h a m x y hb hp hP hw hh ha hm hov1 hov hr
  intro q hq
  obtain ⟨q1, q2⟩ := this q hq
  exact ⟨q1, by omega⟩

end GilVerif.Props.C01
