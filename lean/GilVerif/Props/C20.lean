/-
  C20 -- rasterizers.  Property theorems only (named C20_*); helper lemmas are `private`.
  Stated over Model/C20.lean, whose integer kernels are the GENERATED definitions of Gen/C20.lean
  (re-translated from line.hpp / circle.hpp / ellipse.hpp on every run).

  line:    C20_line_point_count, C20_line_count, C20_line_endpoints, C20_line_major_monotone,
           C20_line_connected_inner, C20_line_partial        -- for EVERY decision stream
           C20_line_bbox_witness, C20_line_near_witness      -- the bbox / one-pixel clauses are FALSE today
  circle:  C20_circle_count, C20_circle_sym                  -- any octant list (midpoint and trigonometric)
           C20_midpoint_count, C20_circle_on_curve, C20_circle_bbox, C20_circle_within_one_pixel,
           C20_circle_bound_needed_witness
  ellipse: see the section below
-/
import GilVerif.Model.C20
import Mathlib.Tactic.Ring
import Mathlib.Tactic.Linarith

set_option linter.unusedTactic false
set_option linter.unreachableTactic false

namespace GilVerif.Props.C20
open GilVerif.Model.C20 GilVerif.Gen.C20

/-! ## bresenham_line_rasterizer -/

variable {σ : Type}

private theorem maj_emit (f : Bool) (x y : Int) : maj f (emit f x y) = x := by cases f <;> rfl
private theorem mnr_emit (f : Bool) (x y : Int) : mnr f (emit f x y) = y := by cases f <;> rfl

private theorem lineLoop_length (step : σ → Bool × σ) (f : Bool) (xi yi : Int) (n : Nat) (s : σ) (x y : Int) :
    (lineLoop step f xi yi n s x y).length = n := by
  induction n generalizing s x y with
  | zero => rfl
  | succ n ih => simp [lineLoop, ih]

private theorem lineLoop_maj (step : σ → Bool × σ) (f : Bool) (xi yi : Int) (n : Nat) (s : σ) (x y : Int) :
    (lineLoop step f xi yi n s x y).map (maj f) = (List.range n).map (fun (k : Nat) => x + (k : Int) * xi) := by
  induction n generalizing s x y with
  | zero => rfl
  | succ n ih =>
    rw [List.range_succ_eq_map]
    simp only [lineLoop, List.map_cons, List.map_map, ih, maj_emit]
    congr 1
    · simp
    · apply List.map_congr_left
      intro k _
      simp only [Function.comp, Nat.succ_eq_add_one, Int.natCast_add, Int.natCast_one]
      rw [Int.add_mul]; omega


/-- `point_count()` is max(|dx|,|dy|)+1 (over the generated definition) -/
theorem C20_line_point_count (s e : Pt) :
    pointCount s e = max (iabs (e.1 - s.1)) (iabs (e.2 - s.2)) + 1 := by
  unfold pointCount line_point_count iabs; dsimp only; omega

/-- exactly `point_count()` points, for every decision stream -/
theorem C20_line_count (mk : Int → Int → σ → Bool × σ) (init : σ) (s e : Pt) :
    specCount s e (lineWith mk init s e) = true := by
  unfold specCount
  rw [decide_eq_true_eq, C20_line_point_count]
  unfold lineWith
  by_cases hse : s = e
  · subst hse; simp [iabs]
  · simp only [hse, if_false, List.length_append, lineLoop_length, List.length_singleton]
    unfold needsFlip
    by_cases hf : iabs (e.1 - s.1) + 1 < iabs (e.2 - s.2) + 1
    · simp only [hf, decide_true, maj, if_true]; unfold iabs at *; omega
    · simp only [hf, decide_false, maj]; unfold iabs at *; simp only [Bool.false_eq_true, if_false]; omega

private theorem emit_maj_mnr (f : Bool) (p : Pt) : emit f (maj f p) (mnr f p) = p := by cases f <;> rfl

/-- number of loop iterations -/
private def nIter (s e : Pt) : Nat := (iabs (maj (needsFlip s e) e - maj (needsFlip s e) s)).toNat

private theorem lineWith_ne (mk : Int → Int → σ → Bool × σ) (init : σ) (s e : Pt) (h : s ≠ e) :
    ∃ step : σ → Bool × σ, lineWith mk init s e =
      lineLoop step (needsFlip s e) (majDir s e) (mnrDir s e) (nIter s e) init (maj (needsFlip s e) s) (mnr (needsFlip s e) s) ++ [e] := by
  refine ⟨mk (iabs (mnr (needsFlip s e) e - mnr (needsFlip s e) s) + 1) (iabs (maj (needsFlip s e) e - maj (needsFlip s e) s) + 1), ?_⟩
  unfold lineWith majDir mnrDir nIter
  simp only [h, if_false]

/-- the major extent is at least the minor extent, and at least 1 unless start = end -/
private theorem nIter_facts (s e : Pt) :
    ((nIter s e : Nat) : Int) = iabs (maj (needsFlip s e) e - maj (needsFlip s e) s) ∧
    iabs (mnr (needsFlip s e) e - mnr (needsFlip s e) s) ≤ (nIter s e : Int) ∧
    (s ≠ e → 1 ≤ nIter s e) := by
  unfold nIter needsFlip
  have hp : s = e ↔ (s.1 = e.1 ∧ s.2 = e.2) := Prod.ext_iff
  by_cases hf : iabs (e.1 - s.1) + 1 < iabs (e.2 - s.2) + 1
  · simp only [hf, decide_true, maj, mnr, if_true]; unfold iabs at *
    refine ⟨by omega, by omega, fun hne => ?_⟩
    have : ¬(s.1 = e.1 ∧ s.2 = e.2) := fun h => hne (hp.mpr h)
    omega
  · simp only [hf, decide_false, maj, mnr]; unfold iabs at *; simp only [Bool.false_eq_true, if_false]
    refine ⟨by omega, by omega, fun hne => ?_⟩
    have : ¬(s.1 = e.1 ∧ s.2 = e.2) := fun h => hne (hp.mpr h)
    omega

/-- the first point is the start point and the last one the end point, for every decision stream -/
theorem C20_line_endpoints (mk : Int → Int → σ → Bool × σ) (init : σ) (s e : Pt) :
    specEnds s e (lineWith mk init s e) = true := by
  unfold specEnds
  by_cases hse : s = e
  · subst hse; simp [lineWith]
  · obtain ⟨step, hl⟩ := lineWith_ne mk init s e hse
    have hn := (nIter_facts s e).2.2 hse
    rw [hl, Bool.and_eq_true]
    constructor
    · obtain ⟨m, hm⟩ : ∃ m, nIter s e = m + 1 := ⟨nIter s e - 1, by omega⟩
      simp [hm, lineLoop, emit_maj_mnr]
    · simp [List.getLast?_append]

/-- the k-th point's major coordinate is start + k·direction: one step along the major axis per point -/
theorem C20_line_major_monotone (mk : Int → Int → σ → Bool × σ) (init : σ) (s e : Pt) :
    specMajor s e (lineWith mk init s e) = true := by
  unfold specMajor
  rw [beq_iff_eq]
  by_cases hse : s = e
  · subst hse; simp [lineWith]
  · obtain ⟨step, hl⟩ := lineWith_ne mk init s e hse
    have hn := (nIter_facts s e).1
    rw [hl]
    simp only [List.map_append, lineLoop_maj, List.length_append, lineLoop_length, List.length_singleton,
      List.range_succ, List.map_cons, List.map_nil]
    congr 2
    rw [hn]; unfold majDir iabs
    split <;> omega

private theorem conn8_emit (f : Bool) (x y xi yi : Int) (b : Bool) (hx : iabs xi ≤ 1) (hy : iabs yi ≤ 1) :
    conn8 (emit f x y) (emit f (x + xi) (if b then y + yi else y)) = true := by
  unfold conn8 iabs at *
  cases f <;> cases b <;>
    simp only [emit, Bool.false_eq_true, if_false, if_true, Bool.and_eq_true, decide_eq_true_eq] <;> omega

private theorem lineLoop_conn (step : σ → Bool × σ) (f : Bool) (xi yi : Int) (hx : iabs xi ≤ 1) (hy : iabs yi ≤ 1)
    (n : Nat) (s : σ) (x y : Int) : allPairs conn8 (lineLoop step f xi yi n s x y) = true := by
  induction n generalizing s x y with
  | zero => rfl
  | succ n ih =>
    cases n with
    | zero => rfl
    | succ m =>
      have h := ih (step s).2 (x + xi) (if (step s).1 then y + yi else y)
      simp only [lineLoop] at h ⊢
      simp only [allPairs, Bool.and_eq_true]
      exact ⟨conn8_emit f x y xi yi _ hx hy, h⟩

private theorem dirs (s e : Pt) : (majDir s e = 1 ∨ majDir s e = -1) ∧ (mnrDir s e = 1 ∨ mnrDir s e = -1) := by
  unfold majDir mnrDir; constructor <;> split <;> simp

/-- consecutive points are 8-connected, all steps except possibly the last (onto the end point),
    for every decision stream -/
theorem C20_line_connected_inner (mk : Int → Int → σ → Bool × σ) (init : σ) (s e : Pt) :
    specConn (lineWith mk init s e).dropLast = true := by
  unfold specConn
  by_cases hse : s = e
  · subst hse; simp [lineWith, allPairs]
  · obtain ⟨step, hl⟩ := lineWith_ne mk init s e hse
    rw [hl, List.dropLast_concat]
    have hd := dirs s e
    apply lineLoop_conn <;> unfold iabs <;> omega


private theorem lineLoop_partial (step : σ → Bool × σ) (f : Bool) (xi yi x0 y0 : Int) (hyi : yi = 1 ∨ yi = -1)
    (n : Nat) (s : σ) (x y : Int) (i : Nat)
    (hx : x = x0 + (i : Int) * xi) (hy : 0 ≤ (y - y0) * yi ∧ (y - y0) * yi ≤ (i : Int)) :
    ∀ pk ∈ (lineLoop step f xi yi n s x y).zipIdx i,
      maj f pk.1 = x0 + (pk.2 : Int) * xi ∧ pk.2 < i + n ∧
      0 ≤ (mnr f pk.1 - y0) * yi ∧ (mnr f pk.1 - y0) * yi ≤ (pk.2 : Int) := by
  induction n generalizing s x y i with
  | zero => intro pk h; simp [lineLoop] at h
  | succ n ih =>
    intro pk h
    simp only [lineLoop, List.zipIdx_cons, List.mem_cons] at h
    rcases h with h | h
    · subst h; simp only [maj_emit, mnr_emit]; exact ⟨hx, by omega, hy.1, hy.2⟩
    · have := ih (step s).2 (x + xi) (if (step s).1 then y + yi else y) (i + 1)
        (by rw [hx, Int.natCast_add, Int.add_mul]; omega)
        (by rcases hyi with h1 | h1 <;> subst h1 <;> split <;> omega) pk h
      refine ⟨this.1, by omega, this.2.2⟩

/-- The provable remainder of the bounding-box clause, for every decision stream: every point before the
    last has its major coordinate between the end points', and its minor coordinate has moved between
    0 and k steps (k = index of the point) towards the end point -- never backwards.  What can NOT be
    proven (and is false, see `C20_line_bbox_witness`) is that it moves at most |Δminor| steps. -/
theorem C20_line_partial (mk : Int → Int → σ → Bool × σ) (init : σ) (s e : Pt) :
    specLinePartial s e (lineWith mk init s e) = true := by
  unfold specLinePartial
  by_cases hse : s = e
  · subst hse; simp [lineWith]
  · obtain ⟨step, hl⟩ := lineWith_ne mk init s e hse
    rw [hl, List.dropLast_concat, List.all_eq_true]
    intro pk hpk
    have hd := dirs s e
    have hn := (nIter_facts s e).1
    have h := lineLoop_partial step (needsFlip s e) (majDir s e) (mnrDir s e) (maj (needsFlip s e) s) (mnr (needsFlip s e) s)
      hd.2 (nIter s e) init _ _ 0 (by simp) (by simp) pk hpk
    obtain ⟨h1, h2, h3, h4⟩ := h
    simp only [Bool.and_eq_true, decide_eq_true_eq]
    refine ⟨⟨⟨?_, ?_⟩, h3⟩, h4⟩
    · rw [h1]; unfold majDir iabs at *; split <;> omega
    · rw [h1]; unfold majDir iabs at *; split <;> omega

/-- OPEN (not proven, and FALSE for the current code -- see the witness below):
      theorem C20_line_bbox (s e : Pt) : specBBox s e (line s e) = true
      theorem C20_line_near (s e : Pt) : specNear s e (line s e) = true
    The slope used by the code is (|dy|+1)/(|dx|+1), so the minor coordinate reaches |dy|+1 steps when
    |dx|+1 ≥ 4(|dy|+1).  Witness: in exact arithmetic (which the double code follows exactly here,
    0.25 and its multiples being exact) (0,0)→(7,1) emits (6,2).  The same input is replayed on the real
    code by the check (`line 0 0 7 1`, `linex 0 0 7 1`, `aline g8 0 0 7 1`). -/
theorem C20_line_bbox_witness :
    lineExact (0, 0) (7, 1) = [(0, 0), (1, 0), (2, 1), (3, 1), (4, 1), (5, 1), (6, 2), (7, 1)] ∧
    specBBox (0, 0) (7, 1) (lineExact (0, 0) (7, 1)) = false ∧
    specNear (0, 0) (7, 1) (lineExact (0, 0) (7, 1)) = false := by decide

set_option maxRecDepth 8192 in
/-- more than one pixel (minor axis) from the ideal segment although inside the bounding box:
    (0,0)→(31,8) emits (27,8) where the ideal ordinate is 6.97 (exact arithmetic = the double code here,
    the slope 9/32 and its multiples being exact) -/
theorem C20_line_near_witness :
    (27, 8) ∈ lineExact (0, 0) (31, 8) ∧
    specBBox (0, 0) (31, 8) (lineExact (0, 0) (31, 8)) = true ∧
    specNear (0, 0) (31, 8) (lineExact (0, 0) (31, 8)) = false := by decide


/-! ## circles -/

/-- every octant point is written 8 times: 8·(number of octant points) points in all -/
theorem C20_circle_count (c : Pt) (oct : List Pt) : (circleFrom c oct).length = 8 * oct.length := by
  unfold circleFrom
  induction oct with
  | nil => rfl
  | cons p t ih => simp only [List.flatMap_cons, List.length_append, ih, List.length_cons]; simp [mirror8]; omega

private theorem midLoop_length (r2 : Int) (k : Nat) (x y : Int) : (midLoop r2 k x y).length = k := by
  induction k generalizing x y with
  | zero => rfl
  | succ k ih => simp [midLoop, ih]

/-- midpoint circle: exactly 8·n = point_count() points when n = point_count()/8 ≥ 1 -/
theorem C20_midpoint_count (c : Pt) (r : Int) (n : Nat) (hn : 1 ≤ n) : (midCircleWith c r n).length = 8 * n := by
  unfold midCircleWith midOctant
  rw [C20_circle_count]; simp [midLoop_length]; omega

example : (midCircleWith (3, 4) 5 5).length = 8 * 5 := by decide

private theorem mem_mirror8 (c p q : Pt) : q ∈ mirror8 c p ↔
    (q.1 - c.1 = p.1 ∨ q.1 - c.1 = -p.1) ∧ (q.2 - c.2 = p.2 ∨ q.2 - c.2 = -p.2) ∨
    (q.1 - c.1 = p.2 ∨ q.1 - c.1 = -p.2) ∧ (q.2 - c.2 = p.1 ∨ q.2 - c.2 = -p.1) := by
  obtain ⟨q1, q2⟩ := q
  simp only [mirror8, List.mem_cons, Prod.mk.injEq, List.mem_nil_iff, or_false]
  omega

/-- the output is closed under the 8 reflections (x ↦ −x, y ↦ −y, x ↔ y about the centre),
    for any list of octant points (both circle rasterizers) -/
theorem C20_circle_sym (c : Pt) (oct : List Pt) : specSym8 c (circleFrom c oct) = true := by
  unfold specSym8 circleFrom
  rw [List.all_eq_true]
  intro p hp
  rw [List.all_eq_true]
  intro q hq
  rw [List.contains_iff_mem]
  rw [List.mem_flatMap] at hp ⊢
  obtain ⟨o, ho, hpo⟩ := hp
  refine ⟨o, ho, ?_⟩
  unfold reflections at hq
  rw [mem_mirror8] at hq hpo ⊢
  simp only at hq
  omega


/-- what the generated loop body computes -/
private theorem mid_body_eq (x y r2 : Int) :
    mid_body x y r2 = if x * x + y * y - y - r2 > 0 then y - 1 else y := by
  unfold mid_body
  by_cases h : x * x + y * y - y - r2 > 0 <;> (try simp only [h, if_true, if_false]) <;> (try (first | rfl | omega))

/-- the midpoint invariant: y is the best integer ordinate for abscissa x -/
def OnCurve (r : Int) (p : Pt) : Prop :=
  0 ≤ p.1 ∧ 0 ≤ p.2 ∧ p.2 ≤ r ∧ p.1 ≤ r ∧
  p.1 * p.1 + p.2 * p.2 - p.2 - r * r ≤ 0 ∧ 0 ≤ p.1 * p.1 + p.2 * p.2 + p.2 - r * r

private theorem midLoop_inv (r : Int) (hr : 0 ≤ r) (k : Nat) (x y : Int)
    (hx : 1 ≤ x) (hy0 : 0 ≤ y) (hyr : y ≤ r)
    (hJ1 : (x - 1) * (x - 1) + y * y - y - r * r ≤ 0) (hJ2 : 0 ≤ (x - 1) * (x - 1) + y * y + y - r * r)
    (hb : ∀ x' : Int, x ≤ x' → x' < x + k → 2 * x' * x' - 2 * x' + 1 ≤ r * r) :
    ∀ p ∈ midLoop (r * r) k x y, OnCurve r p := by
  induction k generalizing x y with
  | zero => intro p h; simp [midLoop] at h
  | succ k ih =>
    have hbx := hb x (Int.le_refl x) (by omega)
    have hxr : x ≤ r := by nlinarith
    -- the new ordinate and its invariant
    have key : OnCurve r (x, mid_body x y (r * r)) ∧ 0 ≤ mid_body x y (r * r) ∧ mid_body x y (r * r) ≤ r := by
      rw [mid_body_eq]
      by_cases hm : x * x + y * y - y - r * r > 0
      · simp only [hm, if_true]
        have hy1 : 1 ≤ y := by
          by_contra hc
          have : y = 0 := by omega
          subst this
          nlinarith
        refine ⟨⟨by omega, by omega, by omega, hxr, ?_, ?_⟩, by omega, by omega⟩
        · show x * x + (y - 1) * (y - 1) - (y - 1) - r * r ≤ 0
          by_cases hxy : x ≤ y - 1
          · nlinarith
          · have h1 : 0 ≤ (x - y) * (x + y - 2) := mul_nonneg (by omega) (by omega)
            nlinarith
        · show 0 ≤ x * x + (y - 1) * (y - 1) + (y - 1) - r * r
          nlinarith
      · simp only [hm, if_false]
        refine ⟨⟨by omega, hy0, hyr, hxr, ?_, ?_⟩, hy0, hyr⟩
        · show x * x + y * y - y - r * r ≤ 0
          omega
        · show 0 ≤ x * x + y * y + y - r * r
          nlinarith
    intro p hp
    simp only [midLoop, List.mem_cons] at hp
    rcases hp with hp | hp
    · subst hp; exact key.1
    · obtain ⟨⟨_, _, _, _, k1, k2⟩, k3, k4⟩ := key
      refine ih (x + 1) (mid_body x y (r * r)) (by omega) k3 k4 ?_ ?_ ?_ p hp
      · simpa using k1
      · simpa using k2
      · intro x' h1 h2; exact hb x' (by omega) (by omega)

/-- Midpoint circle, first octant: under the integer bound on the iteration count n = point_count()/8
    (checked for every radius of a run on the real point_count()), every emitted (x, y) satisfies
    |x² + y² − r²| ≤ y ≤ r, with 0 ≤ x ≤ r and 0 ≤ y ≤ r -/
theorem C20_circle_on_curve (r : Int) (hr : 0 ≤ r) (n : Nat)
    (hn : n ≤ 1 ∨ 2 * ((n : Int) - 1) * ((n : Int) - 1) - 2 * ((n : Int) - 1) + 1 ≤ r * r) :
    ∀ p ∈ midOctant r n, OnCurve r p := by
  intro p hp
  simp only [midOctant, List.mem_cons] at hp
  rcases hp with hp | hp
  · subst hp; refine ⟨by simp, hr, by simp, hr, ?_, ?_⟩ <;> simp <;> omega
  · refine midLoop_inv r hr (n - 1) 1 r (by omega) hr (by omega) (by simp; omega) (by simp; omega) ?_ p hp
    intro x' h1 h2
    rcases hn with hn | hn
    · omega
    · have : x' ≤ (n : Int) - 1 := by omega
      have h3 : 0 ≤ ((n : Int) - 1 - x') * ((n : Int) - 1 + x' - 1) := mul_nonneg (by omega) (by omega)
      nlinarith

example : (5 : Nat) ≤ 1 ∨ 2 * (((5 : Nat) : Int) - 1) * (((5 : Nat) : Int) - 1) - 2 * (((5 : Nat) : Int) - 1) + 1 ≤ 5 * 5 := by decide


private theorem sq_cases {u a : Int} (h : u = a ∨ u = -a) : u * u = a * a := by
  rcases h with h | h <;> subst h <;> ring

/-- every mirrored copy of an on-curve octant point is inside the circle's bounding box and within
    one pixel of the circle:  (r−1)² ≤ |q−c|² ≤ (r+1)² -/
private theorem mirror_ok (c : Pt) (r : Int) (p q : Pt) (hp : OnCurve r p) (hq : q ∈ mirror8 c p) :
    inBox (c.1 - r, c.2 - r) (c.1 + r, c.2 + r) q = true ∧ nearCircle c r q = true := by
  obtain ⟨h1, h2, h3, h4, h5, h6⟩ := hp
  rw [mem_mirror8] at hq
  constructor
  · simp only [inBox, Bool.and_eq_true, decide_eq_true_eq]; omega
  · simp only [nearCircle, Bool.and_eq_true, Bool.or_eq_true, decide_eq_true_eq]
    have hd : (q.1 - c.1) * (q.1 - c.1) + (q.2 - c.2) * (q.2 - c.2) = p.1 * p.1 + p.2 * p.2 := by
      rcases hq with ⟨ha, hb⟩ | ⟨ha, hb⟩
      · rw [sq_cases ha, sq_cases hb]
      · rw [sq_cases ha, sq_cases hb]; ring
    rw [hd]
    constructor
    · nlinarith
    · by_cases hr : r ≤ 0
      · exact Or.inl hr
      · right; nlinarith

/-- midpoint circle: all 8·n points inside the bounding box [c−r, c+r]² -/
theorem C20_circle_bbox (c : Pt) (r : Int) (hr : 0 ≤ r) (n : Nat)
    (hn : n ≤ 1 ∨ 2 * ((n : Int) - 1) * ((n : Int) - 1) - 2 * ((n : Int) - 1) + 1 ≤ r * r) :
    specCircleBBox c r (midCircleWith c r n) = true := by
  unfold specCircleBBox midCircleWith circleFrom
  rw [List.all_eq_true]
  intro q hq
  rw [List.mem_flatMap] at hq
  obtain ⟨p, hp, hqp⟩ := hq
  exact (mirror_ok c r p q (C20_circle_on_curve r hr n hn p hp) hqp).1

/-- midpoint circle: all 8·n points within one pixel of the ideal circle -/
theorem C20_circle_within_one_pixel (c : Pt) (r : Int) (hr : 0 ≤ r) (n : Nat)
    (hn : n ≤ 1 ∨ 2 * ((n : Int) - 1) * ((n : Int) - 1) - 2 * ((n : Int) - 1) + 1 ≤ r * r) :
    specCircleNear c r (midCircleWith c r n) = true := by
  unfold specCircleNear midCircleWith circleFrom
  rw [List.all_eq_true]
  intro q hq
  rw [List.mem_flatMap] at hq
  obtain ⟨p, hp, hqp⟩ := hq
  exact (mirror_ok c r p q (C20_circle_on_curve r hr n hn p hp) hqp).2

/-- the hypothesis on n is needed: one iteration too many leaves the circle (r = 1, n = 3 emits (2,0) mirrored) -/
theorem C20_circle_bound_needed_witness : specCircleBBox (0, 0) 1 (midCircleWith (0, 0) 1 3) = false := by decide


end GilVerif.Props.C20
