/-
  C20 -- rasterizers.  Property theorems only (named C20_*); helper lemmas are `private`.
  Stated over Model/C20.lean, whose integer kernels are the GENERATED definitions of Gen/C20.lean
  (re-translated from line.hpp / circle.hpp / ellipse.hpp on every run).

  line:    C20_line_point_count, C20_line_count, C20_line_endpoints, C20_line_major_monotone,
           C20_line_connected_inner, C20_line_bbox, C20_line_partial   -- for EVERY decision stream (model follows fix 51ba32c)
           C20_line_near_witness                             -- the one-pixel clause is FALSE today
           C20_line_guard_example, C20_line_exact_connected  -- the error term in EXACT arithmetic (the double code
                                                                agrees with it except on ties; checked op `linex`)
  circle:  C20_circle_count, C20_circle_sym                  -- any octant list (midpoint and trigonometric)
           C20_midpoint_count, C20_circle_on_curve, C20_circle_bbox, C20_circle_within_one_pixel, C20_circle_reaches_diagonal,
           C20_circle_bound_needed_witness
  ellipse: C20_ellipse_closed_form (t8, t9, d1, d2 in closed form = the ellipse equation at the midpoints),
           C20_ellipse_bbox, C20_ellipse_terminates, C20_ellipse_connected, C20_ellipse_ends, C20_ellipse_closed,
           C20_ellipse_clipped, C20_ellipse_apply_in_view, C20_ellipse_sym
  OPEN (not proven; decided by the Spec on the real code's output only): closeness of the ellipse trajectory and of
  the trigonometric circle to the ideal curve; bbox of the trigonometric circle; the one-pixel clause of the
  line (false today: witness) and the last step's connectivity for the double error term.
-/
import GilVerif.Model.C20
import Mathlib.Tactic.Ring
import Mathlib.Tactic.Linarith

set_option linter.unusedTactic false
set_option linter.unnecessarySeqFocus false
set_option linter.unusedSimpArgs false
set_option linter.unreachableTactic false

namespace GilVerif.Props.C20
open GilVerif.Model.C20 GilVerif.Gen.C20

/-! ## bresenham_line_rasterizer -/

variable {σ : Type}

private theorem maj_emit (f : Bool) (x y : Int) : maj f (emit f x y) = x := by cases f <;> rfl
private theorem mnr_emit (f : Bool) (x y : Int) : mnr f (emit f x y) = y := by cases f <;> rfl
private theorem emit_maj_mnr (f : Bool) (p : Pt) : emit f (maj f p) (mnr f p) = p := by cases f <;> rfl

/-- one unfolding of the loop: the next state and ordinate, whatever the decision -/
private theorem lineLoop_succ (E : Err σ) (f : Bool) (xi yi ey : Int) (n : Nat) (s : σ) (x y : Int) :
    ∃ (s' : σ) (y' : Int), lineLoop E f xi yi ey (n + 1) s x y = emit f x y :: lineLoop E f xi yi ey n s' (x + xi) y' ∧
      ((y' = y + yi ∧ y ≠ ey) ∨ y' = y) := by
  by_cases h : (E.dec (E.adv s) && decide (y ≠ ey)) = true
  · refine ⟨E.sub (E.adv s), y + yi, by simp only [lineLoop, h, if_true], Or.inl ⟨rfl, ?_⟩⟩
    simp only [Bool.and_eq_true, decide_eq_true_eq] at h; exact h.2
  · exact ⟨E.adv s, y, by simp only [lineLoop, h, if_false, Bool.false_eq_true], Or.inr rfl⟩

private theorem lineLoop_length (E : Err σ) (f : Bool) (xi yi ey : Int) (n : Nat) (s : σ) (x y : Int) :
    (lineLoop E f xi yi ey n s x y).length = n := by
  induction n generalizing s x y with
  | zero => rfl
  | succ n ih =>
    obtain ⟨s', y', h, _⟩ := lineLoop_succ E f xi yi ey n s x y
    rw [h, List.length_cons, ih]

private theorem lineLoop_maj (E : Err σ) (f : Bool) (xi yi ey : Int) (n : Nat) (s : σ) (x y : Int) :
    (lineLoop E f xi yi ey n s x y).map (maj f) = (List.range n).map (fun (k : Nat) => x + (k : Int) * xi) := by
  induction n generalizing s x y with
  | zero => rfl
  | succ n ih =>
    obtain ⟨s', y', h, _⟩ := lineLoop_succ E f xi yi ey n s x y
    rw [h, List.range_succ_eq_map]
    simp only [List.map_cons, List.map_map, ih, maj_emit]
    congr 1
    · simp
    · apply List.map_congr_left
      intro k _
      simp only [Function.comp, Nat.succ_eq_add_one, Int.natCast_add, Int.natCast_one]
      rw [Int.add_mul]; omega

/-- `point_count()` is max(|dx|,|dy|)+1 (over the generated definition) -/
theorem C20_line_point_count (s e : Pt) :
    pointCount s e = max (iabs (e.1 - s.1)) (iabs (e.2 - s.2)) + 1 := by
  unfold pointCount line_point_count iabs; (try dsimp only); omega

/-- exactly `point_count()` points, for every decision stream -/
theorem C20_line_count (mk : Int → Int → Err σ) (init : σ) (s e : Pt) :
    specCount s e (lineWith mk init s e) = true := by
  unfold specCount
  rw [decide_eq_true_eq, C20_line_point_count]
  unfold lineWith
  by_cases hse : s = e
  · subst hse; simp [iabs]
  · simp only [hse, if_false, List.length_append, lineLoop_length, List.length_singleton]
    unfold needsFlip
    by_cases hf : iabs (e.1 - s.1) + 1 < iabs (e.2 - s.2) + 1
    · simp only [hf, decide_true, maj, if_true]; unfold iabs at *; omega
    · simp only [hf, decide_false, maj]; unfold iabs at *; simp only [Bool.false_eq_true, if_false]; omega

/-- number of loop iterations -/
private def nIter (s e : Pt) : Nat := (iabs (maj (needsFlip s e) e - maj (needsFlip s e) s)).toNat

private theorem lineWith_ne (mk : Int → Int → Err σ) (init : σ) (s e : Pt) (h : s ≠ e) :
    lineWith mk init s e =
      lineLoop (mk (iabs (mnr (needsFlip s e) e - mnr (needsFlip s e) s) + 1) (iabs (maj (needsFlip s e) e - maj (needsFlip s e) s) + 1))
        (needsFlip s e) (majDir s e) (mnrDir s e) (mnr (needsFlip s e) e) (nIter s e) init
        (maj (needsFlip s e) s) (mnr (needsFlip s e) s) ++ [e] := by
  unfold lineWith majDir mnrDir nIter
  simp only [h, if_false]

/-- the major extent is at least the minor extent, and at least 1 unless start = end -/
private theorem nIter_facts (s e : Pt) :
    ((nIter s e : Nat) : Int) = iabs (maj (needsFlip s e) e - maj (needsFlip s e) s) ∧
    iabs (mnr (needsFlip s e) e - mnr (needsFlip s e) s) ≤ (nIter s e : Int) ∧
    (s ≠ e → 1 ≤ nIter s e) := by
  unfold nIter needsFlip
  have hp : s = e ↔ (s.1 = e.1 ∧ s.2 = e.2) := Prod.ext_iff
  by_cases hf : iabs (e.1 - s.1) + 1 < iabs (e.2 - s.2) + 1
  · simp only [hf, decide_true, maj, mnr, if_true]; unfold iabs at *
    refine ⟨by omega, by omega, fun hne => ?_⟩
    have : ¬(s.1 = e.1 ∧ s.2 = e.2) := fun h => hne (hp.mpr h)
    omega
  · simp only [hf, decide_false, maj, mnr]; unfold iabs at *; simp only [Bool.false_eq_true, if_false]
    refine ⟨by omega, by omega, fun hne => ?_⟩
    have : ¬(s.1 = e.1 ∧ s.2 = e.2) := fun h => hne (hp.mpr h)
    omega

/-- the first point is the start point and the last one the end point, for every decision stream -/
theorem C20_line_endpoints (mk : Int → Int → Err σ) (init : σ) (s e : Pt) :
    specEnds s e (lineWith mk init s e) = true := by
  unfold specEnds
  by_cases hse : s = e
  · subst hse; simp [lineWith]
  · have hl := lineWith_ne mk init s e hse
    have hn := (nIter_facts s e).2.2 hse
    rw [hl, Bool.and_eq_true]
    constructor
    · obtain ⟨m, hm⟩ : ∃ m, nIter s e = m + 1 := ⟨nIter s e - 1, by omega⟩
      obtain ⟨s', y', h, _⟩ := lineLoop_succ (mk (iabs (mnr (needsFlip s e) e - mnr (needsFlip s e) s) + 1)
        (iabs (maj (needsFlip s e) e - maj (needsFlip s e) s) + 1)) (needsFlip s e) (majDir s e) (mnrDir s e)
        (mnr (needsFlip s e) e) m init (maj (needsFlip s e) s) (mnr (needsFlip s e) s)
      rw [hm, h]; simp [emit_maj_mnr]
    · simp [List.getLast?_append]

/-- the k-th point's major coordinate is start + k·direction: one step along the major axis per point -/
theorem C20_line_major_monotone (mk : Int → Int → Err σ) (init : σ) (s e : Pt) :
    specMajor s e (lineWith mk init s e) = true := by
  unfold specMajor
  rw [beq_iff_eq]
  by_cases hse : s = e
  · subst hse; simp [lineWith]
  · have hl := lineWith_ne mk init s e hse
    have hn := (nIter_facts s e).1
    rw [hl]
    simp only [List.map_append, lineLoop_maj, List.length_append, lineLoop_length, List.length_singleton,
      List.range_succ, List.map_cons, List.map_nil]
    congr 2
    rw [hn]; unfold majDir iabs
    split <;> omega

private theorem conn8_emit (f : Bool) (x y xi yi y' : Int) (hx : iabs xi ≤ 1) (hy : iabs yi ≤ 1) (hy' : y' = y + yi ∨ y' = y) :
    conn8 (emit f x y) (emit f (x + xi) y') = true := by
  unfold conn8 iabs at *
  rcases hy' with h | h <;> subst h <;> cases f <;>
    simp only [emit, Bool.false_eq_true, if_false, if_true, Bool.and_eq_true, decide_eq_true_eq] <;> omega

private theorem lineLoop_conn (E : Err σ) (f : Bool) (xi yi ey : Int) (hx : iabs xi ≤ 1) (hy : iabs yi ≤ 1)
    (n : Nat) (s : σ) (x y : Int) : allPairs conn8 (lineLoop E f xi yi ey n s x y) = true := by
  induction n generalizing s x y with
  | zero => rfl
  | succ n ih =>
    obtain ⟨s', y', h, hy'⟩ := lineLoop_succ E f xi yi ey n s x y
    rw [h]
    cases n with
    | zero => rfl
    | succ m =>
      obtain ⟨s'', y'', h2, _⟩ := lineLoop_succ E f xi yi ey m s' (x + xi) y'
      have := ih s' (x + xi) y'
      rw [h2] at this ⊢
      simp only [allPairs, Bool.and_eq_true]
      exact ⟨conn8_emit f x y xi yi y' hx hy (by rcases hy' with h | h; exact Or.inl h.1; exact Or.inr h), this⟩

private theorem dirs (s e : Pt) : (majDir s e = 1 ∨ majDir s e = -1) ∧ (mnrDir s e = 1 ∨ mnrDir s e = -1) := by
  unfold majDir mnrDir; constructor <;> split <;> simp

/-- consecutive points are 8-connected, all steps except possibly the last (onto the end point),
    for every decision stream -/
theorem C20_line_connected_inner (mk : Int → Int → Err σ) (init : σ) (s e : Pt) :
    specConn (lineWith mk init s e).dropLast = true := by
  unfold specConn
  by_cases hse : s = e
  · subst hse; simp [lineWith, allPairs]
  · rw [lineWith_ne mk init s e hse, List.dropLast_concat]
    have hd := dirs s e
    apply lineLoop_conn <;> unfold iabs <;> omega

/-- every loop point: major coordinate x0 + j·xi with i ≤ j < i+n; the minor coordinate has moved c steps towards
    `ey` with 0 ≤ c ≤ j and never past `ey` (the `y != end.y` guard) -/
private theorem lineLoop_inv (E : Err σ) (f : Bool) (xi yi x0 y0 ey : Int) (hyi : yi = 1 ∨ yi = -1)
    (n : Nat) (s : σ) (x y : Int) (i : Int)
    (hx : x = x0 + xi * i) (hy : 0 ≤ (y - y0) * yi ∧ (y - y0) * yi ≤ i) (he : 0 ≤ (ey - y) * yi) :
    ∀ p ∈ lineLoop E f xi yi ey n s x y, ∃ j : Int,
      maj f p = x0 + xi * j ∧ i ≤ j ∧ j < i + n ∧
      0 ≤ (mnr f p - y0) * yi ∧ (mnr f p - y0) * yi ≤ j ∧ 0 ≤ (ey - mnr f p) * yi := by
  induction n generalizing s x y i with
  | zero => intro p h; simp [lineLoop] at h
  | succ n ih =>
    intro p h
    obtain ⟨s', y', hs, hy'⟩ := lineLoop_succ E f xi yi ey n s x y
    rw [hs] at h
    simp only [List.mem_cons] at h
    rcases h with h | h
    · subst h; simp only [maj_emit, mnr_emit]; exact ⟨i, hx, le_refl _, by omega, hy.1, hy.2, he⟩
    · obtain ⟨j, h1, h2, h3, h4⟩ := ih s' (x + xi) y' (i + 1) (by rw [hx]; ring)
        (by rcases hy' with ⟨h2, _⟩ | h2 <;> subst h2 <;> rcases hyi with h1 | h1 <;> subst h1 <;> omega)
        (by rcases hy' with ⟨h2, h3⟩ | h2 <;> subst h2 <;> rcases hyi with h1 | h1 <;> subst h1 <;> omega) p h
      exact ⟨j, h1, by omega, by omega, h4⟩

/-- loop points in terms of the end points (s ≠ e) -/
private theorem line_points (mk : Int → Int → Err σ) (init : σ) (s e : Pt) (hse : s ≠ e) :
    ∀ p ∈ (lineWith mk init s e).dropLast, ∃ j : Int,
      maj (needsFlip s e) p = maj (needsFlip s e) s + majDir s e * j ∧ 0 ≤ j ∧ j < (nIter s e : Int) ∧
      0 ≤ (mnr (needsFlip s e) p - mnr (needsFlip s e) s) * mnrDir s e ∧
      (mnr (needsFlip s e) p - mnr (needsFlip s e) s) * mnrDir s e ≤ j ∧
      0 ≤ (mnr (needsFlip s e) e - mnr (needsFlip s e) p) * mnrDir s e := by
  rw [lineWith_ne mk init s e hse, List.dropLast_concat]
  intro p hp
  have hd := dirs s e
  obtain ⟨j, h1, h2, h3, h4⟩ := lineLoop_inv _ (needsFlip s e) (majDir s e) (mnrDir s e) (maj (needsFlip s e) s)
    (mnr (needsFlip s e) s) (mnr (needsFlip s e) e) hd.2 (nIter s e) init _ _ 0 (by ring) (by simp)
    (by unfold mnrDir; split <;> omega) p hp
  exact ⟨j, h1, h2, by omega, h4⟩

/-- Every point lies within the end points' bounding box -- for EVERY decision stream, hence for the double one.
    (Holds since fix 51ba32c added the `y != end.y` guard; before it (0,0)→(7,1) emitted (6,2).) -/
theorem C20_line_bbox (mk : Int → Int → Err σ) (init : σ) (s e : Pt) :
    specBBox s e (lineWith mk init s e) = true := by
  unfold specBBox
  rw [List.all_eq_true]
  have hin : ∀ q : Pt, q = s ∨ q = e → inBox (bboxLo s e) (bboxHi s e) q = true := by
    intro q hq
    unfold inBox bboxLo bboxHi
    simp only [Bool.and_eq_true, decide_eq_true_eq]
    rcases hq with h | h <;> subst h <;> omega
  by_cases hse : s = e
  · subst hse; intro p hp; simp only [lineWith, if_true, List.mem_singleton] at hp; exact hin p (Or.inl hp)
  · intro p hp
    have hsplit : lineWith mk init s e = (lineWith mk init s e).dropLast ++ [e] := by
      rw [lineWith_ne mk init s e hse, List.dropLast_concat]
    rw [hsplit, List.mem_append, List.mem_singleton] at hp
    rcases hp with hp | hp
    · obtain ⟨j, h1, h2, h3, h4, h5, h6⟩ := line_points mk init s e hse p hp
      have hd := dirs s e
      have hn := (nIter_facts s e).1
      have he1 : maj (needsFlip s e) e = maj (needsFlip s e) s + (nIter s e : Int) * majDir s e := by
        rw [hn]; unfold majDir iabs; split <;> omega
      unfold inBox bboxLo bboxHi
      simp only [Bool.and_eq_true, decide_eq_true_eq]
      rcases hd.1 with hx | hx <;> rcases hd.2 with hy | hy <;> rw [hx] at h1 he1 <;> rw [hy] at h4 h5 h6 <;>
        (cases hf : needsFlip s e <;> simp only [hf, maj, mnr, Bool.false_eq_true, if_false, if_true] at h1 h4 h5 h6 he1 ⊢ <;> omega)
    · exact hin p (Or.inr hp)

/-- the minor coordinate of the k-th point has moved between 0 and k steps towards the end point (never backwards) -/
theorem C20_line_partial (mk : Int → Int → Err σ) (init : σ) (s e : Pt) :
    ∀ p ∈ (lineWith mk init s e).dropLast, ∃ j : Int,
      maj (needsFlip s e) p = maj (needsFlip s e) s + majDir s e * j ∧ 0 ≤ j ∧
      0 ≤ (mnr (needsFlip s e) p - mnr (needsFlip s e) s) * mnrDir s e ∧
      (mnr (needsFlip s e) p - mnr (needsFlip s e) s) * mnrDir s e ≤ j := by
  by_cases hse : s = e
  · subst hse; intro p hp; simp [lineWith] at hp
  · intro p hp
    obtain ⟨j, h1, h2, _, h4, h5, _⟩ := line_points mk init s e hse p hp
    exact ⟨j, h1, h2, h4, h5⟩

set_option maxRecDepth 8192 in
/-- OPEN (not proven, and FALSE for the current code):
      theorem C20_line_near (s e : Pt) : specNear s e (line s e) = true
    The slope used by the code is (|dy|+1)/(|dx|+1), so the minor coordinate runs ahead of the ideal segment.
    Witness (exact arithmetic = the double code here, the slope 9/32 and its multiples being exact): (0,0)→(31,8)
    emits (27,8) where the ideal ordinate is 6.97 -- inside the bounding box, 1.03 px from the segment.
    Replayed on the real code by the check (`line 0 0 31 8`, `linex 0 0 31 8`). -/
theorem C20_line_near_witness :
    (27, 8) ∈ lineExact (0, 0) (31, 8) ∧
    specBBox (0, 0) (31, 8) (lineExact (0, 0) (31, 8)) = true ∧
    specNear (0, 0) (31, 8) (lineExact (0, 0) (31, 8)) = false := by decide

/-- the guard is what keeps (0,0)→(7,1) in its box: the line is now (…,(5,1),(6,1),(7,1)) -/
theorem C20_line_guard_example :
    lineExact (0, 0) (7, 1) = [(0, 0), (1, 0), (2, 1), (3, 1), (4, 1), (5, 1), (6, 1), (7, 1)] := by decide

/-! ### the error term in exact arithmetic -/

/-- exact error term, scaled by 2W: while the guard has not engaged (c < H−1 steps taken) it equals 2jH − 2Wc and
    lies in [−W, W) after j iterations; the minor offset never exceeds H−1 -/
private theorem exactLoop_inv (H W : Int) (hH : 2 ≤ H) (hW : H ≤ W) (f : Bool) (xi yi x0 y0 ey : Int)
    (hyi : yi = 1 ∨ yi = -1) (hey : ey = y0 + yi * (H - 1))
    (n : Nat) (E x y j c P Q : Int) (hP : P = j * H) (hQ : Q = W * c)
    (hx : x = x0 + xi * j) (hy : y = y0 + yi * c) (hj : 0 ≤ j) (hc : 0 ≤ c ∧ c ≤ H - 1)
    (hE : c < H - 1 → E = 2 * P - 2 * Q ∧ -W ≤ E ∧ E < W) :
    ∀ p ∈ lineLoop (exactErr H W) f xi yi ey n E x y,
      ∃ j' c' : Int, maj f p = x0 + xi * j' ∧ mnr f p = y0 + yi * c' ∧ j ≤ j' ∧ j' < j + n ∧ 0 ≤ c' ∧ c' ≤ H - 1 ∧
        (c' < H - 1 → -W ≤ 2 * (j' * H) - 2 * (W * c') ∧ 2 * (j' * H) - 2 * (W * c') < W) := by
  induction n generalizing E x y j c P Q with
  | zero => intro p hp; simp [lineLoop] at hp
  | succ n ih =>
    intro p hp
    have hne : ¬ (H = 1) := by omega
    have hadv : ∀ t, (exactErr H W).adv t = t + 2 * H := by intro t; simp only [exactErr, hne, if_false]
    have hdec : ∀ t, (exactErr H W).dec t = decide (t ≥ W) := by intro t; simp only [exactErr]
    have hsub : ∀ t, (exactErr H W).sub t = t - 2 * W := by intro t; simp only [exactErr]
    simp only [lineLoop, List.mem_cons, hadv, hdec, hsub] at hp
    rcases hp with hp | hp
    · subst hp
      refine ⟨j, c, by rw [maj_emit, hx], by rw [mnr_emit, hy], le_refl _, by omega, hc.1, hc.2, ?_⟩
      intro hlt; obtain ⟨e1, e2, e3⟩ := hE hlt; rw [← hP, ← hQ]; omega
    · have hyne : y ≠ ey ↔ c ≠ H - 1 := by
        rw [hy, hey]; rcases hyi with h | h <;> subst h <;> omega
      by_cases hd : (decide (E + 2 * H ≥ W) && decide (y ≠ ey)) = true
      · simp only [hd, if_true] at hp
        simp only [Bool.and_eq_true, decide_eq_true_eq] at hd
        have hclt : c < H - 1 := by have := hyne.mp hd.2; omega
        obtain ⟨e1, e2, e3⟩ := hE hclt
        obtain ⟨j', c', h1, h2, h3, h4, h5⟩ := ih (E + 2 * H - 2 * W) (x + xi) (y + yi) (j + 1) (c + 1) (P + H) (Q + W)
          (by rw [hP]; ring) (by rw [hQ]; ring) (by rw [hx]; ring) (by rw [hy]; ring) (by omega) (by omega)
          (fun _ => by omega) p hp
        exact ⟨j', c', h1, h2, by omega, by omega, h5⟩
      · simp only [hd, Bool.false_eq_true, if_false] at hp
        simp only [Bool.and_eq_true, decide_eq_true_eq, not_and] at hd
        obtain ⟨j', c', h1, h2, h3, h4, h5⟩ := ih (E + 2 * H) (x + xi) y (j + 1) c (P + H) Q
          (by rw [hP]; ring) hQ (by rw [hx]; ring) hy (by omega) hc
          (fun hlt => by
            obtain ⟨e1, e2, e3⟩ := hE hlt
            have : ¬ (E + 2 * H ≥ W) := fun hge => (hd hge) (hyne.mpr (by omega))
            omega) p hp
        exact ⟨j', c', h1, h2, by omega, by omega, h5⟩

private theorem exactLoop_flat (W : Int) (f : Bool) (xi yi ey : Int) (n : Nat) (E x y : Int) (hE : E < W) :
    ∀ p ∈ lineLoop (exactErr 1 W) f xi yi ey n E x y, mnr f p = y := by
  induction n generalizing x with
  | zero => intro p hp; simp [lineLoop] at hp
  | succ n ih =>
    intro p hp
    have hadv : ∀ t, (exactErr 1 W).adv t = t := by intro t; simp only [exactErr, if_true]; omega
    have hdec : ∀ t, (exactErr 1 W).dec t = decide (t ≥ W) := by intro t; simp only [exactErr]
    have hn : ¬ (E ≥ W) := by omega
    simp only [lineLoop, List.mem_cons, hadv, hdec, hn, decide_false, Bool.false_and, Bool.false_eq_true, if_false] at hp
    rcases hp with hp | hp
    · subst hp; exact mnr_emit f x y
    · exact ih (x + xi) p hp

private theorem allPairs_concat (P : Pt → Pt → Bool) (l : List Pt) (e : Pt) (hl : allPairs P l = true)
    (hlast : ∀ z, l.getLast? = some z → P z e = true) : allPairs P (l ++ [e]) = true := by
  induction l with
  | nil => rfl
  | cons a t ih =>
    cases t with
    | nil => simp only [List.cons_append, List.nil_append, allPairs, Bool.and_true]; exact hlast a rfl
    | cons b t' =>
      simp only [List.cons_append, allPairs, Bool.and_eq_true] at hl ⊢
      refine ⟨hl.1, ih hl.2 ?_⟩
      intro z hz; apply hlast; simpa using hz

/-- In exact arithmetic the last step (onto the end point) is 8-connected too: the whole line is 8-connected.
    (For the double error term of the real code this step is decided by the Spec on the real output.) -/
theorem C20_line_exact_connected (s e : Pt) : specConn (lineExact s e) = true := by
  unfold specConn lineExact
  by_cases hse : s = e
  · subst hse; simp [lineWith, allPairs]
  · rw [lineWith_ne exactErr (0 : Int) s e hse]
    have hd := dirs s e
    obtain ⟨hn1, hn2, hn3⟩ := nIter_facts s e
    have hn3 := hn3 hse
    apply allPairs_concat
    · apply lineLoop_conn <;> unfold iabs <;> omega
    · intro z hz
      have hzmem := List.mem_of_getLast? hz
      have hm := lineLoop_maj (exactErr (iabs (mnr (needsFlip s e) e - mnr (needsFlip s e) s) + 1) (iabs (maj (needsFlip s e) e - maj (needsFlip s e) s) + 1))
        (needsFlip s e) (majDir s e) (mnrDir s e) (mnr (needsFlip s e) e) (nIter s e) 0 (maj (needsFlip s e) s) (mnr (needsFlip s e) s)
      have hzm : maj (needsFlip s e) z = maj (needsFlip s e) s + (((nIter s e - 1 : Nat) : Int)) * majDir s e := by
        have h2 := congrArg List.getLast? hm
        rw [List.getLast?_map, hz, List.getLast?_map, List.getLast?_range] at h2
        have : ¬ (nIter s e = 0) := by omega
        simp only [this, if_false, Option.map_some, Option.some.injEq] at h2
        exact h2
      have hcast : (((nIter s e - 1 : Nat)) : Int) = (nIter s e : Int) - 1 := by omega
      rw [hcast] at hzm
      have he1 : maj (needsFlip s e) e = maj (needsFlip s e) s + (nIter s e : Int) * majDir s e := by
        rw [hn1]; unfold majDir iabs; split <;> omega
      have he2 : mnr (needsFlip s e) e = mnr (needsFlip s e) s + mnrDir s e * iabs (mnr (needsFlip s e) e - mnr (needsFlip s e) s) := by
        unfold mnrDir iabs; split <;> omega
      have hH0 : 0 ≤ iabs (mnr (needsFlip s e) e - mnr (needsFlip s e) s) := by unfold iabs; omega
      by_cases hH : iabs (mnr (needsFlip s e) e - mnr (needsFlip s e) s) = 0
      · rw [hH] at hzmem
        have hflat := exactLoop_flat _ (needsFlip s e) (majDir s e) (mnrDir s e) _ (nIter s e) 0 _ (mnr (needsFlip s e) s)
          (by unfold iabs at *; omega) z hzmem
        rw [hH] at he2
        unfold conn8 iabs
        rcases hd.1 with h1 | h1 <;> rw [h1] at hzm he1 <;>
          (cases hf : needsFlip s e <;> simp only [hf, maj, mnr, Bool.false_eq_true, if_false, if_true] at hzm he1 he2 hflat <;>
            simp only [Bool.and_eq_true, decide_eq_true_eq] <;> omega)
      · obtain ⟨j', c', h1, h2, h3, h4, h5, h6, h7⟩ := exactLoop_inv (iabs (mnr (needsFlip s e) e - mnr (needsFlip s e) s) + 1)
          (iabs (maj (needsFlip s e) e - maj (needsFlip s e) s) + 1) (by unfold iabs at *; omega) (by omega)
          (needsFlip s e) (majDir s e) (mnrDir s e) (maj (needsFlip s e) s) (mnr (needsFlip s e) s) (mnr (needsFlip s e) e)
          hd.2 (by simp only [add_sub_cancel_right]; exact he2) (nIter s e) 0 _ _ 0 0 0 0
          (by ring) (by ring) (by ring) (by ring) (le_refl _) (by omega) (fun _ => by omega) z hzmem
        have hj : j' = (nIter s e : Int) - 1 := by
          rcases hd.1 with hx | hx <;> rw [hx] at hzm h1 <;> omega
        subst hj
        rw [← hn1] at h7
        generalize iabs (mnr (needsFlip s e) e - mnr (needsFlip s e) s) = HH at *
        generalize (nIter s e : Int) = NN at *
        -- c' ∈ {HH-1, HH}  (H = HH+1, W = NN+1, j = NN-1)
        have hc0 : HH - 1 ≤ c' := by
          by_contra hcon
          have hlt : c' < HH + 1 - 1 := by omega
          obtain ⟨b1, b2⟩ := h7 hlt
          have : (NN + 1) * c' ≤ (NN + 1) * (HH - 2) := mul_le_mul_of_nonneg_left (by omega) (by omega)
          nlinarith
        unfold conn8 iabs
        rcases hd.1 with hx | hx <;> rcases hd.2 with hy | hy <;> rw [hx] at hzm he1 <;> rw [hy] at h2 he2 <;>
          (cases hf : needsFlip s e <;> simp only [hf, maj, mnr, Bool.false_eq_true, if_false, if_true] at hzm he1 he2 h2 <;>
            simp only [Bool.and_eq_true, decide_eq_true_eq] <;> omega)

/-! ## circles -/

/-- every octant point is written 8 times: 8·(number of octant points) points in all -/
theorem C20_circle_count (c : Pt) (oct : List Pt) : (circleFrom c oct).length = 8 * oct.length := by
  unfold circleFrom
  induction oct with
  | nil => rfl
  | cons p t ih => simp only [List.flatMap_cons, List.length_append, ih, List.length_cons]; simp [mirror8]; omega

private theorem midLoop_length (r2 : Int) (k : Nat) (x y : Int) : (midLoop r2 k x y).length = k := by
  induction k generalizing x y with
  | zero => rfl
  | succ k ih => simp [midLoop, ih]

/-- midpoint circle: exactly 8·n = point_count() points when n = point_count()/8 ≥ 1 -/
theorem C20_midpoint_count (c : Pt) (r : Int) (n : Nat) (hn : 1 ≤ n) : (midCircleWith c r n).length = 8 * n := by
  unfold midCircleWith midOctant
  rw [C20_circle_count]; simp [midLoop_length]; omega

example : (midCircleWith (3, 4) 5 5).length = 8 * 5 := by decide

private theorem mem_mirror8 (c p q : Pt) : q ∈ mirror8 c p ↔
    (q.1 - c.1 = p.1 ∨ q.1 - c.1 = -p.1) ∧ (q.2 - c.2 = p.2 ∨ q.2 - c.2 = -p.2) ∨
    (q.1 - c.1 = p.2 ∨ q.1 - c.1 = -p.2) ∧ (q.2 - c.2 = p.1 ∨ q.2 - c.2 = -p.1) := by
  obtain ⟨q1, q2⟩ := q
  simp only [mirror8, List.mem_cons, Prod.mk.injEq, List.mem_nil_iff, or_false]
  omega

/-- the output is closed under the 8 reflections (x ↦ −x, y ↦ −y, x ↔ y about the centre),
    for any list of octant points (both circle rasterizers) -/
theorem C20_circle_sym (c : Pt) (oct : List Pt) : specSym8 c (circleFrom c oct) = true := by
  unfold specSym8 circleFrom
  rw [List.all_eq_true]
  intro p hp
  rw [List.all_eq_true]
  intro q hq
  rw [List.contains_iff_mem]
  rw [List.mem_flatMap] at hp ⊢
  obtain ⟨o, ho, hpo⟩ := hp
  refine ⟨o, ho, ?_⟩
  unfold reflections at hq
  rw [mem_mirror8] at hq hpo ⊢
  simp only at hq
  omega


/-- what the generated loop body computes -/
private theorem mid_body_eq (x y r2 : Int) :
    mid_body x y r2 = if x * x + y * y - y - r2 > 0 then y - 1 else y := by
  unfold mid_body
  by_cases h : x * x + y * y - y - r2 > 0 <;> (try simp only [h, if_true, if_false]) <;> (try (first | rfl | omega))

private theorem midLoop_inv (r : Int) (hr : 0 ≤ r) (k : Nat) (x y : Int)
    (hx : 1 ≤ x) (hy0 : 0 ≤ y) (hyr : y ≤ r)
    (hJ1 : (x - 1) * (x - 1) + y * y - y - r * r ≤ 0) (hJ2 : 0 ≤ (x - 1) * (x - 1) + y * y + y - r * r)
    (hb : ∀ x' : Int, x ≤ x' → x' < x + k → 2 * x' * x' - 2 * x' + 1 ≤ r * r) :
    ∀ p ∈ midLoop (r * r) k x y, OnCurve r p := by
  induction k generalizing x y with
  | zero => intro p h; simp [midLoop] at h
  | succ k ih =>
    have hbx := hb x (Int.le_refl x) (by omega)
    have hxr : x ≤ r := by nlinarith
    -- the new ordinate and its invariant
    have key : OnCurve r (x, mid_body x y (r * r)) ∧ 0 ≤ mid_body x y (r * r) ∧ mid_body x y (r * r) ≤ r := by
      rw [mid_body_eq]
      by_cases hm : x * x + y * y - y - r * r > 0
      · simp only [hm, if_true]
        have hy1 : 1 ≤ y := by
          by_contra hc
          have : y = 0 := by omega
          subst this
          nlinarith
        refine ⟨⟨by omega, by omega, by omega, hxr, ?_, ?_⟩, by omega, by omega⟩
        · show x * x + (y - 1) * (y - 1) - (y - 1) - r * r ≤ 0
          by_cases hxy : x ≤ y - 1
          · nlinarith
          · have h1 : 0 ≤ (x - y) * (x + y - 2) := mul_nonneg (by omega) (by omega)
            nlinarith
        · show 0 ≤ x * x + (y - 1) * (y - 1) + (y - 1) - r * r
          nlinarith
      · simp only [hm, if_false]
        refine ⟨⟨by omega, hy0, hyr, hxr, ?_, ?_⟩, hy0, hyr⟩
        · show x * x + y * y - y - r * r ≤ 0
          omega
        · show 0 ≤ x * x + y * y + y - r * r
          nlinarith
    intro p hp
    simp only [midLoop, List.mem_cons] at hp
    rcases hp with hp | hp
    · subst hp; exact key.1
    · obtain ⟨⟨_, _, _, _, k1, k2⟩, k3, k4⟩ := key
      refine ih (x + 1) (mid_body x y (r * r)) (by omega) k3 k4 ?_ ?_ ?_ p hp
      · simpa using k1
      · simpa using k2
      · intro x' h1 h2; exact hb x' (by omega) (by omega)

/-- Midpoint circle, first octant: under the integer bound on the iteration count n = point_count()/8
    (checked for every radius of a run on the real point_count()), every emitted (x, y) satisfies
    |x² + y² − r²| ≤ y ≤ r, with 0 ≤ x ≤ r and 0 ≤ y ≤ r -/
theorem C20_circle_on_curve (r : Int) (hr : 0 ≤ r) (n : Nat)
    (hn : n ≤ 1 ∨ 2 * ((n : Int) - 1) * ((n : Int) - 1) - 2 * ((n : Int) - 1) + 1 ≤ r * r) :
    ∀ p ∈ midOctant r n, OnCurve r p := by
  intro p hp
  simp only [midOctant, List.mem_cons] at hp
  rcases hp with hp | hp
  · subst hp; refine ⟨by simp, hr, by simp, hr, ?_, ?_⟩ <;> simp <;> omega
  · refine midLoop_inv r hr (n - 1) 1 r (by omega) hr (by omega) (by simp; omega) (by simp; omega) ?_ p hp
    intro x' h1 h2
    rcases hn with hn | hn
    · omega
    · have : x' ≤ (n : Int) - 1 := by omega
      have h3 : 0 ≤ ((n : Int) - 1 - x') * ((n : Int) - 1 + x' - 1) := mul_nonneg (by omega) (by omega)
      nlinarith

example : (5 : Nat) ≤ 1 ∨ 2 * (((5 : Nat) : Int) - 1) * (((5 : Nat) : Int) - 1) - 2 * (((5 : Nat) : Int) - 1) + 1 ≤ 5 * 5 := by decide


private theorem sq_cases {u a : Int} (h : u = a ∨ u = -a) : u * u = a * a := by
  rcases h with h | h <;> subst h <;> ring

/-- every mirrored copy of an on-curve octant point is inside the circle's bounding box and within
    one pixel of the circle:  (r−1)² ≤ |q−c|² ≤ (r+1)² -/
private theorem mirror_ok (c : Pt) (r : Int) (p q : Pt) (hp : OnCurve r p) (hq : q ∈ mirror8 c p) :
    inBox (c.1 - r, c.2 - r) (c.1 + r, c.2 + r) q = true ∧ nearCircle c r q = true := by
  obtain ⟨h1, h2, h3, h4, h5, h6⟩ := hp
  rw [mem_mirror8] at hq
  constructor
  · simp only [inBox, Bool.and_eq_true, decide_eq_true_eq]; omega
  · simp only [nearCircle, Bool.and_eq_true, Bool.or_eq_true, decide_eq_true_eq]
    have hd : (q.1 - c.1) * (q.1 - c.1) + (q.2 - c.2) * (q.2 - c.2) = p.1 * p.1 + p.2 * p.2 := by
      rcases hq with ⟨ha, hb⟩ | ⟨ha, hb⟩
      · rw [sq_cases ha, sq_cases hb]
      · rw [sq_cases ha, sq_cases hb]; ring
    rw [hd]
    constructor
    · nlinarith
    · by_cases hr : r ≤ 0
      · exact Or.inl hr
      · right; nlinarith

/-- midpoint circle: all 8·n points inside the bounding box [c−r, c+r]² -/
theorem C20_circle_bbox (c : Pt) (r : Int) (hr : 0 ≤ r) (n : Nat)
    (hn : n ≤ 1 ∨ 2 * ((n : Int) - 1) * ((n : Int) - 1) - 2 * ((n : Int) - 1) + 1 ≤ r * r) :
    specCircleBBox c r (midCircleWith c r n) = true := by
  unfold specCircleBBox midCircleWith circleFrom
  rw [List.all_eq_true]
  intro q hq
  rw [List.mem_flatMap] at hq
  obtain ⟨p, hp, hqp⟩ := hq
  exact (mirror_ok c r p q (C20_circle_on_curve r hr n hn p hp) hqp).1

/-- midpoint circle: all 8·n points within one pixel of the ideal circle -/
theorem C20_circle_within_one_pixel (c : Pt) (r : Int) (hr : 0 ≤ r) (n : Nat)
    (hn : n ≤ 1 ∨ 2 * ((n : Int) - 1) * ((n : Int) - 1) - 2 * ((n : Int) - 1) + 1 ≤ r * r) :
    specCircleNear c r (midCircleWith c r n) = true := by
  unfold specCircleNear midCircleWith circleFrom
  rw [List.all_eq_true]
  intro q hq
  rw [List.mem_flatMap] at hq
  obtain ⟨p, hp, hqp⟩ := hq
  exact (mirror_ok c r p q (C20_circle_on_curve r hr n hn p hp) hqp).2

private theorem midLoop_last (r2 : Int) (k : Nat) (x y : Int) :
    ∀ p, (midLoop r2 k x y).getLast? = some p → p.1 = x + (k : Int) - 1 := by
  induction k generalizing x y with
  | zero => intro p h; simp [midLoop] at h
  | succ k ih =>
    intro p h
    cases k with
    | zero => simp only [midLoop, List.getLast?_singleton, Option.some.injEq] at h; subst h; simp
    | succ m =>
      have h2 : (midLoop r2 (m + 1) (x + 1) (mid_body x y r2)).getLast? = some p := by
        rw [midLoop] at h
        rw [midLoop] at h ⊢
        simpa [List.getLast?_cons_cons] using h
      have := ih (x + 1) (mid_body x y r2) p h2
      rw [this]; push_cast; ring

/-- The octant arc reaches the diagonal: when n = point_count()/8 is the nearest integer to r·cos 45° plus one
    (both integer bounds are checked for every radius of a run on the real point_count()), the last octant point (x, y)
    has |x − y| ≤ 1, so it is 8-adjacent to its mirror image (y, x): together with the unit steps of the loop the eight
    mirrored arcs close up into one ring (the Spec clause `closed` the judge evaluates on the real output). -/
theorem C20_circle_reaches_diagonal (r : Int) (hr : 0 ≤ r) (n : Nat) (hn1 : 1 ≤ n)
    (hup : n ≤ 1 ∨ 2 * ((n : Int) - 1) * ((n : Int) - 1) - 2 * ((n : Int) - 1) + 1 ≤ r * r)
    (hlow : 2 * (r * r) ≤ (2 * (n : Int) - 1) * (2 * (n : Int) - 1)) :
    ∀ p, (midOctant r n).getLast? = some p → p.1 = (n : Int) - 1 ∧ p.2 - p.1 ≤ 1 ∧ p.1 - p.2 ≤ 1 := by
  intro p hp
  have hmem := List.mem_of_getLast? hp
  obtain ⟨h1, h2, h3, h4, h5, h6⟩ := C20_circle_on_curve r hr n hup p hmem
  have hx : p.1 = (n : Int) - 1 := by
    unfold midOctant at hp
    by_cases hk : n - 1 = 0
    · rw [hk] at hp; simp only [midLoop, List.getLast?_singleton, Option.some.injEq] at hp; subst hp; simp; omega
    · obtain ⟨m, hm⟩ : ∃ m, n - 1 = m + 1 := ⟨n - 2, by omega⟩
      have hl : (midLoop (r * r) (n - 1) 1 r).getLast? = some p := by
        rw [hm] at hp ⊢
        rw [midLoop] at hp ⊢
        simpa [List.getLast?_cons_cons] using hp
      have := midLoop_last (r * r) (n - 1) 1 r p hl
      rw [this]; omega
  refine ⟨hx, ?_, ?_⟩
  · -- y ≤ x + 1, from the lower bound on n and x² + y² − y ≤ r²
    by_contra hc
    have hy : p.1 + 2 ≤ p.2 := by omega
    have e : (2 * (n : Int) - 1) = 2 * p.1 + 1 := by omega
    rw [e] at hlow
    nlinarith [mul_self_nonneg (p.2 - p.1 - 2), mul_nonneg h1 (by omega : (0 : Int) ≤ p.2 - p.1 - 2)]
  · -- x ≤ y + 1, from the upper bound on n and 0 ≤ x² + y² + y − r²
    by_contra hc
    have hy : p.2 + 2 ≤ p.1 := by omega
    rcases hup with hu | hu
    · omega
    · have e : ((n : Int) - 1) = p.1 := by omega
      rw [e] at hu
      nlinarith [mul_self_nonneg (p.1 - p.2 - 2), mul_nonneg h2 (by omega : (0 : Int) ≤ p.1 - p.2 - 2)]

example : 2 * ((5 : Int) * 5) ≤ (2 * ((5 : Nat) : Int) - 1) * (2 * ((5 : Nat) : Int) - 1) := by decide

/-- the hypothesis on n is needed: one iteration too many leaves the circle (r = 1, n = 3 emits (2,0) mirrored) -/
theorem C20_circle_bound_needed_witness : specCircleBBox (0, 0) 1 (midCircleWith (0, 0) 1 3) = false := by decide


/-! ## midpoint_ellipse_rasterizer -/

/-- close a polynomial identity (possibly after beta/eta/projection reduction) -/
local macro "ringc" : tactic => `(tactic| first | rfl | ring1 | (simp only; ring1))

/-- what the generated body of `while (d2 < 0)` computes -/
private theorem step1_eq (c : EC) (s : ES) : step1 c s =
    if s.d1 < 0 then ⟨s.x, s.y + 1, s.t8, s.t9 + c.t3, s.d1 + (s.t9 + c.t3 + c.t2), s.d2 + (s.t9 + c.t3)⟩
    else ⟨s.x - 1, s.y + 1, s.t8 - c.t6, s.t9 + c.t3, s.d1 + (s.t9 + c.t3 + c.t2 - (s.t8 - c.t6)),
          s.d2 + (c.t5 + (s.t9 + c.t3) - (s.t8 - c.t6))⟩ := by
  unfold step1 ell_body1 ES.ofTuple
  by_cases h : s.d1 < 0 <;> simp only [h, if_true, if_false, ES.mk.injEq] <;> (try (and_intros <;> (first | trivial | omega)))

/-- what the generated body of `while (x >= 0)` computes -/
private theorem step2_eq (c : EC) (s : ES) : step2 c s =
    if s.d2 < 0 then ⟨s.x - 1, s.y + 1, s.t8 - c.t6, s.t9 + c.t3, s.d1, s.d2 + (c.t5 + (s.t9 + c.t3) - (s.t8 - c.t6))⟩
    else ⟨s.x - 1, s.y, s.t8 - c.t6, s.t9, s.d1, s.d2 + (c.t5 - (s.t8 - c.t6))⟩ := by
  unfold step2 ell_body2 ES.ofTuple
  by_cases h : s.d2 < 0 <;> simp only [h, if_true, if_false, ES.mk.injEq] <;> (try (and_intros <;> (first | trivial | omega)))


private theorem consts_eq (a b : Int) (ha0 : 0 ≤ a) (hb0 : 0 ≤ b) (haw : a * a < 4294967296) (hbw : b * b < 4294967296) :
    ellConsts a b = ⟨2 * (a * a), 4 * (a * a), 2 * (b * b), 4 * (b * b)⟩ ∧
    ellInit a b = ⟨a, 0, 4 * (b * b) * a, 0, 2 * (a * a) - 2 * (b * b) * a + Int.tdiv (b * b) 2,
                   Int.tdiv (a * a) 2 - 4 * (b * b) * a + 2 * (b * b)⟩ := by
  have e1 : ell_t1 a = a * a := by unfold ell_t1; exact Int.emod_eq_of_lt (mul_nonneg ha0 ha0) haw
  have e4 : ell_t4 b = b * b := by unfold ell_t4; exact Int.emod_eq_of_lt (mul_nonneg hb0 hb0) hbw
  constructor
  · unfold ellConsts; rw [e1, e4]; dsimp only; congr 1 <;> ringc
  · unfold ellInit ell_t7 ell_d1 ell_d2; rw [e1, e4]; dsimp only; congr 1 <;> ringc

/-- the closed forms hold initially and are preserved by both loop bodies
    (semi-axes below 2^16 so that the unsigned products a·a, b·b do not wrap) -/
theorem C20_ellipse_closed_form (a b : Int) (ha0 : 0 ≤ a) (hb0 : 0 ≤ b) (haw : a * a < 4294967296) (hbw : b * b < 4294967296) :
    EllInv a b (ellInit a b) ∧
    (∀ s, EllInv a b s → EllInv a b (step1 (ellConsts a b) s)) ∧
    (∀ s, EllInv2 a b s → EllInv2 a b (step2 (ellConsts a b) s)) := by
  obtain ⟨hc, hi⟩ := consts_eq a b ha0 hb0 haw hbw
  refine ⟨?_, ?_, ?_⟩
  · rw [hi]; unfold EllInv EllInv2; refine ⟨⟨?_, ?_, ?_⟩, ?_⟩ <;> ringc
  · intro s ⟨⟨h9, h8, h2⟩, h1⟩
    rw [step1_eq, hc]
    by_cases h : s.d1 < 0 <;> simp only [h, if_true, if_false] <;> unfold EllInv EllInv2 <;>
      (refine ⟨⟨?_, ?_, ?_⟩, ?_⟩ <;> (first | assumption | (simp only [h9, h8, h2, h1]; ring1)))
  · intro s ⟨h9, h8, h2⟩
    rw [step2_eq, hc]
    by_cases h : s.d2 < 0 <;> simp only [h, if_true, if_false] <;> unfold EllInv2 <;>
      (refine ⟨?_, ?_, ?_⟩ <;> (first | assumption | (simp only [h9, h8, h2]; ring1)))

example : (3 : Int) * 3 < 4294967296 := by decide


example : Axes 30 20 := ⟨by decide, by decide, by decide, by decide⟩

private theorem tdiv2 (n : Int) (h : 0 ≤ n) : 0 ≤ Int.tdiv n 2 ∧ 2 * Int.tdiv n 2 ≤ n := by
  rw [Int.tdiv_eq_ediv_of_nonneg h]; omega

/-- state invariant at the head of `while (d2 < 0)` -/
private def L1 (a b : Int) (s : ES) : Prop :=
  EllInv a b s ∧ 0 ≤ s.y ∧ s.y ≤ b ∧ 0 ≤ s.x ∧ s.x ≤ a ∧ (s.d2 < 0 → 1 ≤ s.x)

/-- d2 < 0 means the point (x−1, y+½) is inside the ellipse: then y < b -/
private theorem d2_neg_y_lt (a b : Int) (hx : Axes a b) (s : ES) (hi : EllInv2 a b s) (hy : 0 ≤ s.y) (hd : s.d2 < 0) :
    s.y < b := by
  obtain ⟨_, _, h2⟩ := hi
  have hA := tdiv2 (a * a) (mul_nonneg (by linarith [hx.ha]) (by linarith [hx.ha]))
  have ha2 : 1 ≤ a * a := by nlinarith [hx.ha]
  have hsq : 0 ≤ (b * b) * ((s.x - 1) * (s.x - 1)) := mul_nonneg (mul_self_nonneg b) (mul_self_nonneg _)
  by_contra hc
  have hyb : b ≤ s.y := by omega
  have h3 : b * b ≤ s.y * s.y := by nlinarith [hx.hb]
  have h4 : (a * a) * (b * b) ≤ (a * a) * (s.y * s.y) := mul_le_mul_of_nonneg_left h3 (by linarith)
  have h5 : 0 ≤ (a * a) * s.y := mul_nonneg (by linarith) hy
  rw [h2] at hd
  linarith [hA.1]

private theorem L1_init (a b : Int) (hx : Axes a b) : L1 a b (ellInit a b) := by
  have hcf := (C20_ellipse_closed_form a b (by linarith [hx.ha]) (by linarith [hx.hb]) hx.haw hx.hbw).1
  obtain ⟨_, hi⟩ := consts_eq a b (by linarith [hx.ha]) (by linarith [hx.hb]) hx.haw hx.hbw
  refine ⟨hcf, ?_, ?_, ?_, ?_, ?_⟩ <;> rw [hi] <;> simp only <;> (try intro _) <;> linarith [hx.ha, hx.hb]

private theorem L1_step (a b : Int) (hx : Axes a b) (s : ES) (h : L1 a b s) (hd : s.d2 < 0) :
    L1 a b (step1 (ellConsts a b) s) ∧ 1 ≤ s.x ∧ s.y < b := by
  obtain ⟨hi, hy0, hyb, hx0, hxa, hx1⟩ := h
  have hylt := d2_neg_y_lt a b hx s hi.1 hy0 hd
  have hxpos := hx1 hd
  have hcf := (C20_ellipse_closed_form a b (by linarith [hx.ha]) (by linarith [hx.hb]) hx.haw hx.hbw).2.1 s hi
  obtain ⟨hc, _⟩ := consts_eq a b (by linarith [hx.ha]) (by linarith [hx.hb]) hx.haw hx.hbw
  refine ⟨⟨hcf, ?_⟩, hxpos, hylt⟩
  have hi' := hcf
  rw [step1_eq, hc] at hi' ⊢
  by_cases hd1 : s.d1 < 0
  · simp only [hd1, if_true] at hi' ⊢
    exact ⟨by omega, by omega, hx0, hxa, fun _ => hxpos⟩
  · simp only [hd1, if_false] at hi' ⊢
    refine ⟨by omega, by omega, by omega, by omega, ?_⟩
    intro hneg
    -- if x was 1 the new d2 exceeds the old d1 ≥ 0
    by_contra hc1
    have hx1' : s.x = 1 := by omega
    obtain ⟨⟨_, _, h2'⟩, _⟩ := hi'
    obtain ⟨_, h1⟩ := hi
    simp only at h2'
    have hA := tdiv2 (a * a) (mul_nonneg (by linarith [hx.ha]) (by linarith [hx.ha]))
    have hB := tdiv2 (b * b) (mul_nonneg (by linarith [hx.hb]) (by linarith [hx.hb]))
    have hb2 : 1 ≤ b * b := by nlinarith [hx.hb]
    have h5 : 0 ≤ (a * a) * (s.y + 1) := mul_nonneg (mul_self_nonneg a) (by omega)
    rw [hx1'] at h1 h2'
    rw [h2'] at hneg
    have hd1' : 0 ≤ s.d1 := by omega
    rw [h1] at hd1'
    nlinarith [hA.1, hB.2]


private theorem loop1_all (a b : Int) (hx : Axes a b) (f : Nat) (s : ES) (h : L1 a b s) :
    (∀ p ∈ (ellLoop1 (ellConsts a b) f s).1, 1 ≤ p.1 ∧ p.1 ≤ a ∧ 0 ≤ p.2 ∧ p.2 < b) ∧
    L1 a b (ellLoop1 (ellConsts a b) f s).2 ∧
    (b - s.y < (f : Int) → 0 ≤ (ellLoop1 (ellConsts a b) f s).2.d2) := by
  induction f generalizing s with
  | zero =>
    refine ⟨by intro p hp; simp [ellLoop1] at hp, h, ?_⟩
    intro hlt
    simp only [ellLoop1]
    by_contra hc
    have := d2_neg_y_lt a b hx s h.1.1 h.2.1 (by omega)
    omega
  | succ f ih =>
    by_cases hd : s.d2 < 0
    · obtain ⟨hs, hx1, hyb⟩ := L1_step a b hx s h hd
      obtain ⟨i1, i2, i3⟩ := ih (step1 (ellConsts a b) s) hs
      have hy' : (step1 (ellConsts a b) s).y = s.y + 1 := by rw [step1_eq]; split <;> rfl
      simp only [ellLoop1, hd, if_true]
      refine ⟨?_, i2, ?_⟩
      · intro p hp
        simp only [List.mem_cons] at hp
        rcases hp with hp | hp
        · subst hp; exact ⟨hx1, h.2.2.2.2.1, h.2.1, hyb⟩
        · exact i1 p hp
      · intro hlt; apply i3; rw [hy']; omega
    · simp only [ellLoop1, hd, if_false]
      exact ⟨by intro p hp; simp at hp, h, fun _ => by omega⟩

/-- state invariant at the head of `while (x >= 0)` -/
private def L2 (a b : Int) (s : ES) : Prop := EllInv2 a b s ∧ 0 ≤ s.y ∧ s.y ≤ b ∧ s.x ≤ a

private theorem loop2_all (a b : Int) (hx : Axes a b) (f : Nat) (s : ES) (h : L2 a b s) :
    (∀ p ∈ (ellLoop2 (ellConsts a b) f s).1, 0 ≤ p.1 ∧ p.1 ≤ a ∧ 0 ≤ p.2 ∧ p.2 ≤ b) ∧
    (s.x + 1 ≤ (f : Int) → (ellLoop2 (ellConsts a b) f s).2.x < 0) := by
  induction f generalizing s with
  | zero => exact ⟨by intro p hp; simp [ellLoop2] at hp, by intro hlt; simp only [ellLoop2]; omega⟩
  | succ f ih =>
    by_cases hd : s.x ≥ 0
    · obtain ⟨hi, hy0, hyb, hxa⟩ := h
      have hcf := (C20_ellipse_closed_form a b (by linarith [hx.ha]) (by linarith [hx.hb]) hx.haw hx.hbw).2.2 s hi
      have hs : L2 a b (step2 (ellConsts a b) s) ∧ (step2 (ellConsts a b) s).x = s.x - 1 := by
        refine ⟨⟨hcf, ?_⟩, ?_⟩
        · rw [step2_eq]
          by_cases hd2 : s.d2 < 0
          · have := d2_neg_y_lt a b hx s hi hy0 hd2
            simp only [hd2, if_true]; omega
          · simp only [hd2, if_false]; omega
        · rw [step2_eq]; split <;> rfl
      obtain ⟨i1, i3⟩ := ih (step2 (ellConsts a b) s) hs.1
      simp only [ellLoop2, hd, if_true]
      refine ⟨?_, ?_⟩
      · intro p hp
        simp only [List.mem_cons] at hp
        rcases hp with hp | hp
        · subst hp; exact ⟨hd, hxa, hy0, hyb⟩
        · exact i1 p hp
      · intro hlt; apply i3; rw [hs.2]; omega
    · simp only [ellLoop2, hd, if_false]
      exact ⟨by intro p hp; simp at hp, fun _ => by omega⟩

/-- obtain_trajectory stays in the first-quadrant bounding box 0 ≤ x ≤ a, 0 ≤ y ≤ b (whatever the fuel) -/
theorem C20_ellipse_bbox (a b : Int) (hx : Axes a b) (f1 f2 : Nat) :
    specEllBBox a b (ellTrajectoryFuel a b f1 f2).1 = true := by
  unfold specEllBBox ellTrajectoryFuel
  rw [List.all_eq_true]
  intro p hp
  simp only [List.mem_append] at hp
  obtain ⟨i1, i2, _⟩ := loop1_all a b hx f1 (ellInit a b) (L1_init a b hx)
  have hl2 : L2 a b (ellLoop1 (ellConsts a b) f1 (ellInit a b)).2 := ⟨i2.1.1, i2.2.1, i2.2.2.1, i2.2.2.2.2.1⟩
  simp only [inBox, Bool.and_eq_true, decide_eq_true_eq]
  rcases hp with hp | hp
  · have := i1 p hp; omega
  · have := (loop2_all a b hx f2 _ hl2).1 p hp; omega

/-- both loops of obtain_trajectory terminate: b+1 resp. a+2 iterations always suffice
    (the model's fuel is never exhausted, so `ellTrajectory` is the whole trajectory) -/
theorem C20_ellipse_terminates (a b : Int) (hx : Axes a b) : (ellTrajectory a b).2 = false := by
  unfold ellTrajectory ellTrajectoryFuel
  obtain ⟨_, i2, i3⟩ := loop1_all a b hx (b.toNat + 1) (ellInit a b) (L1_init a b hx)
  have hl2 : L2 a b (ellLoop1 (ellConsts a b) (b.toNat + 1) (ellInit a b)).2 := ⟨i2.1.1, i2.2.1, i2.2.2.1, i2.2.2.2.2.1⟩
  have h1 : 0 ≤ (ellLoop1 (ellConsts a b) (b.toNat + 1) (ellInit a b)).2.d2 := by
    apply i3
    have : (ellInit a b).y = 0 := by
      rw [(consts_eq a b (by linarith [hx.ha]) (by linarith [hx.hb]) hx.haw hx.hbw).2]
    have := hx.hb
    omega
  have h2 := (loop2_all a b hx (a.toNat + 2) _ hl2).2 (by have := hl2.2.2.2; have := hx.ha; omega)
  simp only [Bool.or_eq_false_iff, decide_eq_false_iff_not]
  omega


private theorem mem_drawPoint (cx cy W H : Int) (p q : Pt) (hq : q ∈ drawPoint cx cy W H p) :
    (q.1 = cx + p.1 ∧ q.1 < W ∨ q.1 = cx - p.1 ∧ 0 ≤ q.1 ∧ q.1 < W) ∧
    (q.2 = cy + p.2 ∧ q.2 < H ∨ q.2 = cy - p.2 ∧ 0 ≤ q.2 ∧ q.2 < H) := by
  unfold drawPoint at hq
  simp only [List.mem_append, Bool.and_eq_true, decide_eq_true_eq] at hq
  obtain ⟨q1, q2⟩ := q
  rcases hq with ((hq | hq) | hq) | hq <;> split at hq <;> simp only [List.mem_cons, List.mem_nil_iff, or_false, Prod.mk.injEq] at hq <;>
    (first | (exfalso; exact hq) | (simp only; omega))

/-! ### the quadrant arc is 8-connected, starts on the x axis and ends on the y axis (so its four mirror images close up) -/

private theorem step_conn (c : EC) (s : ES) :
    conn8 (s.x, s.y) ((step1 c s).x, (step1 c s).y) = true ∧ conn8 (s.x, s.y) ((step2 c s).x, (step2 c s).y) = true := by
  rw [step1_eq, step2_eq]
  unfold conn8 iabs
  constructor <;> split <;> simp only [Bool.and_eq_true, decide_eq_true_eq] <;> omega

private theorem allPairs_cons (p : Pt) (l : List Pt) (hl : allPairs conn8 l = true)
    (hh : ∀ q, l.head? = some q → conn8 p q = true) : allPairs conn8 (p :: l) = true := by
  cases l with
  | nil => rfl
  | cons q t => simp only [allPairs, Bool.and_eq_true]; exact ⟨hh q rfl, hl⟩

private theorem loop2_conn (c : EC) (f : Nat) (s : ES) :
    allPairs conn8 (ellLoop2 c f s).1 = true ∧ ∀ q, (ellLoop2 c f s).1.head? = some q → q = (s.x, s.y) := by
  induction f generalizing s with
  | zero => exact ⟨rfl, by intro q hq; simp [ellLoop2] at hq⟩
  | succ f ih =>
    by_cases hd : s.x ≥ 0
    · simp only [ellLoop2, hd, if_true]
      obtain ⟨i1, i2⟩ := ih (step2 c s)
      refine ⟨allPairs_cons _ _ i1 ?_, by intro q hq; simpa using hq.symm⟩
      intro q hq; rw [i2 q hq]; exact (step_conn c s).2
    · simp only [ellLoop2, hd, if_false]
      exact ⟨rfl, by intro q hq; simp at hq⟩

private theorem loop1_conn (c : EC) (f : Nat) (s : ES) (rest : List Pt) (hr : allPairs conn8 rest = true)
    (hh : ∀ q, rest.head? = some q → q = ((ellLoop1 c f s).2.x, (ellLoop1 c f s).2.y)) :
    allPairs conn8 ((ellLoop1 c f s).1 ++ rest) = true ∧
    ∀ q, ((ellLoop1 c f s).1 ++ rest).head? = some q → q = (s.x, s.y) := by
  induction f generalizing s with
  | zero => simp only [ellLoop1, List.nil_append] at hh ⊢; exact ⟨hr, hh⟩
  | succ f ih =>
    by_cases hd : s.d2 < 0
    · simp only [ellLoop1, hd, if_true, List.cons_append] at hh ⊢
      obtain ⟨i1, i2⟩ := ih (step1 c s) hh
      refine ⟨allPairs_cons _ _ i1 ?_, by intro q hq; simpa using hq.symm⟩
      intro q hq; rw [i2 q hq]; exact (step_conn c s).1
    · simp only [ellLoop1, hd, if_false, List.nil_append] at hh ⊢
      exact ⟨hr, hh⟩

/-- consecutive trajectory points are 8-connected (every a, b, every fuel: no hypothesis needed) -/
theorem C20_ellipse_connected (a b : Int) (f1 f2 : Nat) : specConn (ellTrajectoryFuel a b f1 f2).1 = true := by
  unfold specConn ellTrajectoryFuel
  have h2 := loop2_conn (ellConsts a b) f2 (ellLoop1 (ellConsts a b) f1 (ellInit a b)).2
  exact (loop1_conn (ellConsts a b) f1 (ellInit a b) _ h2.1 h2.2).1

private theorem loop2_last (c : EC) (f : Nat) (s : ES) (hx : 0 ≤ s.x) (hf : s.x + 1 ≤ (f : Int)) :
    ∃ q, (ellLoop2 c f s).1.getLast? = some q ∧ q.1 = 0 := by
  induction f generalizing s with
  | zero => omega
  | succ f ih =>
    have hd : s.x ≥ 0 := hx
    have hx' : (step2 c s).x = s.x - 1 := by rw [step2_eq]; split <;> rfl
    simp only [ellLoop2, hd, if_true]
    by_cases h0 : s.x = 0
    · have hstop : (ellLoop2 c f (step2 c s)).1 = [] := by
        cases f with
        | zero => rfl
        | succ f' => simp only [ellLoop2]; rw [hx', h0]; simp
      rw [hstop]; exact ⟨(s.x, s.y), rfl, h0⟩
    · obtain ⟨q, hq, hq0⟩ := ih (step2 c s) (by rw [hx']; omega) (by rw [hx']; omega)
      refine ⟨q, ?_, hq0⟩
      cases hl : (ellLoop2 c f (step2 c s)).1 with
      | nil => rw [hl] at hq; simp at hq
      | cons r t => rw [hl] at hq; simpa [List.getLast?_cons_cons] using hq

/-- the trajectory starts at (a, 0), on the x axis, and its last point lies on the y axis -/
theorem C20_ellipse_ends (a b : Int) (hx : Axes a b) :
    (ellTrajectory a b).1.head? = some (a, 0) ∧ ∃ q, (ellTrajectory a b).1.getLast? = some q ∧ q.1 = 0 := by
  unfold ellTrajectory ellTrajectoryFuel
  dsimp only
  obtain ⟨_, i2, _⟩ := loop1_all a b hx (b.toNat + 1) (ellInit a b) (L1_init a b hx)
  have hxa : (ellLoop1 (ellConsts a b) (b.toNat + 1) (ellInit a b)).2.x ≤ a := i2.2.2.2.2.1
  have hx0 : 0 ≤ (ellLoop1 (ellConsts a b) (b.toNat + 1) (ellInit a b)).2.x := i2.2.2.2.1
  obtain ⟨q, hq, hq0⟩ := loop2_last (ellConsts a b) (a.toNat + 2) _ hx0 (by have := hx.ha; omega)
  have h2 := loop2_conn (ellConsts a b) (a.toNat + 2) (ellLoop1 (ellConsts a b) (b.toNat + 1) (ellInit a b)).2
  have h1 := (loop1_conn (ellConsts a b) (b.toNat + 1) (ellInit a b) _ h2.1 h2.2).2
  have hi : ((ellInit a b).x, (ellInit a b).y) = (a, 0) := by
    rw [(consts_eq a b (by linarith [hx.ha]) (by linarith [hx.hb]) hx.haw hx.hbw).2]
  constructor
  · cases hl : ((ellLoop1 (ellConsts a b) (b.toNat + 1) (ellInit a b)).1 ++
        (ellLoop2 (ellConsts a b) (a.toNat + 2) (ellLoop1 (ellConsts a b) (b.toNat + 1) (ellInit a b)).2).1) with
    | nil =>
      have : (ellLoop2 (ellConsts a b) (a.toNat + 2) (ellLoop1 (ellConsts a b) (b.toNat + 1) (ellInit a b)).2).1 = [] := by
        have := List.append_eq_nil_iff.mp hl; exact this.2
      rw [this] at hq; simp at hq
    | cons r t => rw [hl] at h1; rw [List.head?_cons, h1 r rfl, hi]
  · refine ⟨q, ?_, hq0⟩
    rw [List.getLast?_append, hq]; rfl

/-- the quadrant arc closes up with its mirror images (the Spec clause `closed` the judge evaluates) -/
theorem C20_ellipse_closed (a b : Int) (hx : Axes a b) : specEllClosed (ellTrajectory a b).1 = true := by
  obtain ⟨h1, q, h2, h3⟩ := C20_ellipse_ends a b hx
  have hc : specConn (ellTrajectory a b).1 = true := C20_ellipse_connected a b _ _
  unfold specEllClosed
  rw [hc, h1, h2]
  simp [h3]

example : (ellTrajectory 3 2).1 = [(3, 0), (3, 1), (2, 1), (1, 2), (0, 2)] := by decide

/-- draw_curve writes only inside the view, for every centre (including 0, which wraps in the unsigned
    decrement), every view size and every trajectory of first-quadrant points -/
theorem C20_ellipse_clipped (cx cy W H : Int) (traj : List Pt) (hq : ∀ p ∈ traj, 0 ≤ p.1 ∧ 0 ≤ p.2) :
    (drawCurve cx cy W H traj).all (inView W H) = true := by
  unfold drawCurve
  rw [List.all_eq_true]
  intro q hmem
  rw [List.mem_flatMap] at hmem
  obtain ⟨p, hp, hqp⟩ := hmem
  have h := mem_drawPoint _ _ W H p q hqp
  have hp0 := hq p hp
  have hc1 : 0 ≤ (cx - 1) % 4294967296 := Int.emod_nonneg _ (by decide)
  have hc2 : 0 ≤ (cy - 1) % 4294967296 := Int.emod_nonneg _ (by decide)
  simp only [inView, Bool.and_eq_true, decide_eq_true_eq]
  omega

/-- apply_rasterizer(view, ellipse, pixel) never writes outside the view -/
theorem C20_ellipse_apply_in_view (a b : Int) (hx : Axes a b) (cx cy W H : Int) :
    (drawCurve cx cy W H (ellTrajectory a b).1).all (inView W H) = true := by
  apply C20_ellipse_clipped
  intro p hp
  have h := C20_ellipse_bbox a b hx (b.toNat + 1) (a.toNat + 2)
  unfold specEllBBox at h
  rw [List.all_eq_true] at h
  have := h p hp
  simp only [inBox, Bool.and_eq_true, decide_eq_true_eq] at this
  omega

/-- when nothing is clipped the four reflections of every trajectory point are written: the painted set is
    symmetric about the centre (cx−1, cy−1) in both axes, and within the ellipse's bounding box -/
theorem C20_ellipse_sym (a b : Int) (hx : Axes a b) (cx cy W H : Int) (hcx : 1 ≤ cx) (hcx' : cx ≤ 4294967296) (hcy : 1 ≤ cy) (hcy' : cy ≤ 4294967296)
    (hw : cx - 1 - a ≥ 0 ∧ cx - 1 + a < W) (hh : cy - 1 - b ≥ 0 ∧ cy - 1 + b < H) :
    ∀ q ∈ drawCurve cx cy W H (ellTrajectory a b).1,
      (2 * (cx - 1) - q.1, q.2) ∈ drawCurve cx cy W H (ellTrajectory a b).1 ∧
      (q.1, 2 * (cy - 1) - q.2) ∈ drawCurve cx cy W H (ellTrajectory a b).1 ∧
      cx - 1 - a ≤ q.1 ∧ q.1 ≤ cx - 1 + a ∧ cy - 1 - b ≤ q.2 ∧ q.2 ≤ cy - 1 + b := by
  intro q hmem
  unfold drawCurve at hmem ⊢
  have e1 : (cx - 1) % 4294967296 = cx - 1 := Int.emod_eq_of_lt (by omega) (by omega)
  have e2 : (cy - 1) % 4294967296 = cy - 1 := Int.emod_eq_of_lt (by omega) (by omega)
  rw [e1, e2] at hmem ⊢
  simp only [List.mem_flatMap] at hmem ⊢
  obtain ⟨p, hp, hqp⟩ := hmem
  have hb := C20_ellipse_bbox a b hx (b.toNat + 1) (a.toNat + 2)
  unfold specEllBBox at hb
  rw [List.all_eq_true] at hb
  have hpb := hb p hp
  simp only [inBox, Bool.and_eq_true, decide_eq_true_eq] at hpb
  have hv0 : decide (cx - 1 + p.1 < W) = true := by rw [decide_eq_true_eq]; omega
  have hv1 : (decide (cx - 1 - p.1 ≥ 0) && decide (cx - 1 - p.1 < W)) = true := by
    rw [Bool.and_eq_true, decide_eq_true_eq, decide_eq_true_eq]; omega
  have hv2 : decide (cy - 1 + p.2 < H) = true := by rw [decide_eq_true_eq]; omega
  have hv3 : (decide (cy - 1 - p.2 ≥ 0) && decide (cy - 1 - p.2 < H)) = true := by
    rw [Bool.and_eq_true, decide_eq_true_eq, decide_eq_true_eq]; omega
  have hall : drawPoint (cx - 1) (cy - 1) W H p =
      [(cx - 1 + p.1, cy - 1 + p.2), (cx - 1 - p.1, cy - 1 + p.2), (cx - 1 - p.1, cy - 1 - p.2), (cx - 1 + p.1, cy - 1 - p.2)] := by
    unfold drawPoint
    simp only [hv0, hv1, hv2, hv3, Bool.and_self, if_true, List.cons_append, List.nil_append]
  rw [hall] at hqp
  obtain ⟨q1, q2⟩ := q
  simp only [List.mem_cons, List.mem_nil_iff, or_false, Prod.mk.injEq] at hqp
  refine ⟨⟨p, hp, ?_⟩, ⟨p, hp, ?_⟩, ?_⟩
  · rw [hall]; simp only [List.mem_cons, List.mem_nil_iff, or_false, Prod.mk.injEq]; omega
  · rw [hall]; simp only [List.mem_cons, List.mem_nil_iff, or_false, Prod.mk.injEq]; omega
  · simp only; omega

example : (drawCurve 5 5 9 9 (ellTrajectory 3 2).1).length = 20 := by decide


end GilVerif.Props.C20
