/-
  C07, float32 channels -- channel_multiply / channel_invert laws PROVED relative to `FloatSpec`.

  ASSUMED (trusted base, see Basic/FloatSpec.lean): the binary32 arithmetic of the target satisfies
  `FloatSpec` (monotone, idempotent, exact on 0 and 1, faithful with unit round-off eps; eps = 2^-24
  for binary32); channel values of type float32_t are representable (`R.Rep a`, i.e. `rnd a = a`) and
  lie in [0,1] (the channel's documented range).
  PROVED, for EVERY `R : FloatSpec` and all such inputs (`mulF R a b = rnd (a*b)`,
  `invF R x = rnd (rnd (1-x) + 0)` follow the operation sequence of channel_algorithm.hpp, see
  Lemmas/C07Float.lean):
    multiply: result in [0,1] and representable; commutative; monotone in each argument; 1 is the
              identity; 0 is the annihilator; |result - a*b| ≤ eps (≤ 2^-24 for binary32);
    invert:   result in [0,1] and representable; |invert x - (1-x)| ≤ eps; exact at the end points
              (0 ↦ 1, 1 ↦ 0); antitone; involution up to 2 eps (exact for eps = 0).
  None of the theorems needs `R.big`; the binary32 corollaries only use `R.eps ≤ 2^-24`.
  Only property theorems live here (named C07_float_*).
-/
import GilVerif.Lemmas.C07Float
import GilVerif.Basic.FloatNearest

namespace GilVerif.Props.C07Float
open GilVerif GilVerif.Lemmas.C07Float

/-! ### channel_multiply on float32 channels -/

/-- the product of two channel values of [0,1] is a channel value of [0,1] -/
theorem C07_float_mul_range (R : FloatSpec) (a b : ℚ) (ha : 0 ≤ a) (ha' : a ≤ 1) (hb : 0 ≤ b) (hb' : b ≤ 1) :
    0 ≤ mulF R a b ∧ mulF R a b ≤ 1 ∧ R.Rep (mulF R a b) := by
  have h0 : 0 ≤ a * b := mul_nonneg ha hb
  have h1 : a * b ≤ 1 := by nlinarith
  exact ⟨R.rnd_nonneg h0, R.rnd_le_one h1, R.rep_rnd _⟩

theorem C07_float_mul_comm (R : FloatSpec) (a b : ℚ) : mulF R a b = mulF R b a := by
  unfold mulF; rw [mul_comm]

/-- monotone in each argument (for non-negative channel values) -/
theorem C07_float_mul_monotone (R : FloatSpec) (a b b' : ℚ) (ha : 0 ≤ a) (hbb : b ≤ b') :
    mulF R a b ≤ mulF R a b' ∧ mulF R b a ≤ mulF R b' a := by
  have h : a * b ≤ a * b' := mul_le_mul_of_nonneg_left hbb ha
  refine ⟨R.monotone _ _ h, ?_⟩
  rw [C07_float_mul_comm R b a, C07_float_mul_comm R b' a]; exact R.monotone _ _ h

/-- the channel maximum 1 is the identity (on representable values: every float32_t value) -/
theorem C07_float_mul_identity (R : FloatSpec) (a : ℚ) (ha : R.Rep a) : mulF R a 1 = a ∧ mulF R 1 a = a := by
  unfold mulF; rw [mul_one, one_mul]; exact ⟨ha, ha⟩

/-- the channel minimum 0 is the annihilator -/
theorem C07_float_mul_annihilator (R : FloatSpec) (a : ℚ) : mulF R a 0 = 0 ∧ mulF R 0 a = 0 := by
  unfold mulF; rw [mul_zero, zero_mul]; exact ⟨R.rnd_zero, R.rnd_zero⟩

/-- within eps of the exact product a*b (and within eps * a*b for products of normal magnitude) -/
theorem C07_float_mul_error (R : FloatSpec) (a b : ℚ) (ha : 0 ≤ a) (ha' : a ≤ 1) (hb : 0 ≤ b) (hb' : b ≤ 1) :
    |mulF R a b - a * b| ≤ R.eps ∧ (R.tiny ≤ a * b → |mulF R a b - a * b| ≤ R.eps * (a * b)) := by
  have h0 : 0 ≤ a * b := mul_nonneg ha hb
  have h1 : a * b ≤ 1 := by nlinarith
  refine ⟨?_, fun ht => ?_⟩
  · have := R.abs_err_le' h0 h1 (le_refl 1); rwa [mul_one] at this
  · have := R.rel_err (x := a * b) (by rwa [abs_of_nonneg h0]); rwa [abs_of_nonneg h0] at this

/-- binary32: the product is within 2^-24 of a*b -/
theorem C07_float_mul_error_binary32 (R : FloatSpec) (h32 : R.IsBinary32) (a b : ℚ)
    (ha : 0 ≤ a) (ha' : a ≤ 1) (hb : 0 ≤ b) (hb' : b ≤ 1) : |mulF R a b - a * b| ≤ 1 / 2 ^ 24 :=
  le_trans (C07_float_mul_error R a b ha ha' hb hb').1 h32.1

/-! ### channel_invert on float32 channels -/

/-- the second operation (`+ promoted_min`, i.e. `+ 0.0f`) is exact: invert is `rnd (1 - x)` -/
theorem C07_float_invert_closed (R : FloatSpec) (x : ℚ) : invF R x = R.rnd (1 - x) := by
  unfold invF; exact R.rnd_add_zero _

theorem C07_float_invert_range (R : FloatSpec) (x : ℚ) (h0 : 0 ≤ x) (h1 : x ≤ 1) :
    0 ≤ invF R x ∧ invF R x ≤ 1 ∧ R.Rep (invF R x) := by
  rw [C07_float_invert_closed]
  exact ⟨R.rnd_nonneg (by linarith), R.rnd_le_one (by linarith), R.rep_rnd _⟩

/-- within eps of max - x + min = 1 - x -/
theorem C07_float_invert_error (R : FloatSpec) (x : ℚ) (h0 : 0 ≤ x) (h1 : x ≤ 1) :
    |invF R x - (1 - x)| ≤ R.eps := by
  rw [C07_float_invert_closed]
  have := R.abs_err_le' (x := 1 - x) (B := 1) (by linarith) (by linarith) (le_refl 1)
  rwa [mul_one] at this

/-- exact at the end points: min ↦ max, max ↦ min -/
theorem C07_float_invert_endpoints (R : FloatSpec) : invF R 0 = 1 ∧ invF R 1 = 0 := by
  rw [C07_float_invert_closed, C07_float_invert_closed, sub_zero, sub_self]
  exact ⟨R.rnd_one, R.rnd_zero⟩

/-- order reversing -/
theorem C07_float_invert_antitone (R : FloatSpec) (x y : ℚ) (h : x ≤ y) : invF R y ≤ invF R x := by
  rw [C07_float_invert_closed, C07_float_invert_closed]; exact R.monotone _ _ (by linarith)

/-- involution up to two roundings: |invert (invert x) - x| ≤ 2 eps -/
theorem C07_float_invert_involution (R : FloatSpec) (x : ℚ) (h0 : 0 ≤ x) (h1 : x ≤ 1) :
    |invF R (invF R x) - x| ≤ 2 * R.eps := by
  obtain ⟨r0, r1, -⟩ := C07_float_invert_range R x h0 h1
  have e1 := abs_le.mp (C07_float_invert_error R x h0 h1)
  have e2 := abs_le.mp (C07_float_invert_error R (invF R x) r0 r1)
  rw [abs_le]; constructor <;> linarith [e1.1, e1.2, e2.1, e2.2]

/-- binary32: within 2^-24 of 1 - x, involution within 2^-23 -/
theorem C07_float_invert_binary32 (R : FloatSpec) (h32 : R.IsBinary32) (x : ℚ) (h0 : 0 ≤ x) (h1 : x ≤ 1) :
    |invF R x - (1 - x)| ≤ 1 / 2 ^ 24 ∧ |invF R (invF R x) - x| ≤ 1 / 2 ^ 23 := by
  have h := h32.1
  refine ⟨le_trans (C07_float_invert_error R x h0 h1) h, le_trans (C07_float_invert_involution R x h0 h1) ?_⟩
  norm_num at h ⊢; linarith

/-- in exact arithmetic (eps = 0) the laws are the exact ones: a*b, 1-x, involution -/
theorem C07_float_exact_instance (a b x : ℚ) :
    mulF (FloatSpec.exact 1 (le_refl 1)) a b = a * b ∧ invF (FloatSpec.exact 1 (le_refl 1)) x = 1 - x
    ∧ invF (FloatSpec.exact 1 (le_refl 1)) (invF (FloatSpec.exact 1 (le_refl 1)) x) = x := by
  simp [mulF, invF, FloatSpec.exact]

/-- the genuine binary32 rounding (`FloatSpec.binary32`: round to nearest, ties to even, Basic/FloatNearest.lean)
    is an instance; the kernel evaluates it and gets what the hardware gives: with a = 1.0f/3.0f = 11184811 * 2^-25,
    a*a = 7456541 * 2^-26; invert a = 5592405 * 2^-23 (an exact tie, rounded to even); invert (invert a) =
    2796203 * 2^-23 = a + 2^-25 ≠ a: the involution holds only up to rounding, as `C07_float_invert_involution` states -/
theorem C07_float_genuine_instance :
    FloatSpec.binary32.Rep (11184811 / 33554432)
    ∧ mulF FloatSpec.binary32 (11184811 / 33554432) (11184811 / 33554432) = 7456541 / 67108864
    ∧ invF FloatSpec.binary32 (11184811 / 33554432) = 5592405 / 8388608
    ∧ invF FloatSpec.binary32 (invF FloatSpec.binary32 (11184811 / 33554432)) = 2796203 / 8388608 := by
  refine ⟨?_, ?_, ?_, ?_⟩
  · unfold FloatSpec.Rep FloatSpec.binary32 FloatSpec.nearest; simp only []; decide +kernel
  · unfold mulF FloatSpec.binary32 FloatSpec.nearest; simp only []; decide +kernel
  · unfold invF FloatSpec.binary32 FloatSpec.nearest; simp only []; decide +kernel
  · unfold invF FloatSpec.binary32 FloatSpec.nearest; simp only []; decide +kernel

/-! ### non-vacuity: the hypotheses are met by a concrete structure and concrete non-trivial values -/
example : FloatSpec.binary32.IsBinary32 := FloatSpec.binary32_isBinary32
example : (FloatSpec.exact (2 ^ 24) (by norm_num)).IsBinary32 := FloatSpec.exact_isBinary32
example : (FloatSpec.exact 1 (le_refl 1)).Rep (1 / 3) := rfl
example : mulF (FloatSpec.exact 1 (le_refl 1)) (1 / 3) (3 / 4) = 1 / 4 := by
  simp [mulF, FloatSpec.exact]; norm_num

end GilVerif.Props.C07Float
