/-
  C13 -- all ways of reading one file agree
-/
import GilVerif.Model.C13
import GilVerif.Lemmas.Codec
import GilVerif.Gen.C13
import GilVerif.Props.C12

namespace GilVerif.Props.C13
open GilVerif.Codec GilVerif.Model.C13 GilVerif.Gen.C13

/-- read_view accepts a view exactly when it is at least as large as the region -/
theorem C13_small_view_rejected (vw vh dx dy : Nat) (h : vw < dx ∨ vh < dy) : viewAccepted vw vh dx dy = false := by
  unfold viewAccepted
  rcases h with h | h <;> simp <;> omega

/-! ### sub-rectangle = crop of the full read -/

/-- every row-wise reader (bmp raw / palette / 15-16 bit, pnm binary and ascii, targa raw): for EVERY byte string, row decoder and
    rectangle inside the image, reading with `image_read_settings(top_left, dim)` gives the crop of reading with default settings -/
theorem C13_crop_rowwise {α} (file : Bytes) (off : Nat → Nat) (len : Nat) (rowDec : Bytes → List α) (s : Settings) (w h : Nat)
    (hin : s.Inside w h) :
    readRows file off len rowDec s w h = crop s (readRows file off len rowDec Settings.full w h) :=
  readRows_crop file off len rowDec s w h hin

private theorem readRows_full_dims {α} (file : Bytes) (off : Nat → Nat) (len : Nat) (rowDec : Bytes → List α) (w h : Nat) :
    (readRows file off len rowDec Settings.full w h).w = w ∧ (readRows file off len rowDec Settings.full w h).h = h := by
  simp [readRows, Settings.full, Settings.dimX, Settings.dimY]

/-- BMP 24 / 32 bit, any file bytes (any header variant, offset, padding): sub-rectangle read = crop of the full read -/
theorem C13_crop_bmp {α} (f : PixFmt α) (file : Bytes) (s : Settings) (img : Img α)
    (hfull : decodeBmp f file Settings.full = some img) (hin : s.Inside img.w img.h) :
    decodeBmp f file s = some (crop s img) := by
  unfold decodeBmp at hfull ⊢
  cases hh : bmpReadHeader file with
  | none => rw [hh] at hfull; cases hfull
  | some p =>
    obtain ⟨info, cur⟩ := p
    rw [hh] at hfull
    simp only at hfull ⊢
    split at hfull
    · split at hfull
      · injection hfull with hfull
        subst hfull
        rename_i h1 h2
        simp only [h1, h2, if_true]
        obtain ⟨d1, d2⟩ := readRows_full_dims file (bmpGetOffset info (bmpPitch info)) (bmpPitch info) (decRow f info.width.toNat) info.width.toNat info.height.toNat
        unfold bmpReadData at hin ⊢
        rw [d1, d2] at hin
        rw [readRows_crop _ _ _ _ s _ _ hin]
      · cases hfull
    · cases hfull

/-- PNM binary (P5 / P6), any file bytes -/
theorem C13_crop_pnm {α} (f : PixFmt α) (t : Nat) (file : Bytes) (s : Settings) (img : Img α)
    (hfull : decodePnm f t file Settings.full = some img) (hin : s.Inside img.w img.h) :
    decodePnm f t file s = some (crop s img) := by
  unfold decodePnm at hfull ⊢
  cases hh : pnmReadHeader file with
  | none => rw [hh] at hfull; cases hfull
  | some p =>
    obtain ⟨info, data⟩ := p
    rw [hh] at hfull
    simp only at hfull ⊢
    split at hfull
    · injection hfull with hfull
      subst hfull
      rename_i h1
      simp only [h1, if_true]
      obtain ⟨d1, d2⟩ := readRows_full_dims data (fun j => j * pnmScanline info.type info.width) (pnmScanline info.type info.width) (decRow f info.width) info.width info.height
      unfold pnmReadBin at hin ⊢
      rw [d1, d2] at hin
      rw [readRows_crop _ _ _ _ s _ _ hin]
    · cases hfull

/-- PNM mono (P4) at any bit offset, any file bytes, with the reader as it is (the per-byte manipulation does not matter here) -/
theorem C13_crop_pnm_mono (rowDec : Bytes → List Bool) (file : Bytes) (s : Settings) (img : Img Bool)
    (hfull : decodePnmMonoWith rowDec file Settings.full = some img) (hin : s.Inside img.w img.h) :
    decodePnmMonoWith rowDec file s = some (crop s img) := by
  unfold decodePnmMonoWith at hfull ⊢
  cases hh : pnmReadHeader file with
  | none => rw [hh] at hfull; cases hfull
  | some p =>
    obtain ⟨info, data⟩ := p
    rw [hh] at hfull
    simp only at hfull ⊢
    split at hfull
    · injection hfull with hfull
      subst hfull
      rename_i h1
      simp only [h1, if_true]
      obtain ⟨d1, d2⟩ := readRows_full_dims data (fun j => j * pnmScanline 4 info.width) (pnmScanline 4 info.width)
        (fun bs => rowDec (padTo (pnmScanline 4 info.width) bs)) info.width info.height
      rw [d1, d2] at hin
      rw [readRows_crop _ _ _ _ s _ _ hin]
    · cases hfull

/-- TARGA raw and RLE, bottom-up and top-down (screen origin bit), 24 / 32 bit, any file bytes: the reader as fixed by cf66672
    (seek to the region's first stored scanline; RLE: offset the row index) -/
theorem C13_crop_targa {α} (f : PixFmt α) (file : Bytes) (s : Settings) (img : Img α)
    (hfull : decodeTga f file Settings.full = some img) (hin : s.Inside img.w img.h) :
    decodeTga f file s = some (crop s img) := by
  have hfullIn : ∀ w h, Settings.full.Inside w h := by
    intro w h; simp [Settings.Inside, Settings.full, Settings.dimX, Settings.dimY]
  unfold decodeTga at hfull ⊢
  cases hh : tgaReadHeader file with
  | none => rw [hh] at hfull; cases hfull
  | some info =>
    rw [hh] at hfull
    simp only at hfull ⊢
    split at hfull
    · cases hfull
    · split at hfull
      · split at hfull
        · cases hfull
        · split at hfull
          · cases hfull
          · rename_i h1 h2 h3 h4
            simp only [h1, h2, h3, h4, if_false, if_true]
            split at hfull
            · -- raw
              rename_i h5
              simp only [h5, if_true]
              injection hfull with hfull
              rw [tgaReadRaw_eq f file info _ (hfullIn _ _)] at hfull
              subst hfull
              obtain ⟨d1, d2⟩ := readRows_full_dims file (tgaRowOff info) (info.width * (info.bpp / 8)) (decRow f info.width) info.width info.height
              rw [d1, d2] at hin
              rw [tgaReadRaw_eq f file info s hin, readRows_crop _ _ _ _ s _ _ hin]
            · -- RLE
              rename_i h5
              simp only [h5, if_false]
              rw [tgaReadRle_eq f file info _ (hfullIn _ _)] at hfull
              cases hp : tgaRlePackets (info.bpp / 8) (info.width * info.height * (info.bpp / 8) + 1) (file.drop info.offset)
                  (info.width * info.height * (info.bpp / 8)) with
              | none => rw [hp] at hfull; cases hfull
              | some data =>
                rw [hp] at hfull
                simp only [Option.map_some] at hfull
                injection hfull with hfull
                subst hfull
                obtain ⟨d1, d2⟩ := readRows_full_dims data (tgaRleRowOff info) (info.width * (info.bpp / 8)) (decRow f info.width) info.width info.height
                rw [d1, d2] at hin
                rw [tgaReadRle_eq f file info s hin, hp]
                simp only [Option.map_some]
                rw [readRows_crop _ _ _ _ s _ _ hin]
      · cases hfull

private theorem sliceRow_map {α β} (g : α → β) (a b : Nat) (r : List α) : sliceRow a b (r.map g) = (sliceRow a b r).map g := by
  simp [sliceRow, List.map_drop, List.map_take]

private theorem crop_mapImg {α β} (g : α → β) (s : Settings) (img : Img α) : crop s (mapImg g img) = mapImg g (crop s img) := by
  simp only [crop, mapImg, Img.mk.injEq, true_and]
  rw [← List.map_drop, ← List.map_take, List.map_map, List.map_map]
  apply List.map_congr_left
  intro r _
  exact sliceRow_map g _ _ r

private theorem ok_crop {α β} (g : α → β) (file : Bytes) (off : Nat → Nat) (len : Nat) (rowDec : Bytes → List α) (s : Settings) (w h : Nat)
    (img : Img β) (hfull : Res.ok (mapImg g (readRows file off len rowDec Settings.full w h)) = Res.ok img) (hin : s.Inside img.w img.h) :
    Res.ok (mapImg g (readRows file off len rowDec s w h)) = Res.ok (crop s img) := by
  injection hfull with hfull
  subst hfull
  obtain ⟨d1, d2⟩ := readRows_full_dims file off len rowDec w h
  simp only [mapImg] at hin
  rw [d1, d2] at hin
  rw [readRows_crop _ _ _ _ s _ _ hin, crop_mapImg]

private theorem ok_crop_id {α} (file : Bytes) (off : Nat → Nat) (len : Nat) (rowDec : Bytes → List α) (s : Settings) (w h : Nat)
    (img : Img α) (hfull : Res.ok (readRows file off len rowDec Settings.full w h) = Res.ok img) (hin : s.Inside img.w img.h) :
    Res.ok (readRows file off len rowDec s w h) = Res.ok (crop s img) := by
  injection hfull with hfull
  subst hfull
  obtain ⟨d1, d2⟩ := readRows_full_dims file off len rowDec w h
  rw [d1, d2] at hin
  rw [readRows_crop _ _ _ _ s _ _ hin]

private theorem regionRow_fixed_iff (tly dy h r : Nat) (y : Int) (hr : r < dy) (hy : tly + dy ≤ h) :
    (rleRegionRow true tly dy y = some (r : Int)) ↔ (rleRegionRow true 0 h y = some ((r + tly : Nat) : Int)) := by
  unfold rleRegionRow
  simp only [if_true]
  constructor
  · intro hh
    split at hh
    · injection hh with hh
      have : y = r + tly := by omega
      subst this
      simp; omega
    · cases hh
  · intro hh
    split at hh
    · injection hh with hh
      have : y = r + tly := by push_cast at hh; omega
      subst this
      simp; omega
    · cases hh

/-- the RLE reader with proposed_fixes/C13-bmp-rle-subrectangle.diff (whole rows decoded, region rows copied out): for every byte
    string, every palette and every rectangle inside the image the sub-rectangle read is the crop of the full read -/
theorem C13_crop_bmp_rle_fixed (init : Rgba8) (file : Bytes) (info : BmpInfo) (pal : List Rgba8) (s : Settings) (img : Img Rgba8)
    (hfull : bmpReadRle true init file info pal Settings.full = Res.ok img) (hin : s.Inside img.w img.h) :
    bmpReadRle true init file info pal s = Res.ok (crop s img) := by
  unfold bmpReadRle at hfull ⊢
  simp only [if_true] at hfull ⊢
  cases hl : rleLoop info.width.toNat (decide (info.compression = 2)) pal info.width.toNat (if info.height > 0 then -1 else 1)
      (if info.height > 0 then -1 else (info.height.toNat : Int)) (file.length + info.height.toNat + 2)
      { cur := file.drop info.offset, pos := 0, buf := List.replicate info.width.toNat ⟨0, 0, 0, 0⟩, x := 0,
        y := if info.height > 0 then (info.height.toNat : Int) - 1 else 0, calls := [], over := false } with
  | none => rw [hl] at hfull; cases hfull
  | some st =>
    rw [hl] at hfull
    simp only at hfull ⊢
    have hw : ∀ n, ({} : Settings).dimX n = n := by intro n; simp [Settings.dimX]
    have hh : ∀ n, ({} : Settings).dimY n = n := by intro n; simp [Settings.dimY]
    simp only [Settings.full, hw, hh, Nat.zero_add, Nat.lt_irrefl, gt_iff_lt, decide_false, Bool.and_false, Bool.or_false] at hfull
    split at hfull
    · cases hfull
    · rename_i hover
      injection hfull with hfull
      subst hfull
      obtain ⟨hx, hy⟩ := hin
      simp only at hx hy
      have hnot : ¬ (info.width.toNat < s.tlx + s.dimX info.width.toNat) := by omega
      simp only [hover, hnot, decide_false, Bool.and_false, Bool.or_false, Bool.false_eq_true, if_false]
      congr 1
      simp only [crop, Img.mk.injEq, true_and]
      apply List.ext_getElem
      · simp; omega
      · intro r h1 h2
        have hr : r < s.dimY info.height.toNat := by simpa using h1
        simp only [List.getElem_map, List.getElem_range, List.getElem_take, List.getElem_drop]
        have hp : (fun e : Int × List Rgba8 => decide (rleRegionRow true s.tly (s.dimY info.height.toNat) e.1 = some (r : Int))) =
            (fun e : Int × List Rgba8 => decide (rleRegionRow true 0 info.height.toNat e.1 = some ((s.tly + r : Nat) : Int))) := by
          funext e
          rw [Nat.add_comm s.tly r]
          exact decide_eq_decide.2 (regionRow_fixed_iff s.tly _ info.height.toNat r e.1 hr hy)
        rw [hp]
        cases List.find? (fun e : Int × List Rgba8 => decide (rleRegionRow true 0 info.height.toNat e.1 = some ((s.tly + r : Nat) : Int))) st.calls with
        | none =>
          simp only [sliceRow, List.drop_replicate, List.take_replicate]
          congr 1
          omega
        | some e => simp only []; rw [sliceRow_take _ info.width.toNat s.tlx _ hx]

/-- every BMP variant -- 1/4/8-bit palette images (Windows and OS/2 headers, any palette size), 15/16-bit with default or bit-field
    masks, 24/32-bit, any header size, any file bytes; run-length encoded files only for the reader with the proposed fix
    (`rleFixed = true`): sub-rectangle read = crop of the full read -/
theorem C13_crop_bmp_all (init : Rgba8) (file : Bytes) (s : Settings) (want : Option Nat) (rleFixed : Bool) (img : Img Rgba8)
    (hfull : bmpRead init file Settings.full want rleFixed = Res.ok img) (hrle : bmpIsRle file = false ∨ rleFixed = true)
    (hin : s.Inside img.w img.h) :
    bmpRead init file s want rleFixed = Res.ok (crop s img) := by
  unfold bmpRead at hfull ⊢
  unfold bmpIsRle at hrle
  cases hh : bmpReadHeader file with
  | none => rw [hh] at hfull; cases hfull
  | some p =>
    obtain ⟨info, cur⟩ := p
    rw [hh] at hfull hrle
    simp only [decide_eq_false_iff_not] at hrle
    simp only at hfull ⊢
    cases hn : bmpNativeBits info with
    | none => rw [hn] at hfull; cases hfull
    | some nb =>
      rw [hn] at hfull
      simp only at hfull ⊢
      split at hfull
      · cases hfull
      · rename_i hw
        simp only [hw, if_false]
        cases hp : bmpPath info with
        | rle =>
          rcases hrle with hrle | hrle
          · exact absurd hp hrle
          · subst hrle
            rw [hp] at hfull
            simp only at hfull ⊢
            cases hq : bmpReadPalette info cur with
            | none => rw [hq] at hfull; cases hfull
            | some q =>
              obtain ⟨pl, rest⟩ := q
              rw [hq] at hfull
              exact C13_crop_bmp_rle_fixed init file info pl s img hfull hin
        | unsupported => rw [hp] at hfull; cases hfull
        | palette =>
          rw [hp] at hfull
          simp only at hfull ⊢
          cases hq : bmpReadPalette info cur with
          | none => rw [hq] at hfull; cases hfull
          | some q =>
            obtain ⟨pl, rest⟩ := q
            rw [hq] at hfull
            exact ok_crop_id file _ _ _ s _ _ img hfull hin
        | hi16 =>
          rw [hp] at hfull
          simp only at hfull ⊢
          cases hm : bmpMasks info cur with
          | none => rw [hm] at hfull; cases hfull
          | some ms =>
            rw [hm] at hfull
            exact ok_crop _ file _ _ _ s _ _ img hfull hin
        | rgb24 =>
          rw [hp] at hfull
          unfold bmpReadData at hfull ⊢
          exact ok_crop _ file _ _ _ s _ _ img hfull hin
        | rgba32 =>
          rw [hp] at hfull
          unfold bmpReadData at hfull ⊢
          exact ok_crop_id file _ _ _ s _ _ img hfull hin

/-- every PNM variant with byte pixels (ascii P1 / P2 / P3 and binary P5 / P6), any file bytes, converting or not -/
theorem C13_crop_pnm_all {α} (f : PixFmt α) (isRgb convert : Bool) (file : Bytes) (s : Settings) (img : Img α)
    (hfull : pnmRead f isRgb convert file Settings.full = Res.ok img) (hin : s.Inside img.w img.h) :
    pnmRead f isRgb convert file s = Res.ok (crop s img) := by
  unfold pnmRead at hfull ⊢
  cases hh : pnmReadHeader file with
  | none => rw [hh] at hfull; cases hfull
  | some p =>
    obtain ⟨info, data⟩ := p
    rw [hh] at hfull
    simp only at hfull ⊢
    generalize (convert || (if isRgb = true then decide (info.type = 3 ∨ info.type = 6) else decide (info.type = 1 ∨ info.type = 2 ∨ info.type = 5))) = al at hfull ⊢
    cases al
    · simp at hfull
    · simp only [if_true] at hfull ⊢
      split at hfull
      · rename_i h2
        simp only [h2, if_true]
        unfold pnmReadText at hfull ⊢
        exact ok_crop_id _ _ _ _ s _ _ img hfull hin
      · rename_i h2
        simp only [h2, if_false]
        split at hfull
        · rename_i h3
          simp only [h3, if_true]
          unfold pnmReadBin at hfull ⊢
          exact ok_crop_id _ _ _ _ s _ _ img hfull hin
        · cases hfull

/-! ### RLE BMP, the reader before /repo commit 76f86d6 (`rleFixed = false`; selected by checks/C13.py when the tree's source still
    has `Buf_type buf( this->_settings._dim.x )`): the crop clause FAILS.  The reader as fixed: `C13_crop_bmp_rle_fixed`,
    `C13_crop_bmp_all … rleFixed = true` above.

-- OPEN (not proven; false for the old reader, witnesses below):
--   theorem C13_crop_bmp_rle_old : bmpRead init file Settings.full want false = .ok img → bmpIsRle file = true → s.Inside img.w img.h →
--       bmpRead init file s want false = .ok (crop s img)
-/

/-- a 1×2 RLE8 file (2-entry palette: row 0 = entry 1, row 1 = entry 0): stored bottom-up as `01 00 00 00 | 01 01 00 00 | 00 01` -/
def rleWitnessFile : Bytes :=
  bmpHeaderRaw ++ [5, 6, 7, 0, 9, 10, 11, 0] ++ [1, 0, 0, 0, 1, 1, 0, 0, 0, 1]
where bmpHeaderRaw : Bytes :=
  [0x42, 0x4D] ++ le32 72 ++ le16 0 ++ le16 0 ++ le32 62 ++ le32 40 ++ le32 1 ++ le32 2 ++ le16 1 ++ le16 8 ++ le32 1 ++ le32 10 ++
  le32 0 ++ le32 0 ++ le32 2 ++ le32 0

/-- full read: rows (entry 1), (entry 0); the sub-rectangle (0,0) 1×1 returns entry 0 -- the BOTTOM row -- instead of the top one -/
theorem C13_bmp_rle_crop_witness :
    bmpRead ⟨0xEE, 0xEE, 0xEE, 0xEE⟩ rleWitnessFile Settings.full (some 24) = Res.ok ⟨1, 2, [[⟨11, 10, 9, 0⟩], [⟨7, 6, 5, 0⟩]]⟩ ∧
    bmpRead ⟨0xEE, 0xEE, 0xEE, 0xEE⟩ rleWitnessFile { tlx := 0, tly := 0, dx := 1, dy := 1 } (some 24) = Res.ok ⟨1, 1, [[⟨7, 6, 5, 0⟩]]⟩ ∧
    crop { tlx := 0, tly := 0, dx := 1, dy := 1 } (⟨1, 2, [[⟨11, 10, 9, 0⟩], [⟨7, 6, 5, 0⟩]]⟩ : Img Rgba8) = ⟨1, 1, [[⟨11, 10, 9, 0⟩]]⟩ := by
  decide

/-- and with `top_left.x > 0` the reader indexes its `dim.x`-wide row buffer at `top_left.x`: out of bounds -/
def rleWitnessFile2 : Bytes :=
  [0x42, 0x4D] ++ le32 68 ++ le16 0 ++ le16 0 ++ le32 62 ++ le32 40 ++ le32 2 ++ le32 1 ++ le16 1 ++ le16 8 ++ le32 1 ++ le32 6 ++
  le32 0 ++ le32 0 ++ le32 2 ++ le32 0 ++ [5, 6, 7, 0, 9, 10, 11, 0] ++ [2, 1, 0, 0, 0, 1]

theorem C13_bmp_rle_crop_ub_witness :
    bmpRead ⟨0xEE, 0xEE, 0xEE, 0xEE⟩ rleWitnessFile2 { tlx := 1, tly := 0, dx := 1, dy := 1 } (some 24) = Res.ub := by
  decide

/-- what remains true for RLE files: explicit full-size settings equal the default settings -/
theorem C13_crop_bmp_rle_partial (init : Rgba8) (file : Bytes) (want : Option Nat) (info : BmpInfo) (cur : Bytes)
    (hh : bmpReadHeader file = some (info, cur)) (hw : 0 < info.width.toNat) (hhp : 0 < info.height.toNat) :
    bmpRead init file { tlx := 0, tly := 0, dx := info.width.toNat, dy := info.height.toNat } want = bmpRead init file Settings.full want := by
  simp only [bmpRead, hh, bmpReadRle, bmpReadData, readRows, Settings.full, Settings.dimX, Settings.dimY]
  simp [Nat.ne_of_gt hw, Nat.ne_of_gt hhp]

/-! ### scanline reader rows = rows of the full read -/

private theorem slice_decRow {α} (f : PixFmt α) (w : Nat) (bs : Bytes) : sliceRow 0 w (decRow f w bs) = decRow f w bs := by
  have := sliceRow_full (decRow f w bs)
  rwa [length_decRow] at this

/-- bmp scanline_reader::read(buffer, pos) for 24 / 32 bit files: the buffer, seen with the file's pixel layout, is row `pos` of read_image -/
theorem C13_scanline_bmp {α} (f : PixFmt α) (file : Bytes) (info : BmpInfo) (pos : Nat) (hp : pos < info.height.toNat) :
    (bmpReadData f file info Settings.full).rows[pos]? = some (decRow f info.width.toNat (bmpScanRow file info pos)) := by
  simp only [bmpReadData, readRows, bmpScanRow, readAt, Settings.full, Settings.dimX, Settings.dimY, if_true, Nat.add_zero]
  rw [List.getElem?_map, List.getElem?_range hp]
  simp only [Option.map_some, slice_decRow]

/-- targa scanline_reader::read (raw bottom-up files) -/
theorem C13_scanline_targa {α} (f : PixFmt α) (file : Bytes) (info : TgaInfo) (pos : Nat) (hp : pos < info.height)
    (hb : info.originBit = false) :
    (tgaReadRaw f file info Settings.full).rows[pos]? = some (decRow f info.width (tgaScanRow file info pos)) := by
  rw [tgaReadRaw_eq f file info _ (by simp [Settings.Inside, Settings.full, Settings.dimX, Settings.dimY])]
  simp only [readRows, tgaRowOff, tgaScanRow, readAt, hb, Settings.full, Settings.dimX, Settings.dimY, if_true, Nat.add_zero,
    Bool.false_eq_true, if_false]
  rw [List.getElem?_map, List.getElem?_range hp]
  simp only [Option.map_some, slice_decRow]

/-- pnm scanline_reader (binary byte rows, read in sequence) -/
theorem C13_scanline_pnm {α} (f : PixFmt α) (data : Bytes) (info : PnmInfo) (pos : Nat) (hp : pos < info.height) :
    (pnmReadBin f data info Settings.full).rows[pos]? = some (decRow f info.width (pnmScanRow data info pos)) := by
  simp only [pnmReadBin, readRows, pnmScanRow, readAt, Settings.full, Settings.dimX, Settings.dimY, if_true, Nat.add_zero]
  rw [List.getElem?_map, List.getElem?_range hp]
  simp only [Option.map_some, slice_decRow]

/-! ### the scanline iterator under any skip / dereference pattern -/

/-- state invariant of scanline_read_iterator: the two flags move together; with the flags set the stream is ready for row `pos`,
    with the flags cleared the buffer holds row `pos` and the stream is ready for row `pos + 1` -/
private def ItGood {σ ρ} (row : Nat → ρ) (Inv : Nat → σ → Prop) (s : ItState σ ρ) : Prop :=
  (s.readF = true ∧ s.skipF = true ∧ Inv s.pos s.st) ∨ (s.readF = false ∧ s.skipF = false ∧ s.buf = row s.pos ∧ Inv (s.pos + 1) s.st)

private theorem itRun_good {σ ρ} (r : ScanReader σ ρ) (row : Nat → ρ) (Inv : Nat → σ → Prop)
    (hread : ∀ pos s, Inv pos s → (r.read pos s).1 = row pos ∧ Inv (pos + 1) (r.read pos s).2)
    (hskip : ∀ pos s, Inv pos s → Inv (pos + 1) (r.skip pos s))
    (ops : List ItOp) : ∀ (s : ItState σ ρ), ItGood row Inv s →
      itRun r s ops = (derefPositions s.pos ops).map (fun p => (p, row p)) := by
  induction ops with
  | nil => intro s _; rfl
  | cons o os ih =>
    intro s hg
    cases o with
    | incr =>
      simp only [itRun, ItState.step, derefPositions]
      apply ih
      rcases hg with ⟨_, h2, h3⟩ | ⟨_, h2, _, h4⟩
      · left; simp only [h2, if_true]; exact ⟨trivial, trivial, hskip _ _ h3⟩
      · left; simp only [h2, Bool.false_eq_true, if_false]; exact ⟨trivial, trivial, h4⟩
    | deref =>
      simp only [itRun, ItState.step, derefPositions, List.map_cons]
      rcases hg with ⟨h1, _, h3⟩ | ⟨h1, _, h3, h4⟩
      · simp only [h1, if_true]
        obtain ⟨e1, e2⟩ := hread _ _ h3
        rw [e1]; congr 1
        apply ih
        right; exact ⟨rfl, rfl, rfl, e2⟩
      · simp only [h1, Bool.false_eq_true, if_false]
        rw [h3]; congr 1
        apply ih
        right; exact ⟨rfl, rfl, rfl, h4⟩

/-- ANY sequence of `*it` / `++it` on the scanline iterator (rows skipped without being dereferenced, rows dereferenced several
    times, any length) hands out, at every dereference, exactly row `pos` of the full decode -- for every reader whose `read` at a
    stream state that is ready for row `pos` yields that row and leaves the stream ready for `pos + 1`, and whose `skip` advances
    the stream by exactly one row -/
theorem C13_skip_pattern_generic {σ ρ} (r : ScanReader σ ρ) (row : Nat → ρ) (Inv : Nat → σ → Prop)
    (hread : ∀ pos s, Inv pos s → (r.read pos s).1 = row pos ∧ Inv (pos + 1) (r.read pos s).2)
    (hskip : ∀ pos s, Inv pos s → Inv (pos + 1) (r.skip pos s))
    (s0 : σ) (h0 : Inv 0 s0) (b0 : ρ) (ops : List ItOp) :
    itRun r (ItState.init b0 s0) ops = (derefPositions 0 ops).map (fun p => (p, row p)) :=
  itRun_good r row Inv hread hskip ops (ItState.init b0 s0) (Or.inl ⟨rfl, rfl, h0⟩)

/-- the iterator's position only counts the increments (compared with `end()` = height) -/
theorem C13_skip_pattern_pos {σ ρ} (r : ScanReader σ ρ) (ops : List ItOp) (s : ItState σ ρ) :
    itPos r s ops = s.pos + (ops.filter (· = ItOp.incr)).length := by
  induction ops generalizing s with
  | nil => simp [itPos]
  | cons o os ih =>
    cases o <;> simp [itPos, ih, ItState.step] <;> omega

/-- pnm binary rows (P5 / P6): any pattern yields the rows `pnmScanRow` (which are read_image's rows: `C13_scanline_pnm`) -/
theorem C13_skip_pattern_pnm_bin (data : Bytes) (info : PnmInfo) (ops : List ItOp) :
    itRun (pnmBinScanReader (pnmScanline info.type info.width)) (ItState.init [] data) ops
      = (derefPositions 0 ops).map (fun p => (p, pnmScanRow data info p)) := by
  apply C13_skip_pattern_generic _ _ (fun pos s => s = data.drop (pos * pnmScanline info.type info.width))
  · intro pos s hs
    subst hs
    refine ⟨by simp [pnmBinScanReader, pnmScanRow, readAt], ?_⟩
    simp only [pnmBinScanReader, List.drop_drop, Nat.add_mul, Nat.one_mul]
  · intro pos s hs
    subst hs
    simp only [pnmBinScanReader, List.drop_drop, Nat.add_mul, Nat.one_mul]
  · simp

/-- bmp (24 / 32 bit): `read` seeks to the row, so any pattern yields the rows `bmpScanRow` (read_image's rows: `C13_scanline_bmp`) -/
theorem C13_skip_pattern_bmp (file : Bytes) (info : BmpInfo) (p0 : Nat) (ops : List ItOp) :
    itRun (bmpScanReader file info) (ItState.init [] p0) ops = (derefPositions 0 ops).map (fun p => (p, bmpScanRow file info p)) :=
  C13_skip_pattern_generic _ _ (fun _ _ => True) (fun _ _ _ => ⟨rfl, trivial⟩) (fun _ _ _ => trivial) p0 trivial [] ops

/-- targa (raw, bottom-up): `skip` seeks forward, `read` seeks to the row: any pattern yields the rows `tgaScanRow` (`C13_scanline_targa`) -/
theorem C13_skip_pattern_targa (file : Bytes) (info : TgaInfo) (p0 : Nat) (ops : List ItOp) :
    itRun (tgaScanReader file info) (ItState.init [] p0) ops = (derefPositions 0 ops).map (fun p => (p, tgaScanRow file info p)) :=
  C13_skip_pattern_generic _ _ (fun _ _ => True) (fun _ _ _ => ⟨rfl, trivial⟩) (fun _ _ _ => trivial) p0 trivial [] ops

/-- skip_text_row leaves the stream exactly where read_text_row of the same number of samples leaves it -/
theorem C13_pnm_skip_text_row_eq_read (n : Nat) (bs : Bytes) : pnmSkipTextRow n bs = (pnmTextRow n bs).2 := by
  induction n generalizing bs with
  | zero => rfl
  | succ n ih =>
    simp only [pnmSkipTextRow, pnmTextRow]
    cases h : pnmNextTok bs with
    | none => rfl
    | some vr => obtain ⟨v, rest⟩ := vr; simp only []; exact ih rest

private theorem pnmTextAfter_succ (sl k : Nat) (bs : Bytes) : pnmTextAfter sl (k + 1) bs = (pnmTextRow sl (pnmTextAfter sl k bs)).2 := by
  induction k generalizing bs with
  | zero => rfl
  | succ k ih => rw [pnmTextAfter, ih]; rfl

/-- pnm ascii rows (P1 / P2 / P3): any pattern yields, at every dereference, the row a plain walk (every row dereferenced once) reads at
    that position: `read_text_row` applied to the stream after `pos` rows -/
theorem C13_skip_pattern_pnm_text (maxv sl : Nat) (data : Bytes) (ops : List ItOp) :
    itRun (pnmTextScanReader maxv sl) (ItState.init [] data) ops
      = (derefPositions 0 ops).map (fun p => (p, ((pnmTextRow sl (pnmTextAfter sl p data)).1).map (pnmTextSample maxv))) := by
  apply C13_skip_pattern_generic _ _ (fun pos s => s = pnmTextAfter sl pos data)
  · intro pos s hs
    subst hs
    exact ⟨rfl, by simp only [pnmTextScanReader, pnmTextAfter_succ]⟩
  · intro pos s hs
    subst hs
    simp only [pnmTextScanReader, pnmTextAfter_succ, C13_pnm_skip_text_row_eq_read]
  · rfl

/-- a reader whose skip passes over another number of samples than a row holds does NOT have the property: one sample per pixel on a
    colour row (3 samples per pixel) returns shifted data for the row after a skipped one -/
theorem C13_skip_text_row_width_witness :
    let data : Bytes := [49, 32, 50, 32, 51, 10, 52, 32, 53, 32, 54, 10]      -- "1 2 3\n4 5 6\n": a 1x2 P3 body
    let bad : ScanReader Bytes Bytes := { pnmTextScanReader 255 3 with skip := fun _ s => pnmSkipTextRow 1 s }
    itRun bad (ItState.init [] data) [.incr, .deref] = [(1, [2, 3, 4])]
    ∧ itRun (pnmTextScanReader 255 3) (ItState.init [] data) [.incr, .deref] = [(1, [4, 5, 6])] := by
  decide

example : derefPositions 0 (patternOps ['d', 's', 's', 'D', 's', 'd']) = [0, 3, 3, 5] := by decide
example : itRun (pnmBinScanReader 2) (ItState.init [] [1, 2, 3, 4, 5, 6]) (patternOps ['s', 'd', 'd']) = [(1, [3, 4]), (2, [5, 6])] := by decide

private theorem pnmNextTok_length {bs : Bytes} {v : Nat} {rest : Bytes} (h : pnmNextTok bs = some (v, rest)) : rest.length < bs.length := by
  unfold pnmNextTok at h
  have hd : (bs.dropWhile isWs).length ≤ bs.length := by
    have := (List.dropWhile_suffix (l := bs) isWs).length_le; exact this
  cases hc : bs.dropWhile isWs with
  | nil => rw [hc] at h; simp at h
  | cons c r =>
    rw [hc] at h hd
    simp only at h
    split at h
    · rename_i hdg
      simp only [Option.some.injEq, Prod.mk.injEq] at h
      obtain ⟨_, h2⟩ := h
      subst h2
      have h1 : ((c :: r).dropWhile isDigit).length ≤ r.length := by
        rw [List.dropWhile_cons_of_pos hdg]
        exact (List.dropWhile_suffix (l := r) isDigit).length_le
      simp only [List.length_drop, List.length_cons] at *
      omega
    · simp at h

private theorem pnmTokens_step (fuel : Nat) (bs : Bytes) :
    pnmTokens (fuel + 1) bs = match pnmNextTok bs with
      | none => []
      | some (v, rest) => v :: pnmTokens fuel rest := by
  rw [pnmTokens]
  unfold pnmNextTok
  cases bs.dropWhile isWs with
  | nil => rfl
  | cons c r => simp only []; split <;> rfl

private theorem pnmTokens_fuel (n : Nat) : ∀ (bs : Bytes) (fuel : Nat), bs.length < n → bs.length < fuel →
    pnmTokens fuel bs = pnmTokens (bs.length + 1) bs := by
  induction n with
  | zero => intro bs fuel h; omega
  | succ n ih =>
    intro bs fuel hn hf
    obtain ⟨f, rfl⟩ : ∃ f, fuel = f + 1 := ⟨fuel - 1, by omega⟩
    rw [pnmTokens_step, pnmTokens_step]
    cases h : pnmNextTok bs with
    | none => rfl
    | some vr =>
      obtain ⟨v, rest⟩ := vr
      have hl := pnmNextTok_length h
      simp only []
      rw [ih rest f (by omega) (by omega), ih rest bs.length (by omega) hl]

/-- all numbers of a data stream (the fuel of `pnmTokens` is the data's length) -/
private def toks (bs : Bytes) : List Nat := pnmTokens (bs.length + 1) bs

private theorem toks_step (bs : Bytes) : toks bs = match pnmNextTok bs with
    | none => []
    | some (v, rest) => v :: toks rest := by
  unfold toks
  rw [pnmTokens_step]
  cases h : pnmNextTok bs with
  | none => rfl
  | some vr =>
    obtain ⟨v, rest⟩ := vr
    simp only []
    rw [pnmTokens_fuel (bs.length + 1) rest bs.length (by have := pnmNextTok_length h; omega) (pnmNextTok_length h)]

private theorem toks_nil : toks [] = [] := by rw [toks_step]; rfl

private theorem pnmTextRow_toks (n : Nat) : ∀ bs : Bytes, (pnmTextRow n bs).1 = (toks bs).take n ∧ toks (pnmTextRow n bs).2 = (toks bs).drop n := by
  induction n with
  | zero => intro bs; simp [pnmTextRow]
  | succ n ih =>
    intro bs
    rw [toks_step bs]
    simp only [pnmTextRow]
    cases h : pnmNextTok bs with
    | none => simp [toks_nil]
    | some vr =>
      obtain ⟨v, rest⟩ := vr
      obtain ⟨i1, i2⟩ := ih rest
      simp only [List.take_succ_cons, List.drop_succ_cons]
      exact ⟨by rw [i1], i2⟩

private theorem pnmTextAfter_toks (sl p : Nat) : ∀ data : Bytes, toks (pnmTextAfter sl p data) = (toks data).drop (p * sl) := by
  induction p with
  | zero => intro data; simp [pnmTextAfter]
  | succ p ih =>
    intro data
    rw [pnmTextAfter, ih, (pnmTextRow_toks sl data).2, List.drop_drop]
    congr 1
    rw [Nat.add_mul, Nat.one_mul]; omega

/-- the row buffer read_text_row fills at the stream position after `p` rows = samples [p*sl, p*sl + sl) of the data, as
    `reader::read_text_data` (read_image) sees them -/
theorem C13_pnm_text_row_samples (maxv sl p : Nat) (data : Bytes) :
    ((pnmTextRow sl (pnmTextAfter sl p data)).1).map (pnmTextSample maxv)
      = readAt ((pnmTokens (data.length + 1) data).map (pnmTextSample maxv)) (p * sl) sl := by
  rw [(pnmTextRow_toks sl _).1, pnmTextAfter_toks]
  simp only [readAt, toks, List.map_take, List.map_drop]

/-- pnm ascii rows (P1 / P2 / P3), any pattern: the row handed out at position `p` is samples [p*sl, p*sl + sl) of the data -- the samples
    read_image decodes its row `p` from (`C13_scanline_pnm_text`) -/
theorem C13_skip_pattern_pnm_text_rows (maxv sl : Nat) (data : Bytes) (ops : List ItOp) :
    itRun (pnmTextScanReader maxv sl) (ItState.init [] data) ops
      = (derefPositions 0 ops).map (fun p => (p, readAt ((pnmTokens (data.length + 1) data).map (pnmTextSample maxv)) (p * sl) sl)) := by
  rw [C13_skip_pattern_pnm_text]
  simp only [C13_pnm_text_row_samples]

/-- read_image of an ascii pnm: row `pos` is decoded from samples [pos*sl, pos*sl + sl) -/
theorem C13_scanline_pnm_text {α} (f : PixFmt α) (data : Bytes) (info : PnmInfo) (pos : Nat) (hp : pos < info.height) :
    (pnmReadText f data info Settings.full).rows[pos]? = some (decRow f info.width
      (readAt ((pnmTokens (data.length + 1) data).map (pnmTextSample info.maxValue)) (pos * pnmScanline info.type info.width) (pnmScanline info.type info.width))) := by
  simp only [pnmReadText, readRows, readAt, Settings.full, Settings.dimX, Settings.dimY, if_true, Nat.add_zero]
  rw [List.getElem?_map, List.getElem?_range hp]
  simp only [Option.map_some, slice_decRow]

example : (pnmReadText rgb8 [49, 32, 50, 32, 51, 10, 52, 32, 53, 32, 54, 10] ⟨3, 1, 2, 255⟩ Settings.full).rows = [[⟨1, 2, 3⟩], [⟨4, 5, 6⟩]] := by decide

/-! ### every row the iterator hands out, under any pattern, is that row of read_image -/

/-- binary PNM (P5 / P6): whatever the sequence of `*it` / `++it`, a row handed out at a position inside the image decodes to read_image's row -/
theorem C13_skip_rows_read_image_pnm_bin {α} (f : PixFmt α) (data : Bytes) (info : PnmInfo) (ops : List ItOp) :
    ∀ x ∈ itRun (pnmBinScanReader (pnmScanline info.type info.width)) (ItState.init [] data) ops, x.1 < info.height →
      (pnmReadBin f data info Settings.full).rows[x.1]? = some (decRow f info.width x.2) := by
  intro x hx hlt
  rw [C13_skip_pattern_pnm_bin, List.mem_map] at hx
  obtain ⟨p, _, rfl⟩ := hx
  exact C13_scanline_pnm f data info p hlt

/-- ascii PNM (P1 / P2 / P3) -/
theorem C13_skip_rows_read_image_pnm_text {α} (f : PixFmt α) (data : Bytes) (info : PnmInfo) (ops : List ItOp) :
    ∀ x ∈ itRun (pnmTextScanReader info.maxValue (pnmScanline info.type info.width)) (ItState.init [] data) ops, x.1 < info.height →
      (pnmReadText f data info Settings.full).rows[x.1]? = some (decRow f info.width x.2) := by
  intro x hx hlt
  rw [C13_skip_pattern_pnm_text_rows, List.mem_map] at hx
  obtain ⟨p, _, rfl⟩ := hx
  exact C13_scanline_pnm_text f data info p hlt

/-- BMP 24 / 32 bit -/
theorem C13_skip_rows_read_image_bmp {α} (f : PixFmt α) (file : Bytes) (info : BmpInfo) (p0 : Nat) (ops : List ItOp) :
    ∀ x ∈ itRun (bmpScanReader file info) (ItState.init [] p0) ops, x.1 < info.height.toNat →
      (bmpReadData f file info Settings.full).rows[x.1]? = some (decRow f info.width.toNat x.2) := by
  intro x hx hlt
  rw [C13_skip_pattern_bmp, List.mem_map] at hx
  obtain ⟨p, _, rfl⟩ := hx
  exact C13_scanline_bmp f file info p hlt

/-- TARGA raw, bottom-up -/
theorem C13_skip_rows_read_image_targa {α} (f : PixFmt α) (file : Bytes) (info : TgaInfo) (p0 : Nat) (ops : List ItOp)
    (hb : info.originBit = false) :
    ∀ x ∈ itRun (tgaScanReader file info) (ItState.init [] p0) ops, x.1 < info.height →
      (tgaReadRaw f file info Settings.full).rows[x.1]? = some (decRow f info.width x.2) := by
  intro x hx hlt
  rw [C13_skip_pattern_targa, List.mem_map] at hx
  obtain ⟨p, _, rfl⟩ := hx
  exact C13_scanline_targa f file info p hlt hb

/-- the harness's pattern letters never move the iterator past the number of letters: `it == end()` after exactly `height` letters -/
theorem C13_pattern_pos {σ ρ} (r : ScanReader σ ρ) (pat : List Char) (s : ItState σ ρ) :
    itPos r s (patternOps pat) = s.pos + pat.length := by
  rw [C13_skip_pattern_pos]
  congr 1
  induction pat with
  | nil => rfl
  | cons c cs ih =>
    by_cases h1 : c = 'd'
    · subst h1; simp [patternOps, ih]
    · by_cases h2 : c = 'D'
      · subst h2; simp [patternOps, ih]
      · by_cases h3 : c = 'p'
        · subst h3; simp [patternOps, ih]
        · have : patternOps (c :: cs) = .incr :: patternOps cs := patternOps.eq_5 c cs (fun h => h1 h) (fun h => h2 h) (fun h => h3 h)
          rw [this]; simp [ih]

example : ∃ x ∈ itRun (pnmTextScanReader 255 3) (ItState.init [] [49, 32, 50, 32, 51, 10, 52, 32, 53, 32, 54, 10]) [.incr, .deref], x.1 < 2 := by decide

/-- every row-wise reader (any offset function, row length and row decoder: bmp palettes 1/4/8 bit, 15/16 bit, 24/32 bit, targa, pnm):
    row `pos` of the full read is the row decoder applied to the `len` bytes at `off pos` -- what a scanline reader that seeks to
    `off pos`, reads `len` bytes and runs the same row decoder puts in its buffer -/
theorem C13_scanline_rowwise {α} (file : Bytes) (off : Nat → Nat) (len : Nat) (rowDec : Bytes → List α) (w h pos : Nat) (hp : pos < h) :
    (readRows file off len rowDec Settings.full w h).rows[pos]? = some (sliceRow 0 w (rowDec (readAt file (off pos) len))) := by
  simp only [readRows, readAt, Settings.full, Settings.dimX, Settings.dimY, if_true, Nat.add_zero]
  rw [List.getElem?_map, List.getElem?_range hp]
  simp only [Option.map_some]

/-- a scanline reader that seeks to every row (`read(buffer, pos)` = decode the `len` bytes at `off pos`), with ANY skip function on the
    stream position: any `*it` / `++it` sequence hands out read_image's rows (bmp palette and 15/16-bit scanline readers) -/
theorem C13_skip_rows_read_image_seeking {α} (file : Bytes) (off : Nat → Nat) (len : Nat) (rowDec : Bytes → List α) (w h : Nat)
    (skip : Nat → Nat → Nat) (p0 : Nat) (b0 : List α) (ops : List ItOp) :
    ∀ x ∈ itRun ({ read := fun pos _ => (sliceRow 0 w (rowDec (readAt file (off pos) len)), off pos + len), skip := skip } : ScanReader Nat (List α))
        (ItState.init b0 p0) ops, x.1 < h →
      (readRows file off len rowDec Settings.full w h).rows[x.1]? = some x.2 := by
  intro x hx hlt
  rw [C13_skip_pattern_generic _ (fun pos => sliceRow 0 w (rowDec (readAt file (off pos) len))) (fun _ _ => True)
        (fun _ _ _ => ⟨rfl, trivial⟩) (fun _ _ _ => trivial) p0 trivial, List.mem_map] at hx
  obtain ⟨p, _, rfl⟩ := hx
  exact C13_scanline_rowwise file off len rowDec w h p hlt

/-- the stream state a plain walk (every row dereferenced once) has before row `k` -/
def walkState {σ ρ} (r : ScanReader σ ρ) (s0 : σ) : Nat → σ
  | 0 => s0
  | k + 1 => (r.read k (walkState r s0 k)).2

/-- readers whose `skip` is implemented by reading the row and discarding it (png, jpeg, tiff scanline readers: `skip` calls the same
    read function) or that otherwise leave the stream where `read` leaves it: ANY `*it` / `++it` sequence hands out, at position `p`, the row
    a plain walk hands out at `p` -/
theorem C13_skip_pattern_sequential {σ ρ} (r : ScanReader σ ρ) (hskip : ∀ pos s, r.skip pos s = (r.read pos s).2)
    (s0 : σ) (b0 : ρ) (ops : List ItOp) :
    itRun r (ItState.init b0 s0) ops = (derefPositions 0 ops).map (fun p => (p, (r.read p (walkState r s0 p)).1)) := by
  apply C13_skip_pattern_generic r _ (fun pos s => s = walkState r s0 pos)
  · intro pos s hs; subst hs; exact ⟨rfl, rfl⟩
  · intro pos s hs; subst hs; rw [hskip]; rfl
  · rfl

/-- ... and the plain walk itself is the pattern d d d …: its rows are these rows in order -/
theorem C13_plain_walk {σ ρ} (r : ScanReader σ ρ) (hskip : ∀ pos s, r.skip pos s = (r.read pos s).2) (s0 : σ) (b0 : ρ) (n : Nat) :
    itRun r (ItState.init b0 s0) (patternOps (List.replicate n 'd')) = (List.range n).map (fun p => (p, (r.read p (walkState r s0 p)).1)) := by
  rw [C13_skip_pattern_sequential r hskip]
  congr 1
  have : ∀ k, derefPositions k (patternOps (List.replicate n 'd')) = (List.range n).map (· + k) := by
    induction n with
    | zero => intro k; rfl
    | succ n ih =>
      intro k
      simp only [List.replicate_succ, patternOps, derefPositions, ih, List.range_succ_eq_map, List.map_cons, List.map_map]
      simp only [Nat.zero_add, List.cons.injEq, true_and]
      apply List.map_congr_left
      intro a _
      simp only [Function.comp]
      omega
  rw [this 0]; simp

example : itRun (pnmBinScanReader 1) (ItState.init [] [7, 8, 9]) (patternOps ['d', 'd', 'd']) = [(0, [7]), (1, [8]), (2, [9])] := by decide

/-- PNM mono (P4), any per-byte manipulation `rowDec` (the reader's and the scanline reader's negate + mirror): under ANY `*it` / `++it`
    sequence the raw scanline handed out at a position inside the image decodes to read_image's row at that position -/
theorem C13_skip_rows_read_image_pnm_mono (rowDec : Bytes → List Bool) (file data : Bytes) (info : PnmInfo) (img : Img Bool)
    (hh : pnmReadHeader file = some (info, data)) (hfull : decodePnmMonoWith rowDec file Settings.full = some img) (ops : List ItOp) :
    ∀ x ∈ itRun (pnmBinScanReader (pnmScanline 4 info.width)) (ItState.init [] data) ops, x.1 < info.height →
      img.rows[x.1]? = some (sliceRow 0 info.width (rowDec (padTo (pnmScanline 4 info.width) x.2))) := by
  intro x hx hlt
  unfold decodePnmMonoWith at hfull
  rw [hh] at hfull
  simp only at hfull
  split at hfull
  · rename_i ht
    injection hfull with hfull
    subst hfull
    have := C13_skip_pattern_pnm_bin data info ops
    rw [ht] at this
    rw [this, List.mem_map] at hx
    obtain ⟨p, _, rfl⟩ := hx
    rw [C13_scanline_rowwise _ _ _ _ _ _ p hlt]
    simp only [pnmScanRow, ht]
  · cases hfull

example : (pnmReadHeader [80, 52, 10, 49, 32, 50, 10, 0x80, 0x00]).map (fun p => (p.1.width, p.1.height, p.1.type, p.2)) = some (1, 2, 4, [0x80, 0x00])
    ∧ (decodePnmMonoWith pnmMonoRowDecFixed [80, 52, 10, 49, 32, 50, 10, 0x80, 0x00] Settings.full).map (·.rows) = some [[false], [true]] := by decide

/-! ### read_image_info reports the dimensions of the image read_image produces -/

theorem C13_info_bmp {α} (f : PixFmt α) (file : Bytes) (img : Img α) (h : decodeBmp f file Settings.full = some img) :
    ∃ info cur, bmpReadHeader file = some (info, cur) ∧ img.w = info.width.toNat ∧ img.h = info.height.toNat ∧ info.bpp = f.size * 8 := by
  unfold decodeBmp at h
  cases hh : bmpReadHeader file with
  | none => rw [hh] at h; cases h
  | some p =>
    obtain ⟨info, cur⟩ := p
    rw [hh] at h
    simp only at h
    split at h
    · split at h
      · injection h with h
        subst h
        rename_i h2
        exact ⟨info, cur, rfl, by simp [bmpReadData, readRows, Settings.full, Settings.dimX], by simp [bmpReadData, readRows, Settings.full, Settings.dimY], h2.symm⟩
      · cases h
    · cases h

theorem C13_info_pnm {α} (f : PixFmt α) (t : Nat) (file : Bytes) (img : Img α) (h : decodePnm f t file Settings.full = some img) :
    ∃ info data, pnmReadHeader file = some (info, data) ∧ img.w = info.width ∧ img.h = info.height ∧ info.type = t := by
  unfold decodePnm at h
  cases hh : pnmReadHeader file with
  | none => rw [hh] at h; cases h
  | some p =>
    obtain ⟨info, data⟩ := p
    rw [hh] at h
    simp only at h
    split at h
    · injection h with h
      subst h
      rename_i h2
      exact ⟨info, data, rfl, by simp [pnmReadBin, readRows, Settings.full, Settings.dimX], by simp [pnmReadBin, readRows, Settings.full, Settings.dimY], h2⟩
    · cases h

/-! ### conversion policy -/

/-- BMP rows that go through the conversion policy (15/16, 24, 32 bit): the converting read applies color_convert to the native pixel -/
theorem C13_convert_bmp_truecolor (bpp : Nat) (dst : Kind) (p : Bytes) (h : bpp ≠ 1 ∧ bpp ≠ 4 ∧ bpp ≠ 8) :
    bmpConvPixel bpp dst p = if bpp = 32 then colorConvert .rgba8 dst p else colorConvert .rgb8 dst (p.take 3) := by
  obtain ⟨h1, h4, h8⟩ := h
  simp [bmpConvPixel, h1, h4, h8]

/-- palette and RLE rows bypass it: a palette entry (0xcb, 0xda, 0x11), whose alpha the reader leaves 0, read with conversion to gray8
    gives its RED channel, while color_convert of the natively read pixel (rgba8, alpha 0) gives 0 -/
theorem C13_bmp_palette_convert_witness :
    bmpConvPixel 8 .gray8 [0xcb, 0xda, 0x11, 0] = [0xcb] ∧ colorConvert .rgba8 .gray8 [0xcb, 0xda, 0x11, 0] = [0] := by
  decide

/-! ### end to end with C12: write a view, read ANY rectangle of the file = that rectangle of the view -/

theorem C13_write_then_read_rect_bmp {α} (f : PixFmt α) (hf : f.Lawful) (hsz : f.size = 3 ∨ f.size = 4)
    (img : Img α) (wf : img.WF) (hw : img.w * 4 + 3 < 2147483648) (hh1 : 1 ≤ img.h) (hh : img.h < 2147483648)
    (s : Settings) (hin : s.Inside img.w img.h) :
    decodeBmp f (encodeBmp f img) s = some (crop s img) :=
  C13_crop_bmp f _ s img (GilVerif.Props.C12.C12_bmp_roundtrip f hf hsz img wf hw hh1 hh) hin

theorem C13_write_then_read_rect_targa {α} (f : PixFmt α) (hf : f.Lawful) (hsz : f.size = 3 ∨ f.size = 4)
    (img : Img α) (wf : img.WF) (hw1 : 1 ≤ img.w) (hw : img.w < 65536) (hh1 : 1 ≤ img.h) (hh : img.h < 65536)
    (s : Settings) (hin : s.Inside img.w img.h) :
    decodeTga f (encodeTga f img) s = some (crop s img) :=
  C13_crop_targa f _ s img (GilVerif.Props.C12.C12_targa_roundtrip f hf hsz img wf hw1 hw hh1 hh) hin

theorem C13_write_then_read_rect_pnm {α} (f : PixFmt α) (hf : f.Lawful) (t : Nat) (ht : (t = 5 ∧ f.size = 1) ∨ (t = 6 ∧ f.size = 3))
    (img : Img α) (wf : img.WF) (hw : PnmIntOk img.w) (hh : PnmIntOk img.h) (s : Settings) (hin : s.Inside img.w img.h) :
    decodePnm f t (encodePnm f t img) s = some (crop s img) :=
  C13_crop_pnm f t _ s img (GilVerif.Props.C12.C12_pnm_roundtrip f hf t ht img wf hw hh) hin

/-- pnm mono (P4) with the writer and reader now in /repo (fedfb71): any rectangle, at any bit offset -/
theorem C13_write_then_read_rect_pnm_mono (img : Img Bool) (wf : img.WF) (hw : PnmIntOk img.w) (hh : PnmIntOk img.h)
    (s : Settings) (hin : s.Inside img.w img.h) :
    decodePnmMonoFixed (encodePnmMonoFixedExec img) s = some (crop s img) :=
  C13_crop_pnm_mono pnmMonoRowDecFixed _ s img (GilVerif.Props.C12.C12_pnm_mono_roundtrip_proposed_fix_exec img wf hw hh) hin

/-! ### the row offset, over the definition re-translated from bmp/detail/read.hpp on every run -/

/-- reader::get_offset(pos) with its C arithmetic (int32 height, uint32 offset, size_t pitch, result narrowed to long) is
    `offset + (height - 1 - pos) * pitch` for every row of a bottom-up image, as long as the file offset fits a long -/
theorem C13_get_offset (pos height offset pitch : Int) (h0 : 0 ≤ pos) (h1 : pos < height) (hh32 : height < 2147483648) (ho : 0 ≤ offset) (hp : 0 ≤ pitch)
    (hb : offset + height * pitch < 9223372036854775808) :
    bmp_get_offset pos height offset pitch = offset + (height - 1 - pos) * pitch := by
  have hpos : height > 0 := by omega
  have hle : (height - 1 - pos) * pitch ≤ height * pitch := Int.mul_le_mul_of_nonneg_right (by omega) hp
  have hnn : 0 ≤ (height - 1 - pos) * pitch := Int.mul_nonneg (by omega) hp
  have hhp : 0 ≤ height * pitch := Int.mul_nonneg (by omega) hp
  unfold bmp_get_offset
  simp only [hpos, if_true]
  have e1 : (height - 1 - pos) % 18446744073709551616 = height - 1 - pos := Int.emod_eq_of_lt (by omega) (by omega)
  rw [e1]
  generalize (height - 1 - pos) * pitch = q at *
  generalize height * pitch = r at *
  omega

/-- the hand-written model's offset is that function -/
theorem C13_get_offset_model (info : BmpInfo) (pitch pos : Nat) (hh : info.height > 0) (hpos : (pos : Int) < info.height) (hh32 : info.height < 2147483648)
    (hb : (info.offset : Int) + info.height * pitch < 9223372036854775808) :
    (bmpGetOffset info pitch pos : Int) = bmp_get_offset pos info.height info.offset pitch := by
  rw [C13_get_offset pos info.height info.offset pitch (by omega) hpos hh32 (by omega) (by omega) hb]
  simp only [bmpGetOffset, hh, if_true]
  have : (info.height.toNat : Int) = info.height := Int.toNat_of_nonneg (by omega)
  have hsub : ((info.height.toNat - 1 - pos : Nat) : Int) = info.height - 1 - pos := by omega
  push_cast
  rw [hsub]

example : bmp_get_offset 0 2 54 4 = 58 ∧ bmp_get_offset 1 2 54 4 = 54 := by decide

/-! ### the row pitch: computed once in the writer (`spn`) and once in the reader (`_pitch`), both re-translated on every run -/

private theorem mask_lit : ((-3 - 1 : Int) % 18446744073709551616).toNat = 18446744073709551612 := by decide

private theorem round4 (p : Int) (h0 : 0 ≤ p) (h1 : p < 18446744073709551616) :
    Int.ofNat (Nat.land (p % 18446744073709551616).toNat ((-3 - 1 : Int) % 18446744073709551616).toNat) = p / 4 * 4 := by
  rw [mask_lit, Int.emod_eq_of_lt h0 h1, land_mask4 _ (by omega)]
  simp only [Int.ofNat_eq_natCast]
  omega

/-- bmp writer: `( view.width() * num_channels + 3 ) & ~3` in size_t arithmetic = the row size rounded up to a multiple of 4 -/
theorem C13_writer_spn (w nch : Int) (hw : 0 ≤ w) (hn : 0 ≤ nch) (hw63 : w < 9223372036854775808)
    (hb : w * nch + 3 < 18446744073709551616) : bmp_writer_spn w nch = (w * nch + 3) / 4 * 4 := by
  have hp : 0 ≤ w * nch := Int.mul_nonneg hw hn
  unfold bmp_writer_spn
  have e1 : w % 18446744073709551616 = w := Int.emod_eq_of_lt hw (by omega)
  have e2 : (w * nch) % 18446744073709551616 = w * nch := Int.emod_eq_of_lt hp (by omega)
  try simp only [e1, e2]
  -- `& ~3` form, or an arithmetic rewrite of it (`/ 4 * 4`, …)
  first
  | exact round4 (w * nch + 3) (by omega) hb
  | (generalize w * nch = p at *; omega)

/-- bmp reader (bits per pixel ≥ 8): `_pitch = width * ((bpp + 7) >> 3)` then `(_pitch + 3) & ~3` -/
theorem C13_reader_pitch (width bpp : Int) (hw : 0 ≤ width) (hbpp : 0 ≤ bpp)
    (hb : width * ((bpp + 7) / 8) + 3 < 18446744073709551616) :
    bmp_reader_pitch_round (bmp_reader_pitch_raw width bpp) = (width * ((bpp + 7) / 8) + 3) / 4 * 4 := by
  have hp : 0 ≤ width * ((bpp + 7) / 8) := Int.mul_nonneg hw (by omega)
  unfold bmp_reader_pitch_round bmp_reader_pitch_raw
  have e1 : (width * ((bpp + 7) / 8)) % 18446744073709551616 = width * ((bpp + 7) / 8) := Int.emod_eq_of_lt hp (by omega)
  try simp only [e1]
  first
  | exact round4 _ (by omega) hb
  | (generalize width * ((bpp + 7) / 8) = p at *; omega)

/-- the mechanism the property names first: the reader's pitch for a `nch`-channel 8-bit file IS the writer's row size -/
theorem C13_pitch_mirrored (w nch : Int) (hw : 0 ≤ w) (hn : 0 ≤ nch) (hw63 : w < 9223372036854775808)
    (hb : w * nch + 3 < 18446744073709551616) :
    bmp_reader_pitch_round (bmp_reader_pitch_raw w (nch * 8)) = bmp_writer_spn w nch := by
  have e : (nch * 8 + 7) / 8 = nch := by omega
  rw [C13_writer_spn w nch hw hn hw63 hb, C13_reader_pitch w (nch * 8) hw (by omega) (by rw [e]; exact hb), e]

/-- and the hand-written model uses exactly these -/
theorem C13_pitch_model (w nch : Nat) (hw63 : (w : Int) < 9223372036854775808) (hb : (w : Int) * nch + 3 < 18446744073709551616) :
    (bmpSpn w nch : Int) = bmp_writer_spn w nch := by
  rw [C13_writer_spn w nch (by omega) (by omega) hw63 hb]
  unfold bmpSpn
  push_cast
  rfl

example : bmp_writer_spn 3 3 = 12 ∧ bmp_reader_pitch_round (bmp_reader_pitch_raw 3 24) = 12 := by decide

end GilVerif.Props.C13
