/-
  C13 -- all ways of reading one file agree
-/
import GilVerif.Model.C13
import GilVerif.Lemmas.Codec

namespace GilVerif.Props.C13
open GilVerif.Codec GilVerif.Model.C13

/-- read_view accepts a view exactly when it is at least as large as the region -/
theorem C13_small_view_rejected (vw vh dx dy : Nat) (h : vw < dx ∨ vh < dy) : viewAccepted vw vh dx dy = false := by
  unfold viewAccepted
  rcases h with h | h <;> simp <;> omega

end GilVerif.Props.C13
