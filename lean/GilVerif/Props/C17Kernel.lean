/-
  C17 -- theorems over the TRANSLATED matrix3x2 kernels (lean/GilVerif/Gen/C17.lean, regenerated from
  extension/numeric/affine.hpp on every run, instantiated with T = long; signed arithmetic is emitted unbounded).

  C17_kernel_mul_assign_eq_mul     (m *= n) = m * n          -- the law broken by seed C17-matrix-mul-assign-inplace
  C17_kernel_mul_is_model / C17_kernel_mul_assign_is_model / C17_kernel_pt_mul_is_model / C17_kernel_assign
                                   the generated defs are the hand model `M32 Int` (mul, mulAssign, apply, member-wise copy)
  C17_kernel_mul_assoc, C17_kernel_mul_one, C17_kernel_mul_assign_one, C17_kernel_apply_mul, C17_kernel_apply_one
  C17_kernel_generators, C17_kernel_translate_compose, C17_kernel_scale_compose, C17_kernel_translate_apply, C17_kernel_scale_apply
  C17_kernel_chain                 a whole history  m *= M1; …; m *= Mn  (any list) is the left fold of operator*
  Proofs are form independent (unfold, then `ring` per component): a harmless rewrite of the C++ still proves,
  a behaviour change breaks the named theorem at `lake build`.
-/
import GilVerif.Gen.C17
import GilVerif.Model.C17
import Mathlib.Tactic.Ring
import Mathlib.Tactic.Linarith
import Mathlib.Tactic.LinearCombination

set_option linter.unusedTactic false
set_option linter.unusedSimpArgs false
set_option linter.unnecessarySeqFocus false
set_option linter.unreachableTactic false

namespace GilVerif.Props.C17Kernel
open GilVerif.Gen.C17 GilVerif.Model.C17

abbrev M6 := Int × Int × Int × Int × Int × Int

/-- the generated kernels on six-tuples -/
def mulT (m n : M6) : M6 :=
  mat_mul m.1 m.2.1 m.2.2.1 m.2.2.2.1 m.2.2.2.2.1 m.2.2.2.2.2 n.1 n.2.1 n.2.2.1 n.2.2.2.1 n.2.2.2.2.1 n.2.2.2.2.2
def mulAssignT (m n : M6) : M6 :=
  mat_mul_assign m.1 m.2.1 m.2.2.1 m.2.2.2.1 m.2.2.2.2.1 m.2.2.2.2.2 n.1 n.2.1 n.2.2.1 n.2.2.2.1 n.2.2.2.2.1 n.2.2.2.2.2
def applyT (m : M6) (p : Int × Int) : Int × Int :=
  pt_mul m.1 m.2.1 m.2.2.1 m.2.2.2.1 m.2.2.2.2.1 m.2.2.2.2.2 p.1 p.2
def ofM (m : M32 Int) : M6 := (m.a, m.b, m.c, m.d, m.e, m.f)
def toM (m : M6) : M32 Int := ⟨m.1, m.2.1, m.2.2.1, m.2.2.2.1, m.2.2.2.2.1, m.2.2.2.2.2⟩

local macro "kernel6" : tactic =>
  `(tactic| (refine Prod.ext ?_ (Prod.ext ?_ (Prod.ext ?_ (Prod.ext ?_ (Prod.ext ?_ ?_)))) <;> (try dsimp only) <;> (try ring)))

/-- `(m *= n) = m * n`: the compound operator leaves exactly the entries of the binary product in the members
    (every entry, for all values).  Seed C17-matrix-mul-assign-inplace (f computed from the updated e) breaks this. -/
theorem C17_kernel_mul_assign_eq_mul (a b c d e f ma mb mc md me mf : Int) :
    mat_mul_assign a b c d e f ma mb mc md me mf = mat_mul a b c d e f ma mb mc md me mf := by
  simp only [mat_mul_assign, mat_mul] <;> kernel6

/-- the generated `operator*` is the hand model's `M32.mul` over `Int` -/
theorem C17_kernel_mul_is_model (m n : M32 Int) :
    mat_mul m.a m.b m.c m.d m.e m.f n.a n.b n.c n.d n.e n.f = ofM (M32.mul m n) := by
  simp only [mat_mul, M32.mul, ofM] <;> kernel6

/-- the generated `operator*=` is the hand model's `M32.mulAssign` over `Int` -/
theorem C17_kernel_mul_assign_is_model (m n : M32 Int) :
    mat_mul_assign m.a m.b m.c m.d m.e m.f n.a n.b n.c n.d n.e n.f = ofM (M32.mulAssign m n) := by
  simp only [mat_mul_assign, M32.mulAssign, M32.mul, ofM] <;> kernel6

/-- `operator=` copies the six members -/
theorem C17_kernel_assign (a b c d e f ma mb mc md me mf : Int) :
    mat_assign a b c d e f ma mb mc md me mf = (ma, mb, mc, md, me, mf) := by
  simp only [mat_assign]

/-- the generated `operator*(point, matrix)` is the hand model's `M32.apply` -/
theorem C17_kernel_pt_mul_is_model (m : M32 Int) (p : Int × Int) :
    pt_mul m.a m.b m.c m.d m.e m.f p.1 p.2 = M32.apply m p := by
  simp only [pt_mul, M32.apply] <;> (refine Prod.ext ?_ ?_ <;> (try dsimp only) <;> (try ring))

/-- associativity of the generated product, all values -/
theorem C17_kernel_mul_assoc (m n k : M6) : mulT (mulT m n) k = mulT m (mulT n k) := by
  simp only [mulT, mat_mul] <;> kernel6

/-- the default-constructed matrix `(1,0,0,1,0,0)` is a two-sided identity of `operator*` -/
theorem C17_kernel_mul_one (m : M6) : mulT (1, 0, 0, 1, 0, 0) m = m ∧ mulT m (1, 0, 0, 1, 0, 0) = m := by
  obtain ⟨a, b, c, d, e, f⟩ := m
  constructor <;> simp only [mulT, mat_mul] <;> kernel6

/-- … and of `operator*=` -/
theorem C17_kernel_mul_assign_one (m : M6) : mulAssignT (1, 0, 0, 1, 0, 0) m = m ∧ mulAssignT m (1, 0, 0, 1, 0, 0) = m := by
  obtain ⟨a, b, c, d, e, f⟩ := m
  constructor <;> simp only [mulAssignT, mat_mul_assign] <;> kernel6

/-- mapping law: `p * (m * n) = (p * m) * n`, i.e. transform(m*n, p) = transform(n, transform(m, p)) -/
theorem C17_kernel_apply_mul (m n : M6) (p : Int × Int) : applyT (mulT m n) p = applyT n (applyT m p) := by
  simp only [applyT, mulT, mat_mul, pt_mul] <;> (refine Prod.ext ?_ ?_ <;> (try dsimp only) <;> (try ring))

/-- … and through a map composed with the compound operator -/
theorem C17_kernel_apply_mul_assign (m n : M6) (p : Int × Int) : applyT (mulAssignT m n) p = applyT n (applyT m p) := by
  simp only [applyT, mulAssignT, mat_mul_assign, pt_mul] <;> (refine Prod.ext ?_ ?_ <;> (try dsimp only) <;> (try ring))

theorem C17_kernel_apply_one (p : Int × Int) : applyT (1, 0, 0, 1, 0, 0) p = p := by
  obtain ⟨x, y⟩ := p
  simp only [applyT, pt_mul] <;> (refine Prod.ext ?_ ?_ <;> (try dsimp only) <;> (try ring))

/-- the generators: both overloads of get_translate / get_scale and the uniform scale build the documented matrices -/
theorem C17_kernel_generators (x y : Int) :
    gen_translate x y = (1, 0, 0, 1, x, y) ∧ gen_translate_pt x y = (1, 0, 0, 1, x, y) ∧
    gen_scale x y = (x, 0, 0, y, 0, 0) ∧ gen_scale_pt x y = (x, 0, 0, y, 0, 0) ∧ gen_scale_uniform x = (x, 0, 0, x, 0, 0) := by
  simp only [gen_translate, gen_translate_pt, gen_scale, gen_scale_pt, gen_scale_uniform, and_self]

/-- translations add, scales multiply -- with the binary and with the compound operator -/
theorem C17_kernel_translate_compose (x y u v : Int) :
    mulT (gen_translate x y) (gen_translate u v) = gen_translate (x + u) (y + v) ∧
    mulAssignT (gen_translate x y) (gen_translate u v) = gen_translate (x + u) (y + v) := by
  constructor <;> simp only [mulT, mulAssignT, mat_mul, mat_mul_assign, gen_translate] <;> kernel6

theorem C17_kernel_scale_compose (x y u v : Int) :
    mulT (gen_scale x y) (gen_scale u v) = gen_scale (x * u) (y * v) ∧
    mulAssignT (gen_scale x y) (gen_scale u v) = gen_scale (x * u) (y * v) := by
  constructor <;> simp only [mulT, mulAssignT, mat_mul, mat_mul_assign, gen_scale] <;> kernel6

theorem C17_kernel_translate_apply (x y : Int) (p : Int × Int) : applyT (gen_translate x y) p = (p.1 + x, p.2 + y) := by
  simp only [applyT, pt_mul, gen_translate] <;> (refine Prod.ext ?_ ?_ <;> (try dsimp only) <;> (try ring))

theorem C17_kernel_scale_apply (x y : Int) (p : Int × Int) : applyT (gen_scale x y) p = (x * p.1, y * p.2) := by
  simp only [applyT, pt_mul, gen_scale] <;> (refine Prod.ext ?_ ?_ <;> (try dsimp only) <;> (try ring))

/-- a translation on the left and a matrix with `b ≠ 0` on the right: the y-translation of `m *= n` is `e*n.b + f*n.d + n.f`
    with the OLD `e` (the instance the seeded in-place rewrite gets wrong: it would give 3*2*… from the new e) -/
theorem C17_kernel_mul_assign_translation_row (a b c d e f ma mb mc md me mf : Int) :
    (mat_mul_assign a b c d e f ma mb mc md me mf).2.2.2.2.2 = e * mb + f * md + mf ∧
    (mat_mul_assign a b c d e f ma mb mc md me mf).2.2.2.2.1 = e * ma + f * mc + me := by
  constructor <;> simp only [mat_mul_assign] <;> (try ring)

example : mat_mul_assign 1 0 0 1 3 5 2 7 (-7) 2 11 13 = (2, 7, -7, 2, -18, 44) := by decide

/-- whole histories: `m *= M1; …; m *= Mn` for ANY list is the left fold of the binary product, and is the model's `M32.chain` -/
theorem C17_kernel_chain (ms : List M6) (m : M6) :
    ms.foldl mulAssignT m = ms.foldl mulT m ∧
    ms.foldl mulAssignT m = ofM (M32.chain (toM m) (ms.map toM)) := by
  have h1 : ∀ x y : M6, mulAssignT x y = mulT x y := fun x y => C17_kernel_mul_assign_eq_mul _ _ _ _ _ _ _ _ _ _ _ _
  have h2 : ∀ x y : M6, mulAssignT x y = ofM (M32.mulAssign (toM x) (toM y)) := fun x y =>
    C17_kernel_mul_assign_is_model (toM x) (toM y)
  have h3 : ∀ x : M32 Int, toM (ofM x) = x := fun x => rfl
  have h4 : ∀ x : M6, ofM (toM x) = x := fun x => rfl
  constructor
  · induction ms generalizing m with
    | nil => rfl
    | cons x xs ih => simp only [List.foldl_cons, h1]; exact ih _
  · induction ms generalizing m with
    | nil => simp only [List.foldl_nil, List.map_nil, M32.chain, h4]
    | cons x xs ih =>
      simp only [List.foldl_cons, List.map_cons, M32.chain] at ih ⊢
      rw [ih, h2, h3]

/-- a map composed step by step with `*=` transforms a point like the steps applied one after the other (any history) -/
theorem C17_kernel_chain_apply (ms : List M6) (m : M6) (p : Int × Int) :
    applyT (ms.foldl mulAssignT m) p = ms.foldl (fun q k => applyT k q) (applyT m p) := by
  induction ms generalizing m with
  | nil => rfl
  | cons x xs ih => simp only [List.foldl_cons]; rw [ih, C17_kernel_apply_mul_assign]

/-! ### inverse, integer instantiation: exact for unimodular matrices -/

private theorem tdiv_unit (x D : Int) (h : D = 1 ∨ D = -1) : Int.tdiv x D = x * D := by
  rcases h with h | h <;> subst h <;> simp [Int.tdiv_neg]

/-- `inverse(m)` for `matrix3x2<long>` with determinant ±1 (truncating division is exact there): `inverse(m) * m = m * inverse(m) = identity`,
    every entry, over the generated `inverse` and the generated product -/
theorem C17_kernel_inverse_unimodular (a b c d e f : Int) (h : a * d - b * c = 1 ∨ a * d - b * c = -1) :
    mulT (mat_inverse a b c d e f) (a, b, c, d, e, f) = (1, 0, 0, 1, 0, 0) ∧
    mulT (a, b, c, d, e, f) (mat_inverse a b c d e f) = (1, 0, 0, 1, 0, 0) := by
  have hDD : (a * d - b * c) * (a * d - b * c) = 1 := by rcases h with h | h <;> rw [h] <;> rfl
  rcases h with h | h <;> constructor <;>
    simp (disch := first | (left; linarith) | (right; linarith)) only [mulT, mat_mul, mat_inverse, tdiv_unit] <;>
    (refine Prod.ext ?_ (Prod.ext ?_ (Prod.ext ?_ (Prod.ext ?_ (Prod.ext ?_ ?_)))) <;> (try dsimp only) <;>
      first | ring1 | linear_combination hDD | linear_combination (-e) * hDD | linear_combination (-f) * hDD)

example : (2 : Int) * 1 - 1 * 1 = 1 ∨ (2 : Int) * 1 - 1 * 1 = -1 := by decide
example : mat_inverse 2 1 1 1 3 (-4) = (1, -1, -1, 2, -7, 11) := by decide

/-- … and it maps points back: `(p * m) * inverse(m) = p` -/
theorem C17_kernel_inverse_maps_back (a b c d e f : Int) (h : a * d - b * c = 1 ∨ a * d - b * c = -1) (p : Int × Int) :
    applyT (mat_inverse a b c d e f) (applyT (a, b, c, d, e, f) p) = p := by
  rw [← C17_kernel_apply_mul, (C17_kernel_inverse_unimodular a b c d e f h).2, C17_kernel_apply_one]

end GilVerif.Props.C17Kernel
