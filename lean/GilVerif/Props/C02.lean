/-
  C02 -- view transformations are exact, copy-free coordinate remappings.

  `C02_kernel_*`: what the translator produced from the current image_view_factory.hpp /
  locator.hpp / virtual_locator.hpp / image_view.hpp equals a fixed reference form.
  Then, for every view record (any base, steps of either sign, padding), every dimension ≥ 0 and
  every valid transformation or list of transformations:
    the factory-built view is the documented closed form (`C02_apply_eq`), has the documented
    dimensions (`C02_dims`, ceil for subsampling), its pixel (x,y) *is* (same address) the source pixel
    at the documented coordinates, which are in range (`C02_map`, `C02_compose`), the algebraic
    identities hold as equalities of view records (`C02_identities`), a store through the derived
    view is the same store as through the source (`C02_shallow_write`), and the same for virtual
    views of either orientation (`C02_virtual_map`, `C02_virtual_compose`).
  Channel views of basic views are built from the generated `make` bodies and `adjacent` predicate
  (`C02_kernel_channel_*`, `C02_channel_view_map`, `C02_channel_view_compose`, `C02_channel_view_in_pixel`);
  `color_converted_view` is a dereference adaptor (`C02_deref_adaptor`).
-/
import GilVerif.Model.C02
import Mathlib.Tactic.Ring
import Mathlib.Tactic.Linarith
import Mathlib.Tactic.SplitIfs

namespace GilVerif.Props.C02
open GilVerif.Gen.C02 GilVerif.Geom GilVerif.Model.C02

macro "kernel_eq" : tactic =>
  `(tactic| first
      | rfl
      | ((try simp only []) <;> (try split_ifs) <;>
          first | rfl | (exfalso; omega) | (ring_nf; done) | (ext <;> (try simp only []) <;> ring1))
      | ((try simp only []) <;> (try ring_nf) <;> (try split_ifs) <;>
          first | rfl | (exfalso; omega) | (ring_nf; done) | (ext <;> (try simp only []) <;> ring1)))

/-! ### kernels in reference form -/

theorem C02_kernel_flipped_up_down_view (w h : Int) : facArgs .flipUD w h = ⟨0, h - 1, 1, -1, 0, w, h⟩ := by
  unfold facArgs FacArgs.ofTuple fac_flipped_up_down_view; kernel_eq
theorem C02_kernel_flipped_left_right_view (w h : Int) : facArgs .flipLR w h = ⟨w - 1, 0, -1, 1, 0, w, h⟩ := by
  unfold facArgs FacArgs.ofTuple fac_flipped_left_right_view; kernel_eq
theorem C02_kernel_transposed_view (w h : Int) : facArgs .transpose w h = ⟨0, 0, 1, 1, 1, h, w⟩ := by
  unfold facArgs FacArgs.ofTuple fac_transposed_view; kernel_eq
theorem C02_kernel_rotated90cw_view (w h : Int) : facArgs .rot90cw w h = ⟨0, h - 1, -1, 1, 1, h, w⟩ := by
  unfold facArgs FacArgs.ofTuple fac_rotated90cw_view; kernel_eq
theorem C02_kernel_rotated90ccw_view (w h : Int) : facArgs .rot90ccw w h = ⟨w - 1, 0, 1, -1, 1, h, w⟩ := by
  unfold facArgs FacArgs.ofTuple fac_rotated90ccw_view; kernel_eq
theorem C02_kernel_rotated180_view (w h : Int) : facArgs .rot180 w h = ⟨w - 1, h - 1, -1, -1, 0, w, h⟩ := by
  unfold facArgs FacArgs.ofTuple fac_rotated180_view; kernel_eq
theorem C02_kernel_subimage_view (x0 y0 sw sh w h : Int) : facArgs (.sub x0 y0 sw sh) w h = ⟨x0, y0, 1, 1, 0, sw, sh⟩ := by
  unfold facArgs FacArgs.ofTuple fac_subimage_view; kernel_eq
theorem C02_kernel_subsampled_view (sx sy w h : Int) :
    facArgs (.subsample sx sy) w h = ⟨0, 0, sx, sy, 0, Int.tdiv (w + (sx - 1)) sx, Int.tdiv (h + (sy - 1)) sy⟩ := by
  unfold facArgs FacArgs.ofTuple fac_subsampled_view; kernel_eq

theorem C02_kernel_loc_ystep_ctor (r s : Int) : loc_ystep_ctor r s = r * s := by unfold loc_ystep_ctor; kernel_eq
theorem C02_kernel_loc_step_ctor_x (tr r p s : Int) : loc_step_ctor_x tr r p s = (if tr ≠ 0 then r else p) * s := by
  unfold loc_step_ctor_x; kernel_eq
theorem C02_kernel_loc_step_ctor_y (tr r p s : Int) : loc_step_ctor_y tr r p s = (if tr ≠ 0 then p else r) * s := by
  unfold loc_step_ctor_y; kernel_eq
theorem C02_kernel_loc_offset (x y r p : Int) : loc_offset x y r p = y * r + x * p := by unfold loc_offset; kernel_eq

/-- the virtual locator's stepping constructors scale, for each result orientation, the step
    component its own axis runs along (this is the statement the pre-fix tree violates) -/
theorem C02_kernel_vloc (ax ay sx sy : Int) :
    vloc_y_id_x ax ay sx sy = ax ∧ vloc_y_id_y ax ay sx sy = ay * sy
    ∧ vloc_y_tr_x ax ay sx sy = ax * sy ∧ vloc_y_tr_y ax ay sx sy = ay
    ∧ vloc_xy_id_x ax ay sx sy = ax * sx ∧ vloc_xy_id_y ax ay sx sy = ay * sy
    ∧ vloc_xy_tr_x ax ay sx sy = ax * sy ∧ vloc_xy_tr_y ax ay sx sy = ay * sx := by
  unfold vloc_y_id_x vloc_y_id_y vloc_y_tr_x vloc_y_tr_y vloc_xy_id_x vloc_xy_id_y vloc_xy_tr_x vloc_xy_tr_y
  exact ⟨by kernel_eq, by kernel_eq, by kernel_eq, by kernel_eq, by kernel_eq, by kernel_eq, by kernel_eq, by kernel_eq⟩

/-- `image_view::xy_at(x,y)` asserts `x <= width()` and `y <= height()` (inclusive since ffc09f2;
    the upstream `x < width()` made every factory abort on views of width 0) -/
theorem C02_kernel_xy_at_ok (x y w h : Int) : xy_at_ok x y w h = if x ≤ w ∧ y ≤ h then 1 else 0 := by
  unfold xy_at_ok
  by_cases h1 : x ≤ w <;> by_cases h2 : y ≤ h <;> simp [h1, h2]

/-- `image_view::operator()(x,y)` asserts `0 <= x < width()` and `0 <= y < height()` -/
theorem C02_kernel_call_ok (x y w h : Int) : call_ok x y w h = if (0 ≤ x ∧ x < w) ∧ (0 ≤ y ∧ y < h) then 1 else 0 := by
  unfold call_ok
  by_cases h1 : (0 ≤ x ∧ x < w) <;> by_cases h2 : (0 ≤ y ∧ y < h) <;> simp [h1, h2]

private theorem facArgs_eq (t : Xform) (w h : Int) : facArgs t w h =
    match t with
    | .flipUD => ⟨0, h - 1, 1, -1, 0, w, h⟩ | .flipLR => ⟨w - 1, 0, -1, 1, 0, w, h⟩
    | .transpose => ⟨0, 0, 1, 1, 1, h, w⟩ | .rot90cw => ⟨0, h - 1, -1, 1, 1, h, w⟩
    | .rot90ccw => ⟨w - 1, 0, 1, -1, 1, h, w⟩ | .rot180 => ⟨w - 1, h - 1, -1, -1, 0, w, h⟩
    | .sub x0 y0 sw sh => ⟨x0, y0, 1, 1, 0, sw, sh⟩
    | .subsample sx sy => ⟨0, 0, sx, sy, 0, Int.tdiv (w + (sx - 1)) sx, Int.tdiv (h + (sy - 1)) sy⟩ := by
  cases t
  · exact C02_kernel_flipped_up_down_view w h
  · exact C02_kernel_flipped_left_right_view w h
  · exact C02_kernel_transposed_view w h
  · exact C02_kernel_rotated90cw_view w h
  · exact C02_kernel_rotated90ccw_view w h
  · exact C02_kernel_rotated180_view w h
  · exact C02_kernel_subimage_view _ _ _ _ w h
  · exact C02_kernel_subsampled_view _ _ w h

/-! ### memory-based views -/

/-- the view the factory + locator constructor build is the closed form of Basic/Geom.lean -/
theorem C02_apply_eq (t : Xform) (v : View) : applyMem t v = t.apply v := by
  unfold applyMem
  rw [facArgs_eq]
  cases t <;>
    simp only [ctorOf, Xform.apply, View.addr, C02_kernel_loc_offset, C02_kernel_loc_ystep_ctor, C02_kernel_loc_step_ctor_x,
      C02_kernel_loc_step_ctor_y] <;>
    (ext <;> simp <;> try ring1)

theorem C02_applyAll_eq (ts : List Xform) (v : View) : applyMemAll ts v = applyAll ts v := by
  induction ts generalizing v with
  | nil => rfl
  | cons t ts ih =>
    show applyMemAll ts (applyMem t v) = applyAll ts (t.apply v)
    rw [C02_apply_eq]; exact ih _

private theorem tdiv_ceil (w s : Int) (hw : 0 ≤ w) (hs : 0 < s) : Int.tdiv (w + (s - 1)) s = (w + s - 1) / s := by
  rw [Int.tdiv_eq_ediv_of_nonneg (by omega)]; congr 1; omega

/-- `(w + s - 1) / s` is the ceiling of `w / s` -/
theorem C02_subsample_ceil (w s : Int) (hw : 0 ≤ w) (hs : 0 < s) :
    ((w + s - 1) / s - 1) * s < w ∧ w ≤ ((w + s - 1) / s) * s ∧ 0 ≤ (w + s - 1) / s := by
  have h1 := Int.mul_ediv_add_emod (w + s - 1) s
  have h2 := Int.emod_nonneg (w + s - 1) (show s ≠ 0 by omega)
  have h3 := Int.emod_lt_of_pos (w + s - 1) hs
  have e : ((w + s - 1) / s - 1) * s = s * ((w + s - 1) / s) - s := by ring
  have e' : ((w + s - 1) / s) * s = s * ((w + s - 1) / s) := by ring
  refine ⟨by rw [e]; omega, by rw [e']; omega, Int.ediv_nonneg (by omega) (by omega)⟩

/-- documented dimensions (flips keep, transposing swaps, subimage as given, subsample = ceil) -/
theorem C02_dims (t : Xform) (v : View) (hv : t.Valid v) (hw : 0 ≤ v.w) (hh : 0 ≤ v.h) :
    ((applyMem t v).w, (applyMem t v).h) = t.dims (v.w, v.h) ∧ 0 ≤ (applyMem t v).w ∧ 0 ≤ (applyMem t v).h := by
  rw [C02_apply_eq]
  cases t with
  | subsample sx sy =>
    simp only [Xform.apply, Xform.dims, Xform.Valid] at *
    rw [tdiv_ceil _ _ hw hv.1, tdiv_ceil _ _ hh hv.2]
    exact ⟨rfl, (C02_subsample_ceil _ _ hw hv.1).2.2, (C02_subsample_ceil _ _ hh hv.2).2.2⟩
  | sub x0 y0 sw sh =>
    simp only [Xform.apply, Xform.dims, Xform.Valid] at *
    refine ⟨?_, ?_, ?_⟩ <;> first | rfl | trivial | omega
  | _ => simp only [Xform.apply, Xform.dims]; refine ⟨?_, ?_, ?_⟩ <;> first | rfl | trivial | omega

private theorem sub_lt_of_ceil (w s x : Int) (hw : 0 ≤ w) (hs : 0 < s) (hx0 : 0 ≤ x) (hx : x < (w + s - 1) / s) :
    0 ≤ x * s ∧ x * s < w := by
  obtain ⟨c1, _, _⟩ := C02_subsample_ceil w s hw hs
  have : x * s ≤ ((w + s - 1) / s - 1) * s := Int.mul_le_mul_of_nonneg_right (by omega) (by omega)
  exact ⟨Int.mul_nonneg hx0 (by omega), by omega⟩

/-- **the coordinate map**: pixel (x,y) of the derived view is, *at the same address*, the source
    pixel at the documented coordinates, and those are in range -/
theorem C02_map (t : Xform) (v : View) (hv : t.Valid v) (hw : 0 ≤ v.w) (hh : 0 ≤ v.h) (x y : Int)
    (hr : (applyMem t v).InRange x y) :
    (applyMem t v).addr x y = v.addr (t.phi (v.w, v.h) (x, y)).1 (t.phi (v.w, v.h) (x, y)).2
    ∧ v.InRange (t.phi (v.w, v.h) (x, y)).1 (t.phi (v.w, v.h) (x, y)).2 := by
  rw [C02_apply_eq] at *
  cases t with
  | subsample sx sy =>
    simp only [Xform.apply, Xform.phi, Xform.Valid, View.addr, View.InRange] at *
    rw [tdiv_ceil _ _ hw hv.1, tdiv_ceil _ _ hh hv.2] at hr
    have hx := sub_lt_of_ceil v.w sx x hw hv.1 hr.1 hr.2.1
    have hy := sub_lt_of_ceil v.h sy y hh hv.2 hr.2.2.1 hr.2.2.2
    exact ⟨by ring, hx.1, hx.2, hy.1, hy.2⟩
  | sub x0 y0 sw sh =>
    simp only [Xform.apply, Xform.phi, Xform.Valid, View.addr, View.InRange] at *
    exact ⟨by ring, by omega⟩
  | _ =>
    simp only [Xform.apply, Xform.phi, View.addr, View.InRange] at *
    exact ⟨by ring, by omega⟩

example : (applyMem .rot90cw { base := 0, xs := 3, ys := 20, w := 4, h := 3 }).InRange 2 3
    ∧ (applyMem .rot90cw { base := 0, xs := 3, ys := 20, w := 4, h := 3 }).addr 2 3 = 0 * 20 + 3 * 3 := by decide

/-- **any composition** (induction over the list): same address as the source pixel at the composed
    documented coordinates, which are in range; dimensions stay non-negative -/
theorem C02_compose (ts : List Xform) (v : View) (hv : validAll ts v) (hw : 0 ≤ v.w) (hh : 0 ≤ v.h) (x y : Int)
    (hr : (applyMemAll ts v).InRange x y) :
    (applyMemAll ts v).addr x y = v.addr (phiAll ts v (x, y)).1 (phiAll ts v (x, y)).2
    ∧ v.InRange (phiAll ts v (x, y)).1 (phiAll ts v (x, y)).2 := by
  induction ts generalizing v with
  | nil => exact ⟨rfl, hr⟩
  | cons t ts ih =>
    obtain ⟨hv1, hv2⟩ := hv
    obtain ⟨_, dw, dh⟩ := C02_dims t v hv1 hw hh
    have e : applyMemAll (t :: ts) v = applyMemAll ts (applyMem t v) := rfl
    rw [e] at hr ⊢
    rw [C02_apply_eq] at dw dh
    have hv2' : validAll ts (applyMem t v) := by rw [C02_apply_eq]; exact hv2
    obtain ⟨i1, i2⟩ := ih (t.apply v) hv2 dw dh (by rw [← C02_apply_eq]; exact hr)
    obtain ⟨m1, m2⟩ := C02_map t v hv1 hw hh _ _ (by rw [C02_apply_eq]; exact i2)
    simp only [phiAll]
    rw [C02_apply_eq] at m1 ⊢
    exact ⟨i1.trans m1, m2⟩

example : validAll [.rot90cw, .subsample 2 1, .flipLR] { base := 0, xs := 1, ys := 7, w := 5, h := 4 }
    ∧ (applyMemAll [.rot90cw, .subsample 2 1, .flipLR] { base := 0, xs := 1, ys := 7, w := 5, h := 4 }).InRange 1 4 := by decide

/-- the algebraic identities, as equalities of view records (so for every pixel and every address) -/
theorem C02_identities (v : View) :
    applyMem .flipUD (applyMem .flipUD v) = v
    ∧ applyMem .flipLR (applyMem .flipLR v) = v
    ∧ applyMem .transpose (applyMem .transpose v) = v
    ∧ applyMem .rot90cw (applyMem .rot90cw (applyMem .rot90cw (applyMem .rot90cw v))) = v
    ∧ applyMem .rot90ccw (applyMem .rot90cw v) = v
    ∧ applyMem .rot90cw (applyMem .rot90ccw v) = v
    ∧ applyMem .rot180 (applyMem .rot180 v) = v
    ∧ applyMem .flipLR (applyMem .flipUD v) = applyMem .rot180 v
    ∧ applyMem .flipUD (applyMem .flipLR v) = applyMem .rot180 v
    ∧ applyMem .rot90cw (applyMem .rot90cw v) = applyMem .rot180 v
    ∧ applyMem .flipLR (applyMem .transpose v) = applyMem .rot90cw v
    ∧ applyMem .flipUD (applyMem .transpose v) = applyMem .rot90ccw v := by
  simp only [C02_apply_eq]
  refine ⟨?_, ?_, ?_, ?_, ?_, ?_, ?_, ?_, ?_, ?_, ?_, ?_⟩ <;>
    (simp only [Xform.apply, View.addr]; ext <;> simp <;> ring)

/-- channel views: same steps and dimensions, every pixel `chanOff` memory units further (the
    selected channel of the same source pixel) -/
theorem C02_channel_view (off : Int) (v : View) (x y : Int) :
    (nthChannel off v).addr x y = v.addr x y + off ∧ (nthChannel off v).w = v.w ∧ (nthChannel off v).h = v.h
    ∧ (nthChannel off v).xs = v.xs ∧ (nthChannel off v).ys = v.ys := by
  simp only [nthChannel, View.addr, and_true]; ring

/-! ### shallow writes -/

/-- memory as a function from memory units to values; `store m a vals` writes `vals` at `a, a+1, …` -/
def store (m : Int → Int) (a : Int) : List Int → (Int → Int)
  | [] => m
  | x :: rest => store (fun b => if b = a then x else m b) (a + 1) rest

private theorem store_lt (m : Int → Int) (a : Int) (vals : List Int) (b : Int) (h : b < a) : store m a vals b = m b := by
  induction vals generalizing m a with
  | nil => rfl
  | cons x rest ih =>
    simp only [store]; rw [ih _ _ (by omega)]
    have : b ≠ a := by omega
    simp [this]

/-- frame law: a store of `n` units at `a` changes exactly `[a, a+n)` (and puts the values there) -/
theorem C02_store_frame (m : Int → Int) (a : Int) (vals : List Int) (b : Int) :
    (b < a ∨ a + vals.length ≤ b → store m a vals b = m b)
    ∧ (∀ i : Nat, i < vals.length → store m a vals (a + i) = vals[i]!) := by
  induction vals generalizing m a with
  | nil => exact ⟨fun _ => rfl, fun i hi => absurd hi (Nat.not_lt_zero i)⟩
  | cons x rest ih =>
    obtain ⟨f1, f2⟩ := ih (fun b => if b = a then x else m b) (a + 1)
    have hlen : ((x :: rest).length : Int) = rest.length + 1 := by simp
    constructor
    · intro h
      simp only [store]
      rw [f1 (by omega)]
      have : b ≠ a := by omega
      simp [this]
    · intro i hi
      cases i with
      | zero =>
        simp only [store]
        rw [show a + ((0 : Nat) : Int) = a by simp, store_lt _ _ _ _ (by omega)]
        simp
      | succ j =>
        simp only [store]
        have hj := f2 j (by simpa using hi)
        have e : a + ((j + 1 : Nat) : Int) = a + 1 + (j : Int) := by push_cast; ring
        rw [e, hj]; simp

/-- **shallow**: a store through the derived view at (x,y) *is* the store through the source view at
    the documented coordinates (so, by the frame law, it changes exactly that pixel's memory units) -/
theorem C02_shallow_write (ts : List Xform) (v : View) (hv : validAll ts v) (hw : 0 ≤ v.w) (hh : 0 ≤ v.h) (x y : Int)
    (hr : (applyMemAll ts v).InRange x y) (m : Int → Int) (vals : List Int) :
    store m ((applyMemAll ts v).addr x y) vals = store m (v.addr (phiAll ts v (x, y)).1 (phiAll ts v (x, y)).2) vals := by
  rw [(C02_compose ts v hv hw hh x y hr).1]

/-! ### assertions on empty views -/

/-- no valid coordinate transformation of a view with non-negative dimensions -- **empty views
    included** -- trips the assertions of `xy_at` -/
theorem C02_no_assert (t : Xform) (w h : Int) (hw : 0 ≤ w) (hh : 0 ≤ h)
    (hv : match t with | .sub x0 y0 sw sh => 0 ≤ x0 ∧ 0 ≤ y0 ∧ 0 ≤ sw ∧ 0 ≤ sh ∧ x0 + sw ≤ w ∧ y0 + sh ≤ h | _ => True) :
    xyAtAsserts (facArgs t w h) w h = false := by
  unfold xyAtAsserts
  rw [facArgs_eq, C02_kernel_xy_at_ok]
  cases t <;> simp only [] at * <;> simp <;> omega

example : xyAtAsserts (facArgs .flipUD 0 3) 0 3 = false ∧ xyAtAsserts (facArgs (.sub 2 1 0 0) 2 1) 2 1 = false := by decide

-- OPEN (not proven): FALSE while nth_channel_view / kth_channel_view take the channel address through
-- image_view::operator()(0,0) (known finding C02-empty-view-factory-assert):
--   theorem C02_channel_view_no_assert (w h : Int) (hw : 0 ≤ w) (hh : 0 ≤ h) : channel views of a w x h view do not assert
/-- channel views of basic views: if the channel's address is taken through
    `image_view::operator()(0,0)` (it is, unless proposed_fixes/C02-channel-view-of-empty-view.diff is
    applied), then building the channel view of an *empty* view trips its assertion, and only then -/
theorem C02_channel_view_assert_partial (w h : Int) (hw : 0 ≤ w) (hh : 0 ≤ h) :
    (nth_channel_through_view = 1 → (call_ok 0 0 w h = 0 ↔ (w = 0 ∨ h = 0)))
    ∧ (nth_channel_through_view = 1 → call_ok 0 0 0 3 = 0 ∧ call_ok 0 0 3 0 = 0) := by
  simp only [C02_kernel_call_ok]
  refine ⟨fun _ => ?_, fun _ => by decide⟩
  by_cases h1 : w = 0 <;> by_cases h2 : h = 0 <;> simp [h1, h2] <;> omega

/-! ### virtual views -/

/-- the coordinate map for `virtual_2d_locator` views of either orientation -/
theorem C02_virtual_map (t : Xform) (v : VView) (x y : Int) :
    (applyVirt t v).pt x y = v.pt (t.phi (v.w, v.h) (x, y)).1 (t.phi (v.w, v.h) (x, y)).2 := by
  obtain ⟨k1, k2, k3, k4, k5, k6, k7, k8⟩ := C02_kernel_vloc v.sx v.sy (facArgs t v.w v.h).sx (facArgs t v.w v.h).sy
  obtain ⟨j1, j2, j3, j4, _⟩ := C02_kernel_vloc v.sx v.sy 1 (facArgs t v.w v.h).sy
  unfold applyVirt
  simp only [k5, k6, k7, k8, j1, j2, j3, j4]
  rw [facArgs_eq]
  cases t <;> cases htr : v.tr <;> simp [ctorOf, VView.pt, Xform.phi, htr] <;> first | ring1 | (constructor <;> ring1)

theorem C02_virtual_dims (t : Xform) (v : VView) :
    ((applyVirt t v).w, (applyVirt t v).h) = ((applyMem t ⟨0, 0, 0, v.w, v.h⟩).w, (applyMem t ⟨0, 0, 0, v.w, v.h⟩).h) := by
  unfold applyVirt applyMem
  cases t <;> simp only [ctorOf] <;> split_ifs <;> rfl

def phiAllV : List Xform → VView → Int × Int → Int × Int
  | [], _, p => p
  | t :: ts, v, p => t.phi (v.w, v.h) (phiAllV ts (applyVirt t v) p)

/-- any composition on a virtual view (this includes `flipped_up_down_view(transposed_view(v))`,
    `subsampled_view(transposed_view(v),2,1)` and `rotated90cw_view(rotated90cw_view(v))`, which the
    pre-fix tree got wrong) -/
theorem C02_virtual_compose (ts : List Xform) (v : VView) (x y : Int) :
    (applyVirtAll ts v).pt x y = v.pt (phiAllV ts v (x, y)).1 (phiAllV ts v (x, y)).2 := by
  induction ts generalizing v with
  | nil => rfl
  | cons t ts ih =>
    have e : applyVirtAll (t :: ts) v = applyVirtAll ts (applyVirt t v) := rfl
    rw [e, ih, phiAllV, C02_virtual_map]

example : (applyVirtAll [.transpose, .flipUD] ⟨0, 0, 1, 1, false, 4, 3⟩).pt 1 0 = (3, 1) := by decide

/-- `position_iterator::operator=` copies the position and BOTH step components -/
theorem C02_kernel_position_assign (a b c d px py sx sy : Int) : pos_assign a b c d px py sx sy = (a, b, c, d) := by
  unfold pos_assign; kernel_eq

/-- **assignment of virtual views / locators**: whatever the assigned-to view was before (default-constructed, differently stepped),
    after `dst = src` it IS `src` (same record), so every coordinate map and identity above holds for chains built by assignment too -/
theorem C02_virtual_assign (dst src : VView) : dst.assign src = src := by
  unfold VView.assign; rw [C02_kernel_position_assign]

/-! ### channel views of basic views: the generated `make` bodies -/

/-- `__nth_channel_view_basic<View,false>::make` / `__kth_…<K,View,false>::make` (channels not adjacent): the new
    x-iterator points at channel `n` (`K`) of pixel (0,0) and steps by the SOURCE's pixel step; rows by the source's row step -/
theorem C02_kernel_channel_stepped (n k p r c w h a1 a2 a3 a4 a5 a6 a7 : Int) :
    nth_channel_stepped n k p r c w h a1 a2 a3 a4 a5 a6 a7 = (0, 0, n, p, r, w, h)
    ∧ kth_channel_stepped n k p r c w h a1 a2 a3 a4 a5 a6 a7 = (0, 0, k, p, r, w, h) := by
  unfold nth_channel_stepped kth_channel_stepped; exact ⟨by kernel_eq, by kernel_eq⟩

/-- `__nth_channel_view_basic<View,true>::make` / kth (channels adjacent: planar or single-channel, not a step
    iterator): `interleaved_view(w, h, &channel n of pixel (0,0), row_size)` -/
theorem C02_kernel_channel_adjacent (n k p r c w h a1 a2 a3 a4 a5 a6 a7 : Int) :
    nth_channel_adjacent n k p r c w h a1 a2 a3 a4 a5 a6 a7 = (0, 0, n, c, r, w, h)
    ∧ kth_channel_adjacent n k p r c w h a1 a2 a3 a4 a5 a6 a7 = (0, 0, k, c, r, w, h) := by
  unfold nth_channel_adjacent kth_channel_adjacent; exact ⟨by kernel_eq, by kernel_eq⟩

/-- the `adjacent` predicate: not a step iterator, and planar or single-channel -/
theorem C02_kernel_channel_is_adjacent (s pl nch : Int) :
    nth_channel_is_adjacent s pl nch = (if s = 0 ∧ (pl ≠ 0 ∨ nch = 1) then 1 else 0)
    ∧ kth_channel_is_adjacent s pl nch = (if s = 0 ∧ (pl ≠ 0 ∨ nch = 1) then 1 else 0) := by
  unfold nth_channel_is_adjacent kth_channel_is_adjacent
  constructor <;> (split_ifs <;> first | rfl | (exfalso; omega) | (exfalso; simp_all))

/-- **channel views are exact**: pixel (x,y) of `nth_channel_view(v, n)` / `kth_channel_view<n>(v)` of a basic view is
    channel `n` of source pixel (x,y) -- address = source address + `chanAddr n`, same pixel step, row step and dimensions
    (`= nthChannel (chanAddr n) v` as records).  `hadj`: a NON-step x-iterator of a planar or single-channel view steps by one channel. -/
theorem C02_channel_view_map (kth : Bool) (t : ChanSrc) (chanAddr : Int → Int) (n : Int) (v : View)
    (hadj : t.isStep = false → (t.planar = true ∨ t.nch = 1) → v.xs = t.chanSize) :
    chanViewMem kth t chanAddr n v = nthChannel (chanAddr n) v
    ∧ ∀ x y, (chanViewMem kth t chanAddr n v).addr x y = v.addr x y + chanAddr n := by
  have main : chanViewMem kth t chanAddr n v = nthChannel (chanAddr n) v := by
    obtain ⟨s1, s2⟩ := C02_kernel_channel_stepped n n v.xs v.ys t.chanSize v.w v.h 0 0 0 0 0 0 0
    obtain ⟨s1', _⟩ := C02_kernel_channel_stepped n 0 v.xs v.ys t.chanSize v.w v.h 0 0 0 0 0 0 0
    obtain ⟨_, s2'⟩ := C02_kernel_channel_stepped 0 n v.xs v.ys t.chanSize v.w v.h 0 0 0 0 0 0 0
    obtain ⟨a1', _⟩ := C02_kernel_channel_adjacent n 0 v.xs v.ys t.chanSize v.w v.h 0 0 0 0 0 0 0
    obtain ⟨_, a2'⟩ := C02_kernel_channel_adjacent 0 n v.xs v.ys t.chanSize v.w v.h 0 0 0 0 0 0 0
    obtain ⟨j1, j2⟩ := C02_kernel_channel_is_adjacent (b2i t.isStep) (b2i t.planar) t.nch
    unfold chanViewMem chanArgs nthChannel
    rw [j1, j2]
    cases hs : t.isStep <;> cases hp : t.planar <;> cases kth <;>
      simp only [b2i, hs, hp, Bool.false_eq_true, if_false, if_true, s1', s2', a1', a2', ChanArgs.ofTuple, C02_kernel_loc_offset] <;>
      (split_ifs <;> (ext <;> simp <;> first | omega | (simp_all; done)))
  refine ⟨main, fun x y => ?_⟩
  rw [main]; exact (C02_channel_view (chanAddr n) v x y).1

example : chanViewMem false ⟨false, false, 3, 2⟩ (fun k => k * 2) 1 { base := 10, xs := 6, ys := 40, w := 5, h := 4 }
      = { base := 12, xs := 6, ys := 40, w := 5, h := 4 }
    ∧ chanViewMem true ⟨false, true, 3, 1⟩ (fun k => k * 8192) 2 { base := 0, xs := 1, ys := 7, w := 5, h := 4 }
      = { base := 16384, xs := 1, ys := 7, w := 5, h := 4 } := by decide

/-- the channel view's pixel lies INSIDE the source pixel (interleaved homogeneous pixels of `nch` channels of `c` memory
    units): channel views add no bytes to the access set of the source view (used by C01) -/
theorem C02_channel_view_in_pixel (kth : Bool) (t : ChanSrc) (n : Int) (v : View) (x y : Int)
    (hadj : t.isStep = false → (t.planar = true ∨ t.nch = 1) → v.xs = t.chanSize)
    (hc : 0 < t.chanSize) (hn0 : 0 ≤ n) (hn : n < t.nch) :
    v.addr x y ≤ (chanViewMem kth t (fun k => k * t.chanSize) n v).addr x y
    ∧ (chanViewMem kth t (fun k => k * t.chanSize) n v).addr x y + t.chanSize ≤ v.addr x y + t.nch * t.chanSize := by
  rw [(C02_channel_view_map kth t (fun k => k * t.chanSize) n v hadj).2 x y]
  have h1 : 0 ≤ n * t.chanSize := Int.mul_nonneg hn0 (by omega)
  have h2 : (n + 1) * t.chanSize ≤ t.nch * t.chanSize := Int.mul_le_mul_of_nonneg_right (by omega) (by omega)
  have e : (n + 1) * t.chanSize = n * t.chanSize + t.chanSize := by ring
  constructor <;> omega

private theorem apply_nthChannel (t : Xform) (off : Int) (v : View) : t.apply (nthChannel off v) = nthChannel off (t.apply v) := by
  cases t <;> simp only [Xform.apply, nthChannel, View.addr] <;> (ext <;> simp <;> ring)

private theorem applyAll_nthChannel (ts : List Xform) (off : Int) (v : View) :
    applyAll ts (nthChannel off v) = nthChannel off (applyAll ts v) := by
  induction ts generalizing v with
  | nil => rfl
  | cons t ts ih =>
    show applyAll ts (t.apply (nthChannel off v)) = nthChannel off (applyAll ts (t.apply v))
    rw [apply_nthChannel, ih]

private theorem validAll_append (ts0 ts1 : List Xform) (v : View) :
    validAll (ts0 ++ ts1) v ↔ validAll ts0 v ∧ validAll ts1 (applyAll ts0 v) := by
  induction ts0 generalizing v with
  | nil => simp [validAll, applyAll]
  | cons t ts ih =>
    simp only [List.cons_append, validAll, ih (t.apply v), and_assoc]
    rfl

private theorem validAll_nthChannel (ts : List Xform) (off : Int) (v : View) : validAll ts (nthChannel off v) ↔ validAll ts v := by
  induction ts generalizing v with
  | nil => simp [validAll]
  | cons t ts ih =>
    simp only [validAll, apply_nthChannel, ih]
    have : t.Valid (nthChannel off v) ↔ t.Valid v := by cases t <;> simp [Xform.Valid, nthChannel]
    rw [this]

/-- **channel views inside any composition**: transformations `ts0`, then `nth_channel_view(·, n)` / `kth_channel_view<n>`,
    then transformations `ts1`: pixel (x,y) of the result is channel `n` of the source pixel at the coordinates the documented
    maps of `ts0 ++ ts1` give (so channel views commute with every coordinate transformation) -/
theorem C02_channel_view_compose (kth : Bool) (t : ChanSrc) (chanAddr : Int → Int) (n : Int) (ts0 ts1 : List Xform) (v : View)
    (hadj : t.isStep = false → (t.planar = true ∨ t.nch = 1) → (applyMemAll ts0 v).xs = t.chanSize)
    (hv : validAll (ts0 ++ ts1) v) (hw : 0 ≤ v.w) (hh : 0 ≤ v.h) (x y : Int)
    (hr : (applyMemAll ts1 (chanViewMem kth t chanAddr n (applyMemAll ts0 v))).InRange x y) :
    (applyMemAll ts1 (chanViewMem kth t chanAddr n (applyMemAll ts0 v))).addr x y
      = v.addr (phiAll (ts0 ++ ts1) v (x, y)).1 (phiAll (ts0 ++ ts1) v (x, y)).2 + chanAddr n
    ∧ v.InRange (phiAll (ts0 ++ ts1) v (x, y)).1 (phiAll (ts0 ++ ts1) v (x, y)).2 := by
  have e1 : applyMemAll ts1 (chanViewMem kth t chanAddr n (applyMemAll ts0 v)) = nthChannel (chanAddr n) (applyMemAll (ts0 ++ ts1) v) := by
    rw [(C02_channel_view_map kth t chanAddr n _ hadj).1]
    simp only [C02_applyAll_eq, applyAll_nthChannel]
    simp [applyAll, List.foldl_append]
  rw [e1] at hr ⊢
  have hr' : (applyMemAll (ts0 ++ ts1) v).InRange x y := hr
  obtain ⟨c1, c2⟩ := C02_compose (ts0 ++ ts1) v hv hw hh x y hr'
  exact ⟨by rw [(C02_channel_view _ _ x y).1, c1], c2⟩

example : validAll ([.rot90cw] ++ [.subsample 2 1]) { base := 0, xs := 3, ys := 20, w := 5, h := 4 }
    ∧ (applyMemAll [.subsample 2 1] (chanViewMem false ⟨true, false, 3, 1⟩ (fun k => k) 2 (applyMemAll [.rot90cw] { base := 0, xs := 3, ys := 20, w := 5, h := 4 }))).InRange 1 2
    ∧ (applyMemAll [.subsample 2 1] (chanViewMem false ⟨true, false, 3, 1⟩ (fun k => k) 2 (applyMemAll [.rot90cw] { base := 0, xs := 3, ys := 20, w := 5, h := 4 }))).addr 1 2
        = (1 * 20 + 2 * 3) + 2 := by decide

/-! ### dereference adaptors -/

/-- **`color_converted_view` is a dereference adaptor**: whatever coordinate transformations are applied before (`ts0`) and after
    (`ts1`) it, reading pixel (x,y) gives `cc` applied to the source pixel at the documented coordinates; the locator (addresses,
    steps, dimensions) is the one of the plain transformed view -/
theorem C02_deref_adaptor {α β γ : Type} (cc : β → γ) (d : DView α β) (ts0 ts1 : List Xform) (m : Int → α)
    (hv : validAll (ts0 ++ ts1) d.v) (hw : 0 ≤ d.v.w) (hh : 0 ≤ d.v.h) (x y : Int)
    (hr : ((colorConverted cc (d.applyAll ts0)).applyAll ts1).v.InRange x y) :
    ((colorConverted cc (d.applyAll ts0)).applyAll ts1).read m x y
      = cc (d.read m (phiAll (ts0 ++ ts1) d.v (x, y)).1 (phiAll (ts0 ++ ts1) d.v (x, y)).2)
    ∧ ((colorConverted cc (d.applyAll ts0)).applyAll ts1).v = applyMemAll (ts0 ++ ts1) d.v
    ∧ d.v.InRange (phiAll (ts0 ++ ts1) d.v (x, y)).1 (phiAll (ts0 ++ ts1) d.v (x, y)).2 := by
  have e : ((colorConverted cc (d.applyAll ts0)).applyAll ts1).v = applyMemAll (ts0 ++ ts1) d.v := by
    simp [DView.applyAll, colorConverted, applyMemAll, List.foldl_append]
  rw [e] at hr
  obtain ⟨c1, c2⟩ := C02_compose (ts0 ++ ts1) d.v hv hw hh x y hr
  refine ⟨?_, e, c2⟩
  simp only [DView.read, e, c1]
  rfl

-- OPEN (not proven): FALSE on trees without 2003adb (probe deref_step_keeps_functor = 0) when the transformations after the adaptor are applied as the code applies them
-- (`DView.applyCode`, adaptor outermost, a transformation that steps in x among `ts1`): known finding C02-deref-adaptor-step-drops-functor.
--   theorem C02_deref_adaptor_code … ((colorConverted cc d).applyCode keeps dflt ts1).read m x y = cc (d.read m (phiAll ts1 d.v (x, y)) …)
/-- the proven restriction: as the code applies them, the transformations after a colour-converting (or any other) dereference adaptor give
    `cc (source pixel at the documented coordinates)` when none of them steps in x, or when the tree keeps the function object -/
theorem C02_deref_adaptor_partial {α β γ : Type} (cc : β → γ) (dflt : α → γ) (d : DView α β) (ts1 : List Xform) (m : Int → α) (keeps : Bool)
    (hk : keeps = true ∨ ts1.all (fun t => !t.stepsX) = true)
    (hv : validAll ts1 d.v) (hw : 0 ≤ d.v.w) (hh : 0 ≤ d.v.h) (x y : Int)
    (hr : ((colorConverted cc d).applyCode keeps dflt ts1).v.InRange x y) :
    ((colorConverted cc d).applyCode keeps dflt ts1).read m x y = cc (d.read m (phiAll ts1 d.v (x, y)).1 (phiAll ts1 d.v (x, y)).2) := by
  have hd : ((colorConverted cc d).applyCode keeps dflt ts1).deref = cc ∘ d.deref := by
    simp only [DView.applyCode, colorConverted]
    rcases hk with h | h
    · simp [h]
    · have : ts1.any Xform.stepsX = false := by
        rw [List.any_eq_false]; intro t ht
        have := List.all_eq_true.1 h t ht
        simpa using this
      simp [this]
  have e : ((colorConverted cc d).applyCode keeps dflt ts1).v = applyMemAll ts1 d.v := rfl
  rw [e] at hr
  obtain ⟨c1, _⟩ := C02_compose ts1 d.v hv hw hh x y hr
  simp only [DView.read, hd, e, c1]; rfl

/-- **the finding, machine-checked** (holds vacuously once the tree keeps the function object): `flipped_left_right_view` of a view that
    adds 7 on dereferencing reads the plain source value -- the default-constructed (identity) function object -- instead of value + 7 -/
theorem C02_deref_adaptor_step_witness :
    deref_step_keeps_functor = 0 →
    ((colorConverted (fun p : Int => p + 7) ⟨⟨0, 1, 4, 4, 1⟩, fun a : Int => a⟩).applyCode (decide (deref_step_keeps_functor ≠ 0)) (fun a => a) [.flipLR]).read
        (fun a => 10 * a) 0 0 = 30
    ∧ (fun p : Int => p + 7) ((⟨⟨0, 1, 4, 4, 1⟩, fun a : Int => a⟩ : DView Int Int).read (fun a => 10 * a) 3 0) = 37 := by
  unfold deref_step_keeps_functor; decide

/-- `color_converted_view<DstP>` with `DstP` = the source's value type returns the source view: nothing is converted
    (`_color_converted_view_type<SrcView,CC,DstP,DstP>::make`), even for a user-supplied converter -/
theorem C02_color_converted_same_type {α β : Type} (cc : β → β) (d : DView α β) (m : Int → α) (x y : Int) :
    (colorConvertedSame cc d).read m x y = d.read m x y := rfl

end GilVerif.Props.C02
