/-
  C07 -- channel_multiply / channel_invert laws, stated over the GENERATED kernels
  (Gen/C07.lean is re-translated from channel_algorithm.hpp on every run of the check).

  Only property theorems live here (named C07_*); helper lemmas are `private`.
  The float32 channel path (`a*b`, `1-x`) is not covered by THESE theorems; it is proved relative to
  the abstract rounding structure `FloatSpec` in Props/C07Float.lean (C07_float_*), partial (float).
-/
import GilVerif.Gen.C07

namespace GilVerif.Props.C07
open GilVerif.Gen.C07

/-! ### 8-bit multiply -/

/-- the shift trick is exactly round-to-nearest division by 255 on every product of two bytes -/
theorem C07_div255 (x : Int) (h0 : 0 ≤ x) (h1 : x ≤ 65025) : div255 x = (x + 127) / 255 := by
  unfold div255
  simp (disch := omega) only [Int.emod_eq_of_lt]
  omega

private theorem prod_bound {a b m : Int} (ha : 0 ≤ a) (ha' : a ≤ m) (hb : 0 ≤ b) (hb' : b ≤ m) :
    0 ≤ a * b ∧ a * b ≤ m * m :=
  ⟨Int.mul_nonneg ha hb, Int.mul_le_mul ha' hb' hb (Int.le_trans ha ha')⟩

/-- closed form of the 8-bit multiplier -/
theorem C07_mul8_closed (a b : Int) (ha : 0 ≤ a) (ha' : a ≤ 255) (hb : 0 ≤ b) (hb' : b ≤ 255) :
    mul_u8 a b = (a * b + 127) / 255 := by
  have ⟨h0, h1⟩ := prod_bound ha ha' hb hb'
  unfold mul_u8
  have e : a * b % 4294967296 = a * b := Int.emod_eq_of_lt h0 (by omega)
  rw [e, C07_div255 _ h0 (by omega)]
  generalize a * b = p at *
  omega

/-- within one unit (in fact within half a unit) of a*b/255, and in range -/
theorem C07_mul8_within_one (a b : Int) (ha : 0 ≤ a) (ha' : a ≤ 255) (hb : 0 ≤ b) (hb' : b ≤ 255) :
    0 ≤ mul_u8 a b ∧ mul_u8 a b ≤ 255 ∧
    -255 < 255 * mul_u8 a b - a * b ∧ 255 * mul_u8 a b - a * b < 255 := by
  have ⟨h0, h1⟩ := prod_bound ha ha' hb hb'
  rw [C07_mul8_closed a b ha ha' hb hb']
  generalize a * b = p at *
  omega

theorem C07_mul8_comm (a b : Int) : mul_u8 a b = mul_u8 b a := by
  unfold mul_u8; rw [Int.mul_comm]

theorem C07_mul8_monotone (a b b' : Int) (ha : 0 ≤ a) (ha' : a ≤ 255) (hb : 0 ≤ b) (hbb : b ≤ b') (hb' : b' ≤ 255) :
    mul_u8 a b ≤ mul_u8 a b' := by
  rw [C07_mul8_closed a b ha ha' hb (by omega), C07_mul8_closed a b' ha ha' (by omega) hb']
  have : a * b ≤ a * b' := Int.mul_le_mul_of_nonneg_left hbb ha
  exact Int.ediv_le_ediv (by decide) (by omega)

theorem C07_mul8_identity (a : Int) (ha : 0 ≤ a) (ha' : a ≤ 255) : mul_u8 a 255 = a := by
  rw [C07_mul8_closed a 255 ha ha' (by decide) (by decide)]; omega

theorem C07_mul8_annihilator (a : Int) (ha : 0 ≤ a) (ha' : a ≤ 255) : mul_u8 a 0 = 0 := by
  rw [C07_mul8_closed a 0 ha ha' (by decide) (by decide)]; omega

/-! ### 16-bit multiply -/

theorem C07_mul16_closed (a b : Int) (ha : 0 ≤ a) (ha' : a ≤ 65535) (hb : 0 ≤ b) (hb' : b ≤ 65535) :
    mul_u16 a b = a * b / 65535 := by
  have ⟨h0, h1⟩ := prod_bound ha ha' hb hb'
  unfold mul_u16
  have e : a * b % 4294967296 = a * b := Int.emod_eq_of_lt h0 (by omega)
  rw [e]
  generalize a * b = p at *
  omega

theorem C07_mul16_within_one (a b : Int) (ha : 0 ≤ a) (ha' : a ≤ 65535) (hb : 0 ≤ b) (hb' : b ≤ 65535) :
    0 ≤ mul_u16 a b ∧ mul_u16 a b ≤ 65535 ∧
    -65535 < 65535 * mul_u16 a b - a * b ∧ 65535 * mul_u16 a b - a * b ≤ 0 := by
  have ⟨h0, h1⟩ := prod_bound ha ha' hb hb'
  rw [C07_mul16_closed a b ha ha' hb hb']
  generalize a * b = p at *
  omega

theorem C07_mul16_comm (a b : Int) : mul_u16 a b = mul_u16 b a := by
  unfold mul_u16; rw [Int.mul_comm]

theorem C07_mul16_monotone (a b b' : Int) (ha : 0 ≤ a) (ha' : a ≤ 65535) (hb : 0 ≤ b) (hbb : b ≤ b') (hb' : b' ≤ 65535) :
    mul_u16 a b ≤ mul_u16 a b' := by
  rw [C07_mul16_closed a b ha ha' hb (by omega), C07_mul16_closed a b' ha ha' (by omega) hb']
  exact Int.ediv_le_ediv (by decide) (Int.mul_le_mul_of_nonneg_left hbb ha)

theorem C07_mul16_identity (a : Int) (ha : 0 ≤ a) (ha' : a ≤ 65535) : mul_u16 a 65535 = a := by
  rw [C07_mul16_closed a 65535 ha ha' (by decide) (by decide)]; omega

theorem C07_mul16_annihilator (a : Int) (ha : 0 ≤ a) (ha' : a ≤ 65535) : mul_u16 a 0 = 0 := by
  rw [C07_mul16_closed a 0 ha ha' (by decide) (by decide)]; omega

/-! ### generic multiplier (uint32_t, int32_t after the shift, packed channels of every width) -/

/-- for every maximum `m` (every bit width) whose product fits 64 bits: exactly ⌊a*b/m⌋ -/
theorem C07_mulgen_closed (a b m : Int) (ha : 0 ≤ a) (ha' : a ≤ m) (hb : 0 ≤ b) (hb' : b ≤ m) (hm : m ≤ 4294967295) :
    mulgen_u32 a b m = a * b / m ∧ (m ≤ 65535 → mulgen_u16 a b m = a * b / m) ∧ (m ≤ 255 → mulgen_u8 a b m = a * b / m) := by
  have ⟨h0, h1⟩ := prod_bound ha ha' hb hb'
  have hm0 : 0 ≤ m := Int.le_trans ha ha'
  have hmm : m * m ≤ 4294967295 * 4294967295 := Int.mul_le_mul hm hm hm0 (by decide)
  have e : a * b % 18446744073709551616 = a * b := Int.emod_eq_of_lt h0 (by omega)
  -- the quotient is at most m
  have hq : a * b / m ≤ m := by
    by_cases hpos : 0 < m
    · exact Int.ediv_le_of_le_mul hpos h1
    · have : m = 0 := by omega
      subst this; simp
  have hq0 : 0 ≤ a * b / m := Int.ediv_nonneg h0 hm0
  unfold mulgen_u32 mulgen_u16 mulgen_u8
  simp only [e]
  refine ⟨?_, ?_, ?_⟩
  · exact Int.emod_eq_of_lt hq0 (by omega)
  · intro h; exact Int.emod_eq_of_lt hq0 (by omega)
  · intro h; exact Int.emod_eq_of_lt hq0 (by omega)

/-- laws of ⌊a*b/m⌋ for every m ≥ 1: range, within one unit, commutative, monotone, identity, annihilator -/
theorem C07_floor_mul_laws (a b b' m : Int) (hm : 1 ≤ m) (ha : 0 ≤ a) (ha' : a ≤ m) (hb : 0 ≤ b) (hbb : b ≤ b') (hb' : b' ≤ m) :
    0 ≤ a * b / m ∧ a * b / m ≤ m
    ∧ -m < m * (a * b / m) - a * b ∧ m * (a * b / m) - a * b ≤ 0
    ∧ a * b / m = b * a / m
    ∧ a * b / m ≤ a * b' / m
    ∧ a * m / m = a ∧ a * 0 / m = 0 := by
  have ⟨h0, h1⟩ := prod_bound ha ha' hb (Int.le_trans hbb hb')
  have hpos : 0 < m := by omega
  have hmod := Int.emod_lt_of_pos (a * b) hpos
  have hmod0 := Int.emod_nonneg (a * b) (Int.ne_of_gt hpos)
  have hdm := Int.mul_ediv_add_emod (a * b) m
  refine ⟨Int.ediv_nonneg h0 (by omega), Int.ediv_le_of_le_mul hpos h1, by omega, by omega, by rw [Int.mul_comm], ?_, ?_, by simp⟩
  · exact Int.ediv_le_ediv hpos (Int.mul_le_mul_of_nonneg_left hbb ha)
  · exact Int.mul_ediv_cancel a (Int.ne_of_gt hpos)

/-! ### signed channels: the documented shift to the unsigned range is an order isomorphism -/

theorem C07_signed_shift_i8 (v : Int) (h0 : -128 ≤ v) (h1 : v ≤ 127) :
    to_unsigned_i8 v = v + 128 ∧ from_unsigned_i8 (v + 128) = v := by
  unfold to_unsigned_i8 from_unsigned_i8; omega

theorem C07_signed_shift_i16 (v : Int) (h0 : -32768 ≤ v) (h1 : v ≤ 32767) :
    to_unsigned_i16 v = v + 32768 ∧ from_unsigned_i16 (v + 32768) = v := by
  unfold to_unsigned_i16 from_unsigned_i16; omega

theorem C07_signed_shift_i32 (v : Int) (h0 : -2147483648 ≤ v) (h1 : v ≤ 2147483647) :
    to_unsigned_i32 v = v + 2147483648 ∧ from_unsigned_i32 (v + 2147483648) = v := by
  unfold to_unsigned_i32 from_unsigned_i32; omega

/-- signed 8-bit multiply = unsigned multiply of the shifted operands, shifted back; so all the
    unsigned laws transport (max 127 is the identity, min -128 the annihilator) -/
theorem C07_mul_i8 (a b : Int) (ha : -128 ≤ a) (ha' : a ≤ 127) (hb : -128 ≤ b) (hb' : b ≤ 127) :
    from_unsigned_i8 (mul_u8 (to_unsigned_i8 a) (to_unsigned_i8 b)) = ((a + 128) * (b + 128) + 127) / 255 - 128 := by
  rw [(C07_signed_shift_i8 a ha ha').1, (C07_signed_shift_i8 b hb hb').1,
      C07_mul8_closed (a + 128) (b + 128) (by omega) (by omega) (by omega) (by omega)]
  have ⟨h0, h1⟩ := prod_bound (m := 255) (show 0 ≤ a + 128 by omega) (by omega) (show 0 ≤ b + 128 by omega) (by omega)
  generalize (a + 128) * (b + 128) = p at *
  unfold from_unsigned_i8; omega

theorem C07_mul_i16 (a b : Int) (ha : -32768 ≤ a) (ha' : a ≤ 32767) (hb : -32768 ≤ b) (hb' : b ≤ 32767) :
    from_unsigned_i16 (mul_u16 (to_unsigned_i16 a) (to_unsigned_i16 b)) = (a + 32768) * (b + 32768) / 65535 - 32768 := by
  rw [(C07_signed_shift_i16 a ha ha').1, (C07_signed_shift_i16 b hb hb').1,
      C07_mul16_closed (a + 32768) (b + 32768) (by omega) (by omega) (by omega) (by omega)]
  have ⟨h0, h1⟩ := prod_bound (m := 65535) (show 0 ≤ a + 32768 by omega) (by omega) (show 0 ≤ b + 32768 by omega) (by omega)
  generalize (a + 32768) * (b + 32768) = p at *
  unfold from_unsigned_i16; omega

/-! ### channel_invert: exactly max - x + min, an involution, in range -/

theorem C07_invert_u8 (x : Int) (h0 : 0 ≤ x) (h1 : x ≤ 255) :
    invert_u8 x 255 0 = 255 - x + 0 ∧ invert_u8 (invert_u8 x 255 0) 255 0 = x ∧ 0 ≤ invert_u8 x 255 0 ∧ invert_u8 x 255 0 ≤ 255 := by
  unfold invert_u8; simp only []; omega

theorem C07_invert_u16 (x : Int) (h0 : 0 ≤ x) (h1 : x ≤ 65535) :
    invert_u16 x 65535 0 = 65535 - x + 0 ∧ invert_u16 (invert_u16 x 65535 0) 65535 0 = x ∧ 0 ≤ invert_u16 x 65535 0 ∧ invert_u16 x 65535 0 ≤ 65535 := by
  unfold invert_u16; simp only []; omega

theorem C07_invert_u32 (x : Int) (h0 : 0 ≤ x) (h1 : x ≤ 4294967295) :
    invert_u32 x 4294967295 0 = 4294967295 - x + 0 ∧ invert_u32 (invert_u32 x 4294967295 0) 4294967295 0 = x
    ∧ 0 ≤ invert_u32 x 4294967295 0 ∧ invert_u32 x 4294967295 0 ≤ 4294967295 := by
  unfold invert_u32; simp only []; omega

theorem C07_invert_i8 (x : Int) (h0 : -128 ≤ x) (h1 : x ≤ 127) :
    invert_i8 x 127 (-128) = 127 - x + (-128) ∧ invert_i8 (invert_i8 x 127 (-128)) 127 (-128) = x
    ∧ -128 ≤ invert_i8 x 127 (-128) ∧ invert_i8 x 127 (-128) ≤ 127 := by
  unfold invert_i8; simp only []; omega

theorem C07_invert_i16 (x : Int) (h0 : -32768 ≤ x) (h1 : x ≤ 32767) :
    invert_i16 x 32767 (-32768) = 32767 - x + (-32768) ∧ invert_i16 (invert_i16 x 32767 (-32768)) 32767 (-32768) = x
    ∧ -32768 ≤ invert_i16 x 32767 (-32768) ∧ invert_i16 x 32767 (-32768) ≤ 32767 := by
  unfold invert_i16; simp only []; omega

theorem C07_invert_i32 (x : Int) (h0 : -2147483648 ≤ x) (h1 : x ≤ 2147483647) :
    invert_i32 x 2147483647 (-2147483648) = 2147483647 - x + (-2147483648)
    ∧ invert_i32 (invert_i32 x 2147483647 (-2147483648)) 2147483647 (-2147483648) = x
    ∧ -2147483648 ≤ invert_i32 x 2147483647 (-2147483648) ∧ invert_i32 x 2147483647 (-2147483648) ≤ 2147483647 := by
  unfold invert_i32; simp only []; omega

/-- packed channels (N-bit, carrier uint8/16/32): invert then mask is exact for every width:
    stated for the 8-bit carrier kernel with an arbitrary maximum `m = 2^n - 1 ≤ 255` -/
theorem C07_invert_packed8 (x m : Int) (h0 : 0 ≤ x) (h1 : x ≤ m) (hm : m ≤ 255) :
    invert_u8 x m 0 = m - x + 0 ∧ invert_u8 (invert_u8 x m 0) m 0 = x ∧ 0 ≤ invert_u8 x m 0 ∧ invert_u8 x m 0 ≤ m := by
  unfold invert_u8; simp only []; omega

theorem C07_invert_packed16 (x m : Int) (h0 : 0 ≤ x) (h1 : x ≤ m) (hm : m ≤ 65535) :
    invert_u16 x m 0 = m - x + 0 ∧ invert_u16 (invert_u16 x m 0) m 0 = x ∧ 0 ≤ invert_u16 x m 0 ∧ invert_u16 x m 0 ≤ m := by
  unfold invert_u16; simp only []; omega

theorem C07_invert_packed32 (x m : Int) (h0 : 0 ≤ x) (h1 : x ≤ m) (hm : m ≤ 4294967295) :
    invert_u32 x m 0 = m - x + 0 ∧ invert_u32 (invert_u32 x m 0) m 0 = x ∧ 0 ≤ invert_u32 x m 0 ∧ invert_u32 x m 0 ≤ m := by
  unfold invert_u32; simp only []; omega

/-- scoped channels (sub-range [lo, hi] of a base type, `lo` not necessarily 0): exact, involution,
    in range -- for every sub-range of every unsigned/signed base type -/
theorem C07_invert_scoped_unsigned (x lo hi : Int) (h0 : 0 ≤ lo) (h1 : lo ≤ x) (h2 : x ≤ hi) :
    (hi ≤ 255 → invert_u8 x hi lo = hi - x + lo ∧ invert_u8 (invert_u8 x hi lo) hi lo = x ∧ lo ≤ invert_u8 x hi lo ∧ invert_u8 x hi lo ≤ hi)
    ∧ (hi ≤ 65535 → invert_u16 x hi lo = hi - x + lo ∧ invert_u16 (invert_u16 x hi lo) hi lo = x ∧ lo ≤ invert_u16 x hi lo ∧ invert_u16 x hi lo ≤ hi)
    ∧ (hi ≤ 4294967295 → invert_u32 x hi lo = hi - x + lo ∧ invert_u32 (invert_u32 x hi lo) hi lo = x ∧ lo ≤ invert_u32 x hi lo ∧ invert_u32 x hi lo ≤ hi) := by
  unfold invert_u8 invert_u16 invert_u32; simp only []; omega

theorem C07_invert_scoped_signed (x lo hi : Int) (h1 : lo ≤ x) (h2 : x ≤ hi) :
    (-128 ≤ lo → hi ≤ 127 → invert_i8 x hi lo = hi - x + lo ∧ invert_i8 (invert_i8 x hi lo) hi lo = x ∧ lo ≤ invert_i8 x hi lo ∧ invert_i8 x hi lo ≤ hi)
    ∧ (-32768 ≤ lo → hi ≤ 32767 → invert_i16 x hi lo = hi - x + lo ∧ invert_i16 (invert_i16 x hi lo) hi lo = x ∧ lo ≤ invert_i16 x hi lo ∧ invert_i16 x hi lo ≤ hi)
    ∧ (-2147483648 ≤ lo → hi ≤ 2147483647 → invert_i32 x hi lo = hi - x + lo ∧ invert_i32 (invert_i32 x hi lo) hi lo = x ∧ lo ≤ invert_i32 x hi lo ∧ invert_i32 x hi lo ≤ hi) := by
  unfold invert_i8 invert_i16 invert_i32; simp only []; omega

example : invert_u8 16 235 16 = 235 ∧ invert_i16 (-100) 1000 (-100) = 1000 := by decide

/-! ### non-vacuity: the hypotheses are met by concrete non-trivial values -/
example : mul_u8 200 37 = 29 ∧ mul_u16 40000 50000 = 30518 ∧ invert_i8 (-5) 127 (-128) = 4 := by decide

end GilVerif.Props.C07
