/-
  C18, rgb8 <-> hsv32f in float32 -- what is PROVED relative to `FloatSpec`, what is kernel-EVALUATED with the genuine
  binary32 rounding, and what stays open.

  MODEL: `rgbToHsvF`, `hsvToRgbF`, `hsvRoundTripF` (Lemmas/C18Float.lean): hsv.hpp operation by operation, one `R.rnd` per
  float operation.  ASSUMED (trusted base): the binary32 arithmetic of the target satisfies `FloatSpec` (eps = 2^-24) and
  performs this sequence (the executable `Float32` model of Model/C18.lean has the same sequence and is compared bit for bit
  with the real code on all 2^24 pixels; the abstract model with the genuine rounding is kernel-evaluated against the real
  code on sampled `px hsv` ops by the check).
  PROVED for EVERY `R : FloatSpec` with the binary32 parameters:
    * `C18_float_hsv_gray_roundtrip`: a gray pixel (v,v,v) converts to (hue 0, saturation 0, value rnd (v/255)) and back to
      (v,v,v) -- the branch `max - min = 0` of both converters, with the C06 round-trip budget;
    * `C18_float_hsv_value_saturation`: for every pixel, value = rnd (max/255) (exactly the converted maximum), and for a
      non-gray pixel the two threshold tests on `max_color` and `saturation` take the exact-arithmetic branch
      (`max ≥ 0.0001f`, `saturation ≥ 0.0001f`), 0 < saturation ≤ 1, and |saturation - (max-min)/max| ≤ 1/4000
      (the subtraction `max - min` cancels: absolute error 3 eps on a value that may be as small as 1/255);
  KERNEL-EVALUATED for the genuine round-to-nearest-even binary32 (`FloatSpec.binary32`):
    * `C18_float_hsv_roundtrip_grid`: rgb8 → hsv32f → rgb8 is the identity on the 216 pixels of {0,51,...,255}^3 (all six
      hue sectors, the sector boundaries, negative hue wrapped by +1) and on a list of boundary pixels;
  -- OPEN (not proven): `C18_hsv_roundtrip_u8` for ALL 2^24 pixels under FloatSpec (error budget of hue through the sector
  split and of p, q, t); it remains carried by the exhaustive bit-exact correspondence (partial (float)).
  Only property theorems live here (named C18_float_*).
-/
import GilVerif.Lemmas.C18Float
import GilVerif.Basic.FloatNearest

namespace GilVerif.Props.C18Float
open GilVerif GilVerif.FloatSpec GilVerif.Lemmas.C06Float GilVerif.Lemmas.C18Float

/-- gray pixels: hue 0, saturation 0, value = the converted channel; the round trip is the identity -/
theorem C18_float_hsv_gray_roundtrip (R : FloatSpec) (h32 : R.IsBinary32) (v : ℤ) (hv0 : 0 ≤ v) (hv1 : v ≤ 255) :
    rgbToHsvF R v v v = (0, 0, toF R 255 v) ∧ hsvRoundTripF R v v v = (v, v, v) := by
  obtain ⟨he, hbig⟩ := h32
  have he0 := R.eps_nonneg
  have hmb : ((255 : ℤ) : ℚ) ≤ R.big := by norm_num at hbig ⊢; linarith
  have hb : R.eps * (3 * ((255 : ℤ) : ℚ) + 1) < 1 / 2 := by norm_num at he ⊢; linarith
  have hrt := GilVerif.Props.C06Float.C06_float_roundtrip R 255 v (by norm_num) hmb hb hv0 hv1
  have hc := c4_pos
  have hmx : hsvMx R v v v = toF R 255 v := by unfold hsvMx; simp only [max_self]
  have hdf : hsvDiff R v v v = 0 := by unfold hsvDiff hsvMx hsvMn; simp only [max_self, min_self, sub_self, R.rnd_zero]
  have hst : hsvSat R v v v = 0 := by unfold hsvSat; rw [hdf]; simp only [zero_div, R.rnd_zero, ite_self]
  have hhu : hsvHue R v v v = 0 := by unfold hsvHue; rw [hst, if_pos hc]
  have e1 : rgbToHsvF R v v v = (0, 0, toF R 255 v) := by unfold rgbToHsvF; rw [hhu, hst, hmx]
  refine ⟨e1, ?_⟩
  unfold hsvRoundTripF
  rw [e1]
  unfold hsvToRgbF
  simp only [abs_zero, hc, if_true, hrt]

/-- value is the converted maximum; for non-gray pixels the `max_color` / `saturation` threshold tests take the
    exact-arithmetic branch, and the saturation is in (0, 1] within 1/4000 of (max - min)/max -/
theorem C18_float_hsv_value_saturation (R : FloatSpec) (h32 : R.IsBinary32) (r g b : ℤ)
    (hr0 : 0 ≤ r) (hr1 : r ≤ 255) (hg0 : 0 ≤ g) (hg1 : g ≤ 255) (hb0 : 0 ≤ b) (hb1 : b ≤ 255) :
    (rgbToHsvF R r g b).2.2 = toF R 255 (max r (max g b))
    ∧ (min r (min g b) < max r (max g b) →
        c4 ≤ toF R 255 (max r (max g b)) ∧ c4 ≤ (rgbToHsvF R r g b).2.1 ∧ (rgbToHsvF R r g b).2.1 ≤ 1
        ∧ |(rgbToHsvF R r g b).2.1 - ((max r (max g b) - min r (min g b) : ℤ) : ℚ) / (max r (max g b) : ℤ)| ≤ 1 / 4000) := by
  obtain ⟨he, hbig⟩ := h32
  have he0 := R.eps_nonneg
  have he' : R.eps ≤ 1 / 16777216 := by norm_num at he; exact he
  have hmb : ((255 : ℤ) : ℚ) ≤ R.big := by norm_num at hbig ⊢; linarith
  -- toF commutes with max / min on the channel range (it is monotone there)
  have mono : ∀ a c : ℤ, 0 ≤ a → a ≤ c → c ≤ 255 → toF R 255 a ≤ toF R 255 c := fun a c h0 h1 h2 =>
    GilVerif.Props.C06Float.C06_float_of_int_monotone R 255 a c (by norm_num) hmb h0 h1 h2
  have hmax2 : ∀ a c : ℤ, 0 ≤ a → a ≤ 255 → 0 ≤ c → c ≤ 255 → max (toF R 255 a) (toF R 255 c) = toF R 255 (max a c) := by
    intro a c a0 a1 c0 c1
    rcases le_total a c with h | h
    · rw [max_eq_right h, max_eq_right (mono a c a0 h c1)]
    · rw [max_eq_left h, max_eq_left (mono c a c0 h a1)]
  have hmin2 : ∀ a c : ℤ, 0 ≤ a → a ≤ 255 → 0 ≤ c → c ≤ 255 → min (toF R 255 a) (toF R 255 c) = toF R 255 (min a c) := by
    intro a c a0 a1 c0 c1
    rcases le_total a c with h | h
    · rw [min_eq_left h, min_eq_left (mono a c a0 h c1)]
    · rw [min_eq_right h, min_eq_right (mono c a c0 h a1)]
  have hM0 : 0 ≤ max g b := le_trans hg0 (le_max_left _ _)
  have hM1 : max g b ≤ 255 := max_le hg1 hb1
  have hm0 : 0 ≤ min g b := le_min hg0 hb0
  have hm1 : min g b ≤ 255 := le_trans (min_le_left _ _) hg1
  have emx : max (toF R 255 r) (max (toF R 255 g) (toF R 255 b)) = toF R 255 (max r (max g b)) := by
    rw [hmax2 g b hg0 hg1 hb0 hb1, hmax2 r _ hr0 hr1 hM0 hM1]
  have emn : min (toF R 255 r) (min (toF R 255 g) (toF R 255 b)) = toF R 255 (min r (min g b)) := by
    rw [hmin2 g b hg0 hg1 hb0 hb1, hmin2 r _ hr0 hr1 hm0 hm1]
  set M := max r (max g b) with hMdef
  set m := min r (min g b) with hmdef
  have hMr : 0 ≤ M ∧ M ≤ 255 := ⟨le_trans hr0 (le_max_left _ _), max_le hr1 hM1⟩
  have hmr : 0 ≤ m ∧ m ≤ 255 := ⟨le_min hr0 hm0, le_trans (min_le_left _ _) hr1⟩
  have hval : (rgbToHsvF R r g b).2.2 = toF R 255 M := by rw [rgbToHsvF_val]; exact emx
  refine ⟨hval, fun hlt => ?_⟩
  -- the two converted extremes, with their (absolute) errors
  obtain ⟨fM0, fM1, -, fMe⟩ := GilVerif.Props.C06Float.C06_float_of_int_range_error R 255 M (by norm_num) hmb hMr.1 hMr.2
  obtain ⟨fm0, fm1, -, fme⟩ := GilVerif.Props.C06Float.C06_float_of_int_range_error R 255 m (by norm_num) hmb hmr.1 hmr.2
  push_cast at fMe fme
  rw [abs_le] at fMe fme
  have hMq : (1 : ℚ) ≤ M := by exact_mod_cast (show (1 : ℤ) ≤ M by omega)
  have hMq1 : (M : ℚ) ≤ 255 := by exact_mod_cast hMr.2
  have hmq0 : (0 : ℚ) ≤ m := by exact_mod_cast hmr.1
  have hdq : (1 : ℚ) ≤ (M : ℚ) - m := by
    have : (1 : ℤ) ≤ M - m := by omega
    exact_mod_cast this
  set X := toF R 255 M with hX
  set Y := toF R 255 m with hY
  -- X ≥ 1/255 - eps > c4
  have hXlo : (M : ℚ) / 255 - R.eps ≤ X := by linarith [fMe.1]
  have hM255 : (1 : ℚ) / 255 ≤ (M : ℚ) / 255 := div_le_div_of_nonneg_right hMq (by norm_num)
  have hc4 : c4 ≤ 1 / 10000 := by unfold c4; norm_num
  have hXc : c4 ≤ X := by linarith
  have hXpos : 0 < X := by linarith [c4_pos]
  -- diff = rnd (X - Y), within 3 eps of (M - m)/255
  have hXY0 : 0 ≤ X - Y := by
    have := mono m M hmr.1 hlt.le hMr.2; linarith
  have hXY1 : X - Y ≤ 1 := by linarith
  have hde := abs_le.mp (R.abs_err_le' hXY0 hXY1 (le_refl 1))
  rw [mul_one] at hde
  set D := R.rnd (X - Y) with hD
  have hDlo : ((M : ℚ) - m) / 255 - 3 * R.eps ≤ D := by
    have : ((M : ℚ) - m) / 255 = (M : ℚ) / 255 - (m : ℚ) / 255 := by ring
    rw [this]; linarith [hde.1, fMe.1, fme.2]
  have hDhi : D ≤ ((M : ℚ) - m) / 255 + 3 * R.eps := by
    have : ((M : ℚ) - m) / 255 = (M : ℚ) / 255 - (m : ℚ) / 255 := by ring
    rw [this]; linarith [hde.2, fMe.2, fme.1]
  have hd255 : (1 : ℚ) / 255 ≤ ((M : ℚ) - m) / 255 := div_le_div_of_nonneg_right hdq (by norm_num)
  have hDpos : 0 < D := by linarith
  -- D ≤ X : rnd (X - Y) ≤ rnd X = X
  have hDX : D ≤ X := by
    have h1 := R.monotone (X - Y) X (by linarith)
    have h2 : R.rnd X = X := by rw [hX]; unfold toF; exact R.idem _
    rw [h2] at h1; exact h1
  -- the quotient q = D / X ∈ (0, 1]
  have hq0 : 0 ≤ D / X := div_nonneg hDpos.le hXpos.le
  have hq1 : D / X ≤ 1 := by rw [div_le_iff₀ hXpos]; linarith
  have hse := abs_le.mp (R.abs_err_le' hq0 hq1 (le_refl 1))
  rw [mul_one] at hse
  have hsat : (rgbToHsvF R r g b).2.1 = R.rnd (D / X) := by
    rw [rgbToHsvF_sat, emx, emn, if_neg (not_lt.mpr hXc)]
  rw [hsat]
  -- D / X versus (M - m) / M
  have hMpos : (0 : ℚ) < M := by linarith
  have hquot : |D / X - ((M : ℚ) - m) / M| ≤ 1 / 16000 :=
    sat_core R.eps X D M m he0 he' hMq hmq0 hdq hXlo (by linarith [fMe.2]) hDlo hDhi
  rw [abs_le] at hquot
  have hcast : (((M - m : ℤ)) : ℚ) / ((M : ℤ) : ℚ) = ((M : ℚ) - m) / M := by push_cast; ring
  rw [hcast]
  -- the exact saturation is at least 1/255
  have hex : (1 : ℚ) / 255 ≤ ((M : ℚ) - m) / M := by
    rw [le_div_iff₀ hMpos]; linarith
  refine ⟨hXc, ?_, R.rnd_le_one hq1, ?_⟩
  · linarith [hse.1, hquot.1]
  · rw [abs_le]; constructor <;> linarith [hse.1, hse.2, hquot.1, hquot.2]

/-- genuine binary32 rounding, kernel-evaluated: the round trip rgb8 → hsv32f → rgb8 is the identity on the 216 pixels of
    the grid {0, 51, 102, 153, 204, 255}^3 and on a list of pixels next to the sector boundaries / with negative hue -/
theorem C18_float_hsv_roundtrip_grid :
    roundTripAll FloatSpec.binary32 grid6 = true
    ∧ roundTripAll FloatSpec.binary32
        [(255, 0, 1), (255, 1, 0), (1, 0, 0), (0, 1, 0), (0, 0, 1), (254, 255, 254), (255, 254, 255), (1, 255, 0),
         (0, 255, 1), (0, 1, 255), (1, 0, 255), (255, 0, 254), (254, 0, 255), (10, 200, 30), (254, 254, 255), (128, 127, 127)] = true
    ∧ grid6.length = 216 := by
  refine ⟨by decide +kernel, by decide +kernel, by decide +kernel⟩

/-! ### non-vacuity -/
example : FloatSpec.binary32.IsBinary32 := FloatSpec.binary32_isBinary32
example : min (10 : ℤ) (min 200 30) < max 10 (max 200 30) := by decide

end GilVerif.Props.C18Float
