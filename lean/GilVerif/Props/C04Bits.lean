/-
  C04 (bit-aligned part) -- fill_pixels / copy-from-values on a bit-aligned view that is NOT 1-D traversable
  (sub-view, rows with padding): the algorithm runs row by row, each row is one run through the x iterator
  (`baWriteRun` of Model/C08.lean), the row start is the view's first cursor advanced by `y * rowBits` bits.

  Statements quantify over every buffer content (an unbounded natural number), every first cursor (byte, bit offset 0..7),
  every row pitch in bits, every channel layout with widths <= 64, every number of rows and every row width.
-/
import GilVerif.Props.C08

namespace GilVerif.Props.C04
open GilVerif.Model.C08 GilVerif.Props.C08 GilVerif.Gen.C08

/-- fill_pixels / copy-from-values on a bit-aligned view that is not 1-D traversable (sub-view, padded rows): row `y` starts at the
    view's first cursor advanced by `y * rowBits` bits (memunit_advance of the bit-aligned locator's y step) and is one run of the
    row's pixels through the x iterator -/
def baWriteRows (fb M : Nat) (c0 : Cur) (rowBits : Nat) (widths order : List Nat) : (y0 : Nat) → List (List (Nat → Nat)) → Nat
  | _, [] => M
  | y0, r :: rs =>
    baWriteRows fb (baWriteRun fb M (c0.adv (((y0 * rowBits : Nat)) : Int)) widths order r) c0 rowBits widths order (y0 + 1) rs

/-! ### helpers -/

private theorem tb_bitsAt' (M lo num i : Nat) :
    (bitsAt M lo num).testBit i = (decide (i < num) && M.testBit (lo + i)) := by
  unfold bitsAt; rw [Nat.testBit_mod_two_pow, Nat.testBit_shiftRight]

/-- a valid cursor advanced by a non-negative number of bits is valid and sits exactly that many bits further -/
private theorem adv_ok (c : Cur) (n : Nat) (hb : 0 ≤ c.byte) (h0 : 0 ≤ c.off) (h7 : c.off < 8) :
    0 ≤ (c.adv (n : Int)).byte ∧ 0 ≤ (c.adv (n : Int)).off ∧ (c.adv (n : Int)).off < 8
    ∧ (c.adv (n : Int)).pos.toNat = c.pos.toNat + n := by
  obtain ⟨p1, l1, u1⟩ := C08_adv_pos c.byte c.off (n : Int)
  unfold Cur.adv Cur.pos
  simp only []
  generalize bit_advance c.byte c.off (n : Int) = r at *
  refine ⟨by omega, l1, u1, by omega⟩

/-- frame law, generalised over the index `y0` of the first row still to be written -/
private theorem frame_gen (fb : Nat) (widths order : List Nat) (hfield : bitSize widths + 7 ≤ 8 * fb)
    (hw : ∀ k, width widths k ≤ 64) (hord : ∀ k ∈ order, k < widths.length)
    (c0 : Cur) (hb : 0 ≤ c0.byte) (h0 : 0 ≤ c0.off) (h7 : c0.off < 8) (rowBits w : Nat) :
    ∀ (rows : List (List (Nat → Nat))) (M y0 : Nat),
      (∀ r ∈ rows, r.length = w) →
      (∀ r ∈ rows, ∀ p ∈ r, ∀ k ∈ order, p k < 2 ^ width widths k) →
      ∀ i, (∀ y, y < rows.length →
              ¬ (c0.pos.toNat + (y0 + y) * rowBits ≤ i ∧ i < c0.pos.toNat + (y0 + y) * rowBits + w * bitSize widths)) →
        (baWriteRows fb M c0 rowBits widths order y0 rows).testBit i = M.testBit i := by
  intro rows
  induction rows with
  | nil => intro M y0 _ _ i _; rfl
  | cons r rs ih =>
    intro M y0 hlen hvals i hi
    obtain ⟨ab, a0, a7, apos⟩ := adv_ok c0 (y0 * rowBits) hb h0 h7
    obtain ⟨_, fr⟩ := C08_write_run fb widths order hfield hw hord r M (c0.adv ((y0 * rowBits : Nat) : Int)) ab a0 a7
      (hvals r (List.mem_cons_self ..))
    simp only [baWriteRows]
    rw [ih _ (y0 + 1) (fun q hq => hlen q (List.mem_cons_of_mem _ hq)) (fun q hq => hvals q (List.mem_cons_of_mem _ hq)) i ?_]
    · apply fr
      rw [apos, hlen r (List.mem_cons_self ..)]
      have := hi 0 (by simp)
      simp only [Nat.add_zero] at this
      omega
    · intro y hy
      have := hi (y + 1) (by simpa using hy)
      have e : y0 + 1 + y = y0 + (y + 1) := by omega
      rw [e]; exact this

/-! ### property theorems -/

/-- bits sharing a byte with a bit-aligned sub-view -- to the left of a row start, to the right of a row end, row padding,
    other rows of the underlying image -- are preserved by a row-by-row fill / copy-from-values: every bit that lies in no
    row window `[pos + y * rowBits, pos + y * rowBits + w * bit_size)` is unchanged -/
theorem C04_bits_fill_frame (fb : Nat) (widths order : List Nat) (hfield : bitSize widths + 7 ≤ 8 * fb)
    (hw : ∀ k, width widths k ≤ 64) (hord : ∀ k ∈ order, k < widths.length)
    (c0 : Cur) (hb : 0 ≤ c0.byte) (h0 : 0 ≤ c0.off) (h7 : c0.off < 8) (rowBits w : Nat)
    (rows : List (List (Nat → Nat))) (M : Nat)
    (hlen : ∀ r ∈ rows, r.length = w)
    (hvals : ∀ r ∈ rows, ∀ p ∈ r, ∀ k ∈ order, p k < 2 ^ width widths k)
    (i : Nat)
    (hi : ∀ y, y < rows.length →
            ¬ (c0.pos.toNat + y * rowBits ≤ i ∧ i < c0.pos.toNat + y * rowBits + w * bitSize widths)) :
    (baWriteRows fb M c0 rowBits widths order 0 rows).testBit i = M.testBit i := by
  apply frame_gen fb widths order hfield hw hord c0 hb h0 h7 rowBits w rows M 0 hlen hvals i
  intro y hy
  rw [Nat.zero_add]; exact hi y hy

/-- non-vacuity: rgb222 (6 bits per pixel), the sub-view starts at bit 3 of byte 0, row pitch 20 bits, 2 x 2 pixels of zeros
    written over an all-ones buffer: bit 2 (left of the first row, same byte), bit 15 (right of the first row's end, same byte
    as pixel bits 8..14) and bit 22 (left of the second row) keep their value, the pixel bits 3, 14, 23 and 34 are cleared -/
example :
    let M' := baWriteRows 2 (2 ^ 48 - 1) ⟨0, 3⟩ 20 [2, 2, 2] [0, 1, 2] 0
      [[fun _ => 0, fun _ => 0], [fun _ => 0, fun _ => 0]]
    M'.testBit 2 = true ∧ M'.testBit 15 = true ∧ M'.testBit 22 = true ∧ M'.testBit 35 = true
    ∧ M'.testBit 3 = false ∧ M'.testBit 14 = false ∧ M'.testBit 23 = false ∧ M'.testBit 34 = false := by
  decide

/-- post-condition, generalised over `y0` -/
private theorem post_gen (fb : Nat) (widths order : List Nat) (hfield : bitSize widths + 7 ≤ 8 * fb)
    (hw : ∀ k, width widths k ≤ 64) (hord : ∀ k ∈ order, k < widths.length)
    (c0 : Cur) (hb : 0 ≤ c0.byte) (h0 : 0 ≤ c0.off) (h7 : c0.off < 8) (rowBits w : Nat)
    (hpitch : w * bitSize widths ≤ rowBits) :
    ∀ (rows : List (List (Nat → Nat))) (M y0 : Nat),
      (∀ r ∈ rows, r.length = w) →
      (∀ r ∈ rows, ∀ p ∈ r, ∀ k ∈ order, p k < 2 ^ width widths k) →
      ∀ (y : Nat) (hy : y < rows.length) (x : Nat) (hx : x < (rows[y]).length), ∀ k ∈ order,
        bitsAt (baWriteRows fb M c0 rowBits widths order y0 rows)
          (c0.pos.toNat + (y0 + y) * rowBits + x * bitSize widths + sumK widths k) (width widths k) = (rows[y])[x] k := by
  intro rows
  induction rows with
  | nil => intro M y0 _ _ y hy; simp at hy
  | cons r rs ih =>
    intro M y0 hlen hvals y hy x hx k hk
    simp only [baWriteRows]
    cases y with
    | zero =>
      simp only [List.getElem_cons_zero] at hx ⊢
      obtain ⟨ab, a0, a7, apos⟩ := adv_ok c0 (y0 * rowBits) hb h0 h7
      obtain ⟨wr, _⟩ := C08_write_run fb widths order hfield hw hord r M (c0.adv ((y0 * rowBits : Nat) : Int)) ab a0 a7
        (hvals r (List.mem_cons_self ..))
      have hr : r.length = w := hlen r (List.mem_cons_self ..)
      have w1 := (C08_sum_k widths k k (hord k hk) (hord k hk)).2.1
      have hxw : (x + 1) * bitSize widths ≤ w * bitSize widths := Nat.mul_le_mul_right _ (by omega)
      rw [Nat.add_mul, Nat.one_mul] at hxw
      simp only [Nat.add_zero]
      rw [← wr x hx k hk, apos]
      apply Nat.eq_of_testBit_eq; intro i
      rw [tb_bitsAt', tb_bitsAt']
      by_cases hi : i < width widths k
      · rw [frame_gen fb widths order hfield hw hord c0 hb h0 h7 rowBits w rs _ (y0 + 1)
          (fun q hq => hlen q (List.mem_cons_of_mem _ hq)) (fun q hq => hvals q (List.mem_cons_of_mem _ hq))]
        intro y' _
        have m1 : (y0 + 1) * rowBits ≤ (y0 + 1 + y') * rowBits := Nat.mul_le_mul_right _ (by omega)
        rw [Nat.add_mul, Nat.one_mul] at m1
        omega
      · simp [hi]
    | succ y =>
      simp only [List.getElem_cons_succ] at hx ⊢
      have e : y0 + (y + 1) = y0 + 1 + y := by omega
      rw [e]
      exact ih _ (y0 + 1) (fun q hq => hlen q (List.mem_cons_of_mem _ hq)) (fun q hq => hvals q (List.mem_cons_of_mem _ hq))
        y (by simpa using hy) x hx k hk

/-- when the rows do not overlap (`w * bit_size <= rowBits`), pixel `(x, y)` of the view reads back the value written to it,
    channel by channel -/
theorem C04_bits_fill_post (fb : Nat) (widths order : List Nat) (hfield : bitSize widths + 7 ≤ 8 * fb)
    (hw : ∀ k, width widths k ≤ 64) (hord : ∀ k ∈ order, k < widths.length)
    (c0 : Cur) (hb : 0 ≤ c0.byte) (h0 : 0 ≤ c0.off) (h7 : c0.off < 8) (rowBits w : Nat)
    (hpitch : w * bitSize widths ≤ rowBits)
    (rows : List (List (Nat → Nat))) (M : Nat)
    (hlen : ∀ r ∈ rows, r.length = w)
    (hvals : ∀ r ∈ rows, ∀ p ∈ r, ∀ k ∈ order, p k < 2 ^ width widths k)
    (y : Nat) (hy : y < rows.length) (x : Nat) (hx : x < (rows[y]).length) (k : Nat) (hk : k ∈ order) :
    bitsAt (baWriteRows fb M c0 rowBits widths order 0 rows)
      (c0.pos.toNat + y * rowBits + x * bitSize widths + sumK widths k) (width widths k) = (rows[y])[x] k := by
  have := post_gen fb widths order hfield hw hord c0 hb h0 h7 rowBits w hpitch rows M 0 hlen hvals y hy x hx k hk
  rw [Nat.zero_add] at this
  exact this

/-- 1-D traversable view (no padding): the fill is ONE run of `n = w * h` pixels, bits outside `[pos, pos + n * bit_size)`
    are unchanged (the frame half of `C08_write_run`) -/
theorem C04_bits_fill_1d_frame (fb : Nat) (widths order : List Nat) (hfield : bitSize widths + 7 ≤ 8 * fb)
    (hw : ∀ k, width widths k ≤ 64) (hord : ∀ k ∈ order, k < widths.length)
    (c : Cur) (hb : 0 ≤ c.byte) (h0 : 0 ≤ c.off) (h7 : c.off < 8)
    (w h : Nat) (ps : List (Nat → Nat)) (M : Nat) (hlen : ps.length = w * h)
    (hvals : ∀ p ∈ ps, ∀ k ∈ order, p k < 2 ^ width widths k)
    (i : Nat) (hi : i < c.pos.toNat ∨ c.pos.toNat + w * h * bitSize widths ≤ i) :
    (baWriteRun fb M c widths order ps).testBit i = M.testBit i := by
  apply (C08_write_run fb widths order hfield hw hord ps M c hb h0 h7 hvals).2
  rw [hlen]; exact hi

end GilVerif.Props.C04
