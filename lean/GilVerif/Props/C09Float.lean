/-
  C09, float luminance (rgb → gray for every source depth except uint8_t: 16-bit and float32 channels) --
  PROVED relative to `FloatSpec` (Basic/FloatSpec.lean).

  ASSUMED (trusted base): the binary32 arithmetic of the target satisfies `FloatSpec` with eps = 2^-24, big = 2^24, and
  `rgb_to_luminance_fn` performs   ((r*0.30f) + (g*0.59f)) + (b*0.11f)   with one rounding per operation (no FMA),
  between `channel_convert<float32_t>` of the sources and `channel_convert<Gray>` of the result
  (abstract models `lumF`, `lum16` in Lemmas/C09Float.lean; `toF` / `fromF` from C06).  The executable model
  (Model/C09.lean `lum`) performs the same sequence with `Float32` and is compared bit for bit with the real code.
  PROVED:
    * `C09_float_weights`: the three literals are the binary32 roundings of 0.30, 0.59, 0.11 (kernel-evaluated with
      the genuine rounding) and sum to 1 - 2^-26;
    * for EVERY `R : FloatSpec`: float32 luminance is monotone in each channel, maps black to 0, lies within 7 eps of
      the exact weighted sum (within 7 eps + 2^-24 of 0.30 r + 0.59 g + 0.11 b), maps a gray (v,v,v) to within
      7 eps + 2^-26 of v, and stays in [0, 1 + 7 eps];
    * NOT provable from `FloatSpec` alone: white ↦ exactly 1 and range ≤ 1 (a faithful but not nearest rounding may
      return 1 + ulp).  For the genuine round-to-nearest-even binary32 (`FloatSpec.binary32`, kernel-evaluated):
      white ↦ 1, hence (by monotonicity) the luminance of every pixel of [0,1]^3 is in [0,1]
      (`C09_float_lum_binary32_range`);
    * 16-bit channels, for every `R` with `IsBinary32`: gray is EXACT (`lum16 v v v = v`, so black ↦ 0, white ↦ 65535),
      monotone in each channel, range [0, 65535], within one unit of the exact weighted sum (error budget in
      Lemmas/C09Float.lean `lum16_core`: eps*(10*65535+3) ≤ 0.04 around the +0.5 truncation).
  Only property theorems live here (named C09_float_*).
-/
import GilVerif.Lemmas.C09Float
import GilVerif.Basic.FloatNearest

namespace GilVerif.Props.C09Float
open GilVerif GilVerif.FloatSpec GilVerif.Lemmas.C06Float GilVerif.Lemmas.C09Float

/-- the literals 0.30f, 0.59f, 0.11f are the correctly rounded binary32 values; they sum to 1 - 2^-26 -/
theorem C09_float_weights :
    FloatSpec.binary32.rnd (30 / 100) = w30 ∧ FloatSpec.binary32.rnd (59 / 100) = w59 ∧ FloatSpec.binary32.rnd (11 / 100) = w11
    ∧ w30 + w59 + w11 = 1 - 1 / 2 ^ 26 := by
  refine ⟨?_, ?_, ?_, w_sum⟩
  · unfold FloatSpec.binary32 FloatSpec.nearest w30; simp only []; decide +kernel
  · unfold FloatSpec.binary32 FloatSpec.nearest w59; simp only []; decide +kernel
  · unfold FloatSpec.binary32 FloatSpec.nearest w11; simp only []; decide +kernel

/-! ### float32 luminance, every FloatSpec -/

/-- order: monotone in each channel (jointly) -/
theorem C09_float_lum_monotone (R : FloatSpec) (r r' g g' b b' : ℚ) (hr : r ≤ r') (hg : g ≤ g') (hb : b ≤ b') :
    lumF R r g b ≤ lumF R r' g' b' := by
  have h30 : (0 : ℚ) ≤ w30 := by unfold w30; norm_num
  have h59 : (0 : ℚ) ≤ w59 := by unfold w59; norm_num
  have h11 : (0 : ℚ) ≤ w11 := by unfold w11; norm_num
  have a := R.monotone _ _ (mul_le_mul_of_nonneg_right hr h30)
  have b_ := R.monotone _ _ (mul_le_mul_of_nonneg_right hg h59)
  have c := R.monotone _ _ (mul_le_mul_of_nonneg_right hb h11)
  unfold lumF
  exact R.monotone _ _ (add_le_add (R.monotone _ _ (add_le_add a b_)) c)

/-- neutral: black ↦ 0 exactly -/
theorem C09_float_lum_black (R : FloatSpec) : lumF R 0 0 0 = 0 := by
  unfold lumF; simp only [zero_mul, R.rnd_zero, add_zero]

/-- within 7 eps of the exact weighted sum with the float weights, and within 7 eps + 2^-24 of 0.30 r + 0.59 g + 0.11 b -/
theorem C09_float_lum_error (R : FloatSpec) (he : R.eps ≤ 1 / 16) (r g b : ℚ) (hr : 0 ≤ r) (hr1 : r ≤ 1) (hg : 0 ≤ g) (hg1 : g ≤ 1)
    (hb : 0 ≤ b) (hb1 : b ≤ 1) :
    |lumF R r g b - (r * w30 + g * w59 + b * w11)| ≤ 7 * R.eps
    ∧ |lumF R r g b - (30 / 100 * r + 59 / 100 * g + 11 / 100 * b)| ≤ 7 * R.eps + 1 / 2 ^ 24 := by
  obtain ⟨-, h⟩ := lumF_steps R he hr hr1 hg hg1 hb hb1
  refine ⟨h, ?_⟩
  rw [abs_le] at h ⊢
  unfold w30 w59 w11 at h
  constructor <;> nlinarith [h.1, h.2]

/-- neutral: a gray (v,v,v) comes out within 7 eps + 2^-26 of v -/
theorem C09_float_lum_gray (R : FloatSpec) (he : R.eps ≤ 1 / 16) (v : ℚ) (hv : 0 ≤ v) (hv1 : v ≤ 1) :
    |lumF R v v v - v| ≤ 7 * R.eps + 1 / 2 ^ 26 := by
  obtain ⟨-, h⟩ := lumF_steps R he hv hv1 hv hv1 hv hv1
  have hw := w_sum
  have e : v * w30 + v * w59 + v * w11 = v - v / 2 ^ 26 := by
    have : v * w30 + v * w59 + v * w11 = v * (w30 + w59 + w11) := by ring
    rw [this, hw]; ring
  rw [e, abs_le] at h
  rw [abs_le]
  have : v / 2 ^ 26 ≤ 1 / 2 ^ 26 := div_le_div_of_nonneg_right hv1 (by positivity)
  have : 0 ≤ v / 2 ^ 26 := div_nonneg hv (by positivity)
  constructor <;> linarith [h.1, h.2]

/-- range relative to FloatSpec alone: [0, 1 + 7 eps] -/
theorem C09_float_lum_range (R : FloatSpec) (he : R.eps ≤ 1 / 16) (r g b : ℚ) (hr : 0 ≤ r) (hr1 : r ≤ 1) (hg : 0 ≤ g) (hg1 : g ≤ 1)
    (hb : 0 ≤ b) (hb1 : b ≤ 1) : 0 ≤ lumF R r g b ∧ lumF R r g b ≤ 1 + 7 * R.eps := by
  obtain ⟨h0, h⟩ := lumF_steps R he hr hr1 hg hg1 hb hb1
  refine ⟨h0, ?_⟩
  have hw := w_sum
  have h30 : (0 : ℚ) ≤ w30 := by unfold w30; norm_num
  have h59 : (0 : ℚ) ≤ w59 := by unfold w59; norm_num
  have h11 : (0 : ℚ) ≤ w11 := by unfold w11; norm_num
  have a := mul_le_mul_of_nonneg_right hr1 h30
  have b_ := mul_le_mul_of_nonneg_right hg1 h59
  have c := mul_le_mul_of_nonneg_right hb1 h11
  rw [abs_le] at h
  have : (1 : ℚ) / 2 ^ 26 ≥ 0 := by positivity
  linarith [h.2]

/-- the genuine binary32 rounding (round to nearest even, kernel-evaluated): white ↦ exactly 1 and mid-gray ↦ exactly 1/2;
    hence, by monotonicity, every pixel of [0,1]^3 has luminance in [0,1] -/
theorem C09_float_lum_binary32_range :
    lumF FloatSpec.binary32 1 1 1 = 1 ∧ lumF FloatSpec.binary32 (1 / 2) (1 / 2) (1 / 2) = 1 / 2
    ∧ ∀ r g b : ℚ, 0 ≤ r → r ≤ 1 → 0 ≤ g → g ≤ 1 → 0 ≤ b → b ≤ 1 →
        0 ≤ lumF FloatSpec.binary32 r g b ∧ lumF FloatSpec.binary32 r g b ≤ 1 := by
  have hw : lumF FloatSpec.binary32 1 1 1 = 1 := by
    unfold lumF FloatSpec.binary32 FloatSpec.nearest w30 w59 w11; simp only []; decide +kernel
  refine ⟨hw, ?_, ?_⟩
  · unfold lumF FloatSpec.binary32 FloatSpec.nearest w30 w59 w11; simp only []; decide +kernel
  · intro r g b hr hr1 hg hg1 hb hb1
    constructor
    · have := C09_float_lum_monotone FloatSpec.binary32 0 r 0 g 0 b hr hg hb
      rwa [C09_float_lum_black] at this
    · have := C09_float_lum_monotone FloatSpec.binary32 r 1 g 1 b 1 hr1 hg1 hb1
      rwa [hw] at this

/-! ### 16-bit channels (rgb16 → gray16), every FloatSpec with the binary32 parameters -/

/-- neutral, exact: a 16-bit gray (v,v,v) ↦ v; in particular black ↦ 0 and white ↦ 65535 -/
theorem C09_float_lum16_gray_exact (R : FloatSpec) (h32 : R.IsBinary32) (v : ℤ) (hv : 0 ≤ v) (hv1 : v ≤ 65535) :
    lum16 R v v v = v := by
  obtain ⟨q, hq, he⟩ := lum16_core R h32 hv hv1 hv hv1 hv hv1
  have hw := w_sum
  have hvq : (0 : ℚ) ≤ v ∧ (v : ℚ) ≤ 65535 := ⟨by exact_mod_cast hv, by exact_mod_cast hv1⟩
  have e : (v : ℚ) * w30 + v * w59 + v * w11 = v - v / 2 ^ 26 := by
    have : (v : ℚ) * w30 + v * w59 + v * w11 = v * (w30 + w59 + w11) := by ring
    rw [this, hw]; ring
  rw [e, abs_le] at he
  have h1 : (v : ℚ) / 2 ^ 26 ≤ 65535 / 2 ^ 26 := div_le_div_of_nonneg_right hvq.2 (by positivity)
  have h0 : 0 ≤ (v : ℚ) / 2 ^ 26 := div_nonneg hvq.1 (by positivity)
  rw [hq, Int.floor_eq_iff]
  norm_num at h1
  constructor <;> linarith [he.1, he.2]

/-- order: monotone in each channel (jointly) -/
theorem C09_float_lum16_monotone (R : FloatSpec) (h32 : R.IsBinary32) (r r' g g' b b' : ℤ)
    (hr0 : 0 ≤ r) (hr : r ≤ r') (hr1 : r' ≤ 65535) (hg0 : 0 ≤ g) (hg : g ≤ g') (hg1 : g' ≤ 65535)
    (hb0 : 0 ≤ b) (hb : b ≤ b') (hb1 : b' ≤ 65535) : lum16 R r g b ≤ lum16 R r' g' b' := by
  have hmb : ((65535 : ℤ) : ℚ) ≤ R.big := by have := h32.2; norm_num at this ⊢; linarith
  have m1 := GilVerif.Props.C06Float.C06_float_of_int_monotone R 65535 r r' (by norm_num) hmb hr0 hr hr1
  have m2 := GilVerif.Props.C06Float.C06_float_of_int_monotone R 65535 g g' (by norm_num) hmb hg0 hg hg1
  have m3 := GilVerif.Props.C06Float.C06_float_of_int_monotone R 65535 b b' (by norm_num) hmb hb0 hb hb1
  obtain ⟨fr0, fr1, -, -⟩ := GilVerif.Props.C06Float.C06_float_of_int_range_error R 65535 r (by norm_num) hmb hr0 (by omega)
  obtain ⟨fg0, fg1, -, -⟩ := GilVerif.Props.C06Float.C06_float_of_int_range_error R 65535 g (by norm_num) hmb hg0 (by omega)
  obtain ⟨fb0, fb1, -, -⟩ := GilVerif.Props.C06Float.C06_float_of_int_range_error R 65535 b (by norm_num) hmb hb0 (by omega)
  have he : R.eps ≤ 1 / 16 := by have := h32.1; norm_num at this; linarith
  obtain ⟨y0, -⟩ := lumF_steps R he fr0 fr1 fg0 fg1 fb0 fb1
  unfold lum16
  exact GilVerif.Props.C06Float.C06_float_to_int_monotone R 65535 (by norm_num) hmb _ _ y0
    (C09_float_lum_monotone R _ _ _ _ _ _ m1 m2 m3)

/-- range: [0, 65535]; black ↦ 0, white ↦ 65535 -/
theorem C09_float_lum16_range (R : FloatSpec) (h32 : R.IsBinary32) (r g b : ℤ)
    (hr0 : 0 ≤ r) (hr1 : r ≤ 65535) (hg0 : 0 ≤ g) (hg1 : g ≤ 65535) (hb0 : 0 ≤ b) (hb1 : b ≤ 65535) :
    0 ≤ lum16 R r g b ∧ lum16 R r g b ≤ 65535 ∧ lum16 R 0 0 0 = 0 ∧ lum16 R 65535 65535 65535 = 65535 := by
  have e0 := C09_float_lum16_gray_exact R h32 0 (le_refl 0) (by norm_num)
  have e1 := C09_float_lum16_gray_exact R h32 65535 (by norm_num) (le_refl _)
  have lo := C09_float_lum16_monotone R h32 0 r 0 g 0 b (le_refl 0) hr0 hr1 (le_refl 0) hg0 hg1 (le_refl 0) hb0 hb1
  have hi := C09_float_lum16_monotone R h32 r 65535 g 65535 b 65535 hr0 hr1 (le_refl _) hg0 hg1 (le_refl _) hb0 hb1 (le_refl _)
  rw [e0] at lo; rw [e1] at hi
  exact ⟨lo, hi, e0, e1⟩

/-- less than one 16-bit unit from the exact weighted sum (float weights), and from 0.30 r + 0.59 g + 0.11 b -/
theorem C09_float_lum16_error (R : FloatSpec) (h32 : R.IsBinary32) (r g b : ℤ)
    (hr0 : 0 ≤ r) (hr1 : r ≤ 65535) (hg0 : 0 ≤ g) (hg1 : g ≤ 65535) (hb0 : 0 ≤ b) (hb1 : b ≤ 65535) :
    |(lum16 R r g b : ℚ) - ((r : ℚ) * w30 + g * w59 + b * w11)| < 1
    ∧ |(lum16 R r g b : ℚ) - (30 / 100 * (r : ℚ) + 59 / 100 * g + 11 / 100 * b)| < 1 := by
  obtain ⟨q, hq, he⟩ := lum16_core R h32 hr0 hr1 hg0 hg1 hb0 hb1
  have f1 := Int.floor_le q
  have f2 := Int.lt_floor_add_one q
  have hrq : (0 : ℚ) ≤ r ∧ (r : ℚ) ≤ 65535 := ⟨by exact_mod_cast hr0, by exact_mod_cast hr1⟩
  have hgq : (0 : ℚ) ≤ g ∧ (g : ℚ) ≤ 65535 := ⟨by exact_mod_cast hg0, by exact_mod_cast hg1⟩
  have hbq : (0 : ℚ) ≤ b ∧ (b : ℚ) ≤ 65535 := ⟨by exact_mod_cast hb0, by exact_mod_cast hb1⟩
  rw [hq]
  rw [abs_le] at he
  constructor
  · rw [abs_lt]; constructor <;> linarith [he.1, he.2]
  · rw [abs_lt]; unfold w30 w59 w11 at he
    constructor <;> linarith [he.1, he.2]

/-- genuine binary32, kernel-evaluated: the 16-bit pixel (65535, 0, 0) ↦ 19661 = round (0.30 * 65535), (12345, 54321, 999) ↦ 35863 -/
theorem C09_float_genuine_instance :
    lum16 FloatSpec.binary32 65535 0 0 = 19661 ∧ lum16 FloatSpec.binary32 12345 54321 999 = 35863 := by
  constructor
  · unfold lum16 lumF fromF toF FloatSpec.binary32 FloatSpec.nearest w30 w59 w11; simp only []; decide +kernel
  · unfold lum16 lumF fromF toF FloatSpec.binary32 FloatSpec.nearest w30 w59 w11; simp only []; decide +kernel

/-! ### non-vacuity -/
example : FloatSpec.binary32.IsBinary32 := FloatSpec.binary32_isBinary32
example : (FloatSpec.exact (2 ^ 24) (by norm_num)).IsBinary32 := FloatSpec.exact_isBinary32

end GilVerif.Props.C09Float
