/-
  C09 -- default colour conversion: neutrals, range, order, composition.

  Theorems about the 8-bit integer kernels are stated over the GENERATED definitions (Gen/C09.lean is re-translated
  from color_convert.hpp / channel_algorithm.hpp on every run); theorems about the dispatch are stated over
  Model/C09.lean.  rgb -> cmyk scales with a `double` factor and the 16-bit / float32 luminance runs in float32:
  those steps are executable in the model (hardware floats, bit-exact against the code) but opaque to the kernel, so
  the round trip theorem is stated for every truncation result within 1.5 of the exact scaled value
  (`_partial`, partial (float)); that the IEEE result is such a value is established by the exhaustive sweep.
-/
import GilVerif.Model.C09
import Mathlib.Tactic.Linarith
import Mathlib.Tactic.IntervalCases

namespace GilVerif.Props.C09
open GilVerif.Gen.C09 GilVerif.Model.C09

/-! ## 8-bit luminance (weights 4915 / 9667 / 1802, + 8192, >> 14) -/

/-- closed form: no wrap occurs for byte inputs -/
theorem C09_lum_closed (r g b : Int) (hr : 0 ≤ r ∧ r ≤ 255) (hg : 0 ≤ g ∧ g ≤ 255) (hb : 0 ≤ b ∧ b ≤ 255) :
    lum8 r g b = (4915 * r + 9667 * g + 1802 * b + 8192) / 16384 := by
  unfold lum8
  simp (disch := omega) only [Int.emod_eq_of_lt]
  omega

/-- rgb (v,v,v) maps to gray v exactly (4915 + 9667 + 1802 = 2^14) -/
theorem C09_gray_exact (v : Int) (h0 : 0 ≤ v) (h1 : v ≤ 255) : lum8 v v v = v := by
  rw [C09_lum_closed v v v ⟨h0, h1⟩ ⟨h0, h1⟩ ⟨h0, h1⟩]; omega

theorem C09_lum_range (r g b : Int) (hr : 0 ≤ r ∧ r ≤ 255) (hg : 0 ≤ g ∧ g ≤ 255) (hb : 0 ≤ b ∧ b ≤ 255) :
    0 ≤ lum8 r g b ∧ lum8 r g b ≤ 255 := by
  rw [C09_lum_closed r g b hr hg hb]; omega

/-- monotone in each channel (jointly) -/
theorem C09_lum_monotone (r g b r' g' b' : Int) (hr : 0 ≤ r ∧ r ≤ r' ∧ r' ≤ 255) (hg : 0 ≤ g ∧ g ≤ g' ∧ g' ≤ 255)
    (hb : 0 ≤ b ∧ b ≤ b' ∧ b' ≤ 255) : lum8 r g b ≤ lum8 r' g' b' := by
  rw [C09_lum_closed r g b (by omega) (by omega) (by omega), C09_lum_closed r' g' b' (by omega) (by omega) (by omega)]
  omega

/-- within one unit of 0.30 r + 0.59 g + 0.11 b (in hundredths: |100 y - (30 r + 59 g + 11 b)| ≤ 52 < 100) -/
theorem C09_lum_within_one (r g b : Int) (hr : 0 ≤ r ∧ r ≤ 255) (hg : 0 ≤ g ∧ g ≤ 255) (hb : 0 ≤ b ∧ b ≤ 255) :
    -52 ≤ 100 * lum8 r g b - (30 * r + 59 * g + 11 * b) ∧ 100 * lum8 r g b - (30 * r + 59 * g + 11 * b) ≤ 52 := by
  rw [C09_lum_closed r g b hr hg hb]; omega

example : lum8 200 100 50 = 124 ∧ lum8 255 255 255 = 255 ∧ lum8 0 0 0 = 0 := by decide

/-! ## channel kernels the 8-bit conversions are composed of -/

private theorem prod_bound {a b : Int} (ha : 0 ≤ a ∧ a ≤ 255) (hb : 0 ≤ b ∧ b ≤ 255) : 0 ≤ a * b ∧ a * b ≤ 255 * b := by
  constructor
  · exact Int.mul_nonneg ha.1 hb.1
  · exact Int.mul_le_mul_of_nonneg_right ha.2 hb.1

/-- 8-bit channel_multiply is round-to-nearest of a*b/255, never exceeds either factor's bound -/
theorem C09_mul8_closed (a b : Int) (ha : 0 ≤ a ∧ a ≤ 255) (hb : 0 ≤ b ∧ b ≤ 255) :
    mul_u8 a b = (a * b + 127) / 255 ∧ 0 ≤ mul_u8 a b ∧ mul_u8 a b ≤ b := by
  have ⟨h0, h1⟩ := prod_bound ha hb
  unfold mul_u8 div255
  generalize a * b = p at *
  simp (disch := omega) only [Int.emod_eq_of_lt]
  omega

/-- one channel of cmyk8 -> rgb8: 255 - (mul(x, 255-k) + k), no wrap, no clamp, in range -/
theorem C09_cmyk_chan8 (x k : Int) (hx : 0 ≤ x ∧ x ≤ 255) (hk : 0 ≤ k ∧ k ≤ 255) :
    cmykChan .d8 x k = 255 - (mul_u8 x (255 - k) + k) ∧ 0 ≤ cmykChan .d8 x k ∧ cmykChan .d8 x k ≤ 255 := by
  have ⟨_, m0, m1⟩ := C09_mul8_closed x (255 - k) hx (by omega)
  unfold cmykChan chMul chInv invert_u8 Depth.maxV
  simp only []
  have e : (255 - k + 0) % 256 = 255 - k := by omega
  rw [e]
  generalize mul_u8 x (255 - k) = m at *
  split <;> omega

/-- rgb8 -> cmyk8 -> rgb8 returns the original within one level, for EVERY truncation result `t` of the scaled
    value that lies within 1.5 of the exact `(c-k)*255/(255-k)` (c = 255 - channel, k = min over the channels).
    partial (float): the code obtains `t` as `uint8_t((c-k) * (255/double(255-k)))`; that this IEEE result is within
    the stated distance is established for all 2^24 pixels by the sweep, not by this theorem. -/
theorem C09_cmyk_roundtrip_partial (c k t : Int) (hk : 0 ≤ k ∧ k ≤ c) (_hc : c ≤ 255) (hk' : k < 255)
    (ht0 : 0 ≤ t ∧ t ≤ 255) (hlo : t * (255 - k) ≤ (c - k) * 255) (hhi : 2 * ((c - k) * 255 - t * (255 - k)) ≤ 3 * (255 - k)) :
    -- back = cmykChan .d8 t k (the channel converted back), orig = 255 - c (c = invert(original channel))
    -1 ≤ cmykChan .d8 t k - (255 - c) ∧ cmykChan .d8 t k - (255 - c) ≤ 1 := by
  have ⟨e, _, _⟩ := C09_cmyk_chan8 t k ht0 (by omega)
  have ⟨em, _, _⟩ := C09_mul8_closed t (255 - k) ht0 (by omega)
  rw [e, em]
  generalize t * (255 - k) = p at *
  omega

/-- the hypotheses of the round trip theorem are met by the exact floor (non-vacuity, c=200 k=40: t = 189) -/
example : (189 : Int) * (255 - 40) ≤ (200 - 40) * 255 ∧ 2 * ((200 - 40) * 255 - 189 * (255 - 40)) ≤ 3 * (255 - 40) := by decide

/-! ## the 16-bit integer kernels (cmyk16 -> rgb16, premultiplication) -/

/-- 16-bit channel_multiply is ⌊a*b/65535⌋ (no wrap), never exceeds b -/
theorem C09_mul16_closed (a b : Int) (ha : 0 ≤ a ∧ a ≤ 65535) (hb : 0 ≤ b ∧ b ≤ 65535) :
    mul_u16 a b = a * b / 65535 ∧ 0 ≤ mul_u16 a b ∧ mul_u16 a b ≤ b := by
  have h0 : 0 ≤ a * b := Int.mul_nonneg ha.1 hb.1
  have h1 : a * b ≤ 65535 * b := Int.mul_le_mul_of_nonneg_right ha.2 hb.1
  unfold mul_u16
  generalize a * b = p at *
  have e : p % 4294967296 = p := Int.emod_eq_of_lt h0 (by omega)
  rw [e]
  have q0 : 0 ≤ p / 65535 := Int.ediv_nonneg h0 (by decide)
  have q1 : p / 65535 ≤ b := by omega
  have e2 : p / 65535 % 65536 = p / 65535 := Int.emod_eq_of_lt q0 (by omega)
  rw [e2]
  exact ⟨rfl, q0, q1⟩

/-- one channel of cmyk16 -> rgb16: 65535 - (mul(x, 65535-k) + k), no wrap, no clamp, in range -/
theorem C09_cmyk_chan16 (x k : Int) (hx : 0 ≤ x ∧ x ≤ 65535) (hk : 0 ≤ k ∧ k ≤ 65535) :
    cmykChan .d16 x k = 65535 - (mul_u16 x (65535 - k) + k) ∧ 0 ≤ cmykChan .d16 x k ∧ cmykChan .d16 x k ≤ 65535 := by
  have ⟨_, m0, m1⟩ := C09_mul16_closed x (65535 - k) hx (by omega)
  unfold cmykChan chMul chInv invert_u16 Depth.maxV
  simp only []
  have e : (65535 - k + 0) % 65536 = 65535 - k := by omega
  rw [e]
  generalize mul_u16 x (65535 - k) = m at *
  split <;> omega

/-- the premultiplied 16-bit channel is below r*a/65535 by less than one unit and never exceeds the alpha -/
theorem C09_premultiply16 (r a : Int) (hr : 0 ≤ r ∧ r ≤ 65535) (ha : 0 ≤ a ∧ a ≤ 65535) :
    -65535 < 65535 * chMul .d16 r a - r * a ∧ 65535 * chMul .d16 r a - r * a ≤ 0 ∧ chMul .d16 r a ≤ a := by
  have ⟨e, _, h⟩ := C09_mul16_closed r a hr ha
  show -65535 < 65535 * mul_u16 r a - r * a ∧ 65535 * mul_u16 r a - r * a ≤ 0 ∧ mul_u16 r a ≤ a
  rw [e]; generalize r * a = p at *; omega

example : cmykChan .d16 20000 30000 = 24691 ∧ chMul .d16 40000 50000 = 30518 := by decide

/-! ## the `double` scale factor through the oracle table (extracted from the compiled code, Model/C09Table.lean) -/

/-- what one table entry must satisfy: a byte, never above the exact scaled value d*255/(255-k), at most 1.5 below it -/
private def entryOk (k d : Nat) : Bool :=
  let t : Int := cmykScale k d; let y : Int := 255 - k; let dd : Int := d
  decide (t ≤ 255 ∧ t * y ≤ dd * 255 ∧ 2 * (dd * 255 - t * y) ≤ 3 * y)

/-- all 32 895 entries of the table extracted from the compiled code are within 1.5 of the exact scaled value and
    never above it (kernel evaluation) -/
theorem C09_cmyk_table_ok : (List.range 255).all (fun k => (List.range (256 - k)).all (fun d => entryOk k d)) = true := by
  decide +kernel

private theorem entry_facts (k d : Nat) (hk : k < 255) (hd : d < 256 - k) :
    let t : Int := cmykScale k d
    0 ≤ t ∧ t ≤ 255 ∧ t * (255 - (k : Int)) ≤ (d : Int) * 255 ∧ 2 * ((d : Int) * 255 - t * (255 - (k : Int))) ≤ 3 * (255 - (k : Int)) := by
  have h := C09_cmyk_table_ok
  rw [List.all_eq_true] at h
  have h2 := h k (List.mem_range.mpr hk)
  rw [List.all_eq_true] at h2
  have h3 := h2 d (List.mem_range.mpr hd)
  simp only [entryOk, decide_eq_true_eq] at h3
  exact ⟨Int.natCast_nonneg _, h3.1, h3.2.1, h3.2.2⟩

/-- rgb8 -> cmyk8 -> rgb8 returns every channel within one level, for ALL rgb8 pixels, for the model whose `double`
    step is the table extracted from the compiled code (unconditional; the tie table = code is checked on every run) -/
theorem C09_cmyk_roundtrip (r g b : Int) (hr : 0 ≤ r ∧ r ≤ 255) (hg : 0 ≤ g ∧ g ≤ 255) (hb : 0 ≤ b ∧ b ≤ 255) :
    ∀ i, i < 3 →
      -1 ≤ nth (colorConvert .cmyk .rgb .d8 .d8 (rgbToCmykT r g b)) i - nth [r, g, b] i
      ∧ nth (colorConvert .cmyk .rgb .d8 .d8 (rgbToCmykT r g b)) i - nth [r, g, b] i ≤ 1 := by
  -- one channel: original value x (so c = 255 - x), black k ≤ c
  have chan : ∀ x k : Int, 0 ≤ x → x ≤ 255 → 0 ≤ k → k ≤ 255 - x → k < 255 →
      -1 ≤ cmykChan .d8 (Int.ofNat (cmykScale k.toNat ((255 - x) - k).toNat)) k - x
      ∧ cmykChan .d8 (Int.ofNat (cmykScale k.toNat ((255 - x) - k).toNat)) k - x ≤ 1 := by
    intro x k hx0 hx1 hk0 hk1 hk2
    have hkn : k.toNat < 255 := by omega
    have hdn : ((255 - x) - k).toNat < 256 - k.toNat := by omega
    have ef := entry_facts k.toNat ((255 - x) - k).toNat hkn hdn
    simp only [] at ef
    have ek : ((k.toNat : Nat) : Int) = k := Int.toNat_of_nonneg hk0
    have ed : ((((255 - x) - k).toNat : Nat) : Int) = (255 - x) - k := Int.toNat_of_nonneg (by omega)
    rw [ek, ed] at ef
    have := C09_cmyk_roundtrip_partial (255 - x) k (cmykScale k.toNat ((255 - x) - k).toNat) ⟨hk0, hk1⟩ (by omega) hk2
      ⟨ef.1, ef.2.1⟩ ef.2.2.1 ef.2.2.2
    have e : (255 : Int) - (255 - x) = x := by omega
    rw [e] at this
    exact this
  intro i hi
  unfold rgbToCmykT invert_u8
  simp only []
  have e1 : (255 - r + 0) % 256 = 255 - r := by omega
  have e2 : (255 - g + 0) % 256 = 255 - g := by omega
  have e3 : (255 - b + 0) % 256 = 255 - b := by omega
  rw [e1, e2, e3]
  by_cases hk : min (255 - r) (min (255 - g) (255 - b)) = 255
  · -- black: r = g = b = 0
    simp only [hk, if_true]
    have : r = 0 ∧ g = 0 ∧ b = 0 := by omega
    obtain ⟨rfl, rfl, rfl⟩ := this
    interval_cases i <;> decide
  · simp only [hk, if_false]
    have hk0 : 0 ≤ min (255 - r) (min (255 - g) (255 - b)) := by omega
    have hk2 : min (255 - r) (min (255 - g) (255 - b)) < 255 := by omega
    have cr := chan r _ hr.1 hr.2 hk0 (by omega) hk2
    have cg := chan g _ hg.1 hg.2 hk0 (by omega) hk2
    have cb := chan b _ hb.1 hb.2 hk0 (by omega) hk2
    generalize min (255 - r) (min (255 - g) (255 - b)) = k at *
    interval_cases i <;>
      simp only [colorConvert, convNoAlpha, toRgb, nth, chConv, List.getD_cons_zero, List.getD_cons_succ] <;> assumption

/-- white to white and black to black through rgb8 -> cmyk8 with the table step -/
theorem C09_black_white_table : rgbToCmykT 255 255 255 = [0, 0, 0, 0] ∧ rgbToCmykT 0 0 0 = [0, 0, 0, 255] := by
  decide +kernel

/-! ## neutrals (the integer branches of the model; white through rgb -> cmyk needs the double factor: sweep) -/

/-- black and white between rgb8, opaque rgba8 and cmyk8, every pair whose path is integer arithmetic -/
theorem C09_black_white :
    colorConvert .rgb .cmyk .d8 .d8 [0, 0, 0] = [0, 0, 0, 255]
    ∧ colorConvert .rgba .cmyk .d8 .d8 [0, 0, 0, 255] = [0, 0, 0, 255]
    ∧ colorConvert .cmyk .rgb .d8 .d8 [0, 0, 0, 255] = [0, 0, 0] ∧ colorConvert .cmyk .rgb .d8 .d8 [0, 0, 0, 0] = [255, 255, 255]
    ∧ colorConvert .cmyk .rgba .d8 .d8 [0, 0, 0, 255] = [0, 0, 0, 255] ∧ colorConvert .cmyk .rgba .d8 .d8 [0, 0, 0, 0] = [255, 255, 255, 255]
    ∧ colorConvert .rgb .rgba .d8 .d8 [0, 0, 0] = [0, 0, 0, 255] ∧ colorConvert .rgb .rgba .d8 .d8 [255, 255, 255] = [255, 255, 255, 255]
    ∧ colorConvert .rgba .rgb .d8 .d8 [0, 0, 0, 255] = [0, 0, 0] ∧ colorConvert .rgba .rgb .d8 .d8 [255, 255, 255, 255] = [255, 255, 255]
    ∧ colorConvert .cmyk .gray .d8 .d8 [0, 0, 0, 255] = [0] ∧ colorConvert .cmyk .gray .d8 .d8 [0, 0, 0, 0] = [255] := by
  decide

/-! ## composition: what the dispatch does with alpha, and same-space conversion -/

/-- converting from rgba is converting the alpha-premultiplied rgb pixel (every destination but rgba, every depth) -/
theorem C09_rgba_premultiplied (c : Space) (s t : Depth) (p : List Int) (hc : c ≠ .rgba) :
    colorConvert .rgba c s t p = colorConvert .rgb c s t (premultiply s p) := by
  cases c <;> simp_all [colorConvert]

/-- the premultiplied 8-bit channel is within half a unit of r*a/255 and never exceeds the alpha -/
theorem C09_premultiply8 (r a : Int) (hr : 0 ≤ r ∧ r ≤ 255) (ha : 0 ≤ a ∧ a ≤ 255) :
    -255 < 255 * chMul .d8 r a - r * a ∧ 255 * chMul .d8 r a - r * a < 255 ∧ chMul .d8 r a ≤ a := by
  have ⟨e, _, h⟩ := C09_mul8_closed r a hr ha
  have ⟨h0, h1⟩ := prod_bound hr ha
  show -255 < 255 * mul_u8 r a - r * a ∧ 255 * mul_u8 r a - r * a < 255 ∧ mul_u8 r a ≤ a
  rw [e]; generalize r * a = p at *; omega

/-- converting to rgba from a space without alpha sets alpha to the converted source maximum, which is the
    destination maximum for every depth pair; rgba -> rgba carries the source alpha through channel_convert -/
theorem C09_to_rgba_alpha (c : Space) (s t : Depth) (p : List Int) (hc : c ≠ .rgba) :
    (colorConvert c .rgba s t p).getD 3 0 = chConv s t s.maxV
    ∧ (∀ r g b a : Int, colorConvert .rgba .rgba s t [r, g, b, a] = [chConv s t r, chConv s t g, chConv s t b, chConv s t a]) := by
  refine ⟨?_, fun r g b a => by simp [colorConvert]⟩
  cases c <;> simp_all [colorConvert, convNoAlpha, toRgb]

/-- the converted maximum is the destination maximum on the integer paths (float paths: correspondence) -/
theorem C09_alpha_max_int : chConv .d8 .d8 255 = 255 ∧ chConv .d16 .d16 65535 = 65535 ∧ chConv .d8 .d16 255 = 65535 ∧ chConv .d16 .d8 65535 = 255 := by
  decide

/-- same-colour-space conversion is per-channel channel_convert -/
theorem C09_same_space (s t : Depth) :
    (∀ v : Int, colorConvert .gray .gray s t [v] = [chConv s t v])
    ∧ (∀ r g b : Int, colorConvert .rgb .rgb s t [r, g, b] = [chConv s t r, chConv s t g, chConv s t b])
    ∧ (∀ c m y k : Int, colorConvert .cmyk .cmyk s t [c, m, y, k] = [chConv s t c, chConv s t m, chConv s t y, chConv s t k])
    ∧ (∀ r g b a : Int, colorConvert .rgba .rgba s t [r, g, b, a] = [chConv s t r, chConv s t g, chConv s t b, chConv s t a]) := by
  simp [colorConvert, convNoAlpha, toRgb, nth]

/-- gray v converts to rgb (w,w,w) with w = channel_convert(v), and w = v when the depth is kept -/
theorem C09_gray_to_rgb (s t : Depth) (v : Int) :
    colorConvert .gray .rgb s t [v] = [chConv s t v, chConv s t v, chConv s t v] ∧ chConv s s v = v := by
  constructor
  · simp [colorConvert, convNoAlpha, toRgb, nth]
  · cases s <;> rfl

/-- gray -> heterogeneous rgb (packed rgb565 / rgb332, bit-aligned): channel k of the result is channel_convert of the gray
    into packed_channel_value<w_k>, the k-th channel's OWN type -- in particular blue is scaled to blue's width, not green's;
    heterogeneous rgb -> rgb8 converts channel k from its own width -/
theorem C09_gray_to_het (s : GilVerif.Model.C06.Ch) (wr wg wb : Nat) (v r g b : Int) :
    grayToHet s [wr, wg, wb] v = [GilVerif.Model.C06.conv s (.packed wr) v, GilVerif.Model.C06.conv s (.packed wg) v, GilVerif.Model.C06.conv s (.packed wb) v]
    ∧ hetToRgb8 [wr, wg, wb] [r, g, b] = [GilVerif.Model.C06.conv (.packed wr) .u8 r, GilVerif.Model.C06.conv (.packed wg) .u8 g, GilVerif.Model.C06.conv (.packed wb) .u8 b]
    ∧ rgb8ToHet [wr, wg, wb] [r, g, b] = [GilVerif.Model.C06.conv .u8 (.packed wr) r, GilVerif.Model.C06.conv .u8 (.packed wg) g, GilVerif.Model.C06.conv .u8 (.packed wb) b] :=
  ⟨rfl, rfl, rfl⟩

/-- neutrals on the integer paths of the model: rgb565 / rgb332 white and black to rgb8, and gray8 into a 2-4-2 packed
    pixel (divisible down-conversions); gray -> rgb565 itself runs through the `double` path of C06 and is decided by the
    correspondence (every gray8 and gray16 value enumerated) -/
theorem C09_het_neutrals :
    hetToRgb8 [5, 6, 5] [31, 63, 31] = [255, 255, 255] ∧ hetToRgb8 [5, 6, 5] [0, 0, 0] = [0, 0, 0]
    ∧ hetToRgb8 [3, 3, 2] [7, 7, 3] = [255, 255, 255]
    ∧ grayToHet .u8 [2, 4, 2] 255 = [3, 15, 3] ∧ grayToHet .u8 [2, 4, 2] 0 = [0, 0, 0] := by decide

/-- rgb8 -> gray8 of the model is the generated luminance kernel (so the lum theorems are about color_convert) -/
theorem C09_rgb_to_gray8 (r g b : Int) : colorConvert .rgb .gray .d8 .d8 [r, g, b] = [lum8 r g b] := by
  simp [colorConvert, convNoAlpha, lum, chConv, nth]

/-- all outputs of the 8-bit integer conversions are in range (rgb8/rgba8/cmyk8/gray8 -> rgb8/gray8; the
    destination cmyk needs the double factor and is covered by the sweep) -/
theorem C09_range8 (c m y k : Int) (hc : 0 ≤ c ∧ c ≤ 255) (hm : 0 ≤ m ∧ m ≤ 255) (hy : 0 ≤ y ∧ y ≤ 255) (hk : 0 ≤ k ∧ k ≤ 255) :
    (∀ x ∈ colorConvert .cmyk .rgb .d8 .d8 [c, m, y, k], 0 ≤ x ∧ x ≤ 255)
    ∧ (∀ x ∈ colorConvert .rgb .gray .d8 .d8 [c, m, y], 0 ≤ x ∧ x ≤ 255)
    ∧ (∀ x ∈ premultiply .d8 [c, m, y, k], 0 ≤ x ∧ x ≤ 255) := by
  have h1 := C09_cmyk_chan8 c k hc hk
  have h2 := C09_cmyk_chan8 m k hm hk
  have h3 := C09_cmyk_chan8 y k hy hk
  have hl := C09_lum_range c m y hc hm hy
  have p1 := C09_mul8_closed c k hc hk
  have p2 := C09_mul8_closed m k hm hk
  have p3 := C09_mul8_closed y k hy hk
  refine ⟨?_, ?_, ?_⟩
  · simp only [colorConvert, convNoAlpha, toRgb, nth, chConv, List.getD_cons_zero, List.getD_cons_succ, List.mem_cons, List.not_mem_nil, or_false]
    rintro x (rfl | rfl | rfl) <;> omega
  · rw [C09_rgb_to_gray8]; simp only [List.mem_singleton]; rintro x rfl; exact hl
  · simp only [premultiply, nth, chMul, List.getD_cons_zero, List.getD_cons_succ, List.mem_cons, List.not_mem_nil, or_false]
    rintro x (rfl | rfl | rfl) <;> omega

end GilVerif.Props.C09
