/-
  C12 -- write_view then read_image reproduces the view (BMP / PNM / TARGA, byte level)
-/
import GilVerif.Model.C12

namespace GilVerif.Props.C12
open GilVerif.Codec GilVerif.Model.C12

/-- the byte manipulators of io/bit_operations.hpp used on both the write and the read side are involutions -/
theorem C12_bitops_involutive (n : Nat) (h : n < 256) :
    mirrorByte (mirrorByte (UInt8.ofNat n)) = UInt8.ofNat n ∧
    negateByte (negateByte (UInt8.ofNat n)) = UInt8.ofNat n ∧
    swapHalfByte (swapHalfByte (UInt8.ofNat n)) = UInt8.ofNat n := by
  revert n
  decide +kernel

end GilVerif.Props.C12
