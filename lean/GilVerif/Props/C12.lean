/-
  C12 -- write_view then read_image reproduces the view (BMP / PNM / TARGA, byte level).

  Model: GilVerif/Model/Codec.lean (encoders written from the GIL writers, decoders from the readers).
  Every theorem is for ALL widths, heights and pixel contents; the header field ranges are explicit
  hypotheses.  Helper lemmas: GilVerif/Lemmas/Codec.lean.
-/
import GilVerif.Model.C12
import GilVerif.Lemmas.Codec
import GilVerif.Gen.C12

namespace GilVerif.Props.C12
open GilVerif.Codec GilVerif.Model.C12 GilVerif.Gen.C12

/-! ### bit operations (io/bit_operations.hpp) -/

/-- the byte manipulators used on the write and the read side are involutions -/
theorem C12_bitops_involutive (n : Nat) (h : n < 256) :
    mirrorByte (mirrorByte (UInt8.ofNat n)) = UInt8.ofNat n ∧
    negateByte (negateByte (UInt8.ofNat n)) = UInt8.ofNat n ∧
    swapHalfByte (swapHalfByte (UInt8.ofNat n)) = UInt8.ofNat n := by
  revert n
  decide +kernel

/-! ### BMP -/

private theorem bmp_row {α} {f : PixFmt α} (hf : f.Lawful) (w : Nat) (r : List α) (hr : r.length = w) :
    sliceRow 0 w (decRow f w (padTo (bmpSpn w f.size) (encRow f r))) = r := by
  subst hr
  rw [padTo, decRow_encRow hf, sliceRow_full]

/-- BMP: for every width, height and content, `read_image (write_view img) = img` (rgb8 via `bgr8`, rgba8 via `bgra8`).
    Hypotheses = what the 32-bit header fields and the reader's `int` pitch arithmetic can hold. -/
theorem C12_bmp_roundtrip {α} (f : PixFmt α) (hf : f.Lawful) (hsz : f.size = 3 ∨ f.size = 4)
    (img : Img α) (wf : img.WF) (hw : img.w * 4 + 3 < 2147483648) (hh1 : 1 ≤ img.h) (hh : img.h < 2147483648) :
    decodeBmp f (encodeBmp f img) Settings.full = some img := by
  obtain ⟨w, h, rows⟩ := img
  obtain ⟨hlen, hrow⟩ := wf
  simp only at hlen hrow hw hh1 hh
  have hspn : ∀ r ∈ rows, (encRow f r).length ≤ bmpSpn w f.size := by
    intro r hr; rw [length_encRow hf, hrow r hr]; unfold bmpSpn; omega
  have hpitch : bmpPitch ⟨54, 40, (w : Int), (h : Int), false, f.size * 8, 0, 0⟩ = bmpSpn w f.size := by
    simp only [bmpPitch, bmpSpn, Int.toNat_natCast]
    rcases hsz with e | e <;> simp [e]
  unfold decodeBmp encodeBmp
  rw [bmpReadHeader_bmpHeader w h f.size _ (by omega) hh (by omega)]
  have hb : f.size * 8 = 24 ∨ f.size * 8 = 32 := by omega
  simp only [hb, if_true]
  congr 1
  simp only [bmpReadData, readRows, hpitch, Settings.full, Settings.dimX, Settings.dimY, if_true, Int.toNat_natCast, Nat.add_zero]
  congr 1
  -- the rows: block `h-1-y` of the body is the padded encoding of row `y`
  subst hlen
  apply map_range_eq
  intro i hi
  have hblocks : ∀ b ∈ rows.reverse.map (fun r => padTo (bmpSpn w f.size) (encRow f r)), b.length = bmpSpn w f.size := by
    intro b hb
    obtain ⟨r, hr, rfl⟩ := List.mem_map.1 hb
    exact length_padTo (hspn r (List.mem_reverse.1 hr))
  have hk : rows.length - 1 - i < (rows.reverse.map (fun r => padTo (bmpSpn w f.size) (encRow f r))).length := by
    simp; omega
  have hpos : ((rows.length : Int) > 0) := by omega
  simp only [bmpGetOffset, hpos, if_true, Int.toNat_natCast, bmpBody]
  have := readAt_block (bmpSpn w f.size) (bmpHeader w rows.length f.size) _ (rows.length - 1 - i) hk hblocks
  rw [length_bmpHeader] at this
  rw [this]
  simp only [List.getElem_map, List.getElem_reverse]
  have hidx : rows.length - 1 - (rows.length - 1 - i) = i := by omega
  simp only [hidx]
  exact bmp_row hf w rows[i] (hrow _ (List.getElem_mem hi))

theorem C12_bmp_roundtrip_rgb8 (img : Img Rgb8) (wf : img.WF) (hw : img.w * 4 + 3 < 2147483648) (hh1 : 1 ≤ img.h)
    (hh : img.h < 2147483648) : decodeBmp bgr8 (encodeBmp bgr8 img) Settings.full = some img :=
  C12_bmp_roundtrip bgr8 bgr8_lawful (Or.inl rfl) img wf hw hh1 hh

theorem C12_bmp_roundtrip_rgba8 (img : Img Rgba8) (wf : img.WF) (hw : img.w * 4 + 3 < 2147483648) (hh1 : 1 ≤ img.h)
    (hh : img.h < 2147483648) : decodeBmp bgra8 (encodeBmp bgra8 img) Settings.full = some img :=
  C12_bmp_roundtrip bgra8 bgra8_lawful (Or.inr rfl) img wf hw hh1 hh

/-- the hypotheses are satisfiable: a 3×2 rgb8 image (width residue 1 mod 4: 3 bytes of padding per row) -/
example : decodeBmp bgr8 (encodeBmp bgr8 ⟨3, 2, [[⟨1,2,3⟩,⟨4,5,6⟩,⟨7,8,9⟩],[⟨10,11,12⟩,⟨13,14,15⟩,⟨16,17,18⟩]]⟩) Settings.full
    = some ⟨3, 2, [[⟨1,2,3⟩,⟨4,5,6⟩,⟨7,8,9⟩],[⟨10,11,12⟩,⟨13,14,15⟩,⟨16,17,18⟩]]⟩ := by decide

/-! ### the row pitch: computed once in the writer (`spn`) and once in the reader (`_pitch`), both re-translated from the headers on every run -/

private theorem mask_lit : ((-3 - 1 : Int) % 18446744073709551616).toNat = 18446744073709551612 := by decide

private theorem round4 (p : Int) (h0 : 0 ≤ p) (h1 : p < 18446744073709551616) :
    Int.ofNat (Nat.land (p % 18446744073709551616).toNat ((-3 - 1 : Int) % 18446744073709551616).toNat) = p / 4 * 4 := by
  rw [mask_lit, Int.emod_eq_of_lt h0 h1, land_mask4 _ (by omega)]
  simp only [Int.ofNat_eq_natCast]
  omega

/-- bmp writer: `( view.width() * num_channels + 3 ) & ~3` in size_t arithmetic = the row size rounded up to a multiple of 4 -/
theorem C12_writer_spn (w nch : Int) (hw : 0 ≤ w) (hn : 0 ≤ nch) (hw63 : w < 9223372036854775808)
    (hb : w * nch + 3 < 18446744073709551616) : bmp_writer_spn w nch = (w * nch + 3) / 4 * 4 := by
  have hp : 0 ≤ w * nch := Int.mul_nonneg hw hn
  unfold bmp_writer_spn
  have e1 : w % 18446744073709551616 = w := Int.emod_eq_of_lt hw (by omega)
  have e2 : (w * nch) % 18446744073709551616 = w * nch := Int.emod_eq_of_lt hp (by omega)
  try simp only [e1, e2]
  -- `& ~3` form, or an arithmetic rewrite of it (`/ 4 * 4`, …)
  first
  | exact round4 (w * nch + 3) (by omega) hb
  | (generalize w * nch = p at *; omega)

/-- bmp reader (bits per pixel ≥ 8): `_pitch = width * ((bpp + 7) >> 3)` then `(_pitch + 3) & ~3` -/
theorem C12_reader_pitch (width bpp : Int) (hw : 0 ≤ width) (hbpp : 0 ≤ bpp)
    (hb : width * ((bpp + 7) / 8) + 3 < 18446744073709551616) :
    bmp_reader_pitch_round (bmp_reader_pitch_raw width bpp) = (width * ((bpp + 7) / 8) + 3) / 4 * 4 := by
  have hp : 0 ≤ width * ((bpp + 7) / 8) := Int.mul_nonneg hw (by omega)
  unfold bmp_reader_pitch_round bmp_reader_pitch_raw
  have e1 : (width * ((bpp + 7) / 8)) % 18446744073709551616 = width * ((bpp + 7) / 8) := Int.emod_eq_of_lt hp (by omega)
  try simp only [e1]
  first
  | exact round4 _ (by omega) hb
  | (generalize width * ((bpp + 7) / 8) = p at *; omega)

/-- "row pitch / padding computation mirrored in reader and writer": the reader's pitch for an `nch`-channel 8-bit file IS the
    writer's row size, for every width -/
theorem C12_pitch_mirrored (w nch : Int) (hw : 0 ≤ w) (hn : 0 ≤ nch) (hw63 : w < 9223372036854775808)
    (hb : w * nch + 3 < 18446744073709551616) :
    bmp_reader_pitch_round (bmp_reader_pitch_raw w (nch * 8)) = bmp_writer_spn w nch := by
  have e : (nch * 8 + 7) / 8 = nch := by omega
  rw [C12_writer_spn w nch hw hn hw63 hb, C12_reader_pitch w (nch * 8) hw (by omega) (by rw [e]; exact hb), e]

/-- the hand-written model's `bmpSpn` (used by `encodeBmp`, and equal to `bmpPitch` in `C12_bmp_roundtrip`) is the generated kernel -/
theorem C12_pitch_model (w nch : Nat) (hw63 : (w : Int) < 9223372036854775808) (hb : (w : Int) * nch + 3 < 18446744073709551616) :
    (bmpSpn w nch : Int) = bmp_writer_spn w nch := by
  rw [C12_writer_spn w nch (by omega) (by omega) hw63 hb]
  unfold bmpSpn
  push_cast
  rfl

example : bmp_writer_spn 3 3 = 12 ∧ bmp_reader_pitch_round (bmp_reader_pitch_raw 3 24) = 12 := by decide

/-! ### TARGA -/

/-- TARGA: for every width, height (16-bit header fields) and content, `read_image (write_view img) = img` -/
theorem C12_targa_roundtrip {α} (f : PixFmt α) (hf : f.Lawful) (hsz : f.size = 3 ∨ f.size = 4)
    (img : Img α) (wf : img.WF) (hw1 : 1 ≤ img.w) (hw : img.w < 65536) (hh1 : 1 ≤ img.h) (hh : img.h < 65536) :
    decodeTga f (encodeTga f img) Settings.full = some img := by
  obtain ⟨w, h, rows⟩ := img
  obtain ⟨hlen, hrow⟩ := wf
  simp only at hlen hrow hw1 hw hh1 hh
  unfold decodeTga encodeTga
  rw [tgaReadHeader_tgaHeader w h f.size _ hw1 hw hh1 hh hsz]
  simp only [ne_eq, not_true, if_false, Nat.reduceEqDiff, true_or, if_true]
  congr 1
  have hdiv : f.size * 8 / 8 = f.size := by omega
  simp only [tgaReadRaw, Settings.full, Settings.dimX, Settings.dimY, if_true, Bool.false_eq_true, if_false, hdiv,
    Nat.sub_zero, Nat.sub_self, Nat.zero_mul, Nat.add_zero]
  congr 1
  subst hlen
  have hblocks : ∀ b ∈ rows.reverse.map (encRow f), b.length = w * f.size := by
    intro b hb
    obtain ⟨r, hr, rfl⟩ := List.mem_map.1 hb
    rw [length_encRow hf, hrow r (List.mem_reverse.1 hr)]
  -- the k-th stored scanline is row `h-1-k`
  have hstored : (List.range rows.length).map (fun k =>
      sliceRow 0 w (decRow f w (readAt (tgaHeader w rows.length f.size ++ (rows.reverse.map (encRow f)).flatten)
        (18 + k * (w * f.size)) (w * f.size)))) = rows.reverse := by
    apply map_range_eq' rows.reverse rows.length (by simp)
    intro i hi
    have hk : i < (rows.reverse.map (encRow f)).length := by simpa using hi
    have hb := readAt_block (w * f.size) (tgaHeader w rows.length f.size) _ i hk hblocks
    rw [length_tgaHeader] at hb
    simp only [readAt, hb, List.getElem_map]
    have hr : (rows.reverse[i]'(by simpa using hi)).length = w := hrow _ (List.mem_reverse.1 (List.getElem_mem _))
    have := decRow_encRow hf (rows.reverse[i]'(by simpa using hi)) []
    rw [List.append_nil, hr] at this
    rw [this, ← hr, sliceRow_full]
  rw [hstored, List.reverse_reverse]

theorem C12_targa_roundtrip_rgb8 (img : Img Rgb8) (wf : img.WF) (hw1 : 1 ≤ img.w) (hw : img.w < 65536) (hh1 : 1 ≤ img.h)
    (hh : img.h < 65536) : decodeTga bgr8 (encodeTga bgr8 img) Settings.full = some img :=
  C12_targa_roundtrip bgr8 bgr8_lawful (Or.inl rfl) img wf hw1 hw hh1 hh

theorem C12_targa_roundtrip_rgba8 (img : Img Rgba8) (wf : img.WF) (hw1 : 1 ≤ img.w) (hw : img.w < 65536) (hh1 : 1 ≤ img.h)
    (hh : img.h < 65536) : decodeTga bgra8 (encodeTga bgra8 img) Settings.full = some img :=
  C12_targa_roundtrip bgra8 bgra8_lawful (Or.inr rfl) img wf hw1 hw hh1 hh

example : decodeTga bgra8 (encodeTga bgra8 ⟨2, 2, [[⟨1,2,3,4⟩,⟨5,6,7,8⟩],[⟨9,10,11,12⟩,⟨13,14,15,16⟩]]⟩) Settings.full
    = some ⟨2, 2, [[⟨1,2,3,4⟩,⟨5,6,7,8⟩],[⟨9,10,11,12⟩,⟨13,14,15,16⟩]]⟩ := by decide

/-! ### PNM (binary P5 / P6) -/

/-- PNM binary gray8 (P5, `f = gray8`) and rgb8 (P6, `f = rgb8`): for every width, height and content
    `read_image (write_view img) = img`.  `PnmIntOk` is the reader's decimal overflow guard (every value up to 214748364 passes). -/
theorem C12_pnm_roundtrip {α} (f : PixFmt α) (hf : f.Lawful) (t : Nat) (ht : (t = 5 ∧ f.size = 1) ∨ (t = 6 ∧ f.size = 3))
    (img : Img α) (wf : img.WF) (hw : PnmIntOk img.w) (hh : PnmIntOk img.h) :
    decodePnm f t (encodePnm f t img) Settings.full = some img := by
  obtain ⟨w, h, rows⟩ := img
  obtain ⟨hlen, hrow⟩ := wf
  simp only at hlen hrow hw hh
  unfold decodePnm encodePnm
  rw [pnmReadHeader_pnmHeader t w h _ (by omega) hw hh]
  simp only [if_true]
  congr 1
  have hsl : pnmScanline t w = w * f.size := by
    rcases ht with ⟨rfl, e⟩ | ⟨rfl, e⟩ <;> simp [pnmScanline, e]
  simp only [pnmReadBin, readRows, hsl, Settings.full, Settings.dimX, Settings.dimY, if_true, Nat.add_zero]
  congr 1
  subst hlen
  have hblocks : ∀ b ∈ rows.map (encRow f), b.length = w * f.size := by
    intro b hb
    obtain ⟨r, hr, rfl⟩ := List.mem_map.1 hb
    rw [length_encRow hf, hrow r hr]
  apply map_range_eq
  intro i hi
  have hk : i < (rows.map (encRow f)).length := by simpa using hi
  have hb := readAt_block (w * f.size) ([] : Bytes) _ i hk hblocks
  simp only [List.nil_append, List.length_nil, Nat.zero_add] at hb
  simp only [hb, List.getElem_map]
  have hr : rows[i].length = w := hrow _ (List.getElem_mem _)
  have := decRow_encRow hf rows[i] []
  rw [List.append_nil, hr] at this
  rw [this, ← hr, sliceRow_full]

theorem C12_pnm_roundtrip_gray8 (img : Img UInt8) (wf : img.WF) (hw : PnmIntOk img.w) (hh : PnmIntOk img.h) :
    decodePnm gray8 5 (encodePnm gray8 5 img) Settings.full = some img :=
  C12_pnm_roundtrip gray8 gray8_lawful 5 (Or.inl ⟨rfl, rfl⟩) img wf hw hh

theorem C12_pnm_roundtrip_rgb8 (img : Img Rgb8) (wf : img.WF) (hw : PnmIntOk img.w) (hh : PnmIntOk img.h) :
    decodePnm rgb8 6 (encodePnm rgb8 6 img) Settings.full = some img :=
  C12_pnm_roundtrip rgb8 rgb8_lawful 6 (Or.inr ⟨rfl, rfl⟩) img wf hw hh

example : PnmIntOk 2147483000 ∧ ¬ PnmIntOk 2147483639 := by unfold PnmIntOk; omega
example : decodePnm rgb8 6 (encodePnm rgb8 6 ⟨12, 1, [[⟨1,2,3⟩,⟨4,5,6⟩,⟨7,8,9⟩,⟨1,2,3⟩,⟨4,5,6⟩,⟨7,8,9⟩,⟨1,2,3⟩,⟨4,5,6⟩,⟨7,8,9⟩,⟨1,2,3⟩,⟨4,5,6⟩,⟨7,8,9⟩]]⟩) Settings.full
    = some ⟨12, 1, [[⟨1,2,3⟩,⟨4,5,6⟩,⟨7,8,9⟩,⟨1,2,3⟩,⟨4,5,6⟩,⟨7,8,9⟩,⟨1,2,3⟩,⟨4,5,6⟩,⟨7,8,9⟩,⟨1,2,3⟩,⟨4,5,6⟩,⟨7,8,9⟩]]⟩ := by decide

/-! ### PNM mono (P4, gray1_image_t)

  The property FAILED on the tree up to fedfb71^ (writer overrun for `w % 8 ≠ 0`, reader swapping half bytes): the witnesses and
  the exact characterisation below are about that code (`rtPnm4`, selected by checks/C12.py when the tree's source still has
  `row( pitch / 8 )` / `swap_half_bytes`).  /repo now carries the proposed fix (commit fedfb71); the model of that code is
  `rtPnm4Variant true true` and the full statement is `C12_pnm_mono_roundtrip` at the end of this section. -/

/-- writer defect: for every width that is not a multiple of 8 the gray1 writer overruns its row buffer -/
theorem C12_pnm_mono_write_ub (img : Img Bool) (h : img.w % 8 ≠ 0) : rtPnm4 img = Outcome.ub := by
  simp [rtPnm4, encodePnmMono, h]

theorem C12_pnm_mono_write_ub_witness : rtPnm4 ⟨1, 1, [[true]]⟩ = Outcome.ub := by decide

/-- reader defect: the 8×1 image 0,0,1,0,1,1,1,0 is written as the (correct) P4 byte 0xd1 and read back as 0,1,0,0,0,1,1,1 -/
theorem C12_pnm_mono_read_witness :
    rtPnm4 ⟨8, 1, [[false, false, true, false, true, true, true, false]]⟩ =
      Outcome.done [80, 52, 32, 56, 32, 49, 32, 0xd1] (some ⟨8, 1, [[false, true, false, false, false, true, true, true]]⟩) := by
  decide

private theorem pnm_mono_file {β} (rowEnc : β → Bytes) (rowDec : Bytes → List Bool) (g : β → List Bool)
    (w h : Nat) (rows : List β) (hlen : rows.length = h) (hw : PnmIntOk w) (hh : PnmIntOk h)
    (hsl : ∀ r ∈ rows, (rowEnc r).length = (w + 7) / 8)
    (hrt : ∀ r ∈ rows, sliceRow 0 w (rowDec (rowEnc r)) = g r) :
    decodePnmMonoWith rowDec (pnmHeader 4 w h ++ (rows.map rowEnc).flatten) Settings.full = some ⟨w, h, rows.map g⟩ := by
  unfold decodePnmMonoWith
  rw [pnmReadHeader_pnmHeader 4 w h _ (Or.inl rfl) hw hh]
  simp only [if_true, pnmScanline, readRows, Settings.full, Settings.dimX, Settings.dimY, Nat.add_zero]
  congr 2
  subst hlen
  have hblocks : ∀ b ∈ rows.map rowEnc, b.length = (w + 7) / 8 := by
    intro b hb
    obtain ⟨r, hr, rfl⟩ := List.mem_map.1 hb
    exact hsl r hr
  apply map_range_eq' (rows.map g) rows.length (by simp)
  intro i hi
  have hi' : i < rows.length := by simpa using hi
  have hk : i < (rows.map rowEnc).length := by simpa using hi'
  have hb := readAt_block ((w + 7) / 8) ([] : Bytes) _ i hk hblocks
  simp only [List.nil_append, List.length_nil, Nat.zero_add] at hb
  simp only [hb, List.getElem_map]
  have hmem : rows[i] ∈ rows := List.getElem_mem _
  rw [padTo, hsl _ hmem, Nat.sub_self, List.replicate_zero, List.append_nil]
  exact hrt _ hmem

/-- one row through the fixed writer and the fixed reader: whatever the unused bits of the last byte hold -/
private theorem mono_fixed_row (w : Nat) (r pad : List Bool) (hr : r.length = w) (hp : (w + 7) / 8 * 8 ≤ w + pad.length) :
    (pnmMonoRowEncFixed w pad r).length = (w + 7) / 8 ∧
    sliceRow 0 w (pnmMonoRowDecFixed (pnmMonoRowEncFixed w pad r)) = r := by
  obtain ⟨c1, c2, c3⟩ := chunks8_spec ((w + 7) / 8) (r ++ pad) (by simp [hr]; omega)
  refine ⟨by simp [pnmMonoRowEncFixed, c3], ?_⟩
  have e : pnmMonoRowDecFixed (pnmMonoRowEncFixed w pad r) = (chunks8 ((w + 7) / 8) (r ++ pad)).flatMap id := by
    simp only [pnmMonoRowDecFixed, pnmMonoRowEncFixed, List.flatMap_map]
    apply flatMap_chunks_congr
    intro c hc
    obtain ⟨x0, x1, x2, x3, x4, x5, x6, x7, rfl⟩ := len8 (c1 c hc)
    exact mono_chunk_fixed x0 x1 x2 x3 x4 x5 x6 x7
  rw [e, List.flatMap_id, c2, sliceRow, List.drop_zero, List.take_take,
    Nat.min_eq_left (by omega), List.take_left' hr]

/-- what DOES hold on the current tree (width a multiple of 8, every height, every content): the file is written, dimensions
    survive, and every group of 8 pixels comes back with each of its halves reversed (`monoScramble`) -/
theorem C12_pnm_mono_roundtrip_partial (img : Img Bool) (wf : img.WF) (h8 : img.w % 8 = 0) (hw : PnmIntOk img.w) (hh : PnmIntOk img.h) :
    rtPnm4 img = Outcome.done (pnmHeader 4 img.w img.h ++ (img.rows.map (pnmMonoRowEnc img.w)).flatten)
      (some ⟨img.w, img.h, img.rows.map (fun r => (chunks8 (img.w / 8) r).flatMap monoScramble)⟩) := by
  obtain ⟨w, h, rows⟩ := img
  obtain ⟨hlen, hrow⟩ := wf
  simp only at hlen hrow hw hh h8
  have h8' : ¬ (w % 8 ≠ 0) := by omega
  simp only [rtPnm4, encodePnmMono, h8', if_false, decodePnmMono]
  congr 1
  apply pnm_mono_file (pnmMonoRowEnc w) pnmMonoRowDec _ w h rows hlen hw hh
  · intro r hr
    have := chunks8_spec (w / 8) r (by rw [hrow r hr]; omega)
    simp [pnmMonoRowEnc, this.2.2]; omega
  · intro r hr
    obtain ⟨c1, c2, c3⟩ := chunks8_spec (w / 8) r (by rw [hrow r hr]; omega)
    have e : pnmMonoRowDec (pnmMonoRowEnc w r) = (chunks8 (w / 8) r).flatMap monoScramble := by
      simp only [pnmMonoRowDec, pnmMonoRowEnc, List.flatMap_map]
      apply flatMap_chunks_congr
      intro c hc
      obtain ⟨x0, x1, x2, x3, x4, x5, x6, x7, rfl⟩ := len8 (c1 c hc)
      exact mono_chunk_current x0 x1 x2 x3 x4 x5 x6 x7
    rw [e]
    have hl : ((chunks8 (w / 8) r).flatMap monoScramble).length = w := by
      have : ∀ cs : List (List Bool), (∀ c ∈ cs, c.length = 8) → (cs.flatMap monoScramble).length = 8 * cs.length := by
        intro cs
        induction cs with
        | nil => simp
        | cons c cs ih =>
          intro hc
          obtain ⟨x0, x1, x2, x3, x4, x5, x6, x7, rfl⟩ := len8 (hc c (by simp))
          simp only [List.flatMap_cons, List.length_append, List.length_cons, ih (fun x hx => hc x (by simp [hx])), monoScramble]
          simp; omega
      rw [this _ c1, c3]; omega
    generalize (chunks8 (w / 8) r).flatMap monoScramble = out at hl
    subst hl
    exact sliceRow_full out

/-- with the proposed fix (row buffer of (w+7)/8 bytes, reader mirrors instead of swapping half bytes) the round trip holds for
    EVERY width (all residues mod 8), height and content, whatever the unused bits of the last byte hold -/
theorem C12_pnm_mono_roundtrip_proposed_fix (pad : List Bool → List Bool) (hpad : ∀ r, 7 ≤ (pad r).length)
    (img : Img Bool) (wf : img.WF) (hw : PnmIntOk img.w) (hh : PnmIntOk img.h) :
    decodePnmMonoFixed (encodePnmMonoFixed pad img) Settings.full = some img := by
  obtain ⟨w, h, rows⟩ := img
  obtain ⟨hlen, hrow⟩ := wf
  simp only at hlen hrow hw hh
  have key : ∀ r ∈ rows, (pnmMonoRowEncFixed w (pad r) r).length = (w + 7) / 8 ∧
      sliceRow 0 w (pnmMonoRowDecFixed (pnmMonoRowEncFixed w (pad r) r)) = r :=
    fun r hr => mono_fixed_row w r (pad r) (hrow r hr) (by have := hpad r; omega)
  have := pnm_mono_file (fun r => pnmMonoRowEncFixed w (pad r) r) pnmMonoRowDecFixed id w h rows hlen hw hh
    (fun r hr => (key r hr).1) (fun r hr => (key r hr).2)
  simpa [decodePnmMonoFixed, encodePnmMonoFixed] using this

private theorem length_bits (buf : Bytes) : (buf.flatMap bitsLsb).length = 8 * buf.length := by
  induction buf with
  | nil => rfl
  | cons b bs ih => simp [List.flatMap_cons, ih, bitsLsb]; omega

/-- the executable fixed writer (one reused row buffer) writes, for every row, that row with SOME content of the unused bits -/
private theorem writeFixed_zip (w : Nat) : ∀ (rows : List (List Bool)) (buf : Bytes), buf.length = (w + 7) / 8 →
    (∀ r ∈ rows, r.length = w) →
    ∃ pads : List (List Bool), pads.length = rows.length ∧ (∀ p ∈ pads, (w + 7) / 8 * 8 ≤ w + p.length) ∧
      pnmMonoWriteFixed w buf rows = ((rows.zip pads).map (fun rp => pnmMonoRowEncFixed w rp.2 rp.1)).flatten
  | [], _, _, _ => ⟨[], rfl, by simp, by simp [pnmMonoWriteFixed]⟩
  | r :: rs, buf, hb, hr => by
    have hpl : (w + 7) / 8 * 8 ≤ w + ((buf.flatMap bitsLsb).drop w).length := by
      rw [List.length_drop, length_bits, hb]; omega
    have hout := (mono_fixed_row w r ((buf.flatMap bitsLsb).drop w) (hr r (by simp)) hpl).1
    obtain ⟨pads, h1, h2, h3⟩ := writeFixed_zip w rs _ hout (fun x hx => hr x (by simp [hx]))
    refine ⟨(buf.flatMap bitsLsb).drop w :: pads, by simp [h1], ?_, ?_⟩
    · intro p hp
      rcases List.mem_cons.1 hp with rfl | hp
      · exact hpl
      · exact h2 p hp
    · simp only [pnmMonoWriteFixed, List.zip_cons_cons, List.map_cons, List.flatten_cons, h3]

/-- the same for the writer as it executes (the model the check runs against a tree that carries the fix) -/
theorem C12_pnm_mono_roundtrip_proposed_fix_exec (img : Img Bool) (wf : img.WF) (hw : PnmIntOk img.w) (hh : PnmIntOk img.h) :
    decodePnmMonoFixed (encodePnmMonoFixedExec img) Settings.full = some img := by
  obtain ⟨w, h, rows⟩ := img
  obtain ⟨hlen, hrow⟩ := wf
  simp only at hlen hrow hw hh
  obtain ⟨pads, h1, h2, h3⟩ := writeFixed_zip w rows (List.replicate ((w + 7) / 8) 0) (by simp) hrow
  have hz : (rows.zip pads).length = h := by simp [h1, hlen]
  have := pnm_mono_file (fun rp : List Bool × List Bool => pnmMonoRowEncFixed w rp.2 rp.1) pnmMonoRowDecFixed Prod.fst w h
    (rows.zip pads) hz hw hh
    (fun rp hrp => (mono_fixed_row w rp.1 rp.2 (hrow _ (List.of_mem_zip hrp).1) (h2 _ (List.of_mem_zip hrp).2)).1)
    (fun rp hrp => (mono_fixed_row w rp.1 rp.2 (hrow _ (List.of_mem_zip hrp).1) (h2 _ (List.of_mem_zip hrp).2)).2)
  have hfst : (rows.zip pads).map Prod.fst = rows := List.map_fst_zip (by omega)
  rw [hfst] at this
  simpa [decodePnmMonoFixed, encodePnmMonoFixedExec, h3] using this

/-- PNM mono, the tree as fixed by fedfb71 (what checks/C12.py runs against the current /repo): for EVERY width (all residues
    mod 8), height and content, `read_image (write_view img) = img` -/
theorem C12_pnm_mono_roundtrip (img : Img Bool) (wf : img.WF) (hw : PnmIntOk img.w) (hh : PnmIntOk img.h) :
    rtPnm4Variant true true img = Outcome.done (encodePnmMonoFixedExec img) (some img) := by
  simp [rtPnm4Variant, C12_pnm_mono_roundtrip_proposed_fix_exec img wf hw hh]

example : rtPnm4Variant true true ⟨5, 2, [[true, false, true, true, false], [false, false, true, false, true]]⟩ =
    Outcome.done [80, 52, 32, 53, 32, 50, 32, 0x4f, 0xd5] (some ⟨5, 2, [[true, false, true, true, false], [false, false, true, false, true]]⟩) := by decide

example : (⟨16, 1, [[true, false, true, true, false, false, false, true, true, true, true, false, true, false, false, false]]⟩ : Img Bool).w % 8 = 0 := rfl

end GilVerif.Props.C12
