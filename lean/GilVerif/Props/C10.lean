/-
  C10 -- image is a leak-free deep-value container over any operation history.
  Theorems about the state machine of Model/C10.lean (which follows image.hpp member by member) and about the
  GENERATED size formulas of Gen/C10.lean (re-translated from image.hpp / utilities.hpp on every run).
-/
import GilVerif.Model.C10

namespace GilVerif.Props.C10
open GilVerif.Gen.C10 GilVerif.Model.C10

/-! ### utilities.hpp `align` (generated): the smallest multiple of the alignment not below the value -/

theorem C10_align_spec (v a : Int) (hv : 0 ≤ v) (ha : 0 < a) (hfit : v + a < 18446744073709551616) :
    align v a % a = 0 ∧ v ≤ align v a ∧ align v a < v + a := by
  unfold align
  have hr0 : 0 ≤ v % a := Int.emod_nonneg _ (by omega)
  have hr1 : v % a < a := Int.emod_lt_of_pos _ ha
  have e1 : (a - v % a) % 18446744073709551616 = a - v % a := Int.emod_eq_of_lt (by omega) (by omega)
  rw [e1]
  have ht0 : 0 ≤ (a - v % a) % a := Int.emod_nonneg _ (by omega)
  have ht1 : (a - v % a) % a < a := Int.emod_lt_of_pos _ ha
  have e2 : (v + (a - v % a) % a) % 18446744073709551616 = v + (a - v % a) % a := Int.emod_eq_of_lt (by omega) (by omega)
  rw [e2]
  refine ⟨?_, by omega, by omega⟩
  rw [Int.add_emod, Int.emod_emod_of_dvd _ (Int.dvd_refl a)]
  by_cases h : v % a = 0
  · rw [h]; simp
  · have e3 : (a - v % a) % a = a - v % a := Int.emod_eq_of_lt (by omega) (by omega)
    rw [e3]
    have : v % a + (a - v % a) = a := by omega
    rw [this]; simp

example : align 13 8 = 16 ∧ align 16 8 = 16 ∧ align 0 4 = 0 := by decide

end GilVerif.Props.C10
