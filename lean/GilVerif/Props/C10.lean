/-
  C10 -- image is a leak-free deep-value container over any operation history.
  Theorems about the state machine of Model/C10.lean (which follows image.hpp member by member) and about the
  GENERATED size formulas of Gen/C10.lean (re-translated from image.hpp / utilities.hpp on every run).
-/
import GilVerif.Lemmas.C10

namespace GilVerif.Props.C10
open GilVerif.Gen.C10 GilVerif.Model.C10 GilVerif.Lemmas.C10

/-! ### utilities.hpp `align` (generated): the smallest multiple of the alignment not below the value -/

theorem C10_align_spec (v a : Int) (hv : 0 ≤ v) (ha : 0 < a) (hfit : v + a < 18446744073709551616) :
    align v a % a = 0 ∧ v ≤ align v a ∧ align v a < v + a := by
  have hr0 : 0 ≤ v % a := Int.emod_nonneg _ (by omega)
  have hr1 : v % a < a := Int.emod_lt_of_pos _ ha
  have ht0 : 0 ≤ (a - v % a) % a := Int.emod_nonneg _ (by omega)
  have ht1 : (a - v % a) % a < a := Int.emod_lt_of_pos _ ha
  -- the sum is a multiple of the alignment
  have key : (v + (a - v % a) % a) % a = 0 := by
    rw [Int.add_emod, Int.emod_emod_of_dvd _ (Int.dvd_refl a)]
    by_cases h : v % a = 0
    · rw [h]; simp
    · have e3 : (a - v % a) % a = a - v % a := Int.emod_eq_of_lt (by omega) (by omega)
      rw [e3]
      have : v % a + (a - v % a) = a := by omega
      rw [this]; simp
  -- form independent part: unfold (and inline named temporaries), drop the size_t wraps that cannot wrap, finish linearly
  unfold align
  try simp only []
  generalize hr : v % a = r at *
  simp (disch := omega) only [Int.emod_eq_of_lt]
  generalize ht : (a - r) % a = t at *
  refine ⟨?_, by omega, by omega⟩
  first | exact key | (rw [Int.add_comm]; exact key)

example : align 13 8 = 16 ∧ align 16 8 = 16 ∧ align 0 4 = 0 := by decide


/-- get_row_size_in_memunits (generated): without alignment exactly `width * step`; with alignment the smallest
    multiple of `alignment * byte_to_memunit` that holds the row -/
theorem C10_row_size_spec (w al mstep b2m : Int) (hw : 0 ≤ w) (hm : 0 < mstep) (hb : 0 < b2m) (ha : 0 ≤ al)
    (hfit : w * mstep + al * b2m < 18446744073709551616) :
    (al = 0 → row_size w al mstep b2m = w * mstep) ∧
    (0 < al → row_size w al mstep b2m % (al * b2m) = 0 ∧ w * mstep ≤ row_size w al mstep b2m ∧ row_size w al mstep b2m < w * mstep + al * b2m) := by
  have hwm : 0 ≤ w * mstep := Int.mul_nonneg hw (by omega)
  have hab : 0 ≤ al * b2m := Int.mul_nonneg ha (by omega)
  have e1 : (w * mstep) % 18446744073709551616 = w * mstep := Int.emod_eq_of_lt hwm (by omega)
  constructor
  · intro h0; unfold row_size; simp [h0, e1]
  · intro hpos
    have hab' : 0 < al * b2m := Int.mul_pos hpos hb
    have e2 : b2m % 18446744073709551616 = b2m := by
      have : b2m ≤ al * b2m := by
        have := Int.mul_le_mul_of_nonneg_right (show (1 : Int) ≤ al by omega) (show (0 : Int) ≤ b2m by omega)
        simpa using this
      exact Int.emod_eq_of_lt (by omega) (by omega)
    have e3 : (al * b2m) % 18446744073709551616 = al * b2m := Int.emod_eq_of_lt hab (by omega)
    unfold row_size
    simp only [hpos, if_true, e1, e2, e3]
    exact C10_align_spec (w * mstep) (al * b2m) hwm hab' hfit

example : row_size 3 4 3 1 = 12 ∧ row_size 9 1 1 8 = 16 ∧ row_size 5 0 2 1 = 10 := by decide

/-- total_allocated_size_in_bytes (generated, interleaved): enough for `h` rows of the padded row size (rounded up to bytes)
    plus the `alignment - 1` bytes that aligning the first pixel can skip; nothing is allocated beyond that -/
theorem C10_total_interleaved_spec (w h al mstep b2m ch : Int) (hh : 0 ≤ h)
    (hr0 : 0 ≤ row_size w al mstep b2m) (hb : 0 < b2m) (hb' : b2m ≤ 8) (ha : 0 ≤ al)
    (hfit : row_size w al mstep b2m * h + 8 + al < 18446744073709551616) :
    total_bytes_interleaved w h al mstep b2m ch =
      (row_size w al mstep b2m * h + b2m - 1) / b2m + (if al > 0 then al - 1 else 0) := by
  have hp : 0 ≤ row_size w al mstep b2m * h := Int.mul_nonneg hr0 hh
  have e1 : (row_size w al mstep b2m * (h % 18446744073709551616)) % 18446744073709551616 = row_size w al mstep b2m * h := by
    by_cases hz : row_size w al mstep b2m = 0
    · simp [hz]
    · have h1 : 1 ≤ row_size w al mstep b2m := by omega
      have : h ≤ row_size w al mstep b2m * h := by
        have := Int.mul_le_mul_of_nonneg_right h1 hh
        simpa using this
      have e0 : h % 18446744073709551616 = h := Int.emod_eq_of_lt hh (by omega)
      rw [e0]; exact Int.emod_eq_of_lt hp (by omega)
  have e2 : b2m % 18446744073709551616 = b2m := Int.emod_eq_of_lt (by omega) (by omega)
  unfold total_bytes_interleaved interleaved_units
  simp only [e1, e2]
  generalize row_size w al mstep b2m * h = p at *
  have e3 : (p + b2m) % 18446744073709551616 = p + b2m := Int.emod_eq_of_lt (by omega) (by omega)
  have e4 : (p + b2m - 1) % 18446744073709551616 = p + b2m - 1 := Int.emod_eq_of_lt (by omega) (by omega)
  have hq0 : 0 ≤ (p + b2m - 1) / b2m := Int.ediv_nonneg (by omega) (by omega)
  have hq1 : (p + b2m - 1) / b2m ≤ p + b2m - 1 := Int.ediv_le_self _ (by omega)
  simp only [e3, e4]
  generalize (p + b2m - 1) / b2m = q at *
  -- form independent finish: case split on the alignment test, drop the wraps that cannot wrap, linear arithmetic
  split <;> simp (disch := omega) only [Int.emod_eq_of_lt] <;> omega

example : total_bytes_interleaved 3 2 4 3 1 3 = 27 ∧ total_bytes_interleaved 9 2 0 1 8 1 = 3 := by decide

/-- total_allocated_size_in_bytes (generated, planar): one padded plane per channel, plus the alignment slack -/
theorem C10_total_planar_spec (w h al mstep b2m ch : Int) (hh : 0 ≤ h) (hc : 0 ≤ ch)
    (hr0 : 0 ≤ row_size w al mstep b2m) (hb : 0 < b2m) (hb' : b2m ≤ 8) (ha : 0 ≤ al)
    (hfit1 : row_size w al mstep b2m * h < 18446744073709551616)
    (hfit : row_size w al mstep b2m * h * ch + 8 + al < 18446744073709551616) :
    total_bytes_planar w h al mstep b2m ch =
      (row_size w al mstep b2m * h * ch + b2m - 1) / b2m + (if al > 0 then al - 1 else 0) := by
  have hp : 0 ≤ row_size w al mstep b2m * h := Int.mul_nonneg hr0 hh
  have hpc : 0 ≤ row_size w al mstep b2m * h * ch := Int.mul_nonneg hp hc
  have e1 : (row_size w al mstep b2m * (h % 18446744073709551616)) % 18446744073709551616 = row_size w al mstep b2m * h := by
    by_cases hz : row_size w al mstep b2m = 0
    · simp [hz]
    · have h1 : 1 ≤ row_size w al mstep b2m := by omega
      have : h ≤ row_size w al mstep b2m * h := by
        have := Int.mul_le_mul_of_nonneg_right h1 hh
        simpa using this
      have e0 : h % 18446744073709551616 = h := Int.emod_eq_of_lt hh (by omega)
      rw [e0]; exact Int.emod_eq_of_lt hp (by omega)
  have e2 : b2m % 18446744073709551616 = b2m := Int.emod_eq_of_lt (by omega) (by omega)
  have e5 : (row_size w al mstep b2m * h * ch) % 18446744073709551616 = row_size w al mstep b2m * h * ch := Int.emod_eq_of_lt hpc (by omega)
  unfold total_bytes_planar planar_units
  simp only [e1, e2, e5]
  generalize row_size w al mstep b2m * h * ch = p at *
  have e3 : (p + b2m) % 18446744073709551616 = p + b2m := Int.emod_eq_of_lt (by omega) (by omega)
  have e4 : (p + b2m - 1) % 18446744073709551616 = p + b2m - 1 := Int.emod_eq_of_lt (by omega) (by omega)
  have hq0 : 0 ≤ (p + b2m - 1) / b2m := Int.ediv_nonneg (by omega) (by omega)
  have hq1 : (p + b2m - 1) / b2m ≤ p + b2m - 1 := Int.ediv_le_self _ (by omega)
  simp only [e3, e4]
  generalize (p + b2m - 1) / b2m = q at *
  split <;> simp (disch := omega) only [Int.emod_eq_of_lt] <;> omega

example : total_bytes_planar 3 2 4 1 1 3 = 27 := by decide

/-- the first pixel, aligned with `align`, plus the pixel data still ends inside the allocation: whatever address the allocator
    returns, `align(m, al) - m ≤ al - 1` -/
theorem C10_first_pixel_offset (m al : Int) (hm : 0 ≤ m) (ha : 0 < al) (hfit : m + al < 18446744073709551616) :
    0 ≤ align m al - m ∧ align m al - m ≤ al - 1 ∧ align m al % al = 0 := by
  have := C10_align_spec m al hm ha hfit
  omega

/-! ### the state machine: invariant, preservation, histories -/

/-- the initial world (no image, no allocation) satisfies the invariant, whatever faults are armed -/
theorem C10_init (c : Cfg) (fa fc : Option Nat) : Inv c (World.init fa fc) := by
  constructor <;> simp [World.init]

/-- EVERY public operation (all constructors, copy / converting copy, move construction, copy and move assignment with the three
    choose_pocma branches, swap, the recreate overloads, write, destroy, end of history) preserves the invariant, for every
    allocator configuration in which swap is safe and whatever allocation / construction fault is armed, except in the
    recreate shape excluded by `RecreateOK` (see the witnesses below for what happens otherwise). -/
theorem C10_step_preserves (c : Cfg) (w : World) (op : Op) (h : Inv c w) (htmp : w.imgs tmpSlot = none) (hsafe : SwapSafe c)
    (hok : RecreateOK c w op) : Inv c (step c w op).1 :=
  inv_step h htmp hsafe op hok

example : SwapSafe { pocma := false, pocs := false, empty := false, ntags := 3, ndebug := false,
                     org := { mstep := 3, b2m := 1, chans := 3, planar := false, nontrivial := false, pixel := true }, porg := none } := Or.inl rfl

/-- exception safety: when the operation ends by a thrown std::bad_alloc or by a throwing element constructor, nothing is
    leaked or released twice and every image (the target included) is still valid -- same hypotheses as above -/
theorem C10_exception_safe (c : Cfg) (w : World) (op : Op) (h : Inv c w) (htmp : w.imgs tmpSlot = none) (hsafe : SwapSafe c)
    (hok : RecreateOK c w op) (_hthrow : (step c w op).2 = .badAlloc ∨ (step c w op).2 = .ctorThrow) : Inv c (step c w op).1 :=
  inv_step h htmp hsafe op hok

/-- the recreate exclusion at every step of a run (a run stops at an assertion failure) -/
def RecreateOKRun (c : Cfg) : World → List Op → Prop
  | _, [] => True
  | w, op :: rest => RecreateOK c w op ∧
      (match (step c w op).2 with | .assertFail _ => True | _ => RecreateOKRun c (step c w op).1 rest)

/-- the scratch slot the model uses for `image tmp` is free again after every operation that does not stop in an assertion failure
    (every operation destroys its temporary, also on the exception paths) -/
theorem C10_scratch_slot_free (c : Cfg) (w : World) (op : Op) (h : w.imgs tmpSlot = none) :
    (∃ x, (step c w op).2 = .assertFail x) ∨ (step c w op).1.imgs tmpSlot = none :=
  step_tmpfree c w op h

-- OPEN (false for the current code, see the witnesses at the end): the same statement without `SwapSafe` and without `RecreateOKRun`.
/-- induction over histories of ANY length, with any armed allocation / construction fault: the invariant holds after the run
    (and the scratch slot is free unless the run stopped in an assertion) -/
theorem C10_history (c : Cfg) (hsafe : SwapSafe c) (ops : List Op) :
    ∀ (w : World), Inv c w → w.imgs tmpSlot = none → RecreateOKRun c w ops → Inv c (run c w ops) := by
  induction ops with
  | nil => intro w h _ _; exact h
  | cons op rest ih =>
    intro w h htmp hg
    obtain ⟨hok, hrest⟩ := hg
    have h1 := inv_step h htmp hsafe op hok
    have h2 := step_tmpfree c w op htmp
    unfold run
    cases hs : step c w op with
    | mk w' out =>
      rw [hs] at h1 hrest h2
      have htmp' : (∀ x, out ≠ .assertFail x) → w'.imgs tmpSlot = none := by
        intro hna
        rcases h2 with ⟨x, hx⟩ | hn
        · exact absurd hx (hna x)
        · exact hn
      cases out with
      | assertFail x => exact h1
      | ok => exact ih w' h1 (htmp' (by intro x e; cases e)) hrest
      | badAlloc => exact ih w' h1 (htmp' (by intro x e; cases e)) hrest
      | ctorThrow => exact ih w' h1 (htmp' (by intro x e; cases e)) hrest
      | nocompile => exact ih w' h1 (htmp' (by intro x e; cases e)) hrest
      | skip => exact ih w' h1 (htmp' (by intro x e; cases e)) hrest
      | okFilled => exact ih w' h1 (htmp' (by intro x e; cases e)) hrest
      | okUnfilled => exact ih w' h1 (htmp' (by intro x e; cases e)) hrest

/-- every deallocate of every history names a block that is live, with the size it was allocated with and through the allocator that
    allocated it -- never twice (the ghost flag `bad` is raised by `World.dealloc` exactly when the event's size or allocator differs from
    the block's, or the block was already released).  In particular move assignment releases the target's old block through the
    target's own allocator BEFORE it adopts the source's allocator. -/
theorem C10_dealloc_matches_alloc (c : Cfg) (hsafe : SwapSafe c) (ops : List Op) (w : World) (h : Inv c w) (htmp : w.imgs tmpSlot = none)
    (hok : RecreateOKRun c w ops) :
    ∀ (b : Nat) (blk : Block), (run c w ops).heap[b]? = some blk → blk.bad = false ∧ blk.freed ≤ 1 :=
  fun b blk hb => let r := (C10_history c hsafe ops w h htmp hok).blocks b blk hb; ⟨r.1, r.2.2.2.1⟩

/-- the order inside move_assign(propagate) matters: a model variant that adopts the allocator first releases the old block through
    the source's allocator (this is what the ghost flag detects) -/
theorem C10_dealloc_flag_detects_wrong_allocator :
    let w0 : World := { heap := [{ size := 18, tag := 1 }], log := [Event.alloc 0 18 1] }
    ((w0.dealloc 0 18 2).heap[0]?).map (·.bad) = some true ∧ ((w0.dealloc 0 18 1).heap[0]?).map (·.bad) = some false
    ∧ ((w0.dealloc 0 17 1).heap[0]?).map (·.bad) = some true ∧ (((w0.dealloc 0 18 1).dealloc 0 18 1).heap[0]?).map (·.bad) = some true := by
  decide

/-! ### the ghost heap is the replay of the printed allocator log (what the judge replays is what the invariant talks about) -/

/-- UNCONDITIONALLY (any configuration, any faults, any history, also the defective shapes): the model's heap of blocks -- size, allocator,
    number of deallocations, mismatch flag of every block -- is exactly the replay of the model's printed event log -/
theorem C10_heap_is_log_replay (c : Cfg) (fa fc : Option Nat) (ops : List Op) :
    (run c (World.init fa fc) ops).heap.map Block.strip = ghostReplay (run c (World.init fa fc) ops).log.reverse :=
  hl_run c ops (World.init fa fc) rfl

/-- hence, under the hypotheses of C10_history, the printed log itself satisfies the Spec the judge evaluates: alloc ids are consecutive and
    every dealloc names a live allocation with the same id, size and allocator (nothing is released twice) -/
theorem C10_log_wellformed (c : Cfg) (hsafe : SwapSafe c) (fa fc : Option Nat) (ops : List Op)
    (hok : RecreateOKRun c (World.init fa fc) ops) : logWellFormed (run c (World.init fa fc) ops).log = true := by
  have hinv := C10_history c hsafe ops (World.init fa fc) (C10_init c fa fc) rfl hok
  have hl := C10_heap_is_log_replay c fa fc ops
  unfold logWellFormed
  have key := replayLog_of_no_bad (run c (World.init fa fc) ops).log.reverse [] (by intro g hg; cases hg) ?_
  · simp only [List.map_nil] at key; rw [key]; rfl
  · intro g hg
    have : g ∈ ghostReplay (run c (World.init fa fc) ops).log.reverse := hg
    rw [← hl] at this
    obtain ⟨blk, hblk, rfl⟩ := List.mem_map.mp this
    obtain ⟨i, hi⟩ := List.getElem?_of_mem hblk
    exact (hinv.blocks i blk hi).1

/-- the static side condition for images of trivially constructible elements: sizes do not wrap to 0 -/
def TrivialOK (c : Cfg) : Op → Prop
  | .recreate s W H al _ _ _ => ∀ o, c.orgOf s = some o → o.nontrivial = false ∧ (o.needed al W H = 0 → W * H = 0)
  | _ => True

/-- elements with trivial construction never trigger the recreate exclusion (apart from size overflow) -/
theorem C10_recreateOK_trivial (c : Cfg) (w : World) (s W H al : Nat) (f a : Option Nat) (v : Nat)
    (htriv : ∀ o, c.orgOf s = some o → o.nontrivial = false ∧ (o.needed al W H = 0 → W * H = 0)) (h : Inv c w) :
    RecreateOK c w (.recreate s W H al f a v) := by
  intro o i ho hs
  obtain ⟨ht, hz⟩ := htriv o ho
  refine ⟨fun hge => ⟨fun hm => hz ?_, Or.inl ht⟩, fun _ => hz⟩
  have := (h.nomem s i hs hm).1
  omega

/-- for pixel images (trivially constructible elements) NO run-time side condition is left: from the empty world, every history of any
    length whose recreate sizes do not wrap, under any allocation fault, keeps the invariant.  (`keepDims = false`: the allocate_ of the
    current tree; for the variant that keeps degenerate dimensions the constructors' no-wrap conditions of `RecreateOK` remain.) -/
theorem C10_history_trivial_elements (c : Cfg) (hk : c.keepDims = false) (hsafe : SwapSafe c) (ops : List Op) (hops : ∀ op ∈ ops, TrivialOK c op) :
    ∀ (w : World), Inv c w → w.imgs tmpSlot = none → Inv c (run c w ops) := by
  induction ops with
  | nil => intro w h _; exact h
  | cons op rest ih =>
    intro w h htmp
    have hok : RecreateOK c w op := by
      have ht := hops op (List.mem_cons_self)
      refine recreateOK_of_not_keepDims hk w op ?_
      intro s W H al f a v e o i ho hs
      subst e
      exact (C10_recreateOK_trivial c w s W H al f a v ht h o i ho hs).1
    have h1 := inv_step h htmp hsafe op hok
    have h2 := step_tmpfree c w op htmp
    unfold run
    cases hs : step c w op with
    | mk w' out =>
      rw [hs] at h1 h2
      have hrest : ∀ op ∈ rest, TrivialOK c op := fun o ho => hops o (List.mem_cons_of_mem _ ho)
      have htmp' : (∀ x, out ≠ .assertFail x) → w'.imgs tmpSlot = none := by
        intro hna
        rcases h2 with ⟨x, hx⟩ | hn
        · exact absurd hx (hna x)
        · exact hn
      cases out with
      | assertFail x => exact h1
      | ok => exact ih hrest w' h1 (htmp' (by intro x e; cases e))
      | badAlloc => exact ih hrest w' h1 (htmp' (by intro x e; cases e))
      | ctorThrow => exact ih hrest w' h1 (htmp' (by intro x e; cases e))
      | nocompile => exact ih hrest w' h1 (htmp' (by intro x e; cases e))
      | skip => exact ih hrest w' h1 (htmp' (by intro x e; cases e))
      | okFilled => exact ih hrest w' h1 (htmp' (by intro x e; cases e))
      | okUnfilled => exact ih hrest w' h1 (htmp' (by intro x e; cases e))

example : TrivialOK { pocma := false, pocs := false, empty := true, ntags := 0, ndebug := false,
                      org := { mstep := 3, b2m := 1, chans := 3, planar := false, nontrivial := false, pixel := true }, porg := none }
            (.recreate 0 5 3 16 none none 1) := by
  intro o ho; simp [Cfg.orgOf] at ho; subst ho; exact ⟨rfl, by decide⟩

/-- after the end of a history (every slot destroyed) every allocation ever made has been deallocated exactly once, with its size,
    through its allocator, holding no constructed element; no destructor ran on an unconstructed element -/
theorem C10_balanced (c : Cfg) (w : World) (h : Inv c w) (hfree : ∀ x, c.orgOf x = none → w.imgs x = none) :
    ∀ (b : Nat) (blk : Block), (step c w .stop).1.heap[b]? = some blk →
      blk.freed = 1 ∧ blk.bad = false ∧ blk.cons = 0 ∧ blk.leaked = false ∧ blk.over = false := by
  have hinv : Inv c (step c w .stop).1 := inv_stop h
  · have hnone : ∀ x, (step c w .stop).1.imgs x = none := by
      simp only [step]
      have key : ∀ (l : List Nat) (w : World) (x : Nat),
          (l.foldl (fun w s => match c.orgOf s with | some o => pDtor o w s | none => w) w).imgs x
            = if x ∈ l ∧ (c.orgOf x).isSome then none else w.imgs x := by
        intro l
        induction l with
        | nil => intro w x; simp
        | cons a l ih =>
          intro w x
          simp only [List.foldl_cons]
          rw [ih]
          cases ho : c.orgOf a with
          | none => simp only []; by_cases e : x = a <;> by_cases e2 : x ∈ l <;> simp [e, e2, ho]
          | some o =>
            simp only [pDtor_imgs]
            by_cases e : x = a <;> by_cases e2 : x ∈ l <;> simp [e, e2, ho]
      intro x
      show (slots.foldl (fun w s => match c.orgOf s with | some o => pDtor o w s | none => w) w).imgs x = none
      rw [key slots w x]
      by_cases hx : x ∈ slots ∧ (c.orgOf x).isSome
      · simp [hx]
      · simp only [hx, if_false]
        apply hfree
        cases ho : c.orgOf x with
        | none => rfl
        | some o =>
          exfalso; apply hx
          have := ho; unfold Cfg.orgOf at this
          refine ⟨?_, by simp [ho]⟩
          unfold slots
          split at this
          · have : x < 4 := by assumption
            have : x = 0 ∨ x = 1 ∨ x = 2 ∨ x = 3 := by omega
            rcases this with e | e | e | e <;> simp [e]
          · split at this
            · have : x = 4 ∨ x = 5 := by omega
              rcases this with e | e <;> simp [e]
            · cases this
    intro b blk hb
    obtain ⟨h1, h2, h3, h4, h5⟩ := hinv.blocks b blk hb
    have hf : blk.freed = 1 := by
      by_cases e : blk.freed = 0
      · obtain ⟨s, i, hs, -⟩ := hinv.noleak b blk hb e
        rw [hnone s] at hs; cases hs
      · omega
    exact ⟨hf, h1, h5 hf, h3, h2⟩


/-! ### no size_t wrap, and the static history theorem for pixel images -/

/-- sizes that cannot wrap std::size_t: generous explicit bound -/
def SmallDims (o : Org) (al W H : Nat) : Prop :=
  0 < o.mstep ∧ 0 < o.chans ∧ 0 < o.b2m ∧ o.b2m ≤ 8 ∧
  ((W * o.mstep + al * o.b2m) * H * o.chans + 8 + al < 18446744073709551616) ∧ (W * o.mstep + al * o.b2m < 18446744073709551616)

/-- without size_t wrap a needed byte size of 0 means there is no pixel: the `NoWrap` side condition of the constructors holds -/
theorem C10_needed_zero (o : Org) (al W H : Nat) (hs : SmallDims o al W H) (hz : o.needed al W H = 0) : W * H = 0 := by
  obtain ⟨hm, hc, hb, hb8, hfit, hfitr⟩ := hs
  have hrow := C10_row_size_spec (W : Int) (al : Int) (o.mstep : Int) (o.b2m : Int) (by omega) (by omega) (by omega) (by omega)
    (by have h := Int.ofNat_lt.mpr hfitr; simp only [Int.natCast_add, Int.natCast_mul] at h; omega)
  -- the row size is between w*step and w*step + al*b2m
  have hr0 : (W : Int) * o.mstep ≤ row_size W al o.mstep o.b2m ∧ row_size W al o.mstep o.b2m ≤ (W : Int) * o.mstep + al * o.b2m := by
    by_cases ha : (al : Int) = 0
    · have := hrow.1 ha; rw [this]; constructor
      · omega
      · have : (0 : Int) ≤ (al : Int) * o.b2m := Int.mul_nonneg (Int.natCast_nonneg _) (Int.natCast_nonneg _)
        omega
    · have := hrow.2 (by omega); omega
  have hwm : (0 : Int) ≤ (W : Int) * o.mstep := Int.mul_nonneg (Int.natCast_nonneg _) (Int.natCast_nonneg _)
  have hrnn : (0 : Int) ≤ row_size W al o.mstep o.b2m := by omega
  -- if both W and H are positive the total is positive
  by_cases hw : W = 0
  · simp [hw]
  by_cases hh : H = 0
  · simp [hh]
  exfalso
  have hW : (1 : Int) ≤ W := by omega
  have hH : (1 : Int) ≤ H := by omega
  have hrow1 : (1 : Int) ≤ row_size W al o.mstep o.b2m := by
    have : (1 : Int) ≤ (W : Int) * o.mstep := by
      have h1 : (1 : Int) ≤ o.mstep := by omega
      have := Int.mul_le_mul hW h1 (by decide) (by omega)
      simpa using this
    omega
  have hrh : (1 : Int) ≤ row_size W al o.mstep o.b2m * H := by
    have := Int.mul_le_mul hrow1 hH (by decide) (by omega)
    simpa using this
  have hrhle : row_size W al o.mstep o.b2m * H ≤ ((W : Int) * o.mstep + al * o.b2m) * H :=
    Int.mul_le_mul_of_nonneg_right hr0.2 (by omega)
  have hfitI : (((W : Int) * o.mstep + al * o.b2m) * H * o.chans + 8 + al < 18446744073709551616) := by
    have h := Int.ofNat_lt.mpr hfit; simp only [Int.natCast_add, Int.natCast_mul] at h; omega
  have hc1 : (1 : Int) ≤ o.chans := by omega
  have hbig : ((W : Int) * o.mstep + al * o.b2m) * H ≤ ((W : Int) * o.mstep + al * o.b2m) * H * o.chans := by
    have hnn : (0 : Int) ≤ ((W : Int) * o.mstep + al * o.b2m) * H :=
      Int.mul_nonneg (Int.add_nonneg hwm (Int.mul_nonneg (Int.natCast_nonneg _) (Int.natCast_nonneg _))) (Int.natCast_nonneg _)
    have := Int.mul_le_mul_of_nonneg_left hc1 hnn
    simpa using this
  unfold Org.needed at hz
  split at hz
  · -- planar
    have hrhc : row_size W al o.mstep o.b2m * H * o.chans ≤ ((W : Int) * o.mstep + al * o.b2m) * H * o.chans :=
      Int.mul_le_mul_of_nonneg_right hrhle (by omega)
    have hspec := C10_total_planar_spec (W : Int) (H : Int) (al : Int) (o.mstep : Int) (o.b2m : Int) (o.chans : Int) (by omega) (by omega) hrnn
      (by omega) (by omega) (by omega) (by omega) (by omega)
    rw [hspec] at hz
    have hp1 : (1 : Int) ≤ row_size W al o.mstep o.b2m * H * o.chans := by
      have := Int.mul_le_mul hrh hc1 (by decide) (by omega)
      simpa using this
    generalize row_size W al o.mstep o.b2m * H * o.chans = p at *
    have hq : (1 : Int) ≤ (p + o.b2m - 1) / o.b2m := by
      apply Int.le_ediv_of_mul_le (by omega); omega
    have hsl : (0 : Int) ≤ (if (al : Int) > 0 then (al : Int) - 1 else 0) := by split <;> omega
    generalize hq' : (p + o.b2m - 1) / (o.b2m : Int) = q at *
    generalize hs' : (if (al : Int) > 0 then (al : Int) - 1 else 0) = sl at *
    omega
  · have hspec := C10_total_interleaved_spec (W : Int) (H : Int) (al : Int) (o.mstep : Int) (o.b2m : Int) (o.chans : Int) (by omega) hrnn
      (by omega) (by omega) (by omega) (by omega)
    rw [hspec] at hz
    generalize row_size W al o.mstep o.b2m * H = p at *
    have hq : (1 : Int) ≤ (p + o.b2m - 1) / o.b2m := by
      apply Int.le_ediv_of_mul_le (by omega); omega
    have hsl : (0 : Int) ≤ (if (al : Int) > 0 then (al : Int) - 1 else 0) := by split <;> omega
    generalize hq' : (p + o.b2m - 1) / (o.b2m : Int) = q at *
    generalize hs' : (if (al : Int) > 0 then (al : Int) - 1 else 0) = sl at *
    omega


/-- bound used by the static history theorem (any bound that keeps the byte sizes below 2^64 would do) -/
def Bound : Nat := 1048576
def DB (W H al : Nat) : Prop := W ≤ Bound ∧ H ≤ Bound ∧ al ≤ Bound
def OrgSmall (o : Org) : Prop := 0 < o.mstep ∧ o.mstep ≤ 64 ∧ 0 < o.chans ∧ o.chans ≤ 8 ∧ 0 < o.b2m ∧ o.b2m ≤ 8

private theorem smallDims_of_bounds (o : Org) (al W H : Nat) (ho : OrgSmall o) (hd : DB W H al) : SmallDims o al W H := by
  obtain ⟨hm0, hm, hc0, hc, hb0, hb⟩ := ho
  obtain ⟨hW, hH, hA⟩ := hd
  unfold Bound at hW hH hA
  have h1 : W * o.mstep ≤ 1048576 * 64 := Nat.mul_le_mul hW hm
  have h2 : al * o.b2m ≤ 1048576 * 8 := Nat.mul_le_mul hA hb
  have h3 : (W * o.mstep + al * o.b2m) * H ≤ (1048576 * 64 + 1048576 * 8) * 1048576 := Nat.mul_le_mul (by omega) hH
  have h4 : (W * o.mstep + al * o.b2m) * H * o.chans ≤ (1048576 * 64 + 1048576 * 8) * 1048576 * 8 := Nat.mul_le_mul h3 hc
  exact ⟨hm0, hc0, hb0, hb, by omega, by omega⟩

private theorem DB_closed : DClosed DB := by
  refine ⟨⟨by unfold Bound; omega, by unfold Bound; omega, by unfold Bound; omega⟩, ?_, ?_⟩
  · intro W H a h; exact ⟨by unfold Bound; omega, by unfold Bound; omega, h.2.2⟩
  · intro W H a W' H' a' h h'; exact ⟨h.1, h.2.1, h'.2.2⟩

/-- the explicit dimensions and alignments of an operation are at most `Bound` -/
def SmallOp (op : Op) : Prop := OpDims DB op

private theorem recreateOK_static (c : Cfg) (w : World) (op : Op) (hinv : Inv c w) (hall : AllImgs DB w)
    (horg : ∀ s o, c.orgOf s = some o → o.nontrivial = false ∧ OrgSmall o) (hop : SmallOp op) : RecreateOK c w op := by
  have nw : ∀ s o al W H, c.orgOf s = some o → DB W H al → NoWrap c o al W H :=
    fun s o al W H ho hd _ hz => C10_needed_zero o al W H (smallDims_of_bounds o al W H (horg s o ho).2 hd) hz
  cases op with
  | recreate s W H al f a v =>
    intro o i ho hi
    refine ⟨fun hge => ⟨fun hm => ?_, Or.inl (horg s o ho).1⟩, nw s o al W H ho hop.1⟩
    have h0 := (hinv.nomem s i hi hm).1
    exact C10_needed_zero o al W H (smallDims_of_bounds o al W H (horg s o ho).2 hop.1) (by omega)
  | dims s t al W H v => exact fun o ho => nw s o al W H ho hop.1
  | fill s t al W H v => exact fun o ho => nw s o al W H ho hop.1
  | fillprobe s t al W H v => exact fun o ho => nw s o al W H ho hop.1
  | fromview s t al s2 => exact fun o b ho hb => nw s o al b.w b.h ho (hop _ _ _ (hall s2 b hb))
  | copy s s2 => exact fun o b ho hb => nw s o b.align b.w b.h ho (hall s2 b hb)
  | assign s s2 => exact fun o b ho hb => nw s o b.align b.w b.h ho (hall s2 b hb)
  | massign s s2 => exact fun o a b ho ha hb => nw s o a.align b.w b.h ho (DB_closed.2.2 _ _ _ _ _ _ (hall s2 b hb) (hall s a ha))
  | _ => trivial

/-- STATIC history theorem for pixel images (trivially constructible elements), valid for both source variants of allocate_: from the empty
    world, for EVERY history whose explicit dimensions and alignments are at most 2^20 (so no size can wrap), for every armed allocation
    fault, under safe swap, the invariant holds after the run -- no run-time side condition is left -/
theorem C10_history_pixel_images (c : Cfg) (hsafe : SwapSafe c) (horg : ∀ s o, c.orgOf s = some o → o.nontrivial = false ∧ OrgSmall o)
    (ops : List Op) (hops : ∀ op ∈ ops, SmallOp op) :
    ∀ (w : World), Inv c w → w.imgs tmpSlot = none → AllImgs DB w → Inv c (run c w ops) := by
  induction ops with
  | nil => intro w h _ _; exact h
  | cons op rest ih =>
    intro w h htmp hall
    have hsm := hops op (List.mem_cons_self)
    have hok := recreateOK_static c w op h hall horg hsm
    have h1 := inv_step h htmp hsafe op hok
    have h2 := step_tmpfree c w op htmp
    have h3 := all_step DB_closed c w op hall hsm
    have hrest : ∀ op ∈ rest, SmallOp op := fun o ho => hops o (List.mem_cons_of_mem _ ho)
    unfold run
    cases hs : step c w op with
    | mk w' out =>
      rw [hs] at h1 h2 h3
      have htmp' : (∀ x, out ≠ .assertFail x) → w'.imgs tmpSlot = none := by
        intro hna
        rcases h2 with ⟨x, hx⟩ | hn
        · exact absurd hx (hna x)
        · exact hn
      cases out with
      | assertFail x => exact h1
      | ok => exact ih hrest w' h1 (htmp' (by intro x e; cases e)) h3
      | badAlloc => exact ih hrest w' h1 (htmp' (by intro x e; cases e)) h3
      | ctorThrow => exact ih hrest w' h1 (htmp' (by intro x e; cases e)) h3
      | nocompile => exact ih hrest w' h1 (htmp' (by intro x e; cases e)) h3
      | skip => exact ih hrest w' h1 (htmp' (by intro x e; cases e)) h3
      | okFilled => exact ih hrest w' h1 (htmp' (by intro x e; cases e)) h3
      | okUnfilled => exact ih hrest w' h1 (htmp' (by intro x e; cases e)) h3

example : SmallOp (.recreate 0 5 3 16 none none 1) ∧ SmallOp (.dims 1 2 32 8 8 7) ∧ SmallOp (.copy 1 0) := by
  refine ⟨⟨?_, ?_, ?_⟩, ⟨?_, ?_⟩, trivial⟩ <;> first | (unfold DB Bound; omega) | (intro W H a h; exact ⟨h.1, h.2.1, by unfold Bound; omega⟩)



/-! ### slots without an organisation are never occupied; balance of the printed allocator log -/

/-- slots without an organisation (the scratch slot included) are never occupied, after ANY history from the empty world that did not stop
    in an assertion failure -- the side condition `hfree` of C10_balanced is a theorem -/
theorem C10_unorganised_slots_free (c : Cfg) (fa fc : Option Nat) (ops : List Op) (hna : asserted c (World.init fa fc) ops = false) :
    ∀ x, c.orgOf x = none → (run c (World.init fa fc) ops).imgs x = none :=
  run_orgfree c ops (World.init fa fc) (fun _ _ => rfl) hna

/-- log-level balance from heap-level balance: if the heap is the replay of the log and every block was released exactly once and is not
    flagged, the Spec's replay of the printed log succeeds and leaves nothing allocated -/
private theorem logBalanced_of_heap (wf : World) (hl : HeapLog wf)
    (hbal : ∀ (b : Nat) (blk : Block), wf.heap[b]? = some blk → blk.freed = 1 ∧ blk.bad = false) : logBalanced wf.log = true := by
  unfold logBalanced
  have key := replayLog_of_no_bad wf.log.reverse [] (by intro g hg; cases hg) ?_
  · simp only [List.map_nil] at key
    rw [key]
    simp only [List.all_eq_true]
    intro p hp
    have hl' : wf.heap.map Block.strip = List.foldl ghostStep [] wf.log.reverse := hl
    rw [← hl'] at hp
    simp only [List.map_map, List.mem_map] at hp
    obtain ⟨blk, hblk, rfl⟩ := hp
    obtain ⟨i, hi⟩ := List.getElem?_of_mem hblk
    have := (hbal i blk hi).1
    simp [GBlock.abs, Block.strip, this]
  · intro g hg
    have hl' : wf.heap.map Block.strip = List.foldl ghostStep [] wf.log.reverse := hl
    rw [← hl'] at hg
    obtain ⟨blk, hblk, rfl⟩ := List.mem_map.mp hg
    obtain ⟨i, hi⟩ := List.getElem?_of_mem hblk
    exact (hbal i blk hi).2

/-- LOG-LEVEL balance: for every history of any length from the empty world, under any armed allocation / construction fault, that keeps the
    hypotheses of C10_history and does not stop in an assertion failure (the process would be gone), after the destructors of all slots
    have run the PRINTED allocator log -- replayed by the Spec's `replayLog` exactly as the judge replays the real allocator's log --
    is well formed and leaves nothing allocated: every allocate is matched by exactly one deallocate of the same id, size and allocator -/
theorem C10_log_balanced (c : Cfg) (hsafe : SwapSafe c) (fa fc : Option Nat) (ops : List Op)
    (hok : RecreateOKRun c (World.init fa fc) ops) (hna : asserted c (World.init fa fc) ops = false) :
    logBalanced (run c (World.init fa fc) (ops ++ [.stop])).log = true := by
  rw [run_snoc_stop c ops _ hna]
  have hinv := C10_history c hsafe ops (World.init fa fc) (C10_init c fa fc) rfl hok
  have hfree := C10_unorganised_slots_free c fa fc ops hna
  have hbal := C10_balanced c _ hinv hfree
  have hl : HeapLog (step c (run c (World.init fa fc) ops) .stop).1 := hl_step c _ .stop (hl_run c ops _ rfl)
  exact logBalanced_of_heap _ hl (fun b blk hb => ⟨(hbal b blk hb).1, (hbal b blk hb).2.1⟩)

/-- the same for pixel images with NO run-time side condition (static bound on the explicit dimensions / alignments, any allocation fault,
    both source variants of allocate_ / move_assign) -/
theorem C10_log_balanced_pixel_images (c : Cfg) (hsafe : SwapSafe c) (horg : ∀ s o, c.orgOf s = some o → o.nontrivial = false ∧ OrgSmall o)
    (fa fc : Option Nat) (ops : List Op) (hops : ∀ op ∈ ops, SmallOp op) (hna : asserted c (World.init fa fc) ops = false) :
    logBalanced (run c (World.init fa fc) (ops ++ [.stop])).log = true := by
  rw [run_snoc_stop c ops _ hna]
  have hinv := C10_history_pixel_images c hsafe horg ops hops (World.init fa fc) (C10_init c fa fc) rfl (by intro s i hs; cases hs)
  have hfree := C10_unorganised_slots_free c fa fc ops hna
  have hbal := C10_balanced c _ hinv hfree
  have hl : HeapLog (step c (run c (World.init fa fc) ops) .stop).1 := hl_step c _ .stop (hl_run c ops _ rfl)
  exact logBalanced_of_heap _ hl (fun b blk hb => ⟨(hbal b blk hb).1, (hbal b blk hb).2.1⟩)

private def seRgbX : Cfg := { pocma := false, pocs := false, empty := true, ntags := 0, ndebug := false, org := { mstep := 3, b2m := 1, chans := 3, planar := false, nontrivial := false, pixel := true }, porg := none }

example : asserted seRgbX (World.init (some 2) none) [.dims 0 0 0 3 2 7, .copy 1 0, .recreate 0 8 8 16 none none 3, .massign 1 0] = false
    ∧ (run seRgbX (World.init (some 2) none) [.dims 0 0 0 3 2 7, .copy 1 0, .recreate 0 8 8 16 none none 3, .massign 1 0, .stop]).log.length = 4
    ∧ (∀ op ∈ [Op.dims 0 0 0 3 2 7, .copy 1 0, .recreate 0 8 8 16 none none 3, .massign 1 0], SmallOp op) := by
  refine ⟨by decide +kernel, by decide +kernel, ?_⟩
  intro op hop
  simp only [List.mem_cons, List.mem_nil_iff, or_false] at hop
  rcases hop with rfl | rfl | rfl | rfl
  · exact ⟨by unfold DB Bound; omega, by unfold DB Bound; omega⟩
  · trivial
  · refine ⟨?_, ?_, ?_⟩ <;> first | (unfold DB Bound; omega) | (intro W H a h; exact ⟨h.1, h.2.1, by unfold Bound; omega⟩)
  · trivial

/-- AT EVERY POINT of every history (hypotheses of C10_history): the allocations that are live according to the replay of the PRINTED allocator log
    are exactly the blocks owned by the images -- nothing is leaked mid-history, nothing an image holds has been released; and the owner is unique -/
theorem C10_log_live_iff_owned (c : Cfg) (hsafe : SwapSafe c) (fa fc : Option Nat) (ops : List Op)
    (hok : RecreateOKRun c (World.init fa fc) ops) (b : Nat) (g : GBlock)
    (hg : (ghostReplay (run c (World.init fa fc) ops).log.reverse)[b]? = some g) :
    (g.freed = 0 ↔ ∃ s i, (run c (World.init fa fc) ops).imgs s = some i ∧ i.mem = some b) ∧
    (∀ s s' i i', (run c (World.init fa fc) ops).imgs s = some i → (run c (World.init fa fc) ops).imgs s' = some i' →
        i.mem = some b → i'.mem = some b → s = s') := by
  have hinv := C10_history c hsafe ops (World.init fa fc) (C10_init c fa fc) rfl hok
  have hl := C10_heap_is_log_replay c fa fc ops
  rw [← hl, List.getElem?_map] at hg
  cases hb : (run c (World.init fa fc) ops).heap[b]? with
  | none => rw [hb] at hg; cases hg
  | some blk =>
    rw [hb] at hg
    have hgb : g = blk.strip := by simpa using hg.symm
    refine ⟨⟨fun h0 => hinv.noleak b blk hb (by rw [hgb] at h0; exact h0), ?_⟩, fun s s' i i' hs hs' hm hm' => hinv.unique s s' i i' b hs hs' hm hm'⟩
    rintro ⟨s, i, hs, hm⟩
    obtain ⟨blk', hb', hf, -⟩ := hinv.owned s i b hs hm
    rw [hb] at hb'; cases hb'
    rw [hgb]; exact hf

/-! ### recreate: dimensions, alignment of the view, reuse of storage -/

/-- The reuse branch of recreate (`stepRec` takes it exactly when `_allocated_bytes ≥ total_allocated_size_in_bytes(dims)` under the
    new alignment, after `_align_in_bytes = alignment`): on success the image has the requested dimensions, the rows are laid out with
    the row size computed for its alignment, the first pixel sits at the aligned address (so, with C10_row_size_spec and
    C10_first_pixel_offset, every row start is aligned), it keeps its block, holds the requested content, and NO allocator
    event was logged: existing storage is reused. -/
theorem C10_recreate_post (o : Org) (w : World) (s W H : Nat) (content : List Nat) (i : Img)
    (hs : w.imgs s = some i) (hok : (pReuse o w s W H content).2 = .ok) :
    ∃ j, (pReuse o w s W H content).1.imgs s = some j ∧ j.w = W ∧ j.h = H ∧ j.align = i.align ∧ j.row = o.rowSize i.align W
      ∧ j.mem = i.mem ∧ j.allocated = i.allocated ∧ (∀ b, i.mem = some b → j.off = alignOff (blockAddr b) i.align) ∧ j.pix = content
      ∧ (pReuse o w s W H content).1.log = w.log := by
  unfold pReuse at hok ⊢
  simp only [hs] at hok ⊢
  generalize hd : (w.destruct o i.mem (i.w * i.h)) = wd at hok ⊢
  have hdl : wd.log = w.log := by
    rw [← hd]; unfold World.destruct; cases i.mem <;> (split <;> simp) <;> (try split) <;> rfl
  cases hres : wd.construct o (Img.withView o i W H).mem (W * H) with
  | mk w2 okc =>
    have hcl : w2.log = wd.log := by
      have := congrArg (fun r => r.1.log) hres
      simp only [] at this; rw [← this]
      unfold World.construct World.grow
      cases (Img.withView o i W H).mem <;> simp <;> (repeat' split) <;> simp
    rw [hres] at hok
    cases okc with
    | false => simp at hok
    | true =>
      refine ⟨{ Img.withView o i W H with pix := content }, (by simp), rfl, rfl, rfl, rfl, rfl, rfl, ?_, rfl, ?_⟩
      · intro b hb; simp [Img.withView, hb]
      · show w2.log = w.log
        rw [hcl, hdl]

/-- storage is reused when large enough: that recreate logs no allocator event at all (last conjunct above); and when it is
    too small the image is rebuilt through a temporary, which allocates exactly the needed size -/
theorem C10_recreate_allocates_when_too_small (c : Cfg) (o : Org) (w : World) (s W H al : Nat) (fill alloc : Option Nat) (i : Img)
    (hlt : i.allocated < o.needed al W H) (hnofault : w.failA = none) :
    ∃ w1, (pCtor c o (w.setImg s (some { i with align := al })) tmpSlot (Img.fresh al (tmpTag c alloc)) W H
              (List.replicate (W * H) (fill.getD 0)) none).1 = w1 ∧
          Event.alloc w.heap.length (o.needed al W H) (tmpTag c alloc) ∈ w1.log := by
  have hn0 : o.needed al W H ≠ 0 := by omega
  refine ⟨_, rfl, ?_⟩
  unfold pCtor
  simp only [Img.fresh, hn0, if_false]
  unfold World.alloc
  simp only [setImg_heap]
  have : (w.setImg s (some { i with align := al })).failA = none := hnofault
  rw [this]
  simp only []
  cases hres : World.construct _ o (some w.heap.length) (W * H) with
  | mk w2 okc =>
    have hcl : w2.log = Event.alloc w.heap.length (o.needed al W H) (tmpTag c alloc) :: w.log := by
      have := congrArg (fun r => r.1.log) hres
      simp only [] at this; rw [← this]
      unfold World.construct World.grow
      simp; (repeat' split) <;> simp [World.setImg]
    cases okc with
    | true => simp [hcl, World.setImg]
    | false => simp [World.dealloc, hcl]

/-! ### deep copies, moved-from images -/

/-- a successful copy construction from a non-empty image gives an image with the source's dimensions and pixel values that owns
    an allocation of its own (so later writes to either cannot show in the other: `write` only touches its own slot) -/
theorem C10_deep_copy (c : Cfg) (w : World) (s s2 : Nat) (b : Img) (o : Org) (h : Inv c w) (ho : c.orgOf s = some o) (ho2 : (c.orgOf s2).isSome)
    (hs : w.imgs s = none) (hs2 : w.imgs s2 = some b) (hne : o.needed b.align b.w b.h ≠ 0)
    (hok : (step c w (.copy s s2)).2 = .ok) :
    ∃ j, (step c w (.copy s s2)).1.imgs s = some j ∧ j.w = b.w ∧ j.h = b.h ∧ j.pix = b.pix ∧ j.mem = some w.heap.length
      ∧ j.mem ≠ b.mem ∧ (step c w (.copy s s2)).1.imgs s2 = some b := by
  have hb : b.mem ≠ some w.heap.length := by
    intro e
    obtain ⟨blk, hblk, -⟩ := h.owned s2 b _ hs2 e
    have : w.heap.length < w.heap.length := by grind
    omega
  have hne2 : s2 ≠ s := by intro e; subst e; rw [hs] at hs2; cases hs2
  cases ho2' : c.orgOf s2 with
  | none => simp [ho2'] at ho2
  | some o2 =>
  simp only [step, ho, ho2', hs, hs2] at hok ⊢
  unfold pCtor at hok ⊢
  simp only [Img.fresh, hne, if_false] at hok ⊢
  rcases alloc_cases w b.tag (o.needed b.align b.w b.h) with e | ⟨fa, e⟩
  · rw [e] at hok; simp at hok
  · rw [e] at hok ⊢; simp only [] at hok ⊢
    cases hres : World.construct _ o (some w.heap.length) (b.w * b.h) with
    | mk w2 okc =>
      rw [hres] at hok
      cases okc with
      | false => simp at hok
      | true =>
        have hi : w2.imgs = w.imgs := by
          have := congrArg (fun r => r.1.imgs) hres
          simp only [] at this; rw [← this]
          unfold World.construct World.grow
          simp; (repeat' split) <;> simp
        refine ⟨_, (by simp only [setImg_imgs, if_true]; rfl), ?_⟩
        simp [Img.withView, hi, hne2, hs2]
        exact fun e => hb e.symm

/-- `write` changes the pixels of its own image only -/
theorem C10_write_frame (c : Cfg) (w : World) (s x y v s' : Nat) (hne : s' ≠ s) :
    (step c w (.write s x y v)).1.imgs s' = w.imgs s' ∧ (step c w (.write s x y v)).1.heap = w.heap := by
  simp only [step]
  split
  · split <;> simp [hne]
  · simp

/-- the source of a move construction stays a valid empty image: no memory, 0 recorded bytes, 0x0, and the target has taken
    over block, size, allocator, dimensions and pixels unchanged -/
theorem C10_moved_from_valid (c : Cfg) (w : World) (s s2 : Nat) (b : Img) (o : Org) (ho : c.orgOf s = some o) (ho2 : c.orgOf s2 = some o)
    (hside : (s < 4) = (s2 < 4)) (hs : w.imgs s = none) (hs2 : w.imgs s2 = some b) :
    (step c w (.move s s2)).1.imgs s = some b ∧
    ∃ r, (step c w (.move s s2)).1.imgs s2 = some r ∧ r.mem = none ∧ r.allocated = 0 ∧ r.w = 0 ∧ r.h = 0 ∧ r.pix = [] := by
  have hne : s ≠ s2 := by intro e; subst e; rw [hs] at hs2; cases hs2
  simp only [step, ho, hs, hs2, ho2, hside, and_self, if_true]
  refine ⟨by simp [hne], { b.cleared with align := 0 }, by simp, ?_⟩
  simp [Img.cleared]

/-- the contract of image::swap, as the code states it (`BOOST_ASSERT(_alloc == img._alloc)` unless propagate_on_container_swap): when it
    holds the two slots exchange their images completely; when the caller violates it, an assert-enabled build stops in swap with the
    world untouched (the NDEBUG behaviour is `C10_recreate_alloc_witness`) -/
theorem C10_swap_contract (c : Cfg) (w : World) (s s2 : Nat) (a b : Img) (hs : w.imgs s = some a) (hs2 : w.imgs s2 = some b) :
    ((c.pocs = true ∨ a.tag = b.tag) → (pSwap c w s s2).2 = .ok ∧ (pSwap c w s s2).1.imgs s2 = some a ∧ (s ≠ s2 → (pSwap c w s s2).1.imgs s = some b)
        ∧ (pSwap c w s s2).1.heap = w.heap ∧ (pSwap c w s s2).1.log = w.log) ∧
    (¬ (c.pocs = true ∨ a.tag = b.tag) → c.ndebug = false → pSwap c w s s2 = (w, .assertFail "_alloc==img._alloc")) := by
  unfold pSwap
  simp only [hs, hs2]
  constructor
  · intro h; rw [if_pos h]
    exact ⟨rfl, by simp, fun hne => by simp [hne], rfl, rfl⟩
  · intro h hnd; rw [if_neg h]; simp [hnd]

/-! ### copy / converting copy, copy assignment, move assignment: strong guarantee, deep copies, adoption of storage -/

/-- STRONG GUARANTEE of the copy constructor and the converting copy constructor (`.copy s s2` with slots of equal / different organisation):
    if the allocation throws, no image, no block and no log entry has changed -/
theorem C10_copy_bad_alloc_no_effect (c : Cfg) (w : World) (s s2 : Nat) (hf : (step c w (.copy s s2)).2 = .badAlloc) :
    (step c w (.copy s s2)).1.imgs = w.imgs ∧ (step c w (.copy s s2)).1.heap = w.heap ∧ (step c w (.copy s s2)).1.log = w.log := by
  cases h1 : c.orgOf s <;> cases h2 : c.orgOf s2 <;> cases h3 : w.imgs s <;> cases h4 : w.imgs s2 <;>
    simp only [step, h1, h2, h3, h4] at hf ⊢ <;> first | (cases hf; done) | exact pCtor_badAlloc _ _ _ _ _ _ _ _ _ hf


/-- STRONG GUARANTEE of copy assignment and converting assignment (`image tmp(img); swap(tmp);`): if the allocation or an element construction
    of the temporary throws, EVERY slot -- the target included -- holds exactly the image it held before; after bad_alloc heap and log are untouched too -/
theorem C10_assign_strong_guarantee (c : Cfg) (w : World) (s s2 : Nat)
    (hf : (step c w (.assign s s2)).2 = .badAlloc ∨ (step c w (.assign s s2)).2 = .ctorThrow) :
    (step c w (.assign s s2)).1.imgs = w.imgs ∧
    ((step c w (.assign s s2)).2 = .badAlloc → (step c w (.assign s s2)).1.heap = w.heap ∧ (step c w (.assign s s2)).1.log = w.log) := by
  cases h1 : c.orgOf s <;> cases h2 : c.orgOf s2 <;> simp only [step, h1, h2] at hf ⊢
  all_goals first | (simp at hf; done) | skip
  unfold stepAssign at hf ⊢
  cases h3 : w.imgs s <;> cases h4 : w.imgs s2 <;> simp only [h3, h4] at hf ⊢
  all_goals first | (simp at hf; done) | skip
  split
  · rename_i hd; rw [if_pos hd] at hf; exact absurd hf (by simp)
  · rename_i hd; rw [if_neg hd] at hf
    have e := swapWithTmp_throw c _ _ s hf
    rw [e] at hf ⊢
    exact ⟨pCtor_fail_imgs _ _ _ _ _ _ _ _ _ (by rcases hf with hf | hf <;> rw [hf] <;> intro x <;> cases x),
      fun hb => (pCtor_badAlloc _ _ _ _ _ _ _ _ _ hb).2⟩

/-- STRONG GUARANTEE of move assignment (only the branch "unequal non-propagating allocators, source owns storage" can throw: it copies with
    the target's allocator BEFORE it changes anything): if it throws, every slot holds exactly the image it held before -/
theorem C10_massign_strong_guarantee (c : Cfg) (w : World) (s s2 : Nat)
    (hf : (step c w (.massign s s2)).2 = .badAlloc ∨ (step c w (.massign s s2)).2 = .ctorThrow) :
    (step c w (.massign s s2)).1.imgs = w.imgs ∧
    ((step c w (.massign s s2)).2 = .badAlloc → (step c w (.massign s s2)).1.heap = w.heap ∧ (step c w (.massign s s2)).1.log = w.log) := by
  cases h1 : c.orgOf s <;> simp only [step, h1] at hf ⊢
  · exact absurd hf (by simp)
  split
  · rename_i hside; rw [if_pos hside] at hf
    unfold stepMoveAssign at hf ⊢
    cases h3 : w.imgs s <;> cases h4 : w.imgs s2 <;> simp only [h3, h4] at hf ⊢
    all_goals first | (simp at hf; done) | skip
    split
    · rename_i hc; rw [if_pos hc] at hf; exact absurd hf (by simp)
    · rename_i hc; rw [if_neg hc] at hf
      split
      · rename_i hc; rw [if_pos hc] at hf; exact absurd hf (by simp)
      · rename_i hc; rw [if_neg hc] at hf
        split
        · rename_i hc; rw [if_pos hc] at hf; exact absurd hf (by simp)
        · rename_i hc; rw [if_neg hc] at hf
          split
          · rename_i hc; rw [if_pos hc] at hf; exact absurd hf (by simp)
          · rename_i hc; rw [if_neg hc] at hf
            split
            · rename_i hc; rw [if_pos hc] at hf
              have e := andThen_throw _ _ (fun _ => rfl) hf
              rw [e] at hf ⊢
              exact ⟨pCtor_fail_imgs _ _ _ _ _ _ _ _ _ (by rcases hf with hf | hf <;> rw [hf] <;> intro x <;> cases x),
                fun hb => (pCtor_badAlloc _ _ _ _ _ _ _ _ _ hb).2⟩
            · rename_i hc; rw [if_neg hc] at hf
              split
              · rename_i hc; rw [if_pos hc] at hf; exact absurd hf (by simp)
              · rename_i hc; rw [if_neg hc] at hf; exact absurd hf (by simp)
  · rename_i hside; rw [if_neg hside] at hf; exact absurd hf (by simp)

/-- copy assignment / converting assignment is DEEP: on success the target has the source's dimensions and pixel values, the source is
    untouched, and the target's storage is not the source's (same dimensions: its own old block, by the ownership invariant; otherwise the block
    just allocated for the temporary) -- so later writes to either cannot show in the other (C10_write_frame) -/
theorem C10_assign_deep_copy (c : Cfg) (w : World) (s s2 : Nat) (a b : Img) (o : Org) (h : Inv c w) (ho : c.orgOf s = some o)
    (ho2 : (c.orgOf s2).isSome) (hne : s ≠ s2) (hs : w.imgs s = some a) (hs2 : w.imgs s2 = some b) (htmp : w.imgs tmpSlot = none)
    (hnz : o.needed b.align b.w b.h ≠ 0) (hok : (step c w (.assign s s2)).2 = .ok) :
    ∃ j, (step c w (.assign s s2)).1.imgs s = some j ∧ j.w = b.w ∧ j.h = b.h ∧ j.pix = b.pix ∧ (∀ m, j.mem = some m → b.mem ≠ some m)
      ∧ (step c w (.assign s s2)).1.imgs s2 = some b := by
  have hst : s ≠ tmpSlot := by intro e; rw [e, htmp] at hs; cases hs
  have hs2t : s2 ≠ tmpSlot := by intro e; rw [e, htmp] at hs2; cases hs2
  have hb : b.mem ≠ some w.heap.length := by
    intro e
    obtain ⟨blk, hblk, -⟩ := h.owned s2 b _ hs2 e
    have : w.heap.length < w.heap.length := (List.getElem?_eq_some_iff.mp hblk).1
    omega
  cases ho2' : c.orgOf s2 with
  | none => simp [ho2'] at ho2
  | some o2 =>
  simp only [step, ho, ho2', stepAssign, hs, hs2] at hok ⊢
  split
  · refine ⟨{ a with pix := b.pix }, by simp, by rename_i hd; exact hd.1, by rename_i hd; exact hd.2, rfl, ?_, by simp [Ne.symm hne, hs2]⟩
    intro m hm hbm
    exact hne (h.unique s s2 a b m hs hs2 hm hbm)
  · rename_i hd
    rw [if_neg hd] at hok
    generalize hr : pCtor c o w tmpSlot { Img.fresh b.align b.tag with allocated := b.allocated } b.w b.h b.pix (some (b.w, b.h)) = r at hok ⊢
    have hrok : r.2 = .ok := by
      cases hr2 : r.2 <;> simp only [swapWithTmp, andThen, hr2] at hok <;> first | rfl | cases hok
    obtain ⟨j, hj, hjw, hjh, hjp, hjm, -, -, -⟩ := pCtor_ok_img c o w tmpSlot { Img.fresh b.align b.tag with allocated := b.allocated } b.w b.h b.pix
      (some (b.w, b.h)) hnz (by rw [hr]; exact hrok)
    have hother := (pCtor_imgs c o w tmpSlot { Img.fresh b.align b.tag with allocated := b.allocated } b.w b.h b.pix (some (b.w, b.h))).1
    rw [hr] at hj hother
    have hrs : r.1.imgs s = some a := by rw [hother s hst]; exact hs
    have hrs2 : r.1.imgs s2 = some b := by rw [hother s2 hs2t]; exact hs2
    simp only [swapWithTmp, andThen, hrok] at hok ⊢
    by_cases hsw : c.pocs = true ∨ a.tag = j.tag
    · have hp : pSwap c r.1 s tmpSlot = ((r.1.setImg s (some j)).setImg tmpSlot (some a), .ok) := by
        unfold pSwap; simp only [hrs, hj]; rw [if_pos hsw]
      rw [hp]
      refine ⟨j, by simp [pDtor_imgs, hst], hjw, hjh, hjp, ?_, by simp [pDtor_imgs, hs2t, Ne.symm hne, hrs2]⟩
      intro m hm; rw [hjm] at hm; cases hm; exact hb
    · by_cases hnd : c.ndebug = true
      · have hp : pSwap c r.1 s tmpSlot = ((r.1.setImg s (some { j with tag := a.tag })).setImg tmpSlot (some { a with tag := j.tag }), .ok) := by
          unfold pSwap; simp only [hrs, hj]; rw [if_neg hsw, if_pos hnd]
        rw [hp]
        refine ⟨{ j with tag := a.tag }, by simp [pDtor_imgs, hst], hjw, hjh, hjp, ?_, by simp [pDtor_imgs, hs2t, Ne.symm hne, hrs2]⟩
        intro m hm; simp only [hjm] at hm; cases hm; exact hb
      · have hp : pSwap c r.1 s tmpSlot = (r.1, .assertFail "_alloc==img._alloc") := by
          unfold pSwap; simp only [hrs, hj]; rw [if_neg hsw, if_neg hnd]
        rw [hp] at hok; simp at hok

/-- move assignment that can ADOPT the source's storage -- propagating allocators (choose_pocma), or non-propagating allocators that are
    different objects but compare equal: the target takes over block, recorded size, alignment, dimensions and pixels of the source (its allocator
    only when it propagates), the source is left a valid empty image, NOTHING is allocated, and the only allocator event is the release of the
    target's old block with its recorded size through the target's OLD allocator (before the source's allocator is adopted) -/
theorem C10_massign_adopts (c : Cfg) (w : World) (s s2 : Nat) (a b : Img) (o : Org) (ho : c.orgOf s = some o) (hside : (s < 4) = (s2 < 4))
    (hne : s ≠ s2) (hs : w.imgs s = some a) (hs2 : w.imgs s2 = some b)
    (hbr : c.movePropagates = true ∨ ((o.pixel = true ∨ c.elemMoveCompiles = true) ∧ a.tag = b.tag)) :
    (step c w (.massign s s2)).2 = .ok ∧
    (step c w (.massign s s2)).1.imgs s = some { b with tag := if c.movePropagates then b.tag else a.tag } ∧
    (∃ r, (step c w (.massign s s2)).1.imgs s2 = some r ∧ r.mem = none ∧ r.allocated = 0 ∧ r.w = 0 ∧ r.h = 0 ∧ r.pix = []) ∧
    ((step c w (.massign s s2)).1.log = w.log ∨
      ∃ bk, a.mem = some bk ∧ (step c w (.massign s s2)).1.log = Event.dealloc bk a.allocated a.tag :: w.log) := by
  have key : ∀ t : Bool, (pAdopt o w s s2 t).imgs s = some { b with tag := if t then b.tag else a.tag } ∧
      (∃ r, (pAdopt o w s s2 t).imgs s2 = some r ∧ r.mem = none ∧ r.allocated = 0 ∧ r.w = 0 ∧ r.h = 0 ∧ r.pix = []) ∧
      ((pAdopt o w s s2 t).log = w.log ∨ ∃ bk, a.mem = some bk ∧ (pAdopt o w s s2 t).log = Event.dealloc bk a.allocated a.tag :: w.log) := by
    intro t
    unfold pAdopt
    simp only [hs, hs2]
    refine ⟨by simp [hne], ⟨{ b.cleared with align := 0 }, by simp, by simp [Img.cleared]⟩, ?_⟩
    exact release_log o w a
  simp only [step, ho, hside, if_true, stepMoveAssign, hs, hs2, if_neg hne]
  by_cases hp : c.movePropagates = true
  · rw [if_pos hp]
    have := key true
    simpa [hp] using this
  · rcases hbr with hbr | ⟨hcomp, heq⟩
    · exact absurd hbr hp
    · rw [if_neg hp]
      have hnc : ¬ ((!o.pixel) = true ∧ (!c.elemMoveCompiles) = true) := by
        rcases hcomp with h | h <;> simp [h]
      rw [if_neg hnc, if_pos heq]
      have := key false
      simpa [hp] using this

/-- move assignment between UNEQUAL non-propagating allocators, source owns storage: the target gets a deep copy built with ITS OWN allocator and
    alignment in a fresh block (never the source's block), and the source is released and left a valid empty image that keeps its allocator -/
theorem C10_massign_unequal_copies (c : Cfg) (w : World) (s s2 : Nat) (a b : Img) (o : Org) (ho : c.orgOf s = some o)
    (hside : (s < 4) = (s2 < 4)) (hne : s ≠ s2) (hs : w.imgs s = some a) (hs2 : w.imgs s2 = some b) (htmp : w.imgs tmpSlot = none)
    (hnp : c.movePropagates = false) (hcomp : o.pixel = true ∨ c.elemMoveCompiles = true) (hneq : a.tag ≠ b.tag)
    (hmem : b.mem.isSome = true) (hnz : o.needed a.align b.w b.h ≠ 0) (hok : (step c w (.massign s s2)).2 = .ok) :
    (∃ j, (step c w (.massign s s2)).1.imgs s = some j ∧ j.w = b.w ∧ j.h = b.h ∧ j.pix = b.pix ∧ j.mem = some w.heap.length
        ∧ j.tag = a.tag ∧ j.align = a.align) ∧
    (∃ r, (step c w (.massign s s2)).1.imgs s2 = some r ∧ r.mem = none ∧ r.allocated = 0 ∧ r.w = 0 ∧ r.h = 0 ∧ r.pix = [] ∧ r.tag = b.tag) := by
  have hst : s ≠ tmpSlot := by intro e; rw [e, htmp] at hs; cases hs
  have hs2t : s2 ≠ tmpSlot := by intro e; rw [e, htmp] at hs2; cases hs2
  have hnc : ¬ ((!o.pixel) = true ∧ (!c.elemMoveCompiles) = true) := by
    rcases hcomp with h | h <;> simp [h]
  have hp : ¬ c.movePropagates = true := by simp [hnp]
  simp only [step, ho, hside, if_true, stepMoveAssign, hs, hs2, if_neg hne, if_neg hp, if_neg hnc, if_neg hneq, hmem] at hok ⊢
  generalize hr : pCtor c o w tmpSlot (Img.fresh a.align a.tag) b.w b.h b.pix (some (b.w, b.h)) = r at hok ⊢
  have hrok : r.2 = .ok := by
    cases hr2 : r.2 <;> simp only [andThen, hr2] at hok <;> first | rfl | cases hok
  obtain ⟨j, hj, hjw, hjh, hjp, hjm, hjt, hja, -⟩ := pCtor_ok_img c o w tmpSlot (Img.fresh a.align a.tag) b.w b.h b.pix
    (some (b.w, b.h)) hnz (by rw [hr]; exact hrok)
  have hother := (pCtor_imgs c o w tmpSlot (Img.fresh a.align a.tag) b.w b.h b.pix (some (b.w, b.h))).1
  rw [hr] at hj hother
  have hrs : r.1.imgs s = some a := by rw [hother s hst]; exact hs
  have hrs2 : r.1.imgs s2 = some b := by rw [hother s2 hs2t]; exact hs2
  have hA := pAdopt_imgs o r.1 s tmpSlot false a j hrs hj
  have hA2 : (pAdopt o r.1 s tmpSlot false).imgs s2 = some b := by rw [hA]; simp [hs2t, Ne.symm hne, hrs2]
  have hR := pRelease_imgs o s2 b hA2
  simp only [andThen, hrok, pDtor_imgs]
  constructor
  · refine ⟨{ j with tag := a.tag }, ?_, hjw, hjh, hjp, hjm, rfl, hja⟩
    rw [if_neg hst, hR, if_neg hne, hA]; simp [hst]
  · refine ⟨b.cleared, ?_, by simp [Img.cleared]⟩
    rw [if_neg hs2t, hR]; simp

private def pmrX : Cfg := { pocma := false, pocs := false, empty := false, ntags := 3, ndebug := false, org := { mstep := 3, b2m := 1, chans := 3, planar := false, nontrivial := false, pixel := true }, porg := none }

/-- non-vacuity of the hypotheses above: a copy / copy assignment / move assignment that ends with bad_alloc, a successful deep copy
    assignment that needs storage, a successful move assignment between unequal non-propagating allocators -/
example :
    (step seRgbX (run seRgbX (World.init (some 1) none) [.dims 0 0 0 3 2 7]) (.copy 1 0)).2 = .badAlloc
    ∧ (step seRgbX (run seRgbX (World.init (some 2) none) [.dims 0 0 0 3 2 7, .dims 1 0 0 4 4 1]) (.assign 0 1)).2 = .badAlloc
    ∧ (step pmrX (run pmrX (World.init (some 2) none) [.dims 0 1 0 3 2 7, .dims 1 2 0 4 4 1]) (.massign 0 1)).2 = .badAlloc
    ∧ (step seRgbX (run seRgbX (World.init none none) [.dims 0 0 0 3 2 7, .dims 1 0 0 4 4 1]) (.assign 0 1)).2 = .ok
    ∧ (step pmrX (run pmrX (World.init none none) [.dims 0 1 0 3 2 7, .dims 1 2 0 4 4 1]) (.massign 0 1)).2 = .ok
    ∧ pmrX.movePropagates = false ∧ seRgbX.movePropagates = true := by
  decide +kernel

/-- recreate that has to build a temporary (existing storage too small) and whose allocation / element construction throws: every other image is
    untouched and the target keeps its block, recorded size, allocator, dimensions, view and pixels -- ONLY `_align_in_bytes` already holds the new
    alignment (the defect of C10_recreate_throw_witness, stated exactly); after bad_alloc heap and allocator log are untouched -/
theorem C10_recreate_throw_keeps_image (c : Cfg) (w : World) (s W H al : Nat) (fill alloc : Option Nat) (v : Nat) (o : Org) (i : Img)
    (ho : c.orgOf s = some o) (hs : w.imgs s = some i) (hlt : i.allocated < o.needed al W H)
    (hf : (step c w (.recreate s W H al fill alloc v)).2 = .badAlloc ∨ (step c w (.recreate s W H al fill alloc v)).2 = .ctorThrow) :
    (∀ x, x ≠ s → (step c w (.recreate s W H al fill alloc v)).1.imgs x = w.imgs x) ∧
    (step c w (.recreate s W H al fill alloc v)).1.imgs s = some { i with align := al } ∧
    ((step c w (.recreate s W H al fill alloc v)).2 = .badAlloc →
      (step c w (.recreate s W H al fill alloc v)).1.heap = w.heap ∧ (step c w (.recreate s W H al fill alloc v)).1.log = w.log) := by
  simp only [step, ho, stepRec, hs] at hf ⊢
  split
  · rename_i he; rw [if_pos he] at hf; simp at hf
  · rename_i he; rw [if_neg he] at hf
    have hnge : ¬ i.allocated ≥ o.needed al W H := by omega
    rw [if_neg hnge] at hf ⊢
    have e1 := andThen_throw _ _ (fun _ => rfl) hf
    rw [e1] at hf ⊢
    have e2 := swapWithTmp_throw c o _ s hf
    rw [e2] at hf ⊢
    have hi := pCtor_fail_imgs c o (w.setImg s (some { i with align := al })) tmpSlot (Img.fresh al (tmpTag c alloc)) W H
      (List.replicate (W * H) (fill.getD 0)) none (by rcases hf with hf | hf <;> rw [hf] <;> intro x <;> cases x)
    refine ⟨fun x hx => by rw [hi]; simp [hx], by rw [hi]; simp, fun hb => ?_⟩
    exact (pCtor_badAlloc _ _ _ _ _ _ _ _ _ hb).2

example :
    (step seRgbX (run seRgbX (World.init (some 1) none) [.dims 0 0 0 3 2 7]) (.recreate 0 8 8 16 none none 3)).2 = .badAlloc := by
  decide +kernel

/-- the catch(...) of allocate_and_default_construct / allocate_and_fill / allocate_and_copy: a constructor whose element construction throws
    releases the allocation it made at once -- the printed log gains exactly `alloc b n t` followed by `dealloc b n t` (same block, same size, same
    allocator), or nothing at all when no byte was needed; no image changes -/
theorem C10_ctor_throw_releases (c : Cfg) (o : Org) (w : World) (s : Nat) (img0 : Img) (W H : Nat) (content : List Nat) (src : Option (Nat × Nat))
    (hf : (pCtor c o w s img0 W H content src).2 = .ctorThrow) :
    (pCtor c o w s img0 W H content src).1.imgs = w.imgs ∧
    ((pCtor c o w s img0 W H content src).1.log = w.log ∨
     (pCtor c o w s img0 W H content src).1.log =
       Event.dealloc w.heap.length (o.needed img0.align W H) img0.tag :: Event.alloc w.heap.length (o.needed img0.align W H) img0.tag :: w.log) :=
  ⟨pCtor_fail_imgs c o w s img0 W H content src (by rw [hf]; intro e; cases e), pCtor_ctorThrow_log c o w s img0 W H content src hf⟩

example : (pCtor { pocma := false, pocs := false, empty := true, ntags := 0, ndebug := false, org := { mstep := 4, b2m := 1, chans := 1, planar := false, nontrivial := true, pixel := false }, porg := none }
             { mstep := 4, b2m := 1, chans := 1, planar := false, nontrivial := true, pixel := false } (World.init none (some 3)) 0 (Img.fresh 0 0) 3 2 (List.replicate 6 5) none).2 = .ctorThrow := by
  decide +kernel

/-- move construction, swap and write never touch an allocator: no block changes, no event is logged, no element is constructed or destroyed
    (storage changes hands, it is not reallocated) -- for every configuration, also the out-of-contract ones -/
theorem C10_move_swap_no_allocator_event (c : Cfg) (w : World) (s s2 x y v : Nat) :
    ((step c w (.move s s2)).1.log = w.log ∧ (step c w (.move s s2)).1.heap = w.heap
      ∧ (step c w (.move s s2)).1.ctor = w.ctor ∧ (step c w (.move s s2)).1.dtor = w.dtor) ∧
    ((step c w (.swap s s2)).1.log = w.log ∧ (step c w (.swap s s2)).1.heap = w.heap
      ∧ (step c w (.swap s s2)).1.ctor = w.ctor ∧ (step c w (.swap s s2)).1.dtor = w.dtor) ∧
    ((step c w (.write s x y v)).1.log = w.log ∧ (step c w (.write s x y v)).1.heap = w.heap
      ∧ (step c w (.write s x y v)).1.ctor = w.ctor ∧ (step c w (.write s x y v)).1.dtor = w.dtor) := by
  refine ⟨?_, ?_, ?_⟩
  · simp only [step]; split
    · split <;> exact ⟨rfl, rfl, rfl, rfl⟩
    · exact ⟨rfl, rfl, rfl, rfl⟩
  · simp only [step]; split
    · split
      · unfold pSwap; split
        · split
          · exact ⟨rfl, rfl, rfl, rfl⟩
          · split <;> exact ⟨rfl, rfl, rfl, rfl⟩
        · exact ⟨rfl, rfl, rfl, rfl⟩
      · exact ⟨rfl, rfl, rfl, rfl⟩
    · exact ⟨rfl, rfl, rfl, rfl⟩
  · simp only [step]; split
    · split <;> exact ⟨rfl, rfl, rfl, rfl⟩
    · exact ⟨rfl, rfl, rfl, rfl⟩

/-- image(view, alignment, allocator): a deep copy of the viewed image with the REQUESTED alignment and allocator (not the source's), in a fresh block;
    the source is untouched -/
theorem C10_fromview_deep_copy (c : Cfg) (w : World) (s t al s2 : Nat) (b : Img) (o : Org) (h : Inv c w) (ho : c.orgOf s = some o)
    (ho2 : c.orgOf s2 = some o) (hpix : o.pixel = true) (hs : w.imgs s = none) (hs2 : w.imgs s2 = some b) (hnz : o.needed al b.w b.h ≠ 0)
    (hok : (step c w (.fromview s t al s2)).2 = .ok) :
    ∃ j, (step c w (.fromview s t al s2)).1.imgs s = some j ∧ j.w = b.w ∧ j.h = b.h ∧ j.pix = b.pix ∧ j.mem = some w.heap.length
      ∧ j.mem ≠ b.mem ∧ j.tag = c.tagOf t ∧ j.align = al ∧ (step c w (.fromview s t al s2)).1.imgs s2 = some b := by
  have hb : b.mem ≠ some w.heap.length := by
    intro e
    obtain ⟨blk, hblk, -⟩ := h.owned s2 b _ hs2 e
    have : w.heap.length < w.heap.length := (List.getElem?_eq_some_iff.mp hblk).1
    omega
  have hne2 : s2 ≠ s := by intro e; subst e; rw [hs] at hs2; cases hs2
  have hcond : o.pixel = true ∧ c.orgOf s2 = some o := ⟨hpix, ho2⟩
  simp only [step, ho, hs, hs2, if_pos hcond] at hok ⊢
  obtain ⟨j, hj, hjw, hjh, hjp, hjm, hjt, hja, -⟩ := pCtor_ok_img c o w s (Img.fresh al (c.tagOf t)) b.w b.h b.pix (some (b.w, b.h)) hnz hok
  refine ⟨j, hj, hjw, hjh, hjp, hjm, ?_, hjt, hja, ?_⟩
  · rw [hjm]; exact fun e => hb e.symm
  · rw [(pCtor_imgs c o w s (Img.fresh al (c.tagOf t)) b.w b.h b.pix (some (b.w, b.h))).1 s2 hne2]; exact hs2

example : (step seRgbX (run seRgbX (World.init none none) [.dims 0 0 0 3 2 7]) (.fromview 1 0 16 0)).2 = .ok
    ∧ seRgbX.org.needed 16 3 2 ≠ 0 := by decide +kernel

/-! ### create_view: the view lies inside the allocation -/

/-- THE VIEW LIES INSIDE THE ALLOCATION (create_view over the generated size formulas): whatever address `addr` the allocator returned, the bytes
    skipped to align the first pixel plus the bytes of all `H` rows (of all planes) of the padded row size do not exceed
    `total_allocated_size_in_bytes` -- for every organisation, alignment and dimensions without size_t wrap -/
theorem C10_view_inside_allocation (o : Org) (al W H addr : Nat) (hs : SmallDims o al W H) (haddr : addr + al < 18446744073709551616) :
    (alignOff addr al : Int) + ((o.rowSize al W : Int) * H * (if o.planar then o.chans else 1) + o.b2m - 1) / o.b2m ≤ (o.needed al W H : Int) := by
  obtain ⟨hm, hc, hb, hb8, hfit, hfitr⟩ := hs
  have hrow := C10_row_size_spec (W : Int) (al : Int) (o.mstep : Int) (o.b2m : Int) (by omega) (by omega) (by omega) (by omega)
    (by have h := Int.ofNat_lt.mpr hfitr; simp only [Int.natCast_add, Int.natCast_mul] at h; omega)
  have hwm : (0 : Int) ≤ (W : Int) * o.mstep := Int.mul_nonneg (Int.natCast_nonneg _) (Int.natCast_nonneg _)
  have hab : (0 : Int) ≤ (al : Int) * o.b2m := Int.mul_nonneg (Int.natCast_nonneg _) (Int.natCast_nonneg _)
  have hr0 : (W : Int) * o.mstep ≤ row_size W al o.mstep o.b2m ∧ row_size W al o.mstep o.b2m ≤ (W : Int) * o.mstep + al * o.b2m := by
    by_cases ha : (al : Int) = 0
    · have := hrow.1 ha; rw [this]; omega
    · have := hrow.2 (by omega); omega
  have hrnn : (0 : Int) ≤ row_size W al o.mstep o.b2m := by omega
  have hrhle : row_size W al o.mstep o.b2m * H ≤ ((W : Int) * o.mstep + al * o.b2m) * H :=
    Int.mul_le_mul_of_nonneg_right hr0.2 (by omega)
  have hrh0 : (0 : Int) ≤ row_size W al o.mstep o.b2m * H := Int.mul_nonneg hrnn (by omega)
  have hfitI : (((W : Int) * o.mstep + al * o.b2m) * H * o.chans + 8 + al < 18446744073709551616) := by
    have h := Int.ofNat_lt.mpr hfit; simp only [Int.natCast_add, Int.natCast_mul] at h; omega
  have hc1 : (1 : Int) ≤ o.chans := by omega
  have hnn : (0 : Int) ≤ ((W : Int) * o.mstep + al * o.b2m) * H := Int.mul_nonneg (by omega) (Int.natCast_nonneg _)
  have hbig : ((W : Int) * o.mstep + al * o.b2m) * H ≤ ((W : Int) * o.mstep + al * o.b2m) * H * o.chans := by
    have := Int.mul_le_mul_of_nonneg_left hc1 hnn
    simpa using this
  -- the offset of the first pixel
  have hoff : (alignOff addr al : Int) ≤ (if (al : Int) > 0 then (al : Int) - 1 else 0) := by
    unfold alignOff
    by_cases ha : al > 0
    · have := C10_first_pixel_offset (addr : Int) (al : Int) (by omega) (by omega) (by omega)
      simp only [ha, if_true]
      have hpos : (al : Int) > 0 := by omega
      simp only [hpos, if_true]
      omega
    · have : ¬ (al : Int) > 0 := by omega
      rw [if_neg ha, if_neg this]; simp
  have hrs : (o.rowSize al W : Int) = row_size W al o.mstep o.b2m := by
    unfold Org.rowSize; exact Int.toNat_of_nonneg hrnn
  rw [hrs]
  unfold Org.needed
  by_cases hp : o.planar = true
  · simp only [hp, if_true]
    have hrhc : row_size W al o.mstep o.b2m * H * o.chans ≤ ((W : Int) * o.mstep + al * o.b2m) * H * o.chans :=
      Int.mul_le_mul_of_nonneg_right hrhle (by omega)
    have hspec := C10_total_planar_spec (W : Int) (H : Int) (al : Int) (o.mstep : Int) (o.b2m : Int) (o.chans : Int) (by omega) (by omega) hrnn
      (by omega) (by omega) (by omega) (by omega) (by omega)
    rw [hspec]
    have hp0 : (0 : Int) ≤ row_size W al o.mstep o.b2m * H * o.chans := Int.mul_nonneg hrh0 (by omega)
    generalize row_size W al o.mstep o.b2m * H * o.chans = p at *
    have hq0 : (0 : Int) ≤ (p + o.b2m - 1) / o.b2m := Int.ediv_nonneg (by omega) (by omega)
    generalize (p + (o.b2m : Int) - 1) / (o.b2m : Int) = q at *
    generalize (if (al : Int) > 0 then (al : Int) - 1 else 0) = sl at *
    omega
  · have hpf : o.planar = false := by simpa using hp
    have h1 : ((1 : Nat) : Int) = 1 := rfl
    simp only [hpf, Bool.false_eq_true, if_false, h1, Int.mul_one]
    have hspec := C10_total_interleaved_spec (W : Int) (H : Int) (al : Int) (o.mstep : Int) (o.b2m : Int) (o.chans : Int) (by omega) hrnn
      (by omega) (by omega) (by omega) (by omega)
    rw [hspec]
    generalize row_size W al o.mstep o.b2m * H = p at *
    have hq0 : (0 : Int) ≤ (p + o.b2m - 1) / o.b2m := Int.ediv_nonneg (by omega) (by omega)
    generalize (p + (o.b2m : Int) - 1) / (o.b2m : Int) = q at *
    generalize (if (al : Int) > 0 then (al : Int) - 1 else 0) = sl at *
    omega

example : SmallDims { mstep := 3, b2m := 1, chans := 3, planar := false, nontrivial := false, pixel := true } 16 5 3 := by
  unfold SmallDims; decide

/-! ### what the current code gets wrong (machine-checked negations, replayed on the real headers by the harness) -/

private def rgb8 : Org := { mstep := 3, b2m := 1, chans := 3, planar := false, nontrivial := false, pixel := true }
private def elemOrg : Org := { mstep := 4, b2m := 1, chans := 1, planar := false, nontrivial := true, pixel := false }
private def pmrRel : Cfg := { pocma := false, pocs := false, empty := false, ntags := 3, ndebug := true, org := rgb8, porg := none }
private def pmrDbg : Cfg := { pmrRel with ndebug := false }
private def seElem : Cfg := { pocma := false, pocs := false, empty := true, ntags := 0, ndebug := false, org := elemOrg, porg := none }
private def seRgb : Cfg := { seElem with org := rgb8 }

-- OPEN (false for the current code): Inv is preserved by every step for EVERY allocator configuration (without `SwapSafe`).
/-- NDEBUG, allocators unequal and not propagating on swap: a growing recreate of an image over resource 1 builds its temporary with the
    default resource; swap exchanges the blocks but not the allocators; block 0 (allocated through 1) is deallocated through 0 -/
theorem C10_recreate_alloc_witness :
    ((run pmrRel (World.init none none) [.dims 0 1 0 3 2 7, .recreate 0 8 8 0 none none 1]).heap[0]?).map (·.bad) = some true
    ∧ ¬ SwapSafe pmrRel := by
  refine ⟨by decide +kernel, ?_⟩
  intro h; rcases h with h | h | h <;> simp [pmrRel] at h

/-- the same history with assertions enabled stops in image::swap -/
theorem C10_recreate_alloc_assert_witness :
    (step pmrDbg (run pmrDbg (World.init none none) [.dims 0 1 0 3 2 7]) (.recreate 0 8 8 0 none none 1)).2 = .assertFail "_alloc==img._alloc"
    ∧ (step pmrDbg (run pmrDbg (World.init none none) [.dims 0 1 0 3 2 7, .dims 1 2 0 4 4 1]) (.assign 0 1)).2 = .assertFail "_alloc==img._alloc" := by
  decide +kernel

-- OPEN (false for the current code): after every successful recreate(dims, alignment) the row size and first pixel are those of `alignment`.
/-- `_align_in_bytes` is assigned before the allocation that throws: afterwards recreate(3,2,16) takes the early return (outcome ok,
    no event) although the view still has the unaligned row size 9 -/
theorem C10_recreate_throw_witness :
    let w := run seRgb (World.init (some 1) none) [.dims 0 0 0 3 2 7, .recreate 0 8 8 16 none none 3]
    (step seRgb w (.recreate 0 3 2 16 none none 3)).2 = .ok ∧
    ((step seRgb w (.recreate 0 3 2 16 none none 3)).1.imgs 0).map (fun i => (i.align, i.row, rgb8.rowSize 16 3)) = some (16, 9, 16) := by
  decide +kernel

-- OPEN (false for the current code): Inv is preserved by recreate under every construction fault (without `RecreateOK`).
/-- reuse branch + throwing element constructor: the roll-back destroys the new elements, the view keeps the new dimensions, and the
    destructor of the image destroys an element that was never constructed -/
theorem C10_reuse_throw_witness :
    ((run seElem (World.init none (some 6)) [.fill 0 0 0 3 2 5, .recreate 0 1 1 0 none none 2, .stop]).heap[0]?).map (·.over) = some true
    ∧ (run seElem (World.init none (some 6)) [.fill 0 0 0 3 2 5, .recreate 0 1 1 0 none none 2, .stop]).dtor
        = (run seElem (World.init none (some 6)) [.fill 0 0 0 3 2 5, .recreate 0 1 1 0 none none 2, .stop]).ctor + 1 := by
  decide +kernel

/-- copying an image whose dimensions are 5x0: assertion failure in uninitialized_copy_pixels (debug); a 0x0 copy (NDEBUG) -/
theorem C10_copy_empty_witness :
    (step pmrDbg (run pmrDbg (World.init none none) [.dflt 0 0 0, .recreate 0 5 0 0 none none 1]) (.copy 1 0)).2
        = .assertFail "view1.dimensions()==view2.dimensions()"
    ∧ ((run pmrRel (World.init none none) [.dflt 0 0 0, .recreate 0 5 0 0 none none 1, .copy 1 0]).imgs 1).map (fun i => (i.w, i.h)) = some (0, 0)
    ∧ ((run pmrRel (World.init none none) [.dflt 0 0 0, .recreate 0 5 0 0 none none 1, .copy 1 0]).imgs 0).map (fun i => (i.w, i.h)) = some (5, 0) := by
  decide +kernel

end GilVerif.Props.C10
