/-
  C08 -- packed / bit-aligned channel writes change exactly their own bits.

  Theorems are about Model/C08.lean (hand model following channel.hpp / packed_pixel.hpp /
  bit_aligned_pixel_reference.hpp) and about the GENERATED bit cursor kernels of Gen/C08.lean
  (`bit_advance`, `bit_inc`, `bit_distance_to`, `data_size`, re-translated from the headers on every run).
  All of them quantify over every field width `W`, first bit, channel width, buffer content (an unbounded
  natural number = a buffer of any length), byte address and value; nothing is bounded.

  The central statements are *bit characterisations*: bit `i` of the memory after a write is the value's bit
  if `i` lies in the channel's window, and the OLD bit otherwise.  Read-back, the frame law for bits, bytes,
  other channels, neighbouring pixels and padding are corollaries, stated separately.

  Only property theorems (C08_*) are public; helper lemmas are private.
-/
import GilVerif.Model.C08

namespace GilVerif.Props.C08
open GilVerif.Model.C08 GilVerif.Gen.C08

/-! ### helpers -/

private theorem tb_high {x n i : Nat} (h : x < 2 ^ n) (hi : n ≤ i) : x.testBit i = false :=
  Nat.testBit_lt_two_pow (Nat.lt_of_lt_of_le h (Nat.pow_le_pow_right (by decide) hi))

private theorem tb_ones_shl (first num i : Nat) :
    ((2 ^ num - 1) <<< first).testBit i = (decide (first ≤ i) && decide (i < first + num)) := by
  rw [Nat.testBit_shiftLeft, Nat.testBit_two_pow_sub_one]
  by_cases h : first ≤ i <;> simp [h] <;> omega

private theorem tb_chanMask (W first num i : Nat) (hW : first + num ≤ W) :
    (chanMask W first num).testBit i = (decide (first ≤ i) && decide (i < first + num)) := by
  unfold chanMask
  rw [Nat.testBit_mod_two_pow, tb_ones_shl]
  by_cases h1 : first ≤ i <;> by_cases h2 : i < first + num <;> simp [h1, h2] <;> omega

private theorem tb_dynMask (W first num i : Nat) (hW : first + num ≤ W) :
    (dynMask W first num).testBit i = (decide (first ≤ i) && decide (i < first + num)) := by
  unfold dynMask
  rw [Nat.testBit_mod_two_pow, tb_ones_shl]
  by_cases h1 : first ≤ i <;> by_cases h2 : i < first + num <;> simp [h1, h2] <;> omega

private theorem tb_shifted (first num v i : Nat) (hv : v < 2 ^ num) :
    (v <<< first).testBit i = (decide (first ≤ i ∧ i < first + num) && v.testBit (i - first)) := by
  rw [Nat.testBit_shiftLeft]
  by_cases h1 : first ≤ i <;> by_cases h2 : i < first + num <;> simp [h1, h2]
  exact tb_high hv (by omega)

private theorem tb_setWith (W mask f s i : Nat) (hm : mask < 2 ^ W) :
    (setWith W mask f s).testBit i = (decide (i < W) && ((f.testBit i && !mask.testBit i) || s.testBit i)) := by
  unfold setWith notW
  rw [Nat.testBit_mod_two_pow, Nat.testBit_or, Nat.testBit_and, Nat.testBit_two_pow_sub_succ hm]
  by_cases h : i < W <;> simp [h]

/-- read-modify-write core: a mask covering exactly the window, a shifted value living in the window -/
private theorem set_core (W mask f s first num v i : Nat) (hm : mask < 2 ^ W) (hW : first + num ≤ W)
    (hmask : mask.testBit i = (decide (first ≤ i) && decide (i < first + num)))
    (hs : s.testBit i = (decide (first ≤ i ∧ i < first + num) && v.testBit (i - first))) :
    (setWith W mask f s).testBit i =
      if first ≤ i ∧ i < first + num then v.testBit (i - first) else (decide (i < W) && f.testBit i) := by
  rw [tb_setWith _ _ _ _ _ hm, hmask, hs]
  by_cases h1 : first ≤ i <;> by_cases h2 : i < first + num <;> simp [h1, h2]
  omega

private theorem carrier_ge (num : Nat) (h : num ≤ 64) : num ≤ carrierBits num := by
  unfold carrierBits; repeat' split
  all_goals omega

private theorem tb_getWith (mask f first num i : Nat) :
    (getWith mask f first num).testBit i =
      (decide (i < carrierBits num) && (f.testBit (first + i) && mask.testBit (first + i))) := by
  unfold getWith
  rw [Nat.testBit_mod_two_pow, Nat.testBit_shiftRight, Nat.testBit_and]

private theorem tb_bitsAt (M lo num i : Nat) :
    (bitsAt M lo num).testBit i = (decide (i < num) && M.testBit (lo + i)) := by
  unfold bitsAt; rw [Nat.testBit_mod_two_pow, Nat.testBit_shiftRight]

private theorem get_core (mask f first num : Nat) (hn : num ≤ 64)
    (hmask : ∀ i, mask.testBit i = (decide (first ≤ i) && decide (i < first + num))) :
    getWith mask f first num = bitsAt f first num := by
  apply Nat.eq_of_testBit_eq; intro i
  rw [tb_getWith, tb_bitsAt, hmask]
  have := carrier_ge num hn
  by_cases h : i < num
  · have h' : i < carrierBits num := by omega
    have h2 : first + i < first + num := by omega
    simp [h, h', h2]
  · have h2 : ¬ first + i < first + num := by omega
    simp [h, h2]

private theorem tb_readBytes (M ptr n i : Nat) :
    (readBytes M ptr n).testBit i = (decide (i < 8 * n) && M.testBit (8 * ptr + i)) := by
  unfold readBytes
  rw [Nat.testBit_mod_two_pow, Nat.testBit_shiftRight]

private theorem tb_writeBytes (M ptr n val i : Nat) :
    (writeBytes M ptr n val).testBit i =
      if 8 * ptr ≤ i ∧ i < 8 * (ptr + n) then val.testBit (i - 8 * ptr) else M.testBit i := by
  unfold writeBytes
  simp only [Nat.testBit_or, Nat.testBit_mod_two_pow, Nat.testBit_shiftLeft, Nat.testBit_shiftRight]
  by_cases h1 : 8 * ptr ≤ i <;> by_cases h2 : i < 8 * (ptr + n)
  · have a : ¬ i < 8 * ptr := by omega
    have b : i - 8 * ptr < 8 * n := by omega
    have c : ¬ 8 * (ptr + n) ≤ i := by omega
    simp [h1, h2, a, b, c]
  · have a : ¬ i < 8 * ptr := by omega
    have b : ¬ i - 8 * ptr < 8 * n := by omega
    have c : 8 * (ptr + n) ≤ i := by omega
    have d : 8 * (ptr + n) + (i - 8 * (ptr + n)) = i := by omega
    simp [h1, h2, a, b, c, d]
  · have a : i < 8 * ptr := by omega
    have c : ¬ 8 * (ptr + n) ≤ i := by omega
    simp [h1, h2, a, c]
  · omega

/-- memory core: copy `n` bytes out, rewrite the window `[first, first+num)` of the field, copy `n` bytes back -/
private theorem mem_core (W M ptr n first num v i : Nat) (g : Nat → Nat) (hn : first + num ≤ 8 * n) (hnW : 8 * n ≤ W)
    (hg : ∀ f j, (g f).testBit j = if first ≤ j ∧ j < first + num then v.testBit (j - first) else (decide (j < W) && f.testBit j)) :
    (writeBytes M ptr n (g (readBytes M ptr n))).testBit i =
      if 8 * ptr + first ≤ i ∧ i < 8 * ptr + first + num then v.testBit (i - (8 * ptr + first)) else M.testBit i := by
  rw [tb_writeBytes]
  by_cases hw : 8 * ptr ≤ i ∧ i < 8 * (ptr + n)
  · rw [if_pos hw, hg, tb_readBytes]
    by_cases hc : first ≤ i - 8 * ptr ∧ i - 8 * ptr < first + num
    · have hc' : 8 * ptr + first ≤ i ∧ i < 8 * ptr + first + num := by omega
      have e : i - 8 * ptr - first = i - (8 * ptr + first) := by omega
      rw [if_pos hc, if_pos hc', e]
    · have hc' : ¬ (8 * ptr + first ≤ i ∧ i < 8 * ptr + first + num) := by omega
      have a : i - 8 * ptr < W := by omega
      have b : i - 8 * ptr < 8 * n := by omega
      have d : 8 * ptr + (i - 8 * ptr) = i := by omega
      rw [if_neg hc, if_neg hc']; simp [a, b, d]
  · have hc' : ¬ (8 * ptr + first ≤ i ∧ i < 8 * ptr + first + num) := by omega
    rw [if_neg hw, if_neg hc']

/-! ### one bit field: `packed_channel_reference` (compile-time first bit) -/

/-- the mask-and-shift read is the plain bit slice: `get = (f >> first) mod 2^num` -/
theorem C08_get_closed (W f first num : Nat) (hW : first + num ≤ W) (hn : num ≤ 64) :
    getF W f first num = (f >>> first) % 2 ^ num :=
  get_core _ f first num hn (fun i => tb_chanMask W first num i hW)

/-- complete description of `set_unsafe`: bit `i` of the new field is the value's bit inside the channel's
    window and the old bit outside it -/
theorem C08_set_bits (W f first num v i : Nat) (hW : first + num ≤ W) (hv : v < 2 ^ num) :
    (setF W f first num v).testBit i =
      if first ≤ i ∧ i < first + num then v.testBit (i - first) else (decide (i < W) && f.testBit i) := by
  unfold setF
  exact set_core _ _ _ _ _ _ _ _ (by unfold chanMask; exact Nat.mod_lt _ (Nat.two_pow_pos W)) hW
    (tb_chanMask _ _ _ _ hW) (tb_shifted _ _ _ _ hv)

/-- reading back what was written yields the value written -/
theorem C08_get_set (W f first num v : Nat) (hW : first + num ≤ W) (hn : num ≤ 64) (hv : v < 2 ^ num) :
    getF W (setF W f first num v) first num = v := by
  rw [C08_get_closed _ _ _ _ hW hn]
  apply Nat.eq_of_testBit_eq; intro i
  rw [Nat.testBit_mod_two_pow, Nat.testBit_shiftRight, C08_set_bits _ _ _ _ _ _ hW hv]
  by_cases h : i < num
  · have : first ≤ first + i ∧ first + i < first + num := by omega
    rw [if_pos this]; simp [h]
  · have := tb_high hv (Nat.le_of_not_lt h); simp [h, this]

/-- frame law: every bit of the field outside the channel's window is unchanged -/
theorem C08_frame_bits (W f first num v i : Nat) (hW : first + num ≤ W) (hv : v < 2 ^ num) (hf : f < 2 ^ W)
    (hi : ¬ (first ≤ i ∧ i < first + num)) :
    (setF W f first num v).testBit i = f.testBit i := by
  rw [C08_set_bits _ _ _ _ _ _ hW hv, if_neg hi]
  by_cases h : i < W
  · simp [h]
  · have := tb_high hf (Nat.le_of_not_lt h); simp [h, this]

/-- the new field still fits the bit field type -/
theorem C08_set_lt (W f first num v : Nat) : setF W f first num v < 2 ^ W := by
  unfold setF setWith; exact Nat.mod_lt _ (Nat.two_pow_pos W)

/-- every other channel (any window disjoint from the written one) reads the same before and after -/
theorem C08_other_channel (W f first num v first2 num2 : Nat) (hW : first + num ≤ W) (hv : v < 2 ^ num)
    (hW2 : first2 + num2 ≤ W) (hn2 : num2 ≤ 64) (hdis : first2 + num2 ≤ first ∨ first + num ≤ first2) :
    getF W (setF W f first num v) first2 num2 = getF W f first2 num2 := by
  rw [C08_get_closed _ _ _ _ hW2 hn2, C08_get_closed _ _ _ _ hW2 hn2]
  apply Nat.eq_of_testBit_eq; intro i
  simp only [Nat.testBit_mod_two_pow, Nat.testBit_shiftRight]
  by_cases h : i < num2
  · have hi : ¬ (first ≤ first2 + i ∧ first2 + i < first + num) := by omega
    have hw : first2 + i < W := by omega
    rw [C08_set_bits _ _ _ _ _ _ hW hv, if_neg hi]; simp [hw]
  · simp [h]

/-- assignment from a reference of the same type (`set_from_reference`): takes exactly the other field's
    channel bits, leaves the rest -/
theorem C08_set_from_reference (W f first num other i : Nat) (hW : first + num ≤ W) :
    (setFromRefF W f first num other).testBit i =
      if first ≤ i ∧ i < first + num then other.testBit i else (decide (i < W) && f.testBit i) := by
  unfold setFromRefF
  rw [tb_setWith _ _ _ _ _ (by unfold chanMask; exact Nat.mod_lt _ (Nat.two_pow_pos W)), Nat.testBit_and,
      tb_chanMask _ _ _ _ hW]
  by_cases h1 : first ≤ i <;> by_cases h2 : i < first + num <;> simp [h1, h2]
  omega

/-- out of contract (guarded by `BOOST_ASSERT(value <= max_val)` only): a value wider than the channel
    spills into the neighbouring channel.  Kept visible; this is why the theorems require `v < 2^num`. -/
theorem C08_unguarded_witness : getF 8 (setF 8 0 0 2 4) 2 3 = 1 ∧ getF 8 0 2 3 = 0 := by decide

/-! ### run-time first bit: `packed_dynamic_channel_reference` on one field value -/

theorem C08_dyn_get_closed (W f first num : Nat) (hW : first + num ≤ W) (hn : num ≤ 64) :
    getD W f first num = (f >>> first) % 2 ^ num :=
  get_core _ f first num hn (fun i => tb_dynMask W first num i hW)

theorem C08_dyn_set_bits (W f first num v i : Nat) (hW : first + num ≤ W) (hv : v < 2 ^ num) :
    (setD W f first num v).testBit i =
      if first ≤ i ∧ i < first + num then v.testBit (i - first) else (decide (i < W) && f.testBit i) := by
  unfold setD
  exact set_core _ _ _ _ _ _ _ _ (by unfold dynMask; exact Nat.mod_lt _ (Nat.two_pow_pos W)) hW
    (tb_dynMask _ _ _ _ hW) (tb_shifted _ _ _ _ hv)

/-- a 32-bit channel at run-time first bit 4 of a 64-bit field is stored and read back whole ... -/
theorem C08_dyn_wide_channel : getD 64 (setD 64 0 4 32 0xFFFFFFFF) 4 32 = 0xFFFFFFFF := by decide

/-- ... which the code before fix 69c04b8 did not do (mask and value were shifted in the 32-bit `integer_t`):
    the FIXED finding C08-dynamic-reference-wide-channel-shift, witness replayed by the `xdop` ops -/
theorem C08_prefix_wide_channel_witness : getDPrefix 64 (setDPrefix 64 0 4 32 0xFFFFFFFF) 4 32 = 0x0FFFFFFF := by decide

/-! ### memory: references at a byte address of a buffer of any length -/

/-- `data_size()` (generated from channel.hpp): the bytes that hold the channel's bits, at most the field -/
theorem C08_data_size (first num fb : Nat) (h : first + num + 7 < 4294967296) :
    dataSize first num fb = min ((first + num + 7) / 8) fb
    ∧ dataSize first num fb ≤ fb
    ∧ (first + num ≤ 8 * fb → first + num ≤ 8 * dataSize first num fb) := by
  have e : dataSize first num fb = min ((first + num + 7) / 8) fb := by
    unfold dataSize data_size
    simp only []
    omega
  rw [e]; omega

/-- the read-only and the mutable specialisation use the same byte count -/
theorem C08_data_size_const (first num fb : Int) : data_size_const first num fb = data_size first num fb := by
  unfold data_size_const data_size; rfl

/-- compile-time first-bit reference at byte `ptr`: complete bit characterisation of the buffer after `ref = v` -/
theorem C08_sset_bits (fb M ptr first num v i : Nat) (hW : first + num ≤ 8 * fb) (hv : v < 2 ^ num) :
    (sSet fb M ptr first num v).testBit i =
      if 8 * ptr + first ≤ i ∧ i < 8 * ptr + first + num then v.testBit (i - (8 * ptr + first)) else M.testBit i := by
  unfold sSet
  exact mem_core (8 * fb) M ptr fb first num v i (fun f => setF (8 * fb) f first num v) hW (Nat.le_refl _)
    (fun f j => C08_set_bits _ f _ _ _ j hW hv)

/-- run-time first-bit reference (channels of bit-aligned pixels): the same characterisation, although only
    `data_size()` bytes are read and written -/
theorem C08_dset_bits (fb M ptr first num v i : Nat) (hW : first + num ≤ 8 * fb)
    (hv : v < 2 ^ num) (hs : first + num + 7 < 4294967296) :
    (dSet fb M ptr first num v).testBit i =
      if 8 * ptr + first ≤ i ∧ i < 8 * ptr + first + num then v.testBit (i - (8 * ptr + first)) else M.testBit i := by
  unfold dSet
  have hd := C08_data_size first num fb hs
  exact mem_core (8 * fb) M ptr (dataSize first num fb) first num v i (fun f => setD (8 * fb) f first num v)
    (hd.2.2 hW) (by omega) (fun f j => C08_dyn_set_bits _ f _ _ _ j hW hv)

/-- reading through either reference = the bit slice of the buffer at the channel's position -/
theorem C08_sget (fb M ptr first num : Nat) (hW : first + num ≤ 8 * fb) (hn : num ≤ 64) :
    sGet fb M ptr first num = bitsAt M (8 * ptr + first) num := by
  unfold sGet
  rw [C08_get_closed _ _ _ _ hW hn]
  apply Nat.eq_of_testBit_eq; intro i
  rw [Nat.testBit_mod_two_pow, Nat.testBit_shiftRight, tb_readBytes, tb_bitsAt]
  by_cases h : i < num
  · have a : first + i < 8 * fb := by omega
    have e : 8 * ptr + (first + i) = 8 * ptr + first + i := by omega
    simp [h, a, e]
  · simp [h]

theorem C08_dget (fb M ptr first num : Nat) (hW : first + num ≤ 8 * fb)
    (hn : num ≤ 64) (hs : first + num + 7 < 4294967296) :
    dGet fb M ptr first num = bitsAt M (8 * ptr + first) num := by
  unfold dGet
  have hd := (C08_data_size first num fb hs).2.2 hW
  rw [C08_dyn_get_closed _ _ _ _ hW hn]
  apply Nat.eq_of_testBit_eq; intro i
  rw [Nat.testBit_mod_two_pow, Nat.testBit_shiftRight, tb_readBytes, tb_bitsAt]
  by_cases h : i < num
  · have a : first + i < 8 * dataSize first num fb := by omega
    have e : 8 * ptr + (first + i) = 8 * ptr + first + i := by omega
    simp [h, a, e]
  · simp [h]

/-- read-back from a bit characterisation -/
theorem C08_wrote_readback (M M' lo num v : Nat) (h : WroteExactly M M' lo num v) (hv : v < 2 ^ num) :
    bitsAt M' lo num = v := by
  apply Nat.eq_of_testBit_eq; intro i
  rw [tb_bitsAt, h]
  by_cases hi : i < num
  · have : lo ≤ lo + i ∧ lo + i < lo + num := by omega
    have e : lo + i - lo = i := by omega
    rw [if_pos this, e]; simp [hi]
  · have := tb_high hv (Nat.le_of_not_lt hi); simp [hi, this]

/-- every other bit slice disjoint from the window (another channel, a neighbouring pixel, padding) reads the same -/
theorem C08_wrote_frame_slice (M M' lo num v lo2 num2 : Nat) (h : WroteExactly M M' lo num v)
    (hdis : lo2 + num2 ≤ lo ∨ lo + num ≤ lo2) : bitsAt M' lo2 num2 = bitsAt M lo2 num2 := by
  apply Nat.eq_of_testBit_eq; intro i
  rw [tb_bitsAt, tb_bitsAt, h]
  by_cases hi : i < num2
  · have : ¬ (lo ≤ lo2 + i ∧ lo2 + i < lo + num) := by omega
    rw [if_neg this]
  · simp [hi]

/-- bytes: every byte that does not overlap the channel's bits is identical before and after; in particular
    every byte outside `[ptr, ptr + data_size())` (take `lo = 8*ptr+first`) -/
theorem C08_frame_bytes (M M' lo num v j : Nat) (h : WroteExactly M M' lo num v)
    (hdis : 8 * j + 8 ≤ lo ∨ lo + num ≤ 8 * j) : readBytes M' j 1 = readBytes M j 1 := by
  have := C08_wrote_frame_slice M M' lo num v (8 * j) 8 h (by omega)
  unfold bitsAt at this; unfold readBytes; simpa using this

/-- the XOR of the buffer before/after (what the harness observes) lies inside the channel's window -/
theorem C08_xor_in_window (M M' lo num v i : Nat) (h : WroteExactly M M' lo num v)
    (hi : ¬ (lo ≤ i ∧ i < lo + num)) : (M ^^^ M').testBit i = false := by
  rw [Nat.testBit_xor, h, if_neg hi]; simp

theorem C08_sset_wrote (fb M ptr first num v : Nat) (hW : first + num ≤ 8 * fb) (hv : v < 2 ^ num) :
    WroteExactly M (sSet fb M ptr first num v) (8 * ptr + first) num v :=
  fun i => C08_sset_bits fb M ptr first num v i hW hv

theorem C08_dset_wrote (fb M ptr first num v : Nat) (hW : first + num ≤ 8 * fb)
    (hv : v < 2 ^ num) (hs : first + num + 7 < 4294967296) :
    WroteExactly M (dSet fb M ptr first num v) (8 * ptr + first) num v :=
  fun i => C08_dset_bits fb M ptr first num v i hW hv hs

/-! ### pixels: channel `k` lives at `sum_k` -/

private theorem sumK_succ (l : List Nat) (k : Nat) (h : k < l.length) : sumK l (k + 1) = sumK l k + width l k := by
  unfold sumK width
  induction l generalizing k with
  | nil => simp at h
  | cons a t ih =>
    cases k with
    | zero => simp
    | succ k =>
      have := ih k (by simpa using h)
      simp only [List.take_succ_cons, List.foldr_cons, List.getD_cons_succ] at *
      omega

private theorem sumK_window_le (l : List Nat) (k : Nat) (h : k < l.length) : sumK l k + width l k ≤ bitSize l := by
  unfold sumK width bitSize
  induction l generalizing k with
  | nil => simp at h
  | cons a t ih =>
    cases k with
    | zero => simp
    | succ k =>
      have := ih k (by simpa using h)
      simp only [List.take_succ_cons, List.foldr_cons, List.getD_cons_succ] at *
      omega

private theorem sumK_lt (l : List Nat) (j k : Nat) (hjk : j < k) (hk : k ≤ l.length) : sumK l j + width l j ≤ sumK l k := by
  unfold sumK width
  induction l generalizing j k with
  | nil => simp at hk; omega
  | cons a t ih =>
    cases k with
    | zero => omega
    | succ k =>
      cases j with
      | zero => simp
      | succ j =>
        have := ih j k (by omega) (by simpa using hk)
        simp only [List.take_succ_cons, List.foldr_cons, List.getD_cons_succ] at *
        omega

/-- `sum_k`: the channels' windows tile the pixel: consecutive, inside `[0, bit_size)`, pairwise disjoint -/
theorem C08_sum_k (widths : List Nat) (j k : Nat) (hj : j < widths.length) (hk : k < widths.length) :
    sumK widths (k + 1) = sumK widths k + width widths k
    ∧ sumK widths k + width widths k ≤ bitSize widths
    ∧ (j ≠ k → sumK widths j + width widths j ≤ sumK widths k ∨ sumK widths k + width widths k ≤ sumK widths j) := by
  refine ⟨sumK_succ _ _ hk, sumK_window_le _ _ hk, fun hne => ?_⟩
  rcases Nat.lt_or_gt_of_ne hne with h | h
  · exact Or.inl (sumK_lt _ _ _ h (by omega))
  · exact Or.inr (sumK_lt _ _ _ h (by omega))

/-- sequential channel writes (`static_copy`, in any visiting order, repeats allowed): generic core -/
private theorem fold_assign (lo w : Nat → Nat) (wr : Nat → Nat → Nat → Nat) (Inv : Nat → Prop) (dom : Nat → Prop)
    (vals : Nat → Nat)
    (H : ∀ M k v, Inv M → dom k → v < 2 ^ w k → WroteExactly M (wr M k v) (lo k) (w k) v ∧ Inv (wr M k v))
    (D : ∀ j k, dom j → dom k → j ≠ k → lo j + w j ≤ lo k ∨ lo k + w k ≤ lo j) :
    ∀ (order : List Nat) (M : Nat), Inv M → (∀ k ∈ order, dom k ∧ vals k < 2 ^ w k) →
      Inv (order.foldl (fun M k => wr M k (vals k)) M)
      ∧ (∀ i, (∀ k ∈ order, ¬ (lo k ≤ i ∧ i < lo k + w k)) →
            (order.foldl (fun M k => wr M k (vals k)) M).testBit i = M.testBit i)
      ∧ (∀ k ∈ order, bitsAt (order.foldl (fun M k => wr M k (vals k)) M) (lo k) (w k) = vals k) := by
  intro order
  induction order with
  | nil => intro M hI _; exact ⟨hI, fun _ _ => rfl, fun k hk => by cases hk⟩
  | cons k ks ih =>
    intro M hI hall
    have hk := hall k (List.mem_cons_self ..)
    obtain ⟨hW, hI1⟩ := H M k (vals k) hI hk.1 hk.2
    obtain ⟨i1, i2, i3⟩ := ih (wr M k (vals k)) hI1 (fun k' hk' => hall k' (List.mem_cons_of_mem _ hk'))
    simp only [List.foldl_cons]
    refine ⟨i1, ?_, ?_⟩
    · intro i hout
      rw [i2 i (fun k' hk' => hout k' (List.mem_cons_of_mem _ hk')), hW i, if_neg (hout k (List.mem_cons_self ..))]
    · intro k' hk'
      by_cases hin : k' ∈ ks
      · exact i3 k' hin
      · have e : k' = k := by
          rcases List.mem_cons.mp hk' with h | h
          · exact h
          · exact absurd h hin
        subst e
        have : bitsAt (ks.foldl (fun M k => wr M k (vals k)) (wr M k' (vals k'))) (lo k') (w k') = bitsAt (wr M k' (vals k')) (lo k') (w k') := by
          apply Nat.eq_of_testBit_eq; intro i
          rw [tb_bitsAt, tb_bitsAt]
          by_cases hi : i < w k'
          · rw [i2]
            intro k'' hk''
            have hne : k'' ≠ k' := fun h => hin (h ▸ hk'')
            have := D k'' k' (hall k'' (List.mem_cons_of_mem _ hk'')).1 hk.1 hne
            omega
          · simp [hi]
        rw [this]
        exact C08_wrote_readback _ _ _ _ _ hW hk.2

/-- `packed_pixel`: writing channel `k` is a write of exactly the window `[sum_k, sum_k + width k)` of `_bitfield` -/
theorem C08_pp_set_wrote (W f : Nat) (widths : List Nat) (k v : Nat) (hk : k < widths.length)
    (hW : bitSize widths ≤ W) (hf : f < 2 ^ W) (hv : v < 2 ^ width widths k) :
    WroteExactly f (ppSet W f widths k v) (sumK widths k) (width widths k) v := by
  intro i
  unfold ppSet
  have hwin := sumK_window_le widths k hk
  rw [C08_set_bits _ _ _ _ _ _ (by omega) hv]
  by_cases hc : sumK widths k ≤ i ∧ i < sumK widths k + width widths k
  · rw [if_pos hc, if_pos hc]
  · rw [if_neg hc, if_neg hc]
    by_cases h : i < W
    · simp [h]
    · have := tb_high hf (Nat.le_of_not_lt h); simp [h, this]

theorem C08_pp_get (W f : Nat) (widths : List Nat) (k : Nat) (hk : k < widths.length)
    (hW : bitSize widths ≤ W) (hn : width widths k ≤ 64) :
    ppGet W f widths k = bitsAt f (sumK widths k) (width widths k) := by
  unfold ppGet bitsAt
  exact C08_get_closed _ _ _ _ (by have := sumK_window_le widths k hk; omega) hn

/-- `packed_pixel`, one channel written: that channel reads the value, every other channel reads as before,
    padding bits `[bit_size, W)` are unchanged -/
theorem C08_pp_set_get (W f : Nat) (widths : List Nat) (k j v : Nat) (hk : k < widths.length) (hj : j < widths.length)
    (hW : bitSize widths ≤ W) (hf : f < 2 ^ W) (hv : v < 2 ^ width widths k) (hn : ∀ c, width widths c ≤ 64) :
    ppGet W (ppSet W f widths k v) widths j = (if j = k then v else ppGet W f widths j)
    ∧ (∀ i, bitSize widths ≤ i → (ppSet W f widths k v).testBit i = f.testBit i) := by
  have hw := C08_pp_set_wrote W f widths k v hk hW hf hv
  refine ⟨?_, fun i hi => ?_⟩
  · rw [C08_pp_get _ _ _ _ hj hW (hn j)]
    by_cases hjk : j = k
    · subst hjk; rw [if_pos rfl]; exact C08_wrote_readback _ _ _ _ _ hw hv
    · rw [if_neg hjk, C08_pp_get _ _ _ _ hj hW (hn j)]
      exact C08_wrote_frame_slice _ _ _ _ _ _ _ hw ((C08_sum_k widths j k hj hk).2.2 hjk)
  · have := sumK_window_le widths k hk
    rw [hw i, if_neg (by omega)]

/-- whole-pixel assignment into a `packed_pixel` (any visiting order): every visited channel holds its value,
    everything outside the visited channels' windows (padding, unvisited channels) is unchanged -/
theorem C08_pixel_assign (W f : Nat) (widths : List Nat) (vals : Nat → Nat) (order : List Nat)
    (hW : bitSize widths ≤ W) (hf : f < 2 ^ W) (hn : ∀ c, width widths c ≤ 64)
    (hord : ∀ k ∈ order, k < widths.length ∧ vals k < 2 ^ width widths k) :
    (∀ k ∈ order, ppGet W (ppAssign W f widths vals order) widths k = vals k)
    ∧ (∀ i, (∀ k ∈ order, ¬ (sumK widths k ≤ i ∧ i < sumK widths k + width widths k)) →
          (ppAssign W f widths vals order).testBit i = f.testBit i)
    ∧ (∀ i, bitSize widths ≤ i → (ppAssign W f widths vals order).testBit i = f.testBit i) := by
  have core := fold_assign (sumK widths) (width widths) (fun M k v => ppSet W M widths k v) (fun M => M < 2 ^ W)
    (fun k => k < widths.length) vals
    (fun M k v hI hk hv => ⟨C08_pp_set_wrote W M widths k v hk hW hI hv, C08_set_lt _ _ _ _ _⟩)
    (fun j k hj hk hne => (C08_sum_k widths j k hj hk).2.2 hne) order f hf hord
  unfold ppAssign
  refine ⟨fun k hk => ?_, core.2.1, fun i hi => core.2.1 i (fun k hk => ?_)⟩
  · rw [C08_pp_get _ _ _ _ (hord k hk).1 hW (hn k)]; exact core.2.2 k hk
  · have := sumK_window_le widths k (hord k hk).1; omega

/-! ### bit cursor (generated from bit_aligned_pixel_reference.hpp) and the bit-aligned iterator -/

/-- `bit_advance`: the position (in bits) moves by exactly `n` and the offset is renormalised to 0..7, for EVERY `n`
    (since fix 30b4cc6 the sum is no longer narrowed to `int`) -/
theorem C08_adv_pos (byte off n : Int) :
    8 * (bit_advance byte off n).1 + (bit_advance byte off n).2 = 8 * byte + off + n
    ∧ 0 ≤ (bit_advance byte off n).2 ∧ (bit_advance byte off n).2 < 8 := by
  unfold bit_advance
  simp only []
  generalize hxe : off + n = x at *
  rcases Int.lt_or_le x 0 with hx | hx
  · obtain ⟨y, rfl⟩ : ∃ y, x = -y := ⟨-x, by omega⟩
    have hy : 0 ≤ y := by omega
    simp only [Int.neg_tdiv, Int.neg_tmod, Int.tdiv_eq_ediv_of_nonneg hy, Int.tmod_eq_emod_of_nonneg hy]
    split <;> simp only [] <;> omega
  · simp only [Int.tdiv_eq_ediv_of_nonneg hx, Int.tmod_eq_emod_of_nonneg hx]
    split <;> simp only [] <;> omega

/-- advancing by `n` and then by `-n` returns to the same byte and bit offset, from any byte, any offset 0..7, any `n` -/
theorem C08_iter_roundtrip (byte off n : Int) (h0 : 0 ≤ off) (h7 : off < 8) :
    bit_advance (bit_advance byte off n).1 (bit_advance byte off n).2 (-n) = (byte, off) := by
  obtain ⟨p1, l1, u1⟩ := C08_adv_pos byte off n
  generalize bit_advance byte off n = r at *
  obtain ⟨p2, l2, u2⟩ := C08_adv_pos r.1 r.2 (-n)
  generalize bit_advance r.1 r.2 (-n) = q at *
  obtain ⟨q1, q2⟩ := q
  simp only [] at *
  congr 1 <;> omega

/-- `operator++` (its own formula in the header) agrees with `bit_advance(RangeSize)` -/
theorem C08_inc_eq_adv (byte off rs : Int) (h0 : 0 ≤ off) (hrs : 0 ≤ rs) :
    bit_inc byte off rs = bit_advance byte off rs := by
  unfold bit_inc bit_advance
  simp only []
  have hx : 0 ≤ off + rs := by omega
  generalize off + rs = x at *
  simp only [Int.tdiv_eq_ediv_of_nonneg hx, Int.tmod_eq_emod_of_nonneg hx]
  split <;> simp only [] <;> first | omega | (ext <;> simp <;> omega)

/-- `bit_distance_to` is the difference of the two bit positions -/
theorem C08_bit_distance (ab ao bb bo : Int) : bit_distance_to ab ao bb bo = (8 * bb + bo) - (8 * ab + ao) := by
  unfold bit_distance_to; omega

/-- iterator: `it + d` is `d` pixels away (`distance_to` returns `d`), it sits `d * bit_size` bits further,
    and `(it + d) - d = it`; for every pixel size, every `d`, from any byte and bit offset 0..7 -/
theorem C08_iter_distance (bs : Nat) (c : Cur) (d : Int) (hbs : 0 < bs) (h0 : 0 ≤ c.off) (h7 : c.off < 8) :
    itDistance bs c (itAdvance bs c d) = d
    ∧ (itAdvance bs c d).pos = c.pos + d * bs
    ∧ itAdvance bs (itAdvance bs c d) (-d) = c := by
  obtain ⟨p1, l1, u1⟩ := C08_adv_pos c.byte c.off (d * bs)
  have hrt := C08_iter_roundtrip c.byte c.off (d * bs) h0 h7
  refine ⟨?_, ?_, ?_⟩
  · unfold itDistance Cur.dist itAdvance Cur.adv
    simp only []
    rw [C08_bit_distance]
    have : 8 * (bit_advance c.byte c.off (d * ↑bs)).fst + (bit_advance c.byte c.off (d * ↑bs)).snd - (8 * c.byte + c.off) = d * bs := by omega
    rw [this]
    exact Int.mul_tdiv_cancel d (by omega)
  · unfold itAdvance Cur.adv Cur.pos; simp only []; omega
  · unfold itAdvance Cur.adv
    simp only []
    have e : -d * (bs : Int) = -(d * bs) := Int.neg_mul d bs
    rw [e, hrt]

/-- `--it` undoes `++it` and both move by one pixel -/
theorem C08_iter_inc_dec (bs : Nat) (c : Cur) (h0 : 0 ≤ c.off) (h7 : c.off < 8) :
    (itInc bs c).pos = c.pos + bs ∧ itDec bs (itInc bs c) = c := by
  have hinc : itInc bs c = c.adv bs := by
    unfold itInc Cur.inc Cur.adv
    rw [C08_inc_eq_adv c.byte c.off bs h0 (by omega)]
  obtain ⟨p1, l1, u1⟩ := C08_adv_pos c.byte c.off bs
  have hrt := C08_iter_roundtrip c.byte c.off bs h0 h7
  rw [hinc]
  refine ⟨?_, ?_⟩
  · unfold Cur.adv Cur.pos; simp only []; omega
  · unfold itDec Cur.adv; simp only []; rw [hrt]

/-! ### bit-aligned pixel reference: channel `k` at cursor + `sum_k` -/

private theorem chan_pos (c : Cur) (widths : List Nat) (k : Nat) (hb : 0 ≤ c.byte) (h0 : 0 ≤ c.off) (h7 : c.off < 8) :
    8 * (baChan c widths k).byte.toNat + (baChan c widths k).off.toNat = c.pos.toNat + sumK widths k
    ∧ (baChan c widths k).off.toNat ≤ 7 := by
  obtain ⟨p1, l1, u1⟩ := C08_adv_pos c.byte c.off (sumK widths k)
  unfold baChan Cur.adv Cur.pos
  simp only []
  generalize bit_advance c.byte c.off (sumK widths k) = r at *
  omega

/-- `at_c<k>(ref) = v` on a bit-aligned pixel reference at any byte and bit offset: exactly the bits
    `[pos + sum_k, pos + sum_k + width k)` of the buffer change, and they hold `v` afterwards -/
theorem C08_ba_set_wrote (fb M : Nat) (c : Cur) (widths : List Nat) (k v : Nat)
    (hb : 0 ≤ c.byte) (h0 : 0 ≤ c.off) (h7 : c.off < 8) (hk : k < widths.length)
    (hfield : bitSize widths + 7 ≤ 8 * fb)
    (hw : width widths k ≤ 64) (hv : v < 2 ^ width widths k) :
    WroteExactly M (baSet fb M c widths k v) (c.pos.toNat + sumK widths k) (width widths k) v := by
  have hwin := sumK_window_le widths k hk
  obtain ⟨hp, ho⟩ := chan_pos c widths k hb h0 h7
  unfold baSet
  simp only []
  rw [← hp]
  exact C08_dset_wrote fb M _ _ _ v (by omega) hv (by omega)

/-- the same for ANY carrier -- in particular a TIGHT user-chosen bit field exactly as wide as the pixel -- at every
    position where the channel, at its own normalised first bit, fits the bit field -/
theorem C08_ba_set_wrote_tight (fb M : Nat) (c : Cur) (widths : List Nat) (k v : Nat)
    (hb : 0 ≤ c.byte) (h0 : 0 ≤ c.off) (h7 : c.off < 8) (hk : k < widths.length)
    (hfit : (baChan c widths k).off.toNat + width widths k ≤ 8 * fb)
    (hw : width widths k ≤ 64) (hv : v < 2 ^ width widths k) :
    WroteExactly M (baSet fb M c widths k v) (c.pos.toNat + sumK widths k) (width widths k) v
    ∧ baGet fb (baSet fb M c widths k v) c widths k = v := by
  obtain ⟨hp, ho⟩ := chan_pos c widths k hb h0 h7
  have hwrote : WroteExactly M (baSet fb M c widths k v) (c.pos.toNat + sumK widths k) (width widths k) v := by
    unfold baSet
    simp only []
    rw [← hp]
    exact C08_dset_wrote fb M _ _ _ v hfit hv (by omega)
  refine ⟨hwrote, ?_⟩
  have hget : ∀ M', baGet fb M' c widths k = bitsAt M' (c.pos.toNat + sumK widths k) (width widths k) := by
    intro M'
    unfold baGet
    simp only []
    rw [← hp]
    exact C08_dget fb M' _ _ _ hfit hw (by omega)
  rw [hget]; exact C08_wrote_readback _ _ _ _ _ hwrote hv

theorem C08_ba_get (fb M : Nat) (c : Cur) (widths : List Nat) (k : Nat)
    (hb : 0 ≤ c.byte) (h0 : 0 ≤ c.off) (h7 : c.off < 8) (hk : k < widths.length)
    (hfield : bitSize widths + 7 ≤ 8 * fb) (hw : width widths k ≤ 64) :
    baGet fb M c widths k = bitsAt M (c.pos.toNat + sumK widths k) (width widths k) := by
  have hwin := sumK_window_le widths k hk
  obtain ⟨hp, ho⟩ := chan_pos c widths k hb h0 h7
  unfold baGet
  simp only []
  rw [← hp]
  exact C08_dget fb M _ _ _ (by omega) hw (by omega)

/-- whole-pixel assignment through a bit-aligned reference (any visiting order): every visited channel
    holds its value; every bit outside the visited windows -- in particular every bit outside
    `[pos, pos + bit_size)`: the neighbouring pixels and the rest of the buffer -- is unchanged -/
theorem C08_ba_assign (fb M : Nat) (c : Cur) (widths : List Nat) (vals : Nat → Nat) (order : List Nat)
    (hb : 0 ≤ c.byte) (h0 : 0 ≤ c.off) (h7 : c.off < 8)
    (hfield : bitSize widths + 7 ≤ 8 * fb) (hw : ∀ k, width widths k ≤ 64)
    (hord : ∀ k ∈ order, k < widths.length ∧ vals k < 2 ^ width widths k) :
    (∀ k ∈ order, baGet fb (baAssign fb M c widths vals order) c widths k = vals k)
    ∧ (∀ i, (∀ k ∈ order, ¬ (c.pos.toNat + sumK widths k ≤ i ∧ i < c.pos.toNat + sumK widths k + width widths k)) →
          (baAssign fb M c widths vals order).testBit i = M.testBit i)
    ∧ (∀ i, (i < c.pos.toNat ∨ c.pos.toNat + bitSize widths ≤ i) →
          (baAssign fb M c widths vals order).testBit i = M.testBit i) := by
  have core := fold_assign (fun k => c.pos.toNat + sumK widths k) (width widths) (fun M k v => baSet fb M c widths k v)
    (fun _ => True) (fun k => k < widths.length) vals
    (fun M k v _ hk hv => ⟨C08_ba_set_wrote fb M c widths k v hb h0 h7 hk hfield (hw k) hv, trivial⟩)
    (fun j k hj hk hne => by have := (C08_sum_k widths j k hj hk).2.2 hne; omega) order M trivial hord
  unfold baAssign
  refine ⟨fun k hk => ?_, core.2.1, fun i hi => core.2.1 i (fun k hk => ?_)⟩
  · rw [C08_ba_get fb _ c widths k hb h0 h7 (hord k hk).1 hfield (hw k)]; exact core.2.2 k hk
  · have := sumK_window_le widths k (hord k hk).1; omega

/-! ### copy, swap and runs through bit-aligned references -/

private theorem bitsAt_lt (M lo num : Nat) : bitsAt M lo num < 2 ^ num := by
  unfold bitsAt; exact Nat.mod_lt _ (Nat.two_pow_pos num)

private theorem ba_get' (fb M : Nat) (c : Cur) (widths : List Nat) (k : Nat) (h : RefOK fb c widths) (hk : k < widths.length) :
    baGet fb M c widths k = bitsAt M (c.pos.toNat + sumK widths k) (width widths k) :=
  C08_ba_get fb M c widths k h.byte h.off0 h.off7 hk h.field (h.w64 k)

private theorem ba_set' (fb M : Nat) (c : Cur) (widths : List Nat) (k v : Nat) (h : RefOK fb c widths) (hk : k < widths.length)
    (hv : v < 2 ^ width widths k) :
    WroteExactly M (baSet fb M c widths k v) (c.pos.toNat + sumK widths k) (width widths k) v :=
  C08_ba_set_wrote fb M c widths k v h.byte h.off0 h.off7 hk h.field (h.w64 k) hv

/-- reading the source while writing the destination: as long as the two pixels do not overlap, `refA = refB`
    is the assignment of B's (initial) channel values -/
private theorem copy_eq_assign (fb : Nat) (a b : Cur) (widths : List Nat) (vals : Nat → Nat)
    (ha : RefOK fb a widths) (hb : RefOK fb b widths)
    (hdis : a.pos.toNat + bitSize widths ≤ b.pos.toNat ∨ b.pos.toNat + bitSize widths ≤ a.pos.toNat) :
    ∀ (order : List Nat) (M : Nat), (∀ k ∈ order, k < widths.length) → (∀ k, k < widths.length → baGet fb M b widths k = vals k) →
      order.foldl (fun M k => baSet fb M a widths k (baGet fb M b widths k)) M
        = order.foldl (fun M k => baSet fb M a widths k (vals k)) M := by
  intro order
  induction order with
  | nil => intros; rfl
  | cons k ks ih =>
    intro M hord hinv
    simp only [List.foldl_cons]
    have hk := hord k (List.mem_cons_self ..)
    rw [hinv k hk]
    apply ih _ (fun k' hk' => hord k' (List.mem_cons_of_mem _ hk'))
    intro k' hk'
    have hv : vals k < 2 ^ width widths k := by rw [← hinv k hk, ba_get' fb M b widths k hb hk]; exact bitsAt_lt _ _ _
    rw [ba_get' fb _ b widths k' hb hk', ← hinv k' hk', ba_get' fb M b widths k' hb hk']
    have w1 := sumK_window_le widths k hk
    have w2 := sumK_window_le widths k' hk'
    exact C08_wrote_frame_slice _ _ _ _ _ _ _ (ba_set' fb M a widths k (vals k) ha hk hv) (by omega)

/-- `refA = refB` (two non-overlapping bit-aligned pixels of one type, e.g. neighbours): every channel of A
    holds B's value, and nothing outside pixel A changes -/
theorem C08_ba_copy (fb M : Nat) (a b : Cur) (widths : List Nat) (order : List Nat)
    (ha : RefOK fb a widths) (hb : RefOK fb b widths)
    (hdis : a.pos.toNat + bitSize widths ≤ b.pos.toNat ∨ b.pos.toNat + bitSize widths ≤ a.pos.toNat)
    (hord : ∀ k ∈ order, k < widths.length) :
    (∀ k ∈ order, baGet fb (baCopy fb M a b widths order) a widths k = baGet fb M b widths k)
    ∧ (∀ i, (i < a.pos.toNat ∨ a.pos.toNat + bitSize widths ≤ i) → (baCopy fb M a b widths order).testBit i = M.testBit i) := by
  have e : baCopy fb M a b widths order = baAssign fb M a widths (fun k => baGet fb M b widths k) order := by
    unfold baCopy baAssign
    exact copy_eq_assign fb a b widths _ ha hb hdis order M hord (fun _ _ => rfl)
  have hv : ∀ k ∈ order, k < widths.length ∧ baGet fb M b widths k < 2 ^ width widths k := fun k hk =>
    ⟨hord k hk, by rw [ba_get' fb M b widths k hb (hord k hk)]; exact bitsAt_lt _ _ _⟩
  have := C08_ba_assign fb M a widths (fun k => baGet fb M b widths k) order ha.byte ha.off0 ha.off7 ha.field ha.w64 hv
  rw [e]; exact ⟨this.1, this.2.2⟩

/-- `swap(refA, refB)` (`swap_proxy`) of two non-overlapping bit-aligned pixels: the channel values are
    exchanged and nothing outside the two pixels changes -/
theorem C08_swap (fb M : Nat) (a b : Cur) (widths : List Nat) (order : List Nat)
    (ha : RefOK fb a widths) (hb : RefOK fb b widths)
    (hdis : a.pos.toNat + bitSize widths ≤ b.pos.toNat ∨ b.pos.toNat + bitSize widths ≤ a.pos.toNat)
    (hord : ∀ k ∈ order, k < widths.length) :
    (∀ k ∈ order, baGet fb (baSwap fb M a b widths order) a widths k = baGet fb M b widths k
                 ∧ baGet fb (baSwap fb M a b widths order) b widths k = baGet fb M a widths k)
    ∧ (∀ i, (i < a.pos.toNat ∨ a.pos.toNat + bitSize widths ≤ i) → (i < b.pos.toNat ∨ b.pos.toNat + bitSize widths ≤ i) →
          (baSwap fb M a b widths order).testBit i = M.testBit i) := by
  obtain ⟨c1, c2⟩ := C08_ba_copy fb M a b widths order ha hb hdis hord
  have hva : ∀ k ∈ order, k < widths.length ∧ baGet fb M a widths k < 2 ^ width widths k := fun k hk =>
    ⟨hord k hk, by rw [ba_get' fb M a widths k ha (hord k hk)]; exact bitsAt_lt _ _ _⟩
  have hsw : baSwap fb M a b widths order
      = baAssign fb (baCopy fb M a b widths order) b widths (fun k => baGet fb M a widths k) order := by
    unfold baSwap baCopy; rfl
  obtain ⟨s1, _, s3⟩ := C08_ba_assign fb (baCopy fb M a b widths order) b widths (fun k => baGet fb M a widths k) order
    hb.byte hb.off0 hb.off7 hb.field hb.w64 hva
  rw [hsw]
  refine ⟨fun k hk => ⟨?_, s1 k hk⟩, fun i hia hib => by rw [s3 i hib, c2 i hia]⟩
  -- A's channel after the second assignment = A's channel after the copy (B's windows are disjoint from A's)
  have hk' := hord k hk
  rw [ba_get' fb _ a widths k ha hk', ← c1 k hk, ba_get' fb _ a widths k ha hk']
  apply Nat.eq_of_testBit_eq; intro i
  rw [tb_bitsAt, tb_bitsAt]
  by_cases hi : i < width widths k
  · have w1 := sumK_window_le widths k hk'
    rw [s3 _ (by omega)]
  · simp [hi]

/-- `std::fill` / `std::copy` from values through a bit-aligned iterator: pixel `j` of the run holds `ps[j]`,
    nothing outside `[pos, pos + count * bit_size)` changes -/
theorem C08_write_run (fb : Nat) (widths : List Nat) (order : List Nat) (hfield : bitSize widths + 7 ≤ 8 * fb)
    (hw : ∀ k, width widths k ≤ 64) (hord : ∀ k ∈ order, k < widths.length) :
    ∀ (ps : List (Nat → Nat)) (M : Nat) (c : Cur), 0 ≤ c.byte → 0 ≤ c.off → c.off < 8 →
      (∀ p ∈ ps, ∀ k ∈ order, p k < 2 ^ width widths k) →
      (∀ j (hj : j < ps.length), ∀ k ∈ order,
          bitsAt (baWriteRun fb M c widths order ps) (c.pos.toNat + j * bitSize widths + sumK widths k) (width widths k) = ps[j] k)
      ∧ (∀ i, (i < c.pos.toNat ∨ c.pos.toNat + ps.length * bitSize widths ≤ i) →
          (baWriteRun fb M c widths order ps).testBit i = M.testBit i) := by
  intro ps
  induction ps with
  | nil => intro M c _ _ _ _; exact ⟨fun j hj => by simp at hj, fun _ _ => rfl⟩
  | cons p ps ih =>
    intro M c hb h0 h7 hvals
    have hp : ∀ k ∈ order, k < widths.length ∧ p k < 2 ^ width widths k := fun k hk => ⟨hord k hk, hvals p (List.mem_cons_self ..) k hk⟩
    obtain ⟨a1, _, a3⟩ := C08_ba_assign fb M c widths p order hb h0 h7 hfield hw hp
    obtain ⟨ipos, _⟩ := C08_iter_inc_dec (bitSize widths) c h0 h7
    have hinc : itInc (bitSize widths) c = c.adv (bitSize widths) := by
      unfold itInc Cur.inc Cur.adv
      rw [C08_inc_eq_adv c.byte c.off (bitSize widths) h0 (by omega)]
    obtain ⟨p1, l1, u1⟩ := C08_adv_pos c.byte c.off (bitSize widths)
    have hb' : 0 ≤ (itInc (bitSize widths) c).byte := by rw [hinc]; unfold Cur.adv; simp only []; omega
    have h0' : 0 ≤ (itInc (bitSize widths) c).off := by rw [hinc]; unfold Cur.adv; simp only []; exact l1
    have h7' : (itInc (bitSize widths) c).off < 8 := by rw [hinc]; unfold Cur.adv; simp only []; exact u1
    have hpos' : (itInc (bitSize widths) c).pos.toNat = c.pos.toNat + bitSize widths := by
      have : 0 ≤ c.pos := by unfold Cur.pos; omega
      omega
    obtain ⟨r1, r2⟩ := ih (baAssign fb M c widths p order) (itInc (bitSize widths) c) hb' h0' h7'
      (fun q hq => hvals q (List.mem_cons_of_mem _ hq))
    show _ ∧ _
    simp only [baWriteRun, List.length_cons]
    rw [hpos'] at r1 r2
    refine ⟨fun j hj k hk => ?_, fun i hi => ?_⟩
    · cases j with
      | zero =>
        -- the first pixel: written by the assignment, not disturbed by the rest of the run
        have hk' := hord k hk
        have w1 := sumK_window_le widths k hk'
        simp only [Nat.zero_mul, Nat.add_zero, List.getElem_cons_zero]
        rw [← a1 k hk, C08_ba_get fb _ c widths k hb h0 h7 hk' hfield (hw k)]
        apply Nat.eq_of_testBit_eq; intro i
        rw [tb_bitsAt, tb_bitsAt]
        by_cases hi : i < width widths k
        · rw [r2 _ (by omega)]
        · simp [hi]
      | succ j =>
        have := r1 j (by simpa using hj) k hk
        simp only [List.getElem_cons_succ]
        have e : c.pos.toNat + (j + 1) * bitSize widths = c.pos.toNat + bitSize widths + j * bitSize widths := by
          rw [Nat.add_mul]; omega
        rw [e]; exact this
    · have e : (ps.length + 1) * bitSize widths = bitSize widths + ps.length * bitSize widths := by rw [Nat.add_mul]; omega
      rw [r2 i (by omega), a3 i (by omega)]

/-! ### proxy arithmetic and the value type -/

private theorem emod_chain (x : Int) (a b : Nat) (h : a ≤ b) : x % (2:Int) ^ b % (2:Int) ^ a = x % (2:Int) ^ a :=
  Int.emod_emod_of_dvd x ⟨(2:Int) ^ (b - a), by rw [← Int.pow_add]; congr 1; omega⟩

private theorem toNat_emod_cast (x : Int) (n : Nat) : (((x % (2:Int) ^ n).toNat : Nat) : Int) = x % (2:Int) ^ n := by
  have hp : (0:Int) < 2 ^ n := Int.pow_pos (by decide)
  exact Int.toNat_of_nonneg (Int.emod_nonneg _ (Int.ne_of_gt hp))

/-- `packed_channel_reference_base::set`: the stored value is the argument modulo `2^num` (and so in range) -/
theorem C08_setArg (num : Nat) (value : Int) (hn : num ≤ 64) :
    setArg num value = (value % 2 ^ num).toNat ∧ setArg num value < 2 ^ num := by
  refine ⟨?_, by unfold setArg; exact Nat.mod_lt _ (Nat.two_pow_pos num)⟩
  unfold setArg
  simp only []
  apply Int.ofNat.inj
  show ((((value % 2 ^ carrierBits num).toNat % 2 ^ num + 2 ^ num) % 2 ^ num : Nat) : Int) = ((value % 2 ^ num).toNat : Int)
  rw [toNat_emod_cast]
  push_cast
  rw [toNat_emod_cast, Int.add_emod_right, Int.emod_emod, emod_chain _ _ _ (carrier_ge num hn)]

/-- `++ -- += -= *=` on a channel proxy store the mathematical result modulo `2^num`, for every width and operand -/
theorem C08_proxy_arith (num : Nat) (op : Arith) (old : Nat) (v : Int) (hn : num ≤ 64) (hop : op ≠ .div) :
    setArg num (arithResult num op old v) = (arithSpec op old v % 2 ^ num).toNat := by
  rw [(C08_setArg num _ hn).1]
  congr 1
  have hP : num ≤ promotedBits num := by unfold promotedBits; split <;> omega
  unfold arithResult arithSpec
  cases op <;> simp only [] <;> first | (exact absurd rfl hop) | (split <;> first | rfl | exact emod_chain _ _ _ hP)

/-- `/=` by a positive operand stores the truncated quotient (channels up to 16 bits: computed in `int`) -/
theorem C08_proxy_div (num old : Nat) (v : Int) (hn : num ≤ 16) (hold : old < 2 ^ num) (hv : 0 < v) :
    setArg num (arithResult num .div old v) = old / v.toNat := by
  rw [(C08_setArg num _ (by omega)).1]
  unfold arithResult
  simp only [hn, if_true]
  obtain ⟨w, rfl⟩ : ∃ w : Nat, v = w := ⟨v.toNat, (Int.toNat_of_nonneg (by omega)).symm⟩
  have hw : 0 < w := by omega
  rw [Int.tdiv_eq_ediv_of_nonneg (by omega), Int.toNat_natCast]
  have hq : old / w < 2 ^ num := Nat.lt_of_le_of_lt (Nat.div_le_self _ _) hold
  have : ((old : Int) / (w : Int)) % 2 ^ num = ((old / w : Nat) : Int) := by
    rw [← Int.natCast_ediv]
    have : ((2:Int) ^ num) = ((2 ^ num : Nat) : Int) := by push_cast; rfl
    rw [this, ← Int.natCast_emod, Nat.mod_eq_of_lt hq]
  rw [this, Int.toNat_natCast]

/-- `packed_channel_value<num>(v)` masks: the stored value is `v mod 2^num` -/
theorem C08_value_mask (num : Nat) (v : Int) (hn : num ≤ 64) :
    valueMask num v = (v % 2 ^ num).toNat ∧ valueMask num v < 2 ^ num := by
  have e : valueMask num v = (v % 2 ^ num).toNat := by
    unfold valueMask
    rw [Nat.and_two_pow_sub_one_eq_mod]
    apply Int.ofNat.inj
    show ((((v % 2 ^ carrierBits num).toNat % 2 ^ num : Nat)) : Int) = ((v % 2 ^ num).toNat : Int)
    rw [toNat_emod_cast]; push_cast
    rw [toNat_emod_cast, emod_chain _ _ _ (carrier_ge num hn)]
  refine ⟨e, ?_⟩
  unfold valueMask; rw [Nat.and_two_pow_sub_one_eq_mod]; exact Nat.mod_lt _ (Nat.two_pow_pos num)

/-! ### the read-modify-write expressions of channel.hpp, re-translated on every run, EQUAL the hand model

  Instantiations whose arithmetic is unsigned from end to end (`uint32_t` field with an 8-bit `integer_t`,
  `uint64_t` field with a 32-bit `integer_t`).  For every field content, value, first bit and width. -/

private theorem cast_shl32 (a first : Nat) : (a : Int) * 2 ^ first % 4294967296 = ((a * 2 ^ first % 2 ^ 32 : Nat) : Int) := by
  rw [Int.natCast_emod, Int.natCast_mul, Int.natCast_pow]; rfl
private theorem cast_shl64 (a first : Nat) : (a : Int) * 2 ^ first % 18446744073709551616 = ((a * 2 ^ first % 2 ^ 64 : Nat) : Int) := by
  rw [Int.natCast_emod, Int.natCast_mul, Int.natCast_pow]; rfl
private theorem compl32 (m : Nat) (hm : m < 4294967296) : ((-(m : Int) - 1) % 4294967296).toNat = 4294967296 - (m + 1) := by omega
private theorem compl64 (m : Nat) (hm : m < 18446744073709551616) :
    ((-(m : Int) - 1) % 18446744073709551616).toNat = 18446744073709551616 - (m + 1) := by omega
private theorem tb_compl32 (m i : Nat) (hm : m < 4294967296) : (4294967296 - (m + 1)).testBit i = (decide (i < 32) && !m.testBit i) :=
  Nat.testBit_two_pow_sub_succ (n := 32) hm i
private theorem tb_compl64 (m i : Nat) (hm : m < 18446744073709551616) :
    (18446744073709551616 - (m + 1)).testBit i = (decide (i < 64) && !m.testBit i) :=
  Nat.testBit_two_pow_sub_succ (n := 64) hm i
private theorem cast_div_mod (a first c : Nat) : ((a : Int) / 2 ^ first) % ((c : Nat) : Int) = ((a / 2 ^ first % c : Nat) : Int) := by
  rw [Int.natCast_emod, Int.natCast_ediv, Int.natCast_pow]; rfl

-- The proofs below are form-independent: casts are normalised by `simp`, then every statement is reduced to a Boolean
-- identity per bit, so reordering the operands of `&` / `|` or naming a temporary in the header does not disturb them.

/-- `packed_dynamic_channel_reference<uint32_t,num,true>::set_unsafe` (generated) is the model's `setD 32` -/
theorem C08_gen_dyn_set_u32 (f v first num : Nat) :
    dyn_set_u32 f v first ((2 ^ num - 1 : Nat) : Int) = ((setD 32 f first num v : Nat) : Int) := by
  unfold dyn_set_u32 setD setWith dynMask notW
  simp only [Int.toNat_natCast, Nat.shiftLeft_eq, cast_shl32]
  have hm : (2 ^ num - 1) * 2 ^ first % 2 ^ 32 < 4294967296 := Nat.mod_lt _ (by decide)
  generalize (2 ^ num - 1) * 2 ^ first % 2 ^ 32 = m at *
  simp only [Int.toNat_natCast, Int.ofNat_eq_natCast, compl32 m hm, Nat.lor_eq, Nat.land_eq]
  congr 1
  apply Nat.eq_of_testBit_eq; intro i
  have h32 : (2:Nat) ^ 32 - (m + 1) = 4294967296 - (m + 1) := rfl
  simp only [Nat.testBit_or, Nat.testBit_and, Nat.testBit_mod_two_pow, tb_compl32 m i hm, h32]
  cases f.testBit i <;> cases m.testBit i <;> cases (v * 2 ^ first).testBit i <;> cases decide (i < 32) <;> rfl

theorem C08_gen_dyn_set_u64 (f v first num : Nat) :
    dyn_set_u64 f v first ((2 ^ num - 1 : Nat) : Int) = ((setD 64 f first num v : Nat) : Int) := by
  unfold dyn_set_u64 setD setWith dynMask notW
  simp only [Int.toNat_natCast, Nat.shiftLeft_eq, cast_shl64]
  have hm : (2 ^ num - 1) * 2 ^ first % 2 ^ 64 < 18446744073709551616 := Nat.mod_lt _ (by decide)
  generalize (2 ^ num - 1) * 2 ^ first % 2 ^ 64 = m at *
  simp only [Int.toNat_natCast, Int.ofNat_eq_natCast, compl64 m hm, Nat.lor_eq, Nat.land_eq]
  congr 1
  apply Nat.eq_of_testBit_eq; intro i
  have h64 : (2:Nat) ^ 64 - (m + 1) = 18446744073709551616 - (m + 1) := rfl
  simp only [Nat.testBit_or, Nat.testBit_and, Nat.testBit_mod_two_pow, tb_compl64 m i hm, h64]
  cases f.testBit i <;> cases m.testBit i <;> cases (v * 2 ^ first).testBit i <;> cases decide (i < 64) <;> rfl

/-- both `get()` specialisations of the run-time first-bit reference are the model's `getD` (channels up to 8 bits in a
    `uint32_t` field; 17..32 bits in a `uint64_t` field) -/
theorem C08_gen_dyn_get_u32 (f first num : Nat) (h8 : num ≤ 8) :
    dyn_get_u32 f first ((2 ^ num - 1 : Nat) : Int) = ((getD 32 f first num : Nat) : Int)
    ∧ dyn_get_const_u32 f first ((2 ^ num - 1 : Nat) : Int) = ((getD 32 f first num : Nat) : Int) := by
  have hc : carrierBits num = 8 := by unfold carrierBits; simp [h8]
  have h256 : (256 : Int) = ((256 : Nat) : Int) := rfl
  unfold dyn_get_u32 dyn_get_const_u32 getD getWith dynMask
  refine ⟨?_, ?_⟩ <;>
    simp only [Int.toNat_natCast, Nat.shiftLeft_eq, Nat.shiftRight_eq_div_pow, hc, cast_shl32, Int.ofNat_eq_natCast,
      Nat.land_eq, h256, cast_div_mod] <;>
    (congr 1; apply Nat.eq_of_testBit_eq; intro i
     simp only [Nat.testBit_mod_two_pow, Nat.testBit_div_two_pow, Nat.testBit_and, show (256 : Nat) = 2 ^ 8 from rfl, Bool.and_comm] <;> rfl)

theorem C08_gen_dyn_get_u64 (f first num : Nat) (h17 : 17 ≤ num) (h32 : num ≤ 32) :
    dyn_get_u64 f first ((2 ^ num - 1 : Nat) : Int) = ((getD 64 f first num : Nat) : Int)
    ∧ dyn_get_const_u64 f first ((2 ^ num - 1 : Nat) : Int) = ((getD 64 f first num : Nat) : Int) := by
  have hc : carrierBits num = 32 := by
    unfold carrierBits
    have a : ¬ num ≤ 8 := by omega
    have b : ¬ num ≤ 16 := by omega
    simp [a, b, h32]
  have hP : (4294967296 : Int) = ((4294967296 : Nat) : Int) := rfl
  unfold dyn_get_u64 dyn_get_const_u64 getD getWith dynMask
  refine ⟨?_, ?_⟩ <;>
    simp only [Int.toNat_natCast, Nat.shiftLeft_eq, Nat.shiftRight_eq_div_pow, hc, cast_shl64, Int.ofNat_eq_natCast,
      Nat.land_eq, hP, cast_div_mod] <;>
    (congr 1; apply Nat.eq_of_testBit_eq; intro i
     simp only [Nat.testBit_mod_two_pow, Nat.testBit_div_two_pow, Nat.testBit_and, show (4294967296 : Nat) = 2 ^ 32 from rfl, Bool.and_comm] <;> rfl)

/-- `packed_channel_reference<uint32_t,first,num,_>`: `channel_mask` (both specialisations), `set_unsafe`, `get` (both) -/
theorem C08_gen_static_u32 (f v first num : Nat) (h8 : num ≤ 8) :
    stat_mask_u32 ((2 ^ num - 1 : Nat) : Int) first = ((chanMask 32 first num : Nat) : Int)
    ∧ stat_mask_const_u32 ((2 ^ num - 1 : Nat) : Int) first = ((chanMask 32 first num : Nat) : Int)
    ∧ stat_set_u32 f v first ((chanMask 32 first num : Nat) : Int) = ((setF 32 f first num v : Nat) : Int)
    ∧ stat_get_u32 f first ((chanMask 32 first num : Nat) : Int) = ((getF 32 f first num : Nat) : Int)
    ∧ stat_get_const_u32 f first ((chanMask 32 first num : Nat) : Int) = ((getF 32 f first num : Nat) : Int) := by
  have hc : carrierBits num = 8 := by unfold carrierBits; simp [h8]
  have h256 : (256 : Int) = ((256 : Nat) : Int) := rfl
  refine ⟨?_, ?_, ?_, ?_, ?_⟩
  · unfold stat_mask_u32 chanMask; simp only [Int.toNat_natCast, Nat.shiftLeft_eq, cast_shl32]
  · unfold stat_mask_const_u32 chanMask; simp only [Int.toNat_natCast, Nat.shiftLeft_eq, cast_shl32]
  · unfold stat_set_u32 setF setWith notW
    have hm : chanMask 32 first num < 4294967296 := by unfold chanMask; exact Nat.mod_lt _ (by decide)
    generalize chanMask 32 first num = m at *
    simp only [Int.toNat_natCast, Nat.shiftLeft_eq, cast_shl32, Int.ofNat_eq_natCast, compl32 m hm, Nat.lor_eq, Nat.land_eq]
    congr 1
    apply Nat.eq_of_testBit_eq; intro i
    have h32 : (2:Nat) ^ 32 - (m + 1) = 4294967296 - (m + 1) := rfl
    simp only [Nat.testBit_or, Nat.testBit_and, Nat.testBit_mod_two_pow, tb_compl32 m i hm, h32]
    cases f.testBit i <;> cases m.testBit i <;> cases (v * 2 ^ first).testBit i <;> cases decide (i < 32) <;> rfl
  · unfold stat_get_u32 getF getWith
    simp only [Int.toNat_natCast, Nat.shiftRight_eq_div_pow, hc, Int.ofNat_eq_natCast, Nat.land_eq, h256, cast_div_mod] <;>
      (congr 1; apply Nat.eq_of_testBit_eq; intro i
       simp only [Nat.testBit_mod_two_pow, Nat.testBit_div_two_pow, Nat.testBit_and, show (256 : Nat) = 2 ^ 8 from rfl, Bool.and_comm] <;> rfl)
  · unfold stat_get_const_u32 getF getWith
    simp only [Int.toNat_natCast, Nat.shiftRight_eq_div_pow, hc, Int.ofNat_eq_natCast, Nat.land_eq, h256, cast_div_mod] <;>
      (congr 1; apply Nat.eq_of_testBit_eq; intro i
       simp only [Nat.testBit_mod_two_pow, Nat.testBit_div_two_pow, Nat.testBit_and, show (256 : Nat) = 2 ^ 8 from rfl, Bool.and_comm] <;> rfl)

/-! ### non-vacuity: concrete non-trivial instances satisfy the hypotheses and exercise the statements -/

-- rgb565 in a uint16_t, background 0xA5C3, green (first 5, 6 bits) := 42
example : setF 16 0xA5C3 5 6 42 = 0xA543 ∧ getF 16 0xA543 5 6 = 42 ∧ getF 16 0xA543 0 5 = getF 16 0xA5C3 0 5
    ∧ getF 16 0xA543 11 5 = getF 16 0xA5C3 11 5 := by decide
-- a 3-bit channel at run-time first bit 6 of byte 1 of a 4-byte buffer 11 22 33 44 (uint16_t bit field):
-- straddles bytes 1 and 2; bytes 0 and 3 untouched
example : dSet 2 0x44332211 1 6 3 5 = 0x44336211 ∧ dGet 2 0x44336211 1 6 3 = 5 := by decide
example : (6 + 3 ≤ 8 * 2) ∧ (5 < 2 ^ 3) := by decide
-- the bit cursor moves by 2^32 bits (it did not before fix 30b4cc6: the sum was narrowed to int)
example : bit_advance 0 3 4294967296 = (536870912, 3) := by decide
-- bit cursor: from byte 10, offset 5, advance by -13 bits and back
example : bit_advance 10 5 (-13) = (9, 0) ∧ bit_advance 9 0 13 = (10, 5) := by decide
-- proxy arithmetic on a 3-bit channel: 0 - 1 = 7 (mod 8), 6 * 3 = 2 (mod 8)
example : setArg 3 (arithResult 3 .dec 0 0) = 7 ∧ setArg 3 (arithResult 3 .mul 6 3) = 2 := by decide
-- bit-aligned rgb 2-3-2 pixel (uint16_t field) at byte 1 offset 6: channel 1 sits at bit 16
example : baChan ⟨1, 6⟩ [2, 3, 2] 1 = ⟨2, 0⟩ ∧ baSet 2 0 ⟨1, 6⟩ [2, 3, 2] 1 7 = 0x70000 := by decide
-- two adjacent rgb 2-2-2 pixels (uint16_t field) at bits 6 and 12 of a buffer: the hypotheses of C08_swap hold, and it swaps
example : RefOK 2 ⟨0, 6⟩ [2, 2, 2] ∧ RefOK 2 ⟨1, 4⟩ [2, 2, 2]
    ∧ ((⟨0, 6⟩ : Cur).pos.toNat + bitSize [2, 2, 2] ≤ (⟨1, 4⟩ : Cur).pos.toNat) :=
  ⟨⟨by decide, by decide, by decide, by decide, fun k => by
      unfold width; rcases k with _ | _ | _ | _ | k <;> simp [List.getD]⟩,
   ⟨by decide, by decide, by decide, by decide, fun k => by
      unfold width; rcases k with _ | _ | _ | _ | k <;> simp [List.getD]⟩, by decide⟩
-- tight carrier: rgba 2-2-2-2 in a uint8_t at bit offset 2: channel 3 sits in the next byte at first bit 0 and fits
example : (baChan ⟨0, 2⟩ [2, 2, 2, 2] 3 = ⟨1, 0⟩) ∧ (baChan ⟨0, 2⟩ [2, 2, 2, 2] 3).off.toNat + width [2, 2, 2, 2] 3 ≤ 8 * 1
    ∧ baSet 1 0 ⟨0, 2⟩ [2, 2, 2, 2] 3 3 = 0x300 := by decide
example : baSwap 2 0x123E41 ⟨0, 6⟩ ⟨1, 4⟩ [2, 2, 2] [0, 1, 2] = 0x1398C1 := by decide

end GilVerif.Props.C08
