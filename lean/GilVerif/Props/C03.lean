/-
  C03 -- all navigation paths over a view reach the same pixel; iterator / locator laws.

  Part A is stated over the GENERATED kernels (Gen/C03.lean is re-translated from
  iterator_from_2d.hpp, locator.hpp, step_iterator.hpp, bit_aligned_pixel_reference.hpp,
  bit_aligned_pixel_iterator.hpp, position_iterator.hpp on every run).
  Part B is stated over the executable model (Model/C03.lean) that composes those kernels the way
  image_view / the locators do; the model is tied to the real headers by the correspondence run.

  All theorems are for every width, height, step (either sign), offset, start position and move
  list; `ptrdiff_t` is modelled as unbounded `Int` (no-overflow is an assumption of the whole
  development, see DESIGN.md section 7); the one narrowing the code really performs
  (`int new_offset = int(_bit_offset + num_bits)` in bit_range::bit_advance) was found, reported
  and fixed in /repo (30b4cc6); the bit-aligned theorems below are unconditional on the current tree.
-/
import GilVerif.Model.C03
import Mathlib.Tactic.Ring
import Mathlib.Tactic.Linarith
import Mathlib.Tactic.LinearCombination
import Mathlib.Tactic.SplitIfs

namespace GilVerif.Props.C03
open GilVerif.Gen.C03 GilVerif.Geom GilVerif.Model.C03

/-! ## Part A -- generated kernels -/

/-! ### the generated kernels, in reference form

Each `C03_kernel_*` says: what the translator produced from the *current* header equals this
fixed expression.  They are proven by a form-independent tactic (zeta-reduce, split the
conditionals, normalise ring expressions), so a harmless rewrite of the C++ (reordered operands,
a named temporary, a flipped comparison) still proves, while any change of behaviour makes exactly
the kernel's theorem fail.  All other theorems go through these equations. -/

macro "kernel_eq" : tactic =>
  `(tactic| first
      | rfl
      | ((try simp only []) <;> (try split_ifs) <;>
          first | rfl | (exfalso; omega) | (ring_nf; done) | (ext <;> (try simp only []) <;> ring1))
      | ((try simp only []) <;> (try ring_nf) <;> (try split_ifs) <;>
          first | rfl | (exfalso; omega) | (ring_nf; done) | (ext <;> (try simp only []) <;> ring1)))

theorem C03_kernel_it2d_advance (d x y w px py : Int) : it2d_advance d x y w px py =
    if w = 0 then (x, y, px, py)
    else if x + d ≥ 0 then
      (x + (Int.tmod (x + d) w - x), y + Int.tdiv (x + d) w, px + (Int.tmod (x + d) w - x), py + Int.tdiv (x + d) w)
    else
      (x + (Int.tmod (x + d * (1 - w)) w - x), y + Int.tdiv (-(w - x - d - 1)) w,
       px + (Int.tmod (x + d * (1 - w)) w - x), py + Int.tdiv (-(w - x - d - 1)) w) := by
  unfold it2d_advance; kernel_eq

theorem C03_kernel_it2d_increment (x y w px py : Int) : it2d_increment x y w px py =
    if x + 1 ≥ w then (0, y + 1, px + 1 - w, py + 1) else (x + 1, y, px + 1, py) := by
  unfold it2d_increment; kernel_eq

theorem C03_kernel_it2d_decrement (x y w px py : Int) : it2d_decrement x y w px py =
    if x - 1 < 0 then (w - 1, y - 1, px - 1 + w, py - 1) else (x - 1, y, px - 1, py) := by
  unfold it2d_decrement; kernel_eq

theorem C03_kernel_it2d_distance_to (x y w x2 y2 : Int) : it2d_distance_to x y w x2 y2 =
    if w = 0 then 0 else (y2 - y) * w + (x2 - x) := by
  unfold it2d_distance_to; kernel_eq

theorem C03_kernel_loc_offset (x y r p : Int) : loc_offset x y r p = y * r + x * p := by
  unfold loc_offset; kernel_eq

theorem C03_kernel_loc_is_1d_traversable (w r p : Int) : loc_is_1d_traversable w r p = if r - p * w = 0 then 1 else 0 := by
  unfold loc_is_1d_traversable; kernel_eq

theorem C03_kernel_loc_y_distance_to (dist xd r p : Int) : loc_y_distance_to dist xd r p = Int.tdiv (dist - p * xd) r := by
  unfold loc_y_distance_to; kernel_eq

theorem C03_kernel_step_advance (it d s : Int) : step_advance it d s = it + d * s := by
  unfold step_advance; kernel_eq

theorem C03_kernel_step_difference (dist s : Int) : step_difference dist s = Int.tdiv dist s := by
  unfold step_difference; kernel_eq

theorem C03_kernel_step_lt (s a b : Int) :
    step_lt s a b = (if s > 0 then (if a < b then 1 else 0) else (if a > b then 1 else 0)) := by
  unfold step_lt; kernel_eq

theorem C03_kernel_step_gt (s a b : Int) :
    step_gt s a b = (if s > 0 then (if a > b then 1 else 0) else (if a < b then 1 else 0)) := by
  unfold step_gt; kernel_eq

theorem C03_kernel_step_le (s a b : Int) :
    step_le s a b = (if s > 0 then (if a ≤ b then 1 else 0) else (if a ≥ b then 1 else 0)) := by
  unfold step_le; kernel_eq

theorem C03_kernel_step_ge (s a b : Int) :
    step_ge s a b = (if s > 0 then (if a ≥ b then 1 else 0) else (if a ≤ b then 1 else 0)) := by
  unfold step_ge; kernel_eq

theorem C03_kernel_bit_increment (b o s : Int) : bit_increment b o s = (b + Int.tdiv (o + s) 8, Int.tmod (o + s) 8) := by
  unfold bit_increment; kernel_eq

/-- `bit_range::bit_advance`: the bit position is kept in `difference_type`; only the remainder
    (which lies in (-8, 8)) is converted to `int` -/
theorem C03_kernel_bit_advance (b o n : Int) : bit_advance b o n =
    if Int.tmod (o + n) 8 < 0 then (b + Int.tdiv (o + n) 8 - 1, Int.tmod (o + n) 8 + 8)
    else (b + Int.tdiv (o + n) 8, Int.tmod (o + n) 8) := by
  have h2 : -8 < (o + n).tmod 8 := Int.lt_tmod_of_pos _ (by decide)
  have h3 : (o + n).tmod 8 < 8 := Int.tmod_lt_of_pos _ (by decide)
  have e : ∀ r : Int, -8 < r → r < 8 → (r + 2147483648) % 4294967296 - 2147483648 = r := by intro r _ _; omega
  unfold bit_advance
  simp only []
  first
    | (rw [e _ h2 h3]; kernel_eq)
    | (have e' : o + n = n + o := by ring
       rw [← e'] ; rw [e _ h2 h3]; kernel_eq)
    | kernel_eq

theorem C03_kernel_bit_distance_to (b o b2 o2 : Int) : bit_distance_to b o b2 o2 = (b2 - b) * 8 + o2 - o := by
  unfold bit_distance_to; kernel_eq

theorem C03_kernel_bitit_advance_bits (d s : Int) : bitit_advance_bits d s = d * s := by
  unfold bitit_advance_bits; kernel_eq

theorem C03_kernel_bitit_distance (bits s : Int) : bitit_distance bits s = Int.tdiv bits s := by
  unfold bitit_distance; kernel_eq

theorem C03_kernel_pos_advance (p d s : Int) : pos_advance p d s = p + d * s := by
  unfold pos_advance; kernel_eq

theorem C03_kernel_pos_distance (p q s : Int) : pos_distance p q s = Int.tdiv (q - p) s := by
  unfold pos_distance; kernel_eq

theorem C03_kernel_it2d_equal (x y x2 y2 p q : Int) : it2d_equal x y x2 y2 p q = if (x = x2 ∧ y = y2) ∧ p = q then 1 else 0 := by
  unfold it2d_equal; kernel_eq

/-- uniqueness of (row, column) for a 1-D index -/
private theorem divmod_unique {w a b p q : Int} (hw : 0 < w) (ha : 0 ≤ a) (ha' : a < w) (hb : 0 ≤ b) (hb' : b < w)
    (h : p * w + a = q * w + b) : a = b ∧ p = q := by
  have e1 : (p * w + a) % w = a := by
    rw [Int.add_comm, Int.add_mul_emod_self_right]; exact Int.emod_eq_of_lt ha ha'
  have e2 : (q * w + b) % w = b := by
    rw [Int.add_comm, Int.add_mul_emod_self_right]; exact Int.emod_eq_of_lt hb hb'
  have hab : a = b := by rw [← e1, ← e2, h]
  refine ⟨hab, ?_⟩
  subst hab
  have : p * w = q * w := by omega
  exact Int.eq_of_mul_eq_mul_right (by omega) this

/-- **row-carry law of `iterator_from_2d::advance`** (both branches, truncating `/` and `%`):
    from any in-row position, for every offset `d` of either sign and any number of rows crossed,
    the new column is in `[0,w)`, the 1-D index moved by exactly `d`, and the locator was moved by
    exactly the coordinate difference. -/
theorem C03_advance_spec (d x y w px py : Int) (hw : 0 < w) (hx : 0 ≤ x) (hx' : x < w) :
    0 ≤ (it2d_advance d x y w px py).1 ∧ (it2d_advance d x y w px py).1 < w
    ∧ (it2d_advance d x y w px py).2.1 * w + (it2d_advance d x y w px py).1 = y * w + x + d
    ∧ (it2d_advance d x y w px py).2.2.1 - px = (it2d_advance d x y w px py).1 - x
    ∧ (it2d_advance d x y w px py).2.2.2 - py = (it2d_advance d x y w px py).2.1 - y := by
  have hw0 : w ≠ 0 := by omega
  have hmod0 := Int.emod_nonneg (x + d) hw0
  have hmod1 := Int.emod_lt_of_pos (x + d) hw
  have hdm := Int.mul_ediv_add_emod (x + d) w
  rw [C03_kernel_it2d_advance]
  simp only [hw0, if_false]
  by_cases hnn : x + d ≥ 0
  · simp only [hnn, if_true]
    rw [Int.tmod_eq_emod_of_nonneg hnn, Int.tdiv_eq_ediv_of_nonneg hnn]
    have : (y + (x + d) / w) * w = y * w + w * ((x + d) / w) := by rw [Int.add_mul, Int.mul_comm ((x + d) / w) w]
    refine ⟨by omega, by omega, by omega, by omega, by omega⟩
  · simp only [hnn, if_false]
    have hd : d ≤ 0 := by omega
    have h1w : 1 - w ≤ 0 := by omega
    have hprod : 0 ≤ d * (1 - w) := Int.mul_nonneg_of_nonpos_of_nonpos hd h1w
    have hnum : 0 ≤ x + d * (1 - w) := by omega
    have e1 : x + d * (1 - w) = (x + d) + (-d) * w := by
      rw [Int.mul_sub, Int.mul_one, Int.neg_mul]; omega
    have hN : 0 ≤ w - x - d - 1 := by omega
    rw [Int.tmod_eq_emod_of_nonneg hnum, Int.neg_tdiv, Int.tdiv_eq_ediv_of_nonneg hN, e1, Int.add_mul_emod_self_right]
    have e2 : w - x - d - 1 = (w - 1 - (x + d) % w) + w * (-((x + d) / w)) := by
      rw [Int.mul_neg]; omega
    have e3 : (w - x - d - 1) / w = -((x + d) / w) := by
      rw [e2, Int.add_mul_ediv_left _ _ hw0, Int.ediv_eq_zero_of_lt (by omega) (by omega)]; omega
    rw [e3]
    have : (y + - -((x + d) / w)) * w = y * w + w * ((x + d) / w) := by
      rw [Int.neg_neg, Int.add_mul, Int.mul_comm ((x + d) / w) w]
    refine ⟨by omega, by omega, by omega, by omega, by omega⟩

example : it2d_advance (-7) 1 3 4 10 20 = (2, 1, 11, 18) ∧ it2d_advance 9 3 0 4 0 0 = (0, 3, -3, 3) := by decide

/-- closed form: `advance` lands on the unique in-row position whose 1-D index is `d` further -/
theorem C03_advance_closed (d x y w px py x' y' : Int) (hw : 0 < w) (hx : 0 ≤ x) (hx' : x < w)
    (h0 : 0 ≤ x') (h1 : x' < w) (hidx : y' * w + x' = y * w + x + d) :
    it2d_advance d x y w px py = (x', y', px + (x' - x), py + (y' - y)) := by
  obtain ⟨a0, a1, a2, a3, a4⟩ := C03_advance_spec d x y w px py hw hx hx'
  obtain ⟨e1, e2⟩ := divmod_unique hw a0 a1 h0 h1 (a2.trans hidx.symm)
  ext <;> simp only [] <;> omega

example : it2d_advance 5 2 1 3 0 0 = (1, 3, 0 + (1 - 2), 0 + (3 - 1)) :=
  C03_advance_closed 5 2 1 3 0 0 1 3 (by decide) (by decide) (by decide) (by decide) (by decide) (by decide)

/-- default-constructed / zero-width views: `advance` is the identity and every distance is 0 -/
theorem C03_empty_width (d x y px py x2 y2 : Int) :
    it2d_advance d x y 0 px py = (x, y, px, py) ∧ it2d_distance_to x y 0 x2 y2 = 0 := by
  rw [C03_kernel_it2d_advance, C03_kernel_it2d_distance_to]; simp

/-- `it + 0 == it` for every width (so `end() == begin()` when `w*h = 0`, see `C03_empty`) -/
theorem C03_advance_zero (x y w px py : Int) (hw : 0 ≤ w) (hx : 0 ≤ x) (hx' : x < w ∨ w = 0) :
    it2d_advance 0 x y w px py = (x, y, px, py) := by
  by_cases h : w = 0
  · subst h; exact (C03_empty_width 0 x y px py 0 0).1
  · have := C03_advance_closed 0 x y w px py x y (by omega) hx (by omega) hx (by omega) (by omega)
    rw [this]; ext <;> simp

/-- empty views (w = 0 or h = 0, incl. default-constructed): `end() = begin() + w*h` is `begin()`
    and `end() - begin() = 0 = size()` -/
theorem C03_empty (w h px py : Int) (hw : 0 ≤ w) (he : w = 0 ∨ h = 0) :
    it2d_advance (w * h) 0 0 w px py = (0, 0, px, py)
    ∧ it2d_distance_to 0 0 w (it2d_advance (w * h) 0 0 w px py).1 (it2d_advance (w * h) 0 0 w px py).2.1 = 0 := by
  have hz : w * h = 0 := by rcases he with h | h <;> simp [h]
  have e := C03_advance_zero 0 0 w px py hw (by omega) (by omega)
  rw [hz, e]; refine ⟨rfl, ?_⟩
  rw [C03_kernel_it2d_distance_to]; simp

/-- `++it` is `it + 1` (row carry included) -/
theorem C03_increment_is_advance (x y w px py : Int) (hw : 0 < w) (hx : 0 ≤ x) (hx' : x < w) :
    it2d_increment x y w px py = it2d_advance 1 x y w px py := by
  by_cases hc : x + 1 < w
  · rw [C03_advance_closed 1 x y w px py (x + 1) y hw hx hx' (by omega) hc (by ring)]
    rw [C03_kernel_it2d_increment, if_neg (by omega)]; ext <;> simp only [] <;> omega
  · rw [C03_advance_closed 1 x y w px py 0 (y + 1) hw hx hx' (by omega) hw (by have : x = w - 1 := by omega
                                                                               subst this; ring)]
    rw [C03_kernel_it2d_increment, if_pos (by omega)]; ext <;> simp only [] <;> omega

/-- `--it` is `it - 1` -/
theorem C03_decrement_is_advance (x y w px py : Int) (hw : 0 < w) (hx : 0 ≤ x) (hx' : x < w) :
    it2d_decrement x y w px py = it2d_advance (-1) x y w px py := by
  by_cases hc : 0 ≤ x - 1
  · rw [C03_advance_closed (-1) x y w px py (x - 1) y hw hx hx' hc (by omega) (by ring)]
    rw [C03_kernel_it2d_decrement, if_neg (by omega)]; ext <;> simp only [] <;> omega
  · have : x = 0 := by omega
    subst this
    rw [C03_advance_closed (-1) 0 y w px py (w - 1) (y - 1) hw hx hx' (by omega) (by omega) (by ring)]
    rw [C03_kernel_it2d_decrement, if_pos (by omega)]; ext <;> simp only [] <;> omega

/-- `--(++it) == it` and `++(--it) == it`, coordinates and locator displacement alike -/
theorem C03_inc_dec (x y w px py : Int) (hx : 0 ≤ x) (hx' : x < w) :
    (let r := it2d_increment x y w px py; it2d_decrement r.1 r.2.1 w r.2.2.1 r.2.2.2) = (x, y, px, py)
    ∧ (let r := it2d_decrement x y w px py; it2d_increment r.1 r.2.1 w r.2.2.1 r.2.2.2) = (x, y, px, py) := by
  simp only [C03_kernel_it2d_increment, C03_kernel_it2d_decrement]
  constructor
  · by_cases hc : x + 1 ≥ w
    · simp only [hc, if_true]; rw [if_pos (by omega)]; ext <;> simp only [] <;> omega
    · simp only [hc, if_false]; rw [if_neg (by omega)]; ext <;> simp only [] <;> omega
  · by_cases hc : x - 1 < 0
    · simp only [hc, if_true]; rw [if_pos (by omega)]; ext <;> simp only [] <;> omega
    · simp only [hc, if_false]; rw [if_neg (by omega)]; ext <;> simp only [] <;> omega

/-- `(it + n) + m == it + (n + m)` for all n, m of either sign, any number of rows crossed -/
theorem C03_advance_advance (n m x y w px py : Int) (hw : 0 < w) (hx : 0 ≤ x) (hx' : x < w) :
    (let r := it2d_advance n x y w px py; it2d_advance m r.1 r.2.1 w r.2.2.1 r.2.2.2)
      = it2d_advance (n + m) x y w px py := by
  obtain ⟨a0, a1, a2, a3, a4⟩ := C03_advance_spec n x y w px py hw hx hx'
  obtain ⟨b0, b1, b2, b3, b4⟩ := C03_advance_spec (n + m) x y w px py hw hx hx'
  simp only []
  rw [C03_advance_closed m _ _ w _ _ (it2d_advance (n + m) x y w px py).1 (it2d_advance (n + m) x y w px py).2.1 hw a0 a1 b0 b1
        (by rw [b2, a2]; ring)]
  ext <;> simp only [] <;> omega

/-- `(it + n) - it == n`, `it - (it + n) == -n` -/
theorem C03_distance_advance (n x y w px py : Int) (hw : 0 < w) (hx : 0 ≤ x) (hx' : x < w) :
    it2d_distance_to x y w (it2d_advance n x y w px py).1 (it2d_advance n x y w px py).2.1 = n
    ∧ it2d_distance_to (it2d_advance n x y w px py).1 (it2d_advance n x y w px py).2.1 w x y = -n := by
  obtain ⟨a0, a1, a2, a3, a4⟩ := C03_advance_spec n x y w px py hw hx hx'
  simp only [C03_kernel_it2d_distance_to, show w ≠ 0 by omega, if_false]
  constructor
  · linear_combination a2
  · linear_combination (-1 : Int) * a2

/-- `it + n == it + m ⇔ n = m` (`iterator_from_2d::equal`: same coordinates and same locator; `f` = where a locator
    displaced by (dx,dy) is -- any function) -/
theorem C03_equal_iff (n m x y w px py : Int) (f : Int → Int → Int) (hw : 0 < w) (hx : 0 ≤ x) (hx' : x < w) :
    it2d_equal (it2d_advance n x y w px py).1 (it2d_advance n x y w px py).2.1 (it2d_advance m x y w px py).1 (it2d_advance m x y w px py).2.1
      (f (it2d_advance n x y w px py).2.2.1 (it2d_advance n x y w px py).2.2.2)
      (f (it2d_advance m x y w px py).2.2.1 (it2d_advance m x y w px py).2.2.2) = 1 ↔ n = m := by
  obtain ⟨a0, a1, a2, a3, a4⟩ := C03_advance_spec n x y w px py hw hx hx'
  obtain ⟨b0, b1, b2, b3, b4⟩ := C03_advance_spec m x y w px py hw hx hx'
  rw [C03_kernel_it2d_equal]
  constructor
  · intro h
    by_cases hc : ((it2d_advance n x y w px py).1 = (it2d_advance m x y w px py).1 ∧ (it2d_advance n x y w px py).2.1 = (it2d_advance m x y w px py).2.1)
        ∧ f (it2d_advance n x y w px py).2.2.1 (it2d_advance n x y w px py).2.2.2 = f (it2d_advance m x y w px py).2.2.1 (it2d_advance m x y w px py).2.2.2
    · obtain ⟨⟨e1, e2⟩, _⟩ := hc
      rw [e1, e2] at a2; omega
    · simp [hc] at h
  · intro h; subst h; simp

/-- `it.distance_to(jt)` is the difference of the 1-D indices, so `it < jt ⇔ jt - it > 0 ⇔`
    index(it) < index(jt), and the order is antisymmetric -/
theorem C03_order (x1 y1 x2 y2 w : Int) (hw : 0 < w) :
    it2d_distance_to x1 y1 w x2 y2 = (y2 * w + x2) - (y1 * w + x1)
    ∧ it2d_distance_to x1 y1 w x2 y2 = -(it2d_distance_to x2 y2 w x1 y1)
    ∧ (it2d_distance_to x1 y1 w x2 y2 > 0 ↔ y1 * w + x1 < y2 * w + x2) := by
  simp only [C03_kernel_it2d_distance_to, show w ≠ 0 by omega, if_false]
  refine ⟨by ring, by ring, ?_⟩
  constructor <;> intro h <;> nlinarith

/-- `end() - begin() == w*h == size()` for every width and height (w = 0 included) -/
theorem C03_end_minus_begin (w h px py : Int) (hw : 0 ≤ w) :
    it2d_distance_to 0 0 w (it2d_advance (w * h) 0 0 w px py).1 (it2d_advance (w * h) 0 0 w px py).2.1 = w * h := by
  by_cases h0 : w = 0
  · subst h0; simp [C03_kernel_it2d_distance_to]
  · exact (C03_distance_advance (w * h) 0 0 w px py (by omega) (by omega) (by omega)).1

/-! ### memory-based locator kernels -/

/-- `is_1d_traversable(width)` is true exactly when one pixel past the end of a row is the first
    pixel of the next row: `addr(w, y) = addr(0, y+1)` -/
theorem C03_1d_traversable (v : View) (y : Int) :
    loc_is_1d_traversable v.w v.ys v.xs = 1 ↔ v.addr v.w y = v.addr 0 (y + 1) := by
  rw [C03_kernel_loc_is_1d_traversable]; unfold View.addr
  constructor
  · intro h
    have : v.ys - v.xs * v.w = 0 := by
      by_contra hne; simp [hne] at h
    linear_combination (-1 : Int) * this
  · intro h
    have : v.ys - v.xs * v.w = 0 := by linear_combination (-1 : Int) * h
    simp [this]

/-- `y_distance_to` recovers the row difference from the memory distance of two x-iterators of
    the same view (row_size ≠ 0) -/
theorem C03_y_distance (v : View) (x1 y1 x2 y2 : Int) (hys : v.ys ≠ 0) :
    loc_y_distance_to (v.addr x2 y2 - v.addr x1 y1) (x2 - x1) v.ys v.xs = y2 - y1 := by
  rw [C03_kernel_loc_y_distance_to]; unfold View.addr
  have : v.base + y2 * v.ys + x2 * v.xs - (v.base + y1 * v.ys + x1 * v.xs) - v.xs * (x2 - x1) = (y2 - y1) * v.ys := by ring
  rw [this, Int.mul_tdiv_cancel _ hys]

/-! ### step iterators (x step iterators, y iterators, position iterators): step ≠ 0, either sign -/

private theorem mul_pos_iff_of_ne {n s : Int} (hs : s ≠ 0) : (0 < s → (0 < n * s ↔ 0 < n)) ∧ (s < 0 → (n * s < 0 ↔ 0 < n)) := by
  constructor
  · intro h; constructor
    · intro h2; by_contra hc; have : n * s ≤ 0 := by nlinarith
      omega
    · intro h2; exact Int.mul_pos h2 h
  · intro h; constructor
    · intro h2; by_contra hc; have : 0 ≤ n * s := by nlinarith
      omega
    · intro h2; nlinarith

/-- random-access laws of `memunit_step_fn` based iterators for every non-zero step:
    advancing is additive, `(it+n)-it == n`, `--(++it) == it`, and the sign-keyed comparison
    operators agree with the offset (`it < it+n ⇔ n > 0`, …) -/
theorem C03_step_laws (p n m s : Int) (hs : s ≠ 0) :
    step_advance (step_advance p n s) m s = step_advance p (n + m) s
    ∧ step_difference (step_advance p n s - p) s = n
    ∧ -(step_difference (p - step_advance p n s) s) = n
    ∧ step_advance (step_advance p 1 s) (-1) s = p
    ∧ (step_lt s p (step_advance p n s) = 1 ↔ n > 0)
    ∧ (step_gt s p (step_advance p n s) = 1 ↔ n < 0)
    ∧ (step_le s p (step_advance p n s) = 1 ↔ n ≥ 0)
    ∧ (step_ge s p (step_advance p n s) = 1 ↔ n ≤ 0) := by
  simp only [C03_kernel_step_advance, C03_kernel_step_difference, C03_kernel_step_lt, C03_kernel_step_gt, C03_kernel_step_le, C03_kernel_step_ge]
  have e1 : p + n * s - p = n * s := by ring
  have e2 : p - (p + n * s) = (-n) * s := by ring
  have hp := @mul_pos_iff_of_ne n s hs
  have hq := @mul_pos_iff_of_ne (-n) s hs
  have hneg : -n * s = -(n * s) := by ring
  refine ⟨by ring, by rw [e1, Int.mul_tdiv_cancel _ hs], by rw [e2, Int.mul_tdiv_cancel _ hs]; omega, by ring, ?_, ?_, ?_, ?_⟩
  all_goals
    by_cases h : s > 0
    · have h1 := hp.1 h; have h2 := hq.1 h
      simp only [h, if_true]
      constructor
      · intro hh; by_contra hc; simp at hh; omega
      · intro hh; simp; omega
    · have hlt : s < 0 := by omega
      have h1 := hp.2 hlt; have h2 := hq.2 hlt
      simp only [h, if_false]
      constructor
      · intro hh; by_contra hc; simp at hh; omega
      · intro hh; simp; omega

example : step_lt (-6) 100 (step_advance 100 2 (-6)) = 1 ∧ step_difference (step_advance 100 2 (-6) - 100) (-6) = 2 := by decide

/-- y-iterators are step iterators *over x-iterators*; their four ordering operators are the
    sign-keyed ones applied to memory positions, whatever the x-iterator is (so `C03_step_laws`
    applies to them: `it < jt ⇔ jt - it > 0` also over a negatively stepped x-iterator -- the
    pre-8619e34 tree compared the bases with the base's own operators and got this reversed) -/
theorem C03_y_order (k : Kind) (hv : k.virt = false) (ys a b : Int) :
    itCmp k true ys a b = [step_lt ys a b, step_gt ys a b, step_le ys a b, step_ge ys a b] := by
  simp [itCmp, hv]

/-- the same laws for `position_iterator` (virtual views) -/
theorem C03_position_laws (p n m s : Int) (hs : s ≠ 0) :
    pos_advance (pos_advance p n s) m s = pos_advance p (n + m) s
    ∧ pos_distance p (pos_advance p n s) s = n
    ∧ pos_advance (pos_advance p 1 s) (-1) s = p := by
  simp only [C03_kernel_pos_advance, C03_kernel_pos_distance]
  have e1 : p + n * s - p = n * s := by ring
  exact ⟨by ring, by rw [e1, Int.mul_tdiv_cancel _ hs], by ring⟩

/-! ### bit ranges -/

/-- `bit_range::bit_advance` moves the bit position by exactly `n` and re-normalises the offset to
    `[0,8)`, for every `n` of either sign (no narrowing: the pre-30b4cc6 tree converted
    `_bit_offset + n` to `int` and failed from `n = 2^31 - 7` on) -/
theorem C03_bit_advance_spec (b o n : Int) :
    0 ≤ (bit_advance b o n).2 ∧ (bit_advance b o n).2 < 8
    ∧ (bit_advance b o n).1 * 8 + (bit_advance b o n).2 = b * 8 + o + n := by
  rw [C03_kernel_bit_advance]
  have h1 := Int.tmod_add_mul_tdiv (o + n) 8
  have h2 : -8 < (o + n).tmod 8 := Int.lt_tmod_of_pos _ (by decide)
  have h3 : (o + n).tmod 8 < 8 := Int.tmod_lt_of_pos _ (by decide)
  by_cases hc : (o + n).tmod 8 < 0
  · simp only [hc, if_true]; omega
  · simp only [hc, if_false]; omega

example : bit_advance 10 5 (-14) = (8, 7) ∧ bit_advance 0 7 2147483641 = (268435456, 0)
    ∧ bit_advance 0 3 (-4294967299) = (-536870912, 0) := by decide

/-- `++bit_range` moves by exactly the pixel size (no narrowing involved) -/
theorem C03_bit_increment_spec (b o s : Int) (ho : 0 ≤ o) (hs : 0 ≤ s) :
    0 ≤ (bit_increment b o s).2 ∧ (bit_increment b o s).2 < 8
    ∧ (bit_increment b o s).1 * 8 + (bit_increment b o s).2 = b * 8 + o + s := by
  rw [C03_kernel_bit_increment]
  rw [Int.tmod_eq_emod_of_nonneg (by omega), Int.tdiv_eq_ediv_of_nonneg (by omega)]
  omega

/-- bit-iterator laws from any byte / bit offset, for every `n`, `m`: advance then distance gives
    `n`, advancing back returns to the start, two advances compose -/
theorem C03_bit_laws (b o n m : Int) (ho : 0 ≤ o) (ho' : o < 8) :
    bit_distance_to b o (bit_advance b o n).1 (bit_advance b o n).2 = n
    ∧ bit_advance (bit_advance b o n).1 (bit_advance b o n).2 (-n) = (b, o)
    ∧ bit_advance (bit_advance b o n).1 (bit_advance b o n).2 m = bit_advance b o (n + m) := by
  obtain ⟨a0, a1, a2⟩ := C03_bit_advance_spec b o n
  obtain ⟨c0, c1, c2⟩ := C03_bit_advance_spec b o (n + m)
  obtain ⟨d0, d1, d2⟩ := C03_bit_advance_spec (bit_advance b o n).1 (bit_advance b o n).2 (-n)
  obtain ⟨e0, e1, e2⟩ := C03_bit_advance_spec (bit_advance b o n).1 (bit_advance b o n).2 m
  refine ⟨by rw [C03_kernel_bit_distance_to]; omega, ?_, ?_⟩
  · ext <;> omega
  · ext <;> omega

/-- pixel-level laws of `bit_aligned_pixel_iterator` for every pixel size `s > 0`: `(it+k)-it = k` -/
theorem C03_bit_iterator_laws (b o k s : Int) (hs : 0 < s) :
    bitit_distance (bit_distance_to b o (bit_advance b o (bitit_advance_bits k s)).1 (bit_advance b o (bitit_advance_bits k s)).2) s = k := by
  simp only [C03_kernel_bitit_distance, C03_kernel_bitit_advance_bits]
  obtain ⟨a0, a1, a2⟩ := C03_bit_advance_spec b o (k * s)
  have : bit_distance_to b o (bit_advance b o (k * s)).1 (bit_advance b o (k * s)).2 = k * s := by
    rw [C03_kernel_bit_distance_to]; omega
  rw [this, Int.mul_tdiv_cancel _ (by omega)]

/-! ### raw pointers and planar iterators (pixel_iterator.hpp, planar_pixel_iterator.hpp) -/

theorem C03_kernel_ptr_advanced (p d : Int) : ptr_memunit_advanced p d = p + d := by unfold ptr_memunit_advanced; kernel_eq
theorem C03_kernel_ptr_advance (p d : Int) : ptr_memunit_advance p d = p + d := by unfold ptr_memunit_advance; kernel_eq
theorem C03_kernel_ptr_distance (p q : Int) : ptr_memunit_distance p q = q - p := by unfold ptr_memunit_distance; kernel_eq

/-- `planar_pixel_iterator::operator[](d)` hands `d * sizeof(channel_t)` bytes to `memunit_advanced_ref` (the product is
    formed in `std::size_t` and converted back to `ptrdiff_t`: exact while `|d * sizeof(channel_t)| < 2^63`) -/
theorem C03_kernel_planar_index (d c : Int) (hc : 0 ≤ c) (hc' : c < 18446744073709551616)
    (h0 : -9223372036854775808 ≤ d * c) (h1 : d * c < 9223372036854775808) :
    planar_index_bytes d c = d * c := by
  have key : ∀ x : Int, (x % 18446744073709551616 + 9223372036854775808) % 18446744073709551616 - 9223372036854775808
      = (x + 9223372036854775808) % 18446744073709551616 - 9223372036854775808 := by intro x; omega
  have e1 : ∀ x y : Int, ((x % 18446744073709551616) * y) % 18446744073709551616 = (x * y) % 18446744073709551616 := by
    intro x y; rw [Int.mul_emod, Int.emod_emod_of_dvd _ (dvd_refl _), ← Int.mul_emod]
  have e2 : ∀ x y : Int, (y * (x % 18446744073709551616)) % 18446744073709551616 = (x * y) % 18446744073709551616 := by
    intro x y; rw [Int.mul_comm, e1]
  have fin : (d * c + 9223372036854775808) % 18446744073709551616 - 9223372036854775808 = d * c := by omega
  unfold planar_index_bytes
  first
    | (rw [key, e1]; exact fin)
    | (rw [key, e2]; exact fin)
    | (simp only [key, e1, e2, Int.mul_comm c d]; exact fin)

theorem C03_kernel_planar_distance_to (i t : Int) : planar_distance_to i t = i - t := by unfold planar_distance_to; kernel_eq
theorem C03_kernel_planar_lt (a b : Int) : planar_lt a b = if a < b then 1 else 0 := by unfold planar_lt; kernel_eq
theorem C03_kernel_planar_equal (a b : Int) : planar_equal a b = if a = b then 1 else 0 := by unfold planar_equal; kernel_eq

example : planar_index_bytes (-3) 2 = -6 ∧ planar_index_bytes 5 4 = 20 := by decide

/-- **`planar_pixel_iterator::operator[]`**: `it[d]` addresses EVERY plane `d * sizeof(channel_t)` bytes after `it`'s pointer
    into that plane -- the same pixel as `*(it + d)` -/
theorem C03_planar_index (c : Int) (ps : List Int) (d : Int) (hc : 0 < c) (hc' : c < 18446744073709551616)
    (h0 : -9223372036854775808 ≤ d * c) (h1 : d * c < 9223372036854775808) :
    planarIndex c ps d = ps.map (fun p => p + d * c) ∧ planarIndex c ps d = planarAdvance c ps d := by
  have e : planarIndex c ps d = ps.map (fun p => p + d * c) := by
    unfold planarIndex
    simp only [C03_kernel_ptr_advanced, C03_kernel_planar_index d c (by omega) hc' h0 h1]
  exact ⟨e, e⟩

/-- rgb16 planar: `it[3]` is 6 bytes further in each of the three planes -/
example : planarIndex 2 [100, 4196, 8292] 3 = [106, 4202, 8298] ∧ planarIndex 2 [100, 4196, 8292] (-2) = planarAdvance 2 [100, 4196, 8292] (-2) := by decide

/-- `homogeneous_color_base<.,.,n>(ptr, diff)` (n = 2..5): member `k` is bound to channel pointer `k` -/
theorem C03_kernel_color_base_ref :
    hcb_ref_plane_2_0 = 0 ∧ hcb_ref_plane_2_1 = 1
    ∧ hcb_ref_plane_3_0 = 0 ∧ hcb_ref_plane_3_1 = 1 ∧ hcb_ref_plane_3_2 = 2
    ∧ hcb_ref_plane_4_0 = 0 ∧ hcb_ref_plane_4_1 = 1 ∧ hcb_ref_plane_4_2 = 2 ∧ hcb_ref_plane_4_3 = 3
    ∧ hcb_ref_plane_5_0 = 0 ∧ hcb_ref_plane_5_1 = 1 ∧ hcb_ref_plane_5_2 = 2 ∧ hcb_ref_plane_5_3 = 3 ∧ hcb_ref_plane_5_4 = 4 := by
  unfold hcb_ref_plane_2_0 hcb_ref_plane_2_1 hcb_ref_plane_3_0 hcb_ref_plane_3_1 hcb_ref_plane_3_2 hcb_ref_plane_4_0 hcb_ref_plane_4_1
    hcb_ref_plane_4_2 hcb_ref_plane_4_3 hcb_ref_plane_5_0 hcb_ref_plane_5_1 hcb_ref_plane_5_2 hcb_ref_plane_5_3 hcb_ref_plane_5_4
  decide

/-- **`memunit_advanced_ref` of a planar iterator** (2, 3, 4 or 5 planes: what `view(x,y)`, `loc(dx,dy)`, `loc[point]`, `loc[cached_location]` and
    `it[d]` return): channel `k` of the reference lives `diff` memory units after channel pointer `k` -- in EVERY plane, the same planar
    address law as the move-then-dereference paths -/
theorem C03_planar_ref (a b c d e diff : Int) :
    planarRef [a, b] diff = [a + diff, b + diff]
    ∧ planarRef [a, b, c] diff = [a + diff, b + diff, c + diff]
    ∧ planarRef [a, b, c, d] diff = [a + diff, b + diff, c + diff, d + diff]
    ∧ planarRef [a, b, c, d, e] diff = [a + diff, b + diff, c + diff, d + diff, e + diff] := by
  obtain ⟨k1, k2, k3, k4, k5, k6, k7, k8, k9, k10, k11, k12, k13, k14⟩ := C03_kernel_color_base_ref
  simp [planarRef, refPlane, k1, k2, k3, k4, k5, k6, k7, k8, k9, k10, k11, k12, k13, k14, C03_kernel_ptr_advanced, List.range_succ]

/-! ## Part B -- the model of image_view's navigation paths -/

/-- `memunit_advance` is exact for every iterator kind (pointer add; every plane pointer for planar iterators;
    `bit_advance` for bit iterators) -/
theorem C03_memAdvance (k : Kind) (p d : Int) : memAdvance k p d = p + d := by
  unfold memAdvance
  by_cases hk : k.bit
  · simp only [hk, if_true]
    have h0 := Int.emod_nonneg p (show (8 : Int) ≠ 0 by decide)
    have h1 := Int.emod_lt_of_pos p (show (0 : Int) < 8 by decide)
    obtain ⟨_, _, a2⟩ := C03_bit_advance_spec (p / 8) (p % 8) d
    omega
  · by_cases hp : k.planar <;> simp [hk, hp, C03_kernel_ptr_advanced, C03_kernel_ptr_advance]

private theorem memDistance_eq (k : Kind) (a b : Int) : memDistance k a b = b - a := by
  unfold memDistance
  by_cases hk : k.bit
  · simp only [hk, if_true, C03_kernel_bit_distance_to]; omega
  · simp [hk, C03_kernel_ptr_distance]

private theorem xAdv_eq (k : Kind) (xs p n : Int) (hk : k.Natural xs) : xAdv k xs p n = p + n * xs := by
  unfold xAdv
  by_cases h : (k.bit && !k.xstep) = true
  · have hh : k.bit = true ∧ k.xstep = false := by simpa using h
    obtain ⟨e, _⟩ := hk.1 hh.1 hh.2
    simp only [h, if_true, C03_memAdvance, C03_kernel_bitit_advance_bits, e]
  · by_cases h2 : (k.planar && !k.xstep) = true
    · have hh : k.planar = true ∧ k.xstep = false := by simpa using h2
      obtain ⟨_, e, _⟩ := hk.2 hh.1 hh.2
      simp only [h, h2, if_true, e]; simp
    · simp only [h, h2]; simp [C03_memAdvance, C03_kernel_step_advance]

private theorem xIdx_eq (k : Kind) (xs p n : Int) (hk : k.Natural xs)
    (hb : k.planar = true → k.xstep = false →
      k.chan < 18446744073709551616 ∧ -9223372036854775808 ≤ n * k.chan ∧ n * k.chan < 9223372036854775808) :
    xIdx k xs p n = p + n * xs := by
  unfold xIdx
  by_cases h2 : (k.planar && !k.xstep) = true
  · have hh : k.planar = true ∧ k.xstep = false := by simpa using h2
    obtain ⟨_, e, hpos⟩ := hk.2 hh.1 hh.2
    obtain ⟨hc, h0, h1⟩ := hb hh.1 hh.2
    simp only [h2, if_true, C03_kernel_ptr_advanced, C03_kernel_planar_index n k.chan (by omega) hc h0 h1, e]
  · simp only [h2]; exact xAdv_eq k xs p n hk

private theorem xInc_eq (k : Kind) (xs p : Int) (hk : k.Natural xs) : xInc k xs p = p + xs := by
  unfold xInc
  by_cases h : (k.bit && !k.xstep) = true
  · simp only [h, if_true]
    have hh : k.bit = true ∧ k.xstep = false := by simpa using h
    obtain ⟨e, hp⟩ := hk.1 hh.1 hh.2
    have h0 := Int.emod_nonneg p (show (8 : Int) ≠ 0 by decide)
    obtain ⟨_, _, a2⟩ := C03_bit_increment_spec (p / 8) (p % 8) k.pixbits h0 hp
    rw [e]; omega
  · by_cases h2 : (k.planar && !k.xstep) = true
    · have hh : k.planar = true ∧ k.xstep = false := by simpa using h2
      obtain ⟨_, e, _⟩ := hk.2 hh.1 hh.2
      simp only [h, h2, if_true, e]; simp
    · simp only [h, h2]; simp [C03_memAdvance, C03_kernel_step_advance]

private theorem xDec_eq (k : Kind) (xs p : Int) (hk : k.Natural xs) : xDec k xs p = p - xs := by
  unfold xDec
  by_cases h2 : (k.planar && !k.xstep) = true
  · have hh : k.planar = true ∧ k.xstep = false := by simpa using h2
    obtain ⟨_, e, _⟩ := hk.2 hh.1 hh.2
    simp only [h2, if_true, e]
  · simp only [h2]; simp [C03_memAdvance, C03_kernel_step_advance]; omega

/-- **all navigation paths agree**, for every iterator kind (pointer, planar, packed, step,
    position and bit-aligned iterators; `hk`: a raw bit / planar x-iterator steps by the pixel's bit size / one channel;
    `hov`: `x * sizeof(channel_t)` fits `ptrdiff_t`, needed by planar_pixel_iterator::operator[] only).
    For every view record (any base, any steps of either sign, padded
    rows), every in-range (x,y) and every reference position (cx,cy) of the cached location:
    `view(x,y)`, `row_begin(y)[x]`, `col_begin(x)[y]`, `begin()[y*w+x]`, `at(x,y)`,
    `rbegin()[w*h-1-(y*w+x)]`, `xy_at(x,y)` and `xy_at(cx,cy)[cache_location(x-cx,y-cy)]`
    all reach `base + y*ys + x*xs`. -/
theorem C03_paths_agree (k : Kind) (v : View) (x y cx cy : Int) (hr : v.InRange x y) (hk : k.Natural v.xs)
    (hov : k.planar = true → k.xstep = false → k.chan < 18446744073709551616 ∧ x * k.chan < 9223372036854775808) :
    pathCall k v x y = v.addr x y ∧ pathRow k v x y = v.addr x y ∧ pathCol k v x y = v.addr x y
    ∧ pathBegin k v x y = v.addr x y ∧ pathAt k v x y = v.addr x y ∧ pathRbegin k v x y = v.addr x y
    ∧ pathCached k v cx cy x y = v.addr x y := by
  obtain ⟨hx0, hx1, hy0, hy1⟩ := hr
  have hw : 0 < v.w := by omega
  have hw0 : v.w ≠ 0 := by omega
  have mA := C03_memAdvance k
  have xD := fun p => xDec_eq k v.xs p hk
  refine ⟨?_, ?_, ?_, ?_, ?_, ?_, ?_⟩
  · simp only [pathCall, Loc.move, View.loc, mA, C03_kernel_loc_offset, View.addr]; ring
  · have hb : k.planar = true → k.xstep = false →
        k.chan < 18446744073709551616 ∧ -9223372036854775808 ≤ x * k.chan ∧ x * k.chan < 9223372036854775808 := by
      intro h1 h2
      have := (hk.2 h1 h2).2.2
      have : 0 ≤ x * k.chan := Int.mul_nonneg hx0 (by omega)
      exact ⟨(hov h1 h2).1, by omega, (hov h1 h2).2⟩
    simp only [pathRow, xIdx_eq k v.xs _ x hk hb, Loc.move, View.loc, mA, C03_kernel_loc_offset, View.addr]; ring
  · simp only [pathCol, yAdv, Loc.move, View.loc, mA, C03_kernel_loc_offset, C03_kernel_step_advance, View.addr]; ring
  · have e := C03_advance_closed (y * v.w + x) 0 0 v.w 0 0 x y hw (by omega) hw hx0 hx1 (by ring)
    simp only [pathBegin, It.advance, View.begin, e, hw0, if_false, Loc.move, View.loc, mA, C03_kernel_loc_offset, View.addr]; ring
  · have e1 := C03_advance_closed (y * v.w) 0 0 v.w 0 0 0 y hw (by omega) hw (by omega) hw (by ring)
    have e2 := C03_advance_closed x 0 y v.w 0 0 x y hw (by omega) hw hx0 hx1 (by ring)
    simp only [pathAt, It.advance, View.begin, e1, e2, hw0, if_false, Loc.move, View.loc, mA, C03_kernel_loc_offset, View.addr]; ring
  · have e1 := C03_advance_closed (v.w * v.h) 0 0 v.w 0 0 0 v.h hw (by omega) hw (by omega) hw (by ring)
    by_cases hc : x + 1 < v.w
    · have e2 := C03_advance_closed (-(v.w * v.h - 1 - (y * v.w + x))) 0 v.h v.w 0 0 (x + 1) y hw (by omega) hw (by omega) hc (by ring)
      have hd : it2d_decrement (x + 1) y v.w 0 0 = (x, y, -1, 0) := by
        rw [C03_decrement_is_advance _ _ _ _ _ hw (by omega) hc,
            C03_advance_closed (-1) (x + 1) y v.w 0 0 x y hw (by omega) hc hx0 hx1 (by ring)]
        ext <;> simp only [] <;> omega
      simp only [pathRbegin, View.endIt, View.size, It.advance, It.dec, View.begin, e1, e2, hw0, if_false, Loc.move,
        View.loc, mA, C03_kernel_loc_offset, View.addr, xD, hd, and_self, if_true]
      ring
    · have hxw : x = v.w - 1 := by omega
      have e2 := C03_advance_closed (-(v.w * v.h - 1 - (y * v.w + x))) 0 v.h v.w 0 0 0 (y + 1) hw (by omega) hw (by omega) hw
        (by subst hxw; ring)
      have hd : it2d_decrement 0 (y + 1) v.w 0 0 = (x, y, v.w - 1, -1) := by
        rw [C03_decrement_is_advance _ _ _ _ _ hw (by omega) hw,
            C03_advance_closed (-1) 0 (y + 1) v.w 0 0 x y hw (by omega) hw hx0 hx1 (by subst hxw; ring)]
        ext <;> simp only [] <;> omega
      have hne : ¬ (v.w - 1 = -1 ∧ (-1 : Int) = 0) := by omega
      simp only [pathRbegin, View.endIt, View.size, It.advance, It.dec, View.begin, e1, e2, hw0, if_false, Loc.move,
        View.loc, mA, C03_kernel_loc_offset, View.addr, xD, hd, hne]
      subst hxw; ring
  · simp only [pathCached, Loc.move, View.loc, mA, C03_kernel_loc_offset, View.addr]; ring

/-- non-vacuity: a 3x2 view with padded rows (row stride 16, pixel 4 bytes) flipped left-right -/
example : (Xform.flipLR.apply { base := 0, xs := 4, ys := 16, w := 3, h := 2 }).InRange 2 1
    ∧ pathRbegin ⟨false, true, 0, false, false, 0⟩ (Xform.flipLR.apply { base := 0, xs := 4, ys := 16, w := 3, h := 2 }) 2 1 = 16 := by decide

/-- a gray-2 view of 5x3 pixels starting at bit 6 with 13-bit rows -/
example : pathAt ⟨true, false, 2, false, false, 0⟩ { base := 6, xs := 2, ys := 13, w := 5, h := 3 } 4 2 = 6 + 2 * 13 + 4 * 2 := by decide

/-- **locator move programs**: after any list of `+= / -= point`, `x() += n`, `y() += n`, `++` or `--`
    on either axis iterator, the locator is at `start + Σdy*ys + Σdx*xs` -- i.e. at the pixel
    `xy_at(Σdx, Σdy)` reaches in one step (induction on the list; every iterator kind: for a raw bit
    iterator the x step is the pixel's bit size) -/
theorem C03_moves (k : Kind) (l : Loc) (ms : List Move) (hb : k.Natural l.xs) :
    (runMoves k l ms).pos = l.pos + (sumMoves ms).2 * l.ys + (sumMoves ms).1 * l.xs
    ∧ (runMoves k l ms).xs = l.xs ∧ (runMoves k l ms).ys = l.ys
    ∧ (runMoves k l ms).pos = (l.move k (sumMoves ms).1 (sumMoves ms).2).pos := by
  have mA := C03_memAdvance k
  have main : ∀ (ms : List Move) (l : Loc), k.Natural l.xs →
      (runMoves k l ms).pos = l.pos + (sumMoves ms).2 * l.ys + (sumMoves ms).1 * l.xs
      ∧ (runMoves k l ms).xs = l.xs ∧ (runMoves k l ms).ys = l.ys := by
    intro ms
    induction ms with
    | nil => intro l _; simp [runMoves, sumMoves]
    | cons m ms ih =>
      intro l hl
      have hx : ∀ p, xInc k l.xs p = p + l.xs := fun p => xInc_eq k l.xs p hl
      have hxd : ∀ p, xDec k l.xs p = p - l.xs := fun p => xDec_eq k l.xs p hl
      have hxa : ∀ p n, xAdv k l.xs p n = p + n * l.xs := fun p n => xAdv_eq k l.xs p n hl
      have hxs : (Move.run k l m).xs = l.xs := by cases m <;> rfl
      have h := ih (Move.run k l m) (by rw [hxs]; exact hl)
      simp only [runMoves, List.foldl_cons] at h ⊢
      obtain ⟨h1, h2, h3⟩ := h
      rw [h1, h2, h3]
      cases m <;>
        simp only [Move.run, Loc.move, hxa, yAdv, hx, hxd, mA, C03_kernel_loc_offset, C03_kernel_step_advance, sumMoves, Move.delta, and_true] <;>
        ring
  obtain ⟨h1, h2, h3⟩ := main ms l hb
  refine ⟨h1, h2, h3, ?_⟩
  rw [h1]; simp only [Loc.move, mA, C03_kernel_loc_offset]; ring

example : (runMoves ⟨false, false, 0, false, false, 0⟩ ⟨100, 3, 40⟩ [.add 2 1, .xdec, .yadd (-3), .subm 1 (-1), .xinc]).pos = 100 + (-1) * 40 + 1 * 3
    ∧ (runMoves ⟨true, false, 6, false, false, 0⟩ ⟨5, 6, 21⟩ [.xinc, .yinc, .xdec, .add 2 (-1)]).pos = 5 + 0 * 21 + 2 * 6 := by decide

/-! ### order laws of raw (non-step) x-iterators -/

private theorem facadeCmp_eq (d : Int) :
    facadeCmp d = [b2i (decide (d > 0)), b2i (decide (d < 0)), b2i (decide (d ≥ 0)), b2i (decide (d ≤ 0))] := by
  unfold facadeCmp
  have e1 : (0 > -d) = (d > 0) := propext (by omega)
  have e2 : (0 < -d) = (d < 0) := propext (by omega)
  have e3 : (0 ≥ -d) = (d ≥ 0) := propext (by omega)
  have e4 : (0 ≤ -d) = (d ≤ 0) := propext (by omega)
  simp only [e1, e2, e3, e4]

private theorem mul_pos_iff' {n s : Int} (hs : 0 < s) : (0 < n * s ↔ 0 < n) ∧ (n * s < 0 ↔ n < 0) ∧ (n * s = 0 ↔ n = 0) := by
  refine ⟨⟨fun h => ?_, fun h => Int.mul_pos h hs⟩, ⟨fun h => ?_, fun h => ?_⟩, ⟨fun h => ?_, fun h => by rw [h]; simp⟩⟩
  · by_contra hc; have : n * s ≤ 0 := by nlinarith
    omega
  · by_contra hc; have : 0 ≤ n * s := by nlinarith
    omega
  · nlinarith
  · rcases Int.mul_eq_zero.1 h with h | h <;> omega

/-- **order laws of RAW (non-step) x-iterators** -- pixel pointers (built-in comparison), `planar_pixel_iterator` (own
    `operator<` on the channel-0 pointers, `iterator_facade`'s `> <= >=` through `distance_to`), `bit_aligned_pixel_iterator`
    (all four through `distance_to = bit_distance / bit_size`): for `jt = it + n` with the iterator's natural step `s > 0`,
    `it < jt`, `it > jt`, `it <= jt`, `it >= jt` are `n > 0`, `n < 0`, `n ≥ 0`, `n ≤ 0`; `jt - it = n`, `it - jt = -n`; `it == jt ⇔ n = 0`;
    hence `it < jt ⇔ jt - it > 0` -/
theorem C03_x_order (k : Kind) (s a n : Int) (hraw : k.xstep = false) (hv : k.virt = false) (hs : 0 < s) (hk : k.Natural s) :
    itCmp k false s a (xAdv k s a n) = [b2i (decide (n > 0)), b2i (decide (n < 0)), b2i (decide (n ≥ 0)), b2i (decide (n ≤ 0))]
    ∧ itSub k false s (xAdv k s a n) a = n
    ∧ itSub k false s a (xAdv k s a n) = -n
    ∧ (itEq k a (xAdv k s a n) = 1 ↔ n = 0)
    ∧ ((itCmp k false s a (xAdv k s a n))[0]! = 1 ↔ itSub k false s (xAdv k s a n) a > 0) := by
  obtain ⟨p1, p2, p3⟩ := @mul_pos_iff' n s hs
  have hs0 : s ≠ 0 := by omega
  have eb : a + n * s - a = n * s := by ring
  have ea : a - (a + n * s) = (-n) * s := by ring
  have hcmp : itCmp k false s a (a + n * s) = [b2i (decide (n > 0)), b2i (decide (n < 0)), b2i (decide (n ≥ 0)), b2i (decide (n ≤ 0))] := by
    unfold itCmp xDistanceTo
    simp only [hv, hraw, Bool.false_eq_true, if_false, Bool.or_self, Bool.not_false, Bool.and_true]
    by_cases hb : k.bit = true
    · obtain ⟨e, _⟩ := hk.1 hb hraw
      simp only [hb, if_true, facadeCmp_eq, memDistance_eq, C03_kernel_bitit_distance, eb, ← e, Int.mul_tdiv_cancel _ hs0]
    · simp only [Bool.not_eq_true] at hb
      by_cases hp : k.planar = true
      · obtain ⟨_, e, _⟩ := hk.2 hp hraw
        simp only [hb, hp, if_true, if_false, Bool.false_eq_true, facadeCmp_eq, C03_kernel_planar_distance_to, C03_kernel_planar_lt, eb, ← e,
          Int.mul_tdiv_cancel _ hs0, Int.sub_zero, List.drop_succ_cons, List.drop_zero]
        congr 1
        by_cases hn : n > 0
        · have : a < a + n * s := by omega
          simp [hn, this, b2i]
        · have : ¬ a < a + n * s := by omega
          simp [hn, this, b2i]
      · simp only [Bool.not_eq_true] at hp
        simp only [hb, hp, if_false, Bool.false_eq_true]
        have q1 : (a < a + n * s) = (n > 0) := propext (by omega)
        have q2 : (a > a + n * s) = (n < 0) := propext (by omega)
        have q3 : (a ≤ a + n * s) = (n ≥ 0) := propext (by omega)
        have q4 : (a ≥ a + n * s) = (n ≤ 0) := propext (by omega)
        simp only [q1, q2, q3, q4]
  have hsub1 : itSub k false s (a + n * s) a = n := by
    unfold itSub xDistanceTo
    simp only [hv, hraw, Bool.false_eq_true, if_false, Bool.not_false, Bool.and_true]
    by_cases hb : k.bit = true
    · obtain ⟨e, _⟩ := hk.1 hb hraw
      simp only [hb, if_true, memDistance_eq, C03_kernel_bitit_distance, ea, ← e, Int.mul_tdiv_cancel _ hs0]; omega
    · simp only [Bool.not_eq_true] at hb
      by_cases hp : k.planar = true
      · obtain ⟨_, e, _⟩ := hk.2 hp hraw
        simp only [hb, hp, if_true, if_false, Bool.false_eq_true, C03_kernel_planar_distance_to, ea, ← e, Int.mul_tdiv_cancel _ hs0]; omega
      · simp only [Bool.not_eq_true] at hp
        simp only [hb, hp, if_false, Bool.false_eq_true, memDistance_eq, C03_kernel_step_difference, ea, Int.mul_tdiv_cancel _ hs0]; omega
  have hsub2 : itSub k false s a (a + n * s) = -n := by
    unfold itSub xDistanceTo
    simp only [hv, hraw, Bool.false_eq_true, if_false, Bool.not_false, Bool.and_true]
    by_cases hb : k.bit = true
    · obtain ⟨e, _⟩ := hk.1 hb hraw
      simp only [hb, if_true, memDistance_eq, C03_kernel_bitit_distance, eb, ← e, Int.mul_tdiv_cancel _ hs0]
    · simp only [Bool.not_eq_true] at hb
      by_cases hp : k.planar = true
      · obtain ⟨_, e, _⟩ := hk.2 hp hraw
        simp only [hb, hp, if_true, if_false, Bool.false_eq_true, C03_kernel_planar_distance_to, eb, ← e, Int.mul_tdiv_cancel _ hs0]; omega
      · simp only [Bool.not_eq_true] at hp
        simp only [hb, hp, if_false, Bool.false_eq_true, memDistance_eq, C03_kernel_step_difference, eb, Int.mul_tdiv_cancel _ hs0]
  have heq : itEq k a (a + n * s) = 1 ↔ n = 0 := by
    unfold itEq
    have q : (a = a + n * s) ↔ n = 0 := by constructor <;> intro h <;> omega
    by_cases hp : k.planar = true
    · simp only [hp, hraw, hv, Bool.not_false, Bool.and_self, if_true, C03_kernel_planar_equal]
      by_cases hn : n = 0
      · simp [hn]
      · have : ¬ a = a + n * s := fun h => hn (q.1 h)
        simp [hn, this]
    · simp only [hp, Bool.false_and, Bool.false_eq_true, if_false, b2i]
      by_cases hn : n = 0
      · simp [hn]
      · have : ¬ a = a + n * s := fun h => hn (q.1 h)
        simp [hn, this]
  rw [xAdv_eq k s a n hk]
  refine ⟨hcmp, hsub1, hsub2, heq, ?_⟩
  rw [hcmp, hsub1]
  by_cases hn : n > 0 <;> simp [hn, b2i]

example : itCmp ⟨false, false, 0, false, true, 2⟩ false 2 100 (xAdv ⟨false, false, 0, false, true, 2⟩ 2 100 (-3)) = [0, 1, 0, 1]
    ∧ itSub ⟨true, false, 6, false, false, 0⟩ false 6 (xAdv ⟨true, false, 6, false, false, 0⟩ 6 13 5) 13 = 5 := by decide

/-- `bit_aligned_pixel_iterator`, ANY two bit positions (also off the pixel lattice): `it < jt ⇔ jt - it > 0` -/
theorem C03_bit_order (k : Kind) (s a b : Int) (hb : k.bit = true) (hraw : k.xstep = false) (hv : k.virt = false) :
    (itCmp k false s a b)[0]! = 1 ↔ itSub k false s b a > 0 := by
  unfold itCmp itSub xDistanceTo
  simp only [hv, hraw, hb, Bool.false_eq_true, if_false, if_true, Bool.or_self, Bool.not_false, Bool.and_true, facadeCmp_eq,
    memDistance_eq, C03_kernel_bitit_distance]
  have e : a - b = -(b - a) := by ring
  rw [e, Int.neg_tdiv]
  by_cases h : (b - a).tdiv k.pixbits > 0 <;> simp [h, b2i]

end GilVerif.Props.C03
