/-
  C16 -- threshold, morphology and median filters satisfy their per-pixel definitions.

  * threshold functors and the Otsu index expression: theorems over the GENERATED definitions
    (Gen/C16.lean is re-translated from threshold.hpp on every run);
  * Otsu: "no undefined behaviour" is a theorem about the model in which division by zero and an
    out-of-range histogram index are explicit error outcomes; the pre-fix code is kept as
    `trackMax := false` with machine-checked witnesses of both failures;
  * morphology: lattice laws for min/max over any (symmetric) neighbourhood relation on any point set,
    the exact glb / lub characterisation of the `morph_impl` model, and the identification of the two;
  * median: the window is the edge-replicated k×k neighbourhood (uses C15_extend_boundary) and the
    selected element is a true median.
  Only property theorems (C16_*) and private helpers live here; other helpers are in Lemmas/C16.lean.
-/
import GilVerif.Lemmas.C16
import GilVerif.Lemmas.C16b
import GilVerif.Props.C15

namespace GilVerif.Props.C16
open GilVerif.Model.C16 GilVerif.Gen.C16 GilVerif.Lemmas.C16
open GilVerif.Model

/-! ### thresholds -/

/-- every instantiated threshold functor computes exactly the documented comparison, converted to the result channel type -/
theorem C16_threshold_functor (s d : Ch) (k : Kind) (px t mx r : Int)
    (hs : s.lo ≤ px ∧ px ≤ s.hi) (ht : d.lo ≤ t ∧ t ≤ d.hi) (hm : d.lo ≤ mx ∧ mx ≤ d.hi)
    (hf : functor s d k px t mx = some r) : r = d.wrap (thresholdSpec k px t mx) := by
  cases s <;> cases d <;> simp only [functor, reduceCtorEq] at hf <;> cases k <;>
    simp only [Option.some.injEq] at hf <;> subst hf <;>
    simp only [thresholdSpec, Ch.wrap, Ch.lo, Ch.hi,
      bin_reg_u8_u8, bin_inv_u8_u8, trunc_thr_reg_u8_u8, trunc_thr_inv_u8_u8, trunc_zero_reg_u8_u8, trunc_zero_inv_u8_u8,
      bin_reg_i8_i8, bin_inv_i8_i8, trunc_thr_reg_i8_i8, trunc_thr_inv_i8_i8, trunc_zero_reg_i8_i8, trunc_zero_inv_i8_i8,
      bin_reg_u16_u16, bin_inv_u16_u16, trunc_thr_reg_u16_u16, trunc_thr_inv_u16_u16, trunc_zero_reg_u16_u16, trunc_zero_inv_u16_u16,
      bin_reg_i16_i16, bin_inv_i16_i16, trunc_thr_reg_i16_i16, trunc_thr_inv_i16_i16, trunc_zero_reg_i16_i16, trunc_zero_inv_i16_i16,
      bin_reg_u16_u8, bin_inv_u16_u8, trunc_thr_reg_u16_u8, trunc_thr_inv_u16_u8, trunc_zero_reg_u16_u8, trunc_zero_inv_u16_u8,
      bin_reg_u8_i16, bin_inv_u8_i16, trunc_thr_reg_u8_i16, trunc_thr_inv_u8_i16, trunc_zero_reg_u8_i16, trunc_zero_inv_u8_i16] at * <;>
    (split_ifs <;> omega)

/-- `threshold_adaptive`: both instantiated comparison functors (generated) are exactly the documented comparison of the pixel
    against (local threshold − constant), the subtraction taken in `int` (no wrap-around for constant > threshold) -/
theorem C16_adaptive_functor (c : Ch) (inv : Bool) (px t mx cst r : Int)
    (hp : c.lo ≤ px ∧ px ≤ c.hi) (ht : c.lo ≤ t ∧ t ≤ c.hi) (hm : c.lo ≤ mx ∧ mx ≤ c.hi) (hc : c.lo ≤ cst ∧ cst ≤ c.hi)
    (hf : adaptiveFunctor c inv px t mx cst = some r) : r = adaptiveSpec inv px t mx cst := by
  cases c <;> simp only [adaptiveFunctor, reduceCtorEq] at hf <;> cases inv <;>
    simp only [Option.some.injEq, Bool.false_eq_true, if_false, if_true] at hf <;> subst hf <;>
    simp only [adaptiveSpec, Ch.lo, Ch.hi, adapt_reg_u8_u8, adapt_inv_u8_u8, adapt_reg_u16_u16, adapt_inv_u16_u16,
      Bool.false_eq_true, if_false, if_true] at * <;>
    (split_ifs <;> omega)

/-- a constant larger than the local threshold makes (threshold − constant) negative: every pixel is then "above" (no unsigned wrap) -/
example : adaptiveFunctor .u8 false 0 3 255 10 = some 255 ∧ adaptiveSpec false 0 3 255 10 = 255 := by decide

/-- the box-mean Spec of the local threshold surface accepts the exact mean and the doubly truncated one, nothing above the mean -/
example : meanSurfaceOk 3 [9, 9, 9, 9, 9, 9, 9, 9, 9] 9 = true ∧ meanSurfaceOk 3 [9, 9, 9, 9, 9, 9, 9, 9, 9] 7 = true
    ∧ meanSurfaceOk 3 [9, 9, 9, 9, 9, 9, 9, 9, 9] 10 = false ∧ meanSurfaceOk 3 [9, 9, 9, 9, 9, 9, 9, 9, 9] 6 = false := by decide

/-- why the judge's Spec of the `mean` threshold surface is `S − 2k² ≤ k²·T ≤ S` (`meanSurfaceOk`): `threshold_adaptive` runs a row pass and
    a column pass with weights 1/k and stores each result truncated to the channel type.  If every in-image row of the window has
    exact (zero-padded) sum S_j and stored value r_j with S_j/k − 1 ≤ r_j ≤ S_j/k, and the column pass stores T with
    (Σ r_j)/k − 1 ≤ T ≤ (Σ r_j)/k, then T lies within [M − 2, M] of the exact box mean M = (Σ S_j)/k²; pure integer arithmetic, any k -/
theorem C16_adaptive_mean_bounds (k : Nat) (rows : List (Int × Int)) (hlen : rows.length ≤ k)
    (hrow : ∀ p ∈ rows, (k : Int) * p.2 ≤ p.1 ∧ p.1 ≤ (k : Int) * p.2 + (k : Int))
    (T : Int) (hT : (k : Int) * T ≤ (rows.map (·.2)).sum ∧ (rows.map (·.2)).sum ≤ (k : Int) * T + (k : Int)) :
    (rows.map (·.1)).sum - 2 * ((k : Int) * (k : Int)) ≤ ((k : Int) * (k : Int)) * T
    ∧ ((k : Int) * (k : Int)) * T ≤ (rows.map (·.1)).sum := by
  obtain ⟨h1, h2⟩ := rows_trunc_bound (k : Int) rows hrow
  have hk0 : (0 : Int) ≤ (k : Int) := by omega
  have a1 := Int.mul_le_mul_of_nonneg_left hT.1 hk0
  have a2 := Int.mul_le_mul_of_nonneg_left hT.2 hk0
  have a3 : (k : Int) * (rows.length : Int) ≤ (k : Int) * (k : Int) := Int.mul_le_mul_of_nonneg_left (by omega) hk0
  rw [Int.mul_add] at a2
  rw [Int.mul_assoc]
  generalize (k : Int) * ((k : Int) * T) = kkT at *
  generalize (k : Int) * (k : Int) = kk at *
  generalize (k : Int) * (rows.length : Int) = kn at *
  generalize (k : Int) * (rows.map (·.2)).sum = kB at *
  omega

/-- hypotheses of `C16_adaptive_mean_bounds` on a 3×3 window of three rows (sums 10, 20, 30; stored 3, 6, 10; stored T = 6; M = 60/9) -/
example : ([((10 : Int), (3 : Int)), (20, 6), (30, 10)].length ≤ 3)
    ∧ (∀ p ∈ [((10 : Int), (3 : Int)), (20, 6), (30, 10)], ((3 : Nat) : Int) * p.2 ≤ p.1 ∧ p.1 ≤ ((3 : Nat) : Int) * p.2 + ((3 : Nat) : Int))
    ∧ (((3 : Nat) : Int) * 6 ≤ ([((10 : Int), (3 : Int)), (20, 6), (30, 10)].map (·.2)).sum) := by decide

/-- plane level ("independently for every channel of every pixel"): entry i of the plane `threshold_impl` produces depends on entry i
    of the source only and is the documented comparison, converted to the result channel type; the plane keeps its length -/
theorem C16_threshold_plane (s d : Ch) (k : Kind) (t mx : Int) (plane : List Int) (i : Nat) (hi : i < plane.length)
    (hdef : (functor s d k 0 0 0).isSome = true)
    (hs : s.lo ≤ plane.getD i 0 ∧ plane.getD i 0 ≤ s.hi) (ht : d.lo ≤ t ∧ t ≤ d.hi) (hm : d.lo ≤ mx ∧ mx ≤ d.hi) :
    (thresholdPlane s d k t mx plane).length = plane.length
    ∧ (thresholdPlane s d k t mx plane).getD i 0 = d.wrap (thresholdSpec k (plane.getD i 0) t mx) := by
  unfold thresholdPlane
  refine ⟨List.length_map _, ?_⟩
  rw [List.getD_eq_getElem?_getD, List.getElem?_map, List.getD_eq_getElem?_getD, List.getElem?_eq_getElem hi]
  simp only [Option.map_some, Option.getD_some]
  have hs' : s.lo ≤ plane[i] ∧ plane[i] ≤ s.hi := by
    rw [List.getD_eq_getElem?_getD, List.getElem?_eq_getElem hi] at hs; exact hs
  cases hf : functor s d k plane[i] t mx with
  | none => cases s <;> cases d <;> simp [functor] at hf hdef
  | some r => exact C16_threshold_functor s d k _ t mx r hs' ht hm hf

example : (functor .u16 .u8 .binReg 0 0 0).isSome = true := by decide

/-- plane level: entry i of the plane `adaptive_impl` produces is the documented comparison of source entry i against
    (threshold-surface entry i − constant) -/
theorem C16_adaptive_plane (c : Ch) (inv : Bool) (mx cst : Int) (src thr : List Int) (i : Nat) (hi : i < src.length) (hl : thr.length = src.length)
    (hc8 : c = .u8 ∨ c = .u16)
    (hp : c.lo ≤ src.getD i 0 ∧ src.getD i 0 ≤ c.hi) (ht : c.lo ≤ thr.getD i 0 ∧ thr.getD i 0 ≤ c.hi)
    (hm : c.lo ≤ mx ∧ mx ≤ c.hi) (hc : c.lo ≤ cst ∧ cst ≤ c.hi) :
    (adaptivePlane c inv mx cst src thr).length = src.length
    ∧ (adaptivePlane c inv mx cst src thr).getD i 0 = adaptiveSpec inv (src.getD i 0) (thr.getD i 0) mx cst := by
  unfold adaptivePlane
  refine ⟨by rw [List.length_map, List.length_zip, hl, Nat.min_self], ?_⟩
  have hi2 : i < thr.length := by omega
  have hz : i < (src.zip thr).length := by rw [List.length_zip, hl, Nat.min_self]; exact hi
  rw [List.getD_eq_getElem?_getD, List.getElem?_map, List.getElem?_eq_getElem hz, List.getElem_zip]
  simp only [Option.map_some, Option.getD_some]
  rw [List.getD_eq_getElem?_getD, List.getElem?_eq_getElem hi] at hp ⊢
  rw [List.getD_eq_getElem?_getD, List.getElem?_eq_getElem hi2] at ht ⊢
  simp only [Option.getD_some] at hp ht ⊢
  cases hf : adaptiveFunctor c inv src[i] thr[i] mx cst with
  | none => rcases hc8 with rfl | rfl <;> simp [adaptiveFunctor] at hf
  | some r => exact C16_adaptive_functor c inv _ _ mx cst r hp ht hm hc hf

/-- why the judge's Spec of the `gaussian` threshold surface is `min − 1 ≤ T ≤ max` (`gaussSurfaceOk`): a combination of the window values
    with non-negative weights lies between (total weight)·min and (total weight)·max (integer weights: any common scaling of the kernel) -/
theorem C16_adaptive_convex_bounds (wv : List (Int × Int)) (lo hi : Int)
    (hw : ∀ p ∈ wv, 0 ≤ p.1 ∧ lo ≤ p.2 ∧ p.2 ≤ hi) :
    (wv.map (·.1)).sum * lo ≤ (wv.map fun p => p.1 * p.2).sum ∧ (wv.map fun p => p.1 * p.2).sum ≤ (wv.map (·.1)).sum * hi := by
  induction wv with
  | nil => simp
  | cons p ps ih =>
    obtain ⟨h0, h1, h2⟩ := hw p List.mem_cons_self
    have ih' := ih (fun q hq => hw q (List.mem_cons_of_mem _ hq))
    simp only [List.map_cons, List.sum_cons, Int.add_mul]
    have a := Int.mul_le_mul_of_nonneg_left h1 h0
    have b := Int.mul_le_mul_of_nonneg_left h2 h0
    omega

example : ∀ p ∈ [((1 : Int), (10 : Int)), (2, 30), (1, 20)], 0 ≤ p.1 ∧ (10 : Int) ≤ p.2 ∧ p.2 ≤ 30 := by decide

/-! ### view geometry -/

/-- the per-pixel loop of `threshold_impl` / `adaptive_impl` (`for y, for x: dst(x, y) = op(src(x, y))`) on views of ARBITRARY memory
    geometry: pixel (x, y) of the source lives in cell `addrS (x, y)` of `memS`, pixel (x, y) of the destination in cell `addrD (x, y)`
    of `memD` (whole image, sub-view of a larger image, padded rows, flipped, stepped: any `addrS`, any `addrD` that is injective on the
    view).  Result: every destination pixel holds the per-pixel value of the source pixel with the SAME logical coordinates, whatever the
    two layouts are, and no cell outside the destination view changes (frame).  The planes of the executable model are exactly this
    coordinate-indexed content; the real code is tied to it by running every op under several layouts (op word `@<src><dst>`). -/
theorem C16_view_geometry_irrelevant (addrS addrD : Nat × Nat → Nat) (w h : Nat) (f : Int → Int) (memS memD : Nat → Int)
    (inj : ∀ p q, p ∈ gridPts w h → q ∈ gridPts w h → addrD p = addrD q → p = q) :
    (∀ x y, x < w → y < h →
        writeCells addrD (fun p => f (memS (addrS p))) (gridPts w h) memD (addrD (x, y)) = f (memS (addrS (x, y))))
    ∧ (∀ a, (∀ x y, x < w → y < h → addrD (x, y) ≠ a) →
        writeCells addrD (fun p => f (memS (addrS p))) (gridPts w h) memD a = memD a) := by
  constructor
  · intro x y hx hy
    exact writeCells_value addrD _ (gridPts w h) memD inj (x, y) ((mem_gridPts w h (x, y)).mpr ⟨hx, hy⟩)
  · intro a ha
    exact writeCells_frame addrD _ (gridPts w h) memD a (fun p hp => by
      have := (mem_gridPts w h p).mp hp
      exact ha p.1 p.2 this.1 this.2)

/-- a 3×2 ROI at (2,1) of a 9-wide canvas: its addressing is injective (hypothesis of `C16_view_geometry_irrelevant`), and the contiguous
    walk `cell = base + y·w + x` the seeded fast path used would address different cells from row 1 on -/
example : (∀ p q, p ∈ gridPts 3 2 → q ∈ gridPts 3 2 → (fun (p : Nat × Nat) => (p.2 + 1) * 9 + p.1 + 2) p = (fun (p : Nat × Nat) => (p.2 + 1) * 9 + p.1 + 2) q → p = q)
    ∧ (1 + 1) * 9 + 0 + 2 ≠ (0 + 1) * 9 + 2 + (1 * 3 + 0) := by
  refine ⟨?_, by decide⟩
  intro p q hp hq
  have h1 := (mem_gridPts 3 2 p).mp hp
  have h2 := (mem_gridPts 3 2 q).mp hq
  intro e; simp only at e
  apply Prod.ext <;> omega

/-! ### Otsu -/

/-- the histogram index computed from the scanned min/max lies in [0,255] (generated expression) -/
theorem C16_otsu_index_range (px mn mx : Int) (h1 : mn ≤ px) (h2 : px ≤ mx) :
    (0 ≤ otsu_index_u16 px mn mx ∧ otsu_index_u16 px mn mx ≤ 255)
    ∧ (0 ≤ otsu_index_i16 px mn mx ∧ otsu_index_i16 px mn mx ≤ 255)
    ∧ (0 ≤ otsu_index_i8 px mn mx ∧ otsu_index_i8 px mn mx ≤ 255) := by
  unfold otsu_index_u16 otsu_index_i16 otsu_index_i8
  by_cases h : mx = mn
  · simp [h]
  · simp only [h, if_false]
    have := tdiv_index_range (px - mn) (mx - mn) (by omega) (by omega) (by omega)
    exact ⟨this, this, this⟩

private theorem step_ok (c : Ch) (mn mx : Int) (hist : List Nat) (p : Int)
    (h : if c.scans then mn ≤ p ∧ p ≤ mx else 0 ≤ p ∧ p ≤ 255) :
    ∃ r, (if c.scans then (do let i ← otsuIndex c true p mn mx; histInc hist i) else histInc hist p) = Except.ok r := by
  cases c <;> simp only [Ch.scans, Bool.false_eq_true, if_false, if_true] at h ⊢
  · exact histInc_ok hist p h.1 h.2
  all_goals
    have hr := C16_otsu_index_range p mn mx h.1 h.2
    simp only [otsuIndex, if_true]
    first
      | exact histInc_ok hist _ hr.1.1 hr.1.2
      | exact histInc_ok hist _ hr.2.1.1 hr.2.1.2
      | exact histInc_ok hist _ hr.2.2.1 hr.2.2.2

private theorem buildHist_ok (c : Ch) (mn mx : Int) (pixels : List Int)
    (h : ∀ p ∈ pixels, (if c.scans then mn ≤ p ∧ p ≤ mx else 0 ≤ p ∧ p ≤ 255)) :
    ∃ r, buildHist c true mn mx pixels = .ok r := by
  unfold buildHist
  apply foldlM_ok
  intro hist p hp
  exact step_ok c mn mx hist p (h p hp)

theorem C16_otsu_no_ub (c : Ch) (inv : Bool) (pixels : List Int) (h : ∀ p ∈ pixels, c.lo ≤ p ∧ p ≤ c.hi) :
    ∃ r, otsuChannel c true inv pixels = .ok r := by
  have hb : ∃ r, buildHist c true
      (if c.scans then scanMinMax true (c.hi, c.lo) pixels else (c.hi, c.lo)).1
      (if c.scans then scanMinMax true (c.hi, c.lo) pixels else (c.hi, c.lo)).2 pixels = .ok r := by
    apply buildHist_ok
    intro p hp
    have hr := h p hp
    cases c <;> simp only [Ch.scans, Bool.false_eq_true, if_false, if_true]
    · simpa [Ch.lo, Ch.hi] using hr
    all_goals exact (scan_invariant pixels _ _).2.2 p hp
  obtain ⟨r, hr⟩ := hb
  have hv : ∃ t, otsuValue c true pixels = .ok t := by
    unfold otsuValue
    simp only [hr]
    split_ifs <;> exact ⟨_, rfl⟩
  obtain ⟨t, ht⟩ := hv
  unfold otsuChannel
  rw [ht]
  exact ⟨_, rfl⟩

/-- the output of Otsu is `threshold_binary` of the source for a single threshold value -/
theorem C16_otsu_output (c : Ch) (inv : Bool) (pixels r : List Int) (h : otsuChannel c true inv pixels = .ok r) :
    ∃ T, r = thresholdPlane c c (if inv then .binInv else .binReg) T c.hi pixels := by
  unfold otsuChannel at h
  cases hv : otsuValue c true pixels with
  | error e => rw [hv] at h; cases h
  | ok t =>
    rw [hv] at h
    exact ⟨t, by injection h with h; exact h.symm⟩

/-- pre-fix code (max never updated): machine-checked witnesses of both failures on 16-bit images -/
theorem C16_otsu_prefix_divzero_witness :
    otsuChannel .u16 false false [0, 0, 0, 0, 0, 0, 0, 0, 0] = .error .divZero := by rfl
theorem C16_otsu_prefix_index_witness :
    otsuChannel .u16 false false [5, 3] = .error .histIndex := by rfl
set_option maxRecDepth 100000 in
/-- the same inputs are fine in the current code -/
theorem C16_otsu_fixed_on_witnesses :
    otsuChannel .u16 true false [0, 0, 0, 0, 0, 0, 0, 0, 0] = .ok [0, 0, 0, 0, 0, 0, 0, 0, 0]
    ∧ otsuChannel .u16 true false [5, 3] = .ok [65535, 0] := ⟨by rfl, by rfl⟩

/-! ### Otsu: optimality of the selected bin -/

/-- the bin the variance loop of `otsu_impl` selects is the FIRST maximiser of the between-class variance `otsuVar`
    (integer class means, as the code computes them) over all 256 candidate bins, for every histogram whose entries
    add up to the pixel count -/
theorem C16_otsu_optimal (hist : List Nat) (total : Int) (htot : total = cumW hist 256) :
    ∃ T : Nat, otsuThreshold hist total = (T : Int) ∧ T < 256
      ∧ (∀ t, t < 256 → otsuVar hist total t ≤ otsuVar hist total T)
      ∧ (∀ t, t < T → otsuVar hist total t < otsuVar hist total T) := by
  obtain ⟨_, _, ub, nonneg, arg⟩ := otsuInv_run hist total htot 256 (Nat.le_refl _)
  rw [otsuThreshold_eq]
  rcases arg with ⟨h0, hT⟩ | ⟨T, hT, hlt, hv, hpos, hfirst⟩
  · refine ⟨0, hT, by omega, fun t ht => ?_, fun t ht => by omega⟩
    have := ub t ht
    have := otsuVar_nonneg hist total htot 0 (by omega)
    omega
  · refine ⟨T, hT, hlt, fun t ht => ?_, fun t ht => ?_⟩
    · have := ub t ht; omega
    · have := hfirst t ht; omega

/-- size of the between-class variance: 0 ≤ v ≤ total²·255² for every candidate, so for images of at most 372 000 pixels every value the
    variance loop forms (the code multiplies in `double`) is an integer below 2^53, exactly representable: the exact-`Int` model of the loop
    and the `double` code agree there (quantifies the "double vs Int" assumption) -/
theorem C16_otsu_variance_fits_double (hist : List Nat) (total : Int) (htot : total = cumW hist 256) (t : Nat) (ht : t < 256) :
    0 ≤ otsuVar hist total t ∧ otsuVar hist total t ≤ total * total * (255 * 255)
    ∧ (total ≤ 372000 → otsuVar hist total t < 9007199254740992) := by
  have hT0 : 0 ≤ total := by rw [htot]; exact cumW_nonneg hist 256
  have b := otsuVar_le hist total htot t ht
  refine ⟨otsuVar_nonneg hist total htot t ht, b, fun hsmall => ?_⟩
  have tt : total * total ≤ 372000 * 372000 := Int.mul_le_mul hsmall hsmall hT0 (by omega)
  have := Int.mul_le_mul_of_nonneg_right tt (show (0 : Int) ≤ 255 * 255 by omega)
  generalize total * total = q at *
  omega

/-- the histogram `otsu_impl` builds has 256 bins that add up to the number of pixels (hypothesis of `C16_otsu_optimal`) -/
theorem C16_otsu_histogram_total (c : Ch) (tm : Bool) (mn mx : Int) (pixels : List Int) (hist : List Nat)
    (h : buildHist c tm mn mx pixels = .ok hist) : hist.length = 256 ∧ cumW hist 256 = (pixels.length : Int) :=
  buildHist_total c tm mn mx pixels hist h

/-- the histogram `otsu_impl` builds counts, in bin j, exactly the pixels whose bin (the translated index expression, or the pixel
    value itself for uint8) is j; every pixel falls into one of the 256 bins -/
theorem C16_otsu_histogram_counts (c : Ch) (tm : Bool) (mn mx : Int) (pixels : List Int) (hist : List Nat)
    (h : buildHist c tm mn mx pixels = .ok hist) (j : Nat) :
    hist.getD j 0 = (pixels.filter (inBin c tm mn mx j)).length
    ∧ ∀ px ∈ pixels, ∃ i : Int, binOf c tm mn mx px = .ok i ∧ 0 ≤ i ∧ i < 256 :=
  buildHist_counts c tm mn mx pixels hist h j

set_option maxRecDepth 100000 in
example : buildHist .u8 true 255 0 [7, 7, 9] = .ok ((List.replicate 7 0 ++ [2, 0, 1]) ++ List.replicate 246 0) := by rfl

/-- end to end: the value `otsu_impl` hands to `threshold_binary` is the first variance-maximising bin of the histogram of
    the pixels (rescaled to the scanned range for unsigned 16-bit sources), for every image of every size -/
theorem C16_otsu_threshold_maximises (c : Ch) (pixels : List Int) (v : Int) (h : otsuValue c true pixels = .ok v) :
    ∃ (hist : List Nat) (T : Nat),
      buildHist c true (if c.scans then scanMinMax true (c.hi, c.lo) pixels else (c.hi, c.lo)).1
        (if c.scans then scanMinMax true (c.hi, c.lo) pixels else (c.hi, c.lo)).2 pixels = .ok hist
      ∧ cumW hist 256 = (pixels.length : Int) ∧ T < 256
      ∧ (∀ t, t < 256 → otsuVar hist pixels.length t ≤ otsuVar hist pixels.length T)
      ∧ (∀ t, t < T → otsuVar hist pixels.length t < otsuVar hist pixels.length T)
      ∧ v = (if c = .u16 then c.wrap (otsu_rescale_u16 T
                (if c.scans then scanMinMax true (c.hi, c.lo) pixels else (c.hi, c.lo)).1
                (if c.scans then scanMinMax true (c.hi, c.lo) pixels else (c.hi, c.lo)).2) else c.wrap T) := by
  unfold otsuValue at h
  simp only at h
  cases hb : buildHist c true (if c.scans then scanMinMax true (c.hi, c.lo) pixels else (c.hi, c.lo)).1
      (if c.scans then scanMinMax true (c.hi, c.lo) pixels else (c.hi, c.lo)).2 pixels with
  | error e => rw [hb] at h; cases h
  | ok hist =>
    rw [hb] at h
    have htot := (C16_otsu_histogram_total c true _ _ pixels hist hb).2
    obtain ⟨T, hT, hlt, hmax, hfirst⟩ := C16_otsu_optimal hist pixels.length htot.symm
    refine ⟨hist, T, rfl, htot, hlt, hmax, hfirst, ?_⟩
    simp only [bind, Except.bind] at h
    rw [hT] at h
    by_cases hc : c = Ch.u16
    · rw [if_pos hc] at h; rw [if_pos hc]; exact (Except.ok.inj h).symm
    · rw [if_neg hc] at h; rw [if_neg hc]; exact (Except.ok.inj h).symm

/-! ### morphology: lattice laws for min / max over a neighbourhood relation -/

theorem C16_erode_le_src_le_dilate {P : Type} (pts : List P) (nb : P → P → Bool) (f : P → Int) (p : P) :
    erodeP pts nb f p ≤ f p ∧ f p ≤ dilateP pts nb f p := ⟨erodeP_le pts nb f p, le_dilateP pts nb f p⟩

theorem C16_morph_monotone {P : Type} (pts : List P) (nb : P → P → Bool) (f g : P → Int) (h : ∀ q, f q ≤ g q) (p : P) :
    erodeP pts nb f p ≤ erodeP pts nb g p ∧ dilateP pts nb f p ≤ dilateP pts nb g p := by
  constructor
  · rw [le_erodeP_iff]
    exact ⟨Int.le_trans (erodeP_le pts nb f p) (h p), fun q hq hn => Int.le_trans (erodeP_le_nb pts nb f p q hq hn) (h q)⟩
  · rw [dilateP_le_iff]
    exact ⟨Int.le_trans (h p) (le_dilateP pts nb g p), fun q hq hn => Int.le_trans (h q) (le_dilateP_nb pts nb g p q hq hn)⟩

/-- opening ≤ src ≤ closing for a symmetric neighbourhood relation -/
theorem C16_opening_le_src_le_closing {P : Type} (pts : List P) (nb : P → P → Bool) (f : P → Int)
    (hsym : ∀ p q, p ∈ pts → q ∈ pts → nb p q = nb q p) (p : P) (hp : p ∈ pts) :
    dilateP pts nb (erodeP pts nb f) p ≤ f p ∧ f p ≤ erodeP pts nb (dilateP pts nb f) p := by
  constructor
  · rw [dilateP_le_iff]
    refine ⟨erodeP_le pts nb f p, fun q hq hn => ?_⟩
    exact erodeP_le_nb pts nb f q p hp (by rw [← hsym p q hp hq]; exact hn)
  · rw [le_erodeP_iff]
    refine ⟨le_dilateP pts nb f p, fun q hq hn => ?_⟩
    exact le_dilateP_nb pts nb f q p hp (by rw [← hsym p q hp hq]; exact hn)

/-- ε δ ε = ε and δ ε δ = δ on the image points -/
private theorem erode_dilate_erode {P : Type} (pts : List P) (nb : P → P → Bool) (f : P → Int) (hsym : ∀ p q, p ∈ pts → q ∈ pts → nb p q = nb q p) (q : P) (hq : q ∈ pts) :
    erodeP pts nb (dilateP pts nb (erodeP pts nb f)) q = erodeP pts nb f q := by
  apply Int.le_antisymm
  · rw [le_erodeP_iff]
    constructor
    · exact Int.le_trans (erodeP_le pts nb _ q) (C16_opening_le_src_le_closing pts nb f hsym q hq).1
    · intro r hr hn
      exact Int.le_trans (erodeP_le_nb pts nb _ q r hr hn) (C16_opening_le_src_le_closing pts nb f hsym r hr).1
  · exact (C16_opening_le_src_le_closing pts nb (erodeP pts nb f) hsym q hq).2

private theorem dilate_erode_dilate {P : Type} (pts : List P) (nb : P → P → Bool) (f : P → Int) (hsym : ∀ p q, p ∈ pts → q ∈ pts → nb p q = nb q p) (q : P) (hq : q ∈ pts) :
    dilateP pts nb (erodeP pts nb (dilateP pts nb f)) q = dilateP pts nb f q := by
  apply Int.le_antisymm
  · exact (C16_opening_le_src_le_closing pts nb (dilateP pts nb f) hsym q hq).1
  · rw [dilateP_le_iff]
    constructor
    · exact Int.le_trans (C16_opening_le_src_le_closing pts nb f hsym q hq).2 (le_dilateP pts nb _ q)
    · intro r hr hn
      exact Int.le_trans (C16_opening_le_src_le_closing pts nb f hsym r hr).2 (le_dilateP_nb pts nb _ q r hr hn)

/-- opening and closing are idempotent (symmetric neighbourhood relation) -/
theorem C16_open_close_idempotent {P : Type} (pts : List P) (nb : P → P → Bool) (f : P → Int)
    (hsym : ∀ p q, p ∈ pts → q ∈ pts → nb p q = nb q p) (p : P) (hp : p ∈ pts) :
    dilateP pts nb (erodeP pts nb (dilateP pts nb (erodeP pts nb f))) p = dilateP pts nb (erodeP pts nb f) p
    ∧ erodeP pts nb (dilateP pts nb (erodeP pts nb (dilateP pts nb f))) p = erodeP pts nb (dilateP pts nb f) p := by
  constructor
  · exact dilateP_congr pts nb _ _ p (erode_dilate_erode pts nb f hsym p hp) (fun q hq => erode_dilate_erode pts nb f hsym q hq)
  · exact erodeP_congr pts nb _ _ p (dilate_erode_dilate pts nb f hsym p hp) (fun q hq => dilate_erode_dilate pts nb f hsym q hq)

/-- duality under complement (K − ·, e.g. K = 255 for 8-bit, K = 0 for negation): dilating the complement is the complement of
    the erosion and vice versa; ANY neighbourhood relation (any structuring element), any point set -/
theorem C16_erode_dilate_duality {P : Type} (pts : List P) (nb : P → P → Bool) (f : P → Int) (K : Int) (p : P) :
    dilateP pts nb (fun q => K - f q) p = K - erodeP pts nb f p
    ∧ erodeP pts nb (fun q => K - f q) p = K - dilateP pts nb f p := by
  unfold dilateP erodeP
  constructor
  · rw [← maxOver_compl, List.map_map]; rfl
  · rw [← minOver_compl, List.map_map]; rfl

/-- `dilate` / `erode` with m + n iterations = n iterations applied to the result of m iterations (any structuring element) -/
theorem C16_morph_iterations_compose (w h : Nat) (ker : List Int) (ks cy cx m n : Nat) (plane : List Int) :
    dilate w h ker ks cy cx (m + n) plane = dilate w h ker ks cy cx n (dilate w h ker ks cy cx m plane)
    ∧ erode w h ker ks cy cx (m + n) plane = erode w h ker ks cy cx n (erode w h ker ks cy cx m plane)
    ∧ dilate w h ker ks cy cx 0 plane = plane ∧ erode w h ker ks cy cx 0 plane = plane :=
  ⟨iterate_add _ m n plane, iterate_add _ m n plane, rfl, rfl⟩

/-- the symmetry hypothesis of `C16_opening_le_src_le_closing` is needed: `morph_impl` uses the SAME (not the reflected)
    structuring element for dilation and erosion, so with the one-sided element {self, right neighbour} the opening
    of [0, 5, 5] is [5, 5, 5] (not ≤ src) and the closing of [5, 0, 0] is [0, 0, 0] (not ≥ src) -/
theorem C16_opening_asymmetric_witness :
    opening 3 1 [0, 0, 0, 1, 0, 0, 0, 0, 0] 3 1 1 [0, 5, 5] = [5, 5, 5]
    ∧ closing 3 1 [0, 0, 0, 1, 0, 0, 0, 0, 0] 3 1 1 [5, 0, 0] = [0, 0, 0]
    ∧ pointSymmetric [0, 0, 0, 1, 0, 0, 0, 0, 0] 3 1 1 = false := by decide

/-! ### morphology: the `morph_impl` model -/

/-- erosion (`morph_impl`, erosion): the result is the greatest lower bound of the pixel itself and of every in-image
    neighbour selected by a non-zero structuring-element entry: entry in row r, column c selects offset (cx − c, cy − r) -/
theorem C16_morph_min (src : Int → Int → Int) (w h : Nat) (ker : List Int) (ks cy cx : Nat) (x y : Nat) (v : Int) :
    v ≤ morphAt src w h ker ks cy cx false x y ↔
      v ≤ src x y ∧ ∀ r c, r < ks → c < ks → ker.getD (r * ks + c) 0 ≠ 0 →
        inImg w h ((x : Int) + ((cx : Int) - (c : Int))) ((y : Int) + ((cy : Int) - (r : Int))) →
        v ≤ src ((x : Int) + ((cx : Int) - (c : Int))) ((y : Int) + ((cy : Int) - (r : Int))) := by
  unfold morphAt
  rw [le_foldl_iff (List.range ks) _
    (fun kr x' => ∀ kc ∈ List.range ks,
      (ker.getD ((((ks : Int) - 1 - (kr : Int)).toNat) * ks + (((ks : Int) - 1 - (kc : Int)).toNat)) 0 ≠ 0 →
        inImg w h ((x : Int) + ((cx : Int) - ((ks : Int) - 1 - (kc : Int)))) ((y : Int) + ((cy : Int) - ((ks : Int) - 1 - (kr : Int)))) →
        x' ≤ src ((x : Int) + ((cx : Int) - ((ks : Int) - 1 - (kc : Int)))) ((y : Int) + ((cy : Int) - ((ks : Int) - 1 - (kr : Int))))))]
  · constructor
    · rintro ⟨h0, hall⟩
      refine ⟨h0, fun r c hr hc hk hin => ?_⟩
      have := hall (ks - 1 - r) (by simp; omega) (ks - 1 - c) (by simp; omega)
      have e1 : (((ks : Int) - 1 - ((ks - 1 - c : Nat) : Int)).toNat) = c := by omega
      have e2 : (((ks : Int) - 1 - ((ks - 1 - r : Nat) : Int)).toNat) = r := by omega
      have e3 : ((ks : Int) - 1 - ((ks - 1 - c : Nat) : Int)) = (c : Int) := by omega
      have e4 : ((ks : Int) - 1 - ((ks - 1 - r : Nat) : Int)) = (r : Int) := by omega
      rw [e1, e2, e3, e4] at this
      exact this hk hin
    · rintro ⟨h0, hall⟩
      refine ⟨h0, fun kr hkr kc hkc hk hin => ?_⟩
      have hkr' : kr < ks := by simpa using hkr
      have hkc' : kc < ks := by simpa using hkc
      have := hall (ks - 1 - kr) (ks - 1 - kc) (by omega) (by omega)
      have e1 : (((ks : Int) - 1 - (kc : Int)).toNat) = ks - 1 - kc := by omega
      have e2 : (((ks : Int) - 1 - (kr : Int)).toNat) = ks - 1 - kr := by omega
      have e3 : (((ks - 1 - kc : Nat)) : Int) = (ks : Int) - 1 - (kc : Int) := by omega
      have e4 : (((ks - 1 - kr : Nat)) : Int) = (ks : Int) - 1 - (kr : Int) := by omega
      rw [e1, e2] at hk
      rw [e3, e4] at this
      exact this hk hin
  · intro acc kr x'
    rw [le_foldl_iff (List.range ks) _
      (fun kc x'' =>
        (ker.getD ((((ks : Int) - 1 - (kr : Int)).toNat) * ks + (((ks : Int) - 1 - (kc : Int)).toNat)) 0 ≠ 0 →
          inImg w h ((x : Int) + ((cx : Int) - ((ks : Int) - 1 - (kc : Int)))) ((y : Int) + ((cy : Int) - ((ks : Int) - 1 - (kr : Int)))) →
          x'' ≤ src ((x : Int) + ((cx : Int) - ((ks : Int) - 1 - (kc : Int)))) ((y : Int) + ((cy : Int) - ((ks : Int) - 1 - (kr : Int))))))]
    intro acc' kc x''
    simp only [inImg, Bool.false_eq_true, if_false]
    split_ifs with hz hin
    · constructor
      · intro hle; exact ⟨hle, fun hh => absurd hz hh⟩
      · rintro ⟨h1, _⟩; exact h1
    · constructor
      · intro hle; exact ⟨by omega, fun _ _ => by omega⟩
      · rintro ⟨h1, h2⟩; have := h2 hz hin; omega
    · constructor
      · intro hle; exact ⟨hle, fun _ hh => absurd hh hin⟩
      · rintro ⟨h1, _⟩; exact h1

/-- dilation (`morph_impl`, dilation): the result is the least upper bound of the pixel itself and of every in-image
    neighbour selected by a non-zero structuring-element entry: entry in row r, column c selects offset (cx − c, cy − r) -/
theorem C16_morph_max (src : Int → Int → Int) (w h : Nat) (ker : List Int) (ks cy cx : Nat) (x y : Nat) (v : Int) :
    morphAt src w h ker ks cy cx true x y ≤ v ↔
      src x y ≤ v ∧ ∀ r c, r < ks → c < ks → ker.getD (r * ks + c) 0 ≠ 0 →
        inImg w h ((x : Int) + ((cx : Int) - (c : Int))) ((y : Int) + ((cy : Int) - (r : Int))) →
        src ((x : Int) + ((cx : Int) - (c : Int))) ((y : Int) + ((cy : Int) - (r : Int))) ≤ v := by
  unfold morphAt
  rw [foldl_le_iff (List.range ks) _
    (fun kr x' => ∀ kc ∈ List.range ks,
      (ker.getD ((((ks : Int) - 1 - (kr : Int)).toNat) * ks + (((ks : Int) - 1 - (kc : Int)).toNat)) 0 ≠ 0 →
        inImg w h ((x : Int) + ((cx : Int) - ((ks : Int) - 1 - (kc : Int)))) ((y : Int) + ((cy : Int) - ((ks : Int) - 1 - (kr : Int)))) →
        src ((x : Int) + ((cx : Int) - ((ks : Int) - 1 - (kc : Int)))) ((y : Int) + ((cy : Int) - ((ks : Int) - 1 - (kr : Int)))) ≤ x'))]
  · constructor
    · rintro ⟨h0, hall⟩
      refine ⟨h0, fun r c hr hc hk hin => ?_⟩
      have := hall (ks - 1 - r) (by simp; omega) (ks - 1 - c) (by simp; omega)
      have e1 : (((ks : Int) - 1 - ((ks - 1 - c : Nat) : Int)).toNat) = c := by omega
      have e2 : (((ks : Int) - 1 - ((ks - 1 - r : Nat) : Int)).toNat) = r := by omega
      have e3 : ((ks : Int) - 1 - ((ks - 1 - c : Nat) : Int)) = (c : Int) := by omega
      have e4 : ((ks : Int) - 1 - ((ks - 1 - r : Nat) : Int)) = (r : Int) := by omega
      rw [e1, e2, e3, e4] at this
      exact this hk hin
    · rintro ⟨h0, hall⟩
      refine ⟨h0, fun kr hkr kc hkc hk hin => ?_⟩
      have hkr' : kr < ks := by simpa using hkr
      have hkc' : kc < ks := by simpa using hkc
      have := hall (ks - 1 - kr) (ks - 1 - kc) (by omega) (by omega)
      have e1 : (((ks : Int) - 1 - (kc : Int)).toNat) = ks - 1 - kc := by omega
      have e2 : (((ks : Int) - 1 - (kr : Int)).toNat) = ks - 1 - kr := by omega
      have e3 : (((ks - 1 - kc : Nat)) : Int) = (ks : Int) - 1 - (kc : Int) := by omega
      have e4 : (((ks - 1 - kr : Nat)) : Int) = (ks : Int) - 1 - (kr : Int) := by omega
      rw [e1, e2] at hk
      rw [e3, e4] at this
      exact this hk hin
  · intro acc kr x'
    rw [foldl_le_iff (List.range ks) _
      (fun kc x'' =>
        (ker.getD ((((ks : Int) - 1 - (kr : Int)).toNat) * ks + (((ks : Int) - 1 - (kc : Int)).toNat)) 0 ≠ 0 →
          inImg w h ((x : Int) + ((cx : Int) - ((ks : Int) - 1 - (kc : Int)))) ((y : Int) + ((cy : Int) - ((ks : Int) - 1 - (kr : Int)))) →
          src ((x : Int) + ((cx : Int) - ((ks : Int) - 1 - (kc : Int)))) ((y : Int) + ((cy : Int) - ((ks : Int) - 1 - (kr : Int)))) ≤ x''))]
    intro acc' kc x''
    simp only [inImg, if_true]
    split_ifs with hz hin
    · constructor
      · intro hle; exact ⟨hle, fun hh => absurd hz hh⟩
      · rintro ⟨h1, _⟩; exact h1
    · constructor
      · intro hle; exact ⟨by omega, fun _ _ => by omega⟩
      · rintro ⟨h1, h2⟩; have := h2 hz hin; omega
    · constructor
      · intro hle; exact ⟨hle, fun _ hh => absurd hh hin⟩
      · rintro ⟨h1, _⟩; exact h1

/-- the `morph_impl` model IS the abstract erosion / dilation over the image's pixels with the neighbourhood relation of
    the structuring element (so every lattice law above applies to it) -/
theorem C16_morph_is_erode_dilate (src : Int → Int → Int) (w h : Nat) (ker : List Int) (ks cy cx : Nat) (x y : Nat) :
    morphAt src w h ker ks cy cx false x y
        = erodeP (imagePts w h) (nbK ker ks cy cx) (fun p => src p.1 p.2) ((x : Int), (y : Int))
    ∧ morphAt src w h ker ks cy cx true x y
        = dilateP (imagePts w h) (nbK ker ks cy cx) (fun p => src p.1 p.2) ((x : Int), (y : Int)) := by
  constructor
  · have key : ∀ v, v ≤ morphAt src w h ker ks cy cx false x y ↔
        v ≤ erodeP (imagePts w h) (nbK ker ks cy cx) (fun p => src p.1 p.2) ((x : Int), (y : Int)) := by
      intro v
      rw [C16_morph_min, le_erodeP_iff]
      constructor
      · rintro ⟨h0, hall⟩
        refine ⟨h0, fun q hq hn => ?_⟩
        obtain ⟨r, c, hr, hc, hk, e1, e2⟩ := (nbK_iff ker ks cy cx _ q).mp hn
        have hin := (mem_imagePts w h q).mp hq
        simp only at e1 e2
        have := hall r c hr hc hk (by rw [← e1, ← e2]; exact hin)
        rw [← e1, ← e2] at this; exact this
      · rintro ⟨h0, hall⟩
        refine ⟨h0, fun r c hr hc hk hin => ?_⟩
        exact hall ((x : Int) + ((cx : Int) - (c : Int)), (y : Int) + ((cy : Int) - (r : Int)))
          ((mem_imagePts w h _).mpr hin) ((nbK_iff ker ks cy cx _ _).mpr ⟨r, c, hr, hc, hk, rfl, rfl⟩)
    exact Int.le_antisymm ((key _).mp (Int.le_refl _)) ((key _).mpr (Int.le_refl _))
  · have key : ∀ v, morphAt src w h ker ks cy cx true x y ≤ v ↔
        dilateP (imagePts w h) (nbK ker ks cy cx) (fun p => src p.1 p.2) ((x : Int), (y : Int)) ≤ v := by
      intro v
      rw [C16_morph_max, dilateP_le_iff]
      constructor
      · rintro ⟨h0, hall⟩
        refine ⟨h0, fun q hq hn => ?_⟩
        obtain ⟨r, c, hr, hc, hk, e1, e2⟩ := (nbK_iff ker ks cy cx _ q).mp hn
        have hin := (mem_imagePts w h q).mp hq
        simp only at e1 e2
        have := hall r c hr hc hk (by rw [← e1, ← e2]; exact hin)
        rw [← e1, ← e2] at this; exact this
      · rintro ⟨h0, hall⟩
        refine ⟨h0, fun r c hr hc hk hin => ?_⟩
        exact hall ((x : Int) + ((cx : Int) - (c : Int)), (y : Int) + ((cy : Int) - (r : Int)))
          ((mem_imagePts w h _).mpr hin) ((nbK_iff ker ks cy cx _ _).mpr ⟨r, c, hr, hc, hk, rfl, rfl⟩)
    exact Int.le_antisymm ((key _).mpr (Int.le_refl _)) ((key _).mp (Int.le_refl _))

/-- a point-symmetric structuring element (entry (row r, column c) non-zero iff entry (2cy−r, 2cx−c) non-zero) gives a symmetric
    neighbourhood relation: the hypothesis of the opening/closing laws -/
theorem C16_symmetric_se (ker : List Int) (ks cy cx : Nat)
    (hsym : ∀ r c, r < ks → c < ks → ker.getD (r * ks + c) 0 ≠ 0 →
      2 * cy - r < ks ∧ 2 * cx - c < ks ∧ r ≤ 2 * cy ∧ c ≤ 2 * cx ∧ ker.getD ((2 * cy - r) * ks + (2 * cx - c)) 0 ≠ 0)
    (p q : Int × Int) : nbK ker ks cy cx p q = nbK ker ks cy cx q p := by
  have one : ∀ p q, nbK ker ks cy cx p q = true → nbK ker ks cy cx q p = true := by
    intro p q hpq
    obtain ⟨r, c, hr, hc, hk, e1, e2⟩ := (nbK_iff ker ks cy cx p q).mp hpq
    obtain ⟨h1, h2, h3, h4, h5⟩ := hsym r c hr hc hk
    exact (nbK_iff ker ks cy cx q p).mpr ⟨2 * cy - r, 2 * cx - c, h1, h2, h5, by omega, by omega⟩
  cases hpq : nbK ker ks cy cx p q <;> cases hqp : nbK ker ks cy cx q p <;> try rfl
  · have := one q p hqp; rw [hpq] at this; cases this
  · have := one p q hpq; rw [hqp] at this; cases this


/-- duality on the `morph_impl` model itself: dilating the complement K − src is the complement of the erosion and vice versa,
    for ANY structuring element, centre, image size and pixel -/
theorem C16_morph_duality (src : Int → Int → Int) (w h : Nat) (ker : List Int) (ks cy cx : Nat) (K : Int) (x y : Nat) :
    morphAt (fun a b => K - src a b) w h ker ks cy cx true x y = K - morphAt src w h ker ks cy cx false x y
    ∧ morphAt (fun a b => K - src a b) w h ker ks cy cx false x y = K - morphAt src w h ker ks cy cx true x y := by
  have A := C16_morph_is_erode_dilate (fun a b => K - src a b) w h ker ks cy cx x y
  have B := C16_morph_is_erode_dilate src w h ker ks cy cx x y
  have D := C16_erode_dilate_duality (imagePts w h) (nbK ker ks cy cx) (fun p => src p.1 p.2) K ((x : Int), (y : Int))
  exact ⟨by rw [A.2, B.1]; exact D.1, by rw [A.1, B.2]; exact D.2⟩

/-- the opening / closing laws on the `morph_impl` model itself: for a point-symmetric structuring element, every image size and
    every pixel, dilate(erode(src)) ≤ src ≤ erode(dilate(src)) -/
theorem C16_model_opening_le_src_le_closing (src : Int → Int → Int) (w h : Nat) (ker : List Int) (ks cy cx : Nat)
    (hsym : ∀ r c, r < ks → c < ks → ker.getD (r * ks + c) 0 ≠ 0 →
      2 * cy - r < ks ∧ 2 * cx - c < ks ∧ r ≤ 2 * cy ∧ c ≤ 2 * cx ∧ ker.getD ((2 * cy - r) * ks + (2 * cx - c)) 0 ≠ 0)
    (x y : Nat) (hx : x < w) (hy : y < h) :
    morphAt (fun a b => morphAt src w h ker ks cy cx false a.toNat b.toNat) w h ker ks cy cx true x y ≤ src x y
    ∧ src x y ≤ morphAt (fun a b => morphAt src w h ker ks cy cx true a.toNat b.toNat) w h ker ks cy cx false x y := by
  have hp : ((x : Int), (y : Int)) ∈ imagePts w h := (mem_imagePts w h _).mpr ⟨by simp only; omega, by simp only; omega, by simp only; omega, by simp only; omega⟩
  have hpt : ∀ q ∈ imagePts w h, q = ((q.1.toNat : Int), (q.2.toNat : Int)) := by
    intro q hq
    have := (mem_imagePts w h q).mp hq
    unfold inImg at this
    apply Prod.ext <;> simp only <;> omega
  have hE : ∀ q ∈ imagePts w h, morphAt src w h ker ks cy cx false q.1.toNat q.2.toNat
      = erodeP (imagePts w h) (nbK ker ks cy cx) (fun p => src p.1 p.2) q := by
    intro q hq
    rw [(C16_morph_is_erode_dilate src w h ker ks cy cx q.1.toNat q.2.toNat).1, ← hpt q hq]
  have hD : ∀ q ∈ imagePts w h, morphAt src w h ker ks cy cx true q.1.toNat q.2.toNat
      = dilateP (imagePts w h) (nbK ker ks cy cx) (fun p => src p.1 p.2) q := by
    intro q hq
    rw [(C16_morph_is_erode_dilate src w h ker ks cy cx q.1.toNat q.2.toNat).2, ← hpt q hq]
  have L := C16_opening_le_src_le_closing (imagePts w h) (nbK ker ks cy cx) (fun p => src p.1 p.2)
    (fun p q _ _ => C16_symmetric_se ker ks cy cx hsym p q) ((x : Int), (y : Int)) hp
  constructor
  · rw [(C16_morph_is_erode_dilate _ w h ker ks cy cx x y).2,
      dilateP_congr (imagePts w h) (nbK ker ks cy cx) _ (erodeP (imagePts w h) (nbK ker ks cy cx) (fun p => src p.1 p.2))
        ((x : Int), (y : Int)) (hE _ hp) hE]
    exact L.1
  · rw [(C16_morph_is_erode_dilate _ w h ker ks cy cx x y).1,
      erodeP_congr (imagePts w h) (nbK ker ks cy cx) _ (dilateP (imagePts w h) (nbK ker ks cy cx) (fun p => src p.1 p.2))
        ((x : Int), (y : Int)) (hD _ hp) hD]
    exact L.2

private theorem erodeFn_eq (w h : Nat) (ker : List Int) (ks cy cx : Nat) (g : Int → Int → Int) (q : Int × Int) (hq : q ∈ imagePts w h) :
    erodeFn w h ker ks cy cx g q.1 q.2 = erodeP (imagePts w h) (nbK ker ks cy cx) (fun p => g p.1 p.2) q := by
  have hin := (mem_imagePts w h q).mp hq
  unfold inImg at hin
  have hpt : q = ((q.1.toNat : Int), (q.2.toNat : Int)) := by apply Prod.ext <;> simp only <;> omega
  unfold erodeFn
  rw [(C16_morph_is_erode_dilate g w h ker ks cy cx q.1.toNat q.2.toNat).1, ← hpt]

private theorem dilateFn_eq (w h : Nat) (ker : List Int) (ks cy cx : Nat) (g : Int → Int → Int) (q : Int × Int) (hq : q ∈ imagePts w h) :
    dilateFn w h ker ks cy cx g q.1 q.2 = dilateP (imagePts w h) (nbK ker ks cy cx) (fun p => g p.1 p.2) q := by
  have hin := (mem_imagePts w h q).mp hq
  unfold inImg at hin
  have hpt : q = ((q.1.toNat : Int), (q.2.toNat : Int)) := by apply Prod.ext <;> simp only <;> omega
  unfold dilateFn
  rw [(C16_morph_is_erode_dilate g w h ker ks cy cx q.1.toNat q.2.toNat).2, ← hpt]

/-- idempotence of opening and closing on the `morph_impl` model itself (compositions of `erodeFn` / `dilateFn`): for a
    point-symmetric structuring element, every image size and every pixel of the image -/
theorem C16_model_open_close_idempotent (src : Int → Int → Int) (w h : Nat) (ker : List Int) (ks cy cx : Nat)
    (hsym : ∀ r c, r < ks → c < ks → ker.getD (r * ks + c) 0 ≠ 0 →
      2 * cy - r < ks ∧ 2 * cx - c < ks ∧ r ≤ 2 * cy ∧ c ≤ 2 * cx ∧ ker.getD ((2 * cy - r) * ks + (2 * cx - c)) 0 ≠ 0)
    (x y : Nat) (hx : x < w) (hy : y < h) :
    dilateFn w h ker ks cy cx (erodeFn w h ker ks cy cx (dilateFn w h ker ks cy cx (erodeFn w h ker ks cy cx src))) x y
      = dilateFn w h ker ks cy cx (erodeFn w h ker ks cy cx src) x y
    ∧ erodeFn w h ker ks cy cx (dilateFn w h ker ks cy cx (erodeFn w h ker ks cy cx (dilateFn w h ker ks cy cx src))) x y
      = erodeFn w h ker ks cy cx (dilateFn w h ker ks cy cx src) x y := by
  have hp : ((x : Int), (y : Int)) ∈ imagePts w h := (mem_imagePts w h _).mpr ⟨by simp only; omega, by simp only; omega, by simp only; omega, by simp only; omega⟩
  have hs : ∀ p q, p ∈ imagePts w h → q ∈ imagePts w h → nbK ker ks cy cx p q = nbK ker ks cy cx q p :=
    fun p q _ _ => C16_symmetric_se ker ks cy cx hsym p q
  constructor
  · have L1 := fun q hq => erodeFn_eq w h ker ks cy cx src q hq
    have L2 := fun q hq => (dilateFn_eq w h ker ks cy cx (erodeFn w h ker ks cy cx src) q hq).trans
      (dilateP_congr (imagePts w h) (nbK ker ks cy cx) _ _ q (L1 q hq) L1)
    have L3 := fun q hq => (erodeFn_eq w h ker ks cy cx (dilateFn w h ker ks cy cx (erodeFn w h ker ks cy cx src)) q hq).trans
      (erodeP_congr (imagePts w h) (nbK ker ks cy cx) _ _ q (L2 q hq) L2)
    have L4 := fun q hq => (dilateFn_eq w h ker ks cy cx (erodeFn w h ker ks cy cx (dilateFn w h ker ks cy cx (erodeFn w h ker ks cy cx src))) q hq).trans
      (dilateP_congr (imagePts w h) (nbK ker ks cy cx) _ _ q (L3 q hq) L3)
    have I := (C16_open_close_idempotent (imagePts w h) (nbK ker ks cy cx) (fun p => src p.1 p.2) hs _ hp).1
    exact (L4 _ hp).trans (I.trans (L2 _ hp).symm)
  · have L1 := fun q hq => dilateFn_eq w h ker ks cy cx src q hq
    have L2 := fun q hq => (erodeFn_eq w h ker ks cy cx (dilateFn w h ker ks cy cx src) q hq).trans
      (erodeP_congr (imagePts w h) (nbK ker ks cy cx) _ _ q (L1 q hq) L1)
    have L3 := fun q hq => (dilateFn_eq w h ker ks cy cx (erodeFn w h ker ks cy cx (dilateFn w h ker ks cy cx src)) q hq).trans
      (dilateP_congr (imagePts w h) (nbK ker ks cy cx) _ _ q (L2 q hq) L2)
    have L4 := fun q hq => (erodeFn_eq w h ker ks cy cx (dilateFn w h ker ks cy cx (erodeFn w h ker ks cy cx (dilateFn w h ker ks cy cx src))) q hq).trans
      (erodeP_congr (imagePts w h) (nbK ker ks cy cx) _ _ q (L3 q hq) L3)
    have I := (C16_open_close_idempotent (imagePts w h) (nbK ker ks cy cx) (fun p => src p.1 p.2) hs _ hp).2
    exact (L4 _ hp).trans (I.trans (L2 _ hp).symm)

/-! ### morphology: the list-level functions the driver runs (`morph`, `opening`, `closing`) -/

/-- `morph` (one pass of `morph_impl` over a row-major plane) has w·h entries and entry (x, y) is `morphAt` on the plane -/
theorem C16_morph_list (w h : Nat) (ker : List Int) (ks cy cx : Nat) (d : Bool) (plane : List Int) :
    (morph w h ker ks cy cx d plane).length = h * w
    ∧ ∀ x y, x < w → y < h →
        (morph w h ker ks cy cx d plane).getD (y * w + x) 0 = morphAt (imgFn w plane) w h ker ks cy cx d x y := by
  unfold morph
  exact flatten_grid w (fun x y => morphAt (imgFn w plane) w h ker ks cy cx d x y) h

private theorem imgFn_morph (w h : Nat) (ker : List Int) (ks cy cx : Nat) (d : Bool) (plane : List Int) (q : Int × Int) (hq : q ∈ imagePts w h) :
    imgFn w (morph w h ker ks cy cx d plane) q.1 q.2 = morphAt (imgFn w plane) w h ker ks cy cx d q.1.toNat q.2.toNat := by
  have hin := (mem_imagePts w h q).mp hq
  unfold inImg at hin
  have := (C16_morph_list w h ker ks cy cx d plane).2 q.1.toNat q.2.toNat (by omega) (by omega)
  rw [← this]
  unfold imgFn
  rw [if_pos ⟨by omega, by omega⟩]

/-- opening ≤ src ≤ closing for the row-major planes the model (and, by the correspondence run, the real `opening` / `closing`)
    produces: point-symmetric structuring element, every image size, every pixel -/
theorem C16_opening_le_src_le_closing_list (w h : Nat) (ker : List Int) (ks cy cx : Nat) (plane : List Int)
    (hsym : ∀ r c, r < ks → c < ks → ker.getD (r * ks + c) 0 ≠ 0 →
      2 * cy - r < ks ∧ 2 * cx - c < ks ∧ r ≤ 2 * cy ∧ c ≤ 2 * cx ∧ ker.getD ((2 * cy - r) * ks + (2 * cx - c)) 0 ≠ 0)
    (x y : Nat) (hx : x < w) (hy : y < h) :
    (opening w h ker ks cy cx plane).getD (y * w + x) 0 ≤ plane.getD (y * w + x) 0
    ∧ plane.getD (y * w + x) 0 ≤ (closing w h ker ks cy cx plane).getD (y * w + x) 0 := by
  have hp : ((x : Int), (y : Int)) ∈ imagePts w h := (mem_imagePts w h _).mpr ⟨by simp only; omega, by simp only; omega, by simp only; omega, by simp only; omega⟩
  have hs : ∀ p q, p ∈ imagePts w h → q ∈ imagePts w h → nbK ker ks cy cx p q = nbK ker ks cy cx q p :=
    fun p q _ _ => C16_symmetric_se ker ks cy cx hsym p q
  have hsrc : plane.getD (y * w + x) 0 = imgFn w plane (x : Int) (y : Int) := by
    unfold imgFn; rw [if_pos ⟨by omega, by omega⟩]; simp
  have L := C16_opening_le_src_le_closing (imagePts w h) (nbK ker ks cy cx) (fun p => imgFn w plane p.1 p.2) hs _ hp
  have eE : ∀ q ∈ imagePts w h, imgFn w (morph w h ker ks cy cx false plane) q.1 q.2
      = erodeP (imagePts w h) (nbK ker ks cy cx) (fun p => imgFn w plane p.1 p.2) q :=
    fun q hq => (imgFn_morph w h ker ks cy cx false plane q hq).trans (erodeFn_eq w h ker ks cy cx (imgFn w plane) q hq)
  have eD : ∀ q ∈ imagePts w h, imgFn w (morph w h ker ks cy cx true plane) q.1 q.2
      = dilateP (imagePts w h) (nbK ker ks cy cx) (fun p => imgFn w plane p.1 p.2) q :=
    fun q hq => (imgFn_morph w h ker ks cy cx true plane q hq).trans (dilateFn_eq w h ker ks cy cx (imgFn w plane) q hq)
  constructor
  · have e : (opening w h ker ks cy cx plane).getD (y * w + x) 0
        = dilateP (imagePts w h) (nbK ker ks cy cx) (erodeP (imagePts w h) (nbK ker ks cy cx) (fun p => imgFn w plane p.1 p.2)) ((x : Int), (y : Int)) := by
      show (morph w h ker ks cy cx true (morph w h ker ks cy cx false plane)).getD (y * w + x) 0 = _
      rw [(C16_morph_list w h ker ks cy cx true _).2 x y hx hy, (C16_morph_is_erode_dilate _ w h ker ks cy cx x y).2]
      exact dilateP_congr (imagePts w h) (nbK ker ks cy cx) _ _ _ (eE _ hp) eE
    rw [e, hsrc]; exact L.1
  · have e : (closing w h ker ks cy cx plane).getD (y * w + x) 0
        = erodeP (imagePts w h) (nbK ker ks cy cx) (dilateP (imagePts w h) (nbK ker ks cy cx) (fun p => imgFn w plane p.1 p.2)) ((x : Int), (y : Int)) := by
      show (morph w h ker ks cy cx false (morph w h ker ks cy cx true plane)).getD (y * w + x) 0 = _
      rw [(C16_morph_list w h ker ks cy cx false _).2 x y hx hy, (C16_morph_is_erode_dilate _ w h ker ks cy cx x y).1]
      exact erodeP_congr (imagePts w h) (nbK ker ks cy cx) _ _ _ (eD _ hp) eD
    rw [e, hsrc]; exact L.2

private theorem opening_pts (w h : Nat) (ker : List Int) (ks cy cx : Nat) (plane : List Int) (q : Int × Int) (hq : q ∈ imagePts w h) :
    imgFn w (opening w h ker ks cy cx plane) q.1 q.2
      = dilateP (imagePts w h) (nbK ker ks cy cx) (erodeP (imagePts w h) (nbK ker ks cy cx) (fun p => imgFn w plane p.1 p.2)) q
    ∧ imgFn w (closing w h ker ks cy cx plane) q.1 q.2
      = erodeP (imagePts w h) (nbK ker ks cy cx) (dilateP (imagePts w h) (nbK ker ks cy cx) (fun p => imgFn w plane p.1 p.2)) q := by
  have eE : ∀ q ∈ imagePts w h, imgFn w (morph w h ker ks cy cx false plane) q.1 q.2
      = erodeP (imagePts w h) (nbK ker ks cy cx) (fun p => imgFn w plane p.1 p.2) q :=
    fun q hq => (imgFn_morph w h ker ks cy cx false plane q hq).trans (erodeFn_eq w h ker ks cy cx (imgFn w plane) q hq)
  have eD : ∀ q ∈ imagePts w h, imgFn w (morph w h ker ks cy cx true plane) q.1 q.2
      = dilateP (imagePts w h) (nbK ker ks cy cx) (fun p => imgFn w plane p.1 p.2) q :=
    fun q hq => (imgFn_morph w h ker ks cy cx true plane q hq).trans (dilateFn_eq w h ker ks cy cx (imgFn w plane) q hq)
  constructor
  · show imgFn w (morph w h ker ks cy cx true (morph w h ker ks cy cx false plane)) q.1 q.2 = _
    exact ((imgFn_morph w h ker ks cy cx true _ q hq).trans (dilateFn_eq w h ker ks cy cx _ q hq)).trans
      (dilateP_congr (imagePts w h) (nbK ker ks cy cx) _ _ q (eE q hq) eE)
  · show imgFn w (morph w h ker ks cy cx false (morph w h ker ks cy cx true plane)) q.1 q.2 = _
    exact ((imgFn_morph w h ker ks cy cx false _ q hq).trans (erodeFn_eq w h ker ks cy cx _ q hq)).trans
      (erodeP_congr (imagePts w h) (nbK ker ks cy cx) _ _ q (eD q hq) eD)

private theorem list_eq_of_imgFn (w h : Nat) (a b : List Int) (ha : a.length = h * w) (hb : b.length = h * w)
    (hpt : ∀ q ∈ imagePts w h, imgFn w a q.1 q.2 = imgFn w b q.1 q.2) : a = b := by
  apply List.ext_getElem (by rw [ha, hb])
  intro i h1 h2
  have hw : 0 < w := by
    rcases Nat.eq_zero_or_pos w with h0 | h0
    · subst h0; simp at ha; omega
    · exact h0
  have hi : i < h * w := by omega
  have hx : i % w < w := Nat.mod_lt _ hw
  have hy : i / w < h := (Nat.div_lt_iff_lt_mul hw).mpr hi
  have hidx : i / w * w + i % w = i := by rw [Nat.mul_comm]; exact Nat.div_add_mod i w
  generalize i % w = xx at hx hidx
  generalize i / w = yy at hy hidx
  have := hpt (((xx : Nat) : Int), ((yy : Nat) : Int)) ((mem_imagePts w h _).mpr ⟨by simp only; omega, by simp only; omega, by simp only; omega, by simp only; omega⟩)
  unfold imgFn at this
  simp only at this
  rw [if_pos ⟨by omega, by omega⟩, if_pos ⟨by omega, by omega⟩] at this
  simp only [Int.toNat_natCast, hidx] at this
  rw [List.getD_eq_getElem?_getD, List.getD_eq_getElem?_getD, List.getElem?_eq_getElem h1, List.getElem?_eq_getElem h2] at this
  simpa using this

/-- idempotence of `opening` and `closing` as functions on row-major planes (what the model returns and, by the correspondence run, the
    real functions): point-symmetric structuring element, every image size -/
theorem C16_open_close_idempotent_list (w h : Nat) (ker : List Int) (ks cy cx : Nat) (plane : List Int)
    (hsym : ∀ r c, r < ks → c < ks → ker.getD (r * ks + c) 0 ≠ 0 →
      2 * cy - r < ks ∧ 2 * cx - c < ks ∧ r ≤ 2 * cy ∧ c ≤ 2 * cx ∧ ker.getD ((2 * cy - r) * ks + (2 * cx - c)) 0 ≠ 0) :
    opening w h ker ks cy cx (opening w h ker ks cy cx plane) = opening w h ker ks cy cx plane
    ∧ closing w h ker ks cy cx (closing w h ker ks cy cx plane) = closing w h ker ks cy cx plane := by
  have hs : ∀ p q, p ∈ imagePts w h → q ∈ imagePts w h → nbK ker ks cy cx p q = nbK ker ks cy cx q p :=
    fun p q _ _ => C16_symmetric_se ker ks cy cx hsym p q
  have lenO : ∀ p, (opening w h ker ks cy cx p).length = h * w := fun p => (C16_morph_list w h ker ks cy cx true _).1
  have lenC : ∀ p, (closing w h ker ks cy cx p).length = h * w := fun p => (C16_morph_list w h ker ks cy cx false _).1
  constructor
  · apply list_eq_of_imgFn w h _ _ (lenO _) (lenO _)
    intro q hq
    have O1 := fun q hq => (opening_pts w h ker ks cy cx plane q hq).1
    rw [(opening_pts w h ker ks cy cx (opening w h ker ks cy cx plane) q hq).1, O1 q hq]
    have inner : ∀ r ∈ imagePts w h, erodeP (imagePts w h) (nbK ker ks cy cx) (fun p => imgFn w (opening w h ker ks cy cx plane) p.1 p.2) r
        = erodeP (imagePts w h) (nbK ker ks cy cx) (dilateP (imagePts w h) (nbK ker ks cy cx)
            (erodeP (imagePts w h) (nbK ker ks cy cx) (fun p => imgFn w plane p.1 p.2))) r :=
      fun r hr => erodeP_congr (imagePts w h) (nbK ker ks cy cx) _ _ r (O1 r hr) O1
    rw [dilateP_congr (imagePts w h) (nbK ker ks cy cx) _ _ q (inner q hq) inner]
    exact (C16_open_close_idempotent (imagePts w h) (nbK ker ks cy cx) (fun p => imgFn w plane p.1 p.2) hs q hq).1
  · apply list_eq_of_imgFn w h _ _ (lenC _) (lenC _)
    intro q hq
    have C1 := fun q hq => (opening_pts w h ker ks cy cx plane q hq).2
    rw [(opening_pts w h ker ks cy cx (closing w h ker ks cy cx plane) q hq).2, C1 q hq]
    have inner : ∀ r ∈ imagePts w h, dilateP (imagePts w h) (nbK ker ks cy cx) (fun p => imgFn w (closing w h ker ks cy cx plane) p.1 p.2) r
        = dilateP (imagePts w h) (nbK ker ks cy cx) (erodeP (imagePts w h) (nbK ker ks cy cx)
            (dilateP (imagePts w h) (nbK ker ks cy cx) (fun p => imgFn w plane p.1 p.2))) r :=
      fun r hr => dilateP_congr (imagePts w h) (nbK ker ks cy cx) _ _ r (C1 r hr) C1
    rw [erodeP_congr (imagePts w h) (nbK ker ks cy cx) _ _ q (inner q hq) inner]
    exact (C16_open_close_idempotent (imagePts w h) (nbK ker ks cy cx) (fun p => imgFn w plane p.1 p.2) hs q hq).2

/-- erode^n ≤ src ≤ dilate^n for the row-major planes `erode` / `dilate` return: ANY structuring element, any number of iterations,
    every image size, every pixel -/
theorem C16_erode_le_src_le_dilate_list (w h : Nat) (ker : List Int) (ks cy cx n : Nat) (plane : List Int)
    (x y : Nat) (hx : x < w) (hy : y < h) :
    (erode w h ker ks cy cx n plane).getD (y * w + x) 0 ≤ plane.getD (y * w + x) 0
    ∧ plane.getD (y * w + x) 0 ≤ (dilate w h ker ks cy cx n plane).getD (y * w + x) 0 := by
  have step : ∀ (d : Bool) (p : List Int), (morph w h ker ks cy cx d p).getD (y * w + x) 0
      = morphAt (imgFn w p) w h ker ks cy cx d x y ∧ p.getD (y * w + x) 0 = imgFn w p (x : Int) (y : Int) := by
    intro d p
    refine ⟨(C16_morph_list w h ker ks cy cx d p).2 x y hx hy, ?_⟩
    unfold imgFn; rw [if_pos ⟨by omega, by omega⟩]; simp
  unfold erode dilate
  induction n generalizing plane with
  | zero => exact ⟨Int.le_refl _, Int.le_refl _⟩
  | succ n ih =>
    simp only [iterate]
    have h1 := ih (morph w h ker ks cy cx false plane)
    have h2 := ih (morph w h ker ks cy cx true plane)
    have e1 := step false plane
    have e2 := step true plane
    have a := C16_morph_is_erode_dilate (imgFn w plane) w h ker ks cy cx x y
    have b := C16_erode_le_src_le_dilate (imagePts w h) (nbK ker ks cy cx) (fun p => imgFn w plane p.1 p.2) ((x : Int), (y : Int))
    simp only at b
    rw [← a.1, ← a.2, ← e1.2, ← e1.1, ← e2.1] at b
    exact ⟨Int.le_trans h1.1 b.1, Int.le_trans b.2 h2.2⟩

/-- regression witness of the fixed finding C16-morph-se-transposed (f4ff363): a horizontal 1×3 line (a symmetric
    structuring element) dilates a single bright pixel HORIZONTALLY, in the model of the code and in the Spec alike -/
theorem C16_se_orientation_witness :
    morph 3 3 [0, 0, 0, 1, 1, 1, 0, 0, 0] 3 1 1 true [0, 0, 0, 0, 9, 0, 0, 0, 0] = [0, 0, 0, 9, 9, 9, 0, 0, 0]
    ∧ morphSpec 3 3 [0, 0, 0, 1, 1, 1, 0, 0, 0] 3 1 1 true [0, 0, 0, 0, 9, 0, 0, 0, 0] = [0, 0, 0, 9, 9, 9, 0, 0, 0]
    ∧ pointSymmetric [0, 0, 0, 1, 1, 1, 0, 0, 0] 3 1 1 = true := by decide

/-! ### median -/

/-- `values[size/2]` after `nth_element` (= element size/2 of the sorted window) is a true median: at most size/2
    values are smaller and more than size/2 values are smaller or equal -/
theorem C16_median_rank (vals : List Int) (hne : vals ≠ []) : isMedian vals (medianOf vals) = true := by
  unfold isMedian medianOf
  have hperm := List.mergeSort_perm vals (fun a b => decide (a ≤ b))
  have hsorted : (vals.mergeSort (fun a b => decide (a ≤ b))).Pairwise (fun a b => a ≤ b) := by
    have := List.pairwise_mergeSort (le := fun (a b : Int) => decide (a ≤ b))
      (by intro a b c; simp only [decide_eq_true_eq]; omega)
      (by intro a b; simp only [Bool.or_eq_true, decide_eq_true_eq]; omega) vals
    simpa using this
  have hlen : (vals.mergeSort (fun a b => decide (a ≤ b))).length = vals.length := List.length_mergeSort vals
  have hpos : 0 < vals.length := List.length_pos_iff.mpr hne
  have hk : vals.length / 2 < (vals.mergeSort (fun a b => decide (a ≤ b))).length := by rw [hlen]; omega
  have hget : (vals.mergeSort (fun a b => decide (a ≤ b))).getD (vals.length / 2) 0
      = (vals.mergeSort (fun a b => decide (a ≤ b)))[vals.length / 2] := by
    rw [List.getD_eq_getElem?_getD, List.getElem?_eq_getElem hk]; rfl
  rw [hget]
  have hr := sorted_rank _ hsorted (vals.length / 2) hk
  have c1 := List.Perm.countP_eq (fun a => decide (a < (vals.mergeSort (fun a b => decide (a ≤ b)))[vals.length / 2])) hperm
  have c2 := List.Perm.countP_eq (fun a => decide (a ≤ (vals.mergeSort (fun a b => decide (a ≤ b)))[vals.length / 2])) hperm
  rw [List.countP_eq_length_filter, List.countP_eq_length_filter] at c1 c2
  simp only [Bool.and_eq_true, decide_eq_true_eq]
  rw [← c1, ← c2]
  exact hr

/-- the value `median_filter` writes is one of the window's values (never an interpolated or out-of-window value) -/
theorem C16_median_mem (vals : List Int) (hne : vals ≠ []) : medianOf vals ∈ vals := by
  unfold medianOf
  have hperm := List.mergeSort_perm vals (fun a b => decide (a ≤ b))
  have hlen : (vals.mergeSort (fun a b => decide (a ≤ b))).length = vals.length := List.length_mergeSort vals
  have hpos : 0 < vals.length := List.length_pos_iff.mpr hne
  have hk : vals.length / 2 < (vals.mergeSort (fun a b => decide (a ≤ b))).length := by rw [hlen]; omega
  rw [List.getD_eq_getElem?_getD, List.getElem?_eq_getElem hk]
  exact hperm.mem_iff.mp (List.getElem_mem hk)

/-- the window `median_filter` sorts is the k×k neighbourhood of (x, y) under edge replication -/
theorem C16_median_window (src : Int → Int → Int) (w h k : Nat) (x y : Nat) (hx : x < w) (hy : y < h) :
    medianWindow src w h k x y = medianWindowSpec src w h k x y := by
  unfold medianWindow medianWindowSpec
  simp only
  rw [GilVerif.Props.C15.C15_extend_boundary .extendConstant (k / 2) src w h (Or.inr (Or.inr ⟨rfl, by omega, by omega⟩))]
  unfold C15.extendBoundarySpec
  congr 1
  apply List.map_congr_left
  intro j hj
  have hj' : j < k := by simpa using hj
  apply List.map_congr_left
  intro i hi
  have hi' : i < k := by simpa using hi
  rw [GilVerif.Lemmas.C15.getD_imgFn (h + 2 * (k / 2)) (w + 2 * (k / 2))
    (fun j i => C15.ext2 .extendConstant src w h ((j : Int) - ((k / 2 : Nat) : Int)) ((i : Int) - ((k / 2 : Nat) : Int)))
    _ _ (by omega) (by omega) (by omega) (by omega)]
  simp only [C15.ext2]
  congr 2 <;> omega

/-- `median_filter` returns, for every pixel, a true median of its k×k neighbourhood under edge replication -/
theorem C16_median (src : Int → Int → Int) (w h k : Nat) (x y : Nat) (hx : x < w) (hy : y < h) (hk : 0 < k) :
    isMedian (medianWindowSpec src w h k x y) (medianAt src w h k x y) = true := by
  unfold medianAt
  rw [C16_median_window src w h k x y hx hy]
  apply C16_median_rank
  unfold medianWindowSpec
  apply List.ne_nil_of_mem (a := src (C15.clampI 0 ((w : Int) - 1) ((x : Int) + ((0 : Nat) : Int) - ((k / 2 : Nat) : Int)))
      (C15.clampI 0 ((h : Int) - 1) ((y : Int) + ((0 : Nat) : Int) - ((k / 2 : Nat) : Int))))
  simp only [List.mem_flatten, List.mem_map, List.mem_range]
  exact ⟨_, ⟨0, hk, rfl⟩, List.mem_map.mpr ⟨0, List.mem_range.mpr hk, rfl⟩⟩

/-- plane level: `median_filter` on a row-major plane has w·h entries and every entry is a true median of the k×k neighbourhood of its
    pixel under edge replication -/
theorem C16_median_filter_list (w h k : Nat) (plane : List Int) (hk : 0 < k) :
    (medianFilter w h k plane).length = h * w
    ∧ ∀ x y, x < w → y < h →
        isMedian (medianWindowSpec (imgFn w plane) w h k x y) ((medianFilter w h k plane).getD (y * w + x) 0) = true := by
  unfold medianFilter
  have g := flatten_grid w (fun x y => medianAt (imgFn w plane) w h k x y) h
  refine ⟨g.1, fun x y hx hy => ?_⟩
  rw [g.2 x y hx hy]
  exact C16_median (imgFn w plane) w h k x y hx hy hk

/-! ### non-vacuity -/

example : functor .u8 .u8 .binReg 101 100 200 = some 200 ∧ Ch.u8.lo ≤ 101 ∧ (101 : Int) ≤ Ch.u8.hi := by decide
example : functor .u16 .u8 .truncZeroReg 65535 100 0 = some 255 := by decide   -- narrowing to the result channel type
example : (∀ p ∈ [(-100 : Int), 100, 5], Ch.i8.lo ≤ p ∧ p ≤ Ch.i8.hi) := by decide
set_option maxRecDepth 100000 in
example : otsuChannel .i8 true false [-100, -100, 100] = .ok [0, 0, 127] := by rfl
/-- the 3×3 cross is point-symmetric about its centre: hypothesis of `C16_symmetric_se` -/
example : ∀ r c, r < 3 → c < 3 → [0, 1, 0, 1, 1, 1, 0, 1, (0:Int)].getD (r * 3 + c) 0 ≠ 0 →
    2 * 1 - r < 3 ∧ 2 * 1 - c < 3 ∧ r ≤ 2 * 1 ∧ c ≤ 2 * 1 ∧ [0, 1, 0, 1, 1, 1, 0, 1, (0:Int)].getD ((2 * 1 - r) * 3 + (2 * 1 - c)) 0 ≠ 0 := by
  intro r c hr hc
  have h1 : r = 0 ∨ r = 1 ∨ r = 2 := by omega
  have h2 : c = 0 ∨ c = 1 ∨ c = 2 := by omega
  rcases h1 with rfl | rfl | rfl <;> rcases h2 with rfl | rfl | rfl <;> decide
example : morph 3 3 [0, 1, 0, 1, 1, 1, 0, 1, 0] 3 1 1 true [1, 2, 3, 4, 5, 6, 7, 8, 9] = [4, 5, 6, 7, 8, 9, 8, 9, 9] := by decide
set_option maxRecDepth 100000 in
/-- hypothesis of `C16_otsu_optimal` on a concrete two-level histogram (3 pixels in bin 0, 2 in bin 255): bin 0 is selected -/
example : ((3 : Int) + 2 = cumW ([3] ++ List.replicate 254 0 ++ [2]) 256) ∧ otsuThreshold ([3] ++ List.replicate 254 0 ++ [2]) 5 = 0
    ∧ otsuVar ([3] ++ List.replicate 254 0 ++ [2]) 5 0 = 3 * 2 * 255 * 255 := by decide
example : isMedian [9, 1, 5, 3, 7] 5 = true ∧ isMedian [9, 1, 5, 3, 7] 7 = false ∧ [9, 1, 5, 3, (7:Int)] ≠ [] := by decide

end GilVerif.Props.C16
